"""C15 - a ModelProto and an IR model are treated alike; nothing untouched is lost.

spec/ProtoIR.tla models every proto wrapper (optimize, rewrite, fold_constants, remove_unused_*,
convert_version, replace_functions) step by step over an abstract model = function from
*carriers* to tokens, with aliasing between the caller's proto and the IR model.  TLC enumerates
(api, populated carriers, structural features) cases and, separately, tensor payload classes
(element type x storage form x shape class).  This harness turns every case into a real model, runs
the proto path and the IR path of the real API, projects the field-by-field proto differences back
onto carriers and compares with the property (VIOLATION) and with the implementation model
(SPEC-MISMATCH).
"""
from __future__ import annotations

import copy
import json
import os
import random
import struct

from . import core

LEVEL = "model_checking"

CUSTOM = "verif.custom"
LOCAL = "verif.local"
UNUSED = "verif.unused"
SRC_OPSET = 18
OLD_OPSET = 17          # below the native converter's range: convert_version(fallback=True) goes through the ONNX C API


def src_opset(api):
    return OLD_OPSET if api == "convert_old_fb" else SRC_OPSET
UP_OPSET = 20

APIS = ["optimize", "optimize_noinline", "rewrite", "rewrite_empty", "fold_constants", "fold_constants_infer", "remove_unused_nodes",
        "remove_unused_functions", "convert_same", "convert_up", "convert_down_fb", "convert_old_fb", "replace_functions"]
INPLACE = {"fold_constants", "fold_constants_infer", "remove_unused_nodes", "remove_unused_functions", "convert_same", "convert_up",
           "convert_down_fb", "convert_old_fb"}


# ------------------------------------------------------------------------------------------
# gamma: abstract case -> real ModelProto
# ------------------------------------------------------------------------------------------
def _md(obj, **kw):
    for k, v in kw.items():
        e = obj.metadata_props.add()
        e.key = k
        e.value = v


def _f32(name, vals, dims):
    from onnx import TensorProto

    t = TensorProto()
    t.name = name
    t.data_type = TensorProto.FLOAT
    t.dims.extend(dims)
    t.raw_data = struct.pack(f"<{len(vals)}f", *vals)
    return t


def TensorProto_bool(name, value):
    from onnx import TensorProto

    t = TensorProto()
    t.name = name
    t.data_type = TensorProto.BOOL
    t.raw_data = b"\x01" if value else b"\x00"
    return t


def make_function(pop, name="F", feat=(), opset=SRC_OPSET):
    from onnx import TensorProto as T
    from onnx import helper

    nodes = [helper.make_node("Tanh", ["a0"], ["fs"], name=f"{name}_tanh")]
    last = "fs"
    if "foldable" in feat:
        # a constant sub-expression inside the function body (folding must reach model-local functions on both entry forms)
        nodes += [helper.make_node("Constant", [], ["fc1"], name=f"{name}_const", value=_f32("fc1t", [6.0, 8.0], [2, 1])),
                  helper.make_node("Neg", ["fc1"], ["fc2"], name=f"{name}_neg"),
                  helper.make_node("Add", ["fs", "fc2"], ["fs2"], name=f"{name}_add")]
        last = "fs2"
    nodes.append(helper.make_node("Sink", [last], ["r"], name=f"{name}_sink", domain=CUSTOM))
    fn = helper.make_function(LOCAL, name, ["a0"], ["r"], nodes,
                              opset_imports=[helper.make_opsetid("", opset), helper.make_opsetid(CUSTOM, 3)])
    if "func_meta" in pop:
        fn.doc_string = f"doc of function {name}"
        _md(fn, fkey=f"fval {name}")
        fn.node[0].doc_string = "doc of function node"
        _md(fn.node[0], fnkey="fnval")
        fn.value_info.append(helper.make_tensor_value_info("fs", T.FLOAT, [2, "N"]))
    return fn


def build_model(api, pop, feat, payloads=()):
    """The host model.  Witness elements (never needed to change by any API): nodes n_tanh, n_add,
    n_sink; initializer W0 (+ payload tensors); value t; graph input X / output Y; model-level fields."""
    from onnx import TensorProto as T
    from onnx import helper

    pop, feat = set(pop), set(feat)
    X = helper.make_tensor_value_info("X", T.FLOAT, [2, "N"])
    Y = helper.make_tensor_value_info("Y", T.FLOAT, ["M", 3])
    if "io_meta" in pop:
        X.doc_string = "doc of X"
        _md(X, xkey="xval")
        Y.doc_string = "doc of Y"
        _md(Y, ykey="yval", ykey2="")
    inputs, outputs, nodes, inits, vinfo = [X], [Y], [], [], []
    W0 = _f32("W0", [1.0, -0.0], [2, 1])
    inits.append(W0)
    sym = "symdims" in feat
    if sym:
        # connected values declare the same runtime extent under different dim_param names
        # (X: N, xi: batch, t: rows, output a: cols); nothing needs to rename any of them
        nodes.append(helper.make_node("Identity", ["X"], ["xi"], name="n_id"))
        vinfo.append(helper.make_tensor_value_info("xi", T.FLOAT, [2, "batch"]))
        outputs.append(helper.make_tensor_value_info("a", T.FLOAT, [2, "cols"]))
    n_tanh = helper.make_node("Tanh", ["xi" if sym else "X"], ["t"], name="n_tanh")
    n_add = helper.make_node("Add", ["t", "W0"], ["a"], name="n_add")
    nodes += [n_tanh, n_add]
    last = "a"
    if "foldable" in feat:
        cst = helper.make_node("Constant", [], ["c1"], name="n_const", value=_f32("c1t", [3.0, 4.0], [2, 1]))
        neg = helper.make_node("Neg", ["c1"], ["c2"], name="n_neg")
        add2 = helper.make_node("Add", [last, "c2"], ["a2"], name="n_add2")
        nodes += [cst, neg, add2]
        last = "a2"
    if "deadnode" in feat:
        nodes.append(helper.make_node("Tanh", ["X"], ["dead"], name="n_dead"))
    if "rewritable" in feat:
        nodes.append(helper.make_node("Transpose", [last], ["tr1"], name="n_tr1", perm=[1, 0]))
        nodes.append(helper.make_node("Transpose", ["tr1"], ["tr2"], name="n_tr2", perm=[1, 0]))
        last = "tr2"
    if "norev" in feat:
        # Mish is new in opset 18: onnx's C API converter refuses 18 -> 17 ("No Previous Version of Mish exists")
        nodes.append(helper.make_node("Mish", [last], ["mi"], name="n_mish"))
        last = "mi"
    if "constif" in feat:
        # two If nodes with a constant condition; each taken branch owns an initializer "w" that shadows the
        # main-graph "w", and the first free-looking name "w_1" is taken as well: inlining must not disturb w / w_1
        inits += [_f32("w", [1.0, 2.0], [2, 1]), _f32("w_1", [100.0, 200.0], [2, 1])]
        ct = TensorProto_bool("cond_true", True)
        inits.append(ct)
        nodes.append(helper.make_node("Add", [last, "w"], ["aw"], name="n_addw"))
        nodes.append(helper.make_node("Add", ["aw", "w_1"], ["aw1"], name="n_addw1"))
        last = "aw1"
        for k, vals in ((1, [10.0, 20.0]), (2, [30.0, 40.0])):
            tg = helper.make_graph([helper.make_node("Mul", [last, "w"], [f"ci_then{k}"], name=f"n_ci_mul{k}")], f"ci_then_g{k}", [],
                                   [helper.make_tensor_value_info(f"ci_then{k}", T.FLOAT, [2, "N"])], initializer=[_f32("w", vals, [2, 1])])
            eg = helper.make_graph([helper.make_node("Identity", [last], [f"ci_else{k}"], name=f"n_ci_id{k}")], f"ci_else_g{k}", [],
                                   [helper.make_tensor_value_info(f"ci_else{k}", T.FLOAT, [2, "N"])])
            nodes.append(helper.make_node("If", ["cond_true"], [f"ci{k}"], name=f"n_cif{k}", then_branch=tg, else_branch=eg))
            last = f"ci{k}"
    if "subgraph" in feat:
        C = helper.make_tensor_value_info("C", T.BOOL, [])
        inputs.append(C)
        tn = helper.make_node("Tanh", [last], ["th"], name="n_then_tanh")
        en = helper.make_node("Add", [last, "Wsub"], ["el"], name="n_else_add")
        Wsub = _f32("Wsub", [5.0, float("nan")], [2, 1])
        if "node_doc" in pop:
            tn.doc_string = "doc of then node"
        if "node_meta" in pop:
            _md(en, subkey="subval")
        if "init_doc" in pop:
            Wsub.doc_string = "doc of Wsub"
        then_g = helper.make_graph([tn], "then_g", [], [helper.make_tensor_value_info("th", T.FLOAT, [2, "N"])])
        else_g = helper.make_graph([en], "else_g", [], [helper.make_tensor_value_info("el", T.FLOAT, [2, "N"])], initializer=[Wsub])
        if "graph_doc" in pop:
            then_g.doc_string = "doc of then graph"
        if "graph_meta" in pop:
            _md(else_g, egkey="egval")
        nodes.append(helper.make_node("If", ["C"], ["iff"], name="n_if", then_branch=then_g, else_branch=else_g))
        last = "iff"
    if "call" in feat:
        nodes.append(helper.make_node("F", [last], ["fo"], name="n_call", domain=LOCAL))
        last = "fo"
    sink_in = [last] + [p.name for p in payloads]
    n_sink = helper.make_node("Sink", sink_in, ["Y"], name="n_sink", domain=CUSTOM, alpha=0.5, mode="keep", axes=[1, -1])
    n_sink.attribute.append(helper.make_attribute("wt", _f32("wt_name", [float("inf"), -0.0, 1e-45], [3])))
    nodes.append(n_sink)
    inits += [copy.deepcopy(p) for p in payloads]
    if "init_io" in feat:
        # an initializer that is an (overridable) graph input and is returned directly
        Wio = _f32("Wio", [7.0], [1])
        inits.append(Wio)
        vi = helper.make_tensor_value_info("Wio", T.FLOAT, [1])
        inputs.append(vi)
        outputs.append(copy.deepcopy(vi))
    if "node_doc" in pop:
        n_tanh.doc_string = "doc of n_tanh"
        n_sink.doc_string = "doc of n_sink"
    if "node_meta" in pop:
        _md(n_tanh, nkey="nval", namespace="a/b/c")
        _md(n_add, nkey="nval2")
        _md(n_sink, nkey="nval3")
    if "attr_doc" in pop:
        for a in n_sink.attribute:
            a.doc_string = f"doc of attribute {a.name}"
    if "value_info" in pop or "vi_meta" in pop or sym:
        vt = helper.make_tensor_value_info("t", T.FLOAT, [2, "rows" if sym else "N"])
        va = helper.make_tensor_value_info("a", T.FLOAT, [2, "N"])
        if "vi_meta" in pop:
            vt.doc_string = "doc of t"
            _md(vt, vkey="vval")
            _md(va, vkey="vval2")
        vinfo += [vt] if sym else [vt, va]      # with symdims `a` is a graph output (declared there)
    if "init_doc" in pop:
        for t in inits:
            t.doc_string = f"doc of {t.name}"
    if "init_meta" in pop:
        for t in inits:
            _md(t, ikey=f"ival {t.name}")
    g = helper.make_graph(nodes, "host_graph", inputs, outputs, initializer=inits, value_info=vinfo)
    if "graph_doc" in pop:
        g.doc_string = "doc of graph"
    if "graph_meta" in pop:
        _md(g, gkey="gval")
    opsets = [helper.make_opsetid("", src_opset(api)), helper.make_opsetid(CUSTOM, 3)]
    functions = []
    if api != "replace_functions":
        if "call" in feat:
            functions.append(make_function(pop, "F", feat, src_opset(api)))
        if "deadfunc" in feat:
            functions.append(make_function(pop, "G", feat, src_opset(api)))
    if "call" in feat or functions:
        opsets.append(helper.make_opsetid(LOCAL, 1))
    if "opset_unused" in pop:
        opsets.append(helper.make_opsetid(UNUSED, 7))
    kw = {}
    if "producer" in pop:
        kw.update(producer_name="verif-producer", producer_version="1.2.3")
    if "modelid" in pop:
        kw.update(domain="com.verif", model_version=42)
    if "model_doc" in pop:
        kw.update(doc_string="doc of model")
    m = helper.make_model(g, opset_imports=opsets, ir_version=12 if "ir_version" in pop else 10, functions=functions, **kw)
    if "producer" not in pop:
        m.ClearField("producer_name")
        m.ClearField("producer_version")
    if "model_meta" in pop:
        _md(m, mkey="mval", mkey2="mval2")
    return m


def api_functions(api, pop, feat):
    """the `functions` argument of replace_functions"""
    out = []
    if "call" in feat:
        out.append(make_function(pop, "F", feat))
    if "deadfunc" in feat:
        out.append(make_function(pop, "G", feat))
    return out


# ------------------------------------------------------------------------------------------
# running the real API: proto entry and IR entry
# ------------------------------------------------------------------------------------------
def call_api(api, model, pop, feat):
    """model: ModelProto or ir.Model.  Returns the API's return value."""
    import onnx

    from onnxscript import optimizer, rewriter, version_converter
    from onnxscript.utils import replace

    if api == "optimize":
        return optimizer.optimize(model)
    if api == "optimize_noinline":
        return optimizer.optimize(model, inline=False)
    if api == "rewrite":
        return rewriter.rewrite(model)
    if api == "rewrite_empty":
        return rewriter.rewrite(model, [])
    if api == "fold_constants":
        return optimizer.fold_constants(model)
    if api == "fold_constants_infer":
        return optimizer.fold_constants(model, onnx_shape_inference=True)
    if api == "remove_unused_nodes":
        return optimizer.remove_unused_nodes(model)
    if api == "remove_unused_functions":
        return optimizer.remove_unused_functions(model)
    if api == "convert_same":
        return version_converter.convert_version(model, SRC_OPSET)
    if api == "convert_up":
        return version_converter.convert_version(model, UP_OPSET)
    if api == "convert_down_fb":          # target below source: not supported natively -> ONNX C API
        return version_converter.convert_version(model, OLD_OPSET, fallback=True)
    if api == "convert_old_fb":           # source below 18: not supported natively -> ONNX C API
        return version_converter.convert_version(model, SRC_OPSET, fallback=True)
    if api == "replace_functions":
        fns = api_functions(api, pop, feat)
        if isinstance(model, onnx.ModelProto):
            return replace.replace_functions(model, fns)
        from onnxscript import ir

        replace.replace_functions_inplace(model, [ir.serde.deserialize_function(f) for f in fns])
        return model
    raise core.MachineryError(f"unknown api {api}")


# ------------------------------------------------------------------------------------------
# alpha: field-by-field proto difference, projected onto carriers
# ------------------------------------------------------------------------------------------
_KEYED = {
    "value_info": lambda x: x.name, "metadata_props": lambda x: x.key, "opset_import": lambda x: x.domain,
    "attribute": lambda x: x.name, "initializer": lambda x: x.name,
    "functions": lambda x: f"{x.domain}::{x.name}::{x.overload}", "external_data": lambda x: x.key,
    "attribute_proto": lambda x: x.name, "input": lambda x: x.name, "output": lambda x: x.name,
    "quantization_annotation": lambda x: x.tensor_name, "quant_parameter_tensor_names": lambda x: x.key,
}


def _scalar_eq(fd, x, y):
    if fd.type in (fd.TYPE_FLOAT, fd.TYPE_DOUBLE):
        return struct.pack("<d", x) == struct.pack("<d", y)
    return x == y


def _keys(fd, seq):
    name = fd.name
    if name == "node":
        names = [n.name for n in seq]
        if all(names) and len(set(names)) == len(names):
            return names
        return [f"#{i}" for i in range(len(seq))]
    k = _KEYED.get(name)
    if k is None:
        return [f"#{i}" for i in range(len(seq))]
    out, seen = [], {}
    for x in seq:
        kk = k(x)
        seen[kk] = seen.get(kk, 0) + 1
        out.append(kk if seen[kk] == 1 else f"{kk}#dup{seen[kk]}")
    return out


def pdiff(a, b, path=(), out=None):
    """All differences between two protobuf messages of the same type: list of (path, kind, detail);
    kind in lost / added / changed / default_vanished / default_appeared / reordered."""
    out = [] if out is None else out
    for fd in a.DESCRIPTOR.fields:
        name = fd.name
        if fd.is_repeated:
            va, vb = getattr(a, name), getattr(b, name)
            if not len(va) and not len(vb):
                continue
            if fd.type == fd.TYPE_MESSAGE:
                ka, kb = _keys(fd, va), _keys(fd, vb)
                ma, mb = dict(zip(ka, va)), dict(zip(kb, vb))
                for k in ka:
                    p = path + ((name, k),)
                    if k not in mb:
                        out.append((p, "lost", ""))
                    else:
                        pdiff(ma[k], mb[k], p, out)
                for k in kb:
                    if k not in ma:
                        out.append((path + ((name, k),), "added", ""))
                common_a = [k for k in ka if k in mb]
                common_b = [k for k in kb if k in ma]
                if common_a != common_b and name in ("node", "input", "output"):
                    out.append((path + ((name, None),), "reordered", f"{common_a} -> {common_b}"))
            else:
                la, lb = list(va), list(vb)
                same = len(la) == len(lb) and all(_scalar_eq(fd, x, y) for x, y in zip(la, lb))
                if not same:
                    kind = "lost" if not lb else ("added" if not la else "changed")
                    out.append((path + ((name, None),), kind, f"{la[:6]!r} -> {lb[:6]!r}"))
        elif fd.type == fd.TYPE_MESSAGE:
            ha, hb = a.HasField(name), b.HasField(name)
            p = path + ((name, None),)
            if ha and hb:
                pdiff(getattr(a, name), getattr(b, name), p, out)
            elif ha:
                out.append((p, "lost", ""))
            elif hb:
                out.append((p, "added", ""))
        else:
            ha, hb = a.HasField(name), b.HasField(name)
            if not ha and not hb:
                continue
            va, vb = getattr(a, name), getattr(b, name)
            p = path + ((name, None),)
            if ha and hb:
                if not _scalar_eq(fd, va, vb):
                    out.append((p, "changed", f"{va!r} -> {vb!r}"[:160]))
            elif ha:
                out.append((p, "default_vanished" if va == fd.default_value else "lost", f"{va!r}"[:80]))
            else:
                out.append((p, "default_appeared" if vb == fd.default_value else "added", f"{vb!r}"[:80]))
    return out


def path_text(p):
    return ".".join(f if k is None else f"{f}[{k}]" for f, k in p)


_OPSET_CARRIER = {"": "opset_main", CUSTOM: "opset_custom", LOCAL: "opset_local", UNUSED: "opset_unused"}


def _classify_graph(rest, init_names):
    if not rest:
        return "graph"
    f, k = rest[0]
    nxt = rest[1][0] if len(rest) > 1 else None
    if f == "name":
        return "graph_name"
    if f == "doc_string":
        return "graph_doc"
    if f == "metadata_props":
        return "graph_meta"
    if f in ("input", "output", "value_info") and rest[-1][0] == "dim_param":
        return "sym_dims"                      # a declared symbolic dimension name
    if f in ("input", "output"):
        return "io_meta" if nxt in ("doc_string", "metadata_props") else "io_sig"
    if f == "initializer":
        if nxt == "doc_string":
            return "init_doc"
        if nxt == "metadata_props":
            return "init_meta"
        return "init_payload"
    if f == "value_info":
        if nxt in ("doc_string", "metadata_props"):
            return "vi_meta"
        return "vi_implied" if k in init_names else "value_info"
    if f == "node":
        if nxt == "doc_string":
            return "node_doc"
        if nxt == "metadata_props":
            return "node_meta"
        if nxt == "attribute" and len(rest) > 2:
            sub = rest[2][0]
            if sub == "doc_string":
                return "attr_doc"
            if sub in ("t", "tensors"):
                return "attr_payload"
            if sub in ("g", "graphs"):
                return _classify_graph(rest[3:], init_names) if len(rest) > 3 else "node_struct"
        return "node_struct"
    return "other"


def classify(p, init_names=frozenset()):
    """carrier of a difference at path p (in a ModelProto)"""
    f, k = p[0]
    if f == "ir_version":
        return "ir_version"
    if f in ("producer_name", "producer_version"):
        return "producer"
    if f in ("domain", "model_version"):
        return "modelid"
    if f == "doc_string":
        return "model_doc"
    if f == "metadata_props":
        return "model_meta"
    if f == "opset_import":
        return _OPSET_CARRIER.get(k, "opset_other")
    if f == "functions":
        nxt = p[1][0] if len(p) > 1 else None
        if nxt in ("doc_string", "metadata_props") or (nxt == "value_info" and p[1][1] == "fs"):
            return "func_meta"
        if nxt == "node" and len(p) > 2 and p[2][0] in ("doc_string", "metadata_props"):
            return "func_meta"
        return "functions"
    if f == "graph":
        return _classify_graph(p[1:], init_names)
    return "other"


def element(p):
    """the model element a difference belongs to, e.g. ('node','n_tanh') / ('initializer','W0') / ('model',)"""
    if p[0][0] != "graph":
        if p[0][0] == "functions":
            return ("functions", p[0][1])
        if p[0][0] == "opset_import":
            return ("opset_import", p[0][1])
        return ("model",)
    el = ("graph",)
    i = 1
    nested = False
    while i < len(p):
        f, k = p[i]
        if f in ("node", "initializer", "value_info", "input", "output") and k is not None:
            # tensors / annotations owned by a subgraph are elements of their own (a branch may shadow an outer name)
            el = (f, k) if (f == "node" or not nested) else ("sub_" + f, k)
            if f == "node" and i + 2 < len(p) and p[i + 1][0] == "attribute" and p[i + 2][0] in ("g", "graphs"):
                nested = True
            if f == "node" and i + 2 < len(p) and p[i + 1][0] == "attribute" and p[i + 2][0] in ("g", "graphs"):
                i += 3
                continue
            if f == "node" and i + 1 < len(p) and p[i + 1][0] in ("input", "output"):
                el = ("node_io", k)
        break
    return el


# ------------------------------------------------------------------------------------------
# one case: both entry forms of the real API + the serde normal form N
# ------------------------------------------------------------------------------------------
# witness elements: what no API needs to change (the rest of the graph is the API's business)
def witness_elements(api, feat, payload_names=()):
    w = {("model",), ("graph",), ("node", "n_tanh"), ("node", "n_add"), ("node", "n_sink"), ("node_io", "n_tanh"), ("node_io", "n_add"),
         ("initializer", "W0"), ("value_info", "t"), ("value_info", "a"), ("input", "X"), ("output", "Y"),
         ("opset_import", ""), ("opset_import", CUSTOM), ("opset_import", LOCAL), ("opset_import", UNUSED),
         ("functions", f"{LOCAL}::F::"), ("functions", f"{LOCAL}::G::")}
    for n in payload_names:
        w.add(("initializer", n))
    if "subgraph" in feat:
        w |= {("node", "n_then_tanh"), ("node", "n_else_add"), ("node", "n_if"), ("input", "C")}
    if "init_io" in feat:
        # the input-with-default and its place in the signature (optimize's OutputFixPass needs to change them: io_sig / inits are in Need there)
        w |= {("input", "Wio"), ("output", "Wio")}
        if api not in ("optimize", "optimize_noinline"):
            w |= {("initializer", "Wio")}
    if "symdims" in feat:
        w |= {("output", "a")}
    if "constif" in feat:
        w |= {("initializer", "w"), ("initializer", "w_1"), ("node", "n_addw"), ("node", "n_addw1"), ("node_io", "n_addw1")}
    return frozenset(w)


def _N(m):
    from onnxscript import ir

    return ir.serde.serialize_model(ir.serde.deserialize_model(copy.deepcopy(m)))


LOSS = ("lost", "changed")
ANY = ("lost", "changed", "added", "reordered")   # a field explicitly set to its default == unset


def observe(api, pop, feat, payloads=()):
    """Runs the real code.  Returns a JSON-able observation."""
    import onnx

    from onnxscript import ir

    M = build_model(api, pop, feat, payloads)
    obs = {"raise": {}}
    init_names = frozenset(t.name for t in M.graph.initializer) | {"Wsub"}
    wit = witness_elements(api, feat, [p.name for p in payloads])
    # ---- serde normal form
    try:
        N1 = _N(M)
        N2 = _N(N1)
    except Exception as ex:  # noqa: BLE001
        obs["raise"]["serde"] = f"{type(ex).__name__}: {str(ex)[:200]}"
        return obs
    dn = pdiff(M, N1)
    obs["nloss"] = abstract_set(dn, init_names, wit, LOSS)
    obs["nadded"] = abstract_set(dn, init_names, wit, ("added", "reordered"))
    obs["nonidem"] = abstract_set(pdiff(N1, N2), init_names, wit, ANY)
    # ---- proto entry
    arg = copy.deepcopy(M)
    ret = None
    try:
        ret = call_api(api, arg, pop, feat)
    except Exception as ex:  # noqa: BLE001
        obs["raise"]["proto"] = f"{type(ex).__name__}: {str(ex)[:200]}"
    # ---- IR entry
    irm = ir.serde.deserialize_model(copy.deepcopy(M))
    I = None
    try:
        r2 = call_api(api, irm, pop, feat)
        obs["ir_returns_same_object"] = (r2 is irm) if r2 is not None and not isinstance(r2, (bool,)) and isinstance(r2, ir.Model) else None
        I = ir.serde.serialize_model(irm if not isinstance(r2, ir.Model) else r2)
    except Exception as ex:  # noqa: BLE001
        obs["raise"]["ir"] = f"{type(ex).__name__}: {str(ex)[:200]}"
    if "proto" in obs["raise"] or "ir" in obs["raise"]:
        return obs
    if api in INPLACE:
        P = arg
        obs["ret_is_arg"] = None
    else:
        if not isinstance(ret, onnx.ModelProto):
            obs["raise"]["proto"] = f"returned {type(ret).__name__}, not a ModelProto"
            return obs
        P = ret
        obs["ret_is_arg"] = ret is arg
    Pc = _N(P) if api == "rewrite_empty" else P   # identity API: compare modulo the serde normal form
    obs["diffPI"] = abstract_set(pdiff(I, Pc), init_names, wit, ANY)
    obs["lost"] = abstract_set(pdiff(N1, Pc), init_names, wit, LOSS, only_witness=True)
    obs["touched"] = abstract_set(pdiff(N1, I), init_names, wit, ANY)
    # the graph signature is a witness as a whole: an input / output that is ADDED (not only one that is lost or changed)
    # is a change of something the transformation may not need to change (session 6, seeded C15-m12 / C10-m12)
    for form, d in (("ModelProto entry", abstract_set(pdiff(N1, Pc), init_names, wit, ANY)), ("ir.Model entry", obs["touched"])):
        if "io_sig" in d and "io_sig" not in obs["lost"]:
            obs["lost"]["io_sig"] = [f"{form}: {t}" for t in d["io_sig"]]
    obs["argmut"] = {} if api in INPLACE else abstract_set(pdiff(M, arg), init_names, wit, ANY)
    return obs


# ------------------------------------------------------------------------------------------
# abstraction of observed differences onto the carriers of ProtoIR.tla
# ------------------------------------------------------------------------------------------
_FN_CARRIER = {f"{LOCAL}::F::": "fnF", f"{LOCAL}::G::": "fnG"}


def abstract_carrier(p, init_names, wit):
    """ProtoIR.tla carrier of a difference at path p"""
    c = classify(p, init_names)
    el = element(p)
    if c == "functions":
        return _FN_CARRIER.get(p[0][1], "fn_other")
    if c == "vi_implied":
        return "vi_implied"
    if c in ("node_struct", "value_info", "attr_payload") and el[0] in ("node", "node_io", "value_info", "sub_value_info") and el not in wit:
        return "nodes"
    if c == "init_payload" and el not in wit:
        return "inits"
    if c in ("init_doc", "init_meta") and el[0] == "sub_initializer":
        return "inits"                      # doc / metadata of a branch-owned tensor: part of the rest of the initializers
    if c == "node_struct":
        return "nodes"
    if c == "attr_payload":
        # the tensor-valued attribute of the witness node: a payload like an initializer
        last = [f for f, _ in p]
        if "metadata_props" in last:
            return "init_meta"
        if last[-1] == "doc_string" and "t" in last:
            return "init_doc"
        return "init_payload"
    return c


def abstract_set(diffs, init_names, wit, kinds, only_witness=False):
    out = {}
    for p, kind, detail in diffs:
        if kind not in kinds:
            continue
        if only_witness and element(p) not in wit:
            # (the doc / metadata of a branch-owned tensor that is still there is never needed to change either)
            if not (element(p)[0] == "sub_initializer" and classify(p, init_names) in ("init_doc", "init_meta")):
                continue
        out.setdefault(abstract_carrier(p, init_names, wit), []).append(f"{path_text(p)}: {kind} {detail}".strip()[:240])
    return out


# ------------------------------------------------------------------------------------------
# part 1: wrappers (ProtoIR.tla)
# ------------------------------------------------------------------------------------------
FIELDS = ("diffPI", "lost", "argmut", "nadded", "nonidem")
MISMATCH_LINES = 12
_WORKDIR = [None]


def _enter_workdir():
    """workers run inside a scratch directory that holds the external-data file"""
    if _WORKDIR[0] is None:
        d = core.scratch_sub(f"c15work_{os.getpid()}")
        with open(os.path.join(d, "weights.bin"), "wb") as f:
            f.write(bytes((i * 37 + 11) % 256 for i in range(8192)))
        os.chdir(d)
        _WORKDIR[0] = d
        import logging

        logging.disable(logging.WARNING)
    return _WORKDIR[0]


def run_wrapper_case(case):
    _enter_workdir()
    try:
        return observe(case["api"], case["pop"], case["feat"])
    except Exception as ex:  # noqa: BLE001  (harness failure: reported as machinery, not as a violation)
        import traceback

        return {"harness_error": traceback.format_exc()[-800:]}


def tlc_cases(ctx):
    cfg = "ProtoIR_quick.cfg" if ctx.quick else "ProtoIR_thorough.cfg"
    res = core.run_tlc("ProtoIR", cfg, timeout=3000)
    ctx.tlc(res, cfg)
    if not res.ok:
        raise core.MachineryError(f"TLC reports {res.violated} on {cfg} (design-level property or attribution fails):\n{res.out[-1500:]}")
    for inv in ("ImplAgrees", "ImplArgKept", "ImplIdem", "NeverTouches", "NeverSurvives"):
        v = core.run_tlc("ProtoIR", f"ProtoIR_vacuity_{inv}.cfg", timeout=600)
        ctx.tlc(v, f"vacuity:{inv}")
        if v.ok or v.violated != inv:
            raise core.MachineryError(f"vacuity: witness {inv} not reached in ProtoIR.tla ({v.violated})")
    cases = [json.loads(p[1]) for p in res.printed if p and p[0] == "CASE"]
    for c in cases:
        for k in ("pop", "feat", "touched", "need"):
            c[k] = sorted(c[k])
        c["impl"] = {f: sorted(c["impl"][f]) for f in FIELDS}
        c["why"] = {f: (c["why"][f] if isinstance(c["why"][f], dict) else {}) for f in FIELDS}
    cases.sort(key=lambda c: (c["api"], c["pop"], c["feat"]))
    return cases


def judge_wrapper_case(ctx, case, obs, counters):
    """compare one observation with the property and with the implementation model"""
    desc = {"api": case["api"], "pop": case["pop"], "feat": case["feat"], "model": case["impl"], "observed": obs}
    if "payload_cases" in case:
        desc["payload_cases"] = case["payload_cases"]
    if "harness_error" in obs:
        raise core.MachineryError(f"harness failed on {case['api']} {case['pop']} {case['feat']}:\n{obs['harness_error']}")
    if obs["raise"]:
        # a refusal is not a C15 matter unless only one entry form refuses
        counters["refused"] += 1
        if ("proto" in obs["raise"]) != ("ir" in obs["raise"]) or "serde" in obs["raise"]:
            ctx.report(desc, f"{case['api']}: entry forms disagree on refusal / serde raises: {obs['raise']}")
        return
    need = set(case["need"])
    seen = {
        "diffPI": obs["diffPI"],
        "lost": {c: v for c, v in obs["lost"].items() if c not in need},
        "argmut": obs["argmut"],
        "nadded": {c: v for c, v in obs["nadded"].items() if c != "vi_implied"},
        "nonidem": obs["nonidem"],
    }
    if obs["nloss"]:
        seen["nadded"] = dict(seen["nadded"], **obs["nloss"])     # M not included in N(M): reported with the serde findings
    for f in FIELDS:
        got, model = set(seen[f]), set(case["impl"][f])
        if got != model:
            counters["mismatch"] += 1
            if counters["mismatch"] <= MISMATCH_LINES:
                print(f"SPEC-MISMATCH C15 {f}: {case['api']} pop={case['pop']} feat={case['feat']} model={sorted(model)} impl={sorted(got)} "
                      f"{ {c: seen[f][c][:2] for c in got - model} }", flush=True)
        for c in sorted(got):
            why = case["why"][f].get(c) or []
            finding = why[0] if (c in model and why) else None
            what = {
                "diffPI": f"{case['api']}(ModelProto) differs from serialize({case['api']}(ir.Model)) in {c}",
                "lost": f"{case['api']}(ModelProto) does not need to change {c} but it differs from the serde round trip of the input",
                "argmut": f"{case['api']}(ModelProto) is not in-place but changed {c} of its argument",
                "nadded": f"serialize(deserialize(M)) is not M plus implied annotations: {c}",
                "nonidem": f"serialize(deserialize(.)) is not idempotent on {c}",
            }[f]
            # one replay file per (api, relation, carrier) is enough: at most two cases are reported, the rest counted
            key = ("dup", case["api"] if f in ("diffPI", "lost", "argmut") else "serde", f, c)
            if (finding is None or ctx.known_finding(finding) is None) and counters[key] >= 2:
                counters["suppressed_reports"] += 1
                continue
            counters[key] += 1
            ctx.report(desc, f"{what}: {seen[f][c][:3]}", finding=finding)
    tm, ti = set(case["touched"]) - {"vi_implied"}, set(obs["touched"]) - {"vi_implied"}
    if tm != ti:
        counters["mismatch"] += 1
        if counters["mismatch"] <= MISMATCH_LINES:
            print(f"SPEC-MISMATCH C15 touched: {case['api']} pop={case['pop']} feat={case['feat']} model={sorted(tm)} impl={sorted(ti)} "
                  f"{ {c: obs['touched'][c][:2] for c in ti - tm} }", flush=True)
    want_ret = case["ret"]
    got_ret = "inplace" if case["api"] in INPLACE else ("arg" if obs["ret_is_arg"] else "new")
    if want_ret != got_ret:
        ctx.report(desc, f"{case['api']}: returns {got_ret}, contract says {want_ret}")


def part1(ctx):
    import collections

    cases = tlc_cases(ctx)
    ctx.set("spec_cases", len(cases))
    results = core.pmap(run_wrapper_case, cases, chunksize=8)
    counters = collections.Counter()
    nontriv = set()
    for case, obs in zip(cases, results):
        ctx.add("evaluations")
        ctx.add("traces_validated_against_impl")
        judge_wrapper_case(ctx, case, obs, counters)
        if case["pop"] and (set(case["touched"]) - {"vi_implied"}):
            nontriv.add((case["api"], tuple(case["pop"]), tuple(case["feat"])))
        if case["pop"] and case["feat"]:
            ctx.sample({"api": case["api"], "pop": case["pop"], "feat": case["feat"], "model": case["impl"],
                        "observed": {f: sorted(obs.get(f, {})) for f in FIELDS}}, limit=4)
    ctx.set("model_impl_mismatches", counters["mismatch"])
    ctx.set("refused_cases", counters["refused"])
    ctx.add("suppressed_duplicate_reports", counters["suppressed_reports"])
    return nontriv, cases


# ------------------------------------------------------------------------------------------
# part 2: tensor payloads (TensorPayload.tla)
# ------------------------------------------------------------------------------------------
# (exponent bits, mantissa bits) of the float-like element types: only used to place the odd bit patterns
_FLOAT_FMT = {"FLOAT": (8, 23), "DOUBLE": (11, 52), "FLOAT16": (5, 10), "BFLOAT16": (8, 7), "FLOAT8E4M3FN": (4, 3),
              "FLOAT8E4M3FNUZ": (4, 3), "FLOAT8E5M2": (5, 2), "FLOAT8E5M2FNUZ": (5, 2), "FLOAT4E2M1": (2, 1), "FLOAT8E8M0": (8, 0)}
_SIGNED_INT = {"INT2", "INT4", "INT8", "INT16", "INT32", "INT64"}
_EXT_OFFSET = 4096


def dtype_table():
    from onnxscript import ir

    out = []
    for d in ir.DataType:
        try:
            bits = int(d.bitwidth)
        except Exception:  # noqa: BLE001  (UNDEFINED / STRING have no width)
            bits = 0
        out.append({"name": d.name, "value": int(d.value), "bits": bits})
    return out


def _unit_patterns(dtype, width, n, rng):
    """n bit patterns of `width` bits: NaN with payload, -0.0 / sign bit, smallest subnormal / 1, all ones, then seeded random bits"""
    if dtype == "BOOL":
        return [(j + 1) & 1 for j in range(n)]
    full = (1 << width) - 1
    if dtype in _FLOAT_FMT or dtype in ("COMPLEX64", "COMPLEX128"):
        e, m = _FLOAT_FMT.get(dtype, (8, 23) if dtype == "COMPLEX64" else (11, 52))
        nan = (((1 << e) - 1) << m) | ((1 << (m - 1)) if m >= 1 else 0) | (1 if m >= 2 else 0)
        odd = [nan & full, 1 << (width - 1), 1, full, (((1 << e) - 1) << m) & full]
    else:
        odd = [1 << (width - 1), full, 1, 0, full >> 1]
    return [odd[j] if j < len(odd) else rng.getrandbits(width) for j in range(n)]


def _pack_raw(units, width):
    if width >= 8:
        return b"".join(u.to_bytes(width // 8, "little") for u in units)
    per = 8 // width
    out = bytearray((len(units) + per - 1) // per)
    for j, u in enumerate(units):
        out[j // per] |= (u & ((1 << width) - 1)) << (width * (j % per))     # first element in the low bits
    return bytes(out)


def _signed(u, width):
    return u - (1 << width) if u >> (width - 1) else u


def make_payload(pc):
    """TLC payload case -> (TensorProto, expected bytes of the IR view or list of strings)"""
    from onnx import TensorProto

    dt, st, dims, n = pc["dtype"], pc["storage"], list(pc["dims"]), pc["numel"]
    rng = random.Random(f"{pc.get('seed', 0)}/{dt}/{st}/{pc['shape']}")
    t = TensorProto()
    t.name = f"p_{dt}_{st}_{pc['shape']}" + ("_m" if pc["meta"] else "")
    t.data_type = pc["value"]
    t.dims.extend(dims)
    if pc["meta"]:
        _md(t, pkey=f"pval {t.name}", pkey2="")
    if dt == "STRING":
        vals = [b"", b"\xff\xfe\x00", "hé".encode(), b"plain", bytes(rng.getrandbits(8) for _ in range(3))][:n]
        t.string_data.extend(vals)
        return t, [bytes(v) for v in vals]
    bits = next(x["bits"] for x in dtype_table() if x["name"] == dt)
    if st.startswith("external"):
        length = (n * bits + 7) // 8
        t.data_location = TensorProto.EXTERNAL
        kv = [("location", "weights.bin"), ("offset", str(_EXT_OFFSET)), ("length", str(length))]
        if st == "external_checksum":
            kv.append(("checksum", "da39a3ee5e6b4b0d3255bfef95601890afd80709"))
        for k, v in kv:
            e = t.external_data.add()
            e.key, e.value = k, v
        with open(os.path.join(_enter_workdir(), "weights.bin"), "rb") as f:
            f.seek(_EXT_OFFSET)
            return t, f.read(length)
    cplx = dt in ("COMPLEX64", "COMPLEX128")
    uw = bits // 2 if cplx else bits                  # width of one stored unit
    units = _unit_patterns(dt, uw, n * (2 if cplx else 1), rng)
    raw = _pack_raw(units, uw)
    if st == "raw":
        t.raw_data = raw
        return t, raw
    field = pc["field"]
    if field == "float_data":
        t.float_data.extend(struct.unpack(f"<{len(units)}f", _pack_raw(units, 32)))
    elif field == "double_data":
        t.double_data.extend(struct.unpack(f"<{len(units)}d", _pack_raw(units, 64)))
    elif field == "int64_data":
        t.int64_data.extend(_signed(u, 64) for u in units)
    elif field == "uint64_data":
        t.uint64_data.extend(units)
    elif field == "int32_data":
        if bits < 8:
            t.int32_data.extend(raw)                                   # packed bytes, one per entry
        elif dt in _SIGNED_INT:
            t.int32_data.extend(_signed(u, bits) for u in units)
        else:
            t.int32_data.extend(units)                                  # unsigned / bool / bit pattern of (b)float16, float8
    else:
        raise core.MachineryError(f"no typed field for {dt}")
    if len(getattr(t, field)) != pc["count"]:
        raise core.MachineryError(f"harness built {len(getattr(t, field))} entries of {field} for {t.name}, TensorPayload.tla says {pc['count']}")
    return t, raw


def _tensor_carrier(p):
    f = p[0][0]
    return {"metadata_props": "init_meta", "external_data": "external_keys", "doc_string": "init_doc"}.get(f, "init_payload")


def run_payload_case(pc):
    """IR view and serde round trip of one payload tensor (as initializer and as attribute)"""
    _enter_workdir()
    from onnxscript import ir

    try:
        tp, expect = make_payload(pc)
        obs = {"name": tp.name, "view": [], "changed": {}, "nonidem": {}}
        it = ir.serde.deserialize_tensor(tp)
        if it.dtype.name != pc["dtype"] or list(it.shape.numpy()) != list(pc["dims"]):
            obs["view"].append(f"dtype/shape read as {it.dtype.name}{list(it.shape.numpy())}")
        try:
            if pc["dtype"] == "STRING":
                got = [bytes(x) for x in it.string_data()]
            else:
                got = it.tobytes()
                if it.nbytes != pc["nbytes"]:
                    obs["view"].append(f"nbytes {it.nbytes}, ONNX storage rules give {pc['nbytes']}")
            if got != expect:
                obs["view"].append(f"content {got[:12]!r}..., stored bits are {expect[:12]!r}...")
        except Exception as ex:  # noqa: BLE001
            obs["view"].append(f"{type(ex).__name__}: {str(ex)[:120]}")
        # serde round trip inside a model: as initializer and as tensor attribute
        M = build_model("rewrite_empty", [], [], [tp])
        a = M.graph.node[-1].attribute.add()
        a.name, a.type = "payload_attr", 4
        a.t.CopyFrom(tp)
        N1 = _N(M)
        N2 = _N(N1)

        def tensors(m):
            return [next(t for t in m.graph.initializer if t.name == tp.name), next(x.t for x in m.graph.node[-1].attribute if x.name == "payload_attr")]

        for where, t0, t1, t2 in zip(("initializer", "attribute"), tensors(M), tensors(N1), tensors(N2)):
            for p, kind, detail in pdiff(t0, t1):
                if kind in ANY:
                    obs["changed"].setdefault(_tensor_carrier(p), []).append(f"{where} {path_text(p)}: {kind} {detail}"[:200])
            for p, kind, detail in pdiff(t1, t2):
                if kind in ANY:
                    obs["nonidem"].setdefault(_tensor_carrier(p), []).append(f"{where} {path_text(p)}: {kind} {detail}"[:200])
        return obs
    except core.MachineryError:
        raise
    except Exception as ex:  # noqa: BLE001
        import traceback

        return {"harness_error": traceback.format_exc()[-800:]}


def run_zoo_case(arg):
    """a batch of payload tensors as initializers of the host model, through one API (both entry forms)"""
    api, pop, pcs = arg
    _enter_workdir()
    try:
        tps = [make_payload(pc)[0] for pc in pcs]
        for t in tps:
            del t.metadata_props[:]          # metadata comes from the carrier switch of the host model
        return observe(api, pop, [], tps)
    except Exception:  # noqa: BLE001
        import traceback

        return {"harness_error": traceback.format_exc()[-800:]}


def part2(ctx, wrapper_cases):
    dt_file = os.path.join(core.scratch(), "c15_dtypes.json")
    core.write_tlc_json(dt_file, dtype_table())
    env = {"C15_DTYPES": dt_file}
    res = core.run_tlc("TensorPayload", "TensorPayload.cfg", env=env, timeout=600)
    ctx.tlc(res, "TensorPayload.cfg")
    if not res.ok:
        raise core.MachineryError(f"TLC reports {res.violated} on TensorPayload.cfg:\n{res.out[-1500:]}")
    for inv in ("ImplExact", "SomeSubByteTyped"):
        v = core.run_tlc("TensorPayload", f"TensorPayload_vacuity_{inv}.cfg", env=env, timeout=300)
        ctx.tlc(v, f"vacuity:{inv}")
        if v.ok or v.violated != inv:
            raise core.MachineryError(f"vacuity: witness {inv} not reached in TensorPayload.tla")
    pcs = [json.loads(p[1]) for p in res.printed if p and p[0] == "PAYLOAD"]
    pcs.sort(key=lambda c: (c["dtype"], c["storage"], c["shape"], c["meta"]))
    for pc in pcs:
        pc["seed"] = ctx.seed
    ctx.set("payload_cases", len(pcs))
    ctx.set("element_types", len({c["dtype"] for c in pcs}))
    outs = core.pmap(run_payload_case, pcs, chunksize=4)
    view_bad = 0
    import collections

    pay_seen = collections.Counter()
    for pc, o in zip(pcs, outs):
        ctx.add("evaluations")
        ctx.add("traces_validated_against_impl")
        if "harness_error" in o:
            raise core.MachineryError(f"harness failed on payload {pc}:\n{o['harness_error']}")
        desc = {"payload": pc, "observed": o}
        for f in ("changed", "nonidem"):
            got, model = set(o[f]), set(pc[f])
            if got != model:
                print(f"SPEC-MISMATCH C15 payload {f}: {o['name']} model={sorted(model)} impl={sorted(got)}", flush=True)
                ctx.add("model_impl_mismatches")
            for c in sorted(got):
                finding = None
                if c in model and pc["why"]:
                    finding = "tensor_meta_dup" if c == "init_meta" else ("external_keys_dropped" if c == "external_keys" else pc["why"][0])
                what = (f"tensor {o['name']}: serialize(deserialize(.)) changes {c}" if f == "changed"
                        else f"tensor {o['name']}: serde round trip is not idempotent on {c}")
                key = (f, c)
                if (finding is None or ctx.known_finding(finding) is None) and pay_seen[key] >= 2:
                    ctx.add("suppressed_duplicate_reports")
                    continue
                pay_seen[key] += 1
                ctx.report(desc, f"{what}: {o[f][c][:2]}", finding=finding)
        if o["view"]:
            # the IR's *view* of the stored bits (what passes compute with); the round trip itself is judged above
            view_bad += 1
            if view_bad <= 8:
                print(f"NOTE C15 IR view of {o['name']} departs from the ONNX storage rules: {o['view']}", flush=True)
        if pc["storage"] == "typed" and pc["shape"] == "vec":
            ctx.sample({"payload": pc, "observed": o}, limit=6)
    ctx.set("ir_view_departures", view_bad)
    # ---- the same payloads through every API (zoo models of ~16 tensors)
    by = {(c["api"], tuple(c["pop"]), tuple(c["feat"])): c for c in wrapper_cases}
    plain = [pc for pc in pcs if not pc["meta"] and pc["storage"] != "external_checksum"]
    rng = random.Random(ctx.seed)
    rng.shuffle(plain)
    size = 16
    batches = [plain[i:i + size] for i in range(0, len(plain), size)]
    jobs = []
    for bi, b in enumerate(batches):
        for api in APIS:
            if api.endswith("_fb"):
                continue    # the ONNX C API refuses models holding float8/int4/... tensors at these opsets; the pass is then a documented no-op
            pop = ["init_doc", "init_meta"] if bi % 3 == 2 else ["init_doc"]
            jobs.append((api, pop, b))
    zo = core.pmap(run_zoo_case, jobs, chunksize=1)
    import collections

    counters = collections.Counter()
    for (api, pop, b), o in zip(jobs, zo):
        ctx.add("evaluations")
        case = by.get((api, tuple(sorted(pop)), ()))
        if case is None:
            raise core.MachineryError(f"ProtoIR.tla produced no case for {api} pop={pop}")
        case = dict(case, payload_cases=b)
        judge_wrapper_case(ctx, case, o, counters)
    ctx.add("model_impl_mismatches", counters["mismatch"])
    ctx.add("suppressed_duplicate_reports", counters["suppressed_reports"])
    ctx.set("zoo_runs", len(jobs))
    return len(pcs)


def run(ctx: core.Ctx):
    nontriv, cases = part1(ctx)
    if not ctx.quick:
        des = core.run_tlc("ProtoIR", "ProtoIR_design.cfg", timeout=1500)
        ctx.tlc(des, "ProtoIR_design.cfg")
        if not des.ok:
            raise core.MachineryError(f"design-level wrapper model (no deviations) violates {des.violated}")
    npay = part2(ctx, cases)
    ctx.set("distinct_nontrivial", len(nontriv) + npay)
    ctx.set("exhaustive", not ctx.quick)
    ctx.set("rule", "part 1: cases = finished behaviours of ProtoIR.tla = api (13 entry points/argument forms, incl. convert_version(fallback=True) on two paths that take the ONNX C API) x switch set (17 populated carriers + 10 "
                    "structural features of the host graph (incl. differently named symbolic dims joined by Identity, and constant Ifs whose "
                    "branches own a shadowing initializer); all sets with <=2 (quick) / <=3 (thorough) switches on and all with <=1 / <=2 off: "
                    "pairwise / 3-wise complete); each is built as a real ModelProto and run through the proto entry point, the IR entry point and "
                    "serde twice; non-trivial = at least one populated carrier and the transformation changed something, distinct by (api, switches). "
                    "part 2: every (element type of the real ir.DataType enum x storage form x shape class x with/without metadata) of TensorPayload.tla, "
                    "each counted once, plus zoo models of 16 payload tensors through every api")
    ctx.assumptions += [
        "map-typed values, sparse initializers/attributes, training_info and non-UTF-8 string attributes are not generated (onnx_ir documents them as unsupported / ONNX requires UTF-8)",
        "a field explicitly set to its default value is treated as equal to the unset field",
        "for the identity form rewrite(model, []) the proto result is compared after one serde round trip (the api returns its argument, not a serialisation)",
        "what a pass needs to change on the host model (Need in ProtoIR.tla) is taken from the pass implementations; witness elements (n_tanh, n_add, n_sink, W0, payload tensors, value_info of t/a, X, Y, model-level fields) are never needed",
        "trailing empty node outputs and value_info entries naming values of other graphs are not generated",
    ]


def replay(ctx, path):
    with open(path) as f:
        case = json.load(f)["case"]
    _enter_workdir()
    if "payload" in case:
        now = run_payload_case(case["payload"])
        bad = bool(now.get("changed") or now.get("nonidem") or now.get("harness_error"))
    else:
        tps = []
        for pc in case.get("payload_cases", []):
            t = make_payload(pc)[0]
            del t.metadata_props[:]
            tps.append(t)
        now = observe(case["api"], case["pop"], case["feat"], tps)
        need = set()
        bad = bool(now.get("raise")) or any(now.get(f) for f in ("diffPI", "argmut", "nonidem")) or bool(set(now.get("nadded", {})) - {"vi_implied"})
    print(json.dumps({"case": {k: v for k, v in case.items() if k != "observed"}, "recorded": case.get("observed"), "now": now}, indent=1, default=str))
    return 1 if bad else 0
