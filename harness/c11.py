"""C11 - tensor indexing and slicing mean what they mean in NumPy.

spec/Indexing.tla enumerates (shape, index expression) cases, checks the design-level property
(DesignOK) and predicts, for every case, NumPy's result and what the converter lowering and the
eager lowering compute (implementation model incl. named deviations).  This harness replays the
cases into the real code: script function -> ORT, eager call, NumPy.
"""
from __future__ import annotations

import importlib
import os
import random
import sys

import numpy as np

from . import core

LEVEL = "model_checking"
NONE = 99


# ------------------------------------------------------------------ rendering
def comp_text(c) -> str:
    k = c["k"]
    if k == "int":
        return str(c["v"])
    if k in ("ts", "tv"):
        return "I"
    if k == "dsl":
        return "I:I + 1"
    s, e, st = c["s"], c["e"], c["st"]
    t = ("" if s == NONE else str(s)) + ":" + ("" if e == NONE else str(e))
    if st != NONE:
        t += ":" + str(st)
    return t


def expr_text(idx) -> str:
    return ", ".join(comp_text(c) for c in idx)


def index_tensor(idx):
    for c in idx:
        if c["k"] in ("ts", "dsl"):
            return np.array(c["v"], dtype=np.int64)
        if c["k"] == "tv":
            return np.array(c["vs"], dtype=np.int64)
    return np.array(0, dtype=np.int64)


def np_index(idx, I):
    out = []
    for c in idx:
        k = c["k"]
        if k == "int":
            out.append(c["v"])
        elif k in ("ts", "tv"):
            out.append(I)
        elif k == "dsl":
            out.append(slice(int(I), int(I) + 1))
        else:
            out.append(slice(*(None if v == NONE else v for v in (c["s"], c["e"], c["st"]))))
    return tuple(out)


def enc(a):
    a = np.asarray(a)
    return {"shape": list(a.shape), "data": [int(x) for x in a.reshape(-1)]}


def enc_spec(t):
    if t["dt"] == "ERR":
        return "ERR"
    return {"shape": list(t["shape"]), "data": list(t["data"])}


# ------------------------------------------------------------------ worker
_MODCOUNT = [0]


def run_group(arg):
    """arg = (expr, [(case_id, shape, idx), ...]) -> list of (case_id, numpy, graph, eager)"""
    expr, cases = arg
    d = core.scratch_sub("c11mods")
    _MODCOUNT[0] += 1
    name = f"c11m_{os.getpid()}_{_MODCOUNT[0]}"
    src = (
        "from onnxscript import script, INT64, opset18 as op\n\n"
        "@script(default_opset=op)\n"
        "def f(X: INT64[...], I: INT64[...]):\n"
        f"    return X[{expr}]\n"
    )
    path = os.path.join(d, name + ".py")
    with open(path, "w") as fh:
        fh.write(src)
    if d not in sys.path:
        sys.path.insert(0, d)
    f = None
    sess = None
    gerr = None
    import onnxruntime as ort

    ort.set_default_logger_severity(4)
    try:
        mod = importlib.import_module(name)
        f = mod.f
        sess = core.ort_session(f.to_model_proto())
    except Exception as e:  # refusal at decoration / session creation: an error outcome
        gerr = f"{type(e).__name__}: {str(e)[:120]}"
    out = []
    for cid, shape, idx in cases:
        X = np.arange(int(np.prod(shape)), dtype=np.int64).reshape(shape)
        I = index_tensor(idx)
        try:
            ref = enc(X[np_index(idx, I)])
        except Exception as e:
            ref = "ERR"
        if sess is None:
            g = "ERR"
        else:
            try:
                g = enc(sess.run(None, {"X": X, "I": I})[0])
            except Exception:
                g = "ERR"
        if f is None:
            ea = "NA"  # refused at decoration: the eager path cannot be observed
        else:
            try:
                ea = enc(f(X, I))
            except Exception:
                ea = "ERR"
        out.append((cid, ref, g, ea))
    try:
        os.remove(path)
    except OSError:
        pass
    sys.modules.pop(name, None)
    return out


# ------------------------------------------------------------------ main
def tlc_cases(ctx):
    import json

    cfgs = ["Indexing_quick.cfg"] if ctx.quick else ["Indexing_thorough.cfg", "Indexing_full2.cfg"]
    states = []
    for cfg in cfgs:
        res = core.run_tlc("Indexing", cfg, timeout=3000, heap="8g")
        ctx.tlc(res, cfg)
        if not res.ok:
            # design-level violation: the spec's own property fails -> machinery/design problem, not impl
            raise core.MachineryError(f"TLC reports {res.violated} on {cfg}:\n{res.out[-1500:]}")
        states += [json.loads(pr[1]) for pr in res.printed if pr and pr[0] == "CASE"]
        res.out = ""
        res.printed = []
    vac = core.run_tlc("Indexing", "Indexing_vacuity.cfg", timeout=600)
    if vac.ok:
        raise core.MachineryError("vacuity: no successful rank>=2 case reachable in Indexing.tla")
    return states


def nontrivial(s) -> bool:
    return s["np"]["dt"] != "ERR" and any(
        not (c["k"] == "sl" and c["s"] == NONE and c["e"] == NONE and c["st"] == NONE) for c in s["idx"]
    )


def run(ctx: core.Ctx):
    states = tlc_cases(ctx)
    rng = random.Random(ctx.seed)
    ctx.set("spec_cases", len(states))
    bykey: dict[str, list] = {}
    for s in states:
        key = expr_text(s["idx"]) + "|" + next((c["k"] for c in s["idx"] if c["k"] in ("ts", "tv", "dsl")), "")
        bykey.setdefault(key, []).append(s)
    keys = sorted(bykey)
    if ctx.quick:
        # one script function per index expression, reused for all its shapes / index tensors:
        # sample whole expressions; those whose implementation model departs from NumPy first (bounded)
        rng.shuffle(keys)
        dev = [k for k in keys if any(s["convWhy"] or s["eagerWhy"] for s in bykey[k])]
        rest = [k for k in keys if k not in set(dev)]
        keys = dev[:60] + rest[:700]
    elif len(states) > 160000:
        # thorough: every expression whose implementation model departs from NumPy, the rest sampled by seed
        rng.shuffle(keys)
        dev = [k for k in keys if any(s["convWhy"] or s["eagerWhy"] for s in bykey[k])]
        rest = [k for k in keys if k not in set(dev)]
        keys, n = [], 0
        for k in dev + rest:
            if n > 160000:
                break
            keys.append(k)
            n += len(bykey[k])
    chosen = []
    groups: dict[str, list] = {}
    for k in keys:
        for s in bykey[k]:
            groups.setdefault(k, []).append((len(chosen), list(s["shape"]), s["idx"]))
            chosen.append(s)
    items = [(k.split("|")[0], v) for k, v in groups.items()]
    results = core.pmap(run_group, items, chunksize=4)
    mismatch = 0
    nontriv = set()
    for grp in results:
        for cid, ref, g, ea in grp:
            s = chosen[cid]
            ctx.add("evaluations")
            case = {"shape": list(s["shape"]), "expr": expr_text(s["idx"]), "idx": s["idx"],
                    "numpy": ref, "graph": g, "eager": ea,
                    "spec": {"np": enc_spec(s["np"]), "conv": enc_spec(s["conv"]), "eager": enc_spec(s["eager"])}}
            if nontrivial(s):
                nontriv.add((tuple(s["shape"]), case["expr"], str(index_tensor(s["idx"]).tolist())))
            ctx.sample(case)
            spec_np = enc_spec(s["np"])
            if spec_np != ref:
                mismatch += 1
                print(f"SPEC-MISMATCH C11 numpy: {case['shape']} X[{case['expr']}] spec={spec_np} numpy={ref}")
            for path, got, pred, why in (("graph", g, enc_spec(s["conv"]), s["convWhy"]),
                                         ("eager", ea, enc_spec(s["eager"]), s["eagerWhy"])):
                if got == "NA":
                    continue
                if got != pred:
                    mismatch += 1
                    if mismatch <= 20:
                        print(f"SPEC-MISMATCH C11 {path}: {case['shape']} X[{case['expr']}] I={index_tensor(s['idx']).tolist()} model={pred} impl={got}")
                if got == "ERR" or ref == "ERR" or got == ref:
                    continue
                # the implementation returned a tensor different from NumPy's
                finding = None
                if got == pred and why:
                    finding = sorted(why)[0]
                ctx.report(case, f"{path}: X{case['shape']}[{case['expr']}] (I={index_tensor(s['idx']).tolist()}) "
                                 f"returns {got} but NumPy gives {ref}", finding=finding)
    ctx.set("distinct_nontrivial", len(nontriv))
    ctx.set("traces_validated_against_impl", ctx.coverage.get("evaluations", 0))
    ctx.set("model_impl_mismatches", mismatch)
    ctx.set("exhaustive", len(chosen) == len(states))
    ctx.set("rule", "cases = reachable 'done' states of Indexing.tla (shape x index tuple, bounds in the cfg); "
                    "non-trivial = NumPy result defined and at least one component is not ':'; "
                    "distinct by (shape, expression text, index tensor)")
    ctx.assumptions += [
        "onnxruntime (optimizations disabled) implements Slice/Squeeze/Gather as the ONNX operator text says",
        "index tuples with several tensor-valued components, or a 1-D tensor separated from an integer by a slice, are not generated (NumPy zip semantics, documented as unsupported)",
    ]


def replay(ctx, path):
    import json

    with open(path) as f:
        case = json.load(f)["case"]
    out = run_group((case["expr"], [(0, case["shape"], case["idx"])]))
    print(json.dumps({"case": case, "now": {"numpy": out[0][1], "graph": out[0][2], "eager": out[0][3]}}, indent=1))
    bad = any(r not in ("ERR", out[0][1]) for r in out[0][2:])
    return 1 if bad else 0
