"""C17 - generated opset classes mirror the ONNX operator schemas exactly.

spec/OpsetDispatch.tla reads the REAL schema registry (onnx.defs, dumped here to JSON), models what
opgen generates from it (class chain, one method per schema, parameter list inputs ++ attributes),
and runs `opsetN.Op(...)` as a state machine: attribute lookup along the class chain, dynamic lookup
(Opset.__getitem__/__contains__/__getattr__), Python's argument binding, get_schema(<constant>),
Opset._prepare_inputs' trimming loop, the call that reaches evaluator.eval_op.  TLC checks the
design-level property (Mirror, DynAgrees, TrimInv) on every (domain, op, N) and every call pattern.

The harness replays every TLC case into the real classes (direction A, with step-level observation:
get_schema / Op / _prepare_inputs / eval_op are recorded by wrappers installed at run time) and
compares  implementation vs property (VIOLATION)  and  implementation vs model (SPEC-MISMATCH).
Translation: the same attribute access is followed through converter callee resolution, the graph's
opset import and OnnxFunction.to_model_proto(opset_version=req), req in {none, N, M != N}; invariant
TransMirror: the model's standard opset import is the N of the opset class used (the argument only
decides when nothing can be inferred), so the node denotes the schema eager mode evaluates.  Every
TLC case is replayed through script()/to_model_proto.
Part 3 executes "defaults left out = bare node" and "eager = translated model" on onnxruntime for a
table of operators.
"""
from __future__ import annotations

import concurrent.futures
import inspect
import json
import os
import random
import re
import sys

import numpy as np

from . import core

LEVEL = "model_checking"

DOMKEY = {"": "onnx", "ai.onnx.ml": "ml", "ai.onnx.preview": "preview"}
KEYDOM = {v: k for k, v in DOMKEY.items()}
DEV = "deprecated_op_inherited"
WITNESSES = ["SomeInherited", "SomeInnerNone", "SomeVariadic", "SomeNoMethod", "SomeDeprecatedMasked",
             "SomeDefaulted", "SomeNoInputs", "SomeShadow", "SomeRequestedOther", "SomeNotInferred"]


# ------------------------------------------------------------------ registry dump (ONNX side)
def _tok(attr):
    """default value of a schema attribute as a string token (TLC cannot hold floats)"""
    import onnx

    if not attr.default_value.name:
        return None
    v = onnx.helper.get_attribute_value(attr.default_value)

    def one(x):
        if isinstance(x, (bytes, bytearray)):
            s = x.decode("utf-8")
            if not re.fullmatch(r"[A-Za-z0-9_ .\-]*", s):
                raise core.MachineryError(f"string default {s!r} not encodable")
            return "s:" + s
        if isinstance(x, bool):
            raise core.MachineryError("bool default")
        if isinstance(x, int):
            return "i:%d" % x
        if isinstance(x, float):
            return "f:" + x.hex()
        raise core.MachineryError(f"default of type {type(x)} not encodable")

    if isinstance(v, list):
        return "l:" + "|".join(one(x) for x in v)
    return one(v)


def untok(t):
    if t == "None":
        return None
    k, _, body = t.partition(":")
    if k == "i":
        return int(body)
    if k == "f":
        return float.fromhex(body)
    if k == "s":
        return body
    if k == "l":
        return tuple(untok(x) for x in body.split("|")) if body else ()
    raise core.MachineryError(f"bad default token {t!r}")


def registry():
    import onnx
    from onnx.defs import OpSchema

    opt = {OpSchema.FormalParameterOption.Single: "S", OpSchema.FormalParameterOption.Optional: "O",
           OpSchema.FormalParameterOption.Variadic: "V"}
    ops = {k: {} for k in DOMKEY.values()}
    for s in onnx.defs.get_all_schemas_with_history():
        if s.domain not in DOMKEY:
            continue
        e = {"since": int(s.since_version), "dep": bool(s.deprecated),
             "ins": [{"name": i.name, "opt": opt[i.option]} for i in s.inputs],
             "attrs": [{"name": n, "req": bool(a.required), "hasdef": _tok(a) is not None, "dflt": _tok(a) or "-",
                        "type": str(a.type).split(".")[-1]}
                       for n, a in sorted(s.attributes.items())]}
        for k, i in enumerate(e["ins"]):
            if i["opt"] == "V" and k != len(e["ins"]) - 1:
                raise core.MachineryError(f"{s.name}-{s.since_version}: variadic input is not last")
        ops[DOMKEY[s.domain]].setdefault(s.name, []).append(e)
    for d in ops:
        for n in ops[d]:
            ops[d][n].sort(key=lambda e: e["since"])
        ops[d]["NoSuchOp"] = []
    _cross_domain_probes(ops)
    maxver = {d: max(e["since"] for n in ops[d] for e in ops[d][n]) for d in ops}
    maxver["onnx"] = max(maxver["onnx"], int(onnx.defs.onnx_opset_version()))
    return {"maxver": maxver, "probe": {d: sorted(ops[d]) for d in ops}, "ops": ops}


def schema_entry(reg, d, name, since):
    for e in reg["ops"][d].get(name, []):
        if e["since"] == since:
            return e
    return None


# ------------------------------------------------------------------ TLC
def _filtered_dump(path, pcs):
    f = path + ".dump" if os.path.exists(path + ".dump") else path
    with open(f) as fh:
        text = fh.read()
    pat = re.compile(r'/\\ pc = "(\w+)"')
    out = []
    n = 0
    for b in core._STATE_SPLIT.split(text)[1:]:
        n += 1
        m = pat.search(b)
        if m and m.group(1) in pcs:
            out.append(core.parse_state_block(b))
    return out, n


def witness_registry(reg):
    """a small sub-registry on which the reachability witnesses are cheap: every operator with a deprecated version plus
    the first operator (by name) of each structural class.  Reachable there => reachable with the full registry."""
    def first(pred):
        for d in sorted(reg["ops"]):
            for n in sorted(reg["ops"][d]):
                if any(pred(e) for e in reg["ops"][d][n]):
                    return (d, n)
        raise core.MachineryError("registry has no operator for a witness class")
    picks = {(d, n) for d in reg["ops"] for n, h in reg["ops"][d].items() if any(e["dep"] for e in h)}
    picks.add(first(lambda e: e["ins"] and e["ins"][-1]["opt"] == "V" and len(e["ins"]) == 1))
    picks.add(first(lambda e: len(e["ins"]) >= 3 and [i["opt"] for i in e["ins"][-2:]] == ["O", "O"]))
    picks.add(first(lambda e: not e["ins"]))
    picks.add(first(lambda e: any(a["hasdef"] for a in e["attrs"])))
    ops = {d: {n: reg["ops"][d][n] for (dd, n) in picks if dd == d} for d in reg["ops"]}
    for d in ops:
        ops[d]["NoSuchOp"] = []
    _cross_domain_probes(ops)
    return {"maxver": reg["maxver"], "probe": {d: sorted(ops[d]) for d in ops}, "ops": ops}


def run_tlc_all(ctx, reg):
    d = core.scratch_sub("c17")
    sfile = os.path.join(d, "schemas.json")
    core.write_tlc_json(sfile, reg)
    wfile = os.path.join(d, "schemas_witness.json")
    core.write_tlc_json(wfile, witness_registry(reg))
    env = {"SCHEMAS_FILE": sfile}
    wenv = {"SCHEMAS_FILE": wfile}
    impl_cfg = "OpsetDispatch_quick.cfg" if ctx.quick else "OpsetDispatch_thorough.cfg"
    design_cfg = "OpsetDispatch_design.cfg" if ctx.quick else "OpsetDispatch_design_thorough.cfg"
    dump_path = os.path.join(d, "impl_dump")
    half = max(2, core.NCPU // 2 - 1)
    jobs = {
        "design": lambda: core.run_tlc("OpsetDispatch", design_cfg, env=env, workers=half, timeout=1500),
        "impl": lambda: core.run_tlc("OpsetDispatch", impl_cfg, env=env, workers=half, timeout=1500, extra=["-dump", dump_path]),
        "sig": lambda: core.run_tlc("OpsetSignatures", "OpsetSignatures.cfg", env=env, workers=1, timeout=600, heap="2g"),
    }
    small = {"canfail": lambda: core.run_tlc("OpsetDispatch", "OpsetDispatch_canfail.cfg", env=wenv, workers=1, timeout=900, heap="1g"),
             "canfail_trans": lambda: core.run_tlc("OpsetDispatch", "OpsetDispatch_canfail_trans.cfg", env=wenv, workers=1, timeout=900, heap="1g")}
    for w in WITNESSES:
        small["w_" + w] = (lambda w=w: core.run_tlc("OpsetDispatch", f"OpsetDispatch_w_{w}.cfg", env=wenv, workers=1, timeout=900, heap="1g"))
    res = {}
    jobs.update(small)
    with concurrent.futures.ThreadPoolExecutor(max_workers=len(jobs)) as ex:
        futs = {k: ex.submit(f) for k, f in jobs.items()}
        for k, f in futs.items():
            res[k] = f.result()
    ctx.tlc(res["design"], design_cfg)
    ctx.tlc(res["impl"], impl_cfg)
    ctx.tlc(res["sig"], "OpsetSignatures.cfg")
    if not res["design"].ok:
        raise core.MachineryError(f"design-level model violates {res['design'].violated} in OpsetDispatch.tla\n{res['design'].out[-2500:]}")
    if not res["impl"].ok:
        raise core.MachineryError(f"implementation model: {res['impl'].violated} (a departure no deviation explains)\n{res['impl'].out[-2500:]}")
    if res["canfail"].ok or res["canfail"].violated != "Mirror":
        raise core.MachineryError("vacuity: Mirror cannot fail (OpsetDispatch_canfail.cfg passed)")
    ctx.tlc(res["canfail"], "OpsetDispatch_canfail.cfg (witness registry; Mirror must fail)")
    if res["canfail_trans"].ok or res["canfail_trans"].violated != "TransMirror":
        raise core.MachineryError("vacuity: TransMirror cannot fail (OpsetDispatch_canfail_trans.cfg passed)")
    ctx.tlc(res["canfail_trans"], "OpsetDispatch_canfail_trans.cfg (witness registry; TransMirror must fail)")
    for w in WITNESSES:
        r = res["w_" + w]
        ctx.tlc(r, f"witness {w} (witness registry)")
        if r.ok or r.violated != w:
            raise core.MachineryError(f"vacuity: witness {w} unreachable")
    table = None
    for pr in res["sig"].printed:
        if pr and pr[0] == "SIGTABLE":
            table = json.loads(pr[1])
    if table is None:
        raise core.MachineryError("signature table not printed by TLC")
    states, total = _filtered_dump(dump_path, {"found", "nomethod", "done", "t_model"})
    if total != res["impl"].distinct:
        raise core.MachineryError(f"dump has {total} states, TLC reported {res['impl'].distinct}")
    # the same witnesses on the full run that is replayed (antecedents of the property really occur in it)
    done = [s for s in states if s["pc"] == "done"]
    full = {
        "inherited": any(s["owner"] < s["ver"] for s in done),
        "inner None kept while trailing None trimmed": any(s["pops"] > 0 and 0 in s["event"]["inputs"] for s in done),
        "variadic tail": any(len(s["pos"]) > len(s["inputs"]) - 1 and len(s["pos"]) >= 3 for s in done),
        "attribute defaulted": any(-1 in s["event"]["kw"] for s in done),
        "no-input operator": any(not s["event"]["prepared"] for s in done),
        "unknown name": any(s["pc"] == "nomethod" and s["dyn"] == 0 for s in states),
        "deprecated without method": any(s["pc"] == "nomethod" and s["dyn"] != 0 for s in states),
        "translation with a requested opset_version other than N": any(s["pc"] == "t_model" and s["dom"] == "onnx" and s["req"] not in (0, s["ver"]) for s in states),
        "translation where the standard opset cannot be inferred": any(s["pc"] == "t_model" and s["dom"] != "onnx" and s["req"] != 0 for s in states),
    }
    for k, v in full.items():
        if not v:
            raise core.MachineryError(f"vacuity: no replayed case with {k}")
    return table, states


# ------------------------------------------------------------------ the real classes
class Sent:
    """sentinel argument: k-th positional input (k>=1) or j-th attribute (100+j)"""
    __slots__ = ("k",)

    def __init__(self, k):
        self.k = k

    def __repr__(self):
        return f"S{self.k}"


def sid(x):
    """abstract id of a forwarded value: sentinel number, 0 for None, else ('v', value)"""
    if x is None:
        return 0
    if isinstance(x, Sent):
        return x.k
    return ("v", repr(_canon(x)))


def _canon(x):
    """attribute values are compared as ONNX stores them: FLOAT attributes are float32"""
    if isinstance(x, float):
        return float(np.float32(x))
    if isinstance(x, (tuple, list)):
        return tuple(_canon(v) for v in x)
    return x


class Real:
    """access to the generated classes + run-time recorders (no source hooks needed)"""

    def __init__(self):
        import onnxscript
        from onnxscript import onnx_opset, values
        from onnxscript._internal import evaluator

        self.values = values
        self.evaluator = evaluator
        self.all = dict(onnx_opset.all_opsets)
        self.onnxscript = onnxscript
        self.clsver = {type(o): (d, v) for (d, v), o in self.all.items()}
        self.trace = None

    def opset(self, d, ver):
        return self.all.get((KEYDOM[d], ver))

    def owner_of(self, d, ver, name):
        """(version of the class whose body defines `name`, function) by walking the real MRO"""
        o = self.opset(d, ver)
        if o is None:
            return 0, None
        for c in type(o).__mro__:
            if name in c.__dict__:
                f = c.__dict__[name]
                if c in self.clsver and inspect.isfunction(f):
                    return self.clsver[c][1], f
                return -1, f          # defined by the Opset base class / object: not an operator method
        return 0, None

    # -- recorders
    def install(self):
        real = self
        values = self.values
        self._saved = []
        mods = {sys.modules[type(o).__module__] for o in self.all.values()}
        for m in mods:
            g, O = m.get_schema, m.Op

            def get_schema(*a, _g=g, **k):
                r = _g(*a, **k)
                if real.trace is not None:
                    real.trace.append(("get_schema", a, k, r))
                return r

            def Op(*a, _O=O, **k):
                r = _O(*a, **k)
                if real.trace is not None:
                    real.trace.append(("Op", a, k, r))
                return r

            self._saved.append((m, g, O))
            m.get_schema, m.Op = get_schema, Op
        self._prep = values.Opset._prepare_inputs
        prep = self._prep

        def _prepare_inputs(self_, schema, *inputs):
            r = prep(self_, schema, *inputs)
            if real.trace is not None:
                real.trace.append(("prepare", self_, schema, list(inputs), list(r)))
            return r

        values.Opset._prepare_inputs = _prepare_inputs

        class Rec:
            def eval_op(self_, op, args, kwargs):
                real.trace.append(("eval_op", op, list(args), dict(kwargs)))
                return None

            def eval_function(self_, function, args, kwargs):
                raise RuntimeError("unexpected eval_function")

        self._rec = Rec()

    def uninstall(self):
        for m, g, O in self._saved:
            m.get_schema, m.Op = g, O
        self.values.Opset._prepare_inputs = self._prep

    def call(self, d, ver, name, args, kwargs):
        self.trace = []
        err = None
        try:
            with self.evaluator.default_as(self._rec):
                getattr(self.opset(d, ver), name)(*args, **kwargs)
        except Exception as ex:  # judged by the caller
            err = f"{type(ex).__name__}: {str(ex)[:200]}"
        t, self.trace = self.trace, None
        return t, err

    def dynamic(self, o, name):
        """what the dynamic entry points of one Opset object say about `name` (since_version, 0 = none, or 'raise:<type>')"""
        def ident(op):
            if op is None:
                return 0
            s = op.op_schema
            return 0 if s is None else int(s.since_version)

        def guarded(f):
            try:
                return f()
            except Exception as ex:  # an entry point that raises is an observation, judged by the caller
                return f"raise:{type(ex).__name__}"

        def via_getattr():
            try:
                return ident(self.values.Opset.__getattr__(o, name))
            except AttributeError:
                return 0

        return {"item": guarded(lambda: ident(o[name])), "contains": guarded(lambda: bool(name in o)),
                "getattr": guarded(via_getattr),
                "translation": guarded(lambda: ident(self.values.Op(o, name)))}       # converter._translate_callee_expr


def _cross_domain_probes(ops, cap=24):
    """An operator name of ANOTHER domain is looked up in each opset too (it resolves to nothing there): version
    numbers of different domains coincide (ai.onnx.ml 1-5, preview 1, ai.onnx 1-5), names must not leak across them."""
    names = {d: sorted(n for n in ops[d] if ops[d][n]) for d in ops}
    for d in ops:
        for other in ops:
            if other == d:
                continue
            for n in names[other][:cap]:
                ops[d].setdefault(n, [])


# ------------------------------------------------------------------ part 1: lookup (static vs ONNX vs dynamic)
def check_lookups(ctx, reg, real, lookups, static_since):
    bad_lookup = set()
    mism = 0
    for s in lookups:
        d, ver, name = s["dom"], s["ver"], s["name"]
        want = s["want"]
        case = {"kind": "lookup", "dom": KEYDOM[d], "ver": ver, "op": name,
                "model": {"owner": s["owner"], "dyn": s["dyn"]}, "want": want}
        ctx.add("evaluations")
        o = real.opset(d, ver)
        owner, f = real.owner_of(d, ver, name)
        case["impl"] = {"owner": owner}
        # implementation vs model
        if owner != s["owner"]:
            mism += 1
            if mism <= 10:
                print(f"SPEC-MISMATCH C17 lookup {KEYDOM[d]!r} opset{ver}.{name}: model owner {s['owner']}, real {owner}", flush=True)
        finding = DEV if want["shadow"] else None
        # property: a method exists exactly for the live operators of that version ...
        if want["live"] and owner <= 0:
            bad_lookup.add((d, ver, name))
            ctx.report(case, f"opset {KEYDOM[d]!r} version {ver}: ONNX defines {name}-{want['since']} but "
                             f"{'the opset object is missing' if o is None else 'the generated class has no method'}")
            continue
        if not want["live"] and owner > 0:
            bad_lookup.add((d, ver, name))
            what = (f"opset{ver}.{name} is the method generated from {name}-{owner}, but ONNX resolves {name} at version {ver} to "
                    + (f"{name}-{want['since']} (deprecated)" if want["since"] else "nothing"))
            ctx.report(case, what, finding=finding)
        elif owner > 0 and owner != want["since"]:
            bad_lookup.add((d, ver, name))
            ctx.report(case, f"opset{ver}.{name} is generated from {name}-{owner}, ONNX resolves to {name}-{want['since']}", finding=finding)
        # ... and the dynamic entry points agree with ONNX and with the static class
        if o is None:
            continue
        fronts = {"generated": real.dynamic(o, name), "plain": real.dynamic(real.values.Opset(KEYDOM[d], ver), name)}
        case["impl"]["dynamic"] = fronts
        for fr, dyn in fronts.items():
            for k, v in dyn.items():
                exp = s["dyn"] if k != "contains" else (s["dyn"] != 0)
                if v != exp:
                    bad_lookup.add((d, ver, name))
                    ctx.report(case, f"{fr} Opset({KEYDOM[d]!r},{ver}) dynamic lookup `{k}` of {name!r} gives {v}, "
                                     f"onnx.defs resolves to {exp}")
        ss = static_since.get((d, ver, name))
        if owner > 0 and ss is not None and (d, ver, name) not in bad_lookup:
            for fr, dyn in fronts.items():
                if dyn["item"] != ss or dyn["translation"] != ss:
                    bad_lookup.add((d, ver, name))
                    ctx.report(case, f"opset{ver}.{name} evaluates {name}-{ss} eagerly but {fr} opset[{name!r}] / translation denote "
                                     f"{name}-{dyn['item']}/{dyn['translation']}", finding=finding)
        ctx.sample({k: case[k] for k in ("dom", "ver", "op", "model", "impl")}, limit=2)
    ctx.set("lookup_model_mismatches", mism)
    return bad_lookup


# ------------------------------------------------------------------ part 2: calls (step-level replay)
def replay_call(reg, real, sig_by_key, s):
    """run one TLC `done` state against the real method; returns (model mismatches, property failures, impl summary)"""
    d, ver, name = s["dom"], s["ver"], s["name"]
    sch = schema_entry(reg, d, name, s["owner"])
    attrs = [a["name"] for a in sch["attrs"]]
    given = sorted(s["given"])
    args = [Sent(k) if k else None for k in s["pos"]]
    kwargs = {attrs[j - 1]: Sent(100 + j) for j in given}
    trace, err = real.call(d, ver, name, args, kwargs)
    ev = s["event"]
    want = s["want"]
    o = real.opset(d, ver)
    mm, pv = [], []
    impl = {"error": err, "steps": [t[0] for t in trace]}
    if err is not None or not trace or trace[-1][0] != "eval_op":
        pv.append(f"call {name}({s['pos']}, given {[attrs[j-1] for j in given]}) did not reach the evaluator: {err}")
        return mm, pv, impl
    # ---- step level, against the model's behaviour: GetSchema, (Op), Prepare/Trim*, Forward
    exp_steps = ["get_schema", "Op"] + (["prepare"] if ev["prepared"] else []) + ["eval_op"]
    if impl["steps"] != exp_steps:
        mm.append(f"steps {impl['steps']} != model {exp_steps}")
    by = {t[0]: t for t in trace}
    if "get_schema" in by:
        a, k = by["get_schema"][1], by["get_schema"][2]
        impl["get_schema"] = [repr(x) for x in a] + [f"{kk}={vv!r}" for kk, vv in k.items()]
        if tuple(a) != (name, ev["since"], KEYDOM[d]) or k:
            mm.append(f"get_schema{tuple(a)} != model ({name!r}, {ev['since']}, {KEYDOM[d]!r})")
    if "Op" in by:
        a = by["Op"][1]
        if not (len(a) == 3 and a[0] is o and a[1] == name and "get_schema" in by and a[2] is by["get_schema"][3]):
            mm.append("Op(...) not constructed as Op(self, name, schema)")
    if "prepare" in by:
        pin, pout = [sid(x) for x in by["prepare"][3]], [sid(x) for x in by["prepare"][4]]
        impl["prepare"] = [pin, pout]
        if pin != list(s["inputs"]) or pout != list(ev["inputs"]):
            mm.append(f"_prepare_inputs {pin}->{pout} != model {list(s['inputs'])}->{list(ev['inputs'])}")
    _, op, eargs, ekw = trace[-1]
    osch = op.op_schema
    impl["eval_op"] = {"schema": None if osch is None else [osch.name, osch.domain, int(osch.since_version), bool(osch.deprecated)],
                       "op_name": op.name, "self": [op.opset.domain, op.opset.version], "args": [sid(x) for x in eargs],
                       "kwargs": {k: sid(v) for k, v in ekw.items()}}
    # model's event
    psig = sig_by_key.get((d, name, ev["since"]))
    mkw = {}
    for j, a in enumerate(attrs, 1):
        if ev["kw"][j - 1] == -1:
            p = next((p for p in (psig or {"params": []})["params"] if p["name"] == a and p["kind"] == "kw"), None)
            mkw[a] = sid(untok(p["dflt"])) if p is not None and p["dflt"] != "required" else None
        else:
            mkw[a] = ev["kw"][j - 1]
    got = impl["eval_op"]
    if got["schema"] is None or got["schema"][:3] != [name, KEYDOM[d], ev["since"]]:
        mm.append(f"eval_op schema {got['schema']} != model {name}-{ev['since']}")
    if got["op_name"] != name:
        mm.append(f"eval_op op.name {got['op_name']!r} != model {name!r}")
    if got["self"] != [KEYDOM[d], ev["self"]] or op.opset is not o:
        mm.append(f"eval_op op.opset {got['self']} != model opset {ev['self']}")
    if got["args"] != list(ev["inputs"]):
        mm.append(f"eval_op args {got['args']} != model {list(ev['inputs'])}")
    if got["kwargs"] != mkw:
        mm.append(f"eval_op kwargs {got['kwargs']} != model {mkw}")
    # ---- the property, against the declarative reading
    if got["schema"] is None or got["schema"][:3] != [name, KEYDOM[d], want["since"]] or got["schema"][3]:
        pv.append(f"schema used {got['schema']}, ONNX resolves {name} at opset {ver} to {name}-{want['since']}")
    else:
        if got["op_name"] != name:
            pv.append(f"the Op that reaches the evaluator is named {got['op_name']!r}")
        if got["args"] != list(want["inputs"]):
            pv.append(f"inputs {s['pos']} forwarded as {got['args']}, expected {list(want['inputs'])} (only trailing None removed)")
        rsch = schema_entry(reg, d, name, want["since"])
        rsig = sig_by_key.get((d, name, want["since"]))
        rattrs = [a["name"] for a in rsch["attrs"]]
        extra = sorted(set(got["kwargs"]) - set(rattrs))
        if extra:
            pv.append(f"forwards {extra} which are not attributes of {name}-{want['since']}")
        for j, a in enumerate(rattrs, 1):
            v = got["kwargs"].get(a, 0)
            if j in given and rattrs == attrs:
                if v != 100 + j:
                    pv.append(f"attribute {a} given as S{100+j} but forwarded as {v}")
            elif rattrs == attrs:
                p = next(p for p in rsig["params"] if p["name"] == a and p["kind"] == "kw")
                okv = {0} | ({sid(untok(p["dflt"]))} if p["dflt"] not in ("required", "None") else set())
                if v not in okv:
                    pv.append(f"attribute {a} left out but forwarded as {v}; schema default is {p['dflt']}")
    return mm, pv, impl


def check_calls(ctx, reg, real, sig_by_key, done, bad_lookup_pre):
    static_since = {}
    nontriv = set()
    mism = 0
    real.install()
    try:
        for s in done:
            d, ver, name = s["dom"], s["ver"], s["name"]
            ctx.add("evaluations")
            mm, pv, impl = replay_call(reg, real, sig_by_key, s)
            case = {"kind": "call", "dom": KEYDOM[d], "ver": ver, "op": name, "pos": list(s["pos"]), "given": sorted(s["given"]),
                    "model": {"owner": s["owner"], "inputs": list(s["inputs"]), "pops": s["pops"], "event": s["event"]},
                    "want": s["want"], "impl": impl}
            if "eval_op" in impl and impl["eval_op"]["schema"]:
                static_since[(d, ver, name)] = impl["eval_op"]["schema"][2]
            if not mm:
                ctx.add("traces_validated_against_impl")
            else:
                mism += 1
                if mism <= 10:
                    print(f"SPEC-MISMATCH C17 call opset{ver}.{name} pos={s['pos']} given={sorted(s['given'])}: {mm[0]}", flush=True)
            if pv:
                shadow = s["want"]["shadow"]
                key = (d, ver, name)
                if shadow and key in bad_lookup_pre:
                    pass       # already reported once at lookup level under the deviation's guard
                else:
                    ctx.report(case, f"opset{ver}.{name}: " + "; ".join(pv), finding=DEV if shadow else None)
            if s["pops"] > 0 or -1 in s["event"]["kw"] or s["owner"] < ver:
                nontriv.add((d, name, s["owner"], tuple(s["pos"]), tuple(sorted(s["given"]))))
            if s["pops"] > 0 and 0 in s["event"]["inputs"]:
                ctx.sample({k: case[k] for k in ("dom", "ver", "op", "pos", "given", "model", "impl")}, limit=4)
    finally:
        real.uninstall()
    ctx.set("call_model_mismatches", mism)
    return static_since, nontriv


# ------------------------------------------------------------------ part 2b: translation (script -> to_model_proto(opset_version=req))
_ATTR_LIT = {"INT": "1", "FLOAT": "1.0", "STRING": '"a"', "INTS": "[1]", "FLOATS": "[1.0]", "STRINGS": '["a"]'}


def trans_call_text(sch):
    """argument text of a minimal call of the operator inside a script, or None when a required attribute has no literal form"""
    ins = sch["ins"]
    last_req = max([i for i, x in enumerate(ins) if x["opt"] == "S"], default=-1)
    params, args = [], []
    for i, x in enumerate(ins):
        if x["opt"] == "V":
            params += [f"a{i}", f"a{i}x"]
            args += [f"a{i}", f"a{i}x"]
        elif x["opt"] == "S":
            params.append(f"a{i}")
            args.append(f"a{i}")
        elif i < last_req or any(y["opt"] == "V" for y in ins[i + 1:]):
            args.append("None")
    for a in sch["attrs"]:
        if a["req"]:
            if a["type"] not in _ATTR_LIT:
                return None
            args.append(f"{a['name']}={_ATTR_LIT[a['type']]}")
    return params, args


def _opset_global(domain, ver):
    return "o_" + (domain.replace(".", "_") or "onnx") + f"_{ver}"


def _write_module(tag, opsets, funcs):
    """a real .py file (script() needs inspect.getsource) with plain functions; returns the imported module"""
    import importlib

    d = core.scratch_sub("c17mods")
    name = f"c17t_{os.getpid()}_{tag}"
    lines = ["from onnxscript import onnx_opset as _oo", "from onnxscript.onnx_types import *", ""]
    lines += [f"{_opset_global(dom, ver)} = _oo.all_opsets[({dom!r}, {ver})]" for dom, ver in sorted(opsets)]
    lines += ["", ""] + funcs
    path = os.path.join(d, name + ".py")
    with open(path, "w") as fh:
        fh.write("\n".join(lines) + "\n")
    if d not in sys.path:
        sys.path.insert(0, d)
    importlib.invalidate_caches()
    return importlib.import_module(name), name, path


def _model_summary(m, name, domain):
    import onnx

    imports = {o.domain: int(o.version) for o in m.opset_import}
    nodes = [[n.op_type, n.domain] for n in m.graph.node]
    try:
        sch = onnx.defs.get_schema(name, imports[domain], domain)
        denotes = [int(sch.since_version), bool(sch.deprecated)]
    except Exception as ex:
        denotes = f"raise:{type(ex).__name__}"
    return {"imports": imports, "nodes": nodes, "denotes": denotes}


def trans_chunk(arg):
    """[(k, domain, ver, name, params, args, reqs)] -> {k: {req: summary} | {"error": ..}} using the real script()/to_model_proto"""
    tag, items = arg
    from onnxscript import script

    funcs = []
    for k, domain, ver, name, params, args, reqs in items:
        funcs.append(f"def f{k}({', '.join(params)}):\n    return {_opset_global(domain, ver)}.{name}({', '.join(args)})\n\n")
    mod, modname, path = _write_module(tag, {(i[1], i[2]) for i in items}, funcs)
    out = {}
    try:
        for k, domain, ver, name, params, args, reqs in items:
            try:
                fn = script()(getattr(mod, f"f{k}"))
            except Exception as ex:
                out[k] = {"error": f"script: {type(ex).__name__}: {str(ex)[:200]}"}
                continue
            r = {}
            for req in reqs:
                try:
                    m = fn.to_model_proto(**({} if req == 0 else {"opset_version": req}))
                    r[req] = _model_summary(m, name, domain)
                except Exception as ex:
                    r[req] = {"error": f"to_model_proto: {type(ex).__name__}: {str(ex)[:200]}"}
            out[k] = r
    finally:
        sys.modules.pop(modname, None)
        try:
            os.remove(path)
        except OSError:
            pass
    return out


def check_translation(ctx, reg, tmodel, static_since):
    """replay every TLC translation case (domain, op, N, requested opset_version) into the real converter"""
    groups = {}
    for s in tmodel:
        groups.setdefault((s["dom"], s["ver"], s["name"]), []).append(s)
    items, skipped = [], 0
    for k, ((d, ver, name), ss) in enumerate(sorted(groups.items())):
        t = trans_call_text(schema_entry(reg, d, name, ss[0]["owner"]))
        if t is None:
            skipped += len(ss)
            continue
        items.append((k, KEYDOM[d], ver, name, t[0], t[1], sorted({s["req"] for s in ss})))
    nchunk = max(1, min(len(items), core.NCPU * 4))
    chunks = [(c, items[c::nchunk]) for c in range(nchunk)]
    results = {}
    for r in core.pmap(trans_chunk, chunks, chunksize=1):
        results.update(r)
    by_k = {(DOMKEY[i[1]], i[2], i[3]): i[0] for i in items}
    mism = refused = judged = 0
    reported = set()
    for s in sorted(tmodel, key=lambda s: (s["dom"], s["ver"], s["name"], s["req"])):
        d, ver, name, req = s["dom"], s["ver"], s["name"], s["req"]
        k = by_k.get((d, ver, name))
        if k is None:
            continue
        ctx.add("evaluations")
        res = results.get(k, {"error": "no result"})
        r = res.get("error") and res or res.get(req, {"error": "no result"})
        case = {"kind": "translation", "dom": KEYDOM[d], "ver": ver, "op": name, "requested_opset_version": req or None,
                "model": {"callee": s["callee"], "graph_std": s["gstd"], "model_std": s["mstd"], "owner": s["owner"]},
                "want": s["want"], "impl": r}
        if "error" in r:
            refused += 1
            continue
        judged += 1
        domain = KEYDOM[d]
        if r["imports"].get("") != s["mstd"] or r["nodes"] != [[name, domain]]:
            mism += 1
            if mism <= 10:
                print(f"SPEC-MISMATCH C17 translation opset{ver}.{name} opset_version={req or None}: real {r['imports']} {r['nodes']}, model standard import {s['mstd']}", flush=True)
        # property: the model imports the N of the opset class used (the argument only decides when nothing can be inferred),
        # so that the node denotes the schema eager mode evaluates
        key = (d, name, s["owner"])
        finding = DEV if s["want"]["shadow"] else None
        if r["imports"].get(domain) != ver:
            if key not in reported:
                reported.add(key)
                ctx.report(case, f"script written against opset{ver}.{name}, to_model_proto(opset_version={req or None}) imports "
                                 f"{domain!r} version {r['imports'].get(domain)}: the node no longer denotes {name} as of opset {ver}")
        else:
            ss = static_since.get((d, ver, name))
            den = r["denotes"]
            if ss is not None and (not isinstance(den, list) or den[0] != ss):
                if key not in reported or finding:
                    reported.add(key)
                    ctx.report(case, f"opset{ver}.{name} evaluates {name}-{ss} eagerly, the translated node in a model importing {r['imports']} denotes {den}",
                               finding=finding)
        if d == "onnx" and req not in (0, ver):
            ctx.sample({k2: case[k2] for k2 in ("dom", "ver", "op", "requested_opset_version", "model", "impl")}, limit=7)
    ctx.set("translation_cases", len(tmodel))
    ctx.set("translation_judged", judged)
    ctx.set("translation_refused_by_converter", refused)
    ctx.set("translation_skipped_required_attr_without_literal", skipped)
    ctx.set("translation_model_mismatches", mism)
    if judged < len(tmodel) // 2:
        raise core.MachineryError(f"only {judged} of {len(tmodel)} translation cases could be replayed")
    return judged



# ------------------------------------------------------------------ signatures
def same_default(tok, v):
    if tok == "required":
        return isinstance(v, str) and v == "required"
    if isinstance(v, str) and v == "required":
        return False
    e = untok(tok)
    if e is None or v is None:
        return e is None and v is None
    if isinstance(e, tuple):
        return isinstance(v, (tuple, list)) and len(v) == len(e) and all(same_default_val(a, b) for a, b in zip(e, v))
    return same_default_val(e, v)

def same_default_val(e, v):
    if isinstance(e, str) or isinstance(v, str):
        return isinstance(e, str) and isinstance(v, str) and e == v
    if isinstance(v, bool):
        return False
    return _canon(e) == _canon(v)


def check_signatures(ctx, reg, real, table):
    P = inspect.Parameter
    mism = 0
    for row in table:
        d, name, since = row["dom"], row["name"], row["since"]
        ctx.add("evaluations")
        o = real.opset(d, since)
        f = type(o).__dict__.get(name) if o is not None else None
        case = {"kind": "signature", "dom": KEYDOM[d], "op": name, "since": since, "model": row["params"]}
        if f is None or not inspect.isfunction(f):
            continue      # missing method: reported by the lookup check
        ps = list(inspect.signature(f).parameters.values())[1:]
        got = [{"name": p.name, "kind": {P.VAR_POSITIONAL: "var", P.KEYWORD_ONLY: "kw"}.get(p.kind, "pos" if p.kind in (P.POSITIONAL_ONLY, P.POSITIONAL_OR_KEYWORD) else "other"),
                "dflt": "required" if p.default is P.empty else p.default} for p in ps]
        case["impl"] = [dict(g, dflt=repr(g["dflt"])) for g in got]
        exp = row["params"]

        # model level: exact parameter list
        gm = [(g["name"], g["kind"]) for g in got]
        em = [(p["name"], p["kind"]) for p in exp]
        if gm != em or any(not same_default(p["dflt"], g["dflt"]) for p, g in zip(exp, got)):
            mism += 1
            if mism <= 10:
                print(f"SPEC-MISMATCH C17 signature {name}-{since}: real {case['impl']} != model {exp}", flush=True)
        # property level
        sch = schema_entry(reg, d, name, since)
        nin = len(sch["ins"])
        pv = []
        gin = [g for g in got if g["kind"] in ("pos", "var")]
        gkw = [g for g in got if g["kind"] not in ("pos", "var")]
        if len(gin) >= nin and any(g["name"] in {a["name"] for a in sch["attrs"]} for g in gin[nin:]):
            gkw = gin[nin:] + gkw        # attributes declared positional-or-keyword still are keyword parameters
            gin = gin[:nin]
        if [g["kind"] for g in gin] != [("var" if i["opt"] == "V" else "pos") for i in sch["ins"]]:
            pv.append(f"input parameters {[(g['name'], g['kind']) for g in gin]} do not mirror schema inputs {[(i['name'], i['opt']) for i in sch['ins']]}")
        if sorted(g["name"] for g in gkw) != sorted(a["name"] for a in sch["attrs"]):
            pv.append(f"keyword parameters {sorted(g['name'] for g in gkw)} != schema attributes {sorted(a['name'] for a in sch['attrs'])}")
        else:
            bykw = {g["name"]: g for g in gkw}
            for p in exp[nin:]:
                g = bykw[p["name"]]
                if p["dflt"] == "required":
                    continue
                if isinstance(g["dflt"], str) and g["dflt"] == "required":
                    pv.append(f"attribute {p['name']} is optional in the schema (default {p['dflt']}) but required by the method")
                elif not same_default(p["dflt"], g["dflt"]):
                    pv.append(f"attribute {p['name']}: parameter default {g['dflt']!r} != schema default {p['dflt']}")
        if pv:
            ctx.report(case, f"{KEYDOM[d]!r} {name}-{since}: " + "; ".join(pv))
    ctx.set("signature_model_mismatches", mism)


# ------------------------------------------------------------------ part 3: "defaults left out = bare node" on onnxruntime
def _f(*shape, lo=-2.0, hi=2.0, seed=0):
    r = np.random.RandomState(1000 + seed + len(shape))
    return r.uniform(lo, hi, size=shape).astype(np.float32)


def _i(vals, dt=np.int64):
    return np.array(vals, dtype=dt)


def recipes():
    """op -> (inputs (None allowed), required attributes).  Inputs chosen so that a different default shows."""
    x3 = _f(2, 3, 4)
    x2 = _f(3, 4)
    img = _f(1, 4, 5, 6)
    R = {
        "Softmax": ([x3], {}), "LogSoftmax": ([x3], {}), "Hardmax": ([x3], {}),
        "ArgMax": ([x3], {}), "ArgMin": ([x3], {}),
        "LeakyRelu": ([x2], {}), "Elu": ([x2], {}), "Selu": ([x2], {}), "HardSigmoid": ([x2], {}),
        "ThresholdedRelu": ([x2], {}), "Celu": ([x2], {}), "Shrink": ([x2], {}), "Gelu": ([x2], {}),
        "Gemm": ([_f(2, 3), _f(3, 4, seed=1), _f(4, seed=2)], {}),
        "Flatten": ([x3], {}), "CumSum": ([x2, _i(1)], {}),
        "ReduceSum": ([x3], {}), "ReduceMean": ([x3], {}), "ReduceMax": ([x3], {}), "ReduceL2": ([x3], {}),
        "ReduceLogSumExp": ([x3], {}), "ReduceProd": ([x3], {}),
        "TopK": ([x2, _i([2])], {}), "Transpose": ([x3], {}), "Trilu": ([x2], {}),
        "OneHot": ([_i([0, 2, 1]), _i([3]), _f(2)], {}),
        "DepthToSpace": ([_f(1, 8, 2, 3)], {"blocksize": 2}), "SpaceToDepth": ([_f(1, 2, 4, 6)], {"blocksize": 2}),
        "LRN": ([img], {"size": 3}), "LpNormalization": ([x2], {}), "GlobalLpPool": ([img], {}),
        "InstanceNormalization": ([img, _f(4, seed=1), _f(4, seed=2)], {}),
        "BatchNormalization": ([img, _f(4, seed=1), _f(4, seed=2), _f(4, seed=3), _f(4, lo=0.5, hi=2.0, seed=4)], {}),
        "LayerNormalization": ([x3, _f(4, seed=1)], {}),
        "RMSNormalization": ([x3, _f(4, seed=1)], {}),
        "AveragePool": ([img], {"kernel_shape": [2, 2]}), "MaxPool": ([img], {"kernel_shape": [2, 2]}),
        "LpPool": ([img], {"kernel_shape": [2, 2]}),
        "Conv": ([img, _f(3, 4, 3, 3, seed=1)], {}), "ConvTranspose": ([img, _f(4, 2, 3, 3, seed=1)], {}),
        "QuantizeLinear": ([_f(2, 3, lo=-100, hi=100), _f(lo=0.5, hi=1.5)], {}),
        "DequantizeLinear": ([_i([[1, 200, 3], [4, 5, 6]], np.uint8), _f(lo=0.5, hi=1.5)], {}),
        "EyeLike": ([x2], {}), "Mod": ([_i([5, -7, 9]), _i([3, 3, -4])], {}), "IsInf": ([np.array([1.0, np.inf, -np.inf], np.float32)], {}),
        "Clip": ([x2, None, np.array(0.5, np.float32)], {}),
        "Pad": ([x2, _i([1, 0, 0, 2])], {}),
        "Squeeze": ([_f(1, 3, 1)], {}), "Compress": ([x2, np.array([True, False, True])], {}),
        "Gather": ([x2, _i([2, 0])], {}), "GatherElements": ([x2, _i([[0, 1, 2, 0]])], {}),
        "ScatterElements": ([x2, _i([[0, 1, 2, 0]]), _f(1, 4, seed=3)], {}),
        "ScatterND": ([x2, _i([[0], [2]]), _f(2, 4, seed=3)], {}),
        "Cast": ([x2], {"to": 7}), "Concat": ([x2, _f(3, 4, seed=5)], {"axis": 1}),
        "Unique": ([_i([2, 1, 1, 3, 2])], {}),
        "NonMaxSuppression": ([np.array([[[0, 0, 1, 1], [0, 0.1, 1, 1.1], [0, 2, 1, 3]]], np.float32),
                               np.array([[[0.9, 0.8, 0.7]]], np.float32), _i([2]), None, np.array([0.75], np.float32)], {}),
        "RNN": ([_f(2, 1, 3), _f(1, 4, 3, seed=1), _f(1, 4, 4, seed=2), None, None, _f(1, 1, 4, seed=3)], {"hidden_size": 4}),
        "GRU": ([_f(2, 1, 3), _f(1, 12, 3, seed=1), _f(1, 12, 4, seed=2), None, None, _f(1, 1, 4, seed=3)], {"hidden_size": 4}),
        "LSTM": ([_f(2, 1, 3), _f(1, 16, 3, seed=1), _f(1, 16, 4, seed=2), None, None, _f(1, 1, 4, seed=3)], {"hidden_size": 4}),
        "HannWindow": ([_i(6)], {}), "BlackmanWindow": ([_i(6)], {}),
        "GridSample": ([_f(1, 1, 3, 3), _f(1, 2, 2, 2, lo=-1, hi=1, seed=1)], {}),
        "Resize": ([img, None, np.array([1, 1, 2, 2], np.float32)], {}),
        "Einsum": ([x2, _f(4, 2, seed=1)], {"equation": "ij,jk->ik"}),
        "Binarizer": ([x2], {}), "Normalizer": ([x2], {}), "Scaler": ([x2], {"offset": [0.5], "scale": [2.0]}),
    }
    return R


def spot_case(arg):
    """(domain, ver, name, since, reqs) -> eager result vs bare node on onnxruntime, and vs the script-translated model
    produced by to_model_proto(opset_version=req) for every req in reqs (0 = argument not passed)"""
    dom, ver, name, since, reqs = arg
    import onnx
    from onnx import helper

    from onnxscript import onnx_opset, tensor

    inputs, req = recipes()[name]
    out = {"case": {"kind": "eager", "dom": dom, "ver": ver, "op": name, "since": since, "required_attrs": {k: str(v) for k, v in req.items()},
                    "inputs": [None if x is None else [str(x.dtype), list(x.shape)] for x in inputs]}}
    # bare node: no optional attribute, trailing None inputs dropped, inner ones ""
    last = max(i for i, x in enumerate(inputs) if x is not None)
    names = [("" if x is None else f"i{k}") for k, x in enumerate(inputs[: last + 1])]
    feeds = {f"i{k}": x for k, x in enumerate(inputs) if x is not None}
    o = onnx_opset.all_opsets[(dom, ver)]
    try:
        e = getattr(o, name)(*[None if x is None else tensor.Tensor(x) for x in inputs], **req)
        e = list(e) if isinstance(e, (tuple, list)) else [e]
        eager = [None if t is None else np.asarray(t.value) for t in e]
        out["eager_err"] = None
    except Exception as ex:
        eager = None
        out["eager_err"] = f"{type(ex).__name__}: {str(ex)[:300]}"
    nout = len(eager) if eager else len(onnx.defs.get_schema(name, ver, dom).outputs)
    try:
        node = helper.make_node(name, names, [f"o{k}" for k in range(nout)], domain=dom, **req)
        vis = [helper.make_tensor_value_info(n, helper.np_dtype_to_tensor_dtype(x.dtype), list(x.shape)) for n, x in feeds.items()]
        g = helper.make_graph([node], "g", vis, [helper.make_empty_tensor_value_info(f"o{k}") for k in range(nout)])
        imports = [helper.make_opsetid(dom, ver)] + ([helper.make_opsetid("", 18)] if dom else [])
        m = helper.make_model(g, opset_imports=imports, ir_version=10)
        bare = core.ort_run(m, feeds)
        out["bare_err"] = None
    except Exception as ex:
        bare = None
        out["bare_err"] = f"{type(ex).__name__}: {str(ex)[:300]}"
    if eager is not None and bare is not None:
        diffs = []
        for k, (a, b) in enumerate(zip(eager, bare)):
            if a is None or b is None:
                continue
            if not core.same_array(a, b, exact=False, rtol=1e-5, atol=1e-6):
                diffs.append({"output": k, "eager": [str(a.dtype), list(a.shape), a.reshape(-1)[:8].tolist()],
                              "bare": [str(b.dtype), list(b.shape), b.reshape(-1)[:8].tolist()]})
        out["diffs"] = diffs
    # translation: the same call inside a script, model built with a requested opset_version
    out["translated"] = []
    if eager is not None and bare is not None:
        tn = {"float32": "FLOAT", "int64": "INT64", "uint8": "UINT8", "bool": "BOOL"}
        params = [f"a{k}: {tn[str(x.dtype)]}[...]" for k, x in enumerate(inputs) if x is not None]
        args = [("None" if x is None else f"a{k}") for k, x in enumerate(inputs)] + [f"{k}={v!r}" for k, v in req.items()]
        rets = ", ".join(f"r{k}" for k in range(len(eager)))
        src = f"def f({', '.join(params)}):\n    {rets} = {_opset_global(dom, ver)}.{name}({', '.join(args)})\n    return {rets}\n"
        fn = None
        try:
            from onnxscript import script

            mod, modname, path = _write_module(f"x{spot_case.n}", {(dom, ver)}, [src])
            spot_case.n += 1
            try:
                fn = script()(mod.f)
            finally:
                sys.modules.pop(modname, None)
                os.remove(path)
        except Exception as ex:
            out["translated"].append({"req": None, "error": f"script: {type(ex).__name__}: {str(ex)[:200]}"})
        for rq in (reqs if fn is not None else []):
            t = {"req": rq}
            try:
                m = fn.to_model_proto(**({} if rq == 0 else {"opset_version": rq}))
                t.update(_model_summary(m, name, dom))
                got = core.ort_run(m, {f"a{k}": x for k, x in enumerate(inputs) if x is not None})
                t["diffs"] = [{"output": k, "eager": a.reshape(-1)[:8].tolist(), "translated": np.asarray(b).reshape(-1)[:8].tolist()}
                              for k, (a, b) in enumerate(zip(eager, got))
                              if a is not None and not core.same_array(a, np.asarray(b), exact=False, rtol=1e-5, atol=1e-6)]
            except Exception as ex:
                t["error"] = f"{type(ex).__name__}: {str(ex)[:300]}"
            out["translated"].append(t)
    return out


spot_case.n = 0


def spot_cases(ctx, reg, lookups):
    """(op, N) pairs: every generated version of the recipe ops ORT can run, accessed at its own N and at inherited Ns"""
    rng = random.Random(ctx.seed)
    owner = {(s["dom"], s["ver"], s["name"]): s["owner"] for s in lookups if s["owner"]}
    rec = recipes()
    cases = []
    for d, domain in (("onnx", ""), ("ml", "ai.onnx.ml")):
        top = 23 if d == "onnx" else reg["maxver"][d]
        for name in sorted(rec):
            if name not in reg["ops"][d]:
                continue
            by_owner = {}
            for ver in range(7 if d == "onnx" else 1, top + 1):
                ow = owner.get((d, ver, name))
                if ow and (d != "onnx" or ow >= 7):
                    by_owner.setdefault(ow, []).append(ver)
            for ow, vers in sorted(by_owner.items()):
                pick = vers if not ctx.quick else sorted({vers[0], rng.choice(vers)})
                # requested opset_version: none, and the versions at which the operator changes (else a fixed other version)
                hist = [e["since"] for e in reg["ops"][d][name]]
                other = [m for m in hist if m != ow and 7 <= m <= top] if d == "onnx" else []
                for v in pick:
                    ms = [m for m in (other or [13 if v != 13 else 18]) if m != v]
                    if ctx.quick and len(ms) > 1:
                        ms = [min(ms, key=lambda m: (abs(m - v), m))]
                    cases.append((domain, v, name, ow, [0] + ms))
    return cases


def check_eager(ctx, reg, lookups):
    cases = spot_cases(ctx, reg, lookups)
    results = core.pmap(spot_case, cases)
    ran = disc = tran = tdisc = 0
    for r in results:
        ctx.add("evaluations")
        c = r["case"]
        if r["bare_err"] is not None:
            disc += 1          # ORT cannot run the reference node (old opset / unsupported): not judged
            continue
        if r["eager_err"] is not None:
            ctx.report(dict(c, eager_error=r["eager_err"]),
                       f"eager opset{c['ver']}.{c['op']} with defaults left out raises ({r['eager_err'][:200]}) while the bare {c['op']} node runs at opset {c['ver']}")
            continue
        ran += 1
        if r["diffs"]:
            ctx.report(dict(c, diffs=r["diffs"]),
                       f"eager opset{c['ver']}.{c['op']} with defaults left out differs from the bare node at opset {c['ver']}: {r['diffs'][0]}")
        for t in r.get("translated", []):
            tc = dict(c, kind="eager_vs_translated", requested_opset_version=t["req"] or None, translated=t)
            std = t.get("imports", {}).get(c["dom"])
            if "error" in t:
                if std is not None and std != c["ver"]:
                    ctx.report(tc, f"script calling opset{c['ver']}.{c['op']}, to_model_proto(opset_version={t['req'] or None}) imports version {std} "
                                   f"and onnxruntime refuses the model ({t['error'][:160]}); eager mode evaluates the call")
                else:
                    tdisc += 1
                continue
            tran += 1
            if t["diffs"]:
                ctx.report(tc, f"script calling opset{c['ver']}.{c['op']}: the model from to_model_proto(opset_version={t['req'] or None}) "
                               f"(imports {t['imports']}) computes something else than eager mode: {t['diffs'][0]}")
    ctx.set("eager_vs_bare_node_executed", ran)
    ctx.set("eager_vs_bare_node_discarded", disc)
    ctx.set("eager_vs_translated_model_executed", tran)
    ctx.set("eager_vs_translated_model_discarded", tdisc)
    return ran


# ------------------------------------------------------------------ exposure
def check_exposure(ctx, reg, real):
    """onnxscript.opsetN / opset_ai_onnx_mlN are the objects of onnx_opset.all_opsets, singletons of their class"""
    for (domain, ver), o in sorted(real.all.items()):
        ctx.add("evaluations")
        case = {"kind": "exposure", "dom": domain, "ver": ver}
        if (o.domain, o.version) != (domain, ver):
            ctx.report(case, f"all_opsets[{domain!r},{ver}] is {o!r}")
        if type(o)() is not o:
            ctx.report(case, f"{type(o).__name__}() is not the exposed singleton")
        attr = f"opset{ver}" if domain == "" else "opset_" + domain.replace(".", "_") + str(ver)
        pub = getattr(real.onnxscript, attr, None)
        if pub is not None and pub is not o:
            ctx.report(case, f"onnxscript.{attr} is not onnx_opset.{attr}")
        if pub is None and domain == "" and ver <= 23:
            ctx.report(case, f"onnxscript.{attr} is not exposed")


# ------------------------------------------------------------------ entry points
def run(ctx: core.Ctx):
    reg = registry()
    table, states = run_tlc_all(ctx, reg)
    sig_by_key = {(r["dom"], r["name"], r["since"]): r for r in table}
    lookups = [s for s in states if s["pc"] in ("found", "nomethod")]
    done = [s for s in states if s["pc"] == "done"]
    done.sort(key=lambda s: (s["dom"], s["ver"], s["name"], list(s["pos"]), sorted(s["given"])))
    lookups.sort(key=lambda s: (s["dom"], s["ver"], s["name"]))
    ctx.set("schemas", sum(len(v) for d in reg["ops"].values() for v in d.values()))
    ctx.set("lookup_cases", len(lookups))
    ctx.set("call_cases", len(done))
    ctx.set("signature_rows", len(table))
    real = Real()
    check_exposure(ctx, reg, real)
    # lookups are judged twice: structure first (so that call-level reports are not repeated), then dynamic agreement
    pre = set()
    for s in lookups:
        owner, _ = real.owner_of(s["dom"], s["ver"], s["name"])
        if s["want"]["shadow"] and owner > 0:
            pre.add((s["dom"], s["ver"], s["name"]))
    static_since, nontriv = check_calls(ctx, reg, real, sig_by_key, done, pre)
    check_lookups(ctx, reg, real, lookups, static_since)
    ntrans = check_translation(ctx, reg, [s for s in states if s["pc"] == "t_model"], static_since)
    check_signatures(ctx, reg, real, table)
    ran = check_eager(ctx, reg, lookups)
    ctx.set("distinct_nontrivial", len(nontriv))
    ctx.set("exhaustive", True)
    ctx.set("rule", "TLC enumerates every (domain, op name, N) of the dumped onnx.defs registry for the exposed domains (plus one unknown name) "
                    "and, for every method found, every positional pattern (each optional input given / None / left out, variadic tail 0..MaxExtra) "
                    "x attribute modes (only required / all" + ("" if ctx.quick else " / each one alone") + "); all cases are replayed. "
                    "non-trivial = call in which an input was trimmed, an attribute defaulted, or the method is inherited; distinct by "
                    f"(domain, op, generating version, positional pattern, given attributes). {ran} eager-vs-bare-node executions on onnxruntime. "
                    f"translation: every (domain, op, N) x requested opset_version in {{none, N, op's change points, fixed versions}} replayed through script()/to_model_proto "
                    f"({ntrans} judged); a sample is executed on onnxruntime against eager mode")
    ctx.assumptions += [
        "onnx.defs is the reference: Resolve(op, N) = registered schema with the greatest since_version <= N",
        "operators ONNX has deprecated at version N are expected to have NO method (a deprecated schema cannot be used in a model of that version)",
        "parameter NAMES of inputs and the order of attribute parameters are compared with the model of opgen only (SPEC-MISMATCH), the property constrains positions/kinds of inputs, names of attributes, defaults and forwarding",
        "eager-vs-bare-node execution covers the operators of harness/c17.py:recipes(); cases whose reference node onnxruntime refuses are discarded",
        "ai.onnx.preview.training has no generated class and is out of scope",
    ]


def replay(ctx, path):
    with open(path) as f:
        blob = json.load(f)
    case = blob["case"]
    print("recorded:", blob["what"])
    print(json.dumps(case, indent=1, default=str)[:4000])
    reg = registry()
    real = Real()
    kind = case.get("kind")
    d = DOMKEY.get(case.get("dom"), None)
    if kind in ("lookup", "call"):
        o = real.opset(d, case["ver"])
        owner, _ = real.owner_of(d, case["ver"], case["op"])
        print(f"now: static owner version {owner}; dynamic {real.dynamic(o, case['op']) if o is not None else None}")
    if kind == "call":
        sch = schema_entry(reg, d, case["op"], case["model"]["owner"])
        attrs = [a["name"] for a in sch["attrs"]]
        real.install()
        try:
            trace, err = real.call(d, case["ver"], case["op"], [Sent(k) if k else None for k in case["pos"]],
                                   {attrs[j - 1]: Sent(100 + j) for j in case["given"]})
        finally:
            real.uninstall()
        print("now: error", err)
        for t in trace:
            print("   ", t[0], [x for x in t[1:] if not hasattr(x, "since_version")][:3])
    if kind == "signature":
        o = real.opset(d, case["since"])
        f = type(o).__dict__.get(case["op"])
        print("now:", inspect.signature(f) if f else None)
    if kind == "translation":
        sch = schema_entry(reg, d, case["op"], case["model"]["owner"])
        t = trans_call_text(sch)
        r = trans_chunk(("replay", [(0, case["dom"], case["ver"], case["op"], t[0], t[1], [case["requested_opset_version"] or 0])]))
        print("now:", json.dumps(r, indent=1, default=str)[:3000])
    if kind in ("eager", "eager_vs_translated"):
        r = spot_case((case["dom"], case["ver"], case["op"], case["since"], [case.get("requested_opset_version") or 0]))
        print("now:", json.dumps({k: v for k, v in r.items() if k != "case"}, indent=1, default=str)[:3000])
    return 0
