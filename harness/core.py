"""Core of the /verif harness: TLC driver, TLA+ value parser, evidence, findings, runners.

Everything here is property-independent.  Per-property modules live in harness/cNN.py and expose
`run(ctx)`.
"""
from __future__ import annotations

import atexit
import hashlib
import json
import os
import re
import shutil
import subprocess
import sys
import tempfile
import time
from dataclasses import dataclass, field
from typing import Any, Callable, Iterable, Sequence

VERIF = os.path.dirname(os.path.dirname(os.path.abspath(__file__)))
SPEC_DIR = os.path.join(VERIF, "spec")
REPO = os.environ.get("VERIF_REPO", "/repo")
NCPU = int(os.environ.get("VERIF_WORKERS", str(os.cpu_count() or 4)))


class MachineryError(Exception):
    """The check itself is broken (exit 2) -- never reported as a violation."""


# --------------------------------------------------------------------------------------------
# scratch space (outside /repo, /verif and /tmp)
# --------------------------------------------------------------------------------------------
_SCRATCH = None


def scratch() -> str:
    global _SCRATCH
    if _SCRATCH is None:
        base = os.environ.get("VERIF_SCRATCH", "/var/tmp")
        os.makedirs(base, exist_ok=True)
        _SCRATCH = tempfile.mkdtemp(prefix="verif-", dir=base)
        pid = os.getpid()

        def _cleanup(d=_SCRATCH, pid=pid):
            if os.getpid() == pid:
                shutil.rmtree(d, ignore_errors=True)

        atexit.register(_cleanup)
    return _SCRATCH


def scratch_sub(name: str) -> str:
    d = os.path.join(scratch(), name)
    os.makedirs(d, exist_ok=True)
    return d


# --------------------------------------------------------------------------------------------
# TLA+ value parser (for `tlc -dump` output and `-simulate file=` behaviours)
# --------------------------------------------------------------------------------------------
class _P:
    def __init__(self, s: str):
        self.s = s
        self.i = 0

    def ws(self):
        s = self.s
        n = len(s)
        while self.i < n and s[self.i] in " \t\r\n":
            self.i += 1

    def peek(self, k=1):
        return self.s[self.i : self.i + k]

    def expect(self, tok):
        self.ws()
        if not self.s.startswith(tok, self.i):
            raise ValueError(f"expected {tok!r} at {self.i}: {self.s[self.i:self.i+40]!r}")
        self.i += len(tok)

    def value(self):
        self.ws()
        s = self.s
        c = s[self.i]
        if c == '"':
            return self.string()
        if c == "<" and s.startswith("<<", self.i):
            self.i += 2
            items = self.items(">>")
            return items
        if c == "{":
            self.i += 1
            items = self.items("}")
            return TSet(items)
        if c == "[":
            self.i += 1
            return self.record()
        if c == "(":
            self.i += 1
            return self.function()
        if c == "-" or c.isdigit():
            j = self.i + 1
            while j < len(s) and s[j].isdigit():
                j += 1
            v = int(s[self.i : j])
            self.i = j
            # interval a..b
            if s.startswith("..", self.i):
                self.i += 2
                hi = self.value()
                return TSet(list(range(v, hi + 1)))
            return v
        m = re.compile(r"[A-Za-z_][A-Za-z0-9_]*").match(s, self.i)
        if m:
            self.i = m.end()
            w = m.group(0)
            if w == "TRUE":
                return True
            if w == "FALSE":
                return False
            return ModelValue(w)
        raise ValueError(f"cannot parse TLA+ value at {self.i}: {s[self.i:self.i+40]!r}")

    def string(self):
        s = self.s
        j = self.i + 1
        out = []
        while s[j] != '"':
            if s[j] == "\\":
                j += 1
                out.append({"n": "\n", "t": "\t", '"': '"', "\\": "\\"}.get(s[j], s[j]))
            else:
                out.append(s[j])
            j += 1
        self.i = j + 1
        return "".join(out)

    def items(self, close):
        out = []
        self.ws()
        if self.s.startswith(close, self.i):
            self.i += len(close)
            return out
        while True:
            out.append(self.value())
            self.ws()
            if self.s.startswith(close, self.i):
                self.i += len(close)
                return out
            self.expect(",")

    def record(self):
        out = {}
        self.ws()
        if self.peek() == "]":
            self.i += 1
            return out
        while True:
            self.ws()
            m = re.compile(r"[A-Za-z_][A-Za-z0-9_]*").match(self.s, self.i)
            if not m:
                raise ValueError(f"record field expected at {self.i}: {self.s[self.i:self.i+40]!r}")
            self.i = m.end()
            self.expect("|->")
            out[m.group(0)] = self.value()
            self.ws()
            if self.peek() == "]":
                self.i += 1
                return out
            self.expect(",")

    def function(self):
        # (k :> v @@ k :> v)
        out = TFun()
        while True:
            k = self.value()
            self.expect(":>")
            v = self.value()
            out[_freeze(k)] = v
            self.ws()
            if self.peek() == ")":
                self.i += 1
                return out
            self.expect("@@")


class ModelValue(str):
    pass


class TSet(list):
    """A TLA+ set, kept as a list in TLC's (sorted) print order."""


class TFun(dict):
    """A TLA+ function with a non-sequence domain."""


def _freeze(v):
    if isinstance(v, list):
        return tuple(_freeze(x) for x in v)
    if isinstance(v, dict):
        return tuple(sorted((k, _freeze(x)) for k, x in v.items()))
    return v


def parse_tla(s: str):
    p = _P(s)
    v = p.value()
    p.ws()
    if p.i != len(p.s):
        raise ValueError(f"trailing text after TLA+ value: {p.s[p.i:p.i+40]!r}")
    return v


_STATE_SPLIT = re.compile(r"^State \d+:.*$", re.M)
_VAR_SPLIT = re.compile(r"^/\\ ([A-Za-z_][A-Za-z0-9_]*) = ", re.M)


def parse_state_block(block: str) -> dict:
    out = {}
    ms = list(_VAR_SPLIT.finditer(block))
    if not ms:
        # single variable: "name = value"
        m = re.match(r"\s*([A-Za-z_][A-Za-z0-9_]*) = ", block)
        if m:
            out[m.group(1)] = parse_tla(block[m.end():].strip())
        return out
    for k, m in enumerate(ms):
        end = ms[k + 1].start() if k + 1 < len(ms) else len(block)
        out[m.group(1)] = parse_tla(block[m.end() : end].strip())
    return out


def parse_dump(path: str) -> list[dict]:
    with open(path) as f:
        text = f.read()
    blocks = _STATE_SPLIT.split(text)[1:]
    return [parse_state_block(b) for b in blocks if b.strip()]


# --------------------------------------------------------------------------------------------
# TLC driver
# --------------------------------------------------------------------------------------------
@dataclass
class TLCResult:
    ok: bool
    returncode: int
    generated: int
    distinct: int
    depth: int
    out: str
    wall_s: float
    dump: list[dict] | None = None
    violated: str | None = None
    coverage: dict = field(default_factory=dict)
    printed: list = field(default_factory=list)


_RE_STATS = re.compile(r"(\d+) states generated, (\d+) distinct states found")
_RE_DEPTH = re.compile(r"The depth of the complete state graph search is (\d+)")
_RE_VIOL = re.compile(r"Invariant (\S+) is violated|Action property (\S+) is violated|Temporal properties were violated|Postcondition (\S+)|Assumption .* is false|Deadlock reached")
_RE_COV = re.compile(r"^<(\w+) line \d+, col \d+ to line \d+, col \d+ of module (\w+)>: (\d+):(\d+)", re.M)


def run_tlc(
    module: str,
    cfg: str | None = None,
    *,
    workers: int | str = "auto",
    dump: bool = False,
    simulate: str | None = None,
    depth: int | None = None,
    seed: int | None = None,
    env: dict | None = None,
    timeout: int = 1200,
    coverage: bool = False,
    deadlock: bool = False,
    extra: Sequence[str] = (),
    cwd: str | None = None,
    heap: str = "4g",
    dfs_queue: bool = False,
) -> TLCResult:
    """Run TLC on spec/<module>.tla with spec/<cfg>.  Raises MachineryError on parse/tool errors."""
    cwd = cwd or SPEC_DIR
    meta = tempfile.mkdtemp(prefix="tlc-", dir=scratch())
    cmd = [
        "java", "-XX:+UseParallelGC", f"-Xmx{heap}", "-Xss32m",
    ]
    if dfs_queue:
        cmd.append("-Dtlc2.tool.queue.IStateQueue=StateDeque")
    cmd += [
        "-cp", "/opt/veriftools/tla/tla2tools.jar:/opt/veriftools/tla/CommunityModules-deps.jar",
        "tlc2.TLC", "-metadir", meta, "-noGenerateSpecTE",
        "-workers", str(NCPU if workers == "auto" else workers),
    ]
    if cfg:
        cmd += ["-config", cfg]
    if not deadlock:
        cmd += ["-deadlock"]
    dump_path = None
    if dump:
        dump_path = os.path.join(meta, "dump")
        cmd += ["-dump", dump_path]
    if simulate:
        cmd += ["-simulate", simulate]
    if depth is not None:
        cmd += ["-depth", str(depth)]
    if seed is not None:
        cmd += ["-seed", str(seed)]
    if coverage:
        cmd += ["-coverage", "1"]
    cmd += list(extra)
    cmd.append(module if module.endswith(".tla") else module + ".tla")
    e = dict(os.environ)
    e.pop("JAVA_TOOL_OPTIONS", None)
    if env:
        e.update({k: str(v) for k, v in env.items()})
    t0 = time.time()
    try:
        p = subprocess.run(cmd, cwd=cwd, env=e, capture_output=True, text=True, timeout=timeout)
        if p.returncode not in (0, 10, 11, 12, 13):
            # a JVM that dies for reasons outside the model (resource pressure while many checks run): try once more
            time.sleep(2)
            p = subprocess.run(cmd, cwd=cwd, env=e, capture_output=True, text=True, timeout=timeout)
    except subprocess.TimeoutExpired as ex:
        shutil.rmtree(meta, ignore_errors=True)
        raise MachineryError(f"TLC timed out after {timeout}s on {module}/{cfg}") from ex
    wall = time.time() - t0
    out = p.stdout + p.stderr
    gen = dist = 0
    for m in _RE_STATS.finditer(out):
        gen, dist = int(m.group(1)), int(m.group(2))
    dm = _RE_DEPTH.search(out)
    viol = None
    vm = _RE_VIOL.search(out)
    if vm:
        viol = next((g for g in vm.groups() if g), vm.group(0))
    cov = {}
    if coverage:
        for m in _RE_COV.finditer(out):
            cov[m.group(1)] = (int(m.group(3)), int(m.group(4)))
    res = TLCResult(
        ok=(p.returncode == 0),
        returncode=p.returncode,
        generated=gen,
        distinct=dist,
        depth=int(dm.group(1)) if dm else 0,
        out=out,
        wall_s=wall,
        violated=viol,
        coverage=cov,
    )
    # TLC exit codes: 0 ok; 10 assumption; 11 deadlock; 12 safety; 13 liveness; 150+ errors
    if p.returncode not in (0, 10, 11, 12, 13):
        shutil.rmtree(meta, ignore_errors=True)
        raise MachineryError(f"TLC failed (rc={p.returncode}) on {module}/{cfg}:\n{out[-3000:]}")
    if dump_path:
        f = dump_path + ".dump" if os.path.exists(dump_path + ".dump") else dump_path
        if os.path.exists(f):
            res.dump = parse_dump(f)
    res.printed = parse_printed(out)
    shutil.rmtree(meta, ignore_errors=True)
    return res


def parse_printed(out: str) -> list:
    """Values printed with PrintT(<<"TAG", ...>>): returns parsed tuples whose first item is a string."""
    res = []
    for line in out.splitlines():
        line = line.strip()
        if line.startswith('<<"CASE", "') and line.endswith('">>'):
            # fast path for PrintT(<<"CASE", ToJson(...)>>): a TLA+ string holding JSON
            body = line[len('<<"CASE", "'):-3]
            res.append(["CASE", body.replace('\\"', '"').replace("\\\\", "\\")])
            continue
        if line.startswith('<<"') and line.endswith(">>"):
            try:
                res.append(parse_tla(line))
            except ValueError:
                pass
    return res


def parse_sim_traces(prefix_dir: str) -> list[list[tuple[str, dict]]]:
    """Parse behaviours written by `-simulate file=DIR/tr,num=N`: list of [(action, state), ...]."""
    behs = []
    for fn in sorted(os.listdir(prefix_dir)):
        with open(os.path.join(prefix_dir, fn)) as f:
            text = f.read()
        steps = []
        # blocks: "\* <Action ...>\nSTATE_k ==\n/\ v = ...\n\n"
        parts = re.split(r"^\\\* (.*)\n^STATE_\d+ ==\s*$", text, flags=re.M)
        # parts: [pre, act1, body1, act2, body2...]
        for k in range(1, len(parts) - 1, 2):
            act = parts[k].strip()
            body = parts[k + 1]
            body = body.split("\n\n")[0]
            m = re.match(r"<?(\w+)(\(.*\))?", act.strip("<>"))
            steps.append((act, parse_state_block(body)))
        if steps:
            behs.append(steps)
    return behs


# --------------------------------------------------------------------------------------------
# JSON for TLC: ints only in 32-bit range, floats forbidden (JsonDeserialize handles ints/strings/bools/arrays/objects)
# --------------------------------------------------------------------------------------------
def tlc_json_safe(v):
    if isinstance(v, bool) or v is None:
        return v if v is not None else "null"
    if isinstance(v, int):
        if not -(2**31) < v < 2**31:
            raise MachineryError(f"integer {v} does not fit TLC")
        return v
    if isinstance(v, float):
        raise MachineryError("floats cannot be sent to TLC")
    if isinstance(v, str):
        return v
    if isinstance(v, (list, tuple)):
        return [tlc_json_safe(x) for x in v]
    if isinstance(v, dict):
        return {str(k): tlc_json_safe(x) for k, x in v.items()}
    raise MachineryError(f"cannot send {type(v)} to TLC")


def write_tlc_json(path: str, value) -> str:
    with open(path, "w") as f:
        json.dump(tlc_json_safe(value), f)
    return path


# --------------------------------------------------------------------------------------------
# Findings / violations / evidence
# --------------------------------------------------------------------------------------------
def load_known_findings() -> dict:
    p = os.path.join(VERIF, "known_findings.json")
    if not os.path.exists(p):
        return {"findings": [], "fixed": []}
    with open(p) as f:
        return json.load(f)


class Ctx:
    """Per-run context: tier, seed, evidence accumulation, violation reporting."""

    def __init__(self, prop: str, tier: str, seed: int, level: str):
        self.prop = prop
        self.tier = tier
        self.seed = seed
        self.level = level
        self.t0 = time.time()
        self.violations = 0
        self.known_hits: dict[str, int] = {}
        self.coverage: dict[str, Any] = {"samples": []}
        self.assumptions: list[str] = []
        kf = load_known_findings()
        self.known = [k for k in kf.get("findings", []) if k.get("property") == prop or prop in k.get("properties", [])]
        self._printed_known = set()
        self.max_violation_lines = 10

    @property
    def quick(self):
        return self.tier == "quick"

    # -- coverage helpers
    def add(self, key: str, n: int = 1):
        self.coverage[key] = int(self.coverage.get(key, 0)) + int(n)

    def set(self, key: str, v):
        self.coverage[key] = v

    def sample(self, s, limit=6):
        if len(self.coverage["samples"]) < limit:
            self.coverage["samples"].append(s)

    def tlc(self, res: TLCResult, label: str | None = None):
        self.add("states", res.distinct)
        self.add("transitions", res.generated)
        if label:
            self.coverage.setdefault("tlc_runs", []).append(
                {"run": label, "distinct": res.distinct, "generated": res.generated, "depth": res.depth, "wall_s": round(res.wall_s, 2)}
            )

    # -- verdicts
    def known_finding(self, fid: str) -> dict | None:
        for k in self.known:
            if k["id"] == fid:
                return k
        return None

    def report(self, case: dict, what: str, finding: str | None = None):
        """Report a property failure on `case`.  If `finding` names a listed known finding it is
        printed once as KNOWN-FINDING and not counted; otherwise a VIOLATION line is printed."""
        if finding is not None:
            k = self.known_finding(finding)
            if k is not None:
                self.known_hits[finding] = self.known_hits.get(finding, 0) + 1
                if finding not in self._printed_known:
                    self._printed_known.add(finding)
                    print(f"KNOWN-FINDING: property={self.prop} {finding}: {k['what']}", flush=True)
                return
        self.violations += 1
        d = os.path.join(VERIF, "replays", self.prop)
        os.makedirs(d, exist_ok=True)
        blob = json.dumps({"property": self.prop, "what": what, "case": case}, sort_keys=True, default=str, indent=1)
        h = hashlib.sha1(blob.encode()).hexdigest()[:12]
        path = os.path.join(d, f"{h}.json")
        with open(path, "w") as f:
            f.write(blob)
        if self.violations <= self.max_violation_lines:
            print(f"VIOLATION property={self.prop} replay={path}", flush=True)
            print(f"  what: {what[:600]}", flush=True)

    def finish(self) -> int:
        cov = self.coverage
        cov.setdefault("evaluations", 0)
        cov.setdefault("distinct_nontrivial", 0)
        cov.setdefault("rule", "")
        if self.level == "model_checking":
            cov.setdefault("states", 0)
            cov.setdefault("transitions", 0)
            cov.setdefault("traces_validated_against_impl", 0)
        cov["known_finding_hits"] = self.known_hits
        ev = {
            "property_id": self.prop,
            "tier": self.tier,
            "seed": self.seed,
            "level": self.level,
            "coverage": cov,
            "assumptions": self.assumptions,
            "wall_s": round(time.time() - self.t0, 2),
            "violations": self.violations,
        }
        os.makedirs(os.path.join(VERIF, "evidence"), exist_ok=True)
        with open(os.path.join(VERIF, "evidence", f"{self.prop}.json"), "w") as f:
            json.dump(ev, f, indent=1, default=str)
        print(
            f"[{self.prop}] tier={self.tier} seed={self.seed} evaluations={cov.get('evaluations')} "
            f"nontrivial={cov.get('distinct_nontrivial')} states={cov.get('states', '-')} "
            f"traces={cov.get('traces_validated_against_impl', '-')} known={self.known_hits} "
            f"violations={self.violations} wall={ev['wall_s']}s",
            flush=True,
        )
        return 1 if self.violations else 0


# --------------------------------------------------------------------------------------------
# parallel map (fork pool; functions must be module-level)
# --------------------------------------------------------------------------------------------
def pmap(fn: Callable, items: Sequence, workers: int | None = None, chunksize: int | None = None) -> list:
    import multiprocessing as mp

    items = list(items)
    if not items:
        return []
    workers = min(workers or NCPU, len(items))
    if workers <= 1:
        return [fn(x) for x in items]
    ctx = mp.get_context("fork")
    cs = chunksize or max(1, len(items) // (workers * 8))
    with ctx.Pool(workers) as pool:
        return pool.map(fn, items, chunksize=cs)


# --------------------------------------------------------------------------------------------
# runtimes
# --------------------------------------------------------------------------------------------
def ort_session(model_proto):
    import onnxruntime as ort

    so = ort.SessionOptions()
    so.graph_optimization_level = ort.GraphOptimizationLevel.ORT_DISABLE_ALL
    so.log_severity_level = 4
    so.intra_op_num_threads = 1
    so.inter_op_num_threads = 1
    data = model_proto if isinstance(model_proto, bytes) else model_proto.SerializeToString()
    return ort.InferenceSession(data, so, providers=["CPUExecutionProvider"])


def ort_run(model_proto, feeds: dict):
    sess = ort_session(model_proto)
    return sess.run(None, feeds)


def same_array(a, b, *, exact=True, rtol=1e-5, atol=1e-6) -> bool:
    import numpy as np

    a = np.asarray(a)
    b = np.asarray(b)
    if a.dtype != b.dtype or a.shape != b.shape:
        return False
    if a.dtype.kind in "fc" and not exact:
        return bool(np.allclose(a, b, rtol=rtol, atol=atol, equal_nan=True))
    if a.dtype.kind in "fc":
        return bool(np.array_equal(a, b, equal_nan=True))
    return bool(np.array_equal(a, b))


# --------------------------------------------------------------------------------------------
# pmap with a per-item watchdog: an item that does not finish within `timeout` seconds gets the
# result HANG (its worker is killed and replaced) - needed when a regression makes a graph loop forever.
# --------------------------------------------------------------------------------------------
class _Hang:
    def __repr__(self):
        return "HANG"


HANG = _Hang()


class MachineryErrorResult:
    """a worker raised: carried back to the parent instead of killing the pool"""

    def __init__(self, msg):
        self.msg = msg

    def __repr__(self):
        return f"WORKER-ERROR({self.msg})"


def _safe_worker(fn, conn):
    while True:
        try:
            msg = conn.recv()
        except EOFError:
            return
        if msg is None:
            return
        i, item = msg
        try:
            conn.send((i, True, fn(item)))
        except Exception as e:  # noqa: BLE001
            conn.send((i, False, f"{type(e).__name__}: {e}"))


def pmap_safe(fn: Callable, items: Sequence, timeout: float = 60.0, workers: int | None = None) -> list:
    import multiprocessing as mp
    from multiprocessing.connection import wait

    items = list(items)
    n = len(items)
    results: list = [None] * n
    if n == 0:
        return results
    ctx = mp.get_context("fork")
    workers = min(workers or NCPU, n)
    procs = {}

    def spawn():
        a, b = ctx.Pipe()
        p = ctx.Process(target=_safe_worker, args=(fn, b), daemon=True)
        p.start()
        b.close()
        procs[a] = [p, None, 0.0]

    for _ in range(workers):
        spawn()
    nxt = 0
    done = 0
    try:
        while done < n:
            for conn, st in list(procs.items()):
                if st[1] is None and nxt < n:
                    conn.send((nxt, items[nxt]))
                    st[1] = nxt
                    st[2] = time.time()
                    nxt += 1
            busy = [c for c, st in procs.items() if st[1] is not None]
            ready = wait(busy, timeout=1.0)
            for conn in ready:
                st = procs[conn]
                try:
                    i, ok, val = conn.recv()
                except (EOFError, OSError):
                    results[st[1]] = MachineryErrorResult("worker died")
                    done += 1
                    st[0].kill()
                    del procs[conn]
                    spawn()
                    continue
                results[i] = val if ok else MachineryErrorResult(val)
                st[1] = None
                done += 1
            now = time.time()
            for conn, st in list(procs.items()):
                if st[1] is not None and now - st[2] > timeout:
                    results[st[1]] = HANG
                    done += 1
                    st[0].kill()
                    del procs[conn]
                    spawn()
    finally:
        for conn, st in procs.items():
            try:
                conn.send(None)
            except Exception:  # noqa: BLE001
                pass
        for conn, st in procs.items():
            st[0].join(timeout=0.5)
            if st[0].is_alive():
                st[0].kill()
    return results


# --------------------------------------------------------------------------------------------
# alpha: proto -> abstract graph JSON for spec/Graph.tla, and the GraphCheck batch run
# --------------------------------------------------------------------------------------------
def abstract_graph(g, is_function=False):
    import onnx

    def node(n):
        subs = []
        for a in n.attribute:
            if a.type == onnx.AttributeProto.GRAPH:
                subs.append(abstract_graph(a.g))
            elif a.type == onnx.AttributeProto.GRAPHS:
                subs += [abstract_graph(x) for x in a.graphs]
        return {"ins": list(n.input), "outs": list(n.output), "subs": subs, "dom": n.domain or "ai.onnx"}

    if is_function:
        return {"inputs": list(g.input), "inits": [], "nodes": [node(n) for n in g.node], "outputs": list(g.output)}
    return {"inputs": [i.name for i in g.input], "inits": [i.name for i in g.initializer if i.name not in {x.name for x in g.input}],
            "nodes": [node(n) for n in g.node], "outputs": [o.name for o in g.output]}


def abstract_model(pid, m):
    """list of items for GraphCheck: main graph + each model-local function"""
    imps = [[o.domain or "ai.onnx", o.version] for o in m.opset_import]
    items = [{"id": pid + "/graph", "graph": abstract_graph(m.graph), "imports": imps}]
    for f in m.functions:
        fi = [[o.domain or "ai.onnx", o.version] for o in f.opset_import]
        items.append({"id": f"{pid}/fn:{f.domain}:{f.name}", "graph": abstract_graph(f, True), "imports": fi})
    return items


def abstract_function(pid, f):
    fi = [[o.domain or "ai.onnx", o.version] for o in f.opset_import]
    return [{"id": f"{pid}/functionproto", "graph": abstract_graph(f, True), "imports": fi}]


def graphcheck(ctx, items, label="GraphCheck"):
    """Evaluate Graph!WF (TLA+) on abstract graphs; returns {id: (ssa, scoped, outputs, imports)}"""
    out = {}
    if not items:
        return out
    B = 1500
    for off in range(0, len(items), B):
        path = os.path.join(scratch(), f"graphs_{off}.json")
        write_tlc_json(path, items[off : off + B])
        res = run_tlc("GraphCheck", "GraphCheck.cfg", workers=1, env={"GRAPHS_FILE": path}, timeout=1800)
        ctx.tlc(res, label)
        if not res.ok:
            raise MachineryError(f"GraphCheck failed: {res.out[-1500:]}")
        for pr in res.printed:
            if pr and pr[0] == "WF":
                out[pr[1]] = tuple(pr[2:6])
        os.remove(path)
    missing = [it["id"] for it in items if it["id"] not in out]
    if missing:
        raise MachineryError(f"GraphCheck gave no verdict for {missing[:3]} ...")
    return out
