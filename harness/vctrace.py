"""Direction B for the version converter: traces recorded by the hooks in onnxscript/version_converter/_version_converter.py
(ONNXSCRIPT_VERIF=1) - the model and every node's version at the start of visit_model, one Step per (node, version), one
StepError per swallowed adapter error, one SetOpset per declaration, the model and versions at the end - are validated by TLC
against spec/VersionApply.tla (VersionTrace.tla).

Sources: the repository's version-converter tests under pytest, hand-written models (adapters inside If / Loop bodies, version
stamps, several adapters in one model), and every configuration the C10 check converts (its workers return the traces).
"""
from __future__ import annotations

import copy
import glob
import json
import os
import re
import subprocess
import sys

from . import core, foldtrace

KNOWN = {"adapter_error_is_not_swallowed": "adapter_error_swallowed",
         "step_skips_a_version_after_swallowed_error": "adapter_error_swallowed",
         "end_node_with_swallowed_error_below_declared_version": "adapter_error_swallowed"}


def to_tlc(t: dict, adapters) -> dict:
    end = t.get("end") or {}
    meta = t["meta"]
    return {"id": t["id"], "model": meta["model"], "versions": meta["versions"], "dflt": int(meta["default_opset"]), "target": int(meta["target"]),
            "adapters": adapters, "events": t["events"], "finished": bool(t.get("finished")),
            "endModel": end.get("model", meta["model"]), "endVersions": end.get("versions", meta["versions"]),
            "endFunctionOpsets": end.get("function_opsets", [])}


_RE_VERDICT = re.compile(r'<<\s*"VERDICT",\s*"([^"]*)",\s*(\d+),\s*"([^"]*)",\s*(\d+),\s*(\d+)\s*>>')
_RE_NOTE = re.compile(r'<<\s*"NOTE",\s*"([^"]*)",\s*(\d+),\s*"([^"]*)"\s*>>')


def _size(t: dict) -> int:
    return sum(len(g["nodes"]) for g in t["meta"]["model"]["graphs"])


def validate(ctx, traces: list[dict], adapters, label: str):
    verdicts, notes = {}, {}
    batches, cur, size = [], [], 0
    for t in traces:
        s = _size(t) * (3 + len(t["events"]) // 2) + 10
        if cur and size + s > 30000:
            batches.append(cur)
            cur, size = [], 0
        cur.append(to_tlc(t, adapters))
        size += s
    if cur:
        batches.append(cur)
    for k, b in enumerate(batches):
        path = os.path.join(core.scratch(), f"vctraces_{label}_{k}.json")
        core.write_tlc_json(path, b)
        res = core.run_tlc("VersionTrace", "VersionTrace.cfg", workers=1, env={"TRACE_FILE": path}, timeout=2400, heap="6g")
        ctx.tlc(res, f"VersionTrace:{label}")
        if not res.ok:
            raise core.MachineryError(f"VersionTrace failed: {res.out[-2500:]}")
        for m in _RE_VERDICT.finditer(res.out):
            verdicts[m.group(1)] = (int(m.group(2)), m.group(3), int(m.group(4)), int(m.group(5)))
        for m in _RE_NOTE.finditer(res.out):
            notes.setdefault(m.group(1), [])
            if (int(m.group(2)), m.group(3)) not in notes[m.group(1)]:
                notes[m.group(1)].append((int(m.group(2)), m.group(3)))
        os.remove(path)
    missing = [t["id"] for t in traces if t["id"] not in verdicts]
    if missing:
        raise core.MachineryError(f"VersionTrace gave no verdict for {missing[:3]} ({len(missing)} traces)")
    return verdicts, notes


OWN_MODELS = [
    # (text, target)
    ("""<ir_version: 8, opset_import: ["" : 18]>
agraph (float[1,4,4] x, bool c) => (float[1,4,4] z) {
   z = If (c) <then_branch = tb () => (float[1,4,4] r) { r = DFT<axis=1>(x) }, else_branch = eb () => (float[1,4,4] r2) { r2 = Identity(x) }>
}""", 21),
    ("""<ir_version: 8, opset_import: ["" : 19]>
agraph (float[1,4,4] x, int64 n, bool c) => (float[1,4,4] y) {
   y = Loop (n, c, x) <body = b (int64 i, bool ci, float[1,4,4] s) => (bool co, float[1,4,4] so) {
       co = Identity(ci)
       t = DFT<axis=2>(s)
       so = If (ci) <then_branch = tb () => (float[1,4,4] r) { r = DFT<axis=1>(t) }, else_branch = eb () => (float[1,4,4] r2) { r2 = Neg(t) }>
   }>
}""", 22),
    ("""<ir_version: 8, opset_import: ["" : 18]>
agraph (float[1,1,4,4] x, float[1,3,3,2] g) => (float[1,1,3,3] y, float[1,1,3,3] z) {
   y = GridSample<mode="bilinear">(x, g)
   z = GridSample<mode="bicubic">(x, g)
}""", 23),
    ("""<ir_version: 9, opset_import: ["" : 20]>
agraph (float[2,4,3] x) => (float[2,4,3] y) <float[2] sc = {1.0, 2.0}, float[2] bi = {0.5, -0.5}> {
   y = GroupNormalization<num_groups=2, epsilon=0.001>(x, sc, bi)
}""", 21),
    ("""<ir_version: 9, opset_import: ["" : 20, "local": 1]>
agraph (float[1,4,4] x) => (float[1,4,4] y) {
   a = local.f(x)
   y = Relu(a)
}
<domain: "local", opset_import: ["" : 20]>
f (p) => (q) { q = Neg(p) }
""", 25),
    ("""<ir_version: 8, opset_import: ["" : 21]>
agraph (float[3] x) => (float[3] y) { y = Relu(x) }""", 21),
]
_OWN_SCRIPT = """
import sys, json, onnx, onnx.parser
from onnxscript import ir, version_converter
for text, target in json.load(open(sys.argv[1])):
    m = onnx.parser.parse_model(text)
    for entry in ("ir", "proto"):
        obj = ir.serde.deserialize_model(m) if entry == "ir" else onnx.ModelProto.FromString(m.SerializeToString())
        try:
            version_converter.convert_version(obj, target)
        except Exception as e:
            print("RAISED", type(e).__name__, e)
"""


def collect_own() -> list[dict]:
    d = core.scratch()
    prefix = os.path.join(d, "vctrace_owntr")
    mp, sp = os.path.join(d, "vctrace_own_models.json"), os.path.join(d, "vctrace_own_script.py")
    with open(mp, "w") as f:
        json.dump(OWN_MODELS, f)
    with open(sp, "w") as f:
        f.write(_OWN_SCRIPT)
    env = dict(os.environ, ONNXSCRIPT_VERIF="1", ONNXSCRIPT_VERIF_TRACE=prefix, PYTHONHASHSEED="0")
    p = subprocess.run([sys.executable, sp, mp], env=env, capture_output=True, text=True, timeout=600)
    if p.returncode != 0:
        raise core.MachineryError(f"vctrace own models: {p.stderr[-1500:]}")
    out = []
    for fpath in sorted(glob.glob(prefix + ".*")):
        with open(fpath) as fh:
            out += [json.loads(l) for l in fh if l.strip()]
        os.remove(fpath)
    out = [t for t in out if t.get("kind") == "vconv"]
    for i, t in enumerate(out):
        t["id"] = f"own/{i}"
    return out


def collect_pytest(timeout: int = 1200) -> tuple[list[dict], str]:
    prefix = os.path.join(core.scratch(), "vctrace_pytest")
    env = dict(os.environ, ONNXSCRIPT_VERIF="1", ONNXSCRIPT_VERIF_TRACE=prefix, PYTHONHASHSEED="0")
    cmd = [sys.executable, "-m", "pytest", "-q", "-p", "no:cacheprovider", "--timeout=600", "onnxscript/version_converter", "tests/version_converter"]
    p = subprocess.run(cmd, cwd=core.REPO, env=env, capture_output=True, text=True, timeout=timeout)
    tail = re.sub(r"\x1b\[[0-9;]*m", "", (p.stdout.strip().splitlines() or [""])[-1])
    out = []
    for fpath in sorted(glob.glob(prefix + ".*")):
        with open(fpath) as fh:
            out += [json.loads(l) for l in fh if l.strip()]
        os.remove(fpath)
    out = [t for t in out if t.get("kind") == "vconv" and _size(t) <= 150]
    return out, tail


def _selftest(traces: list[dict]) -> list[dict]:
    out = []
    t = next((t for t in traces if t.get("finished") and any(e["ev"] == "Step" and e["replaced"] for e in t["events"]) and len(t["meta"]["model"]["graphs"]) > 1), None)
    if t is None:
        t = next((t for t in traces if t.get("finished") and any(e["ev"] == "Step" and e["replaced"] for e in t["events"])), None)
    if t is None:
        return out
    # (a) the steps of one node are missing (a body that was never visited): its final version is not the target
    c = copy.deepcopy(t)
    replaced = {e["node"] for e in c["events"] if e["ev"] == "Step" and e["replaced"]}
    created = {n["id"] for e in c["events"] if e["ev"] == "Step" for n in e["inserted"]}
    owners = {n["id"] for g in c["meta"]["model"]["graphs"] for n in g["nodes"] if n["subs"]}
    in_sub = {n["id"] for g in c["meta"]["model"]["graphs"] if g["kind"] == "sub" for n in g["nodes"]}
    cands = [e["node"] for e in c["events"] if e["ev"] == "Step" and e["node"] not in replaced | created | owners]
    victim = next((n for n in cands if n in in_sub), cands[0])
    c["events"] = [e for e in c["events"] if not (e["ev"] == "Step" and e["node"] == victim)]
    for v in c["end"]["versions"]:
        if v[0] == victim:
            v[1] = 0
    c["id"] = "selftest/node_never_visited"
    out.append(c)
    # (b) a step that jumps two versions
    c = copy.deepcopy(t)
    e = next(e for e in c["events"] if e["ev"] == "Step" and not e["replaced"])
    e["to_version"] += 1
    c["id"] = "selftest/two_versions_in_one_step"
    out.append(c)
    # (c) the replacement is said to have happened at a version without adapter
    c = copy.deepcopy(t)
    k = next(i for i, e in enumerate(c["events"]) if e["ev"] == "Step" and e["replaced"])
    prev = next(i for i in range(k - 1, -1, -1) if c["events"][i]["ev"] == "Step" and c["events"][i]["node"] == c["events"][k]["node"]) if k > 0 and any(
        c["events"][i]["ev"] == "Step" and c["events"][i]["node"] == c["events"][k]["node"] for i in range(k)) else None
    if prev is not None:
        # swap the payload: replace one version earlier
        a, b = c["events"][prev], c["events"][k]
        for f in ("replaced", "inserted", "old_outs", "new_outs", "new_versions"):
            a[f], b[f] = b[f], a[f]
        a["new_versions"] = [a["to_version"]] * len(a["inserted"])
        c["id"] = "selftest/replaced_without_adapter"
        out.append(c)
    # (d) the model does not declare the target at the end
    c = copy.deepcopy(t)
    c["end"]["model"]["opsets"] = [[d, (v - 1 if d == "" else v)] for d, v in c["end"]["model"]["opsets"]]
    c["id"] = "selftest/declared_opset_not_target"
    out.append(c)
    return out


def stage(ctx, case_traces: list[dict], adapters, owner: str = "C10"):
    tests, tail = collect_pytest()
    for i, t in enumerate(tests):
        t["id"] = f"pytest/{i}"
    own = collect_own()
    if len(own) < 8:
        raise core.MachineryError(f"too few recorded version-converter traces from the hand-written models ({len(own)}); are the hooks in _version_converter.py present?")
    for i, t in enumerate(case_traces):
        t.setdefault("id", f"case/{i}")
    allt = own + tests + list(case_traces)
    self_t = _selftest(own + tests)
    verdicts, notes = validate(ctx, allt + self_t, adapters, owner)
    if len(self_t) < 3:
        raise core.MachineryError("binding self-test: no trace with a replacing step to corrupt")
    for t in self_t:
        if verdicts[t["id"]][0] == 0:
            raise core.MachineryError(f"binding self-test: corrupted trace {t['id']} was accepted")
    n_steps = sum(verdicts[t["id"]][2] for t in allt)
    n_repl = sum(verdicts[t["id"]][3] for t in allt)
    if n_repl == 0:
        raise core.MachineryError("no replacing step in any recorded trace (vacuous)")
    for t in allt:
        idx, clause, _, _ = verdicts[t["id"]]
        rej = [] if idx == 0 else [(idx, clause, None)]
        rej += [(i, c, KNOWN.get(c)) for i, c in notes.get(t["id"], [])]
        for idx, clause, finding in rej:
            ev = t["events"][idx - 1] if 0 < idx <= len(t["events"]) else {"ev": "End"}
            ctx.report({"trace": t["id"], "event_index": idx, "event": ev, "clause": clause, "trace_full": t},
                       f"recorded version-converter trace {t['id']} ({t['meta']['default_opset']} -> {t['meta']['target']}) rejected by VersionApply.tla at event {idx} "
                       f"({ev.get('ev')}): clause {clause} does not hold; event {json.dumps(ev)[:500]}", finding=finding)
    ctx.add("traces_validated_against_impl", len(allt))
    ctx.set("version_converter_traces", {"repository_tests": len(tests), "repository_tests_result": tail, "hand_written_models": len(own),
                                         "generated_cases": len(case_traces), "steps_executed_by_spec": n_steps, "replacements_executed_by_spec": n_repl,
                                         "initial_model_not_well_formed_not_judged": sum(1 for t in allt if verdicts[t["id"]][1].startswith("initial_model_not")),
                                         "raised_prefixes": sum(1 for t in allt if verdicts[t["id"]][1] == "raised_prefix_consistent"),
                                         "selftest_corruptions_rejected": {t["id"]: verdicts[t["id"]][1] for t in self_t}})
