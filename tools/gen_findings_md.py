#!/usr/bin/env python3
"""Writes /verif/FINDINGS.md from known_findings.json (human-readable list of listed findings and fixed defects)."""
import json, collections
kf = json.load(open('/verif/known_findings.json'))
out = ["# Findings on microsoft/onnxscript (generated from known_findings.json by tools/gen_findings_md.py)", "",
       "A *listed finding* is a genuine defect the checks reproduce on the tree and that is recorded rather than repaired; the check prints one",
       "`KNOWN-FINDING: property=<id> <finding id>: ...` line for it and exits 0; any other violation of the same property is still reported.",
       "A *fixed* entry is a defect repaired by a `fix:` commit in /repo; it suppresses nothing.", ""]
byp = collections.defaultdict(list)
for k in kf["findings"]:
    for p in k.get("properties", [k["property"]]):
        byp[p].append(k)
out.append(f"## Listed findings ({len(kf['findings'])})\n")
for p in sorted(byp):
    out.append(f"### {p}\n")
    for k in byp[p]:
        out.append(f"* **{k['id']}** - {k['what']}  \n  *where:* `{k.get('where','')}`; *identified by:* {k.get('identified_by','')}")
    out.append("")
out.append(f"## Fixed in /repo ({len(kf['fixed'])})\n")
for k in kf["fixed"]:
    out.append(f"* fixed: property={k.get('property')} `{k.get('commit')}` **{k.get('id')}** - {k.get('what')}")
open('/verif/FINDINGS.md', 'w').write("\n".join(out) + "\n")
print(len(kf['findings']), "listed,", len(kf['fixed']), "fixed")
