#!/bin/bash
# runs the repository baseline (guard off) with xdist and reports stable_pass tests that do not pass
cd /repo && env -u ONNXSCRIPT_VERIF /venv/bin/python -m pytest -q -p no:cacheprovider -n ${NPROC:-10} --timeout=900 --continue-on-collection-errors --junitxml=/var/tmp/verif-baseline.junit.xml > /var/tmp/verif-baseline.log 2>&1
/venv/bin/python - <<'PY'
import json, xml.etree.ElementTree as ET
stable=set(json.load(open('/root/.vp/BASELINE.json'))['stable_pass'])
seen={}
for tc in ET.parse('/var/tmp/verif-baseline.junit.xml').getroot().iter('testcase'):
    tid=f"{tc.get('classname')}::{tc.get('name')}"
    bad=any(ch.tag in ('failure','error','skipped') for ch in tc)
    seen[tid]=seen.get(tid,False) or bad
broken=[t for t in stable if seen.get(t,True)]
missing=[t for t in stable if t not in seen]
print("stable:",len(stable),"seen:",len(seen),"broken_or_missing:",len(broken),"missing:",len(missing))
for t in broken[:40]: print("  BROKEN", t, "(missing)" if t not in seen else "")
PY
