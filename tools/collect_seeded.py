#!/usr/bin/env python3
"""Parses result files of run_seeded_batch (lines '=== NAME vs PROP' / 'rc=N') into results.json for keep_seeded.py,
and writes seeded/README.md (which check catches which seeded change). usage: collect_seeded.py <results.txt> [...]
Later files override earlier ones for the same (name, prop)."""
import json, os, re, sys, collections
res = collections.defaultdict(dict)
for fn in sys.argv[1:]:
    cur = None
    for line in open(fn):
        m = re.match(r"=== (\S+) vs (\S+)", line)
        if m: cur = m.groups(); continue
        m = re.match(r"rc=(\d+)", line)
        if m and cur:
            res[cur[0]][f"{cur[1]}:quick"] = int(m.group(1)); cur = None
out = {}
for name, caught in sorted(res.items()):
    d = f"/verif/seeded/_pending/{name}" if os.path.isdir(f"/verif/seeded/_pending/{name}") else f"/verif/seeded/{name}"
    notes = open(f"{d}/notes.md").read() if os.path.exists(f"{d}/notes.md") else ""
    def grab(pat):
        m = re.search(pat, notes, flags=re.I | re.S)
        return re.sub(r"\s+", " ", m.group(1)).strip()[:500] if m else ""
    out[name] = {"caught_by": {k: ("caught (exit 1)" if v == 1 else "missed (exit 0)" if v == 0 else f"machinery (exit {v})") for k, v in caught.items()},
                 "breaks": grab(r"(?:clause[^\n]*broken|breaks|which clause)[^\n]*\n?(.*?)(?:\n\n|\n#|\Z)") or notes[:400].replace("\n", " "),
                 "needs": grab(r"(?:needs|conditions|manifest)[^\n]*\n(.*?)(?:\n\n|\n#|\Z)")}
json.dump(out, open("/var/tmp/seeded_results.json", "w"), indent=1)
print(len(out), "seeded changes;", sum(1 for v in out.values() if any("caught" in x for x in v["caught_by"].values())), "caught by at least one check")
