#!/bin/bash
# usage: tools/final_seeded.sh <name> [<name> ...]   (names of seeded/<name>): runs the property's quick check against each, sequentially,
# and records the verdict in seeded/<name>/final_check.json
cd /verif
for n in "$@"; do
  p=${n%%-*}
  s=$(date +%s)
  out=$(VERIF_WORKERS=${VERIF_WORKERS:-8} LINES_MAX=4 tools/try_seeded.sh seeded/$n $p quick 2>&1)
  rc=$(echo "$out" | grep -m1 '^rc=' | cut -d= -f2)
  why=$(grep -m1 -A1 '^VIOLATION' /var/tmp/try_$p.log | tail -1 | cut -c1-400)
  python3 - "$n" "$p" "$rc" "$why" "$(( $(date +%s)-s ))" <<'PY'
import json, sys
n, p, rc, why, secs = sys.argv[1:6]
json.dump({"name": n, "check": f"{p}:quick", "rc": int(rc) if rc.strip().lstrip('-').isdigit() else None, "first_violation": why.strip(), "seconds": int(secs)},
          open(f"/verif/seeded/{n}/final_check.json", "w"), indent=1)
PY
  echo "$n rc=$rc ${why:0:160}"
done
