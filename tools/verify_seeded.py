#!/venv/bin/python
"""Verify a seeded regression in a scratch worktree: demo passes clean / fails patched; relevant repo tests
(those in BASELINE stable_pass) still pass with the patch.  usage: verify_seeded.py <dir> [<dir> ...]
Writes <dir>/verify.json."""
import json, os, subprocess, sys, re, shutil, xml.etree.ElementTree as ET

BASE = json.load(open("/root/.vp/BASELINE.json"))
STABLE = set(BASE["stable_pass"])

def sh(cmd, cwd, env=None, timeout=3000):
    e = dict(os.environ); e.update(env or {})
    p = subprocess.run(cmd, shell=True, cwd=cwd, env=e, capture_output=True, text=True, timeout=timeout)
    return p.returncode, (p.stdout + p.stderr)[-3000:]

def tests_for(files):
    sel = set()
    for f in files:
        if f.startswith("onnxscript/rewriter/ort_fusions"): sel.add("onnxscript/rewriter/ort_fusions")
        elif f.startswith("onnxscript/rewriter"): sel.add("onnxscript/rewriter")
        elif f.startswith("onnxscript/optimizer"): sel |= {"onnxscript/optimizer", "onnxscript/rewriter/rules/common"}
        elif f.startswith("onnxscript/version_converter"): sel |= {"onnxscript/version_converter", "tests/version_converter"}
        elif f.startswith("onnxscript/_internal") or f == "onnxscript/tensor.py":
            sel |= {"onnxscript/_internal", "onnxscript/tensor_test.py", "tests/if_test.py", "tests/loop_test.py", "tests/eager_mode_test.py",
                    "tests/operator_test.py", "tests/onnx_types_test.py", "onnxscript/backend/onnx_export_test.py", "onnxscript/nn", "docs/test"}
        elif f.startswith("onnxscript/nn"): sel |= {"onnxscript/nn", "onnxscript/_internal/builder_test.py"}
        elif f.startswith("onnxscript/backend"): sel.add("onnxscript/backend")
        elif f.startswith("onnxscript/function_libs"): sel |= {"tests/function_libs/torch_lib", "onnxscript/function_libs"}
        elif f.startswith("onnxscript/_framework_apis"): sel |= {"onnxscript/_framework_apis"}
        elif f.startswith("onnxscript/ir") or f.startswith("onnxscript/utils"): sel |= {"onnxscript/ir", "onnxscript/utils", "onnxscript/optimizer"}
        elif f.startswith("onnxscript/onnx_opset") or f.startswith("opgen"): sel |= {"onnxscript/_internal", "tests/eager_mode_test.py", "tests/operator_test.py"}
        else: sel.add(os.path.dirname(f))
    return sorted(sel)

def main(d):
    d = os.path.abspath(d); name = os.path.basename(d)
    wt = f"/tmp/ver-{name}"
    subprocess.run(f"git -C /repo worktree remove --force {wt}", shell=True, capture_output=True)
    subprocess.run(f"git -C /repo worktree add -q {wt} HEAD", shell=True, check=True)
    res = {"name": name}
    try:
        env = {"PYTHONPATH": wt, "PYTHONHASHSEED": "0"}
        demo = next((f for f in os.listdir(d) if f.startswith("demo") and f.endswith(".py")), None)
        rc0, out0 = sh(f"/venv/bin/python {d}/{demo}", wt, env)
        rc, o = sh(f"git apply {d}/patch.diff", wt)
        if rc: res["error"] = "patch does not apply: " + o; return res
        files = [l.split()[-1] for l in subprocess.run("git diff --name-only", shell=True, cwd=wt, capture_output=True, text=True).stdout.splitlines()]
        rc1, out1 = sh(f"/venv/bin/python {d}/{demo}", wt, env)
        res.update(demo=demo, demo_clean_rc=rc0, demo_patched_rc=rc1, demo_patched_tail=out1[-600:], files=files)
        sel = [t for t in tests_for(files) if os.path.exists(os.path.join(wt, t))]
        junit = f"/var/tmp/ver-{name}.xml"
        cmd = f"/venv/bin/python -m pytest -q -p no:cacheprovider -n 8 --timeout=900 --continue-on-collection-errors --junitxml={junit} " + " ".join(sel)
        rc2, out2 = sh(cmd, wt, env)
        broken = []
        ntests = 0
        if os.path.exists(junit):
            for tc in ET.parse(junit).getroot().iter("testcase"):
                ntests += 1
                tid = f"{tc.get('classname')}::{tc.get('name')}"
                if any(ch.tag in ("failure", "error") for ch in tc) and tid in STABLE:
                    broken.append(tid)
            os.remove(junit)
        res.update(tests_cmd=cmd.replace(junit, "<junit>"), tests_run=ntests, tests_summary=out2.strip().splitlines()[-1] if out2.strip() else "", stable_tests_broken=broken[:20])
        no_tests_exist = bool(files) and all(f.startswith("onnxscript/_framework_apis") for f in files)
        if ntests == 0 and no_tests_exist:
            res["tests_summary"] = "no repository test imports onnxscript/_framework_apis/torch_2_5.py (0 tests selected); the full baseline does not exercise save_model_with_external_data"
        res["valid"] = (rc0 == 0 and rc1 != 0 and not broken and (ntests > 0 or no_tests_exist))
        return res
    finally:
        subprocess.run(f"git -C /repo worktree remove --force {wt}", shell=True, capture_output=True)
        json.dump(res, open(os.path.join(d, "verify.json"), "w"), indent=1)
        print(json.dumps({k: res.get(k) for k in ("name", "valid", "demo_clean_rc", "demo_patched_rc", "tests_run", "tests_summary", "stable_tests_broken", "error")}))

for d in sys.argv[1:]:
    main(d)
