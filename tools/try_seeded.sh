#!/bin/bash
# usage: tools/try_seeded.sh <dir with patch.diff> <PROP> [tier]  -- applies the patch to /repo, runs the check, reverts
set -u
d=$(realpath $1); p=$2; tier=${3:-quick}
cd /repo || exit 2
if ! git diff --quiet; then echo "/repo dirty"; exit 2; fi
git apply "$d/patch.diff" || { echo "patch does not apply"; exit 2; }
cd /verif
./check $p --tier $tier > /var/tmp/try_$p.log 2>&1; rc=$?
git -C /repo checkout -- .
echo "rc=$rc"; grep -E "^(VIOLATION|KNOWN-FINDING|\[C|MACHINERY|SPEC-MISMATCH)" /var/tmp/try_$p.log | cut -c1-300 | head -${LINES_MAX:-12}
