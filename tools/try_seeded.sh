#!/bin/bash
# usage: tools/try_seeded.sh <dir with patch.diff> <PROP> [tier]
# applies the patch to a scratch worktree of /repo (shadowing /repo via PYTHONPATH), runs the check, removes the worktree.
# (evidence is redirected: the run does not overwrite /verif/evidence/<PROP>.json)
set -u
d=$(realpath $1); p=$2; tier=${3:-quick}
wt=/tmp/try-$(basename $d)-$$
git -C /repo worktree add -q $wt HEAD || exit 2
( cd $wt && git apply "$d/patch.diff" ) || { echo "patch does not apply"; git -C /repo worktree remove --force $wt; exit 2; }
cd /verif
cp evidence/$p.json /var/tmp/evidence_$p.bak 2>/dev/null
PYTHONPATH=$wt ./check $p --tier $tier > /var/tmp/try_$p.log 2>&1; rc=$?
cp /var/tmp/evidence_$p.bak evidence/$p.json 2>/dev/null
git -C /repo worktree remove --force $wt
echo "rc=$rc"; grep -E "^(VIOLATION|KNOWN-FINDING|\[C|MACHINERY|SPEC-MISMATCH)" /var/tmp/try_$p.log | cut -c1-250 | head -${LINES_MAX:-8}
