#!/usr/bin/env python3
"""Writes /verif/seeded/README.md from seeded/*/meta.json"""
import json, glob, os
rows = []
for f in sorted(glob.glob('/verif/seeded/C*/meta.json')):
    m = json.load(open(f))
    v = m.get("verified_in_scratch_worktree", {})
    rows.append((m["name"], m["property"], "; ".join(f"{k}: {x}" for k, x in sorted(m.get("checks_run_against_it", {}).items())),
                 (m.get("breaks") or "")[:260].replace("|", "/"), v.get("demo_rc_without_change"), v.get("demo_rc_with_change"), v.get("repo_tests_summary", "")[:80]))
out = ["# Seeded regressions (changes to microsoft/onnxscript that break a property while passing the repository's tests)", "",
       "Produced by independent sub-agents that saw only the property text (round 1: m1/m2, round 2: m3/m4, round 3: the next three numbers of each, rounds 4, 5 and 6: two more each (a: history or two cooperating sites, b: unusual input or option; round-6 changes that were not kept are in _rejected/)",
       "property - asked for changes that need something specific to manifest; C01-r*: reverse patches of fix commits); each was confirmed in a scratch worktree",
       "(demo passes without / fails with the change; relevant repository tests still pass) and then run against the checks with",
       "`tools/try_seeded.sh seeded/<name> <PROP>`. `meta.json` in each directory has the details.", "",
       "| change | property | result of the checks (final state of /verif) | what it breaks | demo rc clean/patched | repo tests with the change |",
       "|---|---|---|---|---|---|"]
for r in rows:
    out.append(f"| {r[0]} | {r[1]} | {r[2]} | {r[3]} | {r[4]}/{r[5]} | {r[6]} |")
open('/verif/seeded/README.md', 'w').write("\n".join(out) + "\n")
print(len(rows), "rows")
