#!/usr/bin/env python3
"""Writes seeded/<name>/meta.json for the regressions of rounds 4 and 5 (those with origin.txt) from notes.md,
verify.json (tools/verify_seeded.py) and final_check.json (tools/final_seeded.sh).  Unverified or invalid ones are reported."""
import json, os, re, subprocess, sys
V = "/verif"
CROSS = json.load(open(f"{V}/seeded/cross_checks.json")) if os.path.exists(f"{V}/seeded/cross_checks.json") else {}
head = subprocess.run("git -C /repo rev-parse --short HEAD", shell=True, capture_output=True, text=True).stdout.strip()
names = sorted(n for n in os.listdir(f"{V}/seeded") if re.match(r"C\d\d-m\d+$", n) and os.path.exists(f"{V}/seeded/{n}/final_check.json")
               and os.path.exists(f"{V}/seeded/{n}/origin.txt"))
bad = []
for n in names:
    d = f"{V}/seeded/{n}"
    fc = json.load(open(f"{d}/final_check.json"))
    ver = json.load(open(f"{d}/verify.json")) if os.path.exists(f"{d}/verify.json") else {}
    notes = open(f"{d}/notes.md").read() if os.path.exists(f"{d}/notes.md") else ""
    paras = [p.strip() for p in re.split(r"\n\s*\n", notes) if p.strip()]
    breaks = next((p for p in paras if re.search(r"break|clause|violat", p, re.I)), paras[0] if paras else "")
    needs = next((p for p in paras if re.search(r"need|manifest|trigger", p, re.I)), "")
    if n.startswith("C01-r"):
        breaks = "reverse of a fix commit in /repo: re-introduces the defect the fix repaired (see known_findings.json 'fixed')"
        needs = {"C01-r1": "a variable read only inside a keyword-argument expression after an if / inside a loop that assigns it",
                 "C01-r2": "a nested function (Scan body) capturing a variable that a preceding if assigns",
                 "C01-r3": "a while loop with a trailing `if c: break` whose loop condition becomes false before the break condition becomes true"}[n]
    verdict = {fc["check"]: ("caught (exit 1)" if fc["rc"] == 1 else "missed (exit 0)" if fc["rc"] == 0 else f"machinery failure (exit {fc['rc']})")}
    verdict.update(CROSS.get(n, {}))
    meta = {
        "name": n, "property": n.split("-")[0], "round": int(re.search(r"round(\d)", open(f"{d}/origin.txt").read()).group(1)),
        "breaks": re.sub(r"\s+", " ", breaks)[:900], "needs_to_manifest": re.sub(r"\s+", " ", needs)[:900],
        "patch_applies_to_repo_commit": head,
        "verified_in_scratch_worktree": {
            "demo": ver.get("demo"), "demo_rc_without_change": ver.get("demo_clean_rc"), "demo_rc_with_change": ver.get("demo_patched_rc"),
            "repo_tests_cmd": ver.get("tests_cmd"), "repo_tests_run": ver.get("tests_run"),
            "repo_tests_summary": re.sub(r"\x1b\[[0-9;]*m", "", ver.get("tests_summary", "")),
            "stable_tests_broken": ver.get("stable_tests_broken"), "valid": ver.get("valid"),
        },
        "checks_run_against_it": verdict, "first_violation_reported": fc.get("first_violation", ""),
        "how_to_rerun": f"cd /verif && tools/try_seeded.sh seeded/{n} <PROP> [quick|thorough]   (or: git -C /repo apply seeded/{n}/patch.diff; ./check <PROP>; git -C /repo checkout -- .)",
    }
    json.dump(meta, open(f"{d}/meta.json", "w"), indent=1)
    if not ver.get("valid"):
        bad.append(n)
print(len(names), "metas written; not (yet) verified valid:", bad)
