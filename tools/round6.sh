#!/bin/bash
# usage: tools/round6.sh <PROP> [...]   collects /tmp/seed6/out-<PROP>/{a,b} as seeded/<PROP>-m<k> (next free numbers), verifies each in a scratch
# worktree (tools/verify_seeded.py) and runs the property's quick check against it (tools/final_seeded.sh); sequential per property.
cd /verif
for p in "$@"; do
  for ab in a b; do
    src=/tmp/seed6/out-$p/$ab
    [ -f $src/patch.diff ] || { echo "$p/$ab: no patch"; continue; }
    # already collected?
    done_name=$(grep -l "round6-src: $p/$ab" seeded/$p-m*/origin.txt 2>/dev/null | head -1)
    if [ -n "$done_name" ]; then n=$(basename $(dirname $done_name)); else
      k=1; while [ -e seeded/$p-m$k ]; do k=$((k+1)); done
      n=$p-m$k; mkdir -p seeded/$n
      cp $src/patch.diff $src/notes.md seeded/$n/ 2>/dev/null
      cp $src/demo.py seeded/$n/demo.py
      echo "round6-src: $p/$ab" > seeded/$n/origin.txt
    fi
    [ -f seeded/$n/verify.json ] || tools/verify_seeded.py seeded/$n > /var/tmp/verify_$n.log 2>&1
    valid=$(python3 -c "import json;print(json.load(open('/verif/seeded/$n/verify.json')).get('valid'))")
    echo "$n valid=$valid"
    [ -n "$NOFINAL" ] || [ -f seeded/$n/final_check.json ] || VERIF_WORKERS=6 tools/final_seeded.sh $n
  done
done
