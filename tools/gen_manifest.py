#!/usr/bin/env python3
"""Regenerates /verif/MANIFEST.json from the table below (single source of truth)."""
import json
import os

V = "/verif"
props = [json.loads(l) for l in open(f"{V}/properties.jsonl")]

BASE = ("cd /repo && env -u ONNXSCRIPT_VERIF /venv/bin/python -m pytest -ra -q -p no:cacheprovider --timeout=900 "
        "--continue-on-collection-errors --junitxml=/var/tmp/verif-baseline.junit.xml")

# id -> dict(level, text, note, technique, design_ref)
CHECKS = {
    "C11": dict(
        level="model_checking",
        text="Indexing.tla defines NumPy indexing, the converter's Slice/Squeeze/Gather lowering and the eager lowering over exact ONNX "
             "operator semantics (Tensor.tla); TLC checks the design-level property on every (shape, index tuple) of the bounded space and "
             "predicts all three results per case; the harness replays the cases into script()/ORT, eager mode and NumPy and compares "
             "implementation vs NumPy (the property) and implementation vs model (conformance).",
        note="trusts onnxruntime's Slice/Squeeze/Gather kernels and NumPy; TLC integer BIG stands for INT64 max/min; quick tier replays a "
             "seeded sample of the TLC cases, thorough replays all of them",
        technique="TLA+ spec of NumPy indexing vs both lowerings, TLC exhaustive over bounded index tuples, cases replayed into converter+ORT/eager/NumPy",
        design_ref="DESIGN.md section 4 C11",
    ),
    "C12": dict(
        level="model_checking",
        text="Autocast.tla runs the three front ends' type-variable binding algorithms (converter: last binding + CastLike; eager: dtype of last "
             "Tensor; builder: first ir.Value, dynamic CastLike) and the documented rule on every argument pattern of every distinct signature "
             "shape of the real schema registry (opsets 13..23, dumped to JSON at run time); TLC checks they agree; ConstCache.tla models the "
             "builder's constant cache as a state machine over promotion histories (CacheSound). The harness expands patterns to concrete "
             "(op, version, literal, sibling dtype) calls, observes dtype and bit-level value of the operand actually fed in script(), eager mode "
             "and GraphBuilder, and replays cache histories into a real GraphBuilder.",
        note="CastLike results are evaluated with onnxruntime's Cast; negative literals beside unsigned siblings are not judged; quick tier samples "
             "ops/dtypes/literals by seed, thorough uses every op of every signature shape",
        technique="TLA+ model of the three binding algorithms over the real schema registry + cache state machine; TLC exhaustive; cases and histories replayed into the 3 front ends",
        design_ref="DESIGN.md section 4 C12",
    ),
}

NOT_YET = "check not built yet (in progress)"
NA = {}

hooks_commits = []
hc = f"{V}/hook_commits.txt"
if os.path.exists(hc):
    hooks_commits = [l.strip() for l in open(hc) if l.strip()]

m = {
    "version": 1,
    "setup_cmd": "cd /verif && /venv/bin/python -m compileall -q harness >/dev/null && mkdir -p evidence replays",
    "hooks": {
        "guard": "ONNXSCRIPT_VERIF",
        "enable": "checks run /repo's working tree through /venv (editable install); harness-side recorders wrap methods at run time; "
                  "source hooks (if any) are active only when ONNXSCRIPT_VERIF=1",
        "baseline_off_cmd": BASE,
        "source_commits": hooks_commits,
        "add_only": True,
    },
    "engines": [
        {"name": "tlc", "path": "/verif/spec", "serves_properties": sorted(CHECKS),
         "kind_free_text": "TLA+ specifications checked with TLC 1.8 (exhaustive small configs, simulation, batched trace validation); "
                           "cases and traces are exchanged with the Python conformance harness in /verif/harness"},
    ],
    "checks": [],
    "notes": "One CLI: ./check <id> --tier quick|thorough; exit 0 held / 1 VIOLATION / 2 machinery failure. "
             "Known findings: /verif/known_findings.json. Seeded regressions used to test the checks: /verif/seeded/.",
    "not_applicable": [],
}
for p in props:
    pid = p["id"]
    if pid in CHECKS:
        c = CHECKS[pid]
        m["checks"].append({
            "property_id": pid,
            "quick_cmd": f"./check {pid} --tier quick",
            "thorough_cmd": f"./check {pid} --tier thorough",
            "evidence_file": f"/verif/evidence/{pid}.json",
            "replay_cmd_template": f"./check {pid} --replay {{path}}",
            "engine": "tlc",
            "level_claimed": {"category": c["level"], "text": c["text"], "design_ref": c["design_ref"]},
            "level_note": c["note"],
            "technique": c["technique"],
        })
    else:
        m["not_applicable"].append({"property_id": pid, "reason": NA.get(pid, NOT_YET)})
json.dump(m, open(f"{V}/MANIFEST.json", "w"), indent=1)
print("checks:", [c["property_id"] for c in m["checks"]])
