#!/usr/bin/env python3
"""Regenerates /verif/MANIFEST.json from the table below (single source of truth)."""
import json
import os

V = "/verif"
props = [json.loads(l) for l in open(f"{V}/properties.jsonl")]

BASE = ("cd /repo && env -u ONNXSCRIPT_VERIF /venv/bin/python -m pytest -ra -q -p no:cacheprovider --timeout=900 "
        "--continue-on-collection-errors --junitxml=/var/tmp/verif-baseline.junit.xml")

# id -> dict(level, text, note, technique, design_ref)
CHECKS = {
    "C01": dict(
        level="model_checking",
        text="Script.tla derives programs of the ONNX Script subset by grammar actions, gives them their Python meaning, transcribes analysis.py "
             "(assigned_vars, liveness fix-points, exposed_uses) and the converter's scope/If-output/Loop-state selection and refusal rules, and defines "
             "what the emitted graph computes; TLC checks Faithful (refused or equal to Python wherever Python is defined) on every program up to the "
             "bound and on simulated deeper derivations. Every derived program is rendered to source, decorated with the real script(), run eagerly, as "
             "to_model_proto() on ORT and as a model calling to_function_proto(), and compared with TLC's Python values. Direction B: traces recorded by "
             "env-guarded hooks in converter.py (the repository's own programs and converter tests, the derived programs, 16 hand-written programs "
             "outside the grammar) are validated by TLC against Converter.tla, an operational model of the scope stack / unique-name generator / "
             "bindings in which analysis.py is transcribed on abstract statement trees, so the If outputs and Loop state of ARBITRARY programs are "
             "computed by the specification and every construct's five sequences are checked position-wise.",
        note="values are INT64 scalars on 6 inputs; expression menu is fixed (incl. sub-function call and attribute parameter); ORT executes If/Loop as ONNX "
             "specifies; quick replays a stratified seeded sample, thorough all programs of the larger bound",
        technique="TLA+ model of converter liveness/scoping vs Python semantics, TLC exhaustive + simulation, derived programs replayed into script()/eager/ORT; "
                  "TLC trace validation of recorded converter executions against an operational TLA+ model (Converter.tla)",
        design_ref="DESIGN.md section 4 C01",
    ),
    "C02": dict(
        level="model_checking",
        text="Graph.tla defines well-formedness of an ONNX graph with nested subgraphs (every name defined once incl. subgraphs, uses visible and defined "
             "earlier, outputs distinct and produced inside, domains imported once); it is evaluated BY TLC on the abstract form of every ModelProto and "
             "FunctionProto the real converter emits (GraphCheck.tla) for the programs derived by Script.tla (rendered under three variable naming schemes, "
             "incl. user names that look like generated ones), next to onnx.checker (strict, full_check / check_function). Near-miss source mutations "
             "(return in a block, augmented assignment, del, try, undefined name, break not last, range with two arguments, while on an expression) must "
             "raise at decoration. Direction B: the structural clauses of Converter.tla (names generated exactly as the algorithm says and defined once, "
             "inputs visible, subgraph outputs produced inside and distinct) are evaluated by TLC at every step of recorded traces of the real "
             "converter (repository programs and tests, derived programs).",
        note="programs are those of C01's grammar (the trace validation also covers the repository's own programs); functions with attribute parameters are not exported as models (documented)",
        technique="TLA+ well-formedness predicate evaluated by TLC on real protos of TLC-derived programs + ONNX checker + near-miss refusal; TLC trace "
                  "validation of recorded converter executions (structural clauses of Converter.tla)",
        design_ref="DESIGN.md section 4 C02",
    ),
    "C06": dict(
        level="model_checking",
        text="Matcher.tla builds patterns bottom-up, instantiates them into host graphs and applies single mutations; for every case TLC evaluates the "
             "declarative meaning (forced correspondences consistent, local requirements, removability; commuted variants) and an operational model of "
             "_matcher.py/_basics.py (depth-first matching with the stack of partial matches, OR dispatch/backtracking, merge) and checks they agree on the "
             "design. Every case is rebuilt with the public pattern API and real ir graphs and given to Pattern.match (and to every pattern of "
             "GraphPattern.commute()); verdict, bindings and matched nodes are compared with the declarative meaning and the operational model.",
        note="single-output-node patterns; <=2 pattern nodes with all ops / <=3 with two ops (thorough), one OR, local features (attributes, "
             "allow_other_*, optional input) on single-node patterns",
        technique="TLA+ declarative vs operational matcher model, TLC exhaustive over instance-directed cases, each case replayed into Pattern.match",
        design_ref="DESIGN.md section 4 C06",
    ),
    "C13": dict(
        level="model_checking",
        text="Export.tla builds abstract graphs (ops, constants, initializers, If/Loop forms, nested bodies), picks export options and ONNX names, runs the "
             "exporter step by step (name tables, signature, initializers, node translation incl. the Loop forms, return), models what script() accepts "
             "and compares Python semantics of the emitted program with the ONNX semantics (DesignOK / DeviationsExplain). Every TLC case becomes a real "
             "ModelProto/FunctionProto -> proto2python -> compile -> import -> to_model_proto -> ORT vs ORT(original); plus the documented script<->ONNX "
             "round trip of script functions under all 16 option combinations.",
        note="values are FLOAT scalars holding integers/nan/inf; graph inputs/outputs compared by position, type and shape; 17 exporter defects are "
             "listed as known findings",
        technique="TLA+ model of the exporter + converter acceptance, TLC exhaustive, each case round-tripped through proto2python and ORT",
        design_ref="DESIGN.md section 4 C13",
    ),
    "C03": dict(
        level="model_checking",
        text="Optimizer.tla (extends Tensor, Graph) builds small models by actions (unary/binary/Clip/Cast/CastLike/Transpose/Dropout, shape chains, "
             "Reshape/Expand/Unsqueeze, If with constant or input condition whose branches capture outer values and own initializers; constants as "
             "Constant nodes, initializers, overridable initializer-inputs; five input worlds incl. symbolic and unnamed dims) and then runs optimize_ir as "
             "named steps transcribed from the code (FoldVisit one node per step: symbolic-value substitution, node-level shape inference, the partial "
             "evaluators incl. If inlining with initializer moving, FoldByReference with the graph-input guard, _clear_unused_initializers; FoldOutputs; "
             "RewriteVisit with the kernel-expressible default rules; DCE; LiftConstants; LiftSubgraphInits; DedupInits; CSE; OutputFix); invariant "
             "PropertyHolds after EVERY step: outputs equal on every probe. Every selected model is built as a real ModelProto and run through "
             "optimize() and rotating variants (optimize_ir, fold_constants, remove_unused_nodes, rewrite, RewritePass, option tuples, proto vs IR); ORT "
             "original vs optimized on 3 probes (bit-exact for int/bool); plus 1905 ONNX backend-test models lifted seven ways with their recorded outputs "
             "as a third oracle (exploration). Direction B: FoldApply.tla/FoldTrace.tla - every recorded run of FoldConstantsPass (env-guarded hooks in "
             "_constant_folding.py: the derived, family and lifted library models going through the entry points, the repository's optimizer tests, "
             "hand-written models) is EXECUTED by TLC event by event (SubstInput, Fold, InlineIf, Replace, Cleared, ReplaceOutput) on the model in token "
             "form; C03 owns the clauses 'only deterministic non-control-flow nodes whose inputs are all constants are folded', 'an If is inlined only on a "
             "constant condition and hands over exactly its taken branch', and 'the final model equals what the steps produce'.",
        note="sequence ops, Loop, functions/InlinePass, size gates and should_fold are covered by the library stage and the variants, not by the TLA+ "
             "model; originals ORT refuses are discarded and counted",
        technique="TLA+ step-wise optimizer model with exact Eval, TLC exhaustive + simulation, models replayed through optimize() variants on ORT, plus lifted ONNX node-test models; "
                  "TLC trace validation of recorded constant-folder executions against an operational TLA+ model (FoldApply.tla)",
        design_ref="DESIGN.md section 4 C03",
    ),
    "C04": dict(
        level="model_checking",
        text="Same Optimizer.tla; the invariant PropertyHolds also requires after every step: signature kept (names, order, defaults, output types), never "
             "raises, Graph!SSA and Graph!Scoped, and equality on an OVERRIDE probe for overridable initializer-inputs (never read as constants). The "
             "harness judges on the real code: no exception from optimize/rewrite/fold_constants (120 s watchdog), onnx.checker and Graph!WF (TLC) on the "
             "result, signature equal, and for models with overridable inputs runs with the default omitted and with an override value; same lifted "
             "library stage (incl. inputs lifted to overridable defaults). Direction B: recorded rewriter executions are executed by TLC on "
             "RewriteApply.tla and recorded constant-folder executions on FoldApply.tla (C04 owns: every value a step makes a node read is visible at "
             "that node, no fold over a graph input, no If inlined on / no initializer dropped that is an overridable input, moved or new "
             "initializers never overwrite an existing name, the result is topologically ordered with defined outputs, main inputs and the number "
             "of outputs unchanged, the modified flag is truthful).",
        note="Graph.tla SSA is global (stricter than ONNX for sibling If branches): an SSA failure counts only if a scoped check also fails; "
             "termination is a watchdog, not a liveness property",
        technique="TLA+ step-wise optimizer model (signature/WF/override invariants), TLC exhaustive + simulation, replay through optimize() variants + checker + GraphCheck + override runs; "
                  "TLC trace validation of recorded rewriter and constant-folder executions (RewriteApply.tla, FoldApply.tla)",
        design_ref="DESIGN.md section 4 C04",
    ),
    "C05": dict(
        level="model_checking",
        text="Rules.tla models one application attempt of one shipped rewrite rule to one host model as the steps of try_rewrite (Match incl. literal "
             "tolerance and removability, Check = the rule's side condition, Rewrite, Replace) for 26 rule families (all 53 exported names of "
             "rules.common) over parameter tuples (shapes incl. [1], [1,1], rank extension, symbolic/unknown dims, bounds in every order, attributes at "
             "non-default values, constants as initializer/Constant/graph input, opset); both sides are evaluated exactly on Tensor.tla (integer MatMul, "
             "Gemm, Conv, Pad, ScatterND, BatchNorm, Cast, Clip); invariants Sound / NoFireOnUnknown on the design, DeviationsExplain on the "
             "implementation model. Every tuple becomes a real model; RewriteRuleSet([rule]).apply_to_model from the real code; fired/raised vs the "
             "model; onnx.checker and ORT before vs after (dtype, shape, exact values) on two feeds.",
        note="rules.fusion.* (float-kernel normalisation / attention fusions) are not covered; the hardswish family is judged up to the round-off of the HardSigmoid / HardSwish kernels; Conv is 1-D with <=2 channels; one integer-valued "
             "tensor per host plus a second feed changing overridable operands",
        technique="TLA+ Lhs/Cond/Rhs model per rule with exact integer tensor semantics, TLC exhaustive over parameter tuples, each tuple replayed through the real rule + ORT",
        design_ref="DESIGN.md section 4 C05, Appendix C",
    ),
    "C07": dict(
        level="model_checking",
        text="Rewrite.tla models RewriteRuleSet._apply_to_graph_or_function / apply_to_model / rewrite() with one action per code step: the iteration "
             "cursor over a graph mutated while iterated (stale next pointer of an erased node, replacement nodes visited by the same loop), first "
             "applicable rule, initializer registration incl. the name-clash branch, as_function extraction, Splice (name copy, redirect of uses and graph "
             "outputs incl. nested bodies, insertion after the root, safe erase, metadata merge), Descend/Advance/Ascend, post passes (DCE, NameFix with "
             "exact names, the three rewrite() clean-ups); hosts are derived per rule set with instances in the main graph, If/Loop bodies and "
             "model-local functions, overlapping instances, a val_0-named outer value, a clashing initializer, an extra graph output. Invariants: Graph!WF "
             "and exact Eval after every Splice; signature, frame, progress, termination, name-level WF at the end. Every TLC case is rebuilt as a real "
             "ModelProto + real RewriteRule objects and run through apply_to_model and rewrite(): no exception, checker, scope SSA, Graph!WF via TLC, ORT "
             "before/after, signature, frame, progress; the final model must be isomorphic to the spec's. Direction B: RewriteApply.tla is a rule-agnostic "
             "operational model of ONE rule application on the whole model in token form; the traces recorded by env-guarded hooks in _rewrite_rule.py "
             "(every generated case and the repository's own rewriter/optimizer tests with their real rule sets) are executed by TLC and every recorded "
             "snapshot must equal the state the specification computed (exactly the matched nodes removed, every use redirected, nothing else touched, "
             "clean-up removes only dead nodes, count = number of applications, result topologically ordered).",
        note="values are FLOAT scalars; generated rules are Neg(Neg), keep-nodes, Relu(Relu), Mul by 1, Sub->Add/Neg, Add->Sum, new-initializer, "
             "as_function, a two-output-node pair, and ordered lists of these; quick uses nesting depth 1",
        technique="TLA+ model of the rewrite engine (cursor, splice, post passes) with exact Eval, TLC exhaustive over derived hosts, each case replayed into rewrite()/apply_to_model + GraphCheck + ORT; "
                  "TLC trace validation of recorded rule applications against RewriteApply.tla (snapshots = computed state)",
        design_ref="DESIGN.md section 4 C07",
    ),
    "C08": dict(
        level="model_checking",
        text="AtenOps.tla gives ATen source semantics (Aten) for 207 registered overloads in 9 families over Tensor.tla with the operator's domain as "
             "enabling condition, and the torch_lib lowering (Low) transcribed onto ONNX semantics for the ops whose lowering has case analysis; "
             "DesignOK (Low without deviations = Aten) and DeviationsExplain; the registry is read from the real get_torchlib_ops(). AtenModule.tla "
             "simulates small modules with PyTorch type promotion. Each case runs in torch eager and in the registered function traced as the exporter "
             "does (OpRecorder) on ORT; each simulated module is exported with torch.onnx.export(dynamo=True, custom_translation_table=this repo's "
             "functions) and compared with torch and with TLC's values.",
        note="values are exact for integer-valued families; float kernels (softmax, norms, pool, conv, transcendental) are judged on structure/dtype/shape "
             "and values within dtype tolerance; onnx.reference arbitrates run-time refusals of ORT's zero-size kernels only",
        technique="TLA+ ATen semantics vs lowering model over the real registry, TLC exhaustive per family + simulated modules, replayed into torch eager vs traced function on ORT and dynamo export",
        design_ref="DESIGN.md section 4 C08",
    ),
    "C19": dict(
        level="model_checking",
        text="OrtFusion.tla models the fuse_xformers / optimize_for_ort pipeline protocol as named steps, the dimension unifier check_shape, and per "
             "fusion a guard transcribed from pattern()+check() against the constraints the fused contrib operator imposes (DesignOK: every fired "
             "fusion is safe; ProtocolOK); FusedMatMul.tla models the 14 fused-matmul rules as term rewriting with exact integer semantics (Eval "
             "preserved). TLC enumerates the configuration tuples (batch, sequence, heads, kv heads, head size, bias/mask/past, operand order, eps, "
             "axis, dtype); each is built as a real pattern instance, run through its fuse_* chain and optimize_for_ort, and fusion counts, fused-op "
             "census and ORT outputs before/after are compared.",
        note="TLC decides the pipeline protocol, the unifier, the guard-vs-fused-operator-constraint tables and the exact FusedMatMul rewriting; the numerical half is an observable equality on onnxruntime (CPU EP) with dtype tolerance on one random input per configuration; "
             "com.microsoft.GroupNorm has no CPU kernel (structural only)",
        technique="TLA+ pipeline protocol + guard tables + exact FusedMatMul term rewriting, TLC exhaustive over configuration tuples, spec-directed replay on ORT",
        design_ref="DESIGN.md section 4 C19",
    ),
    "C09": dict(
        level="model_checking",
        text="SymShape.tla derives models whose inputs carry literal, named (repeated) and unnamed dims and mix data ops with shape computations, and runs "
             "one pass of FoldConstantsPass step by step (input resolution + node-level shape inference, one action per partial evaluator: Shape, Size, "
             "Gather, Add with composite symbols, Abs, Reshape, Squeeze, Cast, Identity backward merge, Concat, Expand, generic folding) on the code's own "
             "state (symbolic value map, value shapes, constants); Finish evaluates original and folded graph under every binding of the free dims to "
             "{0,1,2,3,7}; DesignSound/ShapesSound. Every emitted model is folded once by the real fold_constants (symbolic_value_map, shapes and per-node "
             "decisions compared with the spec) and optimized once, then original and optimized run on ORT at every binding.",
        note="rewrite rules are exercised through the real optimize() but modelled in C05; <=2 inputs of rank <=3, exhaustive to 2 nodes + 3-node chains, "
             "deeper models by seeded simulation; bindings ORT rejects on the original are discarded",
        technique="TLA+ model of the folder's symbolic shape reasoning, TLC exhaustive + simulation, one optimize per model and many shape bindings on ORT",
        design_ref="DESIGN.md section 4 C09",
    ),
    "C10": dict(
        level="model_checking",
        text="VersionConvert.tla models convert_version as a pipeline of named steps (entry form, inline, path decision, per-node adapter steps incl. "
             "swallowed adapter errors, opset setting, fallback to the C API with initializer recovery, proto copy-back) over models built from the real "
             "ONNX schema history (dumped to JSON); TLC checks Prop (declared = target or unchanged; consistent; valid; equivalent; signature and "
             "initializers kept) on the design and Explained on the implementation model; every TLC configuration is built as a real model, converted by "
             "the real code and judged by checker, opset fields and ORT before/after. Direction B: VersionApply.tla/VersionTrace.tla - every recorded "
             "run of _VersionConverter.visit_model (env-guarded hooks in _version_converter.py: every generated configuration, the repository's tests, "
             "hand-written models with adapters inside If/Loop bodies) is executed by TLC step by step: one version up from the node's current version, "
             "replaced only where an adapter is registered, replacement wired/visible/at the next version, bodies converted with their node, every "
             "default-domain node of every graph at the target and every scope declaring it at the end, final model = computed state.",
        note="source/target in 18..25, DFT/GridSample/GroupNormalization/unchanged ops at top level, in If bodies and in functions; equivalence judged on "
             "two seeded inputs; sources the checker rejects are not judged for validity",
        technique="TLA+ pipeline model over real schema history, TLC exhaustive, every configuration replayed into convert_version + checker + ORT; "
                  "TLC trace validation of recorded version-converter executions against an operational TLA+ model (VersionApply.tla)",
        design_ref="DESIGN.md section 4 C10",
    ),
    "C14": dict(
        level="model_checking",
        text="History.tla models the PROCESS as a state machine: everything that outlives a call (Opset.cache, the type shape cache, the _pattern_builder "
             "global and its context stack, per rule which check() last wrote each field rewrite() reads, lazily compiled patterns, FoldConstantsPass "
             "state, default evaluator, Parameter._realized, script module globals versions) and 25 concrete operations as sequences of critical steps "
             "(24 Ev* actions), each also run on a shadow state started fresh; invariant HistoryIndependent (result after any history = result in a fresh "
             "process, for every set-order choice), Explained, GlobalsRestored. The step catalogue is recorded from the real code; TLC enumerates all "
             "ordered pairs/triples (quadruples in thorough) and simulated length-8 histories. Each history is replayed in a forked child of a freshly "
             "imported interpreter under several PYTHONHASHSEEDs; every operation's serialized result is compared with the fresh-process result, state "
             "snapshots (incl. a generic scan of onnxscript module globals) with the spec state, and instrumented step sequences with TLC's prediction.",
        note="references use truly fresh interpreters, histories forked children of a fresh zygote per hash seed; exception messages and eager calls after "
             "global mutation are not judged",
        technique="TLA+ process-state machine with shadow fresh state, TLC exhaustive over operation histories, histories replayed in fresh processes under several hash seeds",
        design_ref="DESIGN.md section 4 C14",
    ),
    "C18": dict(
        level="model_checking",
        text="Builder.tla/BuilderSem.tla model GraphBuilder/OpBuilder as a state machine deriving a traced program call by call (CallOp, Push/Pop, "
             "OpenIf/CloseThen/CloseElse, OpenLoop, OpenScan, CallFn, InlineFn) with each step of call_op as a named operator (schema partition and "
             "type-variable binding, literal promotion and constant cache, output and node naming, sub-builder frames, inlining) over the real onnx "
             "signatures and the real function bodies (JSON); ModuleTree.tla models nn module trees built by New/SetAttr/Append with the three _set_name "
             "and two _register_child variants and call policies. Invariants DesignOK, DeviationsExplain, ScopeBalanced. Every printed trace is replayed "
             "into a real GraphBuilder and every tree into real onnxscript.nn classes: checker, Graph!WF via TLC, ORT vs a NumPy replay of the trace, "
             "wiring of the built graph vs the traced calls, initializer names vs root name + state_dict() keys, second build. Direction B: traces "
             "recorded by env-guarded hooks in builder.py / nn/_parameter.py (one per root GraphBuilder: the repository's builder and nn tests, "
             "hand-written drivers, a sample of the replayed traces and trees) are executed event by event by BuilderApply.tla (scope stacks, values "
             "defined per graph, root initializers by name, constant cache with the literal behind each key) under name / scope-metadata / cache / "
             "visibility clauses.",
        note="explicit module names equal the attribute they are assigned to; exhaustive runs use a small operator menu, the full 44-operator menu is "
             "covered by simulation; -0.0/nan literals are left to C12",
        technique="TLA+ builder and module-tree state machines over real signatures, TLC exhaustive + simulation, each trace/tree replayed into GraphBuilder/nn + ORT + GraphCheck; "
                  "TLC trace validation of recorded builder executions against an operational TLA+ model (BuilderApply.tla)",
        design_ref="DESIGN.md section 4 C18",
    ),
    "C15": dict(
        level="model_checking",
        text="ProtoIR.tla models each proto wrapper step by step (deserialize with payload aliasing, passes, serialize, Clear/CopyFrom, graph-only copy-back) "
             "over models as carriers->tokens and checks proto result = serialize(IR result), untouched carriers preserved, argument kept/mutated per "
             "contract, serde adds nothing and is idempotent; TensorPayload.tla enumerates element type x storage x shape x metadata payload cases. "
             "Every TLC case is built as a real ModelProto/TensorProto, run through both entry forms of the real APIs and diffed field by field.",
        note="pairwise-complete (quick) / 3-wise (thorough) carrier switch sets over a fixed host graph; map/sparse/training_info not generated",
        technique="TLA+ model of proto/IR wrappers with aliasing + payload enumeration, TLC exhaustive, cases replayed with field-by-field proto diff",
        design_ref="DESIGN.md section 4 C15",
    ),
    "C16": dict(
        level="model_checking",
        text="AtenBinding.tla runs the exporter's argument binding (scripted: _construct_named_inputs_and_attrs; trace-only: the Python call convention) as a "
             "state machine on every entry of the real registry joined with the installed PyTorch schemas and every call shape; TorchRegistry.tla models "
             "torch_op/Registry.register/get_torchlib_ops over registration histories. Each call shape is executed on the real objects and the observed "
             "binding is judged by TLC; registration histories are replayed into a fresh Registry; scripted FunctionProtos go through the ONNX checker.",
        note="sentinel arguments; None for optional arguments not explored; installed PyTorch 2.14 schemas are the reference",
        technique="TLA+ binding state machine over the real registry x torch schemas, TLC exhaustive, each call shape executed and judged by TLC",
        design_ref="DESIGN.md section 4 C16",
    ),
    "C17": dict(
        level="model_checking",
        text="OpsetDispatch.tla reads the real onnx.defs registry (JSON) and models what opgen generates (class chain, one method per schema, parameter "
             "lists/defaults) and one access+call opsetN.Op(...) as a state machine (MRO lookup, dynamic lookup, binding, get_schema, input trimming, "
             "forwarding); invariants Mirror/DynAgrees/TrimInv against the declarative reading of ONNX. All lookups, 630 signatures and 16k-47k calls with "
             "sentinel arguments are replayed step by step into the real generated classes; eager-with-defaults vs bare node executed on ORT for 68 ops.",
        note="attribute defaults compared at float32 precision as ONNX stores them; deprecated operators are expected to have no method",
        technique="TLA+ model of generated opset classes + dispatch over the real schema registry, TLC exhaustive, step-level replay into the real classes",
        design_ref="DESIGN.md section 4 C17",
    ),
    "C20": dict(
        level="model_checking",
        text="ExternalSave.tla models save_model_with_external_data -> ir.save(external_data) as a state machine over the real call sequence (guard, path "
             "derivation, classify, load small, materialise, plan offsets, open/pad/write/close data, swap, serialize, write model, restore) with a fault "
             "action that makes any file-system call fail (or write short) at most once; invariants MemUnchanged, RoundTrip, Refusal, Layout. Every emitted "
             "case (initializer kinds x fault point x verbose x pre-existing files) is replayed into the real function under a file-system shim; the "
             "shim's recorded call sequence must equal the spec's trace.",
        note="faults are injected at open/write/flush/close; ndarray.tofile writes through the descriptor so it is faulted via the preceding flush; reads and "
             "os.path probes never fail",
        technique="TLA+ state machine with fault action, TLC exhaustive over initializer kinds x fault points, fault-injected replay + call-sequence conformance",
        design_ref="DESIGN.md section 4 C20",
    ),
    "C11": dict(
        level="model_checking",
        text="Indexing.tla defines NumPy indexing, the converter's Slice/Squeeze/Gather lowering and the eager lowering over exact ONNX "
             "operator semantics (Tensor.tla); TLC checks the design-level property on every (shape, index tuple) of the bounded space and "
             "predicts all three results per case; the harness replays the cases into script()/ORT, eager mode and NumPy and compares "
             "implementation vs NumPy (the property) and implementation vs model (conformance).",
        note="trusts onnxruntime's Slice/Squeeze/Gather kernels and NumPy; TLC integer BIG stands for INT64 max/min; quick tier replays a "
             "seeded sample of the TLC cases, thorough replays all of them",
        technique="TLA+ spec of NumPy indexing vs both lowerings, TLC exhaustive over bounded index tuples, cases replayed into converter+ORT/eager/NumPy",
        design_ref="DESIGN.md section 4 C11",
    ),
    "C12": dict(
        level="model_checking",
        text="Autocast.tla runs the three front ends' type-variable binding algorithms (converter: last binding + CastLike; eager: dtype of last "
             "Tensor; builder: first ir.Value, dynamic CastLike) and the documented rule on every argument pattern of every distinct signature "
             "shape of the real schema registry (opsets 13..23, dumped to JSON at run time); TLC checks they agree; ConstCache.tla models the "
             "builder's constant cache as a state machine over promotion histories (CacheSound). The harness expands patterns to concrete "
             "(op, version, literal, sibling dtype) calls, observes dtype and bit-level value of the operand actually fed in script(), eager mode "
             "and GraphBuilder, and replays cache histories into a real GraphBuilder.",
        note="CastLike results are evaluated with onnxruntime's Cast; negative literals beside unsigned siblings are not judged; quick tier samples "
             "ops/dtypes/literals by seed, thorough uses every op of every signature shape",
        technique="TLA+ model of the three binding algorithms over the real schema registry + cache state machine; TLC exhaustive; cases and histories replayed into the 3 front ends",
        design_ref="DESIGN.md section 4 C12",
    ),
}

NOT_YET = "check not built yet (in progress)"
NA = {}

hooks_commits = []
hc = f"{V}/hook_commits.txt"
if os.path.exists(hc):
    hooks_commits = [l.strip() for l in open(hc) if l.strip()]

m = {
    "version": 1,
    "setup_cmd": "cd /verif && /venv/bin/python -m compileall -q harness >/dev/null && mkdir -p evidence replays",
    "hooks": {
        "guard": "ONNXSCRIPT_VERIF",
        "enable": "checks run /repo's working tree through /venv (editable install); harness-side recorders wrap methods at run time; "
                  "source hooks (onnxscript/_internal/_verif.py; call sites in converter.py, rewriter/_rewrite_rule.py, "
                  "optimizer/_constant_folding.py, version_converter/_version_converter.py, _internal/builder.py and nn/_parameter.py) are active only "
                  "when ONNXSCRIPT_VERIF=1 is set before onnxscript is imported; ./check sets it for C01, C02, C03, C04, C07, C10 and C18",
        "baseline_off_cmd": BASE,
        "source_commits": hooks_commits,
        "add_only": True,
    },
    "engines": [
        {"name": "tlc", "path": "/verif/spec", "serves_properties": sorted(CHECKS),
         "kind_free_text": "TLA+ specifications checked with TLC 1.8 (exhaustive small configs, simulation, batched trace validation); "
                           "cases and traces are exchanged with the Python conformance harness in /verif/harness"},
    ],
    "checks": [],
    "notes": "One CLI: ./check <id> --tier quick|thorough; exit 0 held / 1 VIOLATION / 2 machinery failure. "
             "Known findings: /verif/known_findings.json. Seeded regressions used to test the checks: /verif/seeded/.",
    "not_applicable": [],
}
for p in props:
    pid = p["id"]
    if pid in CHECKS:
        c = CHECKS[pid]
        m["checks"].append({
            "property_id": pid,
            "quick_cmd": f"./check {pid} --tier quick",
            "thorough_cmd": f"./check {pid} --tier thorough",
            "evidence_file": f"/verif/evidence/{pid}.json",
            "replay_cmd_template": f"./check {pid} --replay {{path}}",
            "engine": "tlc",
            "level_claimed": {"category": c["level"], "text": c["text"], "design_ref": c["design_ref"]},
            "level_note": c["note"],
            "technique": c["technique"],
        })
    else:
        m["not_applicable"].append({"property_id": pid, "reason": NA.get(pid, NOT_YET)})
json.dump(m, open(f"{V}/MANIFEST.json", "w"), indent=1)
print("checks:", [c["property_id"] for c in m["checks"]])
