#!/usr/bin/env python3
"""Moves verified seeded regressions from seeded/_pending/<name> to seeded/<name> and writes meta.json.
usage: keep_seeded.py <results.json>   (results.json: {name: {"caught_by": {"C11:quick": rc, ...}, "needs": "...", "breaks": "..."}})"""
import json, os, re, shutil, subprocess, sys
V = "/verif"
res = json.load(open(sys.argv[1]))
head = subprocess.run("git -C /repo rev-parse --short HEAD", shell=True, capture_output=True, text=True).stdout.strip()
for name, info in res.items():
    src = f"{V}/seeded/_pending/{name}"
    dst = f"{V}/seeded/{name}"
    if not os.path.isdir(src) and not os.path.isdir(dst):
        print("missing", name); continue
    if os.path.isdir(src):
        if os.path.isdir(dst): shutil.rmtree(dst)
        shutil.move(src, dst)
    ver = {}
    if os.path.exists(f"{dst}/verify.json"):
        ver = json.load(open(f"{dst}/verify.json"))
    notes = open(f"{dst}/notes.md").read() if os.path.exists(f"{dst}/notes.md") else ""
    meta = {
        "name": name,
        "property": name.split("-")[0],
        "breaks": info.get("breaks", ""),
        "needs_to_manifest": info.get("needs", ""),
        "patch_applies_to_repo_commit": head,
        "verified_in_scratch_worktree": {
            "demo": ver.get("demo"), "demo_rc_without_change": ver.get("demo_clean_rc"), "demo_rc_with_change": ver.get("demo_patched_rc"),
            "repo_tests_cmd": ver.get("tests_cmd"), "repo_tests_run": ver.get("tests_run"),
            "repo_tests_summary": re.sub(r"\x1b\[[0-9;]*m", "", ver.get("tests_summary", "")),
            "stable_tests_broken": ver.get("stable_tests_broken"), "valid": ver.get("valid"),
        },
        "checks_run_against_it": info.get("caught_by", {}),
        "how_to_rerun": f"cd /verif && tools/try_seeded.sh seeded/{name} <PROP> [quick|thorough]   (or: git -C /repo apply seeded/{name}/patch.diff; ./check <PROP>; git -C /repo checkout -- .)",
    }
    json.dump(meta, open(f"{dst}/meta.json", "w"), indent=1)
    print("kept", name, meta["checks_run_against_it"])
