------------------------------ MODULE TorchRegistry ------------------------------
(* C16, registration side: onnxscript/function_libs/torch_lib/registration.py (torch_op,         *)
(* _check_and_normalize_names, Registry.register) and _framework_apis/torch_2_5.get_torchlib_ops *)
(* as a state machine over registration histories.                                              *)
(*   mode "probe": one candidate name; probeCode / probeOK say whether the validator lets it    *)
(*                 through and whether the property's naming clause holds for it.                *)
(*   mode "hist" : a history of decorator applications  @torch_op(names, private, complex) on   *)
(*                 function number k (k = position in the history).  One action per step of the *)
(*                 code: Decorate (validate all names first), then per name SkipPrivate /       *)
(*                 RegisterFirst / RegisterDuplicateWarn, EndCall.                              *)
(* reg mirrors Registry._registry: insertion-ordered <<name, real, cplx>> entries.              *)
EXTENDS TorchNames, TLC

CONSTANTS MaxCalls,      \* history length
          Names,         \* names used in histories (subset of Universe)
          Deviations     \* {} = the design; {"dup_appends"} = seeded model mutant for the vacuity run

NS == {"aten", "_operator", "internal", "", "at-en"}
SEP == {"::", ":", ".", ""}
NM == {"relu", "add_1", "__lshift__", "", "re lu"}
OV == {"", ".Tensor", ".default", ".", ".a.b_c", ".defaults", ".x.default", "..", ".out!", ":x", ".default.x", ".Tensor "}
Universe == {a \o b \o c \o d : a \in NS, b \in SEP, c \in NM, d \in OV}

NamesQuick == {"aten::relu", "aten::add_1.Tensor", "aten::relu.default", "relu", "internal::relu"}
NamesThorough == NamesQuick \cup {"aten::add_1.Tensor ", "aten:relu", "aten::relu.x.default"}
NamesDeep == {"aten::relu", "aten::relu.default", "internal::relu"}
NameTuples == {<<n>> : n \in Names} \cup {<<"aten::relu", n>> : n \in Names \ {"aten::relu"}}
              \cup {<<n, "aten::relu">> : n \in Names \ {"aten::relu"}}

VARIABLES mode, probe, probeCode, probeOK,
          hist,      \* sequence of [names, private, complex, result]
          reg,       \* sequence of [name, real, cplx] (real / cplx: sequences of function numbers)
          pending,   \* names of the running decorator call still to register
          cur,       \* [private, complex] of the running call
          warned     \* number of duplicate-registration warnings so far
vars == <<mode, probe, probeCode, probeOK, hist, reg, pending, cur, warned>>

Idle == [private |-> FALSE, complex |-> FALSE]
Init == \/ /\ mode = "probe" /\ probe \in Universe
           /\ probeCode = CodeAccepts(probe) /\ probeOK = NameOK(probe)
           /\ hist = <<>> /\ reg = <<>> /\ pending = <<>> /\ cur = Idle /\ warned = 0
        \/ /\ mode = "hist" /\ probe = "" /\ probeCode = FALSE /\ probeOK = FALSE
           /\ hist = <<>> /\ reg = <<>> /\ pending = <<>> /\ cur = Idle /\ warned = 0

Fn == Len(hist)            \* number of the function being decorated (after Decorate appended the call)
Find(r, n) == {k \in 1..Len(r) : r[k].name = n}
\* torch_op.wrapper: the function is processed, then _check_and_normalize_names(name) is evaluated
\* completely before the first register(): one bad name refuses the whole tuple
Decorate == /\ mode = "hist" /\ pending = <<>> /\ Len(hist) < MaxCalls
            /\ \E t \in NameTuples, p \in BOOLEAN, c \in BOOLEAN :
                 LET ok == \A k \in 1..Len(t) : CodeAccepts(t[k]) IN
                 /\ hist' = Append(hist, [names |-> t, private |-> p, complex |-> c,
                                          result |-> IF ok THEN "ok" ELSE "ValueError"])
                 /\ pending' = IF ok THEN t ELSE <<>>
                 /\ cur' = [private |-> p, complex |-> c]
            /\ UNCHANGED <<mode, probe, probeCode, probeOK, reg, warned>>
SkipPrivate == /\ pending # <<>> /\ cur.private
               /\ pending' = Tail(pending)
               /\ UNCHANGED <<mode, probe, probeCode, probeOK, hist, reg, cur, warned>>
\* Registry.register: setdefault(name, OverloadedFunction(name)), then append unless occupied
Slot(e) == IF cur.complex THEN e.cplx ELSE e.real
WithFn(e) == IF cur.complex THEN [e EXCEPT !.cplx = Append(@, Fn)] ELSE [e EXCEPT !.real = Append(@, Fn)]
Entry(r, n) == r[CHOOSE k \in Find(r, n) : TRUE]
RegWithEntry == IF Find(reg, Head(pending)) = {} THEN Append(reg, [name |-> Head(pending), real |-> <<>>, cplx |-> <<>>])
                ELSE reg
RegisterFirst == /\ pending # <<>> /\ ~cur.private
                 /\ Slot(Entry(RegWithEntry, Head(pending))) = <<>>
                 /\ reg' = [k \in 1..Len(RegWithEntry) |->
                              IF RegWithEntry[k].name = Head(pending) THEN WithFn(RegWithEntry[k]) ELSE RegWithEntry[k]]
                 /\ pending' = Tail(pending)
                 /\ UNCHANGED <<mode, probe, probeCode, probeOK, hist, cur, warned>>
RegisterDuplicateWarn == /\ pending # <<>> /\ ~cur.private
                         /\ Slot(Entry(RegWithEntry, Head(pending))) # <<>>
                         /\ reg' = IF "dup_appends" \in Deviations
                                   THEN [k \in 1..Len(reg) |-> IF reg[k].name = Head(pending) THEN WithFn(reg[k]) ELSE reg[k]]
                                   ELSE reg
                         /\ warned' = warned + 1
                         /\ pending' = Tail(pending)
                         /\ UNCHANGED <<mode, probe, probeCode, probeOK, hist, cur>>
Next == Decorate \/ SkipPrivate \/ RegisterFirst \/ RegisterDuplicateWarn
Spec == Init /\ [][Next]_vars

-----------------------------------------------------------------------------
\* get_torchlib_ops(): registry order, "internal::" skipped, real overloads before complex ones
RECURSIVE OpsFrom(_, _)
OpsFrom(r, k) == IF k > Len(r) THEN <<>>
                 ELSE (IF StartsWith(r[k].name, "internal::") THEN <<>>
                       ELSE [j \in 1..Len(r[k].real) |-> [qname |-> r[k].name, fn |-> r[k].real[j], complex |-> FALSE]]
                            \o [j \in 1..Len(r[k].cplx) |-> [qname |-> r[k].name, fn |-> r[k].cplx[j], complex |-> TRUE]])
                      \o OpsFrom(r, k + 1)
Ops == OpsFrom(reg, 1)

\* THE PROPERTY (registration clauses), on what get_torchlib_ops() returns:
NamesWellFormed == \A k \in 1..Len(Ops) : NameOK(Ops[k].qname)
OneFunctionPerPair == \A a, b \in 1..Len(Ops) : a # b => <<Ops[a].qname, Ops[a].complex>> # <<Ops[b].qname, Ops[b].complex>>
\* the validator never lets through a name the property forbids
ValidatorSound == mode = "probe" => (probeCode => probeOK)
\* declarative design of the registry: the function of a (name, complex) pair is the one of the
\* FIRST accepted, non-private call that names it
FirstCall(n, c) == LET S == {k \in 1..Len(hist) : /\ hist[k].result = "ok" /\ ~hist[k].private /\ hist[k].complex = c
                                                   /\ \E j \in 1..Len(hist[k].names) : hist[k].names[j] = n}
                   IN IF S = {} THEN 0 ELSE CHOOSE k \in S : \A j \in S : k <= j
FirstWins == pending = <<>> =>
               \A k \in 1..Len(Ops) : Ops[k].fn = FirstCall(Ops[k].qname, Ops[k].complex)
\* vacuity witnesses (expected to be violated = reachable)
SomeDuplicate == warned = 0
SomeRejected == ~(\E k \in 1..Len(hist) : hist[k].result = "ValueError")
SomeProbeGap == ~(mode = "probe" /\ probeOK /\ ~probeCode)     \* ".x.default": fine by the property, refused by the code
=============================================================================
