SPECIFICATION Spec
CONSTANTS
  Deviations <- AllDevs
  Families <- AllFamilies
  Wide = FALSE
INVARIANT AtenWellFormed
INVARIANT DesignOK
INVARIANT DeviationsExplain
INVARIANT EmitCases
CHECK_DEADLOCK FALSE
