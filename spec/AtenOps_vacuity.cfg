SPECIFICATION Spec
CONSTANTS
  Deviations <- AllDevs
  Families <- F_view
  Wide = FALSE
INVARIANT NoCase
CHECK_DEADLOCK FALSE
