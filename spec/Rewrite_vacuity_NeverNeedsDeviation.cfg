SPECIFICATION Spec
CONSTANTS
  Deviations <- RealDevs
  RuleSets <- VacuitySets
  MaxDepth = 1
  Wide = FALSE
INVARIANT NeverNeedsDeviation
CHECK_DEADLOCK FALSE
