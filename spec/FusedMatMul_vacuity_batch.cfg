SPECIFICATION Spec
CONSTANTS
  Deviations <- AllDevs
  Ranks <- R3
  Big = FALSE
INVARIANT NeverBatchFlag
CHECK_DEADLOCK FALSE
