SPECIFICATION Spec
CONSTANTS
  Deviations <- AllDevs
  Big = FALSE
INVARIANT NeverBatchFlag
CHECK_DEADLOCK FALSE
