------------------------------- MODULE History -------------------------------
(* C14: results are deterministic and independent of what the process did before.                       *)
(*                                                                                                      *)
(* The PROCESS as a state machine.  The state `st` holds every piece of onnxscript state that outlives *)
(* a call:                                                                                             *)
(*   opsets    values.Opset.cache                      (process-wide singleton per (class,domain,ver)) *)
(*   types     onnx_types._tensor_type_shape_cache     (FLOAT[3] classes)                              *)
(*   pb        rewriter._pattern_ir._pattern_builder   (module global swapped by a context manager)    *)
(*   stash     fields rule objects set in check() and read in rewrite() (_new_shape, _pads_list, ...)  *)
(*   compiled  PatternBase._compiled_pattern           (compiled on first match)                       *)
(*   fold      FoldConstantsPass._state/_counts/...    (reset at the start of every call)              *)
(*   eval      evaluator._default_evaluator            (swapped by default_as, try/finally)            *)
(*   realized  nn.Parameter._realized                                                                  *)
(*   refops    the constant folder's reference evaluator (module singleton): which implementation of    *)
(*             an operator it uses - a function of (operator, opset version) of the model being folded *)
(*   odec/fnStd the second script module (a function whose only node is in another domain): was it      *)
(*             decorated, and the standard-domain import recorded IN the function (none: to_model_proto *)
(*             works on a clone and computes the model's imports on a copy)                             *)
(*   decorated/gver/captured   the script module of the running program: was it decorated, the version *)
(*             of its globals now, and the version the decorator captured                              *)
(* An OPERATION (translate a script ok / raising, to_model_proto repeated, mutate globals, optimize,   *)
(* rewrite with a rule raising in check / in rewrite, fold with one pass object, build a pattern ok /  *)
(* raising mid-construction, match with a lazily compiled pattern, convert_version, build a module     *)
(* tree, swap the evaluator and fail) is a sequence of critical steps (events), one named action each. *)
(* The catalogue Cat of concrete operations is either the static one below or the one RECORDED from    *)
(* the real code (each operation run alone in a fresh interpreter with the critical functions wrapped),*)
(* read with JsonDeserialize(IOEnv.C14_CAT).                                                           *)
(*                                                                                                      *)
(* The RESULT of an operation is the sequence `acc` of items, each a function of the operation and of  *)
(* the state it READS.  Next to the real process `st` every operation is also run on a shadow `sh`     *)
(* that starts from the initial state: the same operation in a fresh process (with its own, unrelated  *)
(* set-iteration order).  Property HistoryIndependent: acc(st) = acc(sh) for every operation of every  *)
(* history.  The design (Deviations = {}) satisfies it; with the named deviations the model predicts   *)
(* which operation of which history differs and why.                                                   *)
EXTENDS Integers, Sequences, FiniteSets, TLC, Json, IOUtils

CONSTANTS Deviations,   \* subset of AllDevs
          MaxLen,       \* histories of at most MaxLen operations
          Alphabet,     \* operation names explored
          UseRecorded,  \* TRUE: Cat is read from IOEnv.C14_CAT
          EmitLen       \* histories of this length are printed as CASE lines (0: none)

VARIABLES st, sh, hist, cur, pc, res
vars == <<st, sh, hist, cur, pc, res>>

AllDevs == {"builder_leak", "realized_sticky", "global_array_aliased", "set_order_leaks",
            "proto_writes_function", "refop_cache_unversioned"}     \* the last three: defects the code does NOT have (regressions)
Perms == {"p1", "p2"}            \* iteration orders of a set with >= 2 elements
Range(s) == {s[i] : i \in DOMAIN s}

-----------------------------------------------------------------------------
(* events: uniform records so that recorded (JSON) and static catalogues look the same *)
Ev(k, a)        == [k |-> k, a |-> a, b |-> "", ws |-> <<>>, rs |-> <<>>, cond |-> ""]
EvC(k, a, c)    == [k |-> k, a |-> a, b |-> "", ws |-> <<>>, rs |-> <<>>, cond |-> c]
Chk(r, out, ws) == [k |-> "check", a |-> r, b |-> out, ws |-> ws, rs |-> <<>>, cond |-> ""]
Rew(r, out, rs) == [k |-> "rewrite", a |-> r, b |-> out, ws |-> <<>>, rs |-> rs, cond |-> ""]
Cond(evs, c)    == [i \in DOMAIN evs |-> [evs[i] EXCEPT !.cond = c]]

RR  == <<"_new_shape", "_allowzero", "_new_shape_name">>
GlobEvents == <<Ev("modexec", "c14s_glob"), Ev("typecache", "FLOAT|3"), Ev("opset", "Opset|c14.custom|2"),
                Ev("translate", "sub"), Ev("translated", "sub"), Ev("opset", "Opset|this|1"),
                Ev("translate", "glob"), Ev("translated", "glob")>>
OuterEvents == <<Ev("modexec", "c14s_outer"), Ev("opset", "Opset|c14.inner|1"), Ev("translate", "inner"), Ev("translated", "inner"),
                 Ev("opset", "Opset|this|1"), Ev("translate", "outer"), Ev("translated", "outer"),
                 Ev("translate", "only_custom"), Ev("translated", "only_custom")>>
RefOp(op, v) == [k |-> "refop", a |-> op, b |-> v, ws |-> <<>>, rs |-> <<>>, cond |-> ""]
Params == <<"fc1.weight", "fc1.bias", "layers.0.weight", "layers.0.bias", "layers.1.weight", "layers.1.bias">>

(* the static catalogue: the operations of harness/c14.py with their critical steps (rule events *)
(* abbreviated to the matches that carry state); used for the design / vacuity runs              *)
StaticCat == [
  TrCtl     |-> <<Ev("modexec", "c14s_ctl"), Ev("opset", "Opset|this|1"), Ev("translate", "ctl"), Ev("translated", "ctl"),
                  Ev("listset", "If"), Ev("listset", "Loop"), Ev("listset", "If"), Ev("listset", "Loop")>>,
  TrGlob    |-> GlobEvents,
  TrBad1    |-> <<Ev("modexec", "c14s_bad1"), Ev("opset", "Opset|this|1"), Ev("translate", "bad1"),
                  Ev("translate_raise", "bad1"), Ev("raise", "ValueError")>>,
  TrBad2    |-> <<Ev("modexec", "c14s_bad2"), Ev("opset", "Opset|c14.custom|3"), Ev("translate", "bad2"),
                  Ev("translate_raise", "bad2"), Ev("raise", "TranslationError")>>,
  ProtoGlob |-> Cond(GlobEvents, "undecorated") \o <<Ev("toproto", "glob"), Ev("toproto", "glob"), Ev("toproto", "glob")>>,
  MutGlob   |-> Cond(GlobEvents, "undecorated") \o <<Ev("mutate", "glob")>>,
  ProtoOuter17 |-> Cond(OuterEvents, "noouter") \o <<Ev("toproto_pure", "outer"), Ev("toproto_ver", "17")>>,
  ProtoOuter19 |-> Cond(OuterEvents, "noouter") \o <<Ev("toproto_pure", "outer"), Ev("toproto_ver", "19")>>,
  OptOld    |-> <<RefOp("ReduceSum", "11"), RefOp("Unsqueeze", "11")>>,
  OptNew    |-> <<RefOp("ReduceSum", "13"), RefOp("Unsqueeze", "13")>>,
  OptA      |-> <<RefOp("Cast", "18"), Chk("ReshapeReshape", "ok", RR), Rew("ReshapeReshape", "ok", RR),
                  Chk("Flatten2Reshape", "ok", <<"_new_shape">>), Rew("Flatten2Reshape", "ok", <<"_new_shape">>),
                  Chk("MaterializeReshapeShape", "ok", <<"_new_dims">>), Rew("MaterializeReshapeShape", "ok", <<"_new_dims">>),
                  Chk("FuseConvPad", "ok", <<"_pads_list">>), Rew("FuseConvPad", "ok", <<"_pads_list">>)>>,
  OptB      |-> <<Chk("ReshapeReshape", "ok", RR), Rew("ReshapeReshape", "ok", RR),
                  Chk("Flatten2Reshape", "fail", <<"_new_shape">>),
                  Chk("FuseConvPad", "fail", <<"_pads_list">>),
                  Chk("FuseConvPad", "ok", <<"_pads_list">>), Rew("FuseConvPad", "ok", <<"_pads_list">>)>>,
  OptRaise  |-> <<Chk("ReshapeReshape", "ok", RR), Rew("ReshapeReshape", "ok", RR), Ev("raise", "PassError")>>,
  RwX       |-> <<Chk("RmsNormFusion1", "ok", <<"_stash_dtype">>), Rew("RmsNormFusion1", "ok", <<"_stash_dtype">>),
                  Chk("LayerNormFusion", "ok", <<"_stash_type", "_epsilon">>), Rew("LayerNormFusion", "ok", <<"_epsilon", "_stash_type">>),
                  Chk("ReshapeReshape", "ok", RR), Rew("ReshapeReshape", "ok", RR)>>,
  RwY       |-> <<Chk("LayerNormFusion", "ok", <<"_stash_type", "_epsilon">>), Rew("LayerNormFusion", "ok", <<"_epsilon", "_stash_type">>),
                  Chk("RmsNormFusion2", "ok", <<"_stash_dtype">>), Rew("RmsNormFusion2", "ok", <<"_stash_dtype">>),
                  Chk("ReshapeReshape", "fail", RR),
                  Chk("ReshapeReshape", "ok", RR), Rew("ReshapeReshape", "ok", RR)>>,
  \* the rule catalogue: every shipped rule class that keeps fields between check() and rewrite() gets accepted matches with
  \* different values (X, Y, W) and matches refused before / after the fields were assigned (Z); Rw*: rules.common + rules.fusion
  \* objects, Ro*: the onnxruntime fusion objects
  RwZ       |-> <<Chk("RmsNormFusion1", "fail", <<"_stash_dtype">>), Chk("RmsNormFusion2", "fail", <<"_stash_dtype">>),
                  Chk("LayerNormFusion", "fail", <<"_stash_type">>), Chk("ReshapeReshape", "fail", RR),
                  Chk("FuseConvPad", "fail", <<"_pads_list">>), Chk("FuseConvPad", "fail", <<"_pads_list">>)>>,
  RwW       |-> <<Chk("RmsNormFusion1", "ok", <<"_stash_dtype">>), Rew("RmsNormFusion1", "ok", <<"_stash_dtype">>),
                  Chk("RmsNormFusion2", "ok", <<"_stash_dtype">>), Rew("RmsNormFusion2", "ok", <<"_stash_dtype">>),
                  Chk("LayerNormFusion", "ok", <<"_stash_type", "_epsilon">>), Rew("LayerNormFusion", "ok", <<"_epsilon", "_stash_type">>),
                  Chk("ReshapeReshape", "ok", RR), Rew("ReshapeReshape", "ok", RR),
                  Chk("FuseConvPad", "ok", <<"_pads_list">>), Rew("FuseConvPad", "ok", <<"_pads_list">>)>>,
  RoX       |-> <<Chk("OrtRmsNormFusion2", "ok", <<"_stash_dtype">>), Rew("OrtRmsNormFusion2", "ok", <<"_stash_dtype">>)>>,
  RoY       |-> <<Chk("OrtRmsNormFusion1", "ok", <<"_stash_dtype">>), Rew("OrtRmsNormFusion1", "ok", <<"_stash_dtype">>)>>,
  RoZ       |-> <<Chk("OrtRmsNormFusion2", "fail", <<"_stash_dtype">>), Chk("OrtRmsNormFusion1", "fail", <<"_stash_dtype">>),
                  Chk("OrtFuseMHAScale", "ok", <<"_scale">>), Rew("OrtFuseMHAScale", "ok", <<"_scale">>),
                  Chk("OrtExtractDim", "ok", <<"_start_val", "_end_val">>), Rew("OrtExtractDim", "ok", <<"_start_val", "_end_val">>),
                  Chk("OrtExtractDim", "fail", <<"_start_val", "_end_val">>)>>,
  RoW       |-> <<Chk("OrtRmsNormFusion2", "ok", <<"_stash_dtype">>), Rew("OrtRmsNormFusion2", "ok", <<"_stash_dtype">>),
                  Chk("OrtRmsNormFusion1", "ok", <<"_stash_dtype">>), Rew("OrtRmsNormFusion1", "ok", <<"_stash_dtype">>),
                  Chk("OrtFuseMHAScale", "ok", <<"_scale">>), Rew("OrtFuseMHAScale", "ok", <<"_scale">>),
                  Chk("OrtExtractDim", "ok", <<"_start_val", "_end_val">>), Rew("OrtExtractDim", "ok", <<"_start_val", "_end_val">>)>>,
  \* rewrite with an as_function rule over a match whose nodes come from several domains: the opset imports of the extracted
  \* function are built from the SET of used domains - one more list(set) site
  RwAsFunc  |-> <<Ev("listset", "as_function")>>,
  RwCheckRaise   |-> <<Chk("ReshapeReshape", "ok", RR), Rew("ReshapeReshape", "ok", RR),
                       Chk("PoisonCheck", "raise", <<"_seen">>), Ev("raise", "PassError")>>,
  RwRewriteRaise |-> <<Chk("ReshapeReshape", "ok", RR), Rew("ReshapeReshape", "ok", RR),
                       Chk("PoisonRewrite", "ok", <<"_seen">>), Rew("PoisonRewrite", "raise", <<"_seen">>), Ev("raise", "PassError")>>,
  FoldA     |-> <<Ev("fold_reset", ""), Ev("fold_done", "")>>,
  FoldNoop  |-> <<Ev("fold_reset", ""), Ev("fold_done", "")>>,
  FoldRaise |-> <<Ev("fold_reset", ""), Ev("fold_raise", ""), Ev("raise", "RuntimeError")>>,
  PatOk     |-> <<Ev("pb_enter", ""), Ev("pb_use", ""), Ev("pb_exit", "")>>,
  PatFree   |-> <<Ev("pb_use", "")>>,
  PatRaiseDefault |-> <<Ev("pb_enter", ""), Ev("raise", "RuntimeError")>>,
  PatRaiseCustom  |-> <<Ev("pb_enter", "c14.custom"), Ev("pb_use", ""), Ev("raise", "RuntimeError")>>,
  PmMatch   |-> <<EvC("pb_enter", "", "uncompiled"), [k |-> "pb_use", a |-> "", b |-> "compile", ws |-> <<>>, rs |-> <<>>, cond |-> "uncompiled"], EvC("pb_exit", "", "uncompiled"),
                  EvC("compiled", "", "uncompiled"), Ev("pm_match", "")>>,
  ConvA     |-> <<Ev("convert", "21")>>,
  ConvRaise |-> <<Ev("raise", "ValueError")>>,
  ModBuild  |-> [i \in DOMAIN Params |-> Ev("realize", Params[i])],
  EvRaise   |-> <<Ev("ev_enter", ""), Ev("raise", "RuntimeError")>>
]

Cat == IF UseRecorded THEN JsonDeserialize(IOEnv.C14_CAT) ELSE StaticCat

-----------------------------------------------------------------------------
Cells == {"opsets", "types", "pb", "fold", "compiled", "eval", "realized", "glob", "refops", "outer"}

InitS == [opsets |-> {}, types |-> {},
          pb |-> [dom |-> "", default |-> TRUE], pbStack |-> <<>>,
          stash |-> {},                       \* records [r, a, pos, n]: field a of rule r written by check #n of operation #pos
          compiled |-> FALSE, pmDom |-> "-",   \* PatternBase._compiled_pattern: built on first use, with the builder current THEN
          fold |-> [k |-> "clean", pos |-> 0],
          eval |-> "ort", evalStack |-> <<>>,
          realized |-> {},
          decorated |-> FALSE, gver |-> 0, captured |-> 0,
          refops |-> {},                      \* <<operator, opset version>> whose reference implementation was looked up
          odec |-> FALSE, fnStd |-> "-",
          writer |-> [c \in Cells |-> 0],     \* which operation (position) wrote the cell last; 0 = import time
          \* per call:
          acc |-> <<>>, skips |-> <<>>, outs |-> <<>>, nchk |-> 0, touch |-> {},
          begin |-> [decorated |-> FALSE, compiled |-> FALSE, odec |-> FALSE]]

Item(k, v, dev) == [k |-> k, v |-> v, dev |-> dev]
Add(s, it) == [s EXCEPT !.acc = Append(@, it)]
Touch(s, c, pos) == IF s.writer[c] \notin {0, pos} THEN [s EXCEPT !.touch = @ \cup {<<c, s.writer[c]>>}] ELSE s
Write(s, c, pos) == [Touch(s, c, pos) EXCEPT !.writer[c] = pos]

Skipped(s, e) == \/ e.cond = "undecorated" /\ s.begin.decorated
                 \/ e.cond = "uncompiled" /\ s.begin.compiled
                 \/ e.cond = "noouter" /\ s.begin.odec

(* ---- the critical steps, as functions of (process state, event, position in the history) ---- *)
ApOpset(s, e, pos) ==          \* Opset.__new__: look up, insert on a miss; the object is a function of the key only
   IF e.a \in s.opsets THEN Touch(s, "opsets", pos) ELSE [Write(s, "opsets", pos) EXCEPT !.opsets = @ \cup {e.a}]
ApTypeCache(s, e, pos) ==      \* TensorType.__class_getitem__
   IF e.a \in s.types THEN Touch(s, "types", pos) ELSE [Write(s, "types", pos) EXCEPT !.types = @ \cup {e.a}]
ApModExec(s, e, pos) ==        \* the program (re-)executes a script module: fresh globals
   IF e.a = "c14s_glob" THEN [Write(s, "glob", pos) EXCEPT !.decorated = FALSE, !.gver = 0]
   ELSE IF e.a = "c14s_outer" THEN [Write(s, "outer", pos) EXCEPT !.odec = FALSE, !.fnStd = "-"] ELSE s
ApTranslate(s, e, pos) ==      \* Converter.__init__ copies the globals; constants are evaluated now
   IF e.a = "glob" THEN [Touch(s, "glob", pos) EXCEPT !.captured = s.gver] ELSE s
ApTranslated(s, e, pos) == IF e.a = "glob" THEN [s EXCEPT !.decorated = TRUE]
                           ELSE IF e.a = "only_custom" THEN [s EXCEPT !.odec = TRUE] ELSE s
ApTranslateRaise(s, e, pos) == s   \* the Converter is per call: nothing persists
ApListSet(s, e, pos, perm) ==  \* If outputs / Loop state: sorted(set); the fixed defect iterated the set
   LET leak == "set_order_leaks" \in Deviations
   IN Add(s, Item("order", IF leak THEN perm ELSE "sorted", IF leak THEN "set_order_leaks" ELSE ""))
ApToProto(s, e, pos) ==        \* to_model_proto clones the graph; constants are the captured ones -
   LET view == IF "global_array_aliased" \in Deviations THEN s.gver ELSE s.captured   \* - unless the IR aliases a mutable global
   IN Add(Touch(s, "glob", pos), Item("proto", ToString(view), IF view # s.captured THEN "global_array_aliased" ELSE ""))
ApToProtoPure(s, e, pos) ==    \* to_function_proto before and after to_model_proto(): the function's own imports are what they were
   Add(Touch(s, "outer", pos), Item("fnproto", s.fnStd, IF s.fnStd # "-" THEN "proto_writes_function" ELSE ""))
ApToProtoVer(s, e, pos) ==     \* to_model_proto(opset_version=v) of a function without standard-domain node: the model imports v -
   LET used == IF s.fnStd = "-" THEN e.a ELSE s.fnStd                   \* - unless an earlier call wrote its version into the function
       s1 == Add(Touch(s, "outer", pos), Item("protov", used, IF used # e.a THEN "proto_writes_function" ELSE ""))
   IN IF "proto_writes_function" \in Deviations /\ s.fnStd = "-" THEN [Write(s1, "outer", pos) EXCEPT !.fnStd = e.a] ELSE s1
ApRefOp(s, e, pos) ==          \* ReferenceEvaluator.get_evaluator(domain, op, version): load_op per call, no memo
   LET unv == "refop_cache_unversioned" \in Deviations
       prior == {x \in s.refops : x[1] = e.a}
       used == IF unv /\ prior # {} THEN (CHOOSE x \in prior : TRUE)[2] ELSE e.b
       s1 == Add(s, Item("refimpl", e.a \o "@" \o used, IF used # e.b THEN "refop_cache_unversioned" ELSE ""))
   IN IF <<e.a, e.b>> \in s.refops \/ (unv /\ prior # {}) THEN Touch(s1, "refops", pos)
      ELSE [Write(s1, "refops", pos) EXCEPT !.refops = @ \cup {<<e.a, e.b>>}]
ApMutate(s, e, pos) == [Write(s, "glob", pos) EXCEPT !.gver = 1]
ApFoldReset(s, e, pos) == [Write(s, "fold", pos) EXCEPT !.fold = [k |-> "reset", pos |-> pos]]
ApFoldEnd(s, e, pos) ==        \* the visit reads _state/_counts: empty iff _reset ran in this call (or nothing ran before)
   LET v == IF s.fold.k = "dirty" THEN "dirty" ELSE "empty"
   IN [Add(Write(s, "fold", pos), Item("fold", v, "")) EXCEPT !.fold = [k |-> "dirty", pos |-> pos]]
ApCheck(s, e, pos) ==          \* check() writes fields on the rule object (also on the paths that then fail or raise)
   LET n == s.nchk + 1
       W == Range(e.ws)
       old == {x \in s.stash : x.r = e.a /\ x.a \in W}
       t == {<<"stash:" \o e.a, x.pos>> : x \in {y \in old : y.pos # pos}}
   IN [s EXCEPT !.nchk = n, !.touch = @ \cup t,
                !.stash = (@ \ old) \cup {[r |-> e.a, a |-> w, pos |-> pos, n |-> n] : w \in W}]
ApRewrite(s, e, pos) ==        \* rewrite() reads them: its own match's values iff the check of THIS match wrote them
   LET R == Range(e.rs)
       mine == {x \in s.stash : x.r = e.a /\ x.a \in R}
       own == \A a \in R : \E x \in mine : x.a = a /\ x.pos = pos /\ x.n = s.nchk
       stale == {x \in mine : x.pos # pos}
       v == IF own THEN "own" ELSE IF stale # {} THEN "stale" ELSE IF \A a \in R : \E x \in mine : x.a = a THEN "earlier-match" ELSE "unset"
   IN [Add(s, Item("rw", e.a \o ":" \o v, "")) EXCEPT !.touch = @ \cup {<<"stash:" \o e.a, x.pos>> : x \in stale}]
ApPbEnter(s, e, pos) == [Write(s, "pb", pos) EXCEPT !.pbStack = Append(@, s.pb), !.pb = [dom |-> e.a, default |-> FALSE]]
ApPbExit(s, e, pos) == [Write(s, "pb", pos) EXCEPT !.pb = s.pbStack[Len(s.pbStack)], !.pbStack = SubSeq(@, 1, Len(@) - 1)]
ApPbUse(s, e, pos) ==          \* x + y on value patterns: builds the node with the CURRENT global builder
   LET leaked == s.pbStack = <<>> /\ ~s.pb.default
   IN IF e.b = "compile" THEN [Touch(s, "pb", pos) EXCEPT !.pmDom = s.pb.dom]      \* the node goes into the lazily compiled pattern
      ELSE Add(Touch(s, "pb", pos), Item("pb", s.pb.dom, IF leaked THEN "builder_leak" ELSE ""))
ApCompiled(s, e, pos) == [Write(s, "compiled", pos) EXCEPT !.compiled = TRUE]
ApPmMatch(s, e, pos) == Add(Touch(s, "compiled", pos), Item("pm", s.pmDom, ""))
ApConvert(s, e, pos) == s      \* the adapters registry is filled at import; a pass object keeps no per-model state
ApRealize(s, e, pos) ==        \* Parameter._realize registers the initializer in the builder's graph - once per PROCESS
   LET sticky == e.a \in s.realized /\ "realized_sticky" \in Deviations
   IN [Add(Write(s, "realized", pos), Item("param", e.a \o (IF sticky THEN ":skipped" ELSE ":registered"), IF sticky THEN "realized_sticky" ELSE ""))
         EXCEPT !.realized = @ \cup {e.a}, !.outs = Append(@, IF sticky THEN "skipped" ELSE "registered")]
ApEvEnter(s, e, pos) == [Write(s, "eval", pos) EXCEPT !.evalStack = Append(@, s.eval), !.eval = "other"]
ApEvExit(s, e, pos) == [Write(s, "eval", pos) EXCEPT !.eval = s.evalStack[Len(s.evalStack)], !.evalStack = SubSeq(@, 1, Len(@) - 1)]
ApRaise(s, e, pos) ==          \* the operation ends with an exception: context managers unwind
   LET s1 == IF s.evalStack # <<>> THEN [s EXCEPT !.eval = s.evalStack[1], !.evalStack = <<>>] ELSE s        \* default_as: try/finally
       s2 == IF s1.pbStack # <<>>
             THEN IF "builder_leak" \in Deviations THEN [s1 EXCEPT !.pbStack = <<>>]                            \* pattern_builder: no try/finally
                  ELSE [s1 EXCEPT !.pb = s1.pbStack[1], !.pbStack = <<>>]
             ELSE s1
   IN Add(s2, Item("raise", e.a, ""))

-----------------------------------------------------------------------------
Idle == cur = "idle"
Running == cur # "idle" /\ pc <= Len(Cat[cur])
E == Cat[cur][pc]
Pos == Len(hist)

Step(s, F(_)) == IF Skipped(s, E) THEN [s EXCEPT !.skips = Append(@, pc)] ELSE F(s)
Both(F(_)) == /\ st' = Step(st, F) /\ sh' = Step(sh, F) /\ pc' = pc + 1 /\ UNCHANGED <<hist, cur, res>>

Init == st = InitS /\ sh = InitS /\ hist = <<>> /\ cur = "idle" /\ pc = 0 /\ res = <<>>

PerCall(s) == [s EXCEPT !.acc = <<>>, !.skips = <<>>, !.outs = <<>>, !.nchk = 0, !.touch = {}, !.pbStack = <<>>, !.evalStack = <<>>,
                        !.begin = [decorated |-> s.decorated, compiled |-> s.compiled, odec |-> s.odec]]
Begin(op) == /\ Idle /\ Len(hist) < MaxLen
             /\ hist' = Append(hist, op) /\ cur' = op /\ pc' = 1
             /\ st' = PerCall(st) /\ sh' = PerCall(InitS)      \* the shadow: the same operation in a fresh process
             /\ UNCHANGED res

EvOpset          == Running /\ E.k = "opset"           /\ Both(LAMBDA s : ApOpset(s, E, Pos))
EvTypeCache      == Running /\ E.k = "typecache"       /\ Both(LAMBDA s : ApTypeCache(s, E, Pos))
EvModExec        == Running /\ E.k = "modexec"         /\ Both(LAMBDA s : ApModExec(s, E, Pos))
EvTranslate      == Running /\ E.k = "translate"       /\ Both(LAMBDA s : ApTranslate(s, E, Pos))
EvTranslated     == Running /\ E.k = "translated"      /\ Both(LAMBDA s : ApTranslated(s, E, Pos))
EvTranslateRaise == Running /\ E.k = "translate_raise" /\ Both(LAMBDA s : ApTranslateRaise(s, E, Pos))
EvListSet        == Running /\ E.k = "listset"
                    /\ \E p1, p2 \in Perms :          \* the two processes iterate their sets in unrelated orders
                          /\ st' = Step(st, LAMBDA s : ApListSet(s, E, Pos, p1))
                          /\ sh' = Step(sh, LAMBDA s : ApListSet(s, E, Pos, p2))
                    /\ pc' = pc + 1 /\ UNCHANGED <<hist, cur, res>>
EvToProto        == Running /\ E.k = "toproto"         /\ Both(LAMBDA s : ApToProto(s, E, Pos))
EvToProtoPure    == Running /\ E.k = "toproto_pure"    /\ Both(LAMBDA s : ApToProtoPure(s, E, Pos))
EvToProtoVer     == Running /\ E.k = "toproto_ver"     /\ Both(LAMBDA s : ApToProtoVer(s, E, Pos))
EvRefOp          == Running /\ E.k = "refop"           /\ Both(LAMBDA s : ApRefOp(s, E, Pos))
EvMutate         == Running /\ E.k = "mutate"          /\ Both(LAMBDA s : ApMutate(s, E, Pos))
EvFoldReset      == Running /\ E.k = "fold_reset"      /\ Both(LAMBDA s : ApFoldReset(s, E, Pos))
EvFoldEnd        == Running /\ E.k \in {"fold_done", "fold_raise"} /\ Both(LAMBDA s : ApFoldEnd(s, E, Pos))
EvCheck          == Running /\ E.k = "check"           /\ Both(LAMBDA s : ApCheck(s, E, Pos))
EvRewrite        == Running /\ E.k = "rewrite"         /\ Both(LAMBDA s : ApRewrite(s, E, Pos))
EvPbEnter        == Running /\ E.k = "pb_enter"        /\ Both(LAMBDA s : ApPbEnter(s, E, Pos))
EvPbExit         == Running /\ E.k = "pb_exit"         /\ Both(LAMBDA s : ApPbExit(s, E, Pos))
EvPbUse          == Running /\ E.k = "pb_use"          /\ Both(LAMBDA s : ApPbUse(s, E, Pos))
EvCompiled       == Running /\ E.k = "compiled"        /\ Both(LAMBDA s : ApCompiled(s, E, Pos))
EvPmMatch        == Running /\ E.k = "pm_match"        /\ Both(LAMBDA s : ApPmMatch(s, E, Pos))
EvConvert        == Running /\ E.k = "convert"         /\ Both(LAMBDA s : ApConvert(s, E, Pos))
EvRealize        == Running /\ E.k = "realize"         /\ Both(LAMBDA s : ApRealize(s, E, Pos))
EvEvEnter        == Running /\ E.k = "ev_enter"        /\ Both(LAMBDA s : ApEvEnter(s, E, Pos))
EvEvExit         == Running /\ E.k = "ev_exit"         /\ Both(LAMBDA s : ApEvExit(s, E, Pos))
EvRaise          == Running /\ E.k = "raise"           /\ Both(LAMBDA s : ApRaise(s, E, Pos))

Snap(s) == [opsets |-> s.opsets, types |-> s.types, pbDefault |-> s.pb.default, pbDom |-> s.pb.dom,
            stash |-> {<<x.r, x.a>> : x \in s.stash}, compiled |-> s.compiled, fold |-> s.fold.k, eval |-> s.eval,
            realized |-> s.realized, decorated |-> s.decorated, gver |-> s.gver, odec |-> s.odec]
Proj(acc) == [i \in DOMAIN acc |-> <<acc[i].k, acc[i].v>>]      \* the observable result (the dev tag is bookkeeping)
Same == Proj(st.acc) = Proj(sh.acc)
Why == LET d == {it.dev : it \in {x \in Range(st.acc) : <<x.k, x.v>> \notin Range(Proj(sh.acc))}} \ {""}
       IN IF Same THEN {} ELSE IF d = {} THEN {"UNEXPLAINED"} ELSE d
End == /\ cur # "idle" /\ pc > Len(Cat[cur])
       /\ res' = Append(res, [op |-> cur, same |-> Same, why |-> Why, skips |-> st.skips, outs |-> st.outs,
                              touch |-> st.touch, snap |-> Snap(st)])
       /\ cur' = "idle" /\ pc' = 0 /\ UNCHANGED <<st, sh, hist>>

Next == \/ \E op \in Alphabet : Begin(op)
        \/ EvOpset \/ EvTypeCache \/ EvModExec \/ EvTranslate \/ EvTranslated \/ EvTranslateRaise \/ EvListSet
        \/ EvToProto \/ EvToProtoPure \/ EvToProtoVer \/ EvRefOp \/ EvMutate \/ EvFoldReset \/ EvFoldEnd \/ EvCheck \/ EvRewrite
        \/ EvPbEnter \/ EvPbExit \/ EvPbUse \/ EvCompiled \/ EvPmMatch \/ EvConvert \/ EvRealize
        \/ EvEvEnter \/ EvEvExit \/ EvRaise \/ End
Spec == Init /\ [][Next]_vars

-----------------------------------------------------------------------------
(* THE PROPERTY: every operation gives what it gives in a fresh process *)
HistoryIndependent == \A i \in DOMAIN res : res[i].same
(* the implementation model: every departure is one of the named deviations *)
Explained == \A i \in DOMAIN res : res[i].why \subseteq Deviations
(* no context manager leaves its global swapped (fails with builder_leak) *)
GlobalsRestored == Idle => (st.pb.default /\ st.eval = "ort")
(* every event kind of the catalogue has an action *)
Kinds == {"opset", "typecache", "modexec", "translate", "translated", "translate_raise", "listset", "toproto", "toproto_pure", "toproto_ver", "refop", "mutate",
          "fold_reset", "fold_done", "fold_raise", "check", "rewrite", "pb_enter", "pb_exit", "pb_use", "compiled",
          "pm_match", "convert", "realize", "ev_enter", "ev_exit", "raise"}
CatalogueOK == \A op \in Alphabet : \A i \in DOMAIN Cat[op] : Cat[op][i].k \in Kinds
ASSUME CatalogueOK
ASSUME Deviations \subseteq AllDevs

(* vacuity witnesses (as invariants that must FAIL) *)
NeverFlows == \A i \in DOMAIN res : res[i].touch = {}          \* some operation touches state left by an earlier one
NeverRaises == \A i \in DOMAIN res : \A j \in DOMAIN Cat[res[i].op] : Cat[res[i].op][j].k # "raise"
NeverSkips == \A i \in DOMAIN res : res[i].skips = <<>>

(* one JSON line per finished history of length EmitLen *)
Emit == (Idle /\ EmitLen > 0 /\ Len(hist) = EmitLen) => PrintT(<<"CASE", ToJson([hist |-> hist, res |-> res])>>)

NoDevs == {}
\* "builder_leak" was real on the pinned tree and is fixed in /repo (fix: pattern_builder left the global builder swapped ...)
RealDevs == {"realized_sticky", "global_array_aliased"}
PinnedDevs == {"builder_leak", "realized_sticky", "global_array_aliased"}
SeedDevs == {"set_order_leaks"}
RegressionDevs == {"proto_writes_function", "refop_cache_unversioned"}
AllOps == DOMAIN StaticCat
QuickOps == {"TrGlob", "ProtoGlob", "MutGlob", "OptA", "RwY", "RwCheckRaise", "FoldA", "FoldNoop", "FoldRaise",
             "PatFree", "PatRaiseCustom", "ModBuild", "OptOld", "OptNew", "ProtoOuter17", "ProtoOuter19"}
(* the rule catalogue: all orders of the models of one family of rule objects *)
RuleOps == {"RwX", "RwY", "RwZ", "RwW", "RoX", "RoY", "RoZ", "RoW", "RwCheckRaise", "RwRewriteRaise", "OptA", "OptB", "OptRaise"}
=============================================================================
