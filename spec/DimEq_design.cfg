SPECIFICATION Spec
CONSTANTS MaxRank = 2
  Vals = {0, 1, 2}
  Naive = FALSE
INVARIANT DimSound
INVARIANT ShapeSound
INVARIANT FolderShapeSound
INVARIANT Case
CHECK_DEADLOCK FALSE
