SPECIFICATION Spec
CONSTANTS
  Deviations <- RealDevs
  MaxPNodes = 3
  Features <- BasicFeatures
  OpSet <- TwoOps
  VarVals <- Vals2
INVARIANT DesignOK
INVARIANT DeviationsExplain
INVARIANT Emit
CHECK_DEADLOCK FALSE
