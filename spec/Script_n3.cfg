SPECIFICATION Spec
CONSTANTS
  Deviations <- RealDevs
  MaxNodes = 3
  MinNodes = 0
  MaxDepth = 2
  MaxBlock = 2
  Kinds <- AllKinds
  Tiny = FALSE
  Ops = FALSE
  Rich = FALSE
INVARIANT DesignFaithful
INVARIANT DeviationsExplain
INVARIANT Emit
CHECK_DEADLOCK FALSE
