--------------------------- MODULE AutocastTable ---------------------------
EXTENDS Autocast
ASSUME PrintT(<<"CASTTABLE", ToJson(CastTable)>>)
TInit == sid = 1 /\ args = <<>> /\ stage = "x" /\ rule = <<>> /\ static = <<>> /\ dynamic = <<>> /\ builder = <<>>
TSpec == TInit /\ [][UNCHANGED vars]_vars
=============================================================================
