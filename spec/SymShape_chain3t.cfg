SPECIFICATION Spec
CONSTANTS
  Deviations <- AllDevs
  InputMenu <- MenuChainT
  MaxNodes = 3
  Vals <- ValsStd
  Rich = 1
  Chain = TRUE
INVARIANT DesignSound
INVARIANT ShapesSound
INVARIANT Emit
CHECK_DEADLOCK FALSE
