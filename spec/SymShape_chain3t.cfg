SPECIFICATION Spec
CONSTANTS
  Deviations <- AllDevs
  InputMenu <- MenuThorough
  MaxNodes = 3
  Vals <- ValsStd
  Rich = 1
  Chain = TRUE
INVARIANT DesignSound
INVARIANT ShapesSound
INVARIANT Emit
CHECK_DEADLOCK FALSE
