SPECIFICATION Spec
CONSTANTS MaxRank = 1
  Vals = {0, 1, 2}
  Naive = TRUE
INVARIANT DimSound
CHECK_DEADLOCK FALSE
