SPECIFICATION Spec
CONSTANTS
  Deviations <- RealDevs
  MaxPNodes = 2
  Features <- MultiOnly
  OpSet <- ThreeOps
  VarVals <- Vals2
INVARIANT DesignOK
INVARIANT DeviationsExplain
INVARIANT Emit
CHECK_DEADLOCK FALSE
