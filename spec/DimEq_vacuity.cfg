SPECIFICATION Spec
CONSTANTS MaxRank = 1
  Vals = {0, 1}
  Naive = FALSE
INVARIANT NeverSame
CHECK_DEADLOCK FALSE
