SPECIFICATION Spec
CONSTANTS
  Deviations <- RealDevs
  Apis <- AllApis
  MaxSparse = 3
  MaxDense = 3
INVARIANT DesignOK
INVARIANT ReturnContract
INVARIANT DeviationsExplain
INVARIANT EmitCases
CHECK_DEADLOCK FALSE
