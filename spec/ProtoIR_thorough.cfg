SPECIFICATION Spec
CONSTANTS
  Deviations <- RealDevs
  Apis <- AllApis
  MaxSparse = 3
  MaxDense = 2
INVARIANT DesignOK
INVARIANT ReturnContract
INVARIANT DeviationsExplain
INVARIANT EmitCases
CHECK_DEADLOCK FALSE
