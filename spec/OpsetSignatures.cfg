SPECIFICATION TSpec
CONSTANTS
  Deviations <- NoDevs
  MaxExtra = 0
  AttrModes <- ModesQuick
  VarNone = FALSE
  ReqVersions <- ReqQuick
CHECK_DEADLOCK FALSE
