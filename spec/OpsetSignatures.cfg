SPECIFICATION TSpec
CONSTANTS
  Deviations <- NoDevs
  MaxExtra = 0
  AttrModes <- ModesQuick
  VarNone = FALSE
CHECK_DEADLOCK FALSE
