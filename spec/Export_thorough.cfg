SPECIFICATION Spec
CONSTANTS
  Deviations <- AllDevs
  MaxItems = 2
  MaxCF = 2
  Thorough = TRUE
INVARIANT DesignOK
INVARIANT DeviationsExplain
INVARIANT StepwiseAgrees
INVARIANT EmitCases
CHECK_DEADLOCK FALSE
