\* the property can fail: with the implementation's deviations HistoryIndependent must be violated
SPECIFICATION Spec
CONSTANTS
  Deviations <- PinnedDevs
  MaxLen = 2
  Alphabet <- AllOps
  UseRecorded = FALSE
  EmitLen = 0
INVARIANT HistoryIndependent
CHECK_DEADLOCK FALSE
