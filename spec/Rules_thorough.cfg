SPECIFICATION Spec
CONSTANTS
  Deviations <- AllDevs
  Families <- AllFamilies
  Menu = "thorough"
INVARIANT Sound
INVARIANT NoFireOnUnknown
INVARIANT DeviationsExplain
INVARIANT DesignRefines
INVARIANT EmitCases
CHECK_DEADLOCK FALSE
