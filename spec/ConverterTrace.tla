--------------------------- MODULE ConverterTrace ---------------------------
(* Trace validation (direction B) of the real script converter against Converter.tla.            *)
(* TRACE_FILE: JSON array of [id, ast, events, finished, endOutputs]; events are the records the *)
(* hooks in onnxscript/_internal/converter.py emit (ONNXSCRIPT_VERIF=1).  All traces of the      *)
(* batch are validated in one TLC run: tid is chosen in Init, each trace is a linear behaviour.  *)
(* A trace is consumed completely; the first event whose clauses do not hold is recorded in err  *)
(* and the behaviour stops there.  Verdict printed once per trace from the final state.          *)
EXTENDS Converter, Json, IOUtils

Traces == JsonDeserialize(IOEnv.TRACE_FILE)
VARIABLES tid, l
tvars == <<cvars, tid, l>>

Tr == Traces[tid].events
E == Tr[l]

TInit == /\ tid \in 1..Len(Traces) /\ l = 1 /\ CInit(Traces[tid].ast)

\* clauses and update of the event at position l
Clauses ==
  CASE E.ev = "Param" -> ParamClauses(E.name, E.signature)
    [] E.ev = "Gen" -> GenClauses(E.cand, E.result)
    [] E.ev = "Emit" -> EmitClauses(E.op, E.ins, E.outs)
    [] E.ev = "Bind" -> BindClauses(E.var, E.value)
    [] E.ev = "Enter" -> EnterClauses(E.depth)
    [] E.ev = "Exit" -> ExitClauses(E.depth, E.params, E.outputs)
    [] E.ev = "If" -> IfClauses(E.lineno, E.live_defs, E.outs, E.then_outs, E.else_outs)
    [] E.ev = "BodyEnd" -> BodyEndClauses(E.state, E.outputs)
    [] E.ev = "Loop" -> LoopClauses(E.lineno, E.loop = "for", E.loop_var, E.state, E.ins, E.outs, E.body_params, E.body_outs)
    [] OTHER -> <<<<"unknown_event", FALSE>>>>
Update ==
  CASE E.ev = "Param" -> DoParam(E.name, E.signature)
    [] E.ev = "Gen" -> DoGen(E.cand, E.result)
    [] E.ev = "Emit" -> DoEmit(E.op, E.ins, E.outs)
    [] E.ev = "Bind" -> DoBind(E.var, E.value)
    [] E.ev = "Enter" -> DoEnter(E.scope)
    [] E.ev = "Exit" -> DoExit(E.params, E.outputs)
    [] E.ev = "If" -> DoIf(E.live_defs, E.outs)
    [] E.ev = "BodyEnd" -> UNCHANGED <<scopes, used, nextvar, alldefs, copyOf, pend, exited, sels, si>>
    [] E.ev = "Loop" -> DoLoop(E.state, E.outs)

Step == /\ err = <<>> /\ l <= Len(Tr)
        /\ LET bad == FirstBad(Clauses) IN
             IF bad = "" THEN Update /\ err' = <<>> /\ l' = l + 1
             ELSE err' = <<l, bad>> /\ l' = l /\ UNCHANGED <<scopes, used, nextvar, alldefs, copyOf, pend, exited, sels, si>>
        /\ UNCHANGED tid
\* the function returned normally: the End record
Finish == /\ err = <<>> /\ l = Len(Tr) + 1 /\ Traces[tid].finished
          /\ LET bad == FirstBad(EndClauses(Traces[tid].endOutputs)) IN
               err' = IF bad = "" THEN <<0, "accepted">> ELSE <<l, bad>>
          /\ l' = l + 1
          /\ UNCHANGED <<scopes, used, nextvar, alldefs, copyOf, pend, exited, sels, si, tid>>
\* the decorator raised (program refused): the prefix was consistent
Aborted == /\ err = <<>> /\ l = Len(Tr) + 1 /\ ~Traces[tid].finished
           /\ err' = <<0, "refused_prefix_consistent">> /\ l' = l + 1
           /\ UNCHANGED <<scopes, used, nextvar, alldefs, copyOf, pend, exited, sels, si, tid>>
TNext == Step \/ Finish \/ Aborted
TSpec == TInit /\ [][TNext]_tvars

\* one verdict line per trace (err is set exactly once, in the last step of the behaviour)
Verdict == err # <<>> => PrintT(<<"VERDICT", Traces[tid].id, err[1], err[2], Cardinality(alldefs), Len(sels)>>)
=============================================================================
