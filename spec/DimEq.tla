------------------------------- MODULE DimEq -------------------------------
(* C09 - when may a shape-based simplification treat two dimensions / shapes as equal?            *)
(*                                                                                              *)
(* A declared dimension is a literal, a named symbol (two occurrences of one name denote the same *)
(* run-time value) or an UNNAMED unknown (every occurrence is its own unknown: SymbolicDim(None)). *)
(* The code has three equality tests that rule conditions and partial evaluators rely on:         *)
(*   rewriter/_ir_utils.same_dim, rewriter/_ir_utils.same_shape, optimizer/_constant_folding._same_shape. *)
(* They are transcribed below (the code cannot see which occurrence an unnamed dim is) and checked *)
(* against the meaning: "equal" must imply equal values under EVERY run-time binding, where each  *)
(* unnamed occurrence is bound independently.  Every case is replayed into the real functions.    *)
EXTENDS Integers, Sequences, FiniteSets, TLC, Json

CONSTANTS MaxRank, Vals, Naive     \* Naive = TRUE: the tests are plain `==` on the declared dims (the unsound reading; witness only)
Names == {"N", "M"}
\* a dim term: <<"lit", n>> | <<"sym", name>> | <<"unk", occurrence id>>
Lits == {<<"lit", n>> : n \in {1, 2}}
Syms == {<<"sym", s>> : s \in Names}
Unks(ids) == {<<"unk", k>> : k \in ids}
Dims(ids) == Lits \cup Syms \cup Unks(ids)

\* ---- meaning --------------------------------------------------------------------------------
Bindings == [Names \cup {"u1", "u2", "u3", "u4"} -> Vals]
UName(k) == CASE k = 1 -> "u1" [] k = 2 -> "u2" [] k = 3 -> "u3" [] OTHER -> "u4"
Conc(d, b) == CASE d[1] = "lit" -> d[2] [] d[1] = "sym" -> b[d[2]] [] OTHER -> b[UName(d[2])]
ConcS(s, b) == [i \in 1..Len(s) |-> Conc(s[i], b)]
AlwaysEqualDim(d1, d2) == \A b \in Bindings : Conc(d1, b) = Conc(d2, b)
AlwaysEqualShape(s1, s2) == \A b \in Bindings : ConcS(s1, b) = ConcS(s2, b)

\* ---- what the code sees: an unnamed dim has no identity -----------------------------------------
Seen(d) == IF d[1] = "unk" THEN <<"unk", 0>> ELSE d
SeenS(s) == [i \in 1..Len(s) |-> Seen(s[i])]
HasUnk(s) == \E i \in 1..Len(s) : s[i][1] = "unk"

\* _ir_utils.same_dim: different Python types -> False; ints by value; symbolic: None never equals, names by value
SameDimCode(d1, d2) ==
  IF Naive THEN Seen(d1) = Seen(d2)
  ELSE IF (d1[1] = "lit") # (d2[1] = "lit") THEN FALSE
  ELSE IF d1[1] = "lit" THEN d1[2] = d2[2]
  ELSE IF d1[1] = "unk" \/ d2[1] = "unk" THEN FALSE
  ELSE d1[2] = d2[2]
\* _ir_utils.same_shape: an unknown dim in EITHER shape -> False, else equal as sequences
SameShapeCode(s1, s2) == IF Naive THEN SeenS(s1) = SeenS(s2) ELSE ~HasUnk(s1) /\ ~HasUnk(s2) /\ SeenS(s1) = SeenS(s2)
\* _constant_folding._same_shape: an unknown dim in the FIRST shape -> False, else the dims tuples are compared with ==
\* (SymbolicDim(None) == SymbolicDim(None) is True in onnx_ir, but then the first shape has an unknown dim too)
FolderSameShapeCode(s1, s2) == IF Naive THEN SeenS(s1) = SeenS(s2) ELSE ~HasUnk(s1) /\ SeenS(s1) = SeenS(s2)

\* ---- cases: a pair of dims, or a pair of shapes of equal rank, each unnamed occurrence with its own id ------
VARIABLES kind, a, b, done
vars == <<kind, a, b, done>>
Init == kind = "none" /\ a = <<>> /\ b = <<>> /\ done = FALSE
PickDims == /\ kind = "none" /\ \E d1 \in Dims({1}), d2 \in Dims({2}) : a' = <<d1>> /\ b' = <<d2>>
            /\ kind' = "dim" /\ done' = TRUE
PickShapes == /\ kind = "none"
              /\ \E r \in 1..MaxRank : \E s1 \in [1..r -> Dims({1, 2})], s2 \in [1..r -> Dims({3, 4})] :
                    \* occurrence ids: position i of the first shape is unknown i, of the second shape unknown 2+i
                    /\ (\A i \in 1..r : s1[i][1] = "unk" => s1[i][2] = i)
                    /\ (\A i \in 1..r : s2[i][1] = "unk" => s2[i][2] = 2 + i)
                    /\ a' = s1 /\ b' = s2
              /\ kind' = "shape" /\ done' = TRUE
Next == PickDims \/ PickShapes \/ (done /\ UNCHANGED vars)
Spec == Init /\ [][Next]_vars

\* ---- the property: a test that answers "same" is right under every binding -------------------------
DimSound == (done /\ kind = "dim") => (SameDimCode(a[1], b[1]) => AlwaysEqualDim(a[1], b[1]))
ShapeSound == (done /\ kind = "shape") => (SameShapeCode(a, b) => AlwaysEqualShape(a, b))
FolderShapeSound == (done /\ kind = "shape") => (FolderSameShapeCode(a, b) => AlwaysEqualShape(a, b))
\* vacuity: some pair is judged the same, some pair with unnamed dims on both sides is judged different
NeverSame == ~(done /\ kind = "dim" /\ SameDimCode(a[1], b[1]))
NeverSameShape == ~(done /\ kind = "shape" /\ SameShapeCode(a, b))

Txt(d) == IF d[1] = "lit" THEN ToString(d[2]) ELSE IF d[1] = "sym" THEN d[2] ELSE "?"
Case == done => PrintT(<<"CASE", ToJson([kind |-> kind, a |-> [i \in 1..Len(a) |-> Txt(a[i])], b |-> [i \in 1..Len(b) |-> Txt(b[i])],
                                         same_dim |-> IF kind = "dim" THEN SameDimCode(a[1], b[1]) ELSE FALSE,
                                         same_shape |-> IF kind = "shape" THEN SameShapeCode(a, b) ELSE FALSE,
                                         folder_same_shape |-> IF kind = "shape" THEN FolderSameShapeCode(a, b) ELSE FALSE,
                                         always_equal |-> IF kind = "dim" THEN AlwaysEqualDim(a[1], b[1]) ELSE AlwaysEqualShape(a, b)])>>)
=============================================================================
