SPECIFICATION Spec
CONSTANTS
  Deviations <- RealDevs
  MaxNodes = 1
  Worlds <- VecWorld
  Rich = FALSE
  NumIter = 2
  EarlyStop = TRUE
  Sim = FALSE
  Fine = TRUE
  Mutant = "none"
INVARIANT NeverDeviates
CHECK_DEADLOCK FALSE
