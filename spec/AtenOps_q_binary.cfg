SPECIFICATION Spec
CONSTANTS
  Deviations <- AllDevs
  Families <- F_binary
  Wide = FALSE
INVARIANT AtenWellFormed
INVARIANT DesignOK
INVARIANT DeviationsExplain
INVARIANT EmitCases
CHECK_DEADLOCK FALSE
