SPECIFICATION Spec
CONSTANTS
  Deviations <- AllDevs
  Families <- F_nn
  Wide = FALSE
INVARIANT AtenWellFormed
INVARIANT DesignOK
INVARIANT DeviationsExplain
INVARIANT EmitCases
CHECK_DEADLOCK FALSE
