SPECIFICATION Spec
CONSTANTS
  Deviations <- NoDevs
  Apis <- AllApis
  MaxSparse = 2
  MaxDense = 1
INVARIANT DesignOK
INVARIANT ReturnContract
INVARIANT ImplAgrees
INVARIANT ImplArgKept
INVARIANT ImplIdem
CHECK_DEADLOCK FALSE
