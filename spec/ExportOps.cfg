SPECIFICATION Spec
INVARIANT Report
CHECK_DEADLOCK FALSE
