SPECIFICATION Spec
CONSTANTS
  Deviations <- AllDevs
  Families = {"relus_clips", "transposes"}
  Menu = "quick"
INVARIANT NeverDeclines
CHECK_DEADLOCK FALSE
