SPECIFICATION Spec
CONSTANTS
  Deviations <- AllDevs
  Families <- AllFamilies
  Menu = "quick"
INVARIANT NeverDeclines
CHECK_DEADLOCK FALSE
