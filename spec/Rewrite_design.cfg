SPECIFICATION Spec
CONSTANTS
  Deviations <- NoDevs
  RuleSets <- QuickSets
  MaxDepth = 1
  Wide = FALSE
INVARIANT Holds
CHECK_DEADLOCK FALSE
