SPECIFICATION Spec
CONSTANTS
  Deviations <- NoDevs
  RuleSets <- QuickSets
  MaxDepth = 2
  Wide = FALSE
INVARIANT Holds
CHECK_DEADLOCK FALSE
