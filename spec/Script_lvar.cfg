SPECIFICATION Spec
CONSTANTS
  Deviations <- RealDevs
  MaxNodes = 3
  MinNodes = 1
  MaxDepth = 2
  MaxBlock = 3
  Kinds <- LVarKinds
  Tiny = TRUE
  Ops = FALSE
  Rich = FALSE
INVARIANT DesignFaithful
INVARIANT DeviationsExplain
INVARIANT Emit
CHECK_DEADLOCK FALSE
