SPECIFICATION Spec
CONSTANTS
  Deviations <- AllDevs
  Apis <- AllApis
  MaxSparse = 1
  MaxDense = 0
INVARIANT ImplIdem
CHECK_DEADLOCK FALSE
