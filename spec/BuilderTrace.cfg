SPECIFICATION TSpec
INVARIANT Verdict
CHECK_DEADLOCK FALSE
