SPECIFICATION Spec
CONSTANTS
  Deviations <- AllDevs
  Families <- G_d
  Wide = FALSE
INVARIANT AtenWellFormed
INVARIANT DesignOK
INVARIANT DeviationsExplain
INVARIANT EmitCases
CHECK_DEADLOCK FALSE
