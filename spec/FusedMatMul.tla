------------------------------ MODULE FusedMatMul ------------------------------
(* C19, the one fusion family with exact semantics: onnxscript/rewriter/ort_fusions/             *)
(* fused_matmul_rule_sets.py (14 rules that fold Transpose / Div-by-constant around MatMul into   *)
(* com.microsoft.FusedMatMul attributes).                                                         *)
(*                                                                                                *)
(* State: a TERM  post_n(... post_1( [Fused]MatMul(L, R) ) ...)  where L and R are graph inputs   *)
(* possibly under one Transpose node, the MatMul carries the FusedMatMul attributes               *)
(* (transA/transB/transBatchA/transBatchB, alpha = c^-k) and post is the list of Div / Transpose  *)
(* nodes that consume it.  One action per rule class, its enabling condition transcribed from     *)
(* pattern() + check(), its effect from rewrite().  Rule order inside the rule set matters at one *)
(* place only (rules 5-8 are tried before rules 9-14 on the same node) and is modelled there;      *)
(* otherwise any enabled rule may fire (a superset of the engine's node-order strategy).          *)
(*                                                                                                *)
(* Semantics: Eval(term) evaluates the term on fixed integer tensors with the ONNX semantics of   *)
(* Tensor.tla (Transpose) + batched MatMul defined here + the FusedMatMul operator spec           *)
(* (transBatchX moves dim 0 behind the batch dims, transX swaps the last two dims, applied in      *)
(* that order).  Property: Preserves == Eval(term) = Eval(initial term) in every reachable state. *)
EXTENDS Tensor, TLC, Json

CONSTANTS Deviations, Big, Ranks        \* Ranks: ranks of the MatMul operands to enumerate
VARIABLES init, e0, L, R, F, post, st, why      \* e0: the value of the initial term (computed once)
vars == <<init, e0, L, R, F, post, st, why>>

AllDevs == {"fused_matmul_transpose_flags_not_swapped", "fused_matmul_noperm_keyerror"}
NoDevs == {}
R23 == {2, 3}
\* quick tier: rank 4 only for the plain MatMul with none / last2 / last2b operands
Quick4 == 4 \in Ranks /\ ~Big
R234 == {2, 3, 4}
R2 == {2}
R3 == {3}

-----------------------------------------------------------------------------
(* values *)
A0(shape) == T("i64", shape, [k \in 1..Numel(shape) |-> k])
B0(shape) == T("i64", shape, [k \in 1..Numel(shape) |-> ((k * 7) % 11) - 3])

RECURSIVE DotFrom(_, _, _, _, _, _)
DotFrom(x, y, bidx, m, n, k) ==
    IF k < 0 THEN 0
    ELSE At(x, bidx \o <<m, k>>) * At(y, bidx \o <<k, n>>) + DotFrom(x, y, bidx, m, n, k - 1)
\* MatMul of two tensors of equal rank >= 2 and equal batch dims
MatMulT(x, y) ==
    IF IsErr(x) \/ IsErr(y) THEN ERR
    ELSE LET r == Rank(x) IN
         IF Rank(y) # r \/ r < 2 THEN ERR
         ELSE LET bs == SubSeq(x.shape, 1, r - 2)
                  M == x.shape[r - 1]
                  K == x.shape[r]
                  N == y.shape[r]
                  osh == bs \o <<M, N>>
              IN IF y.shape[r - 1] # K \/ SubSeq(y.shape, 1, r - 2) # bs THEN ERR
                 ELSE T("i64", osh, [lin \in 1..Numel(osh) |->
                                        LET idx == Unravel(lin - 1, osh) IN
                                        DotFrom(x, y, SubSeq(idx, 1, r - 2), idx[r - 1], idx[r], K - 1)])

Iden(n) == [i \in 1..n |-> i - 1]
SwapLast2(n) == [i \in 1..n |-> IF i = n - 1 THEN n - 1 ELSE IF i = n THEN n - 2 ELSE i - 1]
Rot(n) == [i \in 1..n |-> IF i = n THEN 0 ELSE i]                       \* [1, 2, ..., n-1, 0]
BatchPerm(n) == [i \in 1..n |-> IF i = n THEN n - 1 ELSE IF i = n - 1 THEN 0 ELSE i]   \* [1, ..., n-2, 0, n-1]
RotBack(n) == [i \in 1..n |-> IF i = 1 THEN n - 1 ELSE i - 2]           \* [n-1, 0, 1, ..., n-2]
BatchBack(n) == [i \in 1..n |-> IF i = 1 THEN n - 2 ELSE IF i = n THEN n - 1 ELSE i - 2]  \* [n-2, 0, ..., n-3, n-1]
EndsSwap(n) == [i \in 1..n |-> IF i = 1 THEN n - 1 ELSE IF i = n THEN 0 ELSE i - 1]  \* [n-1, 1, ..., n-2, 0]

\* a Transpose node: t = "none" | "perm" | "noperm" (attribute absent: reverse all dims)
NoTr == [t |-> "none", perm |-> <<>>]
ApplyTr(x, tr) == IF tr.t = "none" THEN x
                  ELSE IF tr.t = "noperm" THEN Transpose(x, RevPerm(Rank(x)))
                  ELSE Transpose(x, tr.perm)
\* com.microsoft.FusedMatMul operand: transBatch first, then trans
Operand(x, trans, tbatch) ==
    LET x1 == IF tbatch = 1 THEN Transpose(x, BatchPerm(Rank(x))) ELSE x
    IN IF IsErr(x1) THEN ERR ELSE IF trans = 1 THEN Transpose(x1, SwapLast2(Rank(x1))) ELSE x1

RECURSIVE ApplyPost(_, _)
ApplyPost(v, ps) ==
    IF ps = <<>> THEN v
    ELSE LET p == Head(ps) IN
         IF p.op = "div" THEN ApplyPost([v EXCEPT !.k = IF p.kind = "vec" THEN @ ELSE @ + 1,
                                                  !.vec = IF p.kind = "vec" THEN @ + 1 ELSE @], Tail(ps))
         ELSE ApplyPost([v EXCEPT !.t = ApplyTr(v.t, p.tr)], Tail(ps))

-----------------------------------------------------------------------------
(* initial terms: the instances harness/c19.py builds (build_matmul) *)
Dims == IF Big THEN {<<2, 3, 4>>, <<2, 2, 2>>, <<3, 3, 3>>} ELSE {<<2, 3, 4>>, <<2, 2, 2>>}
Batch(r) == IF r = 2 THEN <<>> ELSE IF r = 3 THEN <<2>> ELSE <<2, 3>>
\* "last2b" (rank 4 only): the last two axes swapped AND the two batch axes swapped, [1, 0, 3, 2] - not a plain
\* transposition of the matrix dimensions, so no transA/transB flag can stand for it
SwapBoth4 == <<1, 0, 3, 2>>
TKinds == {"none", "last2", "noperm", "rot", "batch", "last2b"}
PermOf(kind, n) == CASE kind = "last2" -> SwapLast2(n) [] kind = "rot" -> Rot(n) [] kind = "batch" -> BatchPerm(n)
                     [] kind = "last2b" -> SwapBoth4 [] OTHER -> <<>>
TrOf(kind, n) == IF kind = "none" THEN NoTr ELSE IF kind = "noperm" THEN [t |-> "noperm", perm |-> <<>>]
                 ELSE [t |-> "perm", perm |-> PermOf(kind, n)]
\* source shape such that the Transpose yields `base`
SrcShape(base, tr) ==
    LET n == Len(base) IN
    IF tr.t = "none" THEN base
    ELSE IF tr.t = "noperm" THEN [i \in 1..n |-> base[n + 1 - i]]
    ELSE [j \in 1..n |-> base[CHOOSE i \in 1..n : tr.perm[i] = j - 1]]
Inits == {c \in [rank : Ranks, dims : Dims, ta : TKinds, tb : TKinds, div : {"none", "scalar", "vec1", "vec"},
                 tout : {"none", "noperm", "last2"}, divfirst : BOOLEAN] :
            /\ (c.rank = 2 => "batch" \notin {c.ta, c.tb})
            /\ (c.rank # 4 => "last2b" \notin {c.ta, c.tb})
            /\ (c.rank = 4 /\ Quick4 => (c.div = "none" /\ c.tout = "none" /\ c.divfirst /\ {c.ta, c.tb} \subseteq {"none", "last2", "last2b"}))
            /\ ~(c.div = "vec" /\ ~c.divfirst) /\ ~(c.div = "none" /\ ~c.divfirst) /\ ~(c.tout = "none" /\ ~c.divfirst)
            /\ (Big \/ c.rank = 2 \/ c.dims = <<2, 3, 4>>)
            /\ (c.rank < 4 \/ (c.div \in {"none", "scalar"} /\ c.tout # "noperm"))}
PostOf(c) ==
    LET d == IF c.div = "none" THEN <<>> ELSE <<[op |-> "div", kind |-> c.div]>>
        t == IF c.tout = "none" THEN <<>>
             ELSE <<[op |-> "T", tr |-> IF c.tout = "noperm" THEN [t |-> "noperm", perm |-> <<>>]
                                           ELSE [t |-> "perm", perm |-> SwapLast2(c.rank)]]>>
    IN IF c.divfirst THEN d \o t ELSE t \o d
F0 == [fused |-> FALSE, tA |-> 0, tB |-> 0, tbA |-> 0, tbB |-> 0, k |-> 0]

BaseL(c) == Batch(c.rank) \o <<c.dims[1], c.dims[2]>>
BaseR(c) == Batch(c.rank) \o <<c.dims[2], c.dims[3]>>
Val(o, c) == IF o.src = "a" THEN A0(SrcShape(BaseL(c), TrOf(c.ta, c.rank))) ELSE B0(SrcShape(BaseR(c), TrOf(c.tb, c.rank)))

Eval(c, l, r, f, ps) ==
    LET x == Operand(ApplyTr(Val(l, c), l.tr), f.tA, f.tbA)
        y == Operand(ApplyTr(Val(r, c), r.tr), f.tB, f.tbB)
    IN ApplyPost([t |-> MatMulT(x, y), k |-> f.k, vec |-> 0], ps)
Eval0(c) == Eval(c, [src |-> "a", tr |-> TrOf(c.ta, c.rank)], [src |-> "b", tr |-> TrOf(c.tb, c.rank)], F0, PostOf(c))

-----------------------------------------------------------------------------
(* rules *)
RankN == init.rank
Opnd(pos) == IF pos = 1 THEN L ELSE R
Trans(pos) == IF pos = 1 THEN F.tA ELSE F.tB
TBat(pos) == IF pos = 1 THEN F.tbA ELSE F.tbB
SetOp(pos, l, f) == IF pos = 1 THEN L' = l /\ R' = R /\ F' = f ELSE R' = l /\ L' = L /\ F' = f
FlipT(pos) == IF pos = 1 THEN [F EXCEPT !.fused = TRUE, !.tA = 1 - @] ELSE [F EXCEPT !.fused = TRUE, !.tB = 1 - @]
FlipB(pos, f) == IF pos = 1 THEN [f EXCEPT !.tbA = 1 - @] ELSE [f EXCEPT !.tbB = 1 - @]
Keep == UNCHANGED <<init, e0, st>>

\* FusedMatMulDiv1 / FusedMatMulDiv2: Div(MatMul | FusedMatMul, constant of size 1) -> alpha /= c
DivRule ==
    /\ st = "ok" /\ post # <<>> /\ Head(post).op = "div" /\ Head(post).kind \in {"scalar", "vec1"}
    /\ F' = [F EXCEPT !.fused = TRUE, !.k = @ + 1] /\ post' = Tail(post)
    /\ UNCHANGED <<L, R, why>> /\ Keep

\* MatMulTranspose / FusedMatMulTranspose: Transpose((Fused)MatMul(x, y)) with x, y of rank 2 and perm absent or (1,0)
\* (x y)^T = y^T x^T: operands swap, and transA' = 1 - transB, transB' = 1 - transA.
\* The code flips each flag in place:  for name in ["transA","transB"]: kwargs[name] = 1 - kwargs.get(name, 0)
OutTransposeRule ==
    /\ st = "ok" /\ post # <<>> /\ Head(post).op = "T" /\ RankN = 2
    /\ (Head(post).tr.t = "noperm" \/ Head(post).tr.perm = <<1, 0>>)
    /\ LET dev == "fused_matmul_transpose_flags_not_swapped"
           wrong == F.tA # F.tB
       IN /\ (wrong => dev \in Deviations)            \* the design has no such step for transA # transB
          /\ F' = [F EXCEPT !.fused = TRUE, !.tA = 1 - F.tA, !.tB = 1 - F.tB]      \* as coded
          /\ why' = IF wrong THEN why \cup {dev} ELSE why
    /\ L' = R /\ R' = L /\ post' = Tail(post) /\ Keep
\* what a correct rewrite does when transA # transB (the design's version of the same rule)
OutTransposeRuleDesign ==
    /\ st = "ok" /\ post # <<>> /\ Head(post).op = "T" /\ RankN = 2
    /\ (Head(post).tr.t = "noperm" \/ Head(post).tr.perm = <<1, 0>>)
    /\ F.tA # F.tB /\ "fused_matmul_transpose_flags_not_swapped" \notin Deviations
    /\ F' = [F EXCEPT !.fused = TRUE, !.tA = 1 - F.tB, !.tB = 1 - F.tA, !.tbA = F.tbB, !.tbB = F.tbA]
    /\ L' = R /\ R' = L /\ post' = Tail(post) /\ UNCHANGED why /\ Keep

\* TransposeMatMul1/2, TransposeFusedMatMul1/2: (Fused)MatMul(Transpose(x), y): perm swaps the last two dims, or no perm and rank 2;
\* for FusedMatMul the transBatch flag of that side must be 0
TMok(pos) ==
    /\ Opnd(pos).tr.t # "none"
    /\ IF Opnd(pos).tr.t = "perm" THEN Opnd(pos).tr.perm = SwapLast2(RankN) ELSE RankN = 2
    /\ (F.fused => TBat(pos) = 0)
TransposeRule(pos) ==
    /\ st = "ok" /\ TMok(pos)
    /\ SetOp(pos, [Opnd(pos) EXCEPT !.tr = NoTr], FlipT(pos))
    /\ UNCHANGED <<post, why>> /\ Keep

\* _TransposeFusedMatMulBaseWithBatch (rules 9-14): FusedMatMul(Transpose(x), y) with the batch permutations.
\* check() reads  transposed_node.attributes["perm"]  without a default: KeyError for a Transpose without perm.
BatchRule(pos, kind) ==
    /\ st = "ok" /\ F.fused /\ Opnd(pos).tr.t = "perm" /\ ~TMok(pos)
    /\ LET tb == TBat(pos) p == Opnd(pos).tr.perm IN
       CASE kind = "both" -> /\ p = (IF tb = 0 THEN Rot(RankN) ELSE RotBack(RankN))
                             /\ SetOp(pos, [Opnd(pos) EXCEPT !.tr = NoTr], FlipB(pos, FlipT(pos)))
         [] kind = "batch" -> /\ p = (IF tb = 0 THEN BatchPerm(RankN) ELSE BatchBack(RankN))
                              /\ SetOp(pos, [Opnd(pos) EXCEPT !.tr = NoTr], FlipB(pos, F))
         [] kind = "trans" -> /\ p = EndsSwap(RankN) /\ tb = 1
                              /\ SetOp(pos, [Opnd(pos) EXCEPT !.tr = NoTr], FlipT(pos))
    /\ UNCHANGED <<post, why>> /\ Keep
NoPermRaise(pos) ==
    /\ st = "ok" /\ F.fused /\ Opnd(pos).tr.t = "noperm" /\ ~TMok(pos)
    /\ "fused_matmul_noperm_keyerror" \in Deviations        \* the design fails the match instead
    /\ st' = "raised" /\ why' = why \cup {"fused_matmul_noperm_keyerror"}
    /\ UNCHANGED <<init, e0, L, R, F, post>>

Init == /\ init \in Inits
        /\ e0 = Eval0(init)
        /\ L = [src |-> "a", tr |-> TrOf(init.ta, init.rank)]
        /\ R = [src |-> "b", tr |-> TrOf(init.tb, init.rank)]
        /\ F = F0 /\ post = PostOf(init) /\ st = "ok" /\ why = {}
Next == \/ DivRule \/ OutTransposeRule \/ OutTransposeRuleDesign
        \/ \E pos \in {1, 2} : TransposeRule(pos) \/ NoPermRaise(pos) \/ \E k \in {"both", "batch", "trans"} : BatchRule(pos, k)
Spec == Init /\ [][Next]_vars

-----------------------------------------------------------------------------
Now == Eval(init, L, R, F, post)
Preserves == st = "ok" => Now = e0
Total == st = "ok"                                     \* rewriting never raises
DesignOK == Preserves /\ Total
DeviationsExplain == (~Preserves \/ ~Total) => why # {}
NoSpuriousBlame == ("fused_matmul_noperm_keyerror" \in why => st = "raised")
\* the original term always evaluates (the instances are well-formed)
WellFormed == ~IsErr(e0.t)

Flags == [transA |-> F.tA, transB |-> F.tB, transBatchA |-> F.tbA, transBatchB |-> F.tbB]
CaseRec(now) == [init |-> init, fused |-> F.fused, flags |-> Flags, k |-> F.k, swapped |-> (L.src = "b"),
                 ltr |-> L.tr.t, rtr |-> R.tr.t, npost |-> Len(post), st |-> st, why |-> why,
                 same |-> (st = "ok" /\ now = e0), shape_ok |-> (st = "ok" /\ ~IsErr(now.t))]
\* the implementation model's invariant and the case printer in one (the term is evaluated once per state)
ImplInv == LET now == Now
               pres == st = "ok" => now = e0
           IN /\ ((~pres \/ st # "ok") => why # {})                     \* DeviationsExplain
              /\ PrintT("C19MM " \o ToJson(CaseRec(now)))

\* witnesses, expected to be violated
NeverWrong == Preserves
NeverRaises == Total
NeverBatchFlag == F.tbA = 0 /\ F.tbB = 0
NeverSwapped == L.src = "a"
=============================================================================
