------------------------------- MODULE Matcher -------------------------------
(* C06: the rewriter's pattern matcher (SimplePatternMatcher: single- and multi-output patterns,  *)
(* remove_nodes True/False, commute).                                                            *)
(*                                                                                              *)
(* A behaviour builds a pattern bottom-up (AddPNode), instantiates it into a host graph           *)
(* (Instantiate: one value per variable, one alternative per OR), applies at most one mutation   *)
(* to the instance (Mutate: other op, rewired input, attribute change, extra consumer, graph      *)
(* output, swapped operands, extra/dropped input) and then evaluates (Evaluate)                   *)
(*   Matches / Instance - the DECLARATIVE meaning of "the subgraph ending at root is an instance"  *)
(*   Run               - the OPERATIONAL model of _matcher.py/_basics.py: depth-first matching     *)
(*                       with the stack of partial matches used for OR backtracking, transcribed   *)
(*                       function by function (match_node, match_value, bind, bind_value,          *)
(*                       lookup_node, enter/abandon/merge, _valid_to_replace)                      *)
(* Property: Run reports a match iff Matches, and its bindings are those of an instance.           *)
(* Deviations: "or_merge_drops" (merge keeps bindings and nodes but drops value/node bindings of    *)
(* the alternative), "or_commits_first" (the first locally matching alternative is final).          *)
EXTENDS Integers, Sequences, FiniteSets, TLC, Json

CONSTANTS Deviations, MaxPNodes, Features, OpSet, VarVals
VARIABLES pat, alts, pouts, graph, gouts, root, stage, mut, verdict
vars == <<pat, alts, pouts, graph, gouts, root, stage, mut, verdict>>

Ops == {"U", "C", "N", "M"}             \* unary, commutative binary, non-commutative binary, 2-output unary
Arity(op) == IF op \in {"C", "N"} THEN 2 ELSE 1
NOuts(op) == IF op = "M" THEN 2 ELSE 1
NONEV == 0                              \* an omitted (None) input
\* host values: 1,2 graph inputs; 3 constant 1.0; 4 constant 2.0; 5 constant 1.0+1e-9; 6 constant [1.0] (shape [1]: a scalar
\* pattern constant matches rank-0 constants only); 10k+j = output j-1 of node k
IsConstV(v) == v \in {3, 4, 5, 6}
ConstClose(v, c) == (c = 1 /\ v \in {3, 5}) \/ (c = 2 /\ v = 4)     \* math.isclose with the default tolerances
Producer(v) == IF v >= 10 THEN v \div 10 ELSE 0
OutIndex(v) == (v % 10) - 1
OutV(k, j) == 10 * k + j + 1

\* pattern values <<kind, name, a, b>>:
PVar(n) == <<"var", n, 0, 0>>
PVarO(n) == <<"varo", n, 0, 0>>         \* Var(n, can_match_none=True): also matches an omitted input (then it is bound to None)
PConst(c) == <<"const", "", c, 0>>
POut(p, j) == <<"out", "", p, j>>       \* output j of pattern node p
PNone == <<"none", "", 0, 0>>
POr(k) == <<"or", "", k, 0>>            \* alts[k] = <<alternative 1, alternative 2>> (pattern values)
\* pattern node: op, ins, attr pattern on attribute "a" (<<"any">>|<<"c",v>>|<<"v">>), allow_other_inputs, allow_other_attributes
PN(op, ins, at, aoi, aoa) == [op |-> op, ins |-> ins, at |-> at, aoi |-> aoi, aoa |-> aoa]
GN(op, ins, a) == [op |-> op, ins |-> ins, a |-> a, b |-> 0]   \* a, b: two attributes; 0 = absent, else the value (patterns only mention "a")

-----------------------------------------------------------------------------
(* DECLARATIVE meaning *)
\* which pattern nodes are needed under a choice of alternatives ch (function from or-index to 1..2)
RECURSIVE NeedV(_, _), NeedN(_, _)
NeedV(pv, ch) == CASE pv[1] = "out" -> NeedN(pv[3], ch)
                   [] pv[1] = "or" -> NeedV(alts[pv[3]][ch[pv[3]]], ch)
                   [] OTHER -> {}
NeedN(p, ch) == {p} \cup UNION {NeedV(pat[p].ins[i], ch) : i \in 1..Len(pat[p].ins)}

\* attribute pattern on "a": any (not mentioned) | c (constant) | v (attribute variable) | vo (variable that may match an absent attribute)
AttrOK(pn, g) == /\ (pn.at[1] = "c" => g.a = pn.at[2])
                 /\ (pn.at[1] = "v" => g.a # 0)
                 /\ (~pn.aoa /\ pn.at[1] = "any" => g.a = 0)
                 /\ (~pn.aoa => g.b = 0)                     \* "b" is never mentioned by a pattern
InputAt(g, i) == IF i <= Len(g.ins) THEN g.ins[i] ELSE NONEV
\* The correspondences an instance rooted at `root` is FORCED to have under a choice ch of alternatives:
\* <<"node","",p,k>> pattern node p is graph node k;  <<"var",name,v,0>> variable name is value v;
\* <<"bad","",0,0>> some local requirement fails.  (Relational: collect, then require consistency.)
BAD == <<"bad", "", 0, 0>>
\* S = set of commutative pattern nodes whose operands are swapped (commute=True explores every S)
InsOf(p, S) == IF p \in S /\ Len(pat[p].ins) = 2 THEN <<pat[p].ins[2], pat[p].ins[1]>> ELSE pat[p].ins
RECURSIVE CorrN(_, _, _, _), CorrV(_, _, _, _)
CorrV(pv, v, ch, S) ==
  CASE pv[1] = "var" -> IF v = NONEV THEN {BAD} ELSE {<<"var", pv[2], v, 0>>}
    [] pv[1] = "varo" -> {<<"var", pv[2], v, 0>>}
    [] pv[1] = "const" -> IF v # NONEV /\ IsConstV(v) /\ ConstClose(v, pv[3]) THEN {} ELSE {BAD}
    [] pv[1] = "none" -> IF v = NONEV THEN {} ELSE {BAD}
    [] pv[1] = "out" -> IF v = NONEV \/ Producer(v) = 0 \/ OutIndex(v) # pv[4] THEN {BAD} ELSE CorrN(pv[3], Producer(v), ch, S)
    [] pv[1] = "or" -> CorrV(alts[pv[3]][ch[pv[3]]], v, ch, S)
CorrN(p, k, ch, S) ==
  LET pn == pat[p] g == graph[k] IN
  IF pn.op # g.op \/ ~AttrOK(pn, g) \/ (Len(g.ins) > Len(pn.ins) /\ ~pn.aoi) THEN {BAD}
  ELSE {<<"node", "", p, k>>} \cup UNION {CorrV(InsOf(p, S)[i], InputAt(g, i), ch, S) : i \in 1..Len(pn.ins)}
PVarsOf == UNION {{pat[p].ins[i][2] : i \in {i \in 1..Len(pat[p].ins) : pat[p].ins[i][1] \in {"var", "varo"}}} : p \in 1..Len(pat)}
              \cup UNION {{alts[k][j][2] : j \in {j \in 1..2 : alts[k][j][1] = "var"}} : k \in 1..Len(alts)}
EffGouts == gouts \cup {OutV(Len(graph), 0)}      \* the host graph returns its last node's first output, plus gouts
Removable(nodes, outs) ==  \* _valid_to_replace: outputs of matched nodes other than the values of the pattern outputs
  \A k \in nodes : \A j \in 0..(NOuts(graph[k].op) - 1) :
     LET v == OutV(k, j) IN
     v \in outs \/ (v \notin EffGouts /\ \A m \in 1..Len(graph) : (\E i \in 1..Len(graph[m].ins) : graph[m].ins[i] = v) => m \in nodes)
\* pouts: the values the pattern returns (each an output of a pattern node).  GraphPattern.__init__: the OUTPUT NODES are a
\* minimal set of producers, in the order of pouts, whose backward slices (through node outputs, not through OR
\* alternatives) cover the rest; the match is rooted at the first one, the others are searched in the whole graph.
RECURSIVE BSlice(_)
BSlice(p) == {p} \cup UNION {BSlice(pat[p].ins[i][3]) : i \in {i \in 1..Len(pat[p].ins) : pat[p].ins[i][1] = "out"}}
RECURSIVE ONodes(_, _, _)
ONodes(i, acc, cov) == IF i > Len(pouts) THEN acc
                       ELSE LET c == pouts[i][3] IN
                            IF c \in cov THEN ONodes(i + 1, acc, cov) ELSE ONodes(i + 1, Append(acc, c), cov \cup BSlice(c))
OutputNodes == ONodes(1, <<>>, {})
\* assignments of the other output nodes to graph nodes (the first is the root)
OutAssigns == [2..Len(OutputNodes) -> 1..Len(graph)]
CorrAll(ch, S, asg) == UNION {CorrN(OutputNodes[i], IF i = 1 THEN root ELSE asg[i], ch, S) : i \in 1..Len(OutputNodes)}
NodesOfC(C) == {e[4] : e \in {e \in C : e[1] = "node"}}
OutValsOfC(C) == UNION {{OutV(e[4], pouts[i][4]) : e \in {e \in C : e[1] = "node" /\ e[3] = pouts[i][3]}} : i \in 1..Len(pouts)}
OutsBoundC(C) == \A i \in 1..Len(pouts) : \E e \in C : e[1] = "node" /\ e[3] = pouts[i][3]
Functional(C, kind) == \A e1, e2 \in {e \in C : e[1] = kind} : (e1[2] = e2[2] /\ (kind = "var" \/ e1[3] = e2[3])) => e1 = e2
\* keep = the rule keeps the matched nodes (remove_nodes=False): the removability side-condition does not apply
\* the attribute variable is ONE variable ("A") for the whole pattern: every node that mentions it must carry the same value
AttrVarConsistent(C) == \A e1, e2 \in {e \in C : e[1] = "node" /\ pat[e[3]].at[1] = "v"} : graph[e1[4]].a = graph[e2[4]].a
IsInstanceA(ch, S, keep, asg) == LET C == CorrAll(ch, S, asg) IN
                  /\ BAD \notin C /\ Functional(C, "node") /\ Functional(C, "var") /\ OutsBoundC(C) /\ AttrVarConsistent(C)
                  /\ (keep \/ Removable(NodesOfC(C), OutValsOfC(C)))
IsInstanceSK(ch, S, keep) == \E asg \in OutAssigns : IsInstanceA(ch, S, keep, asg)
IsInstanceS(ch, S) == IsInstanceSK(ch, S, FALSE)
IsInstance(ch) == IsInstanceS(ch, {})
BindingsOfA(ch, asg) == LET C == CorrAll(ch, {}, asg) IN
                  [n \in PVarsOf |-> LET S == {e[3] : e \in {e \in C : e[1] = "var" /\ e[2] = n}} IN IF S = {} THEN NONEV ELSE CHOOSE v \in S : TRUE]
Choices == [1..Len(alts) -> 1..2]
Matches == \E ch \in Choices : IsInstance(ch)
CommNodes == {p \in 1..Len(pat) : pat[p].op = "C" /\ Len(pat[p].ins) = 2}
\* commute=True: the matches are those of the pattern under swaps of the operands of commutative operators
MatchesCommuted == \E S \in SUBSET CommNodes : \E ch \in Choices : IsInstanceS(ch, S)
MatchesKeep == \E ch \in Choices : IsInstanceSK(ch, {}, TRUE)
MatchesCommutedKeep == \E S \in SUBSET CommNodes : \E ch \in Choices : IsInstanceSK(ch, S, TRUE)
DeclBindings == {BindingsOfA(ca[1], ca[2]) : ca \in {ca \in Choices \X OutAssigns : IsInstanceA(ca[1], {}, FALSE, ca[2])}}

-----------------------------------------------------------------------------
(* OPERATIONAL model.  A partial match: b variable bindings, vb bindings of unnamed pattern values  *)
(* (keyed by the pattern value itself), nb pattern node -> graph node, ns matched nodes in order.  *)
EmptyPM == [b |-> {}, vb |-> {}, nb |-> {}, ns |-> <<>>]
Lookup(S, key) == {e[2] : e \in {e \in S : e[1] = key}}
AllB(st) == UNION {st[i].b : i \in 1..Len(st)}
AllVB(st) == UNION {st[i].vb : i \in 1..Len(st)}
AllNB(st) == UNION {st[i].nb : i \in 1..Len(st)}
TopAdd(st, field, e) == [st EXCEPT ![Len(st)] = [@ EXCEPT ![field] = @ \cup {e}]]
R(ok, st) == [ok |-> ok, st |-> st]
\* MatchResult.bind / bind_value: a name (or unnamed pattern value) bound anywhere on the stack must agree
Bind(name, v, st) == LET old == Lookup(AllB(st), name) IN
                     IF old # {} THEN R(old = {v}, st) ELSE R(TRUE, TopAdd(st, "b", <<name, v>>))
BindValue(pv, v, st) == IF pv[1] \in {"var", "varo"} THEN Bind(pv[2], v, st)
                        ELSE LET old == Lookup(AllVB(st), pv) IN
                             IF old # {} THEN R(old = {v}, st) ELSE R(TRUE, TopAdd(st, "vb", <<pv, v>>))
\* PartialMatchResult.merge: the code merges bindings and matched nodes only
Merge(st, devs) ==
  LET c == st[Len(st)] p == st[Len(st) - 1]
      merged == IF "or_merge_drops" \in devs
                THEN [p EXCEPT !.b = @ \cup c.b, !.ns = @ \o c.ns]
                ELSE [b |-> p.b \cup c.b, vb |-> p.vb \cup c.vb, nb |-> p.nb \cup c.nb, ns |-> p.ns \o c.ns]
  IN Append(SubSeq(st, 1, Len(st) - 2), merged)

RECURSIVE MNode(_, _, _, _), MValue(_, _, _, _), MInputs(_, _, _, _, _), MAlts(_, _, _, _, _)
\* devs is a record [d |-> deviation set, force |-> function or-index -> 0 (try in order, commit to the first) | 1 | 2]
\* _match_node
MNode(p, k, st, devs) ==
  LET bound == Lookup(AllNB(st), p) pn == pat[p] g == graph[k] IN
  IF bound # {} THEN R(bound = {k}, st)           \* same pattern node may not match two graph nodes
  ELSE IF pn.op # g.op \/ ~AttrOK(pn, g) THEN R(FALSE, st)
  ELSE LET st0 == [TopAdd(st, "nb", <<p, k>>) EXCEPT ![Len(st)].ns = Append(@, k)]
           \* an attribute variable is bound like any other name: a second node must carry an equal value
           ra == IF pn.at[1] = "v" THEN Bind("@A", g.a, st0) ELSE R(TRUE, st0)
           st1 == ra.st
       IN IF ~ra.ok THEN R(FALSE, st1)
          ELSE IF Len(g.ins) > Len(pn.ins) /\ ~pn.aoi THEN R(FALSE, st1)
          ELSE LET ri == MInputs(p, k, 1, st1, devs) IN
               IF ~ri.ok THEN ri
               ELSE \* bind the pattern node's outputs to the node's outputs
                    LET r0 == BindValue(POut(p, 0), OutV(k, 0), ri.st) IN
                    IF ~r0.ok \/ NOuts(pn.op) = 1 THEN r0 ELSE BindValue(POut(p, 1), OutV(k, 1), r0.st)
MInputs(p, k, i, st, devs) ==
  IF i > Len(pat[p].ins) THEN R(TRUE, st)
  ELSE LET pv == pat[p].ins[i] v == InputAt(graph[k], i) IN
       IF pv[1] = "none" THEN (IF v = NONEV THEN MInputs(p, k, i + 1, st, devs) ELSE R(FALSE, st))
       ELSE \* every numeric literal in a pattern is its own Constant object: key it by its occurrence
            LET pv2 == IF pv[1] = "const" THEN <<"const", "", pv[3], 100 * p + i>> ELSE pv
                r == MValue(pv2, v, st, devs) IN IF ~r.ok THEN r ELSE MInputs(p, k, i + 1, r.st, devs)
\* _match_value
MValue(pv, v, st, devs) ==
  LET rb == BindValue(pv, v, st) IN
  IF ~rb.ok THEN rb
  ELSE CASE pv[1] = "out" -> IF v = NONEV \/ Producer(v) = 0 \/ OutIndex(v) # pv[4] THEN R(FALSE, rb.st)
                             ELSE MNode(pv[3], Producer(v), rb.st, devs)
         [] pv[1] = "const" -> R(v # NONEV /\ IsConstV(v) /\ ConstClose(v, pv[3]), rb.st)
         [] pv[1] = "or" ->
              LET a == alts[pv[3]]
                  dispatch == a[1][1] = "out" /\ a[2][1] = "out" /\ pat[a[1][3]].op # pat[a[2][3]].op
              IN IF dispatch                       \* OpIdDispatchOr: chosen by the producer's operator
                 THEN IF v = NONEV \/ Producer(v) = 0 THEN R(FALSE, rb.st)
                      ELSE IF graph[Producer(v)].op = pat[a[1][3]].op THEN MValue(a[1], v, rb.st, devs)
                      ELSE IF graph[Producer(v)].op = pat[a[2][3]].op THEN MValue(a[2], v, rb.st, devs)
                      ELSE R(FALSE, rb.st)
                 ELSE IF devs.force[pv[3]] = 0 THEN MAlts(a, 1, v, rb.st, devs)   \* BacktrackingOr
                 ELSE LET r == MValue(a[devs.force[pv[3]]], v, Append(rb.st, EmptyPM), devs) IN
                      IF r.ok THEN R(TRUE, Merge(r.st, devs.d)) ELSE R(FALSE, rb.st)
         [] pv[1] = "varo" -> R(TRUE, rb.st)         \* can_match_none
         [] OTHER -> R(v # NONEV, rb.st)             \* plain variable: None only if can_match_none
\* BacktrackingOr: enter_new_match / merge_current_match / abandon_current_match
MAlts(a, j, v, st, devs) ==
  IF j > 2 THEN R(FALSE, st)
  ELSE LET r == MValue(a[j], v, Append(st, EmptyPM), devs) IN
       IF r.ok THEN R(TRUE, Merge(r.st, devs.d)) ELSE MAlts(a, j + 1, v, st, devs)

FAILED == [ok |-> FALSE, b |-> {}, ns |-> <<>>]
\* _match_single_output_node / _multi_match for one combination of candidates (cand[i] = graph node for output node i)
RECURSIVE MOutNodes(_, _, _, _)
MOutNodes(i, cand, st, dv) == IF i > Len(OutputNodes) THEN R(TRUE, st)
                              ELSE LET r == MNode(OutputNodes[i], cand[i], st, dv) IN
                                   IF ~r.ok THEN r ELSE MOutNodes(i + 1, cand, r.st, dv)
RunCand(cand, dv) ==
  LET r == MOutNodes(1, cand, <<EmptyPM>>, dv) IN
  IF ~r.ok THEN FAILED
  ELSE LET top == r.st[1]
           nodes == {top.ns[i] : i \in 1..Len(top.ns)}
           outs == UNION {Lookup(top.vb, pouts[i]) : i \in 1..Len(pouts)}       \* _get_output_values
       IN IF \E i \in 1..Len(pouts) : Lookup(top.vb, pouts[i]) = {} THEN FAILED
          ELSE IF ~dv.keep /\ ~Removable(nodes, outs) THEN FAILED
          ELSE [ok |-> TRUE, b |-> {e \in top.b : e[1] # "@A"}, ns |-> top.ns]
\* match(): the first output node is the given node; the others range over the graph's nodes of the same operator, in
\* graph order (itertools.product); the first combination that matches wins.  (At most two output nodes here.)
RECURSIVE TryCands(_, _)
TryCands(k, dv) == IF k > Len(graph) THEN FAILED
                   ELSE IF graph[k].op # pat[OutputNodes[2]].op THEN TryCands(k + 1, dv)
                   ELSE LET r == RunCand(<<root, k>>, dv) IN IF r.ok THEN r ELSE TryCands(k + 1, dv)
Run1(dv) == IF Len(OutputNodes) = 1 THEN RunCand(<<root>>, dv) ELSE TryCands(1, dv)
\* the code commits to the first alternative that matches locally ("or_commits_first"); the design
\* re-enters later alternatives when the rest of the pattern fails: some forced choice succeeds
Free == [k \in 1..Len(alts) |-> 0]
RunWithK(devs, keep) ==
  IF "or_commits_first" \in devs \/ Len(alts) = 0 THEN Run1([d |-> devs, force |-> Free, keep |-> keep])
  ELSE LET good == {ch \in Choices : Run1([d |-> devs, force |-> ch, keep |-> keep]).ok}
       IN IF good = {} THEN FAILED
          ELSE Run1([d |-> devs, force |-> CHOOSE ch \in good : \A c2 \in good : ch[1] <= c2[1], keep |-> keep])
RunWith(devs) == RunWithK(devs, FALSE)

-----------------------------------------------------------------------------
(* derivation of cases *)
LeafVals == {PVar("x"), PVar("y"), PConst(1)} \cup (IF "optvar" \in Features THEN {PVarO("z")} ELSE {})
PrevOuts == UNION {{POut(p, j) : j \in 0..(NOuts(pat[p].op) - 1)} : p \in 1..Len(pat)}
OrVals == {POr(k) : k \in 1..Len(alts)}
InVals == LeafVals \cup PrevOuts \cup OrVals
AttrPats == IF "attr" \in Features THEN {<<"any", 0>>, <<"c", 1>>, <<"v", 0>>, <<"vo", 0>>}
            ELSE IF "attr2" \in Features THEN {<<"any", 0>>, <<"v", 0>>}       \* the attribute variable shared by several nodes
            ELSE {<<"any", 0>>}
Flags == IF "flags" \in Features THEN {<<FALSE, TRUE>>, <<TRUE, TRUE>>, <<FALSE, FALSE>>} ELSE {<<FALSE, TRUE>>}

Init == /\ pat = <<>> /\ alts = <<>> /\ pouts = <<>> /\ graph = <<>> /\ gouts = {} /\ root = 0 /\ stage = "pattern"
        /\ mut = "none" /\ verdict = <<>>
AddPNode == /\ stage = "pattern" /\ pouts = <<>> /\ Len(pat) < MaxPNodes
            /\ \E op \in OpSet, at \in AttrPats, fl \in Flags :
                 \E ins \in IF Arity(op) = 1 THEN {<<a>> : a \in InVals}
                            ELSE {<<a, b>> : a \in InVals, b \in InVals}
                                 \cup (IF "optional" \in Features THEN {<<a, PNone>> : a \in InVals} ELSE {}) :
                    pat' = Append(pat, PN(op, ins, at, fl[1], fl[2]))
            /\ UNCHANGED <<alts, pouts, graph, gouts, root, stage, mut, verdict>>
AddOr == /\ stage = "pattern" /\ pouts = <<>> /\ "or" \in Features /\ Len(alts) < 1 /\ Len(pat) >= 1
         /\ \E a \in PrevOuts \cup {PVar("x")}, b \in PrevOuts : a # b /\ alts' = Append(alts, <<a, b>>)
         /\ UNCHANGED <<pat, pouts, graph, gouts, root, stage, mut, verdict>>
\* what the pattern function returns: the last node's output, optionally with one more value before or after it
ChooseOutputs == /\ stage = "pattern" /\ pouts = <<>> /\ Len(pat) >= 1
                 /\ \/ "multionly" \notin Features /\ pouts' = <<POut(Len(pat), 0)>>
                    \/ /\ "multiout" \in Features
                       /\ \E pv \in PrevOuts \ {POut(Len(pat), 0)} :
                            \/ pouts' = <<POut(Len(pat), 0), pv>>
                            \/ pouts' = <<pv, POut(Len(pat), 0)>>
                 /\ UNCHANGED <<pat, alts, graph, gouts, root, stage, mut, verdict>>
\* every pattern node and alternative must be reachable from the root under some choice
NeedAll(ch) == UNION {NeedN(OutputNodes[i], ch) : i \in 1..Len(OutputNodes)}
Reachable == \A p \in 1..Len(pat) : \E ch \in [1..Len(alts) -> 1..2] : p \in NeedAll(ch)
UsesAllAlts == \A k \in 1..Len(alts) : \E p \in 1..Len(pat) : \E i \in 1..Len(pat[p].ins) : pat[p].ins[i] = POr(k)
\* instantiate: host nodes for the needed pattern nodes (in pattern order), variables to host values
InstNode(p, nm, vm, ch) ==
  LET pn == pat[p]
      RECURSIVE Val(_)
      Val(pv) == CASE pv[1] \in {"var", "varo"} -> vm[pv[2]] [] pv[1] = "const" -> 3 [] pv[1] = "none" -> NONEV
                   [] pv[1] = "out" -> OutV(nm[pv[3]], pv[4]) [] pv[1] = "or" -> Val(alts[pv[3]][ch[pv[3]]])
      ins0 == [i \in 1..Len(pn.ins) |-> Val(pn.ins[i])]
      ins == IF ins0 # <<>> /\ ins0[Len(ins0)] = NONEV THEN SubSeq(ins0, 1, Len(ins0) - 1) ELSE ins0
  IN GN(pn.op, ins, IF pn.at[1] = "c" THEN pn.at[2] ELSE IF pn.at[1] = "v" THEN 2 ELSE 0)
Instantiate ==
  /\ stage = "pattern" /\ pouts # <<>> /\ Reachable /\ UsesAllAlts
  /\ \E ch \in [1..Len(alts) -> 1..2], vm0 \in [{"x", "y"} -> VarVals], zv \in (IF "optvar" \in Features THEN VarVals \cup {NONEV} ELSE {NONEV}) :
       LET vm == [n \in {"x", "y", "z"} |-> IF n = "z" THEN zv ELSE vm0[n]] IN
       LET need == NeedAll(ch)
           order == SelectSeq([p \in 1..Len(pat) |-> p], LAMBDA p : p \in need)
           nm == [p \in 1..Len(pat) |-> IF p \in need THEN CHOOSE i \in 1..Len(order) : order[i] = p ELSE 0]
       IN /\ graph' = [i \in 1..Len(order) |-> InstNode(order[i], nm, vm, ch)]
          /\ OutputNodes[1] \in need /\ root' = nm[OutputNodes[1]]
  /\ gouts' = {} /\ stage' = "instance"
  /\ UNCHANGED <<pat, alts, pouts, mut, verdict>>
ReplaceIn(g, i, v) == [g EXCEPT !.ins[i] = v]
Mutate ==
  /\ stage = "instance"
  /\ \/ /\ mut' = "none" /\ UNCHANGED <<graph, gouts, root>>
     \/ \E k \in 1..Len(graph), op \in Ops :                      \* another operator of the same arity
          /\ op # graph[k].op /\ Arity(op) = Arity(graph[k].op) /\ NOuts(op) >= NOuts(graph[k].op)
          /\ graph' = [graph EXCEPT ![k].op = op] /\ mut' = "op" /\ UNCHANGED <<gouts, root>>
     \/ \E k \in 1..Len(graph), i \in 1..2, v \in {1, 2, 3, 4, 5, 6} \cup {OutV(m, 0) : m \in 1..Len(graph)} :
          /\ i <= Len(graph[k].ins) /\ v # graph[k].ins[i] /\ Producer(v) < k
          /\ graph' = [graph EXCEPT ![k] = ReplaceIn(@, i, v)] /\ mut' = "rewire" /\ UNCHANGED <<gouts, root>>
     \/ \E k \in 1..Len(graph), a \in {0, 1, 2} :
          /\ a # graph[k].a /\ graph' = [graph EXCEPT ![k].a = a] /\ mut' = "attr" /\ UNCHANGED <<gouts, root>>
     \/ \E k \in 1..Len(graph), a \in {0, 1, 2} :              \* an attribute no pattern mentions, with any value of "a"
          /\ graph' = [graph EXCEPT ![k] = [@ EXCEPT !.a = a, !.b = 1]] /\ mut' = "attr_b" /\ UNCHANGED <<gouts, root>>
     \/ \E k \in 1..Len(graph), j \in 0..1 :                     \* an extra consumer of a matched node's output
          /\ j < NOuts(graph[k].op) /\ (k # root \/ j = 1)   \* (not of the pattern output itself)
          /\ graph' = Append(graph, GN("U", <<OutV(k, j)>>, 0)) /\ mut' = "consumer" /\ UNCHANGED <<gouts, root>>
     \/ \E k \in 1..Len(graph), j \in 0..1 :                     \* another output of a matched node is a graph output
          /\ j < NOuts(graph[k].op) /\ (k # root \/ j = 1)
          /\ gouts' = {OutV(k, j)} /\ mut' = "graphout" /\ UNCHANGED <<graph, root>>
     \/ \E k \in 1..Len(graph) :
          /\ Len(graph[k].ins) = 2 /\ graph[k].ins[1] # graph[k].ins[2]
          /\ graph' = [graph EXCEPT ![k].ins = <<@[2], @[1]>>] /\ mut' = "swap" /\ UNCHANGED <<gouts, root>>
     \/ \E k \in 1..Len(graph) :
          /\ graph' = [graph EXCEPT ![k].ins = Append(@, 1)] /\ mut' = "extra_input" /\ UNCHANGED <<gouts, root>>
     \/ \E k \in 1..Len(graph) :
          /\ Len(graph[k].ins) = 2
          /\ graph' = [graph EXCEPT ![k].ins = <<@[1]>>] /\ mut' = "drop_input" /\ UNCHANGED <<gouts, root>>
  /\ stage' = "mutated"
  /\ UNCHANGED <<pat, alts, pouts, verdict>>
Evaluate ==
  /\ stage = "mutated"
  /\ LET impl == RunWith(Deviations)
         ideal == RunWith({})
         implK == RunWithK(Deviations, TRUE)
     IN verdict' = [decl |-> Matches, declB |-> DeclBindings, impl |-> impl, ideal |-> ideal,
                    why |-> {d \in Deviations : RunWith(Deviations \ {d}) # impl},
                    implK |-> implK.ok, idealK |-> RunWithK({}, TRUE).ok,
                    whyK |-> {d \in Deviations : RunWithK(Deviations \ {d}, TRUE).ok # implK.ok}]
  /\ stage' = "done"
  /\ UNCHANGED <<pat, alts, pouts, graph, gouts, root, mut>>
Next == AddPNode \/ AddOr \/ ChooseOutputs \/ Instantiate \/ Mutate \/ Evaluate
Spec == Init /\ [][Next]_vars

BOf(r) == [n \in PVarsOf |-> LET s == Lookup(r.b, n) IN IF s = {} THEN NONEV ELSE CHOOSE v \in s : TRUE]
\* the property, for the design and for the implementation model
Agrees(r) == /\ r.ok <=> verdict.decl
             /\ r.ok => BOf(r) \in verdict.declB
DesignOK == stage = "done" => (Agrees(verdict.ideal) /\ (verdict.idealK <=> MatchesKeep))
\* the committed-first OR is a documented limitation of the code: only a *false negative* is allowed by it
DeviationsExplain == stage = "done" => /\ (Agrees(verdict.impl) \/ verdict.why # {})
                                        /\ ((verdict.implK <=> MatchesKeep) \/ verdict.whyK # {})
Emit == stage = "done" => PrintT(<<"CASE", ToJson([pat |-> pat, alts |-> alts, pouts |-> pouts, graph |-> graph, gouts |-> gouts, root |-> root, mut |-> mut,
                                                    decl |-> verdict.decl, declB |-> verdict.declB, declC |-> MatchesCommuted,
                                                    declK |-> MatchesKeep, declCK |-> MatchesCommutedKeep, implK |-> verdict.implK, whyK |-> verdict.whyK,
                                                    impl |-> [ok |-> verdict.impl.ok, b |-> BOf(verdict.impl), ns |-> verdict.impl.ns],
                                                    why |-> verdict.why])>>)
SomeMatch == ~(stage = "done" /\ verdict.decl /\ mut # "none")
NoDevs == {}
\* "or_merge_drops" was real on the pinned tree and is fixed in /repo (fix: merging a successful OR alternative ...)
RealDevs == {"or_commits_first"}
AllFeatures == {"attr", "flags", "optional", "or"}
MultiFeatures == {"or", "multiout"}
MultiOnly == {"multiout", "multionly"}
MultiOr == {"or", "multiout", "multionly"}
BasicFeatures == {"or"}
SharedAttr == {"attr2"}
OptVar == {"optvar"}
UCOps == {"U", "C"}
AllOps == Ops
TwoOps == {"U", "C"}
ThreeOps == {"U", "C", "M"}
Vals3 == {1, 2, 3}
Vals2 == {1, 2}
=============================================================================
