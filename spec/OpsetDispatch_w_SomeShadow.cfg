SPECIFICATION Spec
CONSTANTS
  Deviations <- RealDevs
  MaxExtra = 2
  AttrModes <- ModesQuick
  VarNone = FALSE
  ReqVersions <- ReqQuick
INVARIANT SomeShadow
CHECK_DEADLOCK FALSE
