SPECIFICATION Spec
CONSTANTS
  Deviations <- RealDevs
  MaxExtra = 2
  AttrModes <- ModesQuick
  VarNone = FALSE
INVARIANT SomeShadow
CHECK_DEADLOCK FALSE
