SPECIFICATION Spec
CONSTANTS
  Deviations <- RealDevs
  Menu <- MenuAll
  VarMenu <- VarQuick
  VarVersions <- VarVersionsQuick
  HistMenu <- HistAll
  HistVersions <- HistVersionsQuick
  MultiMenu <- MultiQuick
  TripleMenu <- TripleQuick
  MaxItems = 2
  Sources <- AllVersions
  Targets <- AllVersions
  Emitting = TRUE
INVARIANT Explained
INVARIANT AdaptersWhereNeeded
CHECK_DEADLOCK FALSE
