SPECIFICATION MSpec
CONSTANTS
  Deviations <- AllDevs
  Families <- AllFamilies
  Wide = FALSE
  MaxSteps = 1
  InDts <- InDtsS
  InShapes <- InShapesS
INVARIANT NoMixedStep
CHECK_DEADLOCK FALSE
