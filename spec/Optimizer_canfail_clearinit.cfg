SPECIFICATION Spec
CONSTANTS
  Deviations <- RealDevs
  MaxNodes = 1
  Worlds <- VecWorld
  Rich = FALSE
  NumIter = 2
  EarlyStop = TRUE
  Sim = FALSE
  Fine = FALSE
  Mutant = "clear_output_init"
INVARIANT PropertyHolds
CHECK_DEADLOCK FALSE
