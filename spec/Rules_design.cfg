SPECIFICATION Spec
CONSTANTS
  Deviations <- NoDevs
  Families <- AllFamilies
  Menu = "quick"
INVARIANT Sound
INVARIANT NoFireOnUnknown
INVARIANT ImplHolds
CHECK_DEADLOCK FALSE
