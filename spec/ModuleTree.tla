----------------------------- MODULE ModuleTree -----------------------------
(* C18 (nn part): onnxscript.nn module trees and the names of their parameters.                  *)
(*                                                                                              *)
(* A behaviour CONSTRUCTS a module tree with the statements a user writes, in every order:       *)
(*   New(kind, name)        M(...) / ModuleList() / Sequential()          (an unattached object) *)
(*   SetAttr(p, attr, c)    p.attr = c         Module.__setattr__ -> c._set_name(attr) if unnamed*)
(*   Append(l, c)           l.append(c) / constructor list / extend: _register_child(str(i), c)  *)
(* with the three _set_name variants (Module: own name; ModuleList: prefixes every child with    *)
(* "<name>.<key>", recursively; Sequential: children keep their bare key) and the two            *)
(* _register_child variants transcribed from onnxscript/nn/_module_list.py, _sequential.py.      *)
(* Finish(policy) then TRACES root(op, x) (operator Call): Module.__call__ = push_module(name),  *)
(* realize own parameters (Parameter._realize: once, name = root builder's qualified name),      *)
(* forward, pop_module.  forward of a Module: x = 2x + w, then its children in registration      *)
(* order; a ModuleList child is iterated (whole / by slices / reversed / by index); a Sequential *)
(* child is called, or - policy "direct" - iterated like a list; policy sub: the children are    *)
(* called inside an If-branch subgraph (sub-builder with a copy of the scope stack).             *)
(* Property (InitOK, design level): the initializers are exactly  root.name "." k  for k in the   *)
(* keys of state_dict(), each once; the traced function uses every parameter's own tensor;       *)
(* building the tree into a second graph registers the same initializers again.                  *)
(* Deviations:                                                                                   *)
(*   sequential_child_direct   children of a Sequential are named by their bare key, so calling  *)
(*                             them outside Sequential.__call__ (for m in self.seq) loses the    *)
(*                             container's name; equal names silently overwrite each other        *)
(*   param_subgraph_scope      Parameter._realize qualifies with the ROOT builder's scope stack;  *)
(*                             a module first called inside a subgraph misses the scopes pushed  *)
(*                             on the sub-builder                                                *)
(*   realized_sticky           Parameter._realized is never reset: a second build registers none *)
(*   named_child_keeps_name    _register_child leaves a module that already has a name untouched; *)
(*                             only a LATER _set_name of the container renames it: an explicitly  *)
(*                             named module appended to a container that already has its name (or *)
(*                             to a root Sequential) is pushed under its old name, not its key    *)
EXTENDS Integers, Sequences, FiniteSets, TLC, Json

CONSTANTS Deviations, MaxObjs, MinObjs, MaxKids, ExplicitNames, NamedInContainers, Sharing, ListPolicies, SeqPolicies, SubPolicy
VARIABLES objs, hist, stage, out
vars == <<objs, hist, stage, out>>

AllDevs == {"sequential_child_direct", "param_subgraph_scope", "realized_sticky", "named_child_keeps_name"}
NoDevs == {}
Dev(d) == d \in Deviations
NONE == "<none>"
Attrs == {"a", "b"}
X0 == 1                               \* the traced function is evaluated at x = 1

\* pre: the module already had a name when a container registered it;  donor: a ModuleList whose children were handed
\* to a Sequential (Sequential(*self.stages)) and that forward() does not iterate itself
Obj(kind, name) == [kind |-> kind, name |-> name, kids |-> <<>>, par |-> 0, pre |-> FALSE, donor |-> FALSE]
RECURSIVE Inside(_, _)
Inside(os, c) == {c} \cup UNION {Inside(os, os[c].kids[j][2]) : j \in 1..Len(os[c].kids)}
N == Len(objs)
RECURSIVE Ancestors(_, _)
Ancestors(os, i) == IF os[i].par = 0 THEN {} ELSE {os[i].par} \cup Ancestors(os, os[i].par)
RECURSIVE DepthOf(_, _)
DepthOf(os, i) == IF os[i].par = 0 THEN 1 ELSE 1 + DepthOf(os, os[i].par)

-----------------------------------------------------------------------------
(* _set_name, by class *)
RECURSIVE SetName(_, _, _), SetKids(_, _, _, _, _)
SetKids(os, kids, j, kind, nm) ==      \* propagate to children j.. of a container named nm
  IF j > Len(kids) THEN os
  ELSE SetKids(SetName(os, kids[j][2], IF kind = "L" THEN nm \o "." \o kids[j][1] ELSE kids[j][1]), kids, j + 1, kind, nm)
SetName(os, i, nm) ==
  LET os1 == [os EXCEPT ![i].name = nm] IN
  IF os[i].kind = "M" THEN os1 ELSE SetKids(os1, os[i].kids, 1, os[i].kind, nm)
\* _register_child(key, module)
Register(os, l, key, c, adopt) ==
  LET named == IF os[c].name # NONE THEN os
               ELSE IF os[l].kind = "L" /\ os[l].name # NONE THEN SetName(os, c, os[l].name \o "." \o key)
               ELSE [os EXCEPT ![c].name = key]          \* object.__setattr__(module, "_name", key): no propagation
  IN [named EXCEPT ![l].kids = Append(@, <<key, c>>), ![c].par = IF adopt THEN l ELSE @, ![c].pre = @ \/ os[c].name # NONE]

-----------------------------------------------------------------------------
(* construction statements *)
New(kind, nm) ==
  /\ stage = "build" /\ N < MaxObjs
  /\ (kind # "M" => nm = NONE)
  /\ objs' = Append(objs, Obj(kind, nm))
  /\ hist' = Append(hist, <<"new", kind, nm, 0>>)
  /\ UNCHANGED <<stage, out>>
Free(c) == c # 1 /\ objs[c].par = 0
SetAttr(p, attr, c) ==
  /\ stage = "build" /\ objs[p].kind = "M" /\ Free(c) /\ p # c /\ Inside(objs, c) \cap (Ancestors(objs, p) \cup {p}) = {}
  /\ \A j \in 1..Len(objs[p].kids) : objs[p].kids[j][1] # attr
  /\ Len(objs[p].kids) < MaxKids
  /\ objs[c].name \in {NONE, attr}          \* an explicit name equals the attribute it is assigned to (DESIGN 2.4)
  /\ LET os1 == IF objs[c].name = NONE THEN SetName(objs, c, attr) ELSE objs
     IN objs' = [os1 EXCEPT ![p].kids = Append(@, <<attr, c>>), ![c].par = p]
  /\ hist' = Append(hist, <<"setattr", attr, "", p * 100 + c>>)
  /\ UNCHANGED <<stage, out>>
Append_(l, c) ==
  /\ stage = "build" /\ objs[l].kind \in {"L", "S"} /\ Free(c) /\ l # c /\ Inside(objs, c) \cap (Ancestors(objs, l) \cup {l}) = {}
  /\ ~objs[l].donor
  /\ Len(objs[l].kids) < MaxKids
  /\ (NamedInContainers \/ objs[c].name = NONE)     \* an explicit name of a container child differs from its positional key
  /\ ~(objs[l].kind = "S" /\ objs[c].kind = "L")      \* Sequential calls its children; a ModuleList is not callable
  /\ objs' = Register(objs, l, ToString(Len(objs[l].kids)), c, TRUE)
  /\ hist' = Append(hist, <<"append", "", "", l * 100 + c>>)
  /\ UNCHANGED <<stage, out>>
\* s = Sequential(*l): the children of a ModuleList (named by it or not yet) are registered in a new Sequential as well
RECURSIVE RegisterAll(_, _, _, _)
RegisterAll(os, s, kids, j) == IF j > Len(kids) THEN os ELSE RegisterAll(Register(os, s, ToString(j - 1), kids[j][2], FALSE), s, kids, j + 1)
Share(l, s) ==
  /\ Sharing /\ stage = "build" /\ objs[l].kind = "L" /\ objs[s].kind = "S" /\ Free(s) /\ objs[s].kids = <<>>
  /\ Len(objs[l].kids) > 0 /\ ~objs[l].donor /\ s \notin Inside(objs, l)
  /\ \A j \in 1..Len(objs[l].kids) : objs[objs[l].kids[j][2]].kind = "M"
  /\ objs' = [RegisterAll(objs, s, objs[l].kids, 1) EXCEPT ![l].donor = TRUE]
  /\ hist' = Append(hist, <<"share", "", "", l * 100 + s>>)
  /\ UNCHANGED <<stage, out>>

-----------------------------------------------------------------------------
(* state_dict(): keys by registration path *)
RECURSIVE Keys(_, _)
Keys(i, prefix) ==
  LET own == IF objs[i].kind = "M" THEN <<[k |-> prefix \o "w", p |-> i]>> ELSE <<>>
      RECURSIVE Sub(_)
      Sub(j) == IF j > Len(objs[i].kids) THEN <<>> ELSE Keys(objs[i].kids[j][2], prefix \o objs[i].kids[j][1] \o ".") \o Sub(j + 1)
  IN own \o Sub(1)

-----------------------------------------------------------------------------
(* tracing root(op, x) *)
RECURSIVE JoinDot(_)
JoinDot(s) == IF s = <<>> THEN "" ELSE IF Len(s) = 1 THEN s[1] ELSE s[1] \o "." \o JoinDot(Tail(s))
NonEmpty(s) == SelectSeq(s, LAMBDA n : n # "")
Qual(stack, nm) == IF NonEmpty(stack) = <<>> THEN nm ELSE JoinDot(NonEmpty(stack)) \o "." \o nm
\* trace state: inits: registrations <<name, param>> in order (impl), dinits (design), realized, acc: traced value with own tensors,
\* uses: parameters in use order (to evaluate what the graph computes when names were overwritten)
\* Four stacks are kept side by side: r* = the ROOT builder's stack, c* = the current (sub-)builder's stack;
\* *i = with the names the code pushes (module._name), *d = with the names the design pushes (dname).
PushS(st, nm, dn) == IF st.insub THEN [st EXCEPT !.ci = Append(@, nm), !.cd = Append(@, dn)]
                     ELSE [st EXCEPT !.ci = Append(@, nm), !.cd = Append(@, dn), !.ri = Append(@, nm), !.rd = Append(@, dn)]
Chop(q) == SubSeq(q, 1, Len(q) - 1)
PopS(st) == IF st.insub THEN [st EXCEPT !.ci = Chop(@), !.cd = Chop(@)]
            ELSE [st EXCEPT !.ci = Chop(@), !.cd = Chop(@), !.ri = Chop(@), !.rd = Chop(@)]
CodeNames == Dev("sequential_child_direct") \/ Dev("named_child_keeps_name")     \* push module._name as the code has it
ImplStack(st) == IF Dev("param_subgraph_scope")
                 THEN (IF CodeNames THEN st.ri ELSE st.rd)
                 ELSE (IF CodeNames THEN st.ci ELSE st.cd)
Realize(st, i) ==         \* Parameter._realize, once per parameter
  IF i \in st.realized THEN st
  ELSE [st EXCEPT !.realized = @ \cup {i},
                  !.inits = Append(@, [k |-> Qual(ImplStack(st), "w"), p |-> i]),
                  !.dinits = Append(@, [k |-> Qual(st.cd, "w"), p |-> i])]
Nm(i) == IF objs[i].name = NONE THEN "" ELSE objs[i].name

ListOrder(n, lp) == CASE lp = "rev" -> [j \in 1..n |-> n + 1 - j] [] OTHER -> [j \in 1..n |-> j]   \* iter / slices / index: same order
RECURSIVE Call(_, _, _, _), CallKids(_, _, _, _), IterList(_, _, _, _, _), CallSeqKids(_, _, _, _, _, _)
QKey(pre, key) == IF pre = "" THEN key ELSE pre \o "." \o key
\* pol = [lp, sp, sub]; dname: the name the DESIGN pushes for this call (a container child: its positional key, qualified
\* like a ModuleList qualifies it), Nm(i): the name the code pushes (module._name)
Call(i, dname, st, pol) ==
  LET s1 == PushS(st, Nm(i), dname)
      s2 == IF objs[i].kind = "M" THEN [Realize(s1, i) EXCEPT !.acc = 2 * @ + i, !.uses = Append(@, i)] ELSE s1
      s3 == IF objs[i].kind = "M"
            THEN (IF pol.sub = i /\ Len(objs[i].kids) > 0
                  THEN LET inner == CallKids(i, 1, [s2 EXCEPT !.insub = TRUE], pol)       \* children traced by a sub-builder
                       IN [inner EXCEPT !.insub = s2.insub, !.ci = s2.ci, !.cd = s2.cd]
                  ELSE CallKids(i, 1, s2, pol))
            ELSE CallSeqKids(i, 1, s2, pol, FALSE, "")                                    \* Sequential.forward
  IN PopS(s3)
\* one child c reached under the design name dn
Visit(c, dn, st, pol) ==
  CASE objs[c].kind = "M" -> Call(c, dn, st, pol)
    [] objs[c].kind = "L" -> IF objs[c].donor THEN st ELSE IterList(c, 1, dn, st, pol)
    [] objs[c].kind = "S" -> IF pol.sp = "call" THEN Call(c, dn, st, pol) ELSE CallSeqKids(c, 1, st, pol, TRUE, dn)
\* a Module's forward: children in registration order
CallKids(i, j, st, pol) ==
  IF j > Len(objs[i].kids) THEN st
  ELSE CallKids(i, j + 1, Visit(objs[i].kids[j][2], objs[i].kids[j][1], st, pol), pol)
\* for m in self.layers[...]: elements keep the names they were given (slices register them under new keys only)
IterList(l, j, dpre, st, pol) ==
  IF j > Len(objs[l].kids) THEN st
  ELSE LET kd == objs[l].kids[ListOrder(Len(objs[l].kids), pol.lp)[j]]
       IN IterList(l, j + 1, dpre, Visit(kd[2], QKey(dpre, kd[1]), st, pol), pol)
\* children of a Sequential: from Sequential.forward (direct = FALSE) or iterated by the parent (direct = TRUE, dpre = its name)
CallSeqKids(s, j, st, pol, direct, dpre) ==
  IF j > Len(objs[s].kids) THEN st
  ELSE LET c == objs[s].kids[j][2]
           dn == IF direct THEN QKey(dpre, objs[s].kids[j][1]) ELSE objs[s].kids[j][1]
       IN CallSeqKids(s, j + 1, Call(c, dn, st, pol), pol, direct, dpre)
St0 == [ri |-> <<>>, ci |-> <<>>, rd |-> <<>>, cd |-> <<>>, insub |-> FALSE, inits |-> <<>>, dinits |-> <<>>, realized |-> {}, acc |-> X0, uses |-> <<>>]

\* what the built graph computes: a use refers to its parameter BY NAME; a later registration under the same name
\* replaced the earlier tensor (graph.initializers[name] = self)
NameOfP(inits, p) == inits[CHOOSE j \in 1..Len(inits) : inits[j].p = p].k
Effective(inits, p) == LET nm == NameOfP(inits, p)
                           S == {j \in 1..Len(inits) : inits[j].k = nm}
                       IN inits[CHOOSE j \in S : \A m \in S : m <= j].p
RECURSIVE Fold(_, _, _)
Fold(uses, inits, x) == IF uses = <<>> THEN x ELSE Fold(Tail(uses), inits, 2 * x + Effective(inits, Head(uses)))

Reachable == \A i \in 2..N : objs[i].par # 0
Callable == \A i \in 1..N : objs[i].kind = "S" => Len(objs[i].kids) > 0
Depth == LET S == {DepthOf(objs, i) : i \in 1..N} IN CHOOSE d \in S : \A e \in S : e <= d
HasKind(k) == \E i \in 1..N : objs[i].kind = k
Policies == {[lp |-> lp, sp |-> sp, sub |-> sb] :
               lp \in (IF HasKind("L") THEN ListPolicies ELSE {"iter"}),
               sp \in (IF \E i \in 2..N : objs[i].kind = "S" THEN SeqPolicies ELSE {"call"}),
               sb \in {0} \cup (IF SubPolicy THEN {i \in 1..N : objs[i].kind = "M" /\ Len(objs[i].kids) > 0} ELSE {})}
SeqNames(s) == [j \in 1..Len(s) |-> s[j].k]
NoDupS(s) == Cardinality({s[j] : j \in 1..Len(s)}) = Len(s)
Result(pol) ==
  LET t == Call(1, Nm(1), St0, pol)
      differ == SeqNames(t.inits) # SeqNames(t.dinits)
      prefix == IF objs[1].name = NONE THEN "" ELSE objs[1].name \o "."
      keys == Keys(1, prefix)
      why == (IF differ
              THEN (IF pol.sp = "direct" /\ Dev("sequential_child_direct") THEN {"sequential_child_direct"} ELSE {})
                   \cup (IF pol.sub # 0 /\ Dev("param_subgraph_scope") THEN {"param_subgraph_scope"} ELSE {})
                   \cup (IF (\E i \in 1..N : objs[i].pre) /\ Dev("named_child_keeps_name") THEN {"named_child_keeps_name"} ELSE {})
              ELSE {})
  IN [hist |-> hist, pol |-> pol, rootname |-> objs[1].name, rootkind |-> objs[1].kind, depth |-> Depth,
      objs |-> [i \in 1..N |-> [kind |-> objs[i].kind, name |-> objs[i].name, donor |-> objs[i].donor, pre |-> objs[i].pre, keys |-> [j \in 1..Len(objs[i].kids) |-> objs[i].kids[j][1]],
                                 kids |-> [j \in 1..Len(objs[i].kids) |-> objs[i].kids[j][2]]]],
      keys |-> keys, inits |-> t.inits, dinits |-> t.dinits,
      value |-> Fold(t.uses, t.inits, X0), dvalue |-> t.acc,
      second |-> IF Dev("realized_sticky") THEN <<>> ELSE SeqNames(t.inits),
      balanced |-> t.ri = <<>> /\ t.ci = <<>>,
      why |-> why]
Finish(pol) ==
  /\ stage = "build" /\ N >= MinObjs /\ Reachable /\ Callable /\ Depth <= 4 /\ \E i \in 1..N : objs[i].kind = "M"
  /\ out' = Result(pol)
  /\ stage' = "done"
  /\ UNCHANGED <<objs, hist>>

Init == /\ objs \in {<<Obj("M", "root")>>, <<Obj("M", NONE)>>, <<Obj("S", NONE)>>}
        /\ hist = <<>> /\ stage = "build" /\ out = [why |-> {}]
Next == \/ \E k \in {"M", "L", "S"} : \E nm \in {NONE} \cup ExplicitNames : New(k, nm)
        \/ \E p \in 1..N : \E c \in 2..N : \E a \in Attrs : SetAttr(p, a, c)
        \/ \E l \in 1..N : \E c \in 2..N : Append_(l, c)
        \/ \E l \in 2..N : \E c \in 2..N : Share(l, c)
        \/ \E pol \in Policies : Finish(pol)
Spec == Init /\ [][Next]_vars

-----------------------------------------------------------------------------
Done == stage = "done"
SetOf(s) == {s[j] : j \in 1..Len(s)}
\* the property on the DESIGN (no deviations): names = root prefix + state_dict keys, each once, own tensors used
\* (a module handed to a second container has two keys: its parameter is registered once, under one of them)
InitOK(inits, value) == /\ NoDupS(SeqNames(inits))
                        /\ {inits[j].p : j \in 1..Len(inits)} = {out.keys[m].p : m \in 1..Len(out.keys)}
                        /\ Cardinality({inits[j].p : j \in 1..Len(inits)}) = Len(inits)
                        /\ \A j \in 1..Len(inits) : \E m \in 1..Len(out.keys) : out.keys[m] = inits[j]
                        /\ value = out.dvalue
DesignOK == Done => InitOK(out.dinits, out.dvalue) /\ out.balanced
\* parameters keep the name/tensor pairing of state_dict in the design
DesignPairs == Done => \A j \in 1..Len(out.dinits) : \E m \in 1..Len(out.keys) : out.keys[m] = out.dinits[j]
\* the implementation model departs only where a deviation says so
DeviationsExplain == Done => (~InitOK(out.inits, out.value) => out.why # {})
\* with no deviation the implementation model IS the design
ImplIsDesign == Done => out.inits = out.dinits /\ out.value = out.dvalue /\ out.second = SeqNames(out.dinits)
Report == Done => PrintT(<<"TREE", ToJson(out)>>)
\* witnesses (expected to be violated)
NeverDepth4 == ~(Done /\ out.depth = 4)
NeverOverwrite == ~(Done /\ out.value # out.dvalue)
NeverSubScope == ~(Done /\ "param_subgraph_scope" \in out.why)
=============================================================================
