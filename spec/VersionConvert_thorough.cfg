SPECIFICATION Spec
CONSTANTS
  Deviations <- RealDevs
  Menu <- MenuAll
  VarMenu <- VarThorough
  VarVersions <- AllVersions
  HistMenu <- HistAll
  HistVersions <- HistVersionsThorough
  MultiMenu <- MultiThorough
  TripleMenu <- TripleThorough
  MaxItems = 3
  Sources <- AllVersions
  Targets <- AllVersions
  Emitting = TRUE
INVARIANT Explained
INVARIANT AdaptersWhereNeeded
CHECK_DEADLOCK FALSE
