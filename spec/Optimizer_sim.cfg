SPECIFICATION Spec
CONSTANTS
  Deviations <- AllDevs
  MaxNodes = 4
  Worlds <- QuickWorlds
  Rich = TRUE
  NumIter = 2
  Sim = TRUE
  Fine = TRUE
  Mutant = "none"
INVARIANT PropertyHolds
INVARIANT Emit
CHECK_DEADLOCK FALSE
