SPECIFICATION Spec
CONSTANTS
  Deviations <- RealDevs
  MaxNodes = 4
  Worlds <- QuickWorlds
  Rich = TRUE
  NumIter = 2
  EarlyStop = TRUE
  Sim = TRUE
  Fine = TRUE
  Mutant = "none"
INVARIANT PropertyHolds
INVARIANT Emit
CHECK_DEADLOCK FALSE
