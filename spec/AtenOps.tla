------------------------------- MODULE AtenOps -------------------------------
(* C08: torch_lib operator implementations agree with PyTorch.                                   *)
(*                                                                                                *)
(* Three layers, all over the exact integer tensor kernel Tensor.tla:                             *)
(*   Aten(op, a)        - the SOURCE semantics: what the ATen operator `op` returns for the call  *)
(*                        `a` (structure, element type, shape, values), written from the PyTorch  *)
(*                        documentation / native_functions, with the operator's DOMAIN as the     *)
(*                        enabling condition of the Pick action (InDomain).                       *)
(*   Low(op, a, devs)   - the IMPLEMENTATION model: onnxscript/function_libs/torch_lib/ops/*.py   *)
(*                        transcribed statement by statement (trace-time Python branching on      *)
(*                        dtype / rank / argument kinds, then ONNX operators with the semantics   *)
(*                        of the ONNX operator text: Slice clamping, Reshape 0/-1, Gather         *)
(*                        negative indices, integer Div truncation, Mod with fmod=0/1, Squeeze    *)
(*                        refusing non-unit axes, ReduceX with empty axes, Clip min>max ...).     *)
(*                        Places where the code is known to depart from ATen are *named           *)
(*                        deviations*: the transcription follows the code when the id is in devs  *)
(*                        and the repaired code otherwise.  Operators without a transcription     *)
(*                        (float kernels, 1:1 wrappers) have Low = Aten.                          *)
(*   the registry       - which overloads exist and which element types each accepts is DATA of   *)
(*                        the real implementation (get_torchlib_ops() + op_signature), dumped by  *)
(*                        the harness and read here with JsonDeserialize(IOEnv.C08_REG).          *)
(*                                                                                                *)
(* A behaviour: Init chooses a registered overload, Pick chooses an argument tuple from the       *)
(* family's menu that lies in the operator's domain, Eval dispatches / traces / runs the model    *)
(* and evaluates the source semantics.  Every "done" state is one case of the property's          *)
(* quantifier and is printed as one JSON line; the harness replays it into the real function      *)
(* (exporter OpRecorder -> onnxruntime) and into torch.ops.aten eager.                            *)
(*                                                                                                *)
(* Values are small integers (also in f16/f32/f64 tensors) so that equality is exact; families    *)
(* whose kernels are genuinely floating point (softmax, normalisation, pooling, conv, mean, true  *)
(* division, transcendental unary) are specified in structure / element type / shape only         *)
(* (vals = FALSE) and their values are compared torch-vs-onnx with the tolerance of the dtype.    *)
EXTENDS Tensor, TLC, Json, IOUtils

CONSTANTS Deviations,     \* subset of AllDevs: what the implementation model may do
          Families,       \* families explored
          Wide            \* FALSE: quick menus, TRUE: thorough menus

VARIABLES stage, op, args, exp, impl, ideal, why
vars == <<stage, op, args, exp, impl, ideal, why>>

AllDevs == {"reduce_int_keeps_dtype", "all_any_uint8_bool", "squeeze_dim_non_unit", "reshape_zero_copies",
            "narrow_negative_start", "cat_empty_not_filtered", "chunk_count"}
NoDevs == {}

-----------------------------------------------------------------------------
(* the registry of the real implementation                                                       *)
Reg == JsonDeserialize(IOEnv.C08_REG)      \* op |-> [allowed |-> <<<<dtypes of param 1>>, ...>>, traced |-> BOOLEAN]
Registered(o) == o \in DOMAIN Reg
\* element type dt is admitted by the declared type constraint of the i-th parameter
AllowedAt(o, i, dt) == /\ i <= Len(Reg[o].allowed)
                       /\ \E j \in 1..Len(Reg[o].allowed[i]) : Reg[o].allowed[i][j] \in {dt, "*"}

-----------------------------------------------------------------------------
(* element types: bool < u8 < i32 < i64 < f16 < f32 < f64 (torch.promote_types is max here)      *)
DTs == <<"bool", "u8", "i32", "i64", "f16", "f32", "f64">>
Ord(dt) == CHOOSE i \in 1..7 : DTs[i] = dt
Promote(a, b) == IF Ord(a) >= Ord(b) THEN a ELSE b
IsFloat(dt) == dt \in {"f16", "f32", "f64"}
IsInt(dt) == dt \in {"u8", "i32", "i64"}
Cat(dt) == IF dt = "bool" THEN 0 ELSE IF IsInt(dt) THEN 1 ELSE 2
Wrap(dt, v) == IF dt = "u8" THEN v % 256 ELSE IF dt = "bool" THEN (IF v = 0 THEN 0 ELSE 1) ELSE v
CastT(t, dt) == Map1(t, dt, LAMBDA v : Wrap(dt, v))
\* torch.result_type over dimensioned tensors D, zero-dim tensors Z and python scalars W (sets of dtypes;
\* a python int counts as i64, a float as f32 (default dtype), a bool as bool)
RECURSIVE PromoteAll(_)
PromoteAll(S) == IF S = {} THEN "none" ELSE LET d == CHOOSE d \in S : TRUE r == PromoteAll(S \ {d})
                                            IN IF r = "none" THEN d ELSE Promote(d, r)
CatN(dt) == IF dt = "none" THEN -1 ELSE Cat(dt)
Combine(hi, lo) == IF hi = "none" THEN lo ELSE IF lo = "none" THEN hi
                   ELSE IF CatN(lo) > CatN(hi) THEN lo ELSE hi
ResultType(D, Z, W) == Combine(PromoteAll(D), Combine(PromoteAll(Z), PromoteAll(W)))

-----------------------------------------------------------------------------
(* arguments of a call, in ATen calling form.  One homogeneous record type:                      *)
(*   k = "t" tensor (s = dtype) | "i" int | "f" float holding the integer v | "b" bool (v 0/1)   *)
(*       "il" int list (data) | "n" None | "s" string (s) | "dt" ScalarType (s)                  *)
(*       "tl" start of a Tensor[] argument made of the next v entries                            *)
(*   nm = "" positional, otherwise the keyword name                                              *)
Arg(k, s, shape, data, v) == [k |-> k, nm |-> "", s |-> s, shape |-> shape, data |-> data, v |-> v]
TA(t) == Arg("t", t.dt, t.shape, t.data, 0)
IA(v) == Arg("i", "", <<>>, <<>>, v)
FA(v) == Arg("f", "", <<>>, <<>>, v)
BA(b) == Arg("b", "", <<>>, <<>>, IF b THEN 1 ELSE 0)
LA(l) == Arg("il", "", <<>>, l, 0)
NA == Arg("n", "", <<>>, <<>>, 0)
SA(s) == Arg("s", s, <<>>, <<>>, 0)
DA(dt) == Arg("dt", dt, <<>>, <<>>, 0)
TL(n) == Arg("tl", "", <<>>, <<>>, n)
Absent == Arg("absent", "", <<>>, <<>>, 0)
KW(name, x) == [x EXCEPT !.nm = name]
TOf(x) == T(x.s, x.shape, x.data)
IsNum(x) == x.k \in {"i", "f", "b"}
NumDt(x) == IF x.k = "i" THEN "i64" ELSE IF x.k = "f" THEN "f32" ELSE "bool"
NumCat(x) == IF x.k = "b" THEN 0 ELSE IF x.k = "i" THEN 1 ELSE 2
Posn(a) == SelectSeq(a, LAMBDA x : x.nm = "")
P(a, i) == IF i <= Len(Posn(a)) THEN Posn(a)[i] ELSE Absent
Kw(a, name) == IF \E i \in 1..Len(a) : a[i].nm = name THEN a[CHOOSE i \in 1..Len(a) : a[i].nm = name] ELSE Absent
Given(x) == x.k \notin {"absent", "n"}
IntOr(x, d) == IF Given(x) THEN x.v ELSE d
BoolOr(x, d) == IF Given(x) THEN x.v = 1 ELSE d
\* the tensors of a Tensor[] argument that starts at positional index i
TList(a, i) == LET q == Posn(a) IN [j \in 1..q[i].v |-> TOf(q[i + j])]
AfterTL(a, i, j) == LET q == Posn(a) IN IF i + q[i].v + j <= Len(q) THEN q[i + q[i].v + j] ELSE Absent

(* results *)
One(t) == [st |-> "one", ts |-> <<t>>, vals |-> TRUE]
Struct(dt, shape) == [st |-> "one", ts |-> <<T(dt, shape, <<>>)>>, vals |-> FALSE]
Tup(ts) == [st |-> "tuple", ts |-> ts, vals |-> TRUE]
TupStruct(ts) == [st |-> "tuple", ts |-> ts, vals |-> FALSE]
Lst(ts) == [st |-> "list", ts |-> ts, vals |-> TRUE]
Refused == [st |-> "err", ts |-> <<>>, vals |-> FALSE]
OneOrErr(t) == IF IsErr(t) THEN Refused ELSE One(t)
LstOrErr(ts) == IF \E i \in 1..Len(ts) : IsErr(ts[i]) THEN Refused ELSE Lst(ts)
SameRes(x, y) == /\ x.st = y.st /\ Len(x.ts) = Len(y.ts)
                 /\ \A i \in 1..Len(x.ts) : /\ x.ts[i].dt = y.ts[i].dt /\ x.ts[i].shape = y.ts[i].shape
                                            /\ (x.vals /\ y.vals => x.ts[i].data = y.ts[i].data)

-----------------------------------------------------------------------------
(* input tensors: element type x shape x value pattern                                           *)
Base1(k) == ((k * 3) % 7) - 3            \* 0 3 -1 2 -2 1 -3 0 ...
Base2(k) == ((k * 5 + 1) % 9) - 4        \* 2 -2 3 -1 4 0 -4 1 ...
NZ(v) == IF v >= 0 THEN v + 1 ELSE v     \* never zero
Val(dt, p, k) ==
  CASE dt = "bool" -> (IF p = 1 THEN k % 2 ELSE IF p = 2 THEN (k \div 2) % 2 ELSE 1)
    [] dt = "u8" -> (IF p = 1 THEN Base1(k) + 3 ELSE IF p = 2 THEN (IF k % 3 = 0 THEN 250 + (k % 5) ELSE Base2(k) + 4)
                     ELSE IF p = 3 THEN AbsI(NZ(Base1(k))) ELSE (k * 3) % 4)
    [] OTHER -> (IF p = 1 THEN Base1(k) ELSE IF p = 2 THEN Base2(k) ELSE IF p = 3 THEN NZ(Base1(k)) ELSE (k * 3) % 4)
Mk(dt, shape, p) == T(dt, shape, [k \in 1..Numel(shape) |-> Val(dt, p, k)])

ShapesQ == {<<>>, <<0>>, <<1>>, <<3>>, <<2, 3>>, <<1, 3>>, <<2, 1>>, <<0, 2>>, <<2, 0>>, <<2, 1, 3>>, <<2, 2, 2>>, <<1, 2, 0>>}
ShapesW == ShapesQ \cup {<<4>>, <<5>>, <<3, 3>>, <<1, 1>>, <<3, 1, 2>>, <<1, 1, 1>>, <<2, 3, 2>>, <<0, 0>>, <<2, 1, 2, 2>>, <<1, 2, 3, 1>>, <<2, 0, 1, 2>>}
Shapes == IF Wide THEN ShapesW ELSE ShapesQ
\* pairs for broadcasting
PairsQ == {<<<<>>, <<>>>>, <<<<3>>, <<>>>>, <<<<>>, <<3>>>>, <<<<2, 3>>, <<3>>>>, <<<<3>>, <<2, 3>>>>, <<<<2, 1>>, <<1, 3>>>>,
           <<<<0>>, <<>>>>, <<<<0>>, <<1>>>>, <<<<2, 0>>, <<1>>>>, <<<<2, 1, 3>>, <<2, 1>>>>, <<<<1>>, <<2, 2, 2>>>>,
           <<<<2, 3>>, <<2, 3>>>>, <<<<1, 0>>, <<3, 1>>>>}
Pairs == IF Wide THEN {<<x, y>> \in Shapes \X Shapes : BroadcastShape(x, y) # NOSHAPE} ELSE PairsQ
AllDts == {"bool", "u8", "i32", "i64", "f16", "f32", "f64"}
NumDts == AllDts \ {"bool"}
FloatDts == {"f16", "f32", "f64"}
DimsOf(r) == (-r)..(r - 1)
NormDim(d, r) == IF d < 0 THEN d + r ELSE d
\* dims valid for a rank-r tensor in ATen (a 0-d tensor is treated as 1-d: dims -1, 0)
DimOK(d, r) == IF r = 0 THEN d \in {-1, 0} ELSE d \in DimsOf(r)
ND(d, r) == IF r = 0 THEN 0 ELSE NormDim(d, r)

-----------------------------------------------------------------------------
(* ===== family "binary": elementwise binary incl. alpha, rounding_mode, comparison, bitwise ===== *)
RECURSIVE NatBit(_, _, _)
NatBit(f, a, b) == IF a = 0 /\ b = 0 THEN 0
                   ELSE LET x == a % 2 y == b % 2
                            z == IF f = "and" THEN x * y ELSE IF f = "or" THEN Max2(x, y) ELSE (x + y) % 2
                        IN z + 2 * NatBit(f, a \div 2, b \div 2)
\* two's complement on 16 bits is enough for the value range used here
BitOp(f, dt, x, y) == IF dt = "bool" THEN NatBit(f, x, y)
                      ELSE LET r == NatBit(f, x % 65536, y % 65536) IN
                           IF dt = "u8" THEN r % 256 ELSE IF r >= 32768 THEN r - 65536 ELSE r
RECURSIVE IPow(_, _)
IPow(x, n) == IF n <= 0 THEN 1 ELSE x * IPow(x, n - 1)
BinV(f, dt, x, y) ==
  CASE f = "add" -> x + y  [] f = "sub" -> x - y  [] f = "mul" -> x * y
    [] f = "max" -> Max2(x, y)  [] f = "min" -> Min2(x, y)
    [] f = "floordiv" -> FloorDiv(x, y)  [] f = "truncdiv" -> TruncDiv(x, y)
    [] f = "rem" -> PyMod(x, y)  [] f = "fmod" -> CMod(x, y)  [] f = "pow" -> IPow(x, y)
    [] f \in {"and", "or", "xor"} -> BitOp(f, dt, x, y)
    [] f = "shl" -> x * IPow(2, y)  [] f = "shr" -> FloorDiv(x, IPow(2, y))
    [] f = "eq" -> IF x = y THEN 1 ELSE 0  [] f = "ne" -> IF x # y THEN 1 ELSE 0
    [] f = "lt" -> IF x < y THEN 1 ELSE 0  [] f = "le" -> IF x <= y THEN 1 ELSE 0
    [] f = "gt" -> IF x > y THEN 1 ELSE 0  [] f = "ge" -> IF x >= y THEN 1 ELSE 0
    [] f = "land" -> IF x # 0 /\ y # 0 THEN 1 ELSE 0  [] f = "lor" -> IF x # 0 \/ y # 0 THEN 1 ELSE 0
    [] f = "lxor" -> IF (x # 0) # (y # 0) THEN 1 ELSE 0
CmpF == {"eq", "ne", "lt", "le", "gt", "ge", "land", "lor", "lxor"}
DivF == {"floordiv", "truncdiv", "rem", "fmod", "truediv"}

\* op -> elementwise function
BinFun(o, a) ==
  CASE o \in {"aten::add.Tensor", "aten::add.Scalar"} -> "add"
    [] o \in {"aten::sub.Tensor", "aten::sub.Scalar"} -> "sub"
    [] o \in {"aten::mul.Tensor"} -> "mul"
    [] o = "aten::maximum" -> "max"  [] o = "aten::minimum" -> "min"
    [] o \in {"aten::div.Tensor_mode", "aten::div.Scalar_mode"} ->
          (IF Kw(a, "rounding_mode").k = "s" THEN (IF Kw(a, "rounding_mode").s = "floor" THEN "floordiv" ELSE "truncdiv") ELSE "truediv")
    [] o \in {"aten::div.Tensor", "aten::div.Scalar"} -> "truediv"
    [] o = "aten::floor_divide" -> "floordiv"
    [] o \in {"aten::remainder.Tensor", "aten::remainder.Scalar"} -> "rem"
    [] o \in {"aten::fmod.Tensor", "aten::fmod.Scalar"} -> "fmod"
    [] o \in {"aten::pow.Tensor_Tensor", "aten::pow.Tensor_Scalar"} -> "pow"
    [] o \in {"aten::bitwise_and.Tensor", "aten::bitwise_and.Scalar"} -> "and"
    [] o \in {"aten::bitwise_or.Tensor", "aten::bitwise_or.Scalar"} -> "or"
    [] o \in {"aten::bitwise_xor.Tensor", "aten::bitwise_xor.Scalar"} -> "xor"
    [] o \in {"aten::bitwise_left_shift.Tensor", "aten::__lshift__.Scalar"} -> "shl"
    [] o \in {"aten::bitwise_right_shift.Tensor", "aten::__rshift__.Scalar"} -> "shr"
    [] o \in {"aten::eq.Tensor", "aten::eq.Scalar"} -> "eq"  [] o \in {"aten::ne.Tensor", "aten::ne.Scalar"} -> "ne"
    [] o \in {"aten::lt.Tensor", "aten::lt.Scalar"} -> "lt"  [] o \in {"aten::le.Tensor", "aten::le.Scalar"} -> "le"
    [] o \in {"aten::gt.Tensor", "aten::gt.Scalar"} -> "gt"  [] o \in {"aten::ge.Tensor", "aten::ge.Scalar"} -> "ge"
    [] o = "aten::logical_and" -> "land"  [] o = "aten::logical_or" -> "lor"  [] o = "aten::logical_xor" -> "lxor"
BinTensorOps == {"aten::add.Tensor", "aten::sub.Tensor", "aten::mul.Tensor", "aten::maximum", "aten::minimum",
                 "aten::div.Tensor_mode", "aten::div.Tensor", "aten::floor_divide", "aten::remainder.Tensor", "aten::fmod.Tensor",
                 "aten::pow.Tensor_Tensor", "aten::bitwise_and.Tensor", "aten::bitwise_or.Tensor", "aten::bitwise_xor.Tensor",
                 "aten::bitwise_left_shift.Tensor", "aten::bitwise_right_shift.Tensor",
                 "aten::eq.Tensor", "aten::ne.Tensor", "aten::lt.Tensor", "aten::le.Tensor", "aten::gt.Tensor", "aten::ge.Tensor",
                 "aten::logical_and", "aten::logical_or", "aten::logical_xor"}
BinScalarOps == {"aten::add.Scalar", "aten::sub.Scalar", "aten::div.Scalar_mode", "aten::div.Scalar", "aten::remainder.Scalar", "aten::fmod.Scalar",
                 "aten::pow.Tensor_Scalar", "aten::bitwise_and.Scalar", "aten::bitwise_or.Scalar", "aten::bitwise_xor.Scalar",
                 "aten::__lshift__.Scalar", "aten::__rshift__.Scalar",
                 "aten::eq.Scalar", "aten::ne.Scalar", "aten::lt.Scalar", "aten::le.Scalar", "aten::gt.Scalar", "aten::ge.Scalar"}
BinOps == BinTensorOps \cup BinScalarOps
\* ops that also accept a python scalar in the Tensor overload (FX graphs contain aten.add.Tensor(x, 2))
ScalarInTensorOverload == {"aten::add.Tensor", "aten::sub.Tensor", "aten::mul.Tensor", "aten::div.Tensor_mode", "aten::div.Tensor"}
HasAlpha(o) == o \in {"aten::add.Tensor", "aten::sub.Tensor", "aten::add.Scalar", "aten::sub.Scalar"}

\* the second operand as a tensor of the first operand's element type
OtherT(self, o) == IF o.k = "t" THEN TOf(o) ELSE Scalar(self.dt, Wrap(self.dt, o.v))
AllNZ(t) == \A k \in 1..Len(t.data) : t.data[k] # 0
AllGE0(t) == \A k \in 1..Len(t.data) : t.data[k] >= 0

BinDom(o, a) ==
  LET self == TOf(P(a, 1)) o2 == P(a, 2) other == OtherT(self, o2) f == BinFun(o, a) dt == self.dt
      alpha == Kw(a, "alpha")
  IN /\ AllowedAt(o, 1, dt)
     /\ o2.k = "t" => (o2.s = dt /\ AllowedAt(o, 2, dt))
     /\ BroadcastShape(self.shape, other.shape) # NOSHAPE
     \* python scalars: category not above the tensor's (the exporter's type promotion pass guarantees it);
     \* non-negative against unsigned tensors
     /\ IsNum(o2) => (NumCat(o2) <= Cat(dt) /\ (dt = "u8" => o2.v >= 0) /\ (dt = "bool" => o2.k = "b"))
     /\ Given(alpha) => (NumCat(alpha) <= Cat(dt) /\ (dt = "u8" => alpha.v >= 0) /\ dt # "bool")
     /\ f = "sub" => dt # "bool"
     /\ f \in DivF => (dt # "bool" /\ AllNZ(other))
     /\ f = "pow" => (dt # "bool" /\ AllGE0(other))
     /\ f \in {"and", "or", "xor"} => ~IsFloat(dt)
     /\ f \in {"shl", "shr"} => (IsInt(dt) /\ AllGE0(other) /\ \A k \in 1..Len(other.data) : other.data[k] <= 3)
     /\ f = "shr" => dt # "u8" \/ TRUE

BinAten(o, a) ==
  LET self == TOf(P(a, 1)) other == OtherT(self, P(a, 2)) f == BinFun(o, a) dt == self.dt
      alpha == IntOr(Kw(a, "alpha"), 1)
      odt == IF f \in CmpF THEN "bool" ELSE IF f = "truediv" THEN (IF IsFloat(dt) THEN dt ELSE "f32") ELSE dt
  IN IF f = "truediv" THEN Struct(odt, BroadcastShape(self.shape, other.shape))
     ELSE One(Map2(self, other, odt, LAMBDA x, y : Wrap(odt, BinV(f, dt, x, IF HasAlpha(o) THEN alpha * y ELSE y))))

ScalarsFor(dt) == IF dt = "bool" THEN {BA(TRUE), BA(FALSE)}
                  ELSE IF IsInt(dt) THEN {IA(2), IA(0)} \cup (IF dt = "u8" THEN {IA(3)} ELSE {IA(-3)})
                  ELSE {IA(2), IA(-3), FA(2), FA(0)}
NZScalarsFor(dt) == {s \in ScalarsFor(dt) : s.v # 0}
AlphasFor(dt) == IF dt = "bool" THEN {} ELSE IF IsInt(dt) THEN {IA(2)} \cup (IF dt = "u8" THEN {} ELSE {IA(-1)})
                 ELSE {IA(2), FA(-1)}
\* second-operand pattern: divisors never zero, exponents / shift counts small and non-negative
OtherPat(f) == IF f \in DivF THEN 3 ELSE IF f \in {"pow", "shl", "shr"} THEN 4 ELSE 2
ModesFor(o) == IF o \in {"aten::div.Tensor_mode", "aten::div.Scalar_mode"}
               THEN {<<KW("rounding_mode", SA("floor"))>>, <<KW("rounding_mode", SA("trunc"))>>, <<KW("rounding_mode", NA)>>}
               ELSE {<<>>}
BinMenu(o) ==
  LET f0 == BinFun(o, <<>>) IN
  UNION {
    (IF o \in BinTensorOps
     THEN {<<TA(Mk(dt, pr[1], 1)), TA(Mk(dt, pr[2], OtherPat(BinFun(o, m))))>> \o m \o al
              : pr \in Pairs, al \in {<<>>} \cup (IF HasAlpha(o) THEN {<<KW("alpha", x)>> : x \in AlphasFor(dt)} ELSE {})}
     ELSE {})
    \cup
    (IF o \in BinScalarOps \cup ScalarInTensorOverload
     THEN UNION {{<<TA(Mk(dt, sh, 1)), s>> \o m \o al
              : s \in (IF BinFun(o, m) \in DivF THEN NZScalarsFor(dt) ELSE ScalarsFor(dt)),
                al \in {<<>>} \cup (IF HasAlpha(o) /\ sh \in {<<3>>, <<2, 3>>} THEN {<<KW("alpha", x)>> : x \in AlphasFor(dt)} ELSE {})}
              : sh \in Shapes}
     ELSE {})
    : dt \in AllDts, m \in ModesFor(o)}

-----------------------------------------------------------------------------
(* ===== family "unary" ===== *)
UnV(f, dt, x) ==
  CASE f = "abs" -> AbsI(x)  [] f = "neg" -> -x  [] f = "sign" -> (IF x > 0 THEN 1 ELSE IF x < 0 THEN -1 ELSE 0)
    [] f = "relu" -> Max2(x, 0)  [] f = "lnot" -> (IF x = 0 THEN 1 ELSE 0)
    [] f = "bnot" -> (IF dt = "bool" THEN 1 - x ELSE -x - 1)
    [] f = "id" -> x
    [] f = "false" -> 0  [] f = "true" -> 1
UnFun(o) ==
  CASE o = "aten::abs" -> "abs"  [] o = "aten::neg" -> "neg"  [] o = "aten::sign" -> "sign"  [] o = "aten::relu" -> "relu"
    [] o = "aten::logical_not" -> "lnot"  [] o = "aten::bitwise_not" -> "bnot"
    [] o \in {"aten::ceil", "aten::floor", "aten::round", "aten::trunc", "aten::clone", "aten::alias", "aten::detach",
              "aten::contiguous", "aten::lift_fresh_copy", "aten::resolve_conj", "aten::resolve_neg", "aten::conj"} -> "id"
    [] o \in {"aten::isnan", "aten::isinf", "aten::isneginf", "aten::isposinf"} -> "false"
    [] o = "aten::isfinite" -> "true"
    [] OTHER -> "float"
UnExact == {"aten::abs", "aten::neg", "aten::sign", "aten::relu", "aten::logical_not", "aten::bitwise_not",
            "aten::ceil", "aten::floor", "aten::round", "aten::trunc", "aten::clone", "aten::alias", "aten::detach",
            "aten::contiguous", "aten::lift_fresh_copy", "aten::resolve_conj", "aten::resolve_neg", "aten::conj",
            "aten::isnan", "aten::isinf", "aten::isneginf", "aten::isposinf", "aten::isfinite"}
UnFloat == {"aten::exp", "aten::log", "aten::sqrt", "aten::rsqrt", "aten::reciprocal", "aten::sin", "aten::cos", "aten::tanh",
            "aten::sigmoid", "aten::erf", "aten::gelu", "aten::silu", "aten::elu", "aten::leaky_relu", "aten::hardswish",
            "aten::hardsigmoid", "aten::softplus", "aten::log1p", "aten::expm1", "aten::exp2", "aten::log2", "aten::log10",
            "aten::atan", "aten::sinh", "aten::cosh", "aten::mish", "aten::selu", "aten::celu", "aten::relu6", "aten::log_sigmoid",
            "aten::tan", "aten::asinh", "aten::frac", "aten::deg2rad", "aten::rad2deg", "aten::logit"}
UnOps == UnExact \cup UnFloat
UnDom(o, a) ==
  LET dt == P(a, 1).s f == UnFun(o) IN
  /\ AllowedAt(o, 1, dt)
  /\ f \in {"neg", "sign"} => dt # "bool"
  /\ f = "abs" => dt # "bool"
  /\ f = "relu" => dt # "bool"
  /\ f = "bnot" => ~IsFloat(dt)
  /\ f = "float" => IsFloat(dt)
  /\ o \in {"aten::isneginf", "aten::isposinf"} => TRUE
UnAten(o, a) ==
  LET self == TOf(P(a, 1)) f == UnFun(o) dt == self.dt
      odt == IF f \in {"lnot", "false", "true"} THEN "bool" ELSE dt
  IN IF f = "float" THEN Struct(dt, self.shape)
     ELSE One(Map1(self, odt, LAMBDA x : Wrap(odt, UnV(f, dt, x))))
UnMenu(o) == {<<TA(Mk(dt, sh, p))>> : dt \in AllDts, sh \in Shapes, p \in (IF o \in UnFloat THEN {3} ELSE {1})}

-----------------------------------------------------------------------------
(* ===== family "select": where / masked_fill / clamp ===== *)
SelOps == {"aten::where.self", "aten::where.ScalarOther", "aten::where.ScalarSelf", "aten::where.Scalar",
           "aten::masked_fill.Scalar", "aten::masked_fill.Tensor",
           "aten::clamp", "aten::clamp.Tensor", "aten::clamp_min", "aten::clamp_max", "aten::clamp_min.Tensor", "aten::clamp_max.Tensor"}
Map3(c, x, y, dt, F(_, _, _)) ==
  LET s1 == BroadcastShape(c.shape, x.shape) IN
  IF s1 = NOSHAPE THEN ERR
  ELSE LET bs == BroadcastShape(s1, y.shape) IN
       IF bs = NOSHAPE THEN ERR
       ELSE LET c2 == BroadcastTo(c, bs) x2 == BroadcastTo(x, bs) y2 == BroadcastTo(y, bs)
            IN T(dt, bs, [k \in 1..Len(c2.data) |-> F(c2.data[k], x2.data[k], y2.data[k])])
NumT(x, dt) == IF x.k = "t" THEN TOf(x) ELSE Scalar(dt, Wrap(dt, x.v))
IsWhere(o) == o \in {"aten::where.self", "aten::where.ScalarOther", "aten::where.ScalarSelf", "aten::where.Scalar"}
IsClamp(o) == o \in {"aten::clamp", "aten::clamp.Tensor", "aten::clamp_min", "aten::clamp_max", "aten::clamp_min.Tensor", "aten::clamp_max.Tensor"}
\* (lo, hi) of a clamp call: Absent when not given
ClampLo(o, a) == IF o \in {"aten::clamp", "aten::clamp.Tensor", "aten::clamp_min", "aten::clamp_min.Tensor"} THEN P(a, 2) ELSE Absent
ClampHi(o, a) == IF o \in {"aten::clamp", "aten::clamp.Tensor"} THEN P(a, 3)
                 ELSE IF o \in {"aten::clamp_max", "aten::clamp_max.Tensor"} THEN P(a, 2) ELSE Absent
WhereDt(a) == \* result type of where: tensors dominate scalars of the same or a lower category
  LET x == P(a, 2) y == P(a, 3) IN
  IF x.k = "t" /\ y.k = "t" THEN x.s
  ELSE IF x.k = "t" THEN x.s ELSE IF y.k = "t" THEN y.s
  ELSE Promote(NumDt(x), NumDt(y))
SelDom(o, a) ==
  IF IsWhere(o) THEN
     LET c == P(a, 1) x == P(a, 2) y == P(a, 3) dt == WhereDt(a) IN
     /\ c.s = "bool" /\ AllowedAt(o, 2, dt)
     /\ x.k = "t" /\ y.k = "t" => x.s = y.s
     /\ IsNum(x) /\ y.k = "t" => (NumCat(x) <= Cat(dt) /\ (dt = "u8" => x.v >= 0) /\ (dt = "bool" => x.k = "b"))
     /\ IsNum(y) /\ x.k = "t" => (NumCat(y) <= Cat(dt) /\ (dt = "u8" => y.v >= 0) /\ (dt = "bool" => y.k = "b"))
     /\ ~IsErr(Map3(TOf(c), NumT(x, dt), NumT(y, dt), dt, LAMBDA p, q, r : q))
  ELSE IF IsClamp(o) THEN
     LET self == TOf(P(a, 1)) lo == ClampLo(o, a) hi == ClampHi(o, a) dt == self.dt IN
     /\ AllowedAt(o, 1, dt) /\ dt # "bool"
     /\ Given(lo) \/ Given(hi)
     /\ \A b \in {lo, hi} : /\ b.k = "t" => (b.s = dt /\ BroadcastShape(self.shape, b.shape) = self.shape)
                            /\ IsNum(b) => (NumCat(b) <= Cat(dt) /\ b.k # "b" /\ (dt = "u8" => b.v >= 0))
  ELSE \* masked_fill
     LET self == TOf(P(a, 1)) m == P(a, 2) v == P(a, 3) dt == self.dt IN
     /\ AllowedAt(o, 1, dt) /\ m.s = "bool"
     /\ BroadcastShape(self.shape, m.shape) = self.shape
     /\ v.k = "t" => (v.shape = <<>> /\ v.s = dt)
     /\ IsNum(v) => (NumCat(v) <= Cat(dt) /\ (dt = "u8" => v.v >= 0) /\ (dt = "bool" => v.k = "b"))
SelAten(o, a) ==
  IF IsWhere(o) THEN
     LET dt == WhereDt(a) IN
     One(Map3(TOf(P(a, 1)), NumT(P(a, 2), dt), NumT(P(a, 3), dt), dt, LAMBDA c, x, y : IF c = 1 THEN x ELSE y))
  ELSE IF IsClamp(o) THEN
     LET self == TOf(P(a, 1)) lo == ClampLo(o, a) hi == ClampHi(o, a) dt == self.dt
         a1 == IF Given(lo) THEN Map2(self, NumT(lo, dt), dt, LAMBDA x, l : Max2(x, l)) ELSE self
         a2 == IF Given(hi) THEN Map2(a1, NumT(hi, dt), dt, LAMBDA x, h : Min2(x, h)) ELSE a1
     IN One(a2)
  ELSE LET self == TOf(P(a, 1)) dt == self.dt IN
       One(Map3(TOf(P(a, 2)), NumT(P(a, 3), dt), self, dt, LAMBDA c, v, x : IF c = 1 THEN v ELSE x))
BoundsFor(dt) == (IF dt = "u8" THEN {IA(1), IA(4)} ELSE {IA(-1), IA(2)}) \cup (IF IsFloat(dt) THEN {FA(1)} ELSE {})
SelMenu(o) ==
  UNION {
    CASE o = "aten::where.self" ->
           UNION {{<<TA(Mk("bool", c, 1)), TA(Mk(dt, pr[1], 1)), TA(Mk(dt, pr[2], 2))>> : c \in {<<>>, <<3>>, <<2, 1>>, pr[1]}} : pr \in Pairs}
      [] o = "aten::where.ScalarOther" ->
           {<<TA(Mk("bool", pr[1], 1)), TA(Mk(dt, pr[2], 1)), s>> : pr \in Pairs, s \in ScalarsFor(dt)}
      [] o = "aten::where.ScalarSelf" ->
           {<<TA(Mk("bool", pr[1], 1)), s, TA(Mk(dt, pr[2], 1))>> : pr \in Pairs, s \in ScalarsFor(dt)}
      [] o = "aten::where.Scalar" ->
           {<<TA(Mk("bool", sh, 1)), s1, s2>> : sh \in Shapes, s1 \in {IA(2), FA(3), BA(TRUE)}, s2 \in {IA(-1), FA(0), BA(FALSE)}}
      [] o = "aten::masked_fill.Scalar" ->
           {<<TA(Mk(dt, pr[1], 1)), TA(Mk("bool", pr[2], 1)), s>> : pr \in Pairs, s \in ScalarsFor(dt)}
      [] o = "aten::masked_fill.Tensor" ->
           {<<TA(Mk(dt, pr[1], 1)), TA(Mk("bool", pr[2], 1)), TA(Scalar(dt, 2))>> : pr \in Pairs}
      [] o = "aten::clamp" ->
           {<<TA(Mk(dt, sh, 1)), lo, hi>> : sh \in Shapes, lo \in BoundsFor(dt) \cup {NA}, hi \in BoundsFor(dt) \cup {NA}}
           \cup {<<TA(Mk(dt, sh, 1)), lo>> : sh \in {<<3>>, <<2, 3>>}, lo \in BoundsFor(dt)}
      [] o = "aten::clamp.Tensor" ->
           UNION {{<<TA(Mk(dt, pr[1], 1)), lo, hi>> : lo \in {NA, TA(Mk(dt, pr[2], 2))}, hi \in {NA, TA(Mk(dt, pr[2], 1)), TA(Scalar(dt, 1))}} : pr \in Pairs}
      [] o \in {"aten::clamp_min", "aten::clamp_max"} ->
           {<<TA(Mk(dt, sh, 1)), b>> : sh \in Shapes, b \in BoundsFor(dt)}
      [] o \in {"aten::clamp_min.Tensor", "aten::clamp_max.Tensor"} ->
           {<<TA(Mk(dt, pr[1], 1)), TA(Mk(dt, pr[2], 2))>> : pr \in Pairs}
    : dt \in AllDts}

-----------------------------------------------------------------------------
(* ===== family "reduce" ===== *)
RedOps == {"aten::sum", "aten::sum.dim_IntList", "aten::amax", "aten::amin", "aten::any", "aten::any.dim", "aten::any.dims",
           "aten::all", "aten::all.dim", "aten::all.dims", "aten::prod", "aten::prod.dim_int", "aten::max", "aten::min",
           "aten::max.dim", "aten::min.dim", "aten::argmax", "aten::argmin", "aten::mean", "aten::mean.dim", "aten::cumsum",
           "aten::logsumexp"}
RedKind(o) ==
  CASE o \in {"aten::sum", "aten::sum.dim_IntList", "aten::mean", "aten::mean.dim", "aten::logsumexp"} -> "sum"
    [] o \in {"aten::amax", "aten::max", "aten::max.dim", "aten::argmax"} -> "max"
    [] o \in {"aten::amin", "aten::min", "aten::min.dim", "aten::argmin"} -> "min"
    [] o \in {"aten::any", "aten::any.dim", "aten::any.dims"} -> "any"
    [] o \in {"aten::all", "aten::all.dim", "aten::all.dims"} -> "all"
    [] o \in {"aten::prod", "aten::prod.dim_int"} -> "prod"
    [] OTHER -> "cumsum"
\* the dims argument as a set of normalised axes; "all" when the call reduces everything
RedDimArg(o, a) ==
  CASE o \in {"aten::sum", "aten::prod", "aten::max", "aten::min", "aten::any", "aten::all", "aten::mean"} -> Absent
    [] OTHER -> P(a, 2)
RedAxes(o, a) ==
  LET r == Len(P(a, 1).shape) d == RedDimArg(o, a) IN
  IF ~Given(d) THEN 0..(r - 1)
  ELSE IF d.k = "i" THEN (IF r = 0 THEN {} ELSE {ND(d.v, r)})
  ELSE IF d.data = <<>> THEN 0..(r - 1)
  ELSE IF r = 0 THEN {} ELSE {ND(d.data[j], r) : j \in 1..Len(d.data)}
RedKeep(o, a) == IF o \in {"aten::sum", "aten::prod", "aten::max", "aten::min", "aten::any", "aten::all", "aten::mean"} THEN FALSE
                 ELSE BoolOr(P(a, 3), FALSE)
RedDtype(a) == Kw(a, "dtype")
RedDom(o, a) ==
  LET self == TOf(P(a, 1)) r == Rank(self) d == RedDimArg(o, a) dt == self.dt k == RedKind(o) axes == RedAxes(o, a) IN
  /\ AllowedAt(o, 1, dt)
  /\ Given(d) /\ d.k = "i" => DimOK(d.v, r)
  /\ Given(d) /\ d.k = "il" => (/\ \A j \in 1..Len(d.data) : DimOK(d.data[j], r)
                                /\ Cardinality({ND(d.data[j], r) : j \in 1..Len(d.data)}) = Len(d.data))
  \* max/min/argmax over an empty slice is an error in ATen
  /\ k \in {"max", "min"} => \A ax \in axes : self.shape[ax + 1] # 0
  /\ k \in {"max", "min"} /\ r > 0 /\ axes = {} => TRUE
  /\ o \in {"aten::max", "aten::min", "aten::argmax", "aten::argmin"} => Numel(self.shape) # 0
  /\ o \in {"aten::argmax", "aten::argmin", "aten::max.dim", "aten::min.dim"} => dt # "bool" \/ TRUE
  /\ o \in {"aten::mean", "aten::mean.dim", "aten::logsumexp"} => IsFloat(dt)
  /\ Given(RedDtype(a)) /\ RedDtype(a).k = "dt" => Cat(RedDtype(a).s) >= 1
FoldFor(k, dt, t, axes, keep) ==
  CASE k = "sum" -> Reduce(t, axes, keep, LAMBDA x, y : x + y, 0)
    [] k = "prod" -> Reduce(t, axes, keep, LAMBDA x, y : x * y, 1)
    [] k = "max" -> Reduce(t, axes, keep, LAMBDA x, y : Max2(x, y), -100000)
    [] k = "min" -> Reduce(t, axes, keep, LAMBDA x, y : Min2(x, y), 100000)
    [] k = "any" -> Reduce(t, axes, keep, LAMBDA x, y : IF x # 0 \/ y # 0 THEN 1 ELSE 0, 0)
    [] k = "all" -> Reduce(t, axes, keep, LAMBDA x, y : IF x # 0 /\ y # 0 THEN 1 ELSE 0, 1)
\* index of the first extreme element along axis ax (0-based), as a tensor of the reduced shape
ArgExt(t, ax, keep, isMax) ==
  LET r == Rank(t)
      kshape == [i \in 1..r |-> IF i = ax + 1 THEN 1 ELSE t.shape[i]]
      Line(idx) == [j \in 1..t.shape[ax + 1] |-> At(t, [idx EXCEPT ![ax + 1] = j - 1])]
      Best(l) == CHOOSE j \in 1..Len(l) : /\ \A m \in 1..Len(l) : IF isMax THEN l[m] <= l[j] ELSE l[m] >= l[j]
                                          /\ \A m \in 1..(j - 1) : l[m] # l[j]
      kept == FromFn("i64", kshape, LAMBDA idx : Best(Line(idx)) - 1)
  IN IF keep THEN kept ELSE T("i64", RemoveAt(t.shape, ax + 1), kept.data)
CumSumT(t, ax) ==
  FromFn(t.dt, t.shape, LAMBDA idx : SeqSum([j \in 1..(idx[ax + 1] + 1) |-> At(t, [idx EXCEPT ![ax + 1] = j - 1])]))
RedAten(o, a) ==
  LET self == TOf(P(a, 1)) r == Rank(self) dt == self.dt k == RedKind(o) axes == RedAxes(o, a) keep == RedKeep(o, a)
      dta == RedDtype(a)
      \* integer (and bool) sums / products accumulate and return int64 unless dtype= is given
      accdt == IF Given(dta) /\ dta.k = "dt" THEN dta.s ELSE IF Cat(dt) <= 1 THEN "i64" ELSE dt
      outshape == IF keep THEN [i \in 1..r |-> IF (i - 1) \in axes THEN 1 ELSE self.shape[i]]
                  ELSE SelectSeq([i \in 1..r |-> IF (i - 1) \in axes THEN -7 ELSE self.shape[i]], LAMBDA x : x # -7)
  IN CASE o \in {"aten::mean", "aten::mean.dim", "aten::logsumexp"} ->
            Struct(IF Given(dta) /\ dta.k = "dt" THEN dta.s ELSE dt, outshape)
       [] o \in {"aten::sum", "aten::sum.dim_IntList", "aten::prod", "aten::prod.dim_int"} ->
            One(CastT(FoldFor(k, accdt, T(accdt, self.shape, self.data), axes, keep), accdt))
       [] o \in {"aten::amax", "aten::amin", "aten::max", "aten::min"} -> One(FoldFor(k, dt, self, axes, keep))
       [] k \in {"any", "all"} ->      \* uint8 in, uint8 out; everything else bool
            LET odt == IF dt = "u8" THEN "u8" ELSE "bool" res == FoldFor(k, dt, self, axes, keep) IN One(T(odt, res.shape, res.data))
       [] o \in {"aten::max.dim", "aten::min.dim"} ->
            IF r = 0 THEN Tup(<<self, Scalar("i64", 0)>>)
            ELSE Tup(<<FoldFor(k, dt, self, axes, keep), ArgExt(self, ND(P(a, 2).v, r), keep, k = "max")>>)
       [] o \in {"aten::argmax", "aten::argmin"} ->
            IF ~Given(P(a, 2)) THEN
                 LET flat == T(dt, <<Numel(self.shape)>>, self.data) res == ArgExt(flat, 0, FALSE, k = "max") IN
                 One(IF keep THEN T("i64", [i \in 1..r |-> 1], res.data) ELSE res)
            ELSE IF r = 0 THEN One(Scalar("i64", 0))
            ELSE One(ArgExt(self, ND(P(a, 2).v, r), keep, k = "max"))
       [] o = "aten::cumsum" ->
            LET t2 == T(accdt, self.shape, self.data) IN
            One(IF r = 0 THEN t2 ELSE CastT(CumSumT(t2, ND(P(a, 2).v, r)), accdt))
RedDimLists(r) == IF r = 0 THEN {<<>>, <<0>>, <<-1>>}
                  ELSE {<<>>} \cup {<<d>> : d \in DimsOf(r)} \cup (IF r >= 2 THEN {<<0, -1>>, <<-1, 0>>, <<1, 0>>} ELSE {})
                       \cup (IF r >= 3 THEN {<<0, 1, 2>>, <<-2, 2>>} ELSE {})
RedShapes == {<<>>, <<1>>, <<3>>, <<2, 3>>, <<2, 1>>, <<0, 2>>, <<2, 0>>, <<2, 1, 3>>, <<2, 2, 2>>} \cup (IF Wide THEN Shapes ELSE {})
DtypeKws(o, dt) == {<<>>} \cup (IF IsInt(dt) THEN {<<KW("dtype", DA("i32"))>>, <<KW("dtype", NA)>>} ELSE IF IsFloat(dt) THEN {<<KW("dtype", DA("f64"))>>} ELSE {})
RedMenu(o) ==
  UNION {
    CASE o \in {"aten::sum", "aten::prod", "aten::mean"} -> {<<TA(Mk(dt, sh, 1))>> \o kw : kw \in DtypeKws(o, dt)}
      [] o \in {"aten::max", "aten::min", "aten::any", "aten::all"} -> {<<TA(Mk(dt, sh, 1))>>}
      [] o \in {"aten::sum.dim_IntList", "aten::mean.dim"} ->
           {<<TA(Mk(dt, sh, 1)), d>> \o kd \o kw : d \in {LA(l) : l \in RedDimLists(Len(sh))} \cup {NA},
                                                  kd \in {<<>>, <<BA(TRUE)>>, <<BA(FALSE)>>}, kw \in DtypeKws(o, dt)}
      [] o \in {"aten::amax", "aten::amin", "aten::logsumexp"} ->
           {<<TA(Mk(dt, sh, 1)), LA(l)>> \o kd : l \in RedDimLists(Len(sh)), kd \in {<<>>, <<BA(TRUE)>>}}
           \cup (IF o # "aten::logsumexp" THEN {<<TA(Mk(dt, sh, 1))>>} ELSE {})
      [] o \in {"aten::any.dims", "aten::all.dims"} ->
           {<<TA(Mk(dt, sh, 1)), d>> \o kd : d \in {LA(l) : l \in RedDimLists(Len(sh))} \cup {NA}, kd \in {<<>>, <<BA(TRUE)>>}}
           \cup {<<TA(Mk(dt, sh, 1))>>}
      [] o \in {"aten::any.dim", "aten::all.dim", "aten::max.dim", "aten::min.dim", "aten::prod.dim_int"} ->
           {<<TA(Mk(dt, sh, 1)), IA(d)>> \o kd \o kw : d \in (IF sh = <<>> THEN {0, -1} ELSE DimsOf(Len(sh))), kd \in {<<>>, <<BA(TRUE)>>},
                                                     kw \in (IF o = "aten::prod.dim_int" THEN DtypeKws(o, dt) ELSE {<<>>})}
      [] o \in {"aten::argmax", "aten::argmin"} ->
           {<<TA(Mk(dt, sh, 1))>>, <<TA(Mk(dt, sh, 1)), NA, BA(TRUE)>>}
           \cup {<<TA(Mk(dt, sh, 1)), IA(d)>> \o kd : d \in (IF sh = <<>> THEN {0, -1} ELSE DimsOf(Len(sh))), kd \in {<<>>, <<BA(TRUE)>>}}
      [] o = "aten::cumsum" ->
           {<<TA(Mk(dt, sh, 1)), IA(d)>> \o kw : d \in (IF sh = <<>> THEN {0, -1} ELSE DimsOf(Len(sh))), kw \in DtypeKws(o, dt)}
    : dt \in AllDts, sh \in RedShapes}

-----------------------------------------------------------------------------
(* ===== dispatch over families ===== *)
FamilyOps(f) == CASE f = "binary" -> BinOps [] f = "unary" -> UnOps [] f = "select" -> SelOps [] f = "reduce" -> RedOps
                  [] OTHER -> {}
FamilyOf(o) == CHOOSE f \in {"binary", "unary", "select", "reduce"} : o \in FamilyOps(f)
AllFamilies == {"binary", "unary", "select", "reduce"}
Menu(o) == LET f == FamilyOf(o) IN
           CASE f = "binary" -> BinMenu(o) [] f = "unary" -> UnMenu(o) [] f = "select" -> SelMenu(o) [] f = "reduce" -> RedMenu(o)
InDomain(o, a) == LET f == FamilyOf(o) IN
           CASE f = "binary" -> BinDom(o, a) [] f = "unary" -> UnDom(o, a) [] f = "select" -> SelDom(o, a) [] f = "reduce" -> RedDom(o, a)
Aten(o, a) == LET f == FamilyOf(o) IN
           CASE f = "binary" -> BinAten(o, a) [] f = "unary" -> UnAten(o, a) [] f = "select" -> SelAten(o, a) [] f = "reduce" -> RedAten(o, a)
Low(o, a, devs) == Aten(o, a)

-----------------------------------------------------------------------------
(* ===== the state machine ===== *)
NoRes == Refused
Ops == {o \in UNION {FamilyOps(f) : f \in Families} : Registered(o)}
Init == /\ stage = "init" /\ op \in Ops /\ args = <<>> /\ exp = NoRes /\ impl = NoRes /\ ideal = NoRes /\ why = {}
\* Pick: an argument tuple of the family's menu that lies in the operator's domain
Pick == /\ stage = "init"
        /\ \E a \in Menu(op) : /\ InDomain(op, a) /\ args' = a
        /\ stage' = "picked"
        /\ UNCHANGED <<op, exp, impl, ideal, why>>
\* Eval: source semantics, implementation model (with and without deviations), attribution
Eval == /\ stage = "picked"
        /\ stage' = "done"
        /\ exp' = Aten(op, args)
        /\ impl' = Low(op, args, Deviations)
        /\ ideal' = Low(op, args, {})
        /\ why' = {d \in Deviations : ~SameRes(Low(op, args, Deviations \ {d}), Low(op, args, Deviations))}
        /\ UNCHANGED <<op, args>>
Next == Pick \/ Eval
Spec == Init /\ [][Next]_vars

\* the source semantics is well-formed: defined on its domain, data length = numel, values fit the dtype
ValOK(dt, v) == CASE dt = "bool" -> v \in {0, 1} [] dt = "u8" -> v >= 0 /\ v <= 255 [] OTHER -> TRUE
AtenWellFormed == stage = "done" =>
   /\ exp.st # "err"
   /\ \A i \in 1..Len(exp.ts) : /\ exp.ts[i].dt \in AllDts /\ ValidShape(exp.ts[i].shape)
                                /\ exp.vals => /\ Len(exp.ts[i].data) = Numel(exp.ts[i].shape)
                                               /\ \A k \in 1..Len(exp.ts[i].data) : ValOK(exp.ts[i].dt, exp.ts[i].data[k])
\* THE PROPERTY at design level: the repaired lowering computes the ATen result
DesignOK == stage = "done" => SameRes(ideal, exp)
\* every departure of the implementation model from ATen is explained by a named deviation
DeviationsExplain == stage = "done" => (SameRes(impl, exp) \/ why # {})
CaseRec == [op |-> op, args |-> args, exp |-> exp, impl |-> impl, why |-> why]
EmitCases == stage = "done" => PrintT("C08CASE " \o ToJson(CaseRec))
\* vacuity witnesses (each must be VIOLATED)
NoCase == stage # "done"
=============================================================================
