------------------------------- MODULE AtenOps -------------------------------
(* C08: torch_lib operator implementations agree with PyTorch.                                   *)
(*                                                                                                *)
(* Three layers, all over the exact integer tensor kernel Tensor.tla:                             *)
(*   Aten(op, a)        - the SOURCE semantics: what the ATen operator `op` returns for the call  *)
(*                        `a` (structure, element type, shape, values), written from the PyTorch  *)
(*                        documentation / native_functions, with the operator's DOMAIN as the     *)
(*                        enabling condition of the Pick action (InDomain).                       *)
(*   Low(op, a, devs)   - the IMPLEMENTATION model: onnxscript/function_libs/torch_lib/ops/*.py   *)
(*                        transcribed statement by statement (trace-time Python branching on      *)
(*                        dtype / rank / argument kinds, then ONNX operators with the semantics   *)
(*                        of the ONNX operator text: Slice clamping, Reshape 0/-1, Gather         *)
(*                        negative indices, integer Div truncation, Mod with fmod=0/1, Squeeze    *)
(*                        refusing non-unit axes, ReduceX with empty axes, Clip min>max ...).     *)
(*                        Places where the code is known to depart from ATen are *named           *)
(*                        deviations*: the transcription follows the code when the id is in devs  *)
(*                        and the repaired code otherwise.  Operators without a transcription     *)
(*                        (float kernels, 1:1 wrappers) have Low = Aten.                          *)
(*   the registry       - which overloads exist and which element types each accepts is DATA of   *)
(*                        the real implementation (get_torchlib_ops() + op_signature), dumped by  *)
(*                        the harness and read here with JsonDeserialize(IOEnv.C08_REG).          *)
(*                                                                                                *)
(* A behaviour: Init chooses a registered overload, Pick chooses an argument tuple from the       *)
(* family's menu that lies in the operator's domain, Eval dispatches / traces / runs the model    *)
(* and evaluates the source semantics.  Every "done" state is one case of the property's          *)
(* quantifier and is printed as one JSON line; the harness replays it into the real function      *)
(* (exporter OpRecorder -> onnxruntime) and into torch.ops.aten eager.                            *)
(*                                                                                                *)
(* Values are small integers (also in f16/f32/f64 tensors) so that equality is exact; families    *)
(* whose kernels are genuinely floating point (softmax, normalisation, pooling, conv, mean, true  *)
(* division, transcendental unary) are specified in structure / element type / shape only         *)
(* (vals = FALSE) and their values are compared torch-vs-onnx with the tolerance of the dtype.    *)
EXTENDS Tensor, TLC, Json, IOUtils

CONSTANTS Deviations,     \* subset of AllDevs: what the implementation model may do
          Families,       \* families explored
          Wide            \* FALSE: quick menus, TRUE: thorough menus

VARIABLES stage, op, args, exp, impl, ideal, why
vars == <<stage, op, args, exp, impl, ideal, why>>

(* Named deviations: places where the transcribed code departs from ATen (guards and effects are in the Low* operators). *)
AllDevs == {
  "alpha_scalar_other_type",     \* add/sub.Tensor(x, python scalar, alpha != 1): other*alpha becomes an INT64/FLOAT constant -> Add/Sub type error unless x has that type
  "reduce_int_keeps_dtype",      \* sum, sum.dim_IntList, prod.dim_int, cumsum on uint8/int32 keep the input type (ATen: int64)
  "all_any_uint8_bool",          \* any/all(.dim/.dims) on uint8 return BOOL (ATen: uint8)
  "any_empty_true",              \* any* over an empty reduction: ReduceMax of nothing -> INT64 lowest -> True (ATen: False)
  "any_all_dims_empty_list",     \* any.dims/all.dims(dim=[]): `if not dim` reduces everything (ATen: nothing)
  "any_all_dims_scalar_input",   \* any.dims/all.dims on a 0-d tensor with dims given, keepdim=False: Squeeze(0-d, dims) is refused
  "argmax_none_keepdim_shape",   \* argmax/argmin(dim=None, keepdim=True): shape [1] (ATen: [1]*rank)
  "amax_dim_required",           \* amax/amin(x): scripted function has no default for `dim` -> tracing fails
  "amax_scalar_dims",            \* amax/amin(0-d, [0] / [-1]): ReduceMax over an axis of a rank-0 input -> invalid model
  "mean_dtype_ignored",          \* mean(x, dtype=d): scripted aten_mean has no dtype parameter, result keeps the input type
  "mean_dim_none",               \* mean.dim(x, None): Reshape(None, [-1]) -> invalid graph
  "prod_dim_scalar_input",       \* prod.dim_int(0-d, 0 / -1): ReduceProd(axes=[dim]) on rank 0 -> invalid model
  "squeeze_dim_non_unit",        \* squeeze.dim(x, d) with x.shape[d] != 1: Squeeze refuses (ATen: no-op)
  "reshape_zero_copies",         \* reshape / view_copy with a 0 in the target: ONNX Reshape (allowzero=0) copies the input dim
  "broadcast_to_minus_one",      \* broadcast_to(x, [.., -1]): -1 is handed to Expand untranslated (aten_expand translates it)
  "flatten_zero_size",           \* flatten.using_ints on a zero-size tensor (general path): Reshape(head ++ [-1] ++ tail) with 0 dims copied / ambiguous
  "narrow_negative_start",       \* narrow(x, d, start<0, n): Slice(start, start+n) without wrapping start
  "cat_legacy_empty",            \* cat with 1-D empty tensors: the unfiltered list goes to Concat; all-empty trips an assert
  "chunk_single_not_list",       \* chunk(x, 1): returns a tensor instead of a one-element list
  "chunk_count",                 \* chunk(x, c) when ATen returns fewer than c chunks: Split(num_outputs=c) cannot produce that
  "split_empty_dim",             \* split.Tensor on an axis of extent 0: SplitToSequence yields no tensor (ATen: one empty tensor)
  "roll_onnx_edges",             \* roll: dim = -1 with shift >= 0 (Shape(start=-1, end=0) is empty) and zero-size inputs (end bound = Size(self))
  "flip_scalar",                 \* flip(0-d, [0] / [-1]): Slice on a rank-0 tensor
  "pad_scalar",                  \* constant_pad_nd(0-d, []): Pad on a rank-0 tensor
  "arange_mixed_scalars",        \* arange.start(int, float) / (float, int) without dtype: Range over an INT64 and a FLOAT constant
  "batch_norm_non_f32",          \* _native_batch_norm_legit_no_training on f16/f64: Div(1.0, Sqrt(var + eps)) mixes FLOAT with the input type
  "layer_norm_stats_float32",    \* native_layer_norm on f64: mean / rstd come back as float32 (stash_type default)
  "unflatten_zero_size",         \* unflatten.int on zero-size input with -1: Reshape(allowzero=1) target holds -1 and 0 (outside the ONNX text)
  "any_dim_scalar_input"}        \* any.dim/all.dim on a 0-d tensor: after constant folding the exported model fails shape inference (end to end only, AtenModule.tla)
NoDevs == {}

-----------------------------------------------------------------------------
(* the registry of the real implementation                                                       *)
Reg == JsonDeserialize(IOEnv.C08_REG)      \* op |-> [allowed |-> <<<<dtypes of param 1>>, ...>>, traced |-> BOOLEAN]
Registered(o) == o \in DOMAIN Reg
\* element type dt is admitted by the declared type constraint of the i-th parameter
AllowedAt(o, i, dt) == /\ i <= Len(Reg[o].allowed)
                       /\ \E j \in 1..Len(Reg[o].allowed[i]) : Reg[o].allowed[i][j] \in {dt, "*"}

-----------------------------------------------------------------------------
(* element types: bool < u8 < i32 < i64 < f16 < f32 < f64 (torch.promote_types is max here)      *)
DTs == <<"bool", "u8", "i32", "i64", "f16", "f32", "f64">>
Ord(dt) == CHOOSE i \in 1..7 : DTs[i] = dt
Promote(a, b) == IF Ord(a) >= Ord(b) THEN a ELSE b
IsFloat(dt) == dt \in {"f16", "f32", "f64"}
IsInt(dt) == dt \in {"u8", "i32", "i64"}
Cat(dt) == IF dt = "bool" THEN 0 ELSE IF IsInt(dt) THEN 1 ELSE 2
Wrap(dt, v) == IF dt = "u8" THEN v % 256 ELSE IF dt = "bool" THEN (IF v = 0 THEN 0 ELSE 1) ELSE v
CastT(t, dt) == Map1(t, dt, LAMBDA v : Wrap(dt, v))
\* torch.result_type over dimensioned tensors D, zero-dim tensors Z and python scalars W (sets of dtypes;
\* a python int counts as i64, a float as f32 (default dtype), a bool as bool)
RECURSIVE PromoteAll(_)
PromoteAll(S) == IF S = {} THEN "none" ELSE LET d == CHOOSE d \in S : TRUE r == PromoteAll(S \ {d})
                                            IN IF r = "none" THEN d ELSE Promote(d, r)
CatN(dt) == IF dt = "none" THEN -1 ELSE Cat(dt)
Combine(hi, lo) == IF hi = "none" THEN lo ELSE IF lo = "none" THEN hi
                   ELSE IF CatN(lo) > CatN(hi) THEN lo ELSE hi
ResultType(D, Z, W) == Combine(PromoteAll(D), Combine(PromoteAll(Z), PromoteAll(W)))

-----------------------------------------------------------------------------
(* arguments of a call, in ATen calling form.  One homogeneous record type:                      *)
(*   k = "t" tensor (s = dtype) | "i" int | "f" float holding the integer v | "b" bool (v 0/1)   *)
(*       "il" int list (data) | "n" None | "s" string (s) | "dt" ScalarType (s)                  *)
(*       "tl" start of a Tensor[] argument made of the next v entries                            *)
(*   nm = "" positional, otherwise the keyword name                                              *)
Arg(k, s, shape, data, v) == [k |-> k, nm |-> "", s |-> s, shape |-> shape, data |-> data, v |-> v]
TA(t) == Arg("t", t.dt, t.shape, t.data, 0)
IA(v) == Arg("i", "", <<>>, <<>>, v)
FA(v) == Arg("f", "", <<>>, <<>>, v)
BA(b) == Arg("b", "", <<>>, <<>>, IF b THEN 1 ELSE 0)
LA(l) == Arg("il", "", <<>>, l, 0)
NA == Arg("n", "", <<>>, <<>>, 0)
SA(s) == Arg("s", s, <<>>, <<>>, 0)
DA(dt) == Arg("dt", dt, <<>>, <<>>, 0)
TL(n) == Arg("tl", "", <<>>, <<>>, n)
Absent == Arg("absent", "", <<>>, <<>>, 0)
KW(name, x) == [x EXCEPT !.nm = name]
TOf(x) == T(x.s, x.shape, x.data)
IsNum(x) == x.k \in {"i", "f", "b"}
NumDt(x) == IF x.k = "i" THEN "i64" ELSE IF x.k = "f" THEN "f32" ELSE "bool"
NumCat(x) == IF x.k = "b" THEN 0 ELSE IF x.k = "i" THEN 1 ELSE 2
Posn(a) == SelectSeq(a, LAMBDA x : x.nm = "")
P(a, i) == IF i <= Len(Posn(a)) THEN Posn(a)[i] ELSE Absent
Kw(a, name) == IF \E i \in 1..Len(a) : a[i].nm = name THEN a[CHOOSE i \in 1..Len(a) : a[i].nm = name] ELSE Absent
Given(x) == x.k \notin {"absent", "n"}
IntOr(x, d) == IF Given(x) THEN x.v ELSE d
BoolOr(x, d) == IF Given(x) THEN x.v = 1 ELSE d
\* the tensors of a Tensor[] argument that starts at positional index i
TList(a, i) == LET q == Posn(a) IN [j \in 1..q[i].v |-> TOf(q[i + j])]
AfterTL(a, i, j) == LET q == Posn(a) IN IF i + q[i].v + j <= Len(q) THEN q[i + q[i].v + j] ELSE Absent

(* results *)
One(t) == [st |-> "one", ts |-> <<t>>, vals |-> TRUE]
Struct(dt, shape) == [st |-> "one", ts |-> <<T(dt, shape, <<>>)>>, vals |-> FALSE]
Tup(ts) == [st |-> "tuple", ts |-> ts, vals |-> TRUE]
TupStruct(ts) == [st |-> "tuple", ts |-> ts, vals |-> FALSE]
Lst(ts) == [st |-> "list", ts |-> ts, vals |-> TRUE]
Refused == [st |-> "err", ts |-> <<>>, vals |-> FALSE]
\* the emitted graph is outside the ONNX operator text (e.g. Reshape with -1 and 0 under allowzero=1): runtimes refuse it or answer anything
Undefined == [st |-> "undef", ts |-> <<>>, vals |-> FALSE]
OneOrErr(t) == IF IsErr(t) THEN Refused ELSE One(t)
LstOrErr(ts) == IF \E i \in 1..Len(ts) : IsErr(ts[i]) THEN Refused ELSE Lst(ts)
SameRes(x, y) == /\ x.st = y.st /\ Len(x.ts) = Len(y.ts)
                 /\ \A i \in 1..Len(x.ts) : /\ x.ts[i].dt = y.ts[i].dt /\ x.ts[i].shape = y.ts[i].shape
                                            /\ (x.vals /\ y.vals => x.ts[i].data = y.ts[i].data)

-----------------------------------------------------------------------------
(* input tensors: element type x shape x value pattern                                           *)
Base1(k) == ((k * 3) % 7) - 3            \* 0 3 -1 2 -2 1 -3 0 ...
Base2(k) == ((k * 5 + 1) % 9) - 4        \* 2 -2 3 -1 4 0 -4 1 ...
NZ(v) == IF v >= 0 THEN v + 1 ELSE v     \* never zero
Val(dt, p, k) ==
  CASE p = 5 -> ((k + 1) \div 2) % 2          \* 1 1 0 0 1 1 ...: ties in every row (first-occurrence rules of argmax / max.dim)
    [] dt = "bool" -> (IF p = 1 THEN k % 2 ELSE IF p = 2 THEN (k \div 2) % 2 ELSE 1)
    [] dt = "u8" -> (IF p = 1 THEN Base1(k) + 3 ELSE IF p = 2 THEN (IF k % 3 = 0 THEN 250 + (k % 5) ELSE Base2(k) + 4)
                     ELSE IF p = 3 THEN AbsI(NZ(Base1(k))) ELSE (k * 3) % 4)
    [] OTHER -> (IF p = 1 THEN Base1(k) ELSE IF p = 2 THEN Base2(k) ELSE IF p = 3 THEN NZ(Base1(k)) ELSE (k * 3) % 4)
Mk(dt, shape, p) == T(dt, shape, [k \in 1..Numel(shape) |-> Val(dt, p, k)])

ShapesQ == {<<>>, <<0>>, <<1>>, <<3>>, <<2, 3>>, <<1, 3>>, <<2, 1>>, <<0, 2>>, <<2, 0>>, <<2, 1, 3>>, <<2, 2, 2>>, <<1, 2, 0>>}
ShapesW == ShapesQ \cup {<<4>>, <<5>>, <<3, 3>>, <<1, 1>>, <<3, 1, 2>>, <<1, 1, 1>>, <<2, 3, 2>>, <<0, 0>>, <<2, 1, 2, 2>>, <<1, 2, 3, 1>>, <<2, 0, 1, 2>>}
Shapes == IF Wide THEN ShapesW ELSE ShapesQ
\* pairs for broadcasting
PairsQ == {<<<<>>, <<>>>>, <<<<3>>, <<>>>>, <<<<>>, <<3>>>>, <<<<3>>, <<2, 3>>>>, <<<<2, 1>>, <<1, 3>>>>,
           <<<<0>>, <<1>>>>, <<<<2, 1, 3>>, <<2, 1>>>>, <<<<2, 3>>, <<2, 3>>>>, <<<<1, 0>>, <<3, 1>>>>}
Pairs == IF Wide THEN {<<x, y>> \in Shapes \X Shapes : BroadcastShape(x, y) # NOSHAPE} ELSE PairsQ
AllDts == {"bool", "u8", "i32", "i64", "f16", "f32", "f64"}
\* quick tier: the element types whose handling differs in the code (bool / unsigned / narrow int / default int / half / default float)
SomeDts == IF Wide THEN AllDts ELSE {"bool", "u8", "i32", "i64", "f32"}
NumDts == AllDts \ {"bool"}
FloatDts == {"f16", "f32", "f64"}
DimsOf(r) == (-r)..(r - 1)
NormDim(d, r) == IF d < 0 THEN d + r ELSE d
\* dims valid for a rank-r tensor in ATen (a 0-d tensor is treated as 1-d: dims -1, 0)
DimOK(d, r) == IF r = 0 THEN d \in {-1, 0} ELSE d \in DimsOf(r)
ND(d, r) == IF r = 0 THEN 0 ELSE NormDim(d, r)

-----------------------------------------------------------------------------
(* ===== family "binary": elementwise binary incl. alpha, rounding_mode, comparison, bitwise ===== *)
RECURSIVE NatBit(_, _, _)
NatBit(f, a, b) == IF a = 0 /\ b = 0 THEN 0
                   ELSE LET x == a % 2 y == b % 2
                            z == IF f = "and" THEN x * y ELSE IF f = "or" THEN Max2(x, y) ELSE (x + y) % 2
                        IN z + 2 * NatBit(f, a \div 2, b \div 2)
\* two's complement on 16 bits is enough for the value range used here
BitOp(f, dt, x, y) == IF dt = "bool" THEN NatBit(f, x, y)
                      ELSE LET r == NatBit(f, x % 65536, y % 65536) IN
                           IF dt = "u8" THEN r % 256 ELSE IF r >= 32768 THEN r - 65536 ELSE r
RECURSIVE IPow(_, _)
IPow(x, n) == IF n <= 0 THEN 1 ELSE x * IPow(x, n - 1)
BinV(f, dt, x, y) ==
  CASE f = "add" -> x + y  [] f = "sub" -> x - y  [] f = "mul" -> x * y
    [] f = "max" -> Max2(x, y)  [] f = "min" -> Min2(x, y)
    [] f = "floordiv" -> FloorDiv(x, y)  [] f = "truncdiv" -> TruncDiv(x, y)
    [] f = "rem" -> PyMod(x, y)  [] f = "fmod" -> CMod(x, y)  [] f = "pow" -> IPow(x, y)
    [] f \in {"and", "or", "xor"} -> BitOp(f, dt, x, y)
    [] f = "shl" -> x * IPow(2, y)  [] f = "shr" -> FloorDiv(x, IPow(2, y))
    [] f = "eq" -> IF x = y THEN 1 ELSE 0  [] f = "ne" -> IF x # y THEN 1 ELSE 0
    [] f = "lt" -> IF x < y THEN 1 ELSE 0  [] f = "le" -> IF x <= y THEN 1 ELSE 0
    [] f = "gt" -> IF x > y THEN 1 ELSE 0  [] f = "ge" -> IF x >= y THEN 1 ELSE 0
    [] f = "land" -> IF x # 0 /\ y # 0 THEN 1 ELSE 0  [] f = "lor" -> IF x # 0 \/ y # 0 THEN 1 ELSE 0
    [] f = "lxor" -> IF (x # 0) # (y # 0) THEN 1 ELSE 0
CmpF == {"eq", "ne", "lt", "le", "gt", "ge", "land", "lor", "lxor"}
DivF == {"floordiv", "truncdiv", "rem", "fmod", "truediv"}

\* op -> elementwise function
BinFun(o, a) ==
  CASE o \in {"aten::add.Tensor", "aten::add.Scalar"} -> "add"
    [] o \in {"aten::sub.Tensor", "aten::sub.Scalar"} -> "sub"
    [] o \in {"aten::mul.Tensor"} -> "mul"
    [] o = "aten::maximum" -> "max"  [] o = "aten::minimum" -> "min"
    [] o \in {"aten::div.Tensor_mode", "aten::div.Scalar_mode"} ->
          (IF Kw(a, "rounding_mode").k = "s" THEN (IF Kw(a, "rounding_mode").s = "floor" THEN "floordiv" ELSE "truncdiv") ELSE "truediv")
    [] o \in {"aten::div.Tensor", "aten::div.Scalar"} -> "truediv"
    [] o = "aten::floor_divide" -> "floordiv"
    [] o \in {"aten::remainder.Tensor", "aten::remainder.Scalar"} -> "rem"
    [] o \in {"aten::fmod.Tensor", "aten::fmod.Scalar"} -> "fmod"
    [] o \in {"aten::pow.Tensor_Tensor", "aten::pow.Tensor_Scalar"} -> "pow"
    [] o \in {"aten::bitwise_and.Tensor", "aten::bitwise_and.Scalar"} -> "and"
    [] o \in {"aten::bitwise_or.Tensor", "aten::bitwise_or.Scalar"} -> "or"
    [] o \in {"aten::bitwise_xor.Tensor", "aten::bitwise_xor.Scalar"} -> "xor"
    [] o \in {"aten::bitwise_left_shift.Tensor", "aten::__lshift__.Scalar"} -> "shl"
    [] o \in {"aten::bitwise_right_shift.Tensor", "aten::__rshift__.Scalar"} -> "shr"
    [] o \in {"aten::eq.Tensor", "aten::eq.Scalar"} -> "eq"  [] o \in {"aten::ne.Tensor", "aten::ne.Scalar"} -> "ne"
    [] o \in {"aten::lt.Tensor", "aten::lt.Scalar"} -> "lt"  [] o \in {"aten::le.Tensor", "aten::le.Scalar"} -> "le"
    [] o \in {"aten::gt.Tensor", "aten::gt.Scalar"} -> "gt"  [] o \in {"aten::ge.Tensor", "aten::ge.Scalar"} -> "ge"
    [] o = "aten::logical_and" -> "land"  [] o = "aten::logical_or" -> "lor"  [] o = "aten::logical_xor" -> "lxor"
BinTensorOps == {"aten::add.Tensor", "aten::sub.Tensor", "aten::mul.Tensor", "aten::maximum", "aten::minimum",
                 "aten::div.Tensor_mode", "aten::div.Tensor", "aten::floor_divide", "aten::remainder.Tensor", "aten::fmod.Tensor",
                 "aten::pow.Tensor_Tensor", "aten::bitwise_and.Tensor", "aten::bitwise_or.Tensor", "aten::bitwise_xor.Tensor",
                 "aten::bitwise_left_shift.Tensor", "aten::bitwise_right_shift.Tensor",
                 "aten::eq.Tensor", "aten::ne.Tensor", "aten::lt.Tensor", "aten::le.Tensor", "aten::gt.Tensor", "aten::ge.Tensor",
                 "aten::logical_and", "aten::logical_or", "aten::logical_xor"}
BinScalarOps == {"aten::add.Scalar", "aten::sub.Scalar", "aten::div.Scalar_mode", "aten::div.Scalar", "aten::remainder.Scalar", "aten::fmod.Scalar",
                 "aten::pow.Tensor_Scalar", "aten::bitwise_and.Scalar", "aten::bitwise_or.Scalar", "aten::bitwise_xor.Scalar",
                 "aten::__lshift__.Scalar", "aten::__rshift__.Scalar",
                 "aten::eq.Scalar", "aten::ne.Scalar", "aten::lt.Scalar", "aten::le.Scalar", "aten::gt.Scalar", "aten::ge.Scalar"}
BinOps == BinTensorOps \cup BinScalarOps
\* ops that also accept a python scalar in the Tensor overload (FX graphs contain aten.add.Tensor(x, 2))
ScalarInTensorOverload == {"aten::add.Tensor", "aten::sub.Tensor", "aten::mul.Tensor", "aten::div.Tensor_mode", "aten::div.Tensor"}
HasAlpha(o) == o \in {"aten::add.Tensor", "aten::sub.Tensor", "aten::add.Scalar", "aten::sub.Scalar"}

\* the second operand as a tensor of the first operand's element type
OtherT(self, o) == IF o.k = "t" THEN TOf(o) ELSE Scalar(self.dt, Wrap(self.dt, o.v))
AllNZ(t) == \A k \in 1..Len(t.data) : t.data[k] # 0
AllGE0(t) == \A k \in 1..Len(t.data) : t.data[k] >= 0

BinDom(o, a) ==
  LET self == TOf(P(a, 1)) o2 == P(a, 2) other == OtherT(self, o2) f == BinFun(o, a) dt == self.dt
      alpha == Kw(a, "alpha")
  IN /\ AllowedAt(o, 1, dt)
     /\ o2.k = "t" => (o2.s = dt /\ AllowedAt(o, 2, dt))
     /\ BroadcastShape(self.shape, other.shape) # NOSHAPE
     \* python scalars: category not above the tensor's (the exporter's type promotion pass guarantees it);
     \* non-negative against unsigned tensors
     /\ IsNum(o2) => (NumCat(o2) <= Cat(dt) /\ (dt = "u8" => o2.v >= 0) /\ (dt = "bool" => o2.k = "b"))
     /\ Given(alpha) => (NumCat(alpha) <= Cat(dt) /\ (dt = "u8" => alpha.v >= 0) /\ dt # "bool")
     /\ f = "sub" => dt # "bool"
     /\ f \in DivF => (dt # "bool" /\ AllNZ(other))
     /\ f = "pow" => (dt # "bool" /\ AllGE0(other))
     /\ f \in {"and", "or", "xor"} => ~IsFloat(dt)
     /\ f \in {"shl", "shr"} => (IsInt(dt) /\ AllGE0(other) /\ \A k \in 1..Len(other.data) : other.data[k] <= 3)
     /\ f = "shr" => dt # "u8" \/ TRUE

BinAten(o, a) ==
  LET self == TOf(P(a, 1)) other == OtherT(self, P(a, 2)) f == BinFun(o, a) dt == self.dt
      alpha == IntOr(Kw(a, "alpha"), 1)
      odt == IF f \in CmpF THEN "bool" ELSE IF f = "truediv" THEN (IF IsFloat(dt) THEN dt ELSE "f32") ELSE dt
  IN IF f = "truediv" THEN Struct(odt, BroadcastShape(self.shape, other.shape))
     ELSE One(Map2(self, other, odt, LAMBDA x, y : Wrap(odt, BinV(f, dt, x, IF HasAlpha(o) THEN alpha * y ELSE y))))

ScalarsFor(dt) == IF dt = "bool" THEN {BA(TRUE), BA(FALSE)}
                  ELSE IF IsInt(dt) THEN {IA(2), IA(0)} \cup (IF dt = "u8" THEN {IA(3)} ELSE {IA(-3)})
                  ELSE {IA(2), IA(-3), FA(2), FA(0)}
NZScalarsFor(dt) == {s \in ScalarsFor(dt) : s.v # 0}
\* alpha = 0 is a legal value too: the result keeps the broadcast shape of both operands (and 0 * inf is nan for floats)
AlphasFor(dt) == IF dt = "bool" THEN {} ELSE IF IsInt(dt) THEN {IA(2), IA(0)} \cup (IF dt = "u8" THEN {} ELSE {IA(-1)})
                 ELSE {IA(2), FA(-1), IA(0)}
\* second-operand pattern: divisors never zero, exponents / shift counts small and non-negative
OtherPat(f) == IF f \in DivF THEN 3 ELSE IF f \in {"pow", "shl", "shr"} THEN 4 ELSE 2
ModesFor(o) == IF o \in {"aten::div.Tensor_mode", "aten::div.Scalar_mode"}
               THEN {<<KW("rounding_mode", SA("floor"))>>, <<KW("rounding_mode", SA("trunc"))>>, <<KW("rounding_mode", NA)>>}
               ELSE {<<>>}
BinMenu(o) ==
  LET f0 == BinFun(o, <<>>) IN
  UNION {
    (IF o \in BinTensorOps
     THEN {<<TA(Mk(dt, pr[1], 1)), TA(Mk(dt, pr[2], OtherPat(BinFun(o, m))))>> \o m \o al
              : pr \in Pairs, al \in {<<>>} \cup (IF HasAlpha(o) THEN {<<KW("alpha", x)>> : x \in AlphasFor(dt)} ELSE {})}
     ELSE {})
    \cup
    (IF o \in BinScalarOps \cup ScalarInTensorOverload
     THEN UNION {{<<TA(Mk(dt, sh, 1)), s>> \o m \o al
              : s \in (IF BinFun(o, m) \in DivF THEN NZScalarsFor(dt) ELSE ScalarsFor(dt)),
                al \in {<<>>} \cup (IF HasAlpha(o) /\ sh \in {<<3>>, <<2, 3>>} THEN {<<KW("alpha", x)>> : x \in AlphasFor(dt)} ELSE {})}
              : sh \in (IF Wide THEN Shapes ELSE {<<>>, <<0>>, <<3>>, <<2, 3>>, <<2, 1, 3>>})}
     ELSE {})
    : dt \in AllDts, m \in ModesFor(o)}

-----------------------------------------------------------------------------
(* ===== family "unary" ===== *)
UnV(f, dt, x) ==
  CASE f = "abs" -> AbsI(x)  [] f = "neg" -> -x  [] f = "sign" -> (IF x > 0 THEN 1 ELSE IF x < 0 THEN -1 ELSE 0)
    [] f = "relu" -> Max2(x, 0)  [] f = "lnot" -> (IF x = 0 THEN 1 ELSE 0)
    [] f = "bnot" -> (IF dt = "bool" THEN 1 - x ELSE -x - 1)
    [] f = "id" -> x
    [] f = "false" -> 0  [] f = "true" -> 1
UnFun(o) ==
  CASE o = "aten::abs" -> "abs"  [] o = "aten::neg" -> "neg"  [] o = "aten::sign" -> "sign"  [] o = "aten::relu" -> "relu"
    [] o = "aten::logical_not" -> "lnot"  [] o = "aten::bitwise_not" -> "bnot"
    [] o \in {"aten::ceil", "aten::floor", "aten::round", "aten::trunc", "aten::clone", "aten::alias", "aten::detach",
              "aten::contiguous", "aten::lift_fresh_copy", "aten::resolve_conj", "aten::resolve_neg", "aten::conj"} -> "id"
    [] o \in {"aten::isnan", "aten::isinf", "aten::isneginf", "aten::isposinf"} -> "false"
    [] o = "aten::isfinite" -> "true"
    [] OTHER -> "float"
UnExact == {"aten::abs", "aten::neg", "aten::sign", "aten::relu", "aten::logical_not", "aten::bitwise_not",
            "aten::ceil", "aten::floor", "aten::round", "aten::trunc", "aten::clone", "aten::alias", "aten::detach",
            "aten::contiguous", "aten::lift_fresh_copy", "aten::resolve_conj", "aten::resolve_neg", "aten::conj",
            "aten::isnan", "aten::isinf", "aten::isneginf", "aten::isposinf", "aten::isfinite"}
UnFloat == {"aten::exp", "aten::log", "aten::sqrt", "aten::rsqrt", "aten::reciprocal", "aten::sin", "aten::cos", "aten::tanh",
            "aten::sigmoid", "aten::erf", "aten::gelu", "aten::silu", "aten::elu", "aten::leaky_relu", "aten::hardswish",
            "aten::hardsigmoid", "aten::softplus", "aten::log1p", "aten::expm1", "aten::exp2", "aten::log2", "aten::log10",
            "aten::atan", "aten::sinh", "aten::cosh", "aten::mish", "aten::selu", "aten::celu", "aten::relu6", "aten::log_sigmoid",
            "aten::tan", "aten::asinh", "aten::frac", "aten::deg2rad", "aten::rad2deg", "aten::logit"}
UnOps == UnExact \cup UnFloat
UnDom(o, a) ==
  LET dt == P(a, 1).s f == UnFun(o) IN
  /\ AllowedAt(o, 1, dt)
  /\ f \in {"neg", "sign"} => dt # "bool"
  /\ f = "abs" => dt # "bool"
  /\ f = "relu" => dt # "bool"
  /\ f = "bnot" => ~IsFloat(dt)
  /\ f = "float" => IsFloat(dt)
  /\ o \in {"aten::isneginf", "aten::isposinf"} => TRUE
UnAten(o, a) ==
  LET self == TOf(P(a, 1)) f == UnFun(o) dt == self.dt
      odt == IF f \in {"lnot", "false", "true"} THEN "bool" ELSE dt
  IN IF f = "float" THEN Struct(dt, self.shape)
     ELSE One(Map1(self, odt, LAMBDA x : Wrap(odt, UnV(f, dt, x))))
UnMenu(o) == {<<TA(Mk(dt, sh, p))>> : dt \in AllDts, sh \in (IF Wide THEN Shapes ELSE {<<>>, <<0>>, <<3>>, <<2, 3>>, <<1, 2, 0>>, <<2, 1, 3>>}),
                                        p \in (IF o \in UnFloat THEN {3} ELSE {1})}

-----------------------------------------------------------------------------
(* ===== family "select": where / masked_fill / clamp ===== *)
SelOps == {"aten::where.self", "aten::where.ScalarOther", "aten::where.ScalarSelf", "aten::where.Scalar",
           "aten::masked_fill.Scalar", "aten::masked_fill.Tensor",
           "aten::clamp", "aten::clamp.Tensor", "aten::clamp_min", "aten::clamp_max", "aten::clamp_min.Tensor", "aten::clamp_max.Tensor"}
Map3(c, x, y, dt, F(_, _, _)) ==
  LET s1 == BroadcastShape(c.shape, x.shape) IN
  IF s1 = NOSHAPE THEN ERR
  ELSE LET bs == BroadcastShape(s1, y.shape) IN
       IF bs = NOSHAPE THEN ERR
       ELSE LET c2 == BroadcastTo(c, bs) x2 == BroadcastTo(x, bs) y2 == BroadcastTo(y, bs)
            IN T(dt, bs, [k \in 1..Len(c2.data) |-> F(c2.data[k], x2.data[k], y2.data[k])])
NumT(x, dt) == IF x.k = "t" THEN TOf(x) ELSE Scalar(dt, Wrap(dt, x.v))
IsWhere(o) == o \in {"aten::where.self", "aten::where.ScalarOther", "aten::where.ScalarSelf", "aten::where.Scalar"}
IsClamp(o) == o \in {"aten::clamp", "aten::clamp.Tensor", "aten::clamp_min", "aten::clamp_max", "aten::clamp_min.Tensor", "aten::clamp_max.Tensor"}
\* (lo, hi) of a clamp call: Absent when not given
ClampLo(o, a) == IF o \in {"aten::clamp", "aten::clamp.Tensor", "aten::clamp_min", "aten::clamp_min.Tensor"} THEN P(a, 2) ELSE Absent
ClampHi(o, a) == IF o \in {"aten::clamp", "aten::clamp.Tensor"} THEN P(a, 3)
                 ELSE IF o \in {"aten::clamp_max", "aten::clamp_max.Tensor"} THEN P(a, 2) ELSE Absent
WhereDt(a) == \* result type of where: tensors dominate scalars of the same or a lower category
  LET x == P(a, 2) y == P(a, 3) IN
  IF x.k = "t" /\ y.k = "t" THEN x.s
  ELSE IF x.k = "t" THEN x.s ELSE IF y.k = "t" THEN y.s
  ELSE Promote(NumDt(x), NumDt(y))
SelDom(o, a) ==
  IF IsWhere(o) THEN
     LET c == P(a, 1) x == P(a, 2) y == P(a, 3) dt == WhereDt(a) IN
     /\ c.s = "bool" /\ AllowedAt(o, 2, dt)
     /\ x.k = "t" /\ y.k = "t" => x.s = y.s
     /\ IsNum(x) /\ IsNum(y) => x.k = y.k
     /\ IsNum(x) /\ y.k = "t" => (NumCat(x) <= Cat(dt) /\ (dt = "u8" => x.v >= 0) /\ (dt = "bool" => x.k = "b"))
     /\ IsNum(y) /\ x.k = "t" => (NumCat(y) <= Cat(dt) /\ (dt = "u8" => y.v >= 0) /\ (dt = "bool" => y.k = "b"))
     /\ ~IsErr(Map3(TOf(c), NumT(x, dt), NumT(y, dt), dt, LAMBDA p, q, r : q))
  ELSE IF IsClamp(o) THEN
     LET self == TOf(P(a, 1)) lo == ClampLo(o, a) hi == ClampHi(o, a) dt == self.dt IN
     /\ AllowedAt(o, 1, dt) /\ dt # "bool"
     /\ Given(lo) \/ Given(hi)
     /\ \A b \in {lo, hi} : /\ b.k = "t" => (b.s = dt /\ BroadcastShape(self.shape, b.shape) = self.shape)
                            /\ IsNum(b) => (NumCat(b) <= Cat(dt) /\ b.k # "b" /\ (dt = "u8" => b.v >= 0))
  ELSE \* masked_fill
     LET self == TOf(P(a, 1)) m == P(a, 2) v == P(a, 3) dt == self.dt IN
     /\ AllowedAt(o, 1, dt) /\ m.s = "bool"
     /\ BroadcastShape(self.shape, m.shape) = self.shape
     /\ v.k = "t" => (v.shape = <<>> /\ v.s = dt)
     /\ IsNum(v) => (NumCat(v) <= Cat(dt) /\ (dt = "u8" => v.v >= 0) /\ (dt = "bool" => v.k = "b"))
SelAten(o, a) ==
  IF IsWhere(o) THEN
     LET dt == WhereDt(a) IN
     One(Map3(TOf(P(a, 1)), NumT(P(a, 2), dt), NumT(P(a, 3), dt), dt, LAMBDA c, x, y : IF c = 1 THEN x ELSE y))
  ELSE IF IsClamp(o) THEN
     LET self == TOf(P(a, 1)) lo == ClampLo(o, a) hi == ClampHi(o, a) dt == self.dt
         a1 == IF Given(lo) THEN Map2(self, NumT(lo, dt), dt, LAMBDA x, l : Max2(x, l)) ELSE self
         a2 == IF Given(hi) THEN Map2(a1, NumT(hi, dt), dt, LAMBDA x, h : Min2(x, h)) ELSE a1
     IN One(a2)
  ELSE LET self == TOf(P(a, 1)) dt == self.dt IN
       One(Map3(TOf(P(a, 2)), NumT(P(a, 3), dt), self, dt, LAMBDA c, v, x : IF c = 1 THEN v ELSE x))
BoundsFor(dt) == (IF dt = "u8" THEN {IA(1), IA(4)} ELSE {IA(-1), IA(2)}) \cup (IF IsFloat(dt) THEN {FA(1)} ELSE {})
SelMenu(o) ==
  UNION {
    CASE o = "aten::where.self" ->
           UNION {{<<TA(Mk("bool", c, 1)), TA(Mk(dt, pr[1], 1)), TA(Mk(dt, pr[2], 2))>> : c \in {<<>>, <<3>>, <<2, 1>>, pr[1]}} : pr \in Pairs}
      [] o = "aten::where.ScalarOther" ->
           {<<TA(Mk("bool", pr[1], 1)), TA(Mk(dt, pr[2], 1)), s>> : pr \in Pairs, s \in ScalarsFor(dt)}
      [] o = "aten::where.ScalarSelf" ->
           {<<TA(Mk("bool", pr[1], 1)), s, TA(Mk(dt, pr[2], 1))>> : pr \in Pairs, s \in ScalarsFor(dt)}
      [] o = "aten::where.Scalar" ->
           {<<TA(Mk("bool", sh, 1)), s1, s2>> : sh \in Shapes, s1 \in {IA(2), FA(3), BA(TRUE)}, s2 \in {IA(-1), FA(0), BA(FALSE)}}
      [] o = "aten::masked_fill.Scalar" ->
           {<<TA(Mk(dt, pr[1], 1)), TA(Mk("bool", pr[2], 1)), s>> : pr \in Pairs, s \in ScalarsFor(dt)}
      [] o = "aten::masked_fill.Tensor" ->
           {<<TA(Mk(dt, pr[1], 1)), TA(Mk("bool", pr[2], 1)), TA(Scalar(dt, Wrap(dt, 2)))>> : pr \in Pairs}
      [] o = "aten::clamp" ->
           {<<TA(Mk(dt, sh, 1)), lo, hi>> : sh \in (IF Wide THEN Shapes ELSE {<<>>, <<0>>, <<3>>, <<2, 3>>}), lo \in BoundsFor(dt) \cup {NA}, hi \in BoundsFor(dt) \cup {NA}}
           \cup {<<TA(Mk(dt, sh, 1)), lo>> : sh \in {<<3>>, <<2, 3>>}, lo \in BoundsFor(dt)}
      [] o = "aten::clamp.Tensor" ->
           UNION {{<<TA(Mk(dt, pr[1], 1)), lo, hi>> : lo \in {NA, TA(Mk(dt, pr[2], 2))}, hi \in {NA, TA(Mk(dt, pr[2], 1)), TA(Scalar(dt, Wrap(dt, 1)))}} : pr \in Pairs}
      [] o \in {"aten::clamp_min", "aten::clamp_max"} ->
           {<<TA(Mk(dt, sh, 1)), b>> : sh \in Shapes, b \in BoundsFor(dt)}
      [] o \in {"aten::clamp_min.Tensor", "aten::clamp_max.Tensor"} ->
           {<<TA(Mk(dt, pr[1], 1)), TA(Mk(dt, pr[2], 2))>> : pr \in Pairs}
    : dt \in AllDts}

-----------------------------------------------------------------------------
(* ===== family "reduce" ===== *)
RedOps == {"aten::sum", "aten::sum.dim_IntList", "aten::amax", "aten::amin", "aten::any", "aten::any.dim", "aten::any.dims",
           "aten::all", "aten::all.dim", "aten::all.dims", "aten::prod", "aten::prod.dim_int", "aten::max", "aten::min",
           "aten::max.dim", "aten::min.dim", "aten::argmax", "aten::argmin", "aten::mean", "aten::mean.dim", "aten::cumsum",
           "aten::logsumexp"}
RedKind(o) ==
  CASE o \in {"aten::sum", "aten::sum.dim_IntList", "aten::mean", "aten::mean.dim", "aten::logsumexp"} -> "sum"
    [] o \in {"aten::amax", "aten::max", "aten::max.dim", "aten::argmax"} -> "max"
    [] o \in {"aten::amin", "aten::min", "aten::min.dim", "aten::argmin"} -> "min"
    [] o \in {"aten::any", "aten::any.dim", "aten::any.dims"} -> "any"
    [] o \in {"aten::all", "aten::all.dim", "aten::all.dims"} -> "all"
    [] o \in {"aten::prod", "aten::prod.dim_int"} -> "prod"
    [] OTHER -> "cumsum"
\* the dims argument as a set of normalised axes; "all" when the call reduces everything
RedDimArg(o, a) ==
  CASE o \in {"aten::sum", "aten::prod", "aten::max", "aten::min", "aten::any", "aten::all", "aten::mean"} -> Absent
    [] OTHER -> P(a, 2)
RedAxes(o, a) ==
  LET r == Len(P(a, 1).shape) d == RedDimArg(o, a) IN
  IF ~Given(d) THEN 0..(r - 1)
  ELSE IF d.k = "i" THEN (IF r = 0 THEN {} ELSE {ND(d.v, r)})
  ELSE IF d.data = <<>> THEN (IF o \in {"aten::any.dims", "aten::all.dims"} THEN {} ELSE 0..(r - 1))   \* any/all: () reduces nothing
  ELSE IF r = 0 THEN {} ELSE {ND(d.data[j], r) : j \in 1..Len(d.data)}
RedKeep(o, a) == IF o \in {"aten::sum", "aten::prod", "aten::max", "aten::min", "aten::any", "aten::all", "aten::mean"} THEN FALSE
                 ELSE BoolOr(P(a, 3), FALSE)
RedDtype(a) == Kw(a, "dtype")
RedDom(o, a) ==
  LET self == TOf(P(a, 1)) r == Rank(self) d == RedDimArg(o, a) dt == self.dt k == RedKind(o) axes == RedAxes(o, a) IN
  /\ AllowedAt(o, 1, dt)
  /\ Given(d) /\ d.k = "i" => DimOK(d.v, r)
  /\ Given(d) /\ d.k = "il" => (/\ \A j \in 1..Len(d.data) : DimOK(d.data[j], r)
                                /\ Cardinality({ND(d.data[j], r) : j \in 1..Len(d.data)}) = Len(d.data))
  \* max/min/argmax over an empty slice is an error in ATen
  /\ k \in {"max", "min"} => \A ax \in axes : self.shape[ax + 1] # 0
  /\ k \in {"max", "min"} /\ r > 0 /\ axes = {} => TRUE
  /\ o \in {"aten::max", "aten::min", "aten::argmax", "aten::argmin"} => Numel(self.shape) # 0
  /\ o \in {"aten::argmax", "aten::argmin", "aten::max.dim", "aten::min.dim"} => dt # "bool" \/ TRUE
  /\ o \in {"aten::mean", "aten::mean.dim", "aten::logsumexp"} => IsFloat(dt)
  /\ o = "aten::logsumexp" => d.data # <<>>
  /\ Given(RedDtype(a)) /\ RedDtype(a).k = "dt" => Cat(RedDtype(a).s) >= 1
FoldFor(k, dt, t, axes, keep) ==
  CASE k = "sum" -> Reduce(t, axes, keep, LAMBDA x, y : x + y, 0)
    [] k = "prod" -> Reduce(t, axes, keep, LAMBDA x, y : x * y, 1)
    [] k = "max" -> Reduce(t, axes, keep, LAMBDA x, y : Max2(x, y), -100000)
    [] k = "min" -> Reduce(t, axes, keep, LAMBDA x, y : Min2(x, y), 100000)
    [] k = "any" -> Reduce(t, axes, keep, LAMBDA x, y : IF x # 0 \/ y # 0 THEN 1 ELSE 0, 0)
    [] k = "all" -> Reduce(t, axes, keep, LAMBDA x, y : IF x # 0 /\ y # 0 THEN 1 ELSE 0, 1)
\* index of the first extreme element along axis ax (0-based), as a tensor of the reduced shape
ArgExt(t, ax, keep, isMax) ==
  LET r == Rank(t)
      kshape == [i \in 1..r |-> IF i = ax + 1 THEN 1 ELSE t.shape[i]]
      Line(idx) == [j \in 1..t.shape[ax + 1] |-> At(t, [idx EXCEPT ![ax + 1] = j - 1])]
      Best(l) == CHOOSE j \in 1..Len(l) : /\ \A m \in 1..Len(l) : IF isMax THEN l[m] <= l[j] ELSE l[m] >= l[j]
                                          /\ \A m \in 1..(j - 1) : l[m] # l[j]
      kept == FromFn("i64", kshape, LAMBDA idx : Best(Line(idx)) - 1)
  IN IF keep THEN kept ELSE T("i64", RemoveAt(t.shape, ax + 1), kept.data)
CumSumT(t, ax) ==
  FromFn(t.dt, t.shape, LAMBDA idx : SeqSum([j \in 1..(idx[ax + 1] + 1) |-> At(t, [idx EXCEPT ![ax + 1] = j - 1])]))
RedAten(o, a) ==
  LET self == TOf(P(a, 1)) r == Rank(self) dt == self.dt k == RedKind(o) axes == RedAxes(o, a) keep == RedKeep(o, a)
      dta == RedDtype(a)
      \* integer (and bool) sums / products accumulate and return int64 unless dtype= is given
      accdt == IF Given(dta) /\ dta.k = "dt" THEN dta.s ELSE IF Cat(dt) <= 1 THEN "i64" ELSE dt
      outshape == IF keep THEN [i \in 1..r |-> IF (i - 1) \in axes THEN 1 ELSE self.shape[i]]
                  ELSE SelectSeq([i \in 1..r |-> IF (i - 1) \in axes THEN -7 ELSE self.shape[i]], LAMBDA x : x # -7)
  IN CASE o \in {"aten::mean", "aten::mean.dim", "aten::logsumexp"} ->
            Struct(IF Given(dta) /\ dta.k = "dt" THEN dta.s ELSE dt, outshape)
       [] o \in {"aten::sum", "aten::sum.dim_IntList", "aten::prod", "aten::prod.dim_int"} ->
            One(CastT(FoldFor(k, accdt, T(accdt, self.shape, self.data), axes, keep), accdt))
       [] o \in {"aten::amax", "aten::amin", "aten::max", "aten::min"} -> One(FoldFor(k, dt, self, axes, keep))
       [] k \in {"any", "all"} ->      \* uint8 in, uint8 out; everything else bool
            LET odt == IF dt = "u8" THEN "u8" ELSE "bool" res == FoldFor(k, dt, self, axes, keep) IN One(T(odt, res.shape, res.data))
       [] o \in {"aten::max.dim", "aten::min.dim"} ->
            IF r = 0 THEN Tup(<<self, Scalar("i64", 0)>>)
            ELSE Tup(<<FoldFor(k, dt, self, axes, keep), ArgExt(self, ND(P(a, 2).v, r), keep, k = "max")>>)
       [] o \in {"aten::argmax", "aten::argmin"} ->
            IF ~Given(P(a, 2)) THEN
                 LET flat == T(dt, <<Numel(self.shape)>>, self.data) res == ArgExt(flat, 0, FALSE, k = "max") IN
                 One(IF keep THEN T("i64", [i \in 1..r |-> 1], res.data) ELSE res)
            ELSE IF r = 0 THEN One(Scalar("i64", 0))
            ELSE One(ArgExt(self, ND(P(a, 2).v, r), keep, k = "max"))
       [] o = "aten::cumsum" ->
            LET t2 == T(accdt, self.shape, self.data) IN
            One(IF r = 0 THEN t2 ELSE CastT(CumSumT(t2, ND(P(a, 2).v, r)), accdt))
RedDimLists(r) == IF r = 0 THEN {<<>>, <<0>>, <<-1>>}
                  ELSE {<<>>} \cup {<<d>> : d \in DimsOf(r)} \cup (IF r >= 2 THEN {<<0, -1>>, <<-1, 0>>, <<1, 0>>} ELSE {})
                       \cup (IF r >= 3 THEN {<<0, 1, 2>>, <<-2, 2>>} ELSE {})
RedShapes == IF Wide THEN Shapes \cup {<<2, 2, 2>>} ELSE {<<>>, <<3>>, <<2, 3>>, <<0, 2>>, <<2, 1, 3>>}
DtypeKws(o, dt) == {<<>>} \cup (IF IsInt(dt) THEN {<<KW("dtype", DA("i32"))>>, <<KW("dtype", NA)>>} ELSE IF IsFloat(dt) THEN {<<KW("dtype", DA("f64"))>>} ELSE {})
RedMenu(o) ==
  UNION {
    CASE o \in {"aten::sum", "aten::prod", "aten::mean"} -> {<<TA(Mk(dt, sh, 1))>> \o kw : kw \in DtypeKws(o, dt)}
      [] o \in {"aten::max", "aten::min", "aten::any", "aten::all"} -> {<<TA(Mk(dt, sh, 1))>>}
      [] o \in {"aten::sum.dim_IntList", "aten::mean.dim"} ->
           {<<TA(Mk(dt, sh, 1)), d>> \o kd \o kw : d \in {LA(l) : l \in RedDimLists(Len(sh))} \cup {NA},
                                                  kd \in (IF Wide THEN {<<>>, <<BA(TRUE)>>, <<BA(FALSE)>>} ELSE {<<>>, <<BA(TRUE)>>}), kw \in DtypeKws(o, dt)}
      [] o \in {"aten::amax", "aten::amin", "aten::logsumexp"} ->
           {<<TA(Mk(dt, sh, 1)), LA(l)>> \o kd : l \in RedDimLists(Len(sh)), kd \in {<<>>, <<BA(TRUE)>>}}
           \cup (IF o # "aten::logsumexp" THEN {<<TA(Mk(dt, sh, 1))>>} ELSE {})
      [] o \in {"aten::any.dims", "aten::all.dims"} ->
           {<<TA(Mk(dt, sh, 1)), d>> \o kd : d \in {LA(l) : l \in RedDimLists(Len(sh))} \cup {NA}, kd \in {<<>>, <<BA(TRUE)>>}}
           \cup {<<TA(Mk(dt, sh, 1))>>}
      [] o \in {"aten::any.dim", "aten::all.dim", "aten::max.dim", "aten::min.dim", "aten::prod.dim_int"} ->
           {<<TA(Mk(dt, sh, p)), IA(d)>> \o kd \o kw : d \in (IF sh = <<>> THEN {0, -1} ELSE DimsOf(Len(sh))), kd \in {<<>>, <<BA(TRUE)>>},
                                                     kw \in (IF o = "aten::prod.dim_int" THEN DtypeKws(o, dt) ELSE {<<>>}),
                                                     p \in (IF o \in {"aten::max.dim", "aten::min.dim"} THEN {1, 5} ELSE {1})}
      [] o \in {"aten::argmax", "aten::argmin"} ->
           {<<TA(Mk(dt, sh, 1))>>, <<TA(Mk(dt, sh, 5))>>, <<TA(Mk(dt, sh, 1)), NA, BA(TRUE)>>}
           \cup {<<TA(Mk(dt, sh, p)), IA(d)>> \o kd : d \in (IF sh = <<>> THEN {0, -1} ELSE DimsOf(Len(sh))), kd \in {<<>>, <<BA(TRUE)>>}, p \in {1, 5}}
      [] o = "aten::cumsum" ->
           {<<TA(Mk(dt, sh, 1)), IA(d)>> \o kw : d \in (IF sh = <<>> THEN {0, -1} ELSE DimsOf(Len(sh))), kw \in DtypeKws(o, dt)}
    : dt \in SomeDts, sh \in RedShapes}

-----------------------------------------------------------------------------
(* ===== family "view": view / reshape / expand / permute / squeeze / unsqueeze / flatten / transpose ===== *)
ViewOps == {"aten::view", "aten::reshape", "aten::_unsafe_view", "aten::view_copy", "aten::expand", "aten::broadcast_to",
            "aten::permute", "aten::squeeze", "aten::squeeze.dim", "aten::unsqueeze", "aten::flatten.using_ints",
            "aten::transpose.int", "aten::t", "aten::expand_as", "aten::view_as", "aten::unflatten.int"}
IsReshape(o) == o \in {"aten::view", "aten::reshape", "aten::_unsafe_view", "aten::view_copy"}
IsExpand(o) == o \in {"aten::expand", "aten::broadcast_to"}
Count(s, v) == Cardinality({i \in 1..Len(s) : s[i] = v})
ProdExcept(s, v) == SeqProd([i \in 1..Len(s) |-> IF s[i] = v THEN 1 ELSE s[i]])
\* ATen size inference for view/reshape: one -1 allowed, it needs a non-zero product of the others
ViewSizeOK(shape, size) ==
  /\ \A i \in 1..Len(size) : size[i] >= -1
  /\ Count(size, -1) <= 1
  /\ IF Count(size, -1) = 0 THEN SeqProd(size) = Numel(shape)
     ELSE LET q == ProdExcept(size, -1) IN q # 0 /\ Numel(shape) % q = 0
ViewSize(shape, size) == [i \in 1..Len(size) |-> IF size[i] = -1 THEN Numel(shape) \div ProdExcept(size, -1) ELSE size[i]]
\* expand: trailing-aligned; -1 keeps the existing dim (not allowed for new leading dims)
ExpandOK(shape, size) ==
  LET off == Len(size) - Len(shape) IN
  /\ off >= 0
  /\ \A i \in 1..Len(size) : IF i <= off THEN size[i] >= 0
                              ELSE size[i] = -1 \/ size[i] = shape[i - off] \/ (shape[i - off] = 1 /\ size[i] >= 0)
ExpandSize(shape, size) == LET off == Len(size) - Len(shape) IN [i \in 1..Len(size) |-> IF size[i] = -1 THEN shape[i - off] ELSE size[i]]
FlattenShape(shape, s0, e0) ==
  LET r == Len(shape) IN
  IF r = 0 THEN <<1>>
  ELSE LET s == NormDim(s0, r) e == NormDim(e0, r) IN
       SubSeq(shape, 1, s) \o <<SeqProd(SubSeq(shape, s + 1, e + 1))>> \o SubSeq(shape, e + 2, r)
SwapPerm(r, d0, d1) == [i \in 1..r |-> IF i - 1 = d0 THEN d1 ELSE IF i - 1 = d1 THEN d0 ELSE i - 1]
ViewDom(o, a) ==
  LET self == TOf(P(a, 1)) r == Rank(self) sh == self.shape IN
  /\ AllowedAt(o, 1, self.dt)
  /\ CASE IsReshape(o) -> ViewSizeOK(sh, P(a, 2).data)
       [] IsExpand(o) -> ExpandOK(sh, P(a, 2).data)
       [] o \in {"aten::expand_as"} -> ExpandOK(sh, P(a, 2).shape)
       [] o \in {"aten::view_as"} -> Numel(sh) = Numel(P(a, 2).shape)
       [] o = "aten::permute" -> LET d == P(a, 2).data IN Len(d) = r /\ (\A i \in 1..r : d[i] \in DimsOf(r)) /\ {NormDim(d[i], r) : i \in 1..r} = 0..(r - 1)
       [] o = "aten::squeeze" -> TRUE
       [] o = "aten::squeeze.dim" -> DimOK(P(a, 2).v, r)
       [] o = "aten::unsqueeze" -> P(a, 2).v \in (-(r + 1))..r
       [] o = "aten::flatten.using_ints" ->
            LET s0 == IntOr(P(a, 2), 0) e0 == IntOr(P(a, 3), -1) IN DimOK(s0, r) /\ DimOK(e0, r) /\ ND(s0, r) <= ND(e0, r)
       [] o = "aten::transpose.int" -> DimOK(P(a, 2).v, r) /\ DimOK(P(a, 3).v, r)
       [] o = "aten::t" -> r <= 2
       [] o = "aten::unflatten.int" ->
            /\ r >= 1 /\ P(a, 2).v \in DimsOf(r)
            /\ ViewSizeOK(<<sh[NormDim(P(a, 2).v, r) + 1]>>, P(a, 3).data) /\ Len(P(a, 3).data) >= 1
ViewAten(o, a) ==
  LET self == TOf(P(a, 1)) r == Rank(self) sh == self.shape dt == self.dt IN
  CASE IsReshape(o) -> One(T(dt, ViewSize(sh, P(a, 2).data), self.data))
    [] IsExpand(o) -> One(BroadcastTo(self, ExpandSize(sh, P(a, 2).data)))
    [] o = "aten::expand_as" -> One(BroadcastTo(self, P(a, 2).shape))
    [] o = "aten::view_as" -> One(T(dt, P(a, 2).shape, self.data))
    [] o = "aten::permute" -> One(Transpose(self, [i \in 1..r |-> NormDim(P(a, 2).data[i], r)]))
    [] o = "aten::squeeze" -> One(SqueezeAll(self))
    [] o = "aten::squeeze.dim" -> One(IF r = 0 \/ sh[ND(P(a, 2).v, r) + 1] # 1 THEN self ELSE T(dt, RemoveAt(sh, ND(P(a, 2).v, r) + 1), self.data))
    [] o = "aten::unsqueeze" -> LET d == IF P(a, 2).v < 0 THEN P(a, 2).v + r + 1 ELSE P(a, 2).v IN One(T(dt, InsertAt(sh, d + 1, 1), self.data))
    [] o = "aten::flatten.using_ints" -> One(T(dt, FlattenShape(sh, IntOr(P(a, 2), 0), IntOr(P(a, 3), -1)), self.data))
    [] o = "aten::transpose.int" -> One(IF r = 0 THEN self ELSE Transpose(self, SwapPerm(r, ND(P(a, 2).v, r), ND(P(a, 3).v, r))))
    [] o = "aten::t" -> One(IF r = 2 THEN Transpose(self, <<1, 0>>) ELSE self)
    [] o = "aten::unflatten.int" ->
         LET d == NormDim(P(a, 2).v, r) IN
         One(T(dt, SubSeq(sh, 1, d) \o ViewSize(<<sh[d + 1]>>, P(a, 3).data) \o SubSeq(sh, d + 2, r), self.data))
SizeMenu == {<<>>, <<-1>>, <<0>>, <<1>>, <<2>>, <<3>>, <<6>>, <<8>>, <<1, 1>>, <<1, 3>>, <<3, 1>>, <<-1, 1>>, <<2, 3>>, <<3, 2>>, <<3, -1>>, <<-1, 2>>,
             <<0, 2>>, <<2, 0>>, <<3, 0>>, <<0, 1>>, <<1, 6, 1>>, <<2, -1, 1>>, <<2, 4>>, <<4, -1>>, <<2, 2, 2>>, <<1, 0, 2>>, <<0, 3, 0>>, <<-1, 0>>}
ExpandMenu(sh) == {tg \in Shapes \cup {<<2, 2, 3>>, <<3, 3>>, <<2, 3, 3>>, <<0, 3>>, <<2, 0, 3>>} : ExpandOK(sh, tg)}
KeepVariants(sh, tg) == {tg} \cup (IF Len(sh) >= 1 THEN {[i \in 1..Len(tg) |-> IF i = Len(tg) THEN -1 ELSE tg[i]],
                                                         [i \in 1..Len(tg) |-> IF i > Len(tg) - Len(sh) THEN -1 ELSE tg[i]]} ELSE {})
Perms(r) == CASE r = 0 -> {<<>>} [] r = 1 -> {<<0>>, <<-1>>} [] r = 2 -> {<<0, 1>>, <<1, 0>>, <<-1, 0>>, <<-1, -2>>}
              [] r = 3 -> {<<0, 1, 2>>, <<2, 0, 1>>, <<1, 2, 0>>, <<2, 1, 0>>, <<0, -1, 1>>, <<-1, -3, -2>>}
              [] OTHER -> {<<0, 1, 2, 3>>, <<3, 2, 1, 0>>, <<0, 2, 1, 3>>, <<-1, 0, -2, 1>>}
ViewDts == IF Wide THEN AllDts ELSE {"i64", "f32"}
ViewMenu(o) ==
  UNION {
    LET r == Len(sh) x == TA(Mk(dt, sh, 1)) dd == IF r = 0 THEN {0, -1} ELSE DimsOf(r) IN
    CASE IsReshape(o) -> {<<x, LA(sz)>> : sz \in SizeMenu}
      [] IsExpand(o) -> UNION {{<<x, LA(sz)>> : sz \in KeepVariants(sh, tg)} : tg \in ExpandMenu(sh)}
                         \cup (IF o = "aten::expand" /\ r = 1 THEN {<<x, LA(<<2, -1>>), KW("implicit", BA(FALSE))>>} ELSE {})
      [] o = "aten::expand_as" -> {<<x, TA(Mk(dt, tg, 2))>> : tg \in ExpandMenu(sh)}
      [] o = "aten::view_as" -> {<<x, TA(Mk(dt, tg, 2))>> : tg \in {t \in Shapes : Numel(t) = Numel(sh)}}
      [] o = "aten::permute" -> {<<x, LA(p)>> : p \in Perms(r)}
      [] o \in {"aten::squeeze", "aten::t"} -> {<<x>>}
      [] o = "aten::squeeze.dim" -> {<<x, IA(d)>> : d \in dd}
      [] o = "aten::unsqueeze" -> {<<x, IA(d)>> : d \in (-(r + 1))..r}
      [] o = "aten::flatten.using_ints" -> {<<x>>, <<x, IA(1)>>} \cup {<<x, IA(s), IA(e)>> : s \in dd, e \in dd}
      [] o = "aten::transpose.int" -> {<<x, IA(d0), IA(d1)>> : d0 \in dd, d1 \in dd}
      [] o = "aten::unflatten.int" -> {<<x, IA(d), LA(sz)>> : d \in dd, sz \in {<<-1>>, <<1, -1>>, <<3, 1>>, <<1, 2>>, <<2, -1>>, <<0, 2>>, <<2>>, <<3>>}}
    : dt \in ViewDts, sh \in Shapes}

-----------------------------------------------------------------------------
(* ===== family "index": cat / stack / split / chunk / slice / select / narrow / index_select / gather / scatter /  *)
(*                      tril / triu / flip / roll / repeat / tile / constant_pad_nd                                *)
IdxOps == {"aten::cat", "aten::stack", "aten::split.Tensor", "aten::chunk", "aten::split_with_sizes", "aten::unbind.int",
           "aten::slice.Tensor", "aten::select.int", "aten::narrow", "aten::index_select", "aten::gather",
           "aten::scatter.src", "aten::scatter.value", "aten::scatter_add", "aten::tril", "aten::triu", "aten::flip", "aten::roll",
           "aten::repeat", "aten::tile", "aten::constant_pad_nd"}
\* pieces of `t` along axis ax (0-based) with the given sizes
SplitBy(t, ax, sizes) ==
  [j \in 1..Len(sizes) |->
     LET off == SeqSum(SubSeq(sizes, 1, j - 1)) IN
     ApplyPlan(t, [i \in 1..Rank(t) |-> IF i = ax + 1 THEN <<off, 1, sizes[j]>> ELSE <<0, 1, t.shape[i]>>])]
ChunkSizes(n, ss) == IF n = 0 THEN <<0>> ELSE [j \in 1..CeilDiv(n, ss) |-> Min2(ss, n - (j - 1) * ss)]
SelectAt(t, ax, i) ==      \* t[..., i, ...] with the axis removed
  LET s == ApplyPlan(t, [k \in 1..Rank(t) |-> IF k = ax + 1 THEN <<i, 1, 1>> ELSE <<0, 1, t.shape[k]>>])
  IN T(t.dt, RemoveAt(t.shape, ax + 1), s.data)
\* legacy rule of cat: 1-D tensors with zero elements are skipped
CatKept(ts) == SelectSeq(ts, LAMBDA t : t.shape # <<0>>)
TrilV(t, diag, upper) ==
  LET r == Rank(t) IN
  FromFn(t.dt, t.shape, LAMBDA idx : LET i == idx[r - 1] j == idx[r] IN
                                      IF (IF upper THEN j - i >= diag ELSE j - i <= diag) THEN At(t, idx) ELSE 0)
FlipT(t, axes) == FromFn(t.dt, t.shape, LAMBDA idx : At(t, [i \in 1..Rank(t) |-> IF (i - 1) \in axes THEN t.shape[i] - 1 - idx[i] ELSE idx[i]]))
RollAx(t, ax, sh) == FromFn(t.dt, t.shape, LAMBDA idx : At(t, [idx EXCEPT ![ax + 1] = (@ - sh) % t.shape[ax + 1]]))
RECURSIVE RollSeq(_, _, _)
RollSeq(t, shifts, dims) == IF shifts = <<>> THEN t ELSE RollSeq(RollAx(t, Head(dims), Head(shifts)), Tail(shifts), Tail(dims))
TileT(t, reps) ==          \* Len(reps) = Rank(t)
  LET oshape == [i \in 1..Rank(t) |-> t.shape[i] * reps[i]] IN
  FromFn(t.dt, oshape, LAMBDA idx : At(t, [i \in 1..Rank(t) |-> idx[i] % t.shape[i]]))
PadOnes(shape, n) == [i \in 1..n |-> 1] \o shape
\* constant_pad_nd: pad = (last_begin, last_end, prev_begin, prev_end, ...); negative pads crop
PadBegin(pad, r, i) == LET k == r - i IN IF 2 * k + 1 <= Len(pad) THEN pad[2 * k + 1] ELSE 0      \* i: 1-based axis
PadEnd(pad, r, i) == LET k == r - i IN IF 2 * k + 2 <= Len(pad) THEN pad[2 * k + 2] ELSE 0
PadT(t, pad, v) ==
  LET r == Rank(t)
      oshape == [i \in 1..r |-> t.shape[i] + PadBegin(pad, r, i) + PadEnd(pad, r, i)]
  IN FromFn(t.dt, oshape, LAMBDA idx : LET src == [i \in 1..r |-> idx[i] - PadBegin(pad, r, i)] IN
                                        IF \A i \in 1..r : src[i] >= 0 /\ src[i] < t.shape[i] THEN At(t, src) ELSE v)
GatherEl(t, ax, ind) == FromFn(t.dt, ind.shape, LAMBDA idx : At(t, [idx EXCEPT ![ax + 1] = At(ind, idx)]))
\* scatter along ax: out[..ind[idx]..] = src[idx] (reduce: "none" last writer in row-major order / "add")
ScatterEl(t, ax, ind, src, add) ==
  FromFn(t.dt, t.shape, LAMBDA o :
     LET hits == {l \in 0..(Numel(ind.shape) - 1) : LET idx == Unravel(l, ind.shape) IN [idx EXCEPT ![ax + 1] = At(ind, idx)] = o}
     IN IF hits = {} THEN At(t, o)
        ELSE IF add THEN At(t, o) + SeqSum([k \in 1..Cardinality(hits) |->
                            LET l == CHOOSE l \in hits : Cardinality({m \in hits : m < l}) = k - 1 IN At(src, Unravel(l, ind.shape))])
        ELSE LET l == CHOOSE l \in hits : \A m \in hits : m <= l IN At(src, Unravel(l, ind.shape)))
InRange(t, n) == \A k \in 1..Len(t.data) : t.data[k] >= 0 /\ t.data[k] < n
IdxDom(o, a) ==
  IF o \in {"aten::cat", "aten::stack"} THEN
     LET ts == TList(a, 1) d == IntOr(AfterTL(a, 1, 1), 0) kept == CatKept(ts) IN
     /\ Len(ts) >= 1 /\ \A i \in 1..Len(ts) : ts[i].dt = ts[1].dt /\ AllowedAt(o, 1, ts[i].dt)
     /\ IF o = "aten::stack" THEN /\ \A i \in 1..Len(ts) : ts[i].shape = ts[1].shape
                                  /\ d \in (-(Rank(ts[1]) + 1))..Rank(ts[1])
        ELSE IF kept = <<>> THEN d \in {0, -1}
        ELSE LET r == Rank(kept[1]) IN
             /\ r >= 1 /\ d \in DimsOf(r)
             /\ \A i \in 1..Len(kept) : /\ Rank(kept[i]) = r
                                        /\ \A j \in 1..r : j # NormDim(d, r) + 1 => kept[i].shape[j] = kept[1].shape[j]
  ELSE
  LET self == TOf(P(a, 1)) r == Rank(self) sh == self.shape dt == self.dt IN
  /\ AllowedAt(o, 1, dt)
  /\ CASE o = "aten::split.Tensor" -> LET d == IntOr(P(a, 3), 0) IN
            r >= 1 /\ d \in DimsOf(r) /\ P(a, 2).v >= 1
       [] o = "aten::chunk" -> LET d == IntOr(P(a, 3), 0) IN r >= 1 /\ d \in DimsOf(r) /\ P(a, 2).v >= 1
       [] o = "aten::split_with_sizes" -> LET d == IntOr(P(a, 3), 0) IN
            r >= 1 /\ d \in DimsOf(r) /\ AllGE0(T("i64", <<>>, P(a, 2).data)) /\ SeqSum(P(a, 2).data) = sh[NormDim(d, r) + 1]
       [] o = "aten::unbind.int" -> LET d == IntOr(P(a, 2), 0) IN r >= 1 /\ d \in DimsOf(r) /\ sh[NormDim(d, r) + 1] >= 1
       [] o = "aten::slice.Tensor" -> LET d == IntOr(P(a, 2), 0) IN r >= 1 /\ d \in DimsOf(r) /\ IntOr(P(a, 5), 1) >= 1
       [] o = "aten::select.int" -> r >= 1 /\ P(a, 2).v \in DimsOf(r)
                                    /\ LET n == sh[NormDim(P(a, 2).v, r) + 1] IN P(a, 3).v >= -n /\ P(a, 3).v < n
       [] o = "aten::narrow" -> r >= 1 /\ P(a, 2).v \in DimsOf(r)
                                /\ LET n == sh[NormDim(P(a, 2).v, r) + 1] st == P(a, 3).v ln == P(a, 4).v
                                       st2 == IF st < 0 THEN st + n ELSE st
                                   IN st >= -n /\ st <= n /\ ln >= 0 /\ st2 + ln <= n
       [] o = "aten::index_select" -> LET ind == TOf(P(a, 3)) IN
            /\ DimOK(P(a, 2).v, r) /\ Rank(ind) <= 1 /\ ind.dt \in {"i64", "i32"}
            /\ IF r = 0 THEN Numel(ind.shape) = 1 /\ InRange(ind, 1) ELSE InRange(ind, sh[NormDim(P(a, 2).v, r) + 1])
       [] o = "aten::gather" -> LET ind == TOf(P(a, 3)) IN
            /\ r >= 1 /\ P(a, 2).v \in DimsOf(r) /\ Rank(ind) = r /\ ind.dt = "i64"
            /\ \A i \in 1..r : i # NormDim(P(a, 2).v, r) + 1 => ind.shape[i] <= sh[i]
            /\ InRange(ind, sh[NormDim(P(a, 2).v, r) + 1])
       [] o \in {"aten::scatter.src", "aten::scatter_add", "aten::scatter.value"} ->
            LET ind == TOf(P(a, 3)) v == P(a, 4) ax == NormDim(P(a, 2).v, r) IN
            /\ r >= 1 /\ P(a, 2).v \in DimsOf(r) /\ Rank(ind) = r /\ ind.dt = "i64"
            /\ \A i \in 1..r : i # ax + 1 => ind.shape[i] <= sh[i]
            /\ InRange(ind, sh[ax + 1])
            /\ v.k = "t" => (v.s = dt /\ Len(v.shape) = r /\ \A i \in 1..r : ind.shape[i] <= v.shape[i])
            /\ IsNum(v) => (NumCat(v) <= Cat(dt) /\ (dt = "u8" => v.v >= 0) /\ (dt = "bool" => v.k = "b"))
            /\ o = "aten::scatter_add" => dt # "bool"
            \* without a reduction the result is only defined when no output element is written twice
            /\ o # "aten::scatter_add" =>
                 \A l1, l2 \in 0..(Numel(ind.shape) - 1) : l1 # l2 =>
                    LET i1 == Unravel(l1, ind.shape) i2 == Unravel(l2, ind.shape)
                    IN [i1 EXCEPT ![ax + 1] = At(ind, i1)] # [i2 EXCEPT ![ax + 1] = At(ind, i2)]
       [] o \in {"aten::tril", "aten::triu"} -> r >= 2
       [] o = "aten::flip" -> LET d == P(a, 2).data IN
            /\ \A i \in 1..Len(d) : DimOK(d[i], r)
            /\ Cardinality({ND(d[i], r) : i \in 1..Len(d)}) = Len(d)
       [] o = "aten::roll" -> LET s == P(a, 2).data d == IF Given(P(a, 3)) THEN P(a, 3).data ELSE <<>> IN
            /\ Len(s) >= 1
            /\ IF d = <<>> THEN Len(s) = 1 ELSE r >= 1 /\ Len(s) = Len(d) /\ \A i \in 1..Len(d) : DimOK(d[i], r)
       [] o = "aten::repeat" -> Len(P(a, 2).data) >= r /\ AllGE0(T("i64", <<>>, P(a, 2).data))
       [] o = "aten::tile" -> AllGE0(T("i64", <<>>, P(a, 2).data))
       [] o = "aten::constant_pad_nd" -> LET pad == P(a, 2).data v == P(a, 3) IN
            /\ Len(pad) % 2 = 0 /\ Len(pad) <= 2 * r
            /\ \A i \in 1..r : /\ sh[i] + PadBegin(pad, r, i) + PadEnd(pad, r, i) >= 0
                               /\ sh[i] + Min2(PadBegin(pad, r, i), 0) >= 0 /\ sh[i] + Min2(PadBegin(pad, r, i), 0) + Min2(PadEnd(pad, r, i), 0) >= 0
            /\ IsNum(v) => (NumCat(v) <= Cat(dt) /\ (dt = "u8" => v.v >= 0) /\ (dt = "bool" => v.k = "b"))
IdxAten(o, a) ==
  IF o = "aten::cat" THEN
     LET ts == TList(a, 1) d == IntOr(AfterTL(a, 1, 1), 0) kept == CatKept(ts) IN
     IF kept = <<>> THEN One(ts[1]) ELSE One(Concat(kept, d))
  ELSE IF o = "aten::stack" THEN
     LET ts == TList(a, 1) d == IntOr(AfterTL(a, 1, 1), 0) r == Rank(ts[1]) d2 == IF d < 0 THEN d + r + 1 ELSE d IN
     One(Concat([i \in 1..Len(ts) |-> T(ts[i].dt, InsertAt(ts[i].shape, d2 + 1, 1), ts[i].data)], d2))
  ELSE
  LET self == TOf(P(a, 1)) r == Rank(self) sh == self.shape dt == self.dt IN
  CASE o = "aten::split.Tensor" -> LET ax == NormDim(IntOr(P(a, 3), 0), r) IN Lst(SplitBy(self, ax, ChunkSizes(sh[ax + 1], P(a, 2).v)))
    [] o = "aten::chunk" -> LET ax == NormDim(IntOr(P(a, 3), 0), r) n == sh[ax + 1] c == P(a, 2).v IN
         Lst(SplitBy(self, ax, IF n = 0 THEN [j \in 1..c |-> 0] ELSE ChunkSizes(n, CeilDiv(n, c))))
    [] o = "aten::split_with_sizes" -> Lst(SplitBy(self, NormDim(IntOr(P(a, 3), 0), r), P(a, 2).data))
    [] o = "aten::unbind.int" -> LET ax == NormDim(IntOr(P(a, 2), 0), r) IN Lst([j \in 1..sh[ax + 1] |-> SelectAt(self, ax, j - 1)])
    [] o = "aten::slice.Tensor" ->
         LET ax == NormDim(IntOr(P(a, 2), 0), r)
             s == IF Given(P(a, 3)) THEN P(a, 3).v ELSE NONE  e == IF Given(P(a, 4)) THEN P(a, 4).v ELSE NONE
         IN One(ApplyPlan(self, [i \in 1..r |-> IF i = ax + 1 THEN NpPlanAxis(sh[i], s, e, IntOr(P(a, 5), 1)) ELSE <<0, 1, sh[i]>>]))
    [] o = "aten::select.int" -> LET ax == NormDim(P(a, 2).v, r) n == sh[ax + 1] IN One(SelectAt(self, ax, IF P(a, 3).v < 0 THEN P(a, 3).v + n ELSE P(a, 3).v))
    [] o = "aten::narrow" -> LET ax == NormDim(P(a, 2).v, r) n == sh[ax + 1] st == IF P(a, 3).v < 0 THEN P(a, 3).v + n ELSE P(a, 3).v IN
         One(ApplyPlan(self, [i \in 1..r |-> IF i = ax + 1 THEN <<st, 1, P(a, 4).v>> ELSE <<0, 1, sh[i]>>]))
    [] o = "aten::index_select" -> LET ind == TOf(P(a, 3)) IN
         IF r = 0 THEN One(self)
         ELSE One(Gather(self, T("i64", <<Numel(ind.shape)>>, ind.data), NormDim(P(a, 2).v, r)))
    [] o = "aten::gather" -> One(GatherEl(self, NormDim(P(a, 2).v, r), TOf(P(a, 3))))
    [] o \in {"aten::scatter.src", "aten::scatter_add"} -> One(CastT(ScatterEl(self, NormDim(P(a, 2).v, r), TOf(P(a, 3)), TOf(P(a, 4)), o = "aten::scatter_add"), dt))
    [] o = "aten::scatter.value" -> LET ind == TOf(P(a, 3)) IN
         One(ScatterEl(self, NormDim(P(a, 2).v, r), ind, T(dt, ind.shape, [k \in 1..Numel(ind.shape) |-> Wrap(dt, P(a, 4).v)]), FALSE))
    [] o = "aten::tril" -> One(TrilV(self, IntOr(P(a, 2), 0), FALSE))
    [] o = "aten::triu" -> One(TrilV(self, IntOr(P(a, 2), 0), TRUE))
    [] o = "aten::flip" -> One(IF r = 0 THEN self ELSE FlipT(self, {ND(P(a, 2).data[i], r) : i \in 1..Len(P(a, 2).data)}))
    [] o = "aten::roll" -> LET s == P(a, 2).data d == IF Given(P(a, 3)) THEN P(a, 3).data ELSE <<>> IN
         IF Numel(sh) = 0 \/ r = 0 THEN One(self)
         ELSE IF d = <<>> THEN LET flat == RollAx(T(dt, <<Numel(sh)>>, self.data), 0, s[1]) IN One(T(dt, sh, flat.data))
         ELSE One(RollSeq(self, s, [i \in 1..Len(d) |-> ND(d[i], r)]))
    [] o = "aten::repeat" -> LET reps == P(a, 2).data n == Len(reps) IN One(TileT(T(dt, PadOnes(sh, n - r), self.data), reps))
    [] o = "aten::tile" -> LET reps == P(a, 2).data n == Max2(Len(reps), r) IN
         One(TileT(T(dt, PadOnes(sh, n - r), self.data), PadOnes(reps, n - Len(reps))))
    [] o = "aten::constant_pad_nd" -> One(PadT(self, P(a, 2).data, Wrap(dt, IntOr(P(a, 3), 0))))
IdxDts == IF Wide THEN AllDts ELSE {"i64", "f32"}
IdxShapes == (IF Wide THEN Shapes ELSE {<<0>>, <<1>>, <<3>>, <<2, 3>>, <<2, 1>>, <<0, 2>>, <<2, 1, 3>>, <<1, 2, 0>>}) \ {<<>>}
SameButAxis(sh, ax, n) == [sh EXCEPT ![ax + 1] = n]
IndexFor(sh, ax, p) ==      \* an int64 index tensor of shape sh whose entries are valid positions < n (n >= 1)
  LET n == p IN T("i64", sh, [k \in 1..Numel(sh) |-> (k * 2 + 1) % n])
IdxMenu(o) ==
  UNION {
    LET r == Len(sh) x == TA(Mk(dt, sh, 1)) dd == IF r = 0 THEN {0, -1} ELSE DimsOf(r) IN
    CASE o = "aten::cat" ->
           (IF r = 0 THEN {}
            ELSE UNION {UNION {{<<TL(1), x>> \o d, <<TL(2), x, TA(Mk(dt, SameButAxis(sh, NormDim(ax, r), 1), 2))>> \o d,
                         <<TL(3), x, TA(Mk(dt, SameButAxis(sh, NormDim(ax, r), 0), 2)), TA(Mk(dt, sh, 2))>> \o d,
                         <<TL(3), TA(Mk(dt, <<0>>, 1)), x, TA(Mk(dt, sh, 2))>> \o d,
                         <<TL(2), x, TA(Mk(dt, <<0>>, 1))>> \o d}
                        : d \in {<<IA(ax)>>} \cup (IF ax = 0 THEN {<<>>} ELSE {})} : ax \in dd})
           \cup {<<TL(2), TA(Mk(dt, <<0>>, 1)), TA(Mk(dt, <<0>>, 1))>>}
      [] o = "aten::stack" ->
           UNION {{<<TL(1), x>> \o d, <<TL(2), x, TA(Mk(dt, sh, 2))>> \o d, <<TL(3), x, TA(Mk(dt, sh, 2)), x>> \o d}
                  : d \in {<<IA(dv)>> : dv \in (-(r + 1))..r} \cup {<<>>}}
      [] o = "aten::split.Tensor" -> {<<x, IA(ss)>> \o d : ss \in {1, 2, 3, 5}, d \in {<<>>} \cup {<<IA(dv)>> : dv \in dd}}
      [] o = "aten::chunk" -> {<<x, IA(c)>> \o d : c \in {1, 2, 3, 4}, d \in {<<>>} \cup {<<IA(dv)>> : dv \in dd}}
      [] o = "aten::split_with_sizes" -> {<<x, LA(sz)>> \o d : sz \in {<<0>>, <<1>>, <<2>>, <<3>>, <<1, 2>>, <<2, 0, 1>>, <<1, 1>>, <<0, 0>>, <<1, 0, 1, 1>>},
                                                             d \in {<<>>} \cup {<<IA(dv)>> : dv \in dd}}
      [] o = "aten::unbind.int" -> {<<x>> \o d : d \in {<<>>} \cup {<<IA(dv)>> : dv \in dd}}
      [] o = "aten::slice.Tensor" ->
           {<<x>>, <<x, IA(0), IA(1)>>, <<x, IA(0), NA, IA(2)>>}
           \cup {<<x, IA(dv), s, e>> \o st : dv \in (IF Wide THEN dd ELSE {0, -1}), s \in (IF Wide THEN {NA, IA(0), IA(1), IA(-1), IA(-5), IA(7)} ELSE {NA, IA(1), IA(-1), IA(-5)}), e \in (IF Wide THEN {NA, IA(0), IA(2), IA(-1), IA(9), IA(-7)} ELSE {NA, IA(2), IA(-1), IA(9)}),
                                             st \in (IF Wide THEN {<<>>, <<IA(2)>>, <<IA(3)>>} ELSE {<<>>, <<IA(2)>>})}
      [] o = "aten::select.int" -> {<<x, IA(dv), IA(i)>> : dv \in dd, i \in (-3)..2}
      [] o = "aten::narrow" -> {<<x, IA(dv), IA(st), IA(ln)>> : dv \in dd, st \in (IF Wide THEN (-3)..3 ELSE {-2, -1, 0, 1, 3}), ln \in (IF Wide THEN 0..3 ELSE {0, 1, 2})}
      [] o = "aten::index_select" ->
           {<<x, IA(dv), TA(ind)>> : dv \in dd, ind \in {Scalar("i64", 0), Vec("i64", <<0>>), Vec("i64", <<1, 0, 1>>), Vec("i32", <<2, 0>>), Vec("i64", <<>>)}}
      [] o = "aten::gather" ->
           UNION {{<<x, IA(dv), TA(IndexFor(ish, NormDim(dv, r), Max2(1, sh[NormDim(dv, r) + 1])))>> \o kw
                   : ish \in {sh, SameButAxis(sh, NormDim(dv, r), 3), SameButAxis(sh, NormDim(dv, r), 0), [i \in 1..r |-> Min2(sh[i], 1)]},
                     kw \in {<<>>}} : dv \in (IF r = 0 THEN {} ELSE dd)}
      [] o \in {"aten::scatter.src", "aten::scatter_add"} ->
           UNION {UNION {{<<x, IA(dv), TA(IndexFor(ish, NormDim(dv, r), Max2(1, sh[NormDim(dv, r) + 1]))), TA(Mk(dt, ssh, 2))>>
                          : ssh \in {ish}}
                   : ish \in {sh, [i \in 1..r |-> Min2(sh[i], 1)], SameButAxis(sh, NormDim(dv, r), 1), SameButAxis(sh, NormDim(dv, r), 0)}}
                  : dv \in (IF r = 0 THEN {} ELSE dd)}
      [] o = "aten::scatter.value" ->
           UNION {{<<x, IA(dv), TA(IndexFor(ish, NormDim(dv, r), Max2(1, sh[NormDim(dv, r) + 1]))), v>>
                   : ish \in {sh, [i \in 1..r |-> Min2(sh[i], 1)], SameButAxis(sh, NormDim(dv, r), 1), SameButAxis(sh, NormDim(dv, r), 0)},
                     v \in ScalarsFor(dt)} : dv \in (IF r = 0 THEN {} ELSE dd)}
      [] o \in {"aten::tril", "aten::triu"} -> {<<x>>} \cup {<<x, IA(k)>> : k \in {-1, 0, 1, 2, -3}}
      [] o = "aten::flip" -> {<<x, LA(l)>> : l \in {<<>>} \cup {<<dv>> : dv \in dd} \cup (IF r >= 2 THEN {<<0, -1>>, <<-1, -2>>} ELSE {})}
      [] o = "aten::roll" -> {<<x, LA(<<s>>)>> : s \in {1, -1, 4, 0}} \cup {<<x, LA(<<s>>), LA(<<dv>>)>> : s \in {1, -2}, dv \in dd}
                              \cup (IF r >= 2 THEN {<<x, LA(<<1, 2>>), LA(<<0, -1>>)>>, <<x, LA(<<-1, 1>>), LA(<<1, 1>>)>>} ELSE {})
      [] o = "aten::repeat" -> {<<x, LA(l)>> : l \in {<<>>, <<2>>, <<1>>, <<0>>, <<2, 1>>, <<1, 2>>, <<2, 0>>, <<2, 1, 2>>, <<1, 1, 1>>, <<3, 1, 1, 2>>}}
      [] o = "aten::tile" -> {<<x, LA(l)>> : l \in {<<>>, <<2>>, <<1>>, <<0>>, <<2, 1>>, <<1, 2>>, <<2, 1, 2>>, <<1, 2, 1, 1>>}}
      [] o = "aten::constant_pad_nd" ->
           {<<x, LA(l)>> \o v : l \in {<<>>, <<1, 0>>, <<0, 2>>, <<1, 1>>, <<-1, 0>>, <<0, -1>>, <<1, 0, 0, 1>>, <<-1, 1, 2, 0>>, <<0, 0, 1, 1>>, <<1, 0, 0, 0, 0, 1>>},
                                v \in (IF Wide THEN {<<>>} \cup {<<s>> : s \in ScalarsFor(dt)} ELSE {<<>>, <<IA(IF dt = "bool" THEN 1 ELSE 2)>>})}
    : dt \in IdxDts, sh \in (IF o \in {"aten::index_select", "aten::flip", "aten::roll", "aten::repeat", "aten::tile", "aten::constant_pad_nd", "aten::stack"} THEN IdxShapes \cup {<<>>} ELSE IdxShapes)}

-----------------------------------------------------------------------------
(* ===== family "create" ===== *)
CreateOps == {"aten::zeros", "aten::ones", "aten::full", "aten::zeros_like", "aten::ones_like", "aten::full_like",
              "aten::new_zeros", "aten::new_ones", "aten::new_full", "aten::arange", "aten::arange.start", "aten::arange.start_step",
              "aten::scalar_tensor"}
KwDt(a, default) == LET d == Kw(a, "dtype") IN IF Given(d) THEN d.s ELSE default
Const(dt, shape, v) == T(dt, shape, [k \in 1..Numel(shape) |-> Wrap(dt, v)])
RangeLen(s, e, st) == IF st > 0 THEN Max2(0, CeilDiv(e - s, st)) ELSE Max2(0, CeilDiv(s - e, -st))
ArangeArgs(o, a) == CASE o = "aten::arange" -> <<IA(0), P(a, 1), IA(1)>>
                      [] o = "aten::arange.start" -> <<P(a, 1), P(a, 2), IA(1)>>
                      [] OTHER -> <<P(a, 1), P(a, 2), IF Given(P(a, 3)) THEN P(a, 3) ELSE IA(1)>>
CreateDom(o, a) ==
  CASE o \in {"aten::zeros", "aten::ones"} -> AllGE0(T("i64", <<>>, P(a, 1).data))
    [] o = "aten::full" -> /\ AllGE0(T("i64", <<>>, P(a, 1).data))
                           /\ LET dt == KwDt(a, NumDt(P(a, 2))) IN (dt = "u8" => P(a, 2).v >= 0) /\ NumCat(P(a, 2)) <= Cat(dt)
    [] o \in {"aten::zeros_like", "aten::ones_like"} -> AllowedAt(o, 1, P(a, 1).s)
    [] o = "aten::full_like" -> /\ AllowedAt(o, 1, P(a, 1).s)
                                /\ LET dt == KwDt(a, P(a, 1).s) IN (dt = "u8" => P(a, 2).v >= 0) /\ NumCat(P(a, 2)) <= Cat(dt) /\ (dt = "bool" => P(a, 2).k = "b")
    [] o \in {"aten::new_zeros", "aten::new_ones"} -> AllowedAt(o, 1, P(a, 1).s) /\ AllGE0(T("i64", <<>>, P(a, 2).data))
    [] o = "aten::new_full" -> /\ AllowedAt(o, 1, P(a, 1).s) /\ AllGE0(T("i64", <<>>, P(a, 2).data))
                               /\ LET dt == KwDt(a, P(a, 1).s) IN (dt = "u8" => P(a, 3).v >= 0) /\ NumCat(P(a, 3)) <= Cat(dt) /\ (dt = "bool" => P(a, 3).k = "b")
    [] o \in {"aten::arange", "aten::arange.start", "aten::arange.start_step"} ->
         LET q == ArangeArgs(o, a) dflt == IF \E i \in 1..3 : q[i].k = "f" THEN "f32" ELSE "i64" dt == KwDt(a, dflt) IN
         /\ q[3].v # 0 /\ \A i \in 1..3 : q[i].k \in {"i", "f"}
         /\ (q[3].v > 0 => q[2].v >= q[1].v) /\ (q[3].v < 0 => q[2].v <= q[1].v)
         /\ dt # "bool" /\ (dt = "u8" => q[1].v >= 0 /\ q[2].v >= 0 /\ q[3].v > 0)
         /\ (IsInt(dt) /\ Given(Kw(a, "dtype"))) => \A i \in 1..3 : q[i].k = "i"
    [] o = "aten::scalar_tensor" -> LET dt == KwDt(a, "f32") IN (dt = "u8" => P(a, 1).v >= 0) /\ NumCat(P(a, 1)) <= Cat(dt) /\ (dt = "bool" => P(a, 1).k = "b")
CreateAten(o, a) ==
  CASE o = "aten::zeros" -> One(Const(KwDt(a, "f32"), P(a, 1).data, 0))
    [] o = "aten::ones" -> One(Const(KwDt(a, "f32"), P(a, 1).data, 1))
    [] o = "aten::full" -> One(Const(KwDt(a, NumDt(P(a, 2))), P(a, 1).data, P(a, 2).v))
    [] o = "aten::zeros_like" -> One(Const(KwDt(a, P(a, 1).s), P(a, 1).shape, 0))
    [] o = "aten::ones_like" -> One(Const(KwDt(a, P(a, 1).s), P(a, 1).shape, 1))
    [] o = "aten::full_like" -> One(Const(KwDt(a, P(a, 1).s), P(a, 1).shape, P(a, 2).v))
    [] o = "aten::new_zeros" -> One(Const(KwDt(a, P(a, 1).s), P(a, 2).data, 0))
    [] o = "aten::new_ones" -> One(Const(KwDt(a, P(a, 1).s), P(a, 2).data, 1))
    [] o = "aten::new_full" -> One(Const(KwDt(a, P(a, 1).s), P(a, 2).data, P(a, 3).v))
    [] o = "aten::scalar_tensor" -> One(Scalar(KwDt(a, "f32"), Wrap(KwDt(a, "f32"), P(a, 1).v)))
    [] OTHER -> LET q == ArangeArgs(o, a) dflt == IF \E i \in 1..3 : q[i].k = "f" THEN "f32" ELSE "i64" dt == KwDt(a, dflt)
                    n == RangeLen(q[1].v, q[2].v, q[3].v)
                IN One(T(dt, <<n>>, [k \in 1..n |-> q[1].v + (k - 1) * q[3].v]))
DtKws == {<<>>, <<KW("dtype", NA)>>} \cup {<<KW("dtype", DA(d))>> : d \in (IF Wide THEN AllDts ELSE {"bool", "i32", "i64", "f16", "f32"})}
CreateSizes == {<<>>, <<0>>, <<3>>, <<2, 3>>, <<2, 0>>, <<1, 2, 2>>}
FillVals == {IA(2), IA(-3), FA(2), BA(TRUE), IA(0)}
CreateMenu(o) ==
  CASE o \in {"aten::zeros", "aten::ones"} -> {<<LA(sz)>> \o kw : sz \in CreateSizes, kw \in DtKws}
    [] o = "aten::full" -> {<<LA(sz), v>> \o kw : sz \in CreateSizes, v \in FillVals, kw \in DtKws}
    [] o \in {"aten::zeros_like", "aten::ones_like"} -> {<<TA(Mk(dt, sh, 1))>> \o kw : dt \in SomeDts, sh \in (IF Wide THEN Shapes ELSE {<<>>, <<0>>, <<2, 3>>}), kw \in DtKws}
    [] o = "aten::full_like" -> {<<TA(Mk(dt, sh, 1)), v>> \o kw : dt \in SomeDts, sh \in (IF Wide THEN {<<>>, <<0>>, <<3>>, <<2, 3>>, <<2, 1, 3>>} ELSE {<<>>, <<2, 3>>}), v \in FillVals, kw \in DtKws}
    [] o \in {"aten::new_zeros", "aten::new_ones"} -> {<<TA(Mk(dt, sh, 1)), LA(sz)>> \o kw : dt \in SomeDts, sh \in (IF Wide THEN {<<>>, <<3>>, <<0, 2>>} ELSE {<<3>>}), sz \in (IF Wide THEN CreateSizes ELSE {<<>>, <<0>>, <<2, 3>>}), kw \in DtKws}
    [] o = "aten::new_full" -> {<<TA(Mk(dt, sh, 1)), LA(sz), v>> \o kw : dt \in SomeDts, sh \in (IF Wide THEN {<<>>, <<2, 3>>} ELSE {<<2, 3>>}), sz \in (IF Wide THEN {<<>>, <<0>>, <<2, 3>>} ELSE {<<>>, <<2, 3>>}), v \in FillVals, kw \in DtKws}
    [] o = "aten::arange" -> {<<e>> \o kw : e \in {IA(0), IA(4), FA(3), IA(1)}, kw \in DtKws}
    [] o = "aten::arange.start" -> {<<s, e>> \o kw : s \in {IA(0), IA(-2), FA(1), IA(2)}, e \in {IA(2), IA(4), FA(3)}, kw \in DtKws}
    [] o = "aten::arange.start_step" -> {<<s, e>> \o st \o kw : s \in {IA(0), IA(-2), FA(1), IA(5)}, e \in {IA(4), FA(3), IA(-1), IA(5)},
                                                               st \in {<<>>, <<IA(1)>>, <<IA(2)>>, <<IA(-2)>>, <<FA(2)>>}, kw \in DtKws}
    [] o = "aten::scalar_tensor" -> {<<v>> \o kw : v \in FillVals, kw \in DtKws}

-----------------------------------------------------------------------------
(* ===== family "matmul": mm / bmm / matmul / mv / dot / addmm / baddbmm / addmv / linear (integer-valued, exact) ===== *)
MatOps == {"aten::mm", "aten::bmm", "aten::matmul", "aten::mv", "aten::dot", "aten::addmm", "aten::baddbmm", "aten::addmv", "aten::linear"}
\* 2-D x 2-D
MM2(x, y) == FromFn(x.dt, <<x.shape[1], y.shape[2]>>, LAMBDA idx : SeqSum([k \in 1..x.shape[2] |-> At(x, <<idx[1], k - 1>>) * At(y, <<k - 1, idx[2]>>)]))
\* numpy/torch matmul for ranks 1..3: 1-D operands are promoted and the added axis removed again; batch dims broadcast
MatMulOK(x, y) ==
  /\ Rank(x) >= 1 /\ Rank(y) >= 1 /\ Rank(x) <= 3 /\ Rank(y) <= 3
  /\ x.shape[Rank(x)] = (IF Rank(y) = 1 THEN y.shape[1] ELSE y.shape[Rank(y) - 1])
  /\ (Rank(x) = 3 /\ Rank(y) = 3) => (x.shape[1] = y.shape[1] \/ x.shape[1] = 1 \/ y.shape[1] = 1)
MatMul(x, y) ==
  LET x2 == IF Rank(x) = 1 THEN T(x.dt, <<1, x.shape[1]>>, x.data) ELSE x
      y2 == IF Rank(y) = 1 THEN T(y.dt, <<y.shape[1], 1>>, y.data) ELSE y
      b == IF Rank(x2) = 3 /\ Rank(y2) = 3 THEN Max2(x2.shape[1], y2.shape[1]) ELSE IF Rank(x2) = 3 THEN x2.shape[1] ELSE IF Rank(y2) = 3 THEN y2.shape[1] ELSE -1
      m == x2.shape[Rank(x2) - 1] kk == x2.shape[Rank(x2)] n == y2.shape[Rank(y2)]
      XA(bi, i, k) == IF Rank(x2) = 3 THEN At(x2, <<IF x2.shape[1] = 1 THEN 0 ELSE bi, i, k>>) ELSE At(x2, <<i, k>>)
      YA(bi, k, j) == IF Rank(y2) = 3 THEN At(y2, <<IF y2.shape[1] = 1 THEN 0 ELSE bi, k, j>>) ELSE At(y2, <<k, j>>)
      full == IF b = -1 THEN FromFn(x.dt, <<m, n>>, LAMBDA idx : SeqSum([k \in 1..kk |-> XA(0, idx[1], k - 1) * YA(0, k - 1, idx[2])]))
              ELSE FromFn(x.dt, <<b, m, n>>, LAMBDA idx : SeqSum([k \in 1..kk |-> XA(idx[1], idx[2], k - 1) * YA(idx[1], k - 1, idx[3])]))
      s1 == IF Rank(x) = 1 THEN RemoveAt(full.shape, Len(full.shape) - 1) ELSE full.shape
      s2 == IF Rank(y) = 1 THEN RemoveAt(s1, Len(s1)) ELSE s1
  IN T(x.dt, s2, full.data)
ScaleT(t, c) == Map1(t, t.dt, LAMBDA v : c * v)
AddBT(x, y) == Map2(x, y, x.dt, LAMBDA p, q : p + q)
MatDom(o, a) ==
  LET x == TOf(P(a, 1)) dt == x.dt
      same == \A i \in 1..Len(Posn(a)) : P(a, i).k = "t" => P(a, i).s = dt
      beta == Kw(a, "beta") alpha == Kw(a, "alpha") IN
  /\ AllowedAt(o, 1, dt) /\ same /\ dt \notin {"bool", "u8"}
  /\ \A s \in {beta, alpha} : Given(s) => NumCat(s) <= Cat(dt)
  /\ CASE o = "aten::mm" -> Rank(x) = 2 /\ Len(P(a, 2).shape) = 2 /\ MatMulOK(x, TOf(P(a, 2)))
       [] o = "aten::bmm" -> Rank(x) = 3 /\ Len(P(a, 2).shape) = 3 /\ x.shape[1] = P(a, 2).shape[1] /\ MatMulOK(x, TOf(P(a, 2)))
       [] o = "aten::matmul" -> MatMulOK(x, TOf(P(a, 2)))
       [] o = "aten::mv" -> Rank(x) = 2 /\ Len(P(a, 2).shape) = 1 /\ MatMulOK(x, TOf(P(a, 2)))
       [] o = "aten::dot" -> Rank(x) = 1 /\ Len(P(a, 2).shape) = 1 /\ x.shape = P(a, 2).shape
       [] o = "aten::addmm" -> LET m1 == TOf(P(a, 2)) m2 == TOf(P(a, 3)) IN
            Rank(m1) = 2 /\ Rank(m2) = 2 /\ MatMulOK(m1, m2) /\ BroadcastShape(x.shape, <<m1.shape[1], m2.shape[2]>>) = <<m1.shape[1], m2.shape[2]>>
       [] o = "aten::baddbmm" -> LET m1 == TOf(P(a, 2)) m2 == TOf(P(a, 3)) IN
            /\ Rank(m1) = 3 /\ Rank(m2) = 3 /\ m1.shape[1] = m2.shape[1] /\ MatMulOK(m1, m2)
            /\ BroadcastShape(x.shape, <<m1.shape[1], m1.shape[2], m2.shape[3]>>) = <<m1.shape[1], m1.shape[2], m2.shape[3]>>
       [] o = "aten::addmv" -> LET m == TOf(P(a, 2)) v == TOf(P(a, 3)) IN
            Rank(m) = 2 /\ Rank(v) = 1 /\ m.shape[1] > 0 /\ MatMulOK(m, v) /\ BroadcastShape(x.shape, <<m.shape[1]>>) = <<m.shape[1]>>
       [] o = "aten::linear" -> LET w == TOf(P(a, 2)) b == P(a, 3) IN
            /\ Rank(x) >= 1 /\ Rank(x) <= 3 /\ Rank(w) \in {1, 2} /\ x.shape[Rank(x)] = w.shape[Rank(w)]
            /\ Given(b) => (b.k = "t" /\ Rank(w) = 2 /\ b.shape \in {<<w.shape[1]>>})
MatAten(o, a) ==
  LET x == TOf(P(a, 1)) beta == IntOr(Kw(a, "beta"), 1) alpha == IntOr(Kw(a, "alpha"), 1) IN
  CASE o \in {"aten::mm", "aten::bmm", "aten::matmul", "aten::mv", "aten::dot"} -> One(MatMul(x, TOf(P(a, 2))))
    [] o \in {"aten::addmm", "aten::baddbmm", "aten::addmv"} ->
         One(AddBT(ScaleT(MatMul(TOf(P(a, 2)), TOf(P(a, 3))), alpha), ScaleT(x, beta)))
    [] o = "aten::linear" -> LET w == TOf(P(a, 2))
                                 wt == IF Rank(w) = 2 THEN Transpose(w, <<1, 0>>) ELSE w
                                 mm == MatMul(x, wt)
                             IN One(IF Given(P(a, 3)) THEN AddBT(mm, TOf(P(a, 3))) ELSE mm)
MatDts == IF Wide THEN {"i64", "i32", "f16", "f32", "f64"} ELSE {"i64", "i32", "f32"}
MatShapes == {<<2>>, <<3>>, <<2, 3>>, <<3, 2>>, <<1, 3>>, <<3, 1>>, <<0, 3>>, <<3, 0>>, <<2, 2, 3>>, <<2, 3, 2>>, <<1, 3, 2>>, <<2, 3, 1>>, <<2, 0, 3>>}
MatScal == {<<>>, <<KW("beta", IA(2))>>, <<KW("alpha", IA(-1))>>, <<KW("beta", IA(0)), KW("alpha", IA(3))>>}
MatMenu(o) ==
  UNION {
    CASE o \in {"aten::mm", "aten::bmm", "aten::matmul", "aten::mv", "aten::dot"} ->
           {<<TA(Mk(dt, s1, 1)), TA(Mk(dt, s2, 2))>> : s1 \in MatShapes, s2 \in MatShapes}
      [] o = "aten::addmm" ->
           {<<TA(Mk(dt, s0, 2)), TA(Mk(dt, s1, 1)), TA(Mk(dt, s2, 2))>> \o kw
              : s0 \in {<<>>, <<2>>, <<2, 2>>, <<3, 1>>, <<1, 2>>, <<3, 3>>}, s1 \in {<<2, 3>>, <<3, 2>>, <<0, 3>>, <<3, 0>>}, s2 \in {<<3, 2>>, <<2, 3>>, <<0, 2>>, <<3, 0>>}, kw \in MatScal}
      [] o = "aten::baddbmm" ->
           {<<TA(Mk(dt, s0, 2)), TA(Mk(dt, s1, 1)), TA(Mk(dt, s2, 2))>> \o kw
              : s0 \in {<<>>, <<2>>, <<2, 2, 2>>, <<2, 1>>, <<1, 2, 2>>}, s1 \in {<<2, 2, 3>>, <<1, 2, 3>>}, s2 \in {<<2, 3, 2>>, <<1, 3, 2>>}, kw \in MatScal}
      [] o = "aten::addmv" ->
           {<<TA(Mk(dt, s0, 2)), TA(Mk(dt, s1, 1)), TA(Mk(dt, s2, 2))>> \o kw
              : s0 \in {<<>>, <<2>>, <<1>>, <<3>>}, s1 \in {<<2, 3>>, <<3, 2>>, <<0, 3>>}, s2 \in {<<3>>, <<2>>}, kw \in MatScal}
      [] o = "aten::linear" ->
           {<<TA(Mk(dt, s1, 1)), TA(Mk(dt, s2, 2))>> \o b
              : s1 \in {<<3>>, <<2, 3>>, <<2, 2, 3>>, <<0, 3>>}, s2 \in {<<2, 3>>, <<1, 3>>, <<3>>}, b \in {<<>>, <<NA>>, <<TA(Mk(dt, <<2>>, 1))>>, <<TA(Mk(dt, <<1>>, 1))>>, <<TA(Mk(dt, <<>>, 1))>>}}
    : dt \in MatDts}

-----------------------------------------------------------------------------
(* ===== family "nn": float kernels - structure, element type and shape only ===== *)
NNOps == {"aten::softmax.int", "aten::log_softmax.int", "aten::_softmax", "aten::_log_softmax",
          "aten::layer_norm", "aten::native_layer_norm", "aten::group_norm", "aten::_native_batch_norm_legit_no_training",
          "aten::avg_pool2d", "aten::max_pool2d", "aten::conv2d", "aten::hardtanh"}
FX(v, e) == Arg("fx", "", <<>>, <<e>>, v)        \* the python float v * 10^e
PoolOut(n, k, s, p, d, ceil) ==
  LET num == n + 2 * p - d * (k - 1) - 1
      o1 == (IF ceil THEN CeilDiv(num, s) ELSE FloorDiv(num, s)) + 1
  IN IF ceil /\ (o1 - 1) * s >= n + p THEN o1 - 1 ELSE o1
L2(x, i, d) == IF ~Given(x) \/ x.data = <<>> THEN d ELSE IF Len(x.data) = 1 THEN x.data[1] ELSE x.data[i]
NNDom(o, a) ==
  LET x == TOf(P(a, 1)) r == Rank(x) dt == x.dt IN
  /\ AllowedAt(o, 1, dt) /\ IsFloat(dt)
  /\ CASE o \in {"aten::softmax.int", "aten::log_softmax.int", "aten::_softmax", "aten::_log_softmax"} -> DimOK(P(a, 2).v, r)
       [] o \in {"aten::layer_norm", "aten::native_layer_norm"} ->
            LET ns == P(a, 2).data k == Len(ns) IN
            /\ k >= 1 /\ k <= r /\ SubSeq(x.shape, r - k + 1, r) = ns /\ Numel(x.shape) > 0
            /\ o = "aten::native_layer_norm" => dt # "f16"      \* mean / rstd of a half input are device dependent (f16 on CPU, f32 on CUDA)
            /\ \A i \in {3, 4} : P(a, i).k = "t" => (P(a, i).shape = ns /\ P(a, i).s = dt)
       [] o = "aten::group_norm" -> /\ r >= 2 /\ P(a, 2).v >= 1 /\ x.shape[2] % P(a, 2).v = 0 /\ Numel(x.shape) > 0
                                    /\ \A i \in {3, 4} : P(a, i).k = "t" => (P(a, i).shape = <<x.shape[2]>> /\ P(a, i).s = dt)
       [] o = "aten::_native_batch_norm_legit_no_training" ->
            /\ r >= 2 /\ \A i \in {2, 3} : P(a, i).k = "t" => (P(a, i).shape = <<x.shape[2]>> /\ P(a, i).s = dt)
            /\ \A i \in {4, 5} : P(a, i).shape = <<x.shape[2]>> /\ P(a, i).s = dt
       [] o \in {"aten::avg_pool2d", "aten::max_pool2d"} ->
            LET ks == P(a, 2) st == P(a, 3) pd == P(a, 4) dl == IF o = "aten::max_pool2d" THEN P(a, 5) ELSE Absent
                cm == BoolOr(P(a, IF o = "aten::max_pool2d" THEN 6 ELSE 5), FALSE) IN
            /\ r \in {3, 4} /\ x.shape[1] > 0 /\ x.shape[r - 2] > 0
            /\ \A i \in {1, 2} : LET n == x.shape[r - 2 + i] k == L2(ks, i, 1) s == L2(st, i, k) p == L2(pd, i, 0) d == L2(dl, i, 1) IN
                   /\ k >= 1 /\ s >= 1 /\ p >= 0 /\ 2 * p <= k /\ d >= 1 /\ n >= 1
                   /\ PoolOut(n, k, s, p, d, cm) >= 1
       [] o = "aten::conv2d" ->
            LET w == TOf(P(a, 2)) b == P(a, 3) st == P(a, 4) pd == P(a, 5) dl == P(a, 6) g == IntOr(P(a, 7), 1) IN
            /\ r = 4 /\ Rank(w) = 4 /\ w.dt = dt /\ x.shape[1] > 0
            /\ x.shape[2] = w.shape[2] * g /\ w.shape[1] % g = 0 /\ w.shape[1] > 0 /\ w.shape[2] > 0
            /\ b.k = "t" => (b.shape = <<w.shape[1]>> /\ b.s = dt)
            /\ \A i \in {1, 2} : LET n == x.shape[2 + i] k == w.shape[2 + i] IN
                   k >= 1 /\ L2(st, i, 1) >= 1 /\ L2(pd, i, 0) >= 0 /\ L2(dl, i, 1) >= 1
                   /\ PoolOut(n, k, L2(st, i, 1), L2(pd, i, 0), L2(dl, i, 1), FALSE) >= 1
       [] o = "aten::hardtanh" -> TRUE
NNAten(o, a) ==
  LET x == TOf(P(a, 1)) r == Rank(x) dt == x.dt sh == x.shape IN
  CASE o \in {"aten::softmax.int", "aten::log_softmax.int"} -> Struct(IF Given(P(a, 3)) /\ P(a, 3).k = "dt" THEN P(a, 3).s ELSE dt, sh)
    [] o \in {"aten::_softmax", "aten::_log_softmax", "aten::layer_norm", "aten::group_norm", "aten::hardtanh"} -> Struct(dt, sh)
    [] o = "aten::native_layer_norm" ->
         LET k == Len(P(a, 2).data) st == [i \in 1..r |-> IF i > r - k THEN 1 ELSE sh[i]]
             sdt == dt IN
         TupStruct(<<T(dt, sh, <<>>), T(sdt, st, <<>>), T(sdt, st, <<>>)>>)
    \* save_mean / save_invstd of the inference form are device dependent (empty on CPU, [C] on CUDA): only the first output is constrained
    [] o = "aten::_native_batch_norm_legit_no_training" -> [st |-> "first", ts |-> <<T(dt, sh, <<>>)>>, vals |-> FALSE]
    [] o \in {"aten::avg_pool2d", "aten::max_pool2d"} ->
         LET ks == P(a, 2) st == P(a, 3) pd == P(a, 4) dl == IF o = "aten::max_pool2d" THEN P(a, 5) ELSE Absent
             cm == BoolOr(P(a, IF o = "aten::max_pool2d" THEN 6 ELSE 5), FALSE)
             O(i) == LET k == L2(ks, i, 1) IN PoolOut(sh[r - 2 + i], k, L2(st, i, k), L2(pd, i, 0), L2(dl, i, 1), cm)
         IN Struct(dt, SubSeq(sh, 1, r - 2) \o <<O(1), O(2)>>)
    [] o = "aten::conv2d" ->
         LET w == TOf(P(a, 2)) O(i) == PoolOut(sh[2 + i], w.shape[2 + i], L2(P(a, 4), i, 1), L2(P(a, 5), i, 0), L2(P(a, 6), i, 1), FALSE)
         IN Struct(dt, <<sh[1], w.shape[1], O(1), O(2)>>)
NNDts == IF Wide THEN FloatDts ELSE {"f32", "f16"}
OptT(dt, sh) == {NA, TA(Mk(dt, sh, 3))}
LastK(sh, k) == SubSeq(sh, Max2(1, Len(sh) - k + 1), Len(sh))
NNMenu(o) ==
  UNION {
    CASE o \in {"aten::softmax.int", "aten::log_softmax.int"} ->
           UNION {{<<TA(Mk(dt, sh, 1)), IA(d)>> \o kw : d \in (IF sh = <<>> THEN {0, -1} ELSE DimsOf(Len(sh))),
                    kw \in {<<>>, <<DA("f32")>>, <<DA("f64")>>}} : sh \in RedShapes}
      [] o \in {"aten::_softmax", "aten::_log_softmax"} ->
           UNION {{<<TA(Mk(dt, sh, 1)), IA(d), BA(FALSE)>> : d \in (IF sh = <<>> THEN {0, -1} ELSE DimsOf(Len(sh)))} : sh \in RedShapes}
      [] o = "aten::hardtanh" -> {<<TA(Mk(dt, sh, 1))>> \o b : sh \in RedShapes, b \in {<<>>, <<FA(-2), FA(1)>>, <<IA(0), IA(2)>>}}
      [] o = "aten::layer_norm" ->
           UNION {{<<TA(Mk(dt, sh, 1)), LA(LastK(sh, k))>> \o wb
                   : wb \in {<<>>} \cup {<<w, b>> : w \in OptT(dt, LastK(sh, k)), b \in OptT(dt, LastK(sh, k))}}
                  : sh \in {<<3>>, <<2, 3>>, <<2, 1, 3>>, <<2, 2, 2>>}, k \in {1, 2}}
      [] o = "aten::native_layer_norm" ->
           UNION {{<<TA(Mk(dt, sh, 1)), LA(LastK(sh, k)), w, b, FX(1, -5)>>
                   : w \in OptT(dt, LastK(sh, k)), b \in OptT(dt, LastK(sh, k))}
                  : sh \in {<<3>>, <<2, 3>>, <<2, 1, 3>>, <<2, 2, 2>>}, k \in {1, 2}}
      [] o = "aten::group_norm" ->
           UNION {{<<TA(Mk(dt, sh, 1)), IA(g)>> \o wb : g \in {1, 2}, wb \in {<<>>} \cup {<<w, b>> : w \in OptT(dt, <<sh[2]>>), b \in OptT(dt, <<sh[2]>>)}}
                  : sh \in {<<2, 2, 2>>, <<1, 2, 3>>, <<2, 4, 2>>, <<1, 2, 2, 2>>}}
      [] o = "aten::_native_batch_norm_legit_no_training" ->
           UNION {{<<TA(Mk(dt, sh, 1)), w, b, TA(Mk(dt, <<sh[2]>>, 1)), TA(Mk(dt, <<sh[2]>>, 3)), FX(1, -1), FX(1, -5)>>
                   : w \in OptT(dt, <<sh[2]>>), b \in OptT(dt, <<sh[2]>>)} : sh \in {<<2, 2>>, <<1, 2, 3>>, <<2, 3, 2, 2>>, <<0, 2, 2>>}}
      [] o = "aten::avg_pool2d" ->
           {<<TA(Mk(dt, sh, 1)), LA(ks)>> \o rest
              : sh \in {<<1, 4, 4>>, <<1, 2, 5, 4>>, <<2, 1, 3, 5>>}, ks \in {<<2, 2>>, <<3, 2>>, <<1, 1>>},
                rest \in {<<>>, <<LA(<<>>)>>, <<LA(<<1, 1>>)>>, <<LA(<<2, 1>>), LA(<<1, 0>>)>>, <<LA(<<2, 2>>), LA(<<1, 1>>), BA(TRUE)>>,
                          <<LA(<<2, 2>>), LA(<<0, 0>>), BA(TRUE), BA(FALSE)>>, <<LA(<<1, 2>>), LA(<<1, 1>>), BA(FALSE), BA(FALSE)>>}}
      [] o = "aten::max_pool2d" ->
           {<<TA(Mk(dt, sh, 1)), LA(ks)>> \o rest
              : sh \in {<<1, 4, 4>>, <<1, 2, 5, 4>>, <<2, 1, 3, 5>>}, ks \in {<<2, 2>>, <<3, 2>>, <<1, 1>>},
                rest \in {<<>>, <<LA(<<>>)>>, <<LA(<<1, 1>>)>>, <<LA(<<2, 1>>), LA(<<1, 0>>)>>, <<LA(<<2, 2>>), LA(<<1, 1>>), LA(<<1, 1>>), BA(TRUE)>>,
                          <<LA(<<1, 1>>), LA(<<0, 0>>), LA(<<2, 1>>)>>, <<LA(<<2, 2>>), LA(<<0, 0>>), LA(<<1, 1>>), BA(TRUE)>>}}
      [] o = "aten::conv2d" ->
           UNION {{<<TA(Mk(dt, sh, 1)), TA(Mk(dt, ws, 2))>> \o rest
              : sh \in {<<1, 2, 4, 4>>, <<2, 2, 3, 5>>},
                rest \in {<<>>, <<NA>>, <<TA(Mk(dt, <<ws[1]>>, 1))>>, <<NA, LA(<<2, 1>>)>>, <<NA, LA(<<1, 1>>), LA(<<1, 1>>)>>,
                          <<NA, LA(<<1, 1>>), LA(<<0, 1>>), LA(<<2, 1>>)>>, <<NA, LA(<<1, 1>>), LA(<<0, 0>>), LA(<<1, 1>>), IA(2)>>}}
              : ws \in {<<2, 2, 2, 2>>, <<2, 1, 3, 1>>, <<4, 2, 1, 1>>, <<2, 2, 3, 3>>}}
    : dt \in NNDts}

-----------------------------------------------------------------------------
(* ===== dispatch over families ===== *)
AllFamilies == {"binary", "unary", "select", "reduce", "view", "index", "create", "matmul", "nn"}
F_binary == {"binary"}  F_unary == {"unary"}  F_select == {"select"}  F_reduce == {"reduce"}  F_view == {"view"}
F_index == {"index"}  F_create == {"create"}  F_matmul == {"matmul"}  F_nn == {"nn"}
G_a == {"binary"}  G_b == {"reduce"}  G_c == {"index"}  G_d == {"view", "select"}  G_e == {"unary", "create", "matmul", "nn"}
FamilyOps(f) == CASE f = "binary" -> BinOps [] f = "unary" -> UnOps [] f = "select" -> SelOps [] f = "reduce" -> RedOps
                  [] f = "view" -> ViewOps [] f = "index" -> IdxOps [] f = "create" -> CreateOps [] f = "matmul" -> MatOps
                  [] f = "nn" -> NNOps [] OTHER -> {}
FamilyOf(o) == CHOOSE f \in AllFamilies : o \in FamilyOps(f)
Menu(o) == LET f == FamilyOf(o) IN
           CASE f = "binary" -> BinMenu(o) [] f = "unary" -> UnMenu(o) [] f = "select" -> SelMenu(o) [] f = "reduce" -> RedMenu(o)
             [] f = "view" -> ViewMenu(o) [] f = "index" -> IdxMenu(o) [] f = "create" -> CreateMenu(o) [] f = "matmul" -> MatMenu(o)
             [] f = "nn" -> NNMenu(o)
InDomain(o, a) == LET f == FamilyOf(o) IN
           CASE f = "binary" -> BinDom(o, a) [] f = "unary" -> UnDom(o, a) [] f = "select" -> SelDom(o, a) [] f = "reduce" -> RedDom(o, a)
             [] f = "view" -> ViewDom(o, a) [] f = "index" -> IdxDom(o, a) [] f = "create" -> CreateDom(o, a) [] f = "matmul" -> MatDom(o, a)
             [] f = "nn" -> NNDom(o, a)
Aten(o, a) == LET f == FamilyOf(o) IN
           CASE f = "binary" -> BinAten(o, a) [] f = "unary" -> UnAten(o, a) [] f = "select" -> SelAten(o, a) [] f = "reduce" -> RedAten(o, a)
             [] f = "view" -> ViewAten(o, a) [] f = "index" -> IdxAten(o, a) [] f = "create" -> CreateAten(o, a) [] f = "matmul" -> MatAten(o, a)
             [] f = "nn" -> NNAten(o, a)

-----------------------------------------------------------------------------
(* ===== the implementation model: torch_lib lowerings on ONNX operator semantics =====                    *)
(* ONNX-level helpers.  An ONNX operator with a type variable T refuses operands of different element      *)
(* types (the model is rejected when it is loaded); a python scalar passed to an ONNX operator takes the   *)
(* element type of the tensor operand bound to the same type variable (OpRecorder), and when every operand *)
(* is a python value an int becomes INT64, a float FLOAT, a bool BOOL.                                     *)
BIG == 1000000                       \* stands for INT64_MAX (TLC integers are 32 bit)
OBin(f, x, y) == IF IsErr(x) \/ IsErr(y) THEN ERR ELSE IF x.dt # y.dt THEN ERR
                 ELSE LET odt == IF f \in CmpF THEN "bool" ELSE x.dt IN Map2(x, y, odt, LAMBDA p, q : Wrap(odt, BinV(f, x.dt, p, q)))
OCast(t, dt) == IF IsErr(t) THEN ERR ELSE CastT(t, dt)
PyLike(x, t) == Scalar(t.dt, Wrap(t.dt, x.v))
PyConst(x) == Scalar(NumDt(x), x.v)
\* ReduceX(data, axes, keepdims): axes is a sequence; empty = all axes (noop_with_empty_axes = 0);
\* an axis outside [-r, r-1] is an error, but a rank-0 input is returned unchanged by the runtime kernel
OReduce(k, t, axes, keep) ==
  IF IsErr(t) THEN ERR
  ELSE LET r == Rank(t) IN
       IF r = 0 THEN t
       ELSE IF \E j \in 1..Len(axes) : axes[j] \notin DimsOf(r) THEN ERR
       ELSE FoldFor(k, t.dt, t, IF axes = <<>> THEN 0..(r - 1) ELSE {NormDim(axes[j], r) : j \in 1..Len(axes)}, keep)
ToRes(t) == IF IsErr(t) THEN Refused ELSE One(t)

(* aten_add / aten_sub *)
LowAddSub(o, a, devs) ==
  LET self == TOf(P(a, 1)) o2 == P(a, 2) al == Kw(a, "alpha") f == BinFun(o, a)
      scaled == Given(al) /\ al.v # 1
  IN IF self.dt = "bool" /\ f = "add"
       THEN (IF Given(al) /\ al.v = 0 THEN One(self)                         \* Identity(self)
             ELSE ToRes(OBin("lor", self, IF o2.k = "t" THEN TOf(o2) ELSE PyLike(o2, self))))
     ELSE IF o \in {"aten::add.Scalar", "aten::sub.Scalar"} \/ o2.k = "t"
       THEN LET other == IF o2.k = "t" THEN TOf(o2) ELSE PyLike(o2, self)    \* .Scalar: Constant(other, dtype=self.dtype)
                o3 == IF scaled THEN OBin("mul", other, PyLike(al, other)) ELSE other   \* CastLike(alpha, other); Mul
            IN ToRes(OBin(f, self, o3))
     ELSE \* Tensor overload called with a python scalar `other`
          IF scaled
          THEN LET \* CastLike(alpha, other) and Mul(other, alpha) see python values only: the product is an
                   \* INT64 / FLOAT constant, which Add/Sub then meets with `self`
                   prod == IF "alpha_scalar_other_type" \in devs THEN Scalar(NumDt(o2), o2.v * al.v)
                           ELSE Scalar(self.dt, Wrap(self.dt, o2.v * al.v))
               IN ToRes(OBin(f, self, prod))
          ELSE ToRes(OBin(f, self, PyLike(o2, self)))

(* reductions *)
DtypeArg(a) == LET d == Kw(a, "dtype") IN IF Given(d) /\ d.k = "dt" THEN d.s ELSE "none"     \* None reaches the function as -1
LowReduce(o, a, devs) ==
  LET self == TOf(P(a, 1)) r == Rank(self) dt == self.dt dta == DtypeArg(a) keep == RedKeep(o, a) d == RedDimArg(o, a)
      dimsSeq == IF ~Given(d) THEN <<>> ELSE IF d.k = "i" THEN <<d.v>> ELSE d.data
      PostCast(t) == IF dta # "none" THEN OCast(t, dta) ELSE t
      \* repaired code: integer inputs accumulate in INT64 (as aten_prod already does)
      Acc(t) == IF dta = "none" /\ IsInt(t.dt) /\ "reduce_int_keeps_dtype" \notin devs THEN CastT(t, "i64") ELSE t
      U8(t) == IF IsErr(t) THEN ERR ELSE IF dt = "u8" /\ "all_any_uint8_bool" \notin devs THEN CastT(t, "u8") ELSE t
      AsInt == CastT(CastT(self, "bool"), "i64")
      k == RedKind(o)
      \* ReduceMax over nothing yields the lowest INT64, which Cast(to=BOOL) turns into True
      AnyAll(axes, kp) == LET red == OReduce(IF k = "any" THEN "max" ELSE "min", AsInt, axes, kp)
                              fixed == IF k = "any" /\ "any_empty_true" \notin devs /\ ~IsErr(red) THEN Map1(red, "i64", LAMBDA v : IF v = -100000 THEN 0 ELSE v) ELSE red
                          IN U8(OCast(fixed, "bool"))
  IN CASE o = "aten::sum" -> ToRes(PostCast(IF r = 0 THEN Acc(self) ELSE OReduce("sum", Acc(self), <<>>, FALSE)))
       [] o = "aten::sum.dim_IntList" ->
            ToRes(PostCast(IF r = 0 THEN Acc(self) ELSE OReduce("sum", Acc(self), dimsSeq, keep)))
       [] o = "aten::prod" ->       \* casts to dtype first, or to INT64 for integer inputs
            ToRes(OReduce("prod", IF dta # "none" THEN CastT(self, dta) ELSE IF IsInt(dt) THEN CastT(self, "i64") ELSE self, <<>>, FALSE))
       [] o = "aten::prod.dim_int" ->
            LET x == IF dta # "none" THEN CastT(self, dta) ELSE Acc(self) IN
            \* ReduceProd(axes=[dim]) with a constant axis on a rank-0 input does not pass shape inference
            IF r = 0 THEN (IF "prod_dim_scalar_input" \in devs THEN Refused ELSE One(x)) ELSE ToRes(OReduce("prod", x, dimsSeq, keep))
       [] o = "aten::cumsum" ->
            LET x == IF dta # "none" THEN CastT(self, dta) ELSE Acc(self) IN
            One(IF r = 0 THEN x ELSE CastT(CumSumT(x, NormDim(d.v, r)), x.dt))
       [] o \in {"aten::amax", "aten::amin"} ->
            \* scripted: `dim` is a required input of the function
            IF ~Given(d) THEN (IF "amax_dim_required" \in devs THEN Refused ELSE One(FoldFor(k, dt, self, 0..(r - 1), FALSE)))
            ELSE IF r = 0 /\ dimsSeq # <<>> THEN (IF "amax_scalar_dims" \in devs THEN Refused ELSE One(self))
            ELSE ToRes(OReduce(k, self, dimsSeq, keep))
       [] o \in {"aten::any", "aten::all"} -> ToRes(IF r = 0 THEN U8(CastT(self, "bool")) ELSE AnyAll(<<>>, FALSE))
       [] o \in {"aten::any.dim", "aten::all.dim"} -> ToRes(AnyAll(dimsSeq, keep))
       [] o \in {"aten::any.dims", "aten::all.dims"} ->
            IF ~Given(d) \/ (dimsSeq = <<>> /\ "any_all_dims_empty_list" \in devs)        \* `if not dim:` also catches ()
              THEN ToRes(IF r = 0 THEN U8(CastT(self, "bool")) ELSE AnyAll(<<>>, keep))
            ELSE IF dimsSeq = <<>> THEN One(U8(CastT(self, "bool")))
            \* one ReduceX(keepdims=1) per listed dim, then Squeeze(self, dims) - which a rank-0 tensor refuses
            ELSE IF r = 0 /\ ~keep /\ "any_all_dims_scalar_input" \in devs THEN Refused
            ELSE ToRes(AnyAll(dimsSeq, keep))
       [] o \in {"aten::argmax", "aten::argmin"} ->
            IF ~Given(P(a, 2))
              THEN LET flat == T(dt, <<Numel(self.shape)>>, self.data)            \* Reshape(self, [-1]); ArgMax(keepdims=keepdim)
                       res == ArgExt(flat, 0, keep, k = "max")
                   IN IF r = 0 THEN One(T("i64", <<>>, res.data))                  \* Squeeze
                      ELSE IF keep /\ "argmax_none_keepdim_shape" \notin devs THEN One(T("i64", [i \in 1..r |-> 1], res.data))
                      ELSE One(res)
            ELSE Aten(o, a)
       [] o = "aten::mean" ->       \* scripted aten_mean(self): there is no dtype parameter, a dtype= keyword is dropped
            Struct(IF "mean_dtype_ignored" \in devs THEN dt ELSE (IF dta # "none" THEN dta ELSE dt), <<>>)
       [] o = "aten::mean.dim" ->   \* dims = Reshape(dim, [-1]) with dim = None is not a valid node
            IF r > 0 /\ ~Given(d) /\ "mean_dim_none" \in devs THEN Refused ELSE Aten(o, a)
       [] OTHER -> Aten(o, a)

(* view family *)
LowView(o, a, devs) ==
  LET self == TOf(P(a, 1)) r == Rank(self) sh == self.shape dt == self.dt IN
  CASE o \in {"aten::reshape", "aten::view_copy"} ->      \* Reshape(self, size): a 0 in `size` copies the input dim
         ToRes(Reshape(self, P(a, 2).data, "reshape_zero_copies" \notin devs))
    [] o \in {"aten::view", "aten::_unsafe_view"} -> ToRes(Reshape(self, P(a, 2).data, TRUE))
    [] o = "aten::expand" -> ToRes(Expand(self, [i \in 1..Len(P(a, 2).data) |-> IF P(a, 2).data[i] = -1 THEN 1 ELSE P(a, 2).data[i]]))
    [] o = "aten::broadcast_to" ->        \* no -1 translation here
         LET sz == P(a, 2).data IN
         IF \E i \in 1..Len(sz) : sz[i] = -1
           THEN (IF "broadcast_to_minus_one" \in devs THEN Refused ELSE Aten(o, a))
         ELSE ToRes(Expand(self, sz))
    [] o = "aten::squeeze.dim" ->         \* Squeeze(self, [dim]) refuses an axis whose extent is not 1
         IF r = 0 THEN One(self)
         ELSE IF sh[NormDim(P(a, 2).v, r) + 1] # 1 /\ "squeeze_dim_non_unit" \notin devs THEN One(self)
         ELSE ToRes(Squeeze(self, <<P(a, 2).v>>))
    [] o = "aten::flatten.using_ints" ->
         LET s0 == IntOr(P(a, 2), 0) e0 == IntOr(P(a, 3), -1) IN
         IF r = 1 THEN One(self)
         ELSE IF s0 = 1 /\ e0 \in {-1, r - 1} THEN One(T(dt, <<sh[1], SeqProd(SubSeq(sh, 2, r))>>, self.data))           \* Flatten(axis=1)
         ELSE IF s0 = 0 /\ e0 \in {-2, r - 2} THEN                                                                       \* Flatten(axis=end+1)
              LET ax == NormDim(e0 + 1, r) IN One(T(dt, <<SeqProd(SubSeq(sh, 1, ax)), SeqProd(SubSeq(sh, ax + 1, r))>>, self.data))
         ELSE IF "flatten_zero_size" \notin devs THEN Aten(o, a)
         ELSE LET e == IF e0 < 0 THEN r + e0 ELSE e0
                  shp == Vec("i64", sh)
                  head == Slice(shp, <<0>>, <<s0>>, <<0>>, <<1>>)                   \* Shape(self)[0:start_dim]
                  tail == IF e < r - 1 THEN Slice(shp, <<e + 1>>, <<r>>, <<0>>, <<1>>) ELSE Vec("i64", <<>>)
              IN IF IsErr(head) \/ IsErr(tail) THEN Refused
                 ELSE ToRes(Reshape(self, head.data \o <<-1>> \o tail.data, FALSE))  \* Reshape(self, head ++ [-1] ++ tail)
    [] o = "aten::unflatten.int" ->
         \* Reshape(self, Shape[:dim] ++ sizes ++ Shape[dim+1:], allowzero=1): -1 next to a 0 is not a valid target
         LET d == NormDim(P(a, 2).v, r) tgt == SubSeq(sh, 1, d) \o P(a, 3).data \o SubSeq(sh, d + 2, r) IN
         IF "unflatten_zero_size" \in devs /\ (\E i \in 1..Len(tgt) : tgt[i] = -1) /\ (\E i \in 1..Len(tgt) : tgt[i] = 0) THEN Undefined
         ELSE Aten(o, a)
    [] OTHER -> Aten(o, a)

(* index family *)
\* SplitToSequence(x, split(scalar), axis): equal chunks of `split`, the last one smaller; nothing for an empty axis
SplitScalar(t, ax, ss) == LET n == t.shape[ax + 1] IN SplitBy(t, ax, [j \in 1..CeilDiv(n, ss) |-> Min2(ss, n - (j - 1) * ss)])
\* Slice along one axis with ONNX clamping
Slice1(t, ax, s, e, st) == Slice(t, <<s>>, <<e>>, <<ax>>, <<st>>)
RollAxisLow(t, shift, dim) ==      \* _aten_roll_shift_and_dim_onnx
  LET r == Rank(t) n == t.shape[NormDim(dim, r) + 1]
      len == IF shift < 0 THEN -shift ELSE n - shift
      suffix == Slice1(t, dim, 0, len, 1)
      prefix == Slice1(t, dim, len, Numel(t.shape), 1)        \* the end bound is Size(self), not the extent of `dim`
  IN Concat(<<prefix, suffix>>, dim)
RECURSIVE RollSeqLow(_, _, _)
RollSeqLow(t, shifts, dims) == IF shifts = <<>> \/ IsErr(t) THEN t ELSE RollSeqLow(RollAxisLow(t, Head(shifts), Head(dims)), Tail(shifts), Tail(dims))
LowIndex(o, a, devs) ==
  IF o = "aten::cat" THEN
     LET ts == TList(a, 1) d == IntOr(AfterTL(a, 1, 1), 0) kept == CatKept(ts) IN
     IF "cat_legacy_empty" \notin devs THEN Aten(o, a)
     ELSE IF kept = <<>> THEN Refused                                   \* assert filtered_tensors
     ELSE IF Len(kept) = 1 THEN One(kept[1])
     ELSE ToRes(Concat(ts, d))                                          \* Concat(*tensors): the unfiltered list
  ELSE
  LET self == TOf(P(a, 1)) r == Rank(self) sh == self.shape dt == self.dt IN
  CASE o = "aten::split.Tensor" ->
         LET ax == NormDim(IntOr(P(a, 3), 0), r) IN
         IF sh[ax + 1] = 0 /\ "split_empty_dim" \notin devs THEN Aten(o, a) ELSE Lst(SplitScalar(self, ax, P(a, 2).v))
    [] o = "aten::chunk" ->
         LET ax == NormDim(IntOr(P(a, 3), 0), r) n == sh[ax + 1] c == P(a, 2).v cs == CeilDiv(n, c) IN
         IF c = 1 THEN (IF "chunk_single_not_list" \in devs THEN One(self) ELSE Aten(o, a))       \* Identity(self)
         \* Split(self, axis, num_outputs=chunks): chunks outputs of ceil(n/chunks), the last smaller - impossible
         \* when ATen would return fewer chunks
         ELSE IF n > 0 /\ cs * (c - 1) >= n THEN (IF "chunk_count" \in devs THEN Refused ELSE Aten(o, a))
         ELSE Aten(o, a)
    [] o = "aten::narrow" ->
         LET ax == NormDim(P(a, 2).v, r) n == sh[ax + 1] st == P(a, 3).v
             st2 == IF st < 0 /\ "narrow_negative_start" \notin devs THEN st + n ELSE st
         IN ToRes(Slice1(self, P(a, 2).v, st2, st2 + P(a, 4).v, 1))          \* Slice(self, start, start + length, dim)
    [] o = "aten::slice.Tensor" ->
         ToRes(Slice1(self, IntOr(P(a, 2), 0), IF Given(P(a, 3)) THEN P(a, 3).v ELSE 0, IF Given(P(a, 4)) THEN P(a, 4).v ELSE BIG, IntOr(P(a, 5), 1)))
    [] o = "aten::select.int" -> ToRes(Gather(self, Scalar("i64", P(a, 3).v), P(a, 2).v))
    [] o = "aten::flip" ->
         LET d == P(a, 2).data IN
         IF d = <<>> THEN One(self)
         ELSE IF r = 0 THEN (IF "flip_scalar" \in devs THEN Refused ELSE One(self))   \* Slice needs rank >= 1
         ELSE ToRes(Slice(self, [i \in 1..Len(d) |-> -1], [i \in 1..Len(d) |-> -BIG], d, [i \in 1..Len(d) |-> -1]))
    [] o = "aten::roll" ->
         LET s == P(a, 2).data d == IF Given(P(a, 3)) THEN P(a, 3).data ELSE <<>> IN
         IF r = 0 \/ sh[1] = 0 THEN One(self)
         ELSE IF "roll_onnx_edges" \notin devs THEN Aten(o, a)
         ELSE IF d = <<>> THEN
              LET flat == T(dt, <<Numel(sh)>>, self.data)
                  len == IF s[1] < 0 THEN -s[1] ELSE Numel(sh) - s[1]
                  suffix == Slice1(flat, 0, 0, len, 1)
                  prefix == Slice1(flat, 0, len, Numel(sh), 1)
              IN ToRes(Reshape(Concat(<<prefix, suffix>>, 0), sh, FALSE))
         \* Shape(self, start=dim, end=dim+1) is empty for dim = -1, the Slice that follows is refused
         ELSE IF \E i \in 1..Len(d) : d[i] = -1 /\ s[i] >= 0 THEN Refused
         ELSE ToRes(RollSeqLow(self, s, d))
    [] o = "aten::constant_pad_nd" ->
         IF r = 0 /\ "pad_scalar" \in devs THEN Refused ELSE Aten(o, a)
    [] OTHER -> Aten(o, a)

LowCreate(o, a, devs) ==
  IF o = "aten::arange.start" /\ ~Given(Kw(a, "dtype")) /\ P(a, 1).k # P(a, 2).k /\ "arange_mixed_scalars" \in devs
    THEN Refused           \* Range(start, end, CastLike(1.0, end)): an INT64 and a FLOAT constant
  ELSE Aten(o, a)

LowNN(o, a, devs) ==
  \* Div(1.0, Sqrt(running_var + eps)): the python constant becomes FLOAT, the tensor keeps its own float type
  IF o = "aten::_native_batch_norm_legit_no_training" /\ P(a, 1).s # "f32" /\ "batch_norm_non_f32" \in devs THEN Refused
  \* LayerNormalization leaves stash_type at its default: Mean and InvStdDev are FLOAT whatever the input type
  ELSE IF o = "aten::native_layer_norm" /\ P(a, 1).s = "f64" /\ "layer_norm_stats_float32" \in devs
    THEN LET e == Aten(o, a) IN [e EXCEPT !.ts = <<e.ts[1], [e.ts[2] EXCEPT !.dt = "f32"], [e.ts[3] EXCEPT !.dt = "f32"]>>]
  ELSE Aten(o, a)

Low(o, a, devs) ==
  CASE o \in {"aten::add.Tensor", "aten::sub.Tensor", "aten::add.Scalar", "aten::sub.Scalar"} -> LowAddSub(o, a, devs)
    [] o \in RedOps -> LowReduce(o, a, devs)
    [] o \in ViewOps -> LowView(o, a, devs)
    [] o \in IdxOps -> LowIndex(o, a, devs)
    [] o \in CreateOps -> LowCreate(o, a, devs)
    [] o \in NNOps -> LowNN(o, a, devs)
    [] OTHER -> Aten(o, a)

-----------------------------------------------------------------------------
(* ===== the state machine ===== *)
NoRes == Refused
Ops == {o \in UNION {FamilyOps(f) : f \in Families} : Registered(o)}
Init == /\ stage = "init" /\ op \in Ops /\ args = <<>> /\ exp = NoRes /\ impl = NoRes /\ ideal = NoRes /\ why = {}
\* Pick: an argument tuple of the family's menu that lies in the operator's domain
Pick == /\ stage = "init"
        /\ \E a \in Menu(op) : /\ InDomain(op, a) /\ args' = a
        /\ stage' = "picked"
        /\ UNCHANGED <<op, exp, impl, ideal, why>>
\* Eval: source semantics, implementation model (with and without deviations), attribution
Eval == /\ stage = "picked"
        /\ stage' = "done"
        /\ exp' = Aten(op, args)
        /\ impl' = Low(op, args, Deviations)
        /\ ideal' = Low(op, args, {})
        \* attribution: the deviations without which the implementation model would answer differently
        /\ why' = IF SameRes(Low(op, args, Deviations), Aten(op, args)) THEN {}
                  ELSE {d \in Deviations : ~SameRes(Low(op, args, Deviations \ {d}), Low(op, args, Deviations))}
        /\ UNCHANGED <<op, args>>
Next == Pick \/ Eval
Spec == Init /\ [][Next]_vars

\* the source semantics is well-formed: defined on its domain, data length = numel, values fit the dtype
ValOK(dt, v) == CASE dt = "bool" -> v \in {0, 1} [] dt = "u8" -> v >= 0 /\ v <= 255 [] OTHER -> TRUE
AtenWellFormed == stage = "done" =>
   /\ exp.st # "err"
   /\ \A i \in 1..Len(exp.ts) : /\ exp.ts[i].dt \in AllDts /\ ValidShape(exp.ts[i].shape)
                                /\ exp.vals => /\ Len(exp.ts[i].data) = Numel(exp.ts[i].shape)
                                               /\ \A k \in 1..Len(exp.ts[i].data) : ValOK(exp.ts[i].dt, exp.ts[i].data[k])
\* THE PROPERTY at design level: the repaired lowering computes the ATen result
DesignOK == stage = "done" => SameRes(ideal, exp)
\* every departure of the implementation model from ATen is explained by a named deviation
DeviationsExplain == stage = "done" => (SameRes(impl, exp) \/ why # {})
CaseRec == [op |-> op, args |-> args, exp |-> exp, impl |-> impl, why |-> why]
EmitCases == stage = "done" => PrintT("C08CASE " \o ToJson(CaseRec))
\* vacuity witnesses (each must be VIOLATED): a case exists; the property is not trivially true (with the
\* deviations switched on the implementation model does depart from ATen)
NoCase == stage # "done"
ImplOK == stage = "done" => SameRes(impl, exp)
=============================================================================
