\* implementation model on the static catalogue: every departure from the property is one of the named deviations
SPECIFICATION Spec
CONSTANTS
  Deviations <- RealDevs
  MaxLen = 3
  Alphabet <- QuickOps
  UseRecorded = FALSE
  EmitLen = 0
INVARIANT Explained
CHECK_DEADLOCK FALSE
