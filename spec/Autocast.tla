------------------------------ MODULE Autocast ------------------------------
(* C12: promotion of Python literals to tensors beside tensor operands.                         *)
(* The operator signatures are the REAL registry: the harness dumps every distinct signature    *)
(* shape of opsets 13..23 to JSON (SIGS_FILE) and TLC runs the three implementations'           *)
(* type-variable binding algorithms on every argument pattern of every shape:                   *)
(*   Static  - autocast.cast_inputs as used by static_cast_inputs (converter): bindings keyed   *)
(*             by type variable, LAST non-castable value wins, literal -> CastLike(binding)     *)
(*   Dynamic - the same function as used by dynamic_cast_inputs (eager): dtype of a Tensor      *)
(*   Builder - tape_builder.BuilderBase._cast_inputs: FIRST ir.Value wins; unknown dtype ->     *)
(*             dynamic CastLike                                                                 *)
(* against Rule - the documented rule: a literal takes the type of a sibling operand sharing its *)
(* type constraint when there is one, else the type implied by its Python type.                 *)
(* Argument kinds: "T" typed tensor, "U" tensor whose dtype is unknown at build time (builder), *)
(* "L" literal, "N" None (omitted optional).                                                    *)
(* Part 2 (CastValue) gives the value a literal has after promotion to a dtype.                 *)
EXTENDS Integers, Sequences, FiniteSets, TLC, Json, IOUtils

Sigs == JsonDeserialize(IOEnv.SIGS_FILE)
MaxExtra == 2                      \* extra arguments explored in a variadic tail

VARIABLES sid, args, stage, rule, static, dynamic, builder
vars == <<sid, args, stage, rule, static, dynamic, builder>>

Formals(s) == Sigs[s].formals
NF(s) == Len(Formals(s))
LastVariadic(s) == NF(s) > 0 /\ Formals(s)[NF(s)].variadic
MaxArgs(s) == IF LastVariadic(s) THEN NF(s) + MaxExtra ELSE NF(s)

\* the formal an actual at (1-based) position i is checked against
FormalAt(s, i) == IF i <= NF(s) THEN Formals(s)[i] ELSE Formals(s)[NF(s)]
\* the type variable used for binding at position i, "" when none:
\*   concrete type strings ("tensor(int64)") never bind; actuals beyond the declared formals of a
\*   heterogeneous variadic are left alone (code: `if not expected.homogeneous: ... (x, None)`)
TV(s, i) == LET f == FormalAt(s, i) IN
            IF i > NF(s) /\ ~f.homo THEN ""
            ELSE IF f.concrete THEN "" ELSE f.tv

IsTensor(k) == k \in {"T", "U"}
Positions(a) == 1..Len(a)

\* ---- the documented rule
RuleAt(s, a, i) == IF TV(s, i) # "" /\ \E j \in Positions(a) : IsTensor(a[j]) /\ TV(s, j) = TV(s, i)
                   THEN "sib" ELSE "py"
\* ---- autocast.cast_inputs: pass 1 builds bindings (dict assignment: last wins), pass 2 casts
LastBinding(s, a, tv) == LET S == {j \in Positions(a) : IsTensor(a[j]) /\ TV(s, j) = tv}
                         IN IF tv = "" \/ S = {} THEN 0 ELSE CHOOSE j \in S : \A k \in S : k <= j
FirstBinding(s, a, tv) == LET S == {j \in Positions(a) : IsTensor(a[j]) /\ TV(s, j) = tv}
                          IN IF tv = "" \/ S = {} THEN 0 ELSE CHOOSE j \in S : \A k \in S : j <= k
StaticAt(s, a, i) == IF LastBinding(s, a, TV(s, i)) # 0 THEN "sib" ELSE "py"      \* CastLike(x, binding)
DynamicAt(s, a, i) == IF LastBinding(s, a, TV(s, i)) # 0 THEN "sib" ELSE "py"     \* np.array(x, dtype=binding)
\* builder: `typevar not in type_bindings` -> first wins; dtype known -> constant of that dtype,
\* unknown -> constant of the Python type followed by a dynamic CastLike: same resulting type
BuilderAt(s, a, i) == LET b == FirstBinding(s, a, TV(s, i)) IN
                      IF b = 0 THEN "py" ELSE IF a[b] = "U" THEN "sib_dyn" ELSE "sib"
Norm(x) == IF x = "sib_dyn" THEN "sib" ELSE x
Lits(a) == {i \in Positions(a) : a[i] = "L"}
Outcome(F(_, _, _), s, a) == [i \in Lits(a) |-> F(s, a, i)]

Init == /\ sid \in 1..Len(Sigs) /\ args = <<>> /\ stage = "build"
        /\ rule = <<>> /\ static = <<>> /\ dynamic = <<>> /\ builder = <<>>
Extend == /\ stage = "build" /\ Len(args) < MaxArgs(sid)
          /\ \E k \in {"T", "U", "L", "N"} :
                /\ (k = "N" => Len(args) < NF(sid) /\ ~Formals(sid)[Len(args) + 1].required)
                /\ (k = "L" => Cardinality(Lits(args)) < 2)
                /\ (k = "U" => Cardinality({j \in Positions(args) : args[j] = "U"}) < 1)
                /\ args' = Append(args, k)
          /\ UNCHANGED <<sid, stage, rule, static, dynamic, builder>>
Finish == /\ stage = "build" /\ Lits(args) # {}
          /\ \A j \in 1..NF(sid) : Formals(sid)[j].required /\ ~Formals(sid)[j].variadic => j <= Len(args)
          /\ stage' = "done"
          /\ rule' = Outcome(RuleAt, sid, args)
          /\ static' = Outcome(StaticAt, sid, args)
          /\ dynamic' = Outcome(DynamicAt, sid, args)
          /\ builder' = Outcome(BuilderAt, sid, args)
          /\ UNCHANGED <<sid, args>>
Next == Extend \/ Finish
Spec == Init /\ [][Next]_vars

\* The property at design level: the three front ends follow the rule at every literal position.
Agree == stage = "done" => \A i \in Lits(args) :
            /\ static[i] = rule[i] /\ dynamic[i] = rule[i] /\ Norm(builder[i]) = rule[i]
\* non-vacuity witnesses (expected to be violated = reachable)
SomeSibling == ~(stage = "done" /\ \E i \in Lits(args) : rule[i] = "sib")
SomeHeteroTail == ~(stage = "done" /\ \E i \in Lits(args) : i > NF(sid) /\ ~FormalAt(sid, i).homo)

-----------------------------------------------------------------------------
(* Part 2: value of a literal promoted to a dtype.  Numbers are <<num, den>> rationals with an  *)
(* explicit negative-zero flag; the result is the bit-level identity class of the tensor element *)
Lit(n, d, negz, py) == [n |-> n, d |-> d, negz |-> negz, py |-> py]    \* py in {"int","float","bool"}
Literals == [zero |-> Lit(0, 1, FALSE, "int"), one |-> Lit(1, 1, FALSE, "int"), m3 |-> Lit(-3, 1, FALSE, "int"),
             f25 |-> Lit(5, 2, FALSE, "float"), nz |-> Lit(0, 1, TRUE, "float"), tr |-> Lit(1, 1, FALSE, "bool"),
             fz |-> Lit(0, 1, FALSE, "float"), fa |-> Lit(0, 1, FALSE, "bool")]
DefaultDtype(py) == CASE py = "int" -> "INT64" [] py = "float" -> "FLOAT" [] py = "bool" -> "BOOL"
FloatTypes == {"FLOAT", "DOUBLE", "FLOAT16", "BFLOAT16"}
SignedInts == {"INT64", "INT32", "INT16", "INT8"}
Bits(dt) == CASE dt = "UINT8" -> 256 [] dt = "UINT16" -> 65536 [] OTHER -> 0
TruncQ(n, d) == LET q == (IF n < 0 THEN -n ELSE n) \div d IN IF n < 0 THEN -q ELSE q
\* value of literal l as an element of dtype dt: <<kind, num, den, negzero>>
CastValue(l, dt) ==
  IF dt \in FloatTypes THEN <<"f", l.n, l.d, l.negz>>
  ELSE IF dt = "BOOL" THEN <<"b", IF l.n # 0 THEN 1 ELSE 0, 1, FALSE>>
  ELSE IF dt \in SignedInts THEN <<"i", TruncQ(l.n, l.d), 1, FALSE>>
  ELSE <<"u", TruncQ(l.n, l.d), 1, FALSE>>          \* unsigned: negative values are out of range
CastTable == [name \in DOMAIN Literals |-> [dt \in FloatTypes \cup SignedInts \cup {"BOOL", "UINT8"} |-> CastValue(Literals[name], dt)]]
=============================================================================
