SPECIFICATION Spec
CONSTANTS
  Deviations <- AllDevs
  Fams <- FamsMha
  Modes <- ModesChain
  Big = FALSE
INVARIANT NeverAttention
CHECK_DEADLOCK FALSE
