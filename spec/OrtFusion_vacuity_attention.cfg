SPECIFICATION Spec
CONSTANTS
  Deviations <- AllDevs
  Fams <- FamsAll
  Modes <- ModesAll
  Big = FALSE
INVARIANT NeverAttention
CHECK_DEADLOCK FALSE
