SPECIFICATION Spec
CONSTANTS
  Deviations <- RealDevs
  MaxLen = 3
  Values <- QuickValues
INVARIANT Explained
CHECK_DEADLOCK FALSE
