SPECIFICATION Spec
CONSTANTS
  Deviations <- NoDevs
  Menu <- MenuWitness
  VarMenu <- NoItems
  VarVersions <- AllVersions
  HistMenu <- NoItems
  HistVersions <- NoVersions
  MultiMenu <- TripleQuick
  TripleMenu <- TripleQuick
  MaxItems = 1
  Sources <- WitnessVersions
  Targets <- WitnessVersions
  Emitting = FALSE
INVARIANT NoFallbackSuccess
CHECK_DEADLOCK FALSE
