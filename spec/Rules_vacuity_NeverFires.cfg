SPECIFICATION Spec
CONSTANTS
  Deviations <- AllDevs
  Families = {"relus_clips", "transposes", "slice_split"}
  Menu = "quick"
INVARIANT NeverFires
CHECK_DEADLOCK FALSE
