SPECIFICATION Spec
CONSTANTS
  Deviations <- AllDevs
  Families <- AllFamilies
  Menu = "quick"
INVARIANT NeverFires
CHECK_DEADLOCK FALSE
