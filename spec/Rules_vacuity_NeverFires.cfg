SPECIFICATION Spec
CONSTANTS
  Deviations <- AllDevs
  Families = {"relus_clips", "transposes"}
  Menu = "quick"
INVARIANT NeverFires
CHECK_DEADLOCK FALSE
