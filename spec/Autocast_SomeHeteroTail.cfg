SPECIFICATION Spec
INVARIANT SomeHeteroTail
CHECK_DEADLOCK FALSE
