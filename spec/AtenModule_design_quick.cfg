SPECIFICATION MSpec
CONSTANTS
  Deviations <- AllDevs
  Families <- AllFamilies
  Wide = FALSE
  MaxSteps = 1
  InDts <- InDtsD
  InShapes <- InShapesD
INVARIANT PipelineOK
INVARIANT EnvWellFormed
CHECK_DEADLOCK FALSE
