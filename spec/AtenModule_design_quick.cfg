SPECIFICATION MSpec
CONSTANTS
  Deviations <- AllDevs
  Families <- AllFamilies
  Wide = FALSE
  MaxSteps = 1
  InDts <- InDtsS
  InShapes <- InShapesS
INVARIANT PipelineOK
INVARIANT EnvWellFormed
CHECK_DEADLOCK FALSE
