SPECIFICATION Spec
CONSTANTS
  Deviations <- NoDevs
  Big = TRUE
INVARIANT DesignOK
INVARIANT WellFormed
CHECK_DEADLOCK FALSE
