SPECIFICATION Spec
CONSTANTS
  Deviations <- NoDevs
  Ranks <- R234
  Big = TRUE
INVARIANT DesignOK
INVARIANT WellFormed
CHECK_DEADLOCK FALSE
