------------------------------ MODULE TorchNames ------------------------------
(* Qualified ATen operator names "<namespace>::<name>[.<overload>]" as                          *)
(* onnxscript/function_libs/torch_lib/registration.py accepts them, character by character      *)
(* (TLC strings support Len, \o and SubSeq).                                                    *)
EXTENDS Integers, Sequences, FiniteSets

Ch(s, k) == SubSeq(s, k, k)
Chars(s) == {Ch(s, k) : k \in 1..Len(s)}
WordCh == Chars("abcdefghijklmnopqrstuvwxyzABCDEFGHIJKLMNOPQRSTUVWXYZ0123456789_")
\* first position >= from whose character is outside `set` (Len+1 when there is none)
RunEnd(s, from, set) == CHOOSE k \in from..(Len(s) + 1) :
                           /\ \A j \in from..(k - 1) : Ch(s, j) \in set
                           /\ (k = Len(s) + 1 \/ Ch(s, k) \notin set)
\* position of the first character after "<namespace>::<name>", 0 when the prefix is malformed
NameEnd(s) == LET n == Len(s)
                  a == RunEnd(s, 1, WordCh)
              IN IF ~(a > 1 /\ a + 1 <= n) THEN 0
                 ELSE IF SubSeq(s, a, a + 1) # "::" THEN 0
                 ELSE LET b == RunEnd(s, a + 2, WordCh) IN IF b > a + 2 THEN b ELSE 0
\* <namespace>::<name>[.<overload>]: namespace and name are words, the overload is a non-empty
\* string of word characters and dots
WellFormed(s) == LET n == Len(s)
                     b == NameEnd(s)
                 IN /\ b # 0
                    /\ \/ b = n + 1
                       \/ /\ Ch(s, b) = "." /\ b + 1 <= n
                          /\ RunEnd(s, b + 1, WordCh \cup {"."}) = n + 1
EndsWith(s, t) == Len(s) >= Len(t) /\ SubSeq(s, Len(s) - Len(t) + 1, Len(s)) = t
StartsWith(s, t) == Len(s) >= Len(t) /\ SubSeq(s, 1, Len(t)) = t
Overload(s) == LET b == NameEnd(s) IN IF b = 0 \/ b > Len(s) THEN "" ELSE SubSeq(s, b, Len(s))
\* the property's clause: well-formed, and the default overload is not spelled ".default"
NameOK(s) == WellFormed(s) /\ Overload(s) # ".default"
\* what _check_and_normalize_names lets through (it refuses every name ENDING in ".default")
CodeAccepts(s) == WellFormed(s) /\ ~EndsWith(s, ".default")
=============================================================================
