SPECIFICATION Spec
CONSTANTS
  Deviations <- AllDevs
  MaxObjs = 4
  MinObjs = 4
  MaxKids = 2
  ExplicitNames = {}
  NamedInContainers = TRUE
  Sharing = TRUE
  ListPolicies = {"iter"}
  SeqPolicies = {"call"}
  SubPolicy = FALSE
INVARIANT DesignOK
INVARIANT DesignPairs
INVARIANT DeviationsExplain
INVARIANT Report
CHECK_DEADLOCK FALSE
