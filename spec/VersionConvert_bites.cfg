SPECIFICATION Spec
CONSTANTS
  Deviations <- RealDevs
  Menu <- MenuWitness
  VarMenu <- NoItems
  VarVersions <- AllVersions
  HistMenu <- NoItems
  HistVersions <- NoVersions
  MultiMenu <- TripleQuick
  TripleMenu <- TripleQuick
  MaxItems = 1
  Sources <- WitnessVersions
  Targets <- WitnessVersions
  Emitting = FALSE
INVARIANT Prop
CHECK_DEADLOCK FALSE
