SPECIFICATION Spec
CONSTANTS
  Deviations <- RealDevs
  Menu <- MenuWitness
  VarMenu <- NoItems
  VarVersions <- AllVersions
  MultiMenu <- TripleQuick
  TripleMenu <- TripleQuick
  MaxItems = 1
  Sources <- WitnessVersions
  Targets <- WitnessVersions
  Emitting = FALSE
INVARIANT Prop
CHECK_DEADLOCK FALSE
