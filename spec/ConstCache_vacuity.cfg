SPECIFICATION Spec
CONSTANTS
  Deviations <- PinnedDevs
  MaxLen = 3
  Values <- AllValues
INVARIANT CacheSound
CHECK_DEADLOCK FALSE
