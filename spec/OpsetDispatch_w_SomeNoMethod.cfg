SPECIFICATION Spec
CONSTANTS
  Deviations <- RealDevs
  MaxExtra = 2
  AttrModes <- ModesQuick
  VarNone = FALSE
INVARIANT SomeNoMethod
CHECK_DEADLOCK FALSE
