SPECIFICATION Spec
CONSTANTS
  Deviations <- RealDevs
  MaxExtra = 2
  AttrModes <- ModesQuick
  VarNone = FALSE
  ReqVersions <- ReqQuick
INVARIANT SomeNoMethod
CHECK_DEADLOCK FALSE
