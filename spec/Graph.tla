-------------------------------- MODULE Graph --------------------------------
(* Shared kernel: structural well-formedness of an ONNX graph with nested subgraphs.            *)
(* A graph is a record  [inputs, inits, nodes, outputs]  of name sequences; a node is            *)
(* [ins, outs, subs, dom] where subs is a sequence of nested graphs (If/Loop/Scan bodies) and    *)
(* "" marks an omitted optional input.  Used on REAL protos (GraphCheck.tla: the harness         *)
(* serialises every emitted ModelProto/FunctionProto to this form) and by the design models.     *)
EXTENDS Integers, Sequences, FiniteSets

SeqSet(s) == {s[i] : i \in 1..Len(s)}
NoDup(s) == Cardinality(SeqSet(s)) = Len(s)

\* all names DEFINED in g and, recursively, in its subgraphs (inputs, initializers, node outputs)
RECURSIVE DefsSeq(_)
RECURSIVE SubDefs(_, _)
SubDefs(subs, k) == IF k > Len(subs) THEN <<>> ELSE DefsSeq(subs[k]) \o SubDefs(subs, k + 1)
RECURSIVE NodeDefs(_, _)
NodeDefs(nodes, k) == IF k > Len(nodes) THEN <<>>
                      ELSE SelectSeq(nodes[k].outs, LAMBDA n : n # "") \o SubDefs(nodes[k].subs, 1) \o NodeDefs(nodes, k + 1)
DefsSeq(g) == g.inputs \o g.inits \o NodeDefs(g.nodes, 1)

\* (1) every value name is defined exactly once over the graph and all nested subgraphs
\*     (this also gives: no subgraph redefines an outer name)
SSA(g) == NoDup(DefsSeq(g))

\* (2) uses refer to a name visible in scope and defined earlier (topological order in every graph)
RECURSIVE Scoped(_, _)
RECURSIVE NodesScoped(_, _, _)
RECURSIVE SubsScoped(_, _, _)
SubsScoped(subs, k, vis) == k > Len(subs) \/ (Scoped(subs[k], vis) /\ SubsScoped(subs, k + 1, vis))
NodesScoped(nodes, k, vis) ==
   k > Len(nodes)
   \/ (/\ \A i \in 1..Len(nodes[k].ins) : nodes[k].ins[i] = "" \/ nodes[k].ins[i] \in vis
       /\ SubsScoped(nodes[k].subs, 1, vis)
       /\ NodesScoped(nodes, k + 1, vis \cup SeqSet(nodes[k].outs)))
Scoped(g, outer) == NodesScoped(g.nodes, 1, outer \cup SeqSet(g.inputs) \cup SeqSet(g.inits))

\* (3) outputs: distinct; each produced by a node of THIS graph (a graph input / initializer / outer
\*     value may not be returned directly)
RECURSIVE OutputsOK(_)
OwnNodeOuts(g) == UNION {SeqSet(g.nodes[k].outs) : k \in 1..Len(g.nodes)}
OutputsOK(g) == /\ NoDup(g.outputs)
                /\ \A i \in 1..Len(g.outputs) : g.outputs[i] \in OwnNodeOuts(g)
                /\ \A k \in 1..Len(g.nodes) : \A j \in 1..Len(g.nodes[k].subs) : OutputsOK(g.nodes[k].subs[j])

\* (4) every operator domain used anywhere is imported, and with a single version
RECURSIVE Domains(_)
Domains(g) == UNION {{g.nodes[k].dom} \cup UNION {Domains(g.nodes[k].subs[j]) : j \in 1..Len(g.nodes[k].subs)} : k \in 1..Len(g.nodes)}
ImportsOK(g, imports) ==       \* imports: sequence of <<domain, version>>
   /\ \A d \in Domains(g) : \E i \in 1..Len(imports) : imports[i][1] = d
   /\ \A i, j \in 1..Len(imports) : imports[i][1] = imports[j][1] => imports[i][2] = imports[j][2]

WF(g, imports) == SSA(g) /\ Scoped(g, {}) /\ OutputsOK(g) /\ ImportsOK(g, imports)
\* which clause fails (for reports)
WFWhy(g, imports) == <<SSA(g), Scoped(g, {}), OutputsOK(g), ImportsOK(g, imports)>>
=============================================================================
