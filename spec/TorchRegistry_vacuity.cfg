SPECIFICATION Spec
CONSTANTS
  MaxCalls = 2
  Names <- NamesQuick
  Deviations = {"dup_appends"}
INVARIANT OneFunctionPerPair
CHECK_DEADLOCK FALSE
