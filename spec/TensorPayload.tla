---------------------------- MODULE TensorPayload ----------------------------
(* C15, payload half: a TensorProto of every element type, in every storage form the ONNX IR      *)
(* allows, goes through onnxscript.ir (deserialize -> IR tensor object -> serialize) unchanged.     *)
(*                                                                                                *)
(* The element types are those of the REAL enum onnxscript.ir.DataType (dumped by the harness to   *)
(* IOEnv.C15_DTYPES: [{name, value, bits}]); the storage rules are transcribed from onnx.proto:     *)
(* which typed field holds which element type, how many field entries n elements take, how many    *)
(* bytes raw_data takes.  A dtype of the real enum that the table below does not know makes the    *)
(* ASSUME fail (the check reports a machinery failure: the table must be extended).                *)
(*                                                                                                *)
(* A behaviour: Pick a case -> DeserializeTensor (which IR tensor class wraps it) -> SerializeTensor (how that  *)
(* class is written back) -> Judge.  Deviations: "tensor_meta_dup" (proto-backed tensor: CopyFrom   *)
(* then metadata appended again), "external_keys_dropped" (ExternalTensor is re-emitted from        *)
(* location/offset/length only: a checksum entry is lost).                                          *)
EXTENDS Integers, Sequences, FiniteSets, TLC, Json, IOUtils

CONSTANTS Deviations
AllDevs == {"tensor_meta_dup", "external_keys_dropped"}

DTypeTable == JsonDeserialize(IOEnv.C15_DTYPES)      \* sequence of [name, value, bits]
DTIdx == 1..Len(DTypeTable)

\* onnx.proto, message TensorProto: "For float and complex64 values: float_data", "For int32, uint8,
\* int8, uint16, int16, uint4, int4, bool, (b)float16, float8 and float4: int32_data", ...
Int32Held == {"INT32", "INT16", "INT8", "INT4", "INT2", "UINT16", "UINT8", "UINT4", "UINT2", "BOOL", "FLOAT16", "BFLOAT16",
              "FLOAT8E4M3FN", "FLOAT8E4M3FNUZ", "FLOAT8E5M2", "FLOAT8E5M2FNUZ", "FLOAT8E8M0", "FLOAT4E2M1"}
TypedField(n) == CASE n \in {"FLOAT", "COMPLEX64"} -> "float_data"
                   [] n \in Int32Held -> "int32_data"
                   [] n = "INT64" -> "int64_data"
                   [] n \in {"UINT32", "UINT64"} -> "uint64_data"
                   [] n \in {"DOUBLE", "COMPLEX128"} -> "double_data"
                   [] n = "STRING" -> "string_data"
                   [] OTHER -> "unknown"
SpecBits(n) == CASE n \in {"FLOAT", "INT32", "UINT32"} -> 32
                 [] n \in {"DOUBLE", "INT64", "UINT64", "COMPLEX64"} -> 64
                 [] n = "COMPLEX128" -> 128
                 [] n \in {"INT16", "UINT16", "FLOAT16", "BFLOAT16"} -> 16
                 [] n \in {"INT8", "UINT8", "BOOL", "FLOAT8E4M3FN", "FLOAT8E4M3FNUZ", "FLOAT8E5M2", "FLOAT8E5M2FNUZ", "FLOAT8E8M0"} -> 8
                 [] n \in {"INT4", "UINT4", "FLOAT4E2M1"} -> 4
                 [] n \in {"INT2", "UINT2"} -> 2
                 [] n = "STRING" -> 0
                 [] OTHER -> -1
Known(i) == DTypeTable[i].name = "UNDEFINED" \/ TypedField(DTypeTable[i].name) # "unknown"
\* the real enum agrees with the table on every bit width
ASSUME \A i \in DTIdx : Known(i) /\ (DTypeTable[i].name \notin {"UNDEFINED", "STRING"} => SpecBits(DTypeTable[i].name) = DTypeTable[i].bits)

CeilDiv(a, b) == (a + b - 1) \div b
RawLen(n, numel) == CeilDiv(numel * SpecBits(n), 8)
\* entries of the typed field: complex = (re, im) pairs; sub-byte types are packed into bytes first,
\* one byte per int32 entry; every other type one entry per element
TypedCount(n, numel) == IF n \in {"COMPLEX64", "COMPLEX128"} THEN 2 * numel
                        ELSE IF SpecBits(n) \in {2, 4} THEN CeilDiv(numel * SpecBits(n), 8)
                        ELSE numel

Storages == {"raw", "typed", "external", "external_checksum"}
ShapeClasses == {"scalar", "vec", "empty"}
\* distinct dims per (storage, shape class) so that no two payload tensors of one model are equal
Dims(st, sc) == CASE st = "raw" /\ sc = "scalar" -> <<>>
                  [] st = "raw" /\ sc = "vec" -> <<3>>
                  [] st = "raw" /\ sc = "empty" -> <<0, 2>>
                  [] st = "typed" /\ sc = "scalar" -> <<1>>
                  [] st = "typed" /\ sc = "vec" -> <<5>>
                  [] st = "typed" /\ sc = "empty" -> <<2, 0>>
                  [] st = "external" -> <<4>>
                  [] OTHER -> <<7>>
RECURSIVE Prod(_)
Prod(s) == IF s = <<>> THEN 1 ELSE Head(s) * Prod(Tail(s))
Valid(n, st, sc) == /\ n # "UNDEFINED"
                    /\ (st = "raw" => n # "STRING")
                    /\ (st \in {"external", "external_checksum"} => n # "STRING" /\ sc = "vec")

-----------------------------------------------------------------------------
VARIABLES pc, cs, irt, out, res
vars == <<pc, cs, irt, out, res>>

NoCase == [set |-> FALSE]
Init == pc = "pick" /\ cs = NoCase /\ irt = "none" /\ out = NoCase /\ res = NoCase
\* the caller's TensorProto: which fields are populated
Pick == /\ pc = "pick"
        /\ \E i \in DTIdx, st \in Storages, sc \in ShapeClasses, meta \in BOOLEAN :
             LET n == DTypeTable[i].name
                 numel == Prod(Dims(st, sc)) IN
             /\ Valid(n, st, sc)
             /\ cs' = [set |-> TRUE, dtype |-> n, value |-> DTypeTable[i].value, storage |-> st, shape |-> sc, dims |-> Dims(st, sc),
                       numel |-> numel, meta |-> meta,
                       field |-> IF st = "raw" THEN "raw_data" ELSE IF st = "typed" THEN TypedField(n) ELSE "external_data",
                       count |-> IF st = "typed" THEN TypedCount(n, numel) ELSE 0,
                       nbytes |-> IF n = "STRING" THEN 0 ELSE RawLen(n, numel),
                       keys |-> IF st = "external" THEN {"location", "offset", "length"}
                                ELSE IF st = "external_checksum" THEN {"location", "offset", "length", "checksum"} ELSE {},
                       metacopies |-> IF meta THEN 1 ELSE 0]
        /\ pc' = "deser"
        /\ UNCHANGED <<irt, out, res>>
\* serde.deserialize_tensor: external data -> ExternalTensor(location, offset, length); strings -> StringTensor
\* (a copy of string_data); anything else -> TensorProtoTensor(proto), which keeps the caller's proto
DeserializeTensor ==
  /\ pc = "deser"
  /\ irt' = IF cs.keys # {} THEN "ExternalTensor" ELSE IF cs.dtype = "STRING" THEN "StringTensor" ELSE "TensorProtoTensor"
  /\ pc' = "ser"
  /\ UNCHANGED <<cs, out, res>>
\* serde.serialize_tensor_into, parameterised by the deviation set
SerOf(c, cls, devs) ==
  IF cls = "TensorProtoTensor"
  THEN [c EXCEPT !.metacopies = IF "tensor_meta_dup" \in devs /\ @ > 0 THEN @ + 1 ELSE @]     \* CopyFrom(raw) [+ metadata again]
  ELSE IF cls = "StringTensor" THEN c                                                          \* written field by field
  ELSE [c EXCEPT !.keys = IF "external_keys_dropped" \in devs THEN @ \cap {"location", "offset", "length"} ELSE @]
SerializeTensor ==
  /\ pc = "ser"
  /\ out' = [impl |-> SerOf(cs, irt, Deviations), ideal |-> SerOf(cs, irt, {}),
             twice |-> SerOf(SerOf(cs, irt, Deviations), irt, Deviations)]
  /\ pc' = "judge"
  /\ UNCHANGED <<cs, irt, res>>
Diff(a, b) == (IF a.keys # b.keys THEN {"external_keys"} ELSE {}) \cup (IF a.metacopies # b.metacopies THEN {"init_meta"} ELSE {})
               \cup (IF <<a.dtype, a.dims, a.field, a.count, a.nbytes>> # <<b.dtype, b.dims, b.field, b.count, b.nbytes>> THEN {"init_payload"} ELSE {})
SetSeq(S) == LET RECURSIVE F(_) F(T) == IF T = {} THEN <<>> ELSE LET x == CHOOSE x \in T : TRUE IN <<x>> \o F(T \ {x}) IN F(S)
Judge == /\ pc = "judge"
         /\ res' = [set |-> TRUE, changed |-> Diff(cs, out.impl), nonidem |-> Diff(out.impl, out.twice), ideal |-> Diff(cs, out.ideal),
                    why |-> {d \in Deviations : Diff(cs, SerOf(cs, irt, Deviations \ {d})) # Diff(cs, out.impl)}]
         /\ pc' = "done"
         /\ UNCHANGED <<cs, irt, out>>
Next == Pick \/ DeserializeTensor \/ SerializeTensor \/ Judge
Spec == Init /\ [][Next]_vars

Done == pc = "done"
\* design: the round trip changes nothing
DesignOK == Done => res.ideal = {}
DeviationsExplain == Done => (res.changed # {} => res.why # {})
\* vacuity witnesses (must be violated)
ImplExact == Done => res.changed = {}
SomeSubByteTyped == ~(Done /\ cs.storage = "typed" /\ cs.count # cs.numel /\ cs.numel > 1 /\ cs.dtype \notin {"COMPLEX64", "COMPLEX128"})

EmitCases == Done => PrintT(<<"PAYLOAD", ToJson([dtype |-> cs.dtype, value |-> cs.value, storage |-> cs.storage, shape |-> cs.shape, dims |-> cs.dims,
                                                   numel |-> cs.numel, meta |-> cs.meta, field |-> cs.field, count |-> cs.count, nbytes |-> cs.nbytes,
                                                   changed |-> SetSeq(res.changed), nonidem |-> SetSeq(res.nonidem), why |-> SetSeq(res.why)])>>)
NoDevs == {}
RealDevs == AllDevs
=============================================================================
