SPECIFICATION Spec
CONSTANTS
  Deviations <- RealDevs
  MaxNodes = 1
  Worlds <- VecWorld
  Rich = FALSE
  NumIter = 2
  EarlyStop = TRUE
  Sim = FALSE
  Fine = FALSE
  Mutant = "fold_graph_input"
INVARIANT PropertyHolds
CHECK_DEADLOCK FALSE
