SPECIFICATION Spec
CONSTANTS
  Deviations <- AllDevs
  MaxCalls = 3
  MaxDepth = 1
  Ops = {"Add"}
  LitMenu = {"i1"}
  InMenu = {1, 4}
  Trips = {2}
  Kinds = {"if", "loop"}
  FnMenu = {1, 2, 3, 4}
  CarryMenu = {}
  LitOnly = FALSE
  Sim = FALSE
INVARIANT NeverClash
CHECK_DEADLOCK FALSE
