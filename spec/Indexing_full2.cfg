SPECIFICATION Spec
CONSTANTS
  Deviations <- AllDevs
  Shapes <- ShapesFull2
  FullRanks <- Full2
INVARIANT DesignOK
INVARIANT DeviationsExplain
INVARIANT Emit
CHECK_DEADLOCK FALSE
