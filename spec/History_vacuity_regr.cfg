\* the two modelled regressions (to_model_proto writing into the function; reference-operator cache without the
\* opset version) make HistoryIndependent fail: the property covers them
SPECIFICATION Spec
CONSTANTS
  Deviations <- RegressionDevs
  MaxLen = 2
  Alphabet <- QuickOps
  UseRecorded = FALSE
  EmitLen = 0
INVARIANT HistoryIndependent
CHECK_DEADLOCK FALSE
