SPECIFICATION Spec
CONSTANTS
  Deviations <- RealDevs
  MaxPNodes = 1
  Features <- AllFeatures
  OpSet <- AllOps
  VarVals <- Vals3
INVARIANT DesignOK
INVARIANT DeviationsExplain
INVARIANT Emit
CHECK_DEADLOCK FALSE
