SPECIFICATION Spec
CONSTANTS
  Deviations <- RealDevs
  RuleSets <- VacuitySets
  MaxDepth = 1
  Wide = FALSE
INVARIANT NeverNested
CHECK_DEADLOCK FALSE
