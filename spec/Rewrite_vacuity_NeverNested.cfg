SPECIFICATION Spec
CONSTANTS
  Deviations <- RealDevs
  RuleSets <- VacuitySets
  MaxDepth = 2
  Wide = FALSE
INVARIANT NeverNested
CHECK_DEADLOCK FALSE
