----------------------------- MODULE Optimizer -----------------------------
(* C03 / C04: onnxscript.optimizer.optimize on small models.                                      *)
(*                                                                                                *)
(* A behaviour BUILDS a model by actions (AddUnary, AddDropoutMask, AddCast, AddCastLike,         *)
(* AddTranspose, AddBinConst, AddBin, AddClip, AddShapeOp, AddReshape, AddExpand, AddUnsqueeze,   *)
(* AddIf, Finish) over integer valued FLOAT / INT64 / BOOL tensors (Tensor.tla) in one of five    *)
(* "worlds" (input signatures: static vector, symbolic N incl. a zero-size probe, static matrix,  *)
(* two inputs with unnamed dims, static rank 3), with constants supplied as Constant nodes,       *)
(* initializers, OVERRIDABLE initializer-inputs or constant sub-expressions, and then RUNS THE    *)
(* PIPELINE of onnxscript/optimizer/_optimizer.py:optimize_ir as named steps:                     *)
(*   FoldVisit     - FoldConstantsPass.process_node on the next node of the main graph: symbolic  *)
(*                   value input substitution, node-level shape inference (InferOut, with         *)
(*                   symbolic dims and _merge_shapes), the partial evaluators (operator PE: Cast, *)
(*                   CastLike, Shape, Size, Gather, Reshape, Squeeze, Expand, Concat, Dropout,    *)
(*                   Identity, If inlining with initializer moving), FoldByReference (graph-input  *)
(*                   guard), replace_node / _clear_unused_initializers, visit of If branches       *)
(*   FoldOutputs   - visit_graph's replacement of graph outputs by equal values                   *)
(*   RewriteVisit  - RewriteRuleSet._apply_to_graph_or_function on the next node: first rule of   *)
(*                   _DEFAULT_REWRITE_RULES that matches (operator Rules: x*1, x+0, x-0,          *)
(*                   MaterializeReshapeShape, Min/Max fusions and ->Clip, Relu/Clip fusions,      *)
(*                   CastIdentity, ExpandIdentity, ReshapeReshape, TransposeIdentity,             *)
(*                   TransposeTranspose, UnsqueezeUnsqueeze), incl. "matched inner node removable" *)
(*   DCE           - RemoveUnusedNodesPass (+ unused initializers, optional outputs), PassManager *)
(*                   iteration with early stop                                                    *)
(*   LiftConstants, LiftSubgraphInits, DedupInits, CSE, OutputFix - the tail of the pipeline      *)
(* Two facts of the IR that decide structure are modelled explicitly: nested graphs of a removed  *)
(* or inlined If keep using the values they captured (st.ghost), and the DCE inside RewritePass   *)
(* is not reported as a modification (early stop).                                                *)
(* Every behaviour first runs the IMPLEMENTATION MODEL (devs = Deviations: the code as written,   *)
(* known defects as named deviations, DESIGN.md 2.5); if that run took a deviation it is repeated *)
(* as a run of the DESIGN (DesignRerun, devs = {}).                                               *)
(* Properties, checked in EVERY state of the optimizer phase, i.e. after every single step, of    *)
(* every design run and of every implementation run up to its first deviation (PropertyHolds):    *)
(*   C03 Preserves   : outputs of the current graph on every probe = outputs of the original,     *)
(*                     incl. probe 4 = overrides of the overridable defaults (C04)                *)
(*   C04 SigKept     : graph inputs/outputs keep names and order; overridable defaults kept       *)
(*       NeverRaises : no step raises                                                             *)
(*       WellFormed  : Graph!SSA /\ Graph!Scoped after every step                                 *)
(* Mutant # "none" seeds a defect into the design (shows that PropertyHolds can fail).            *)
(* Not modelled (covered only by the library stage of the harness): sequence ops, Loop, model-    *)
(* local functions / InlinePass, size gates and should_fold (options select replay variants only),*)
(* opset imports, generated value names (NameFixPass).                                            *)
EXTENDS Tensor, Graph, TLC, Json

CONSTANTS Deviations,      \* implementation model: subset of AllDevs
          MaxNodes,        \* non-Constant nodes per model
          Worlds,          \* which input signatures are explored
          Rich,            \* bigger menus
          NumIter,         \* num_iterations of optimize()
          EarlyStop,       \* stop_if_no_change of optimize()
          Sim,             \* TRUE (only with -simulate): every menu choice is drawn at random instead of enumerated
          Fine,            \* TRUE: one optimizer step per visited node; FALSE: one step per pass
          Mutant           \* "none", or a seeded defect of the DESIGN (shows that the invariants can fail)
VARIABLES stage, wd, m0, envs, gr, st, rnd
vars == <<stage, wd, m0, envs, gr, st, rnd>>

AllDevs == {"overridable_read_as_const", "overridable_default_dropped", "relu_clip_negmax", "clip_clip_disjoint",
            "relu_clip_no_dtype_raise", "graph_input_output_renamed", "cse_output_type_lost"}

NOAX == -100
NOSHP == <<-1000>>          \* static shape unknown (value.shape is None)
UNK == -9                   \* a dim without value and without name
SymN == -11                 \* dim_param "N"
NoAt == [to |-> "", perm |-> <<>>, axis |-> NOAX, val |-> ERR, az |-> 0]
Nd(op, ins, outs, at, sub) == [op |-> op, ins |-> ins, outs |-> outs, at |-> at, sub |-> sub]
N1(op, ins, out) == Nd(op, ins, <<out>>, NoAt, <<>>)
ConstNode(name, t) == Nd("Constant", <<>>, <<name>>, [NoAt EXCEPT !.val = t], <<>>)
InR(name, kind, dt, dsh, val) == [name |-> name, kind |-> kind, dt |-> dt, ds |-> dsh, val |-> val]
IniR(name, val) == [name |-> name, val |-> val]
SubG(inits, nodes, outs) == [ins |-> <<>>, inits |-> inits, nodes |-> nodes, outs |-> outs]
FS(v) == Scalar("f32", v)
FV(s) == Vec("f32", s)
IVec(s) == Vec("i64", s)
BS(b) == Scalar("bool", IF b THEN 1 ELSE 0)
Str(i) == ToString(i)
RECURSIVE SetToSeq(_)
SetToSeq(S) == IF S = {} THEN <<>> ELSE LET x == CHOOSE x \in S : TRUE IN <<x>> \o SetToSeq(S \ {x})

-----------------------------------------------------------------------------
(* what a graph computes (ONNX operator semantics on integer-valued tensors)                      *)
Get(env, n) == IF n \in DOMAIN env THEN env[n] ELSE ERR
CastTo(t, dt) == IF IsErr(t) THEN ERR
                 ELSE IF dt = "bool" THEN Map1(t, "bool", LAMBDA v : IF v # 0 THEN 1 ELSE 0)
                 ELSE T(dt, t.shape, t.data)
Arith(a, b, F(_, _)) == IF IsErr(a) \/ IsErr(b) THEN ERR ELSE IF a.dt # b.dt \/ a.dt = "bool" THEN ERR ELSE Map2(a, b, a.dt, F)
ClipT(x, lo, hi, hasLo, hasHi) ==
   IF IsErr(x) \/ (hasLo /\ (IsErr(lo) \/ lo.dt # x.dt \/ Len(lo.data) # 1 \/ lo.shape # <<>>))
               \/ (hasHi /\ (IsErr(hi) \/ hi.dt # x.dt \/ Len(hi.data) # 1 \/ hi.shape # <<>>)) THEN ERR
   ELSE Map1(x, x.dt, LAMBDA v : LET a == IF hasLo THEN Max2(v, lo.data[1]) ELSE v IN IF hasHi THEN Min2(a, hi.data[1]) ELSE a)
IsI64Vec(t) == ~IsErr(t) /\ t.dt = "i64" /\ Rank(t) = 1
BindSeq(names, vals, env) == [nm \in {names[i] : i \in 1..Len(names)} |-> vals[CHOOSE i \in 1..Len(names) : names[i] = nm]] @@ env
InitEnv(inits) == [nm \in {inits[i].name : i \in 1..Len(inits)} |-> inits[CHOOSE i \in 1..Len(inits) : inits[i].name = nm].val]

RECURSIVE EvalSeq(_, _, _), OpEval(_, _)
OpEval(n, env) ==
   LET Has(i) == i <= Len(n.ins) /\ n.ins[i] # ""
       A(i) == IF Has(i) THEN Get(env, n.ins[i]) ELSE ERR
   IN CASE n.op = "Constant" -> <<n.at.val>>
        [] n.op = "Identity" -> <<A(1)>>
        [] n.op = "Dropout" -> IF Len(n.outs) = 1 THEN <<A(1)>> ELSE <<A(1), Map1(A(1), "bool", LAMBDA v : 1)>>
        [] n.op = "Neg" -> <<IF ~IsErr(A(1)) /\ A(1).dt = "bool" THEN ERR ELSE Map1(A(1), A(1).dt, LAMBDA v : -v)>>
        [] n.op = "Abs" -> <<IF ~IsErr(A(1)) /\ A(1).dt = "bool" THEN ERR ELSE Map1(A(1), A(1).dt, AbsI)>>
        [] n.op = "Relu" -> <<IF ~IsErr(A(1)) /\ A(1).dt # "f32" THEN ERR ELSE Map1(A(1), A(1).dt, LAMBDA v : Max2(v, 0))>>
        [] n.op = "Not" -> <<IF ~IsErr(A(1)) /\ A(1).dt # "bool" THEN ERR ELSE Map1(A(1), "bool", LAMBDA v : 1 - v)>>
        [] n.op = "Add" -> <<Arith(A(1), A(2), LAMBDA a, b : a + b)>>
        [] n.op = "Sub" -> <<Arith(A(1), A(2), LAMBDA a, b : a - b)>>
        [] n.op = "Mul" -> <<Arith(A(1), A(2), LAMBDA a, b : a * b)>>
        [] n.op = "Div" -> <<IF ~IsErr(A(2)) /\ \E i \in 1..Len(A(2).data) : A(2).data[i] \notin {1, -1} THEN ERR
                              ELSE Arith(A(1), A(2), LAMBDA a, b : a * b)>>
        [] n.op = "Min" -> <<Arith(A(1), A(2), Min2)>>
        [] n.op = "Max" -> <<Arith(A(1), A(2), Max2)>>
        [] n.op = "Clip" -> <<ClipT(A(1), A(2), A(3), Has(2), Has(3))>>
        [] n.op = "Cast" -> <<CastTo(A(1), n.at.to)>>
        [] n.op = "CastLike" -> <<IF IsErr(A(2)) THEN ERR ELSE CastTo(A(1), A(2).dt)>>
        [] n.op = "Transpose" -> <<Transpose(A(1), n.at.perm)>>
        [] n.op = "Reshape" -> <<IF IsI64Vec(A(2)) THEN Reshape(A(1), A(2).data, n.at.az = 1) ELSE ERR>>
        [] n.op = "ConstantOfShape" -> <<IF IsI64Vec(A(1)) /\ (\A i \in 1..Len(A(1).data) : A(1).data[i] >= 0)
                                         THEN T(n.at.val.dt, A(1).data, [k \in 1..Numel(A(1).data) |-> n.at.val.data[1]]) ELSE ERR>>
        [] n.op = "Expand" -> <<IF IsI64Vec(A(2)) /\ (\A i \in 1..Len(A(2).data) : A(2).data[i] >= 0) THEN Expand(A(1), A(2).data) ELSE ERR>>
        [] n.op = "Shape" -> <<ShapeOf(A(1))>>
        [] n.op = "Size" -> <<IF IsErr(A(1)) THEN ERR ELSE Scalar("i64", Numel(A(1).shape))>>
        [] n.op = "Gather" -> <<IF ~IsErr(A(2)) /\ A(2).dt # "i64" THEN ERR ELSE Gather(A(1), A(2), IF n.at.axis = NOAX THEN 0 ELSE n.at.axis)>>
        [] n.op = "Concat" -> <<LET ts == [i \in 1..Len(n.ins) |-> A(i)]
                                IN IF \E i \in 1..Len(ts) : IsErr(ts[i]) \/ ts[i].dt # ts[1].dt THEN ERR ELSE Concat(ts, n.at.axis)>>
        [] n.op = "Unsqueeze" -> <<IF IsI64Vec(A(2)) THEN Unsqueeze(A(1), A(2).data) ELSE ERR>>
        [] n.op = "Squeeze" -> <<IF IsI64Vec(A(2)) THEN Squeeze(A(1), A(2).data) ELSE ERR>>
        [] n.op = "If" ->
             LET c == A(1) IN
             IF IsErr(c) \/ c.dt # "bool" \/ Len(c.data) # 1 THEN [i \in 1..Len(n.outs) |-> ERR]
             ELSE LET br == IF c.data[1] # 0 THEN n.sub[1] ELSE n.sub[2]
                      e2 == EvalSeq(br.nodes, 1, InitEnv(br.inits) @@ env)
                  IN [i \in 1..Len(n.outs) |-> IF i <= Len(br.outs) THEN Get(e2, br.outs[i]) ELSE ERR]
        [] OTHER -> [i \in 1..Len(n.outs) |-> ERR]
EvalSeq(nodes, k, env) ==
   IF k > Len(nodes) THEN env
   ELSE EvalSeq(nodes, k + 1, BindSeq(nodes[k].outs, OpEval(nodes[k], env), env))

\* feed: function input name -> tensor; an overridable input missing from the feed takes its default
FeedEnv(m, feed) == [nm \in {m.ins[i].name : i \in 1..Len(m.ins)} |->
                        IF nm \in DOMAIN feed THEN feed[nm]
                        ELSE LET i == CHOOSE i \in 1..Len(m.ins) : m.ins[i].name = nm
                             IN IF m.ins[i].kind = "ovr" THEN m.ins[i].val ELSE ERR]
\* a run needs every graph input that has no default (the runtime refuses the feed otherwise)
EvalModel(m, feed) == LET e == EvalSeq(m.nodes, 1, InitEnv(m.inits) @@ FeedEnv(m, feed))
                          missing == \E i \in 1..Len(m.ins) : m.ins[i].kind # "ovr" /\ m.ins[i].name \notin DOMAIN feed
                      IN [i \in 1..Len(m.outs) |-> IF missing THEN ERR ELSE Get(e, m.outs[i])]

-----------------------------------------------------------------------------
(* worlds: input signature + three probe feeds each *)
AllWorlds == {"vec", "sym", "mat", "anon", "r3", "zero", "scal"}
WIns(w) ==
   CASE w = "vec" -> <<InR("x", "in", "f32", <<3>>, ERR), InR("b", "in", "bool", <<>>, ERR)>>
     [] w = "sym" -> <<InR("x", "in", "f32", <<SymN>>, ERR), InR("b", "in", "bool", <<>>, ERR)>>
     [] w = "mat" -> <<InR("x", "in", "f32", <<2, 3>>, ERR)>>
     [] w = "anon" -> <<InR("x", "in", "f32", <<UNK, UNK>>, ERR), InR("y", "in", "f32", <<UNK, UNK>>, ERR)>>
     [] w = "r3" -> <<InR("x", "in", "f32", <<2, 1, 3>>, ERR)>>
     [] w = "scal" -> <<InR("x", "in", "f32", <<>>, ERR)>>                                                  \* a rank-0 operand
     [] w = "zero" -> <<InR("x", "in", "f32", <<2, 0>>, ERR), InR("y", "in", "f32", <<3, 0>>, ERR)>>      \* empty because of the SECOND axis
Fd1(x) == [nm \in {"x"} |-> x]
Fd2(x, n2, v2) == [nm \in {"x", n2} |-> IF nm = "x" THEN x ELSE v2]
WFeeds(w) ==
   CASE w = "vec" -> <<Fd2(FV(<<0, 1, -1>>), "b", BS(TRUE)), Fd2(FV(<<-2, 3, 5>>), "b", BS(FALSE)), Fd2(FV(<<7, -7, 100>>), "b", BS(TRUE))>>
     [] w = "sym" -> <<Fd2(FV(<<0, 1, -1>>), "b", BS(TRUE)), Fd2(FV(<<-2>>), "b", BS(FALSE)), Fd2(FV(<<>>), "b", BS(FALSE))>>
     [] w = "mat" -> <<Fd1(T("f32", <<2, 3>>, <<0, 1, -1, 2, -2, 3>>)), Fd1(T("f32", <<2, 3>>, <<-5, 0, 7, 1, 1, -1>>)), Fd1(T("f32", <<2, 3>>, <<100, -100, 3, 0, 0, 0>>))>>
     [] w = "anon" -> <<Fd2(T("f32", <<1, 3>>, <<0, 1, -1>>), "y", T("f32", <<3, 1>>, <<2, -2, 0>>)),
                        Fd2(T("f32", <<1, 2>>, <<-3, 5>>), "y", T("f32", <<2, 1>>, <<1, -1>>)),
                        Fd2(T("f32", <<1, 1>>, <<7>>), "y", T("f32", <<1, 1>>, <<-7>>))>>
     [] w = "scal" -> <<Fd1(FS(0)), Fd1(FS(-3)), Fd1(FS(7))>>
     [] w = "zero" -> LET fd == Fd2(T("f32", <<2, 0>>, <<>>), "y", T("f32", <<3, 0>>, <<>>)) IN <<fd, fd, fd>>
     [] w = "r3" -> <<Fd1(T("f32", <<2, 1, 3>>, <<0, 1, -1, 2, -2, 3>>)), Fd1(T("f32", <<2, 1, 3>>, <<-5, 0, 7, 1, 1, -1>>)), Fd1(T("f32", <<2, 1, 3>>, <<100, -100, 3, 0, 0, 0>>))>>
NP == 3
\* the override a caller may pass for an overridable initializer-input (probe 4 = probe 1 + overrides)
Override(t) == IF t.dt = "bool" THEN T("bool", t.shape, [k \in 1..Len(t.data) |-> 1 - t.data[k]])
               ELSE IF t.dt = "i64" THEN Vec("i64", [k \in 1..Len(t.data) |-> t.data[Len(t.data) + 1 - k]])   \* same rank: the declared output ranks stay true
               ELSE T(t.dt, t.shape, [k \in 1..Len(t.data) |-> t.data[k] + 1])
OvrNames(m) == {m.ins[i].name : i \in {i \in 1..Len(m.ins) : m.ins[i].kind = "ovr"}}
OvrFeed(m, w) == [nm \in OvrNames(m) |-> Override(m.ins[CHOOSE i \in 1..Len(m.ins) : m.ins[i].name = nm].val)] @@ WFeeds(w)[1]
-----------------------------------------------------------------------------
(* model derivation *)
NONEB == 99                         \* omitted Clip bound
NodeCount(m) == Cardinality({k \in 1..Len(m.nodes) : m.nodes[k].op # "Constant"})
NextId(m) == Len(m.nodes) + Len(m.inits) + Len(m.ins) + 1
InNames(m) == {m.ins[i].name : i \in 1..Len(m.ins)}
\* operands a new node may take: the data inputs and the two most recent node outputs
\* simulation: a reproducible pseudo-random choice driven by the behaviour's salt rnd (RandomElement is re-seeded per state)
PickN(salt, S) == IF Sim /\ S # {} THEN LET sq == SetToSeq(S)
                                     hsh == (rnd * 7919 + (Len(m0.nodes) + Len(m0.inits) + Len(m0.ins)) * 104729 + salt * 1299709) % 1000003
                                 IN {sq[(hsh % Len(sq)) + 1]} ELSE S
Avail == LET s == m0.main IN ({"x", "y"} \cap InNames(m0)) \cup {s[j] : j \in {j \in 1..Len(s) : j >= Len(s) - 1}}
V1(nm) == envs[1][nm]
AvailF == PickN(1, {a \in Avail : V1(a).dt = "f32"})
AvailS == PickN(2, {a \in Avail : V1(a).dt = "i64" /\ Rank(V1(a)) = 1})
vN == "v" \o Str(NextId(m0))
cN == "c" \o Str(NextId(m0))
dN == "d" \o Str(NextId(m0))
CanAdd == stage = "build" /\ NodeCount(m0) < MaxNodes

TryAdd(nIns, nInits, nNodes) ==
   LET insEnv == [nm \in {nIns[i].name : i \in 1..Len(nIns)} |-> nIns[CHOOSE i \in 1..Len(nIns) : nIns[i].name = nm].val]
       e1 == [k \in 1..NP |-> EvalSeq(nNodes, 1, InitEnv(nInits) @@ insEnv @@ envs[k])]
       newNames == UNION {SeqToSet(nNodes[j].outs) : j \in 1..Len(nNodes)}
   IN /\ \A k \in 1..NP : \A nm \in newNames : ~IsErr(e1[k][nm])
      /\ m0' = [m0 EXCEPT !.ins = @ \o nIns, !.inits = @ \o nInits, !.nodes = @ \o nNodes, !.main = Append(@, vN)]
      /\ envs' = e1
      /\ UNCHANGED <<stage, wd, gr, st, rnd>>

\* how a "constant" operand is supplied.  cnode: Constant node; init: initializer; ovr: initializer that is also a graph
\* input (a default the caller may override); cexpr/iexpr/oexpr: Neg(Neg(.)) of one of those (a constant sub-expression)
CKindsAll == {"cnode", "init", "ovr", "cexpr", "iexpr", "oexpr"}
CKindsPlain == {"cnode", "init", "ovr"}
BaseKind(k) == CASE k \in {"cnode", "cexpr"} -> "cnode" [] k \in {"init", "iexpr"} -> "init" [] OTHER -> "ovr"
NegT(t) == T(t.dt, t.shape, [i \in 1..Len(t.data) |-> -t.data[i]])
\* returns [ins, inits, nodes, nm]: the operand is the value named nm
COp(kind, nm, t) ==
   LET expr == kind \in {"cexpr", "iexpr", "oexpr"}
       bk == BaseKind(kind)
       src == IF expr THEN nm \o "s" ELSE nm
       tv == IF expr THEN NegT(t) ELSE t
   IN [ins |-> IF bk = "ovr" THEN <<InR(src, "ovr", tv.dt, IF tv.dt = "i64" THEN [i \in 1..Len(tv.shape) |-> UNK] ELSE tv.shape, tv)>> ELSE <<>>,
       inits |-> IF bk = "init" THEN <<IniR(src, tv)>> ELSE <<>>,
       nodes |-> (IF bk = "cnode" THEN <<ConstNode(src, tv)>> ELSE <<>>) \o (IF expr THEN <<N1("Neg", <<src>>, nm)>> ELSE <<>>),
       nm |-> nm]
NoC == [ins |-> <<>>, inits |-> <<>>, nodes |-> <<>>, nm |-> ""]
AddWith(c, node) == TryAdd(c.ins, c.inits, c.nodes \o <<node>>)

\* primary operand of a new node: the most recent value (slim menus: chains), or any available value (rich menus)
Prim0 == IF Rich \/ m0.main = <<>> THEN Avail ELSE {m0.main[Len(m0.main)]}
Prim == PickN(3, Prim0)
PrimF == PickN(4, {a \in Prim0 : V1(a).dt = "f32"})
PrimS == PickN(5, {a \in Prim0 : V1(a).dt = "i64" /\ Rank(V1(a)) = 1})
UnOps0 == IF Rich THEN {"Neg", "Abs", "Relu", "Identity", "Dropout"} ELSE {"Neg", "Relu", "Identity", "Dropout"}
UnOps == PickN(6, UnOps0)
AddUnary == /\ CanAdd
            /\ \E a \in PrimF, op \in UnOps : TryAdd(<<>>, <<>>, <<N1(op, <<a>>, vN)>>)
AddDropoutMask == /\ CanAdd /\ (Sim => rnd % 3 = 0)
                  /\ \E a \in PrimF : TryAdd(<<>>, <<>>, <<Nd("Dropout", <<a>>, <<vN, "m" \o Str(NextId(m0))>>, NoAt, <<>>)>>)
AddCast == /\ CanAdd
           /\ \E a \in Prim, to \in {"i64", "f32"} :
                 TryAdd(<<>>, <<>>, <<Nd("Cast", <<a>>, <<vN>>, [NoAt EXCEPT !.to = to], <<>>)>>)
AddCastLike == /\ CanAdd
               /\ \E a \in PrimF, b2 \in PickN(7, IF Rich THEN Avail \cup {"b"} ELSE {"x"}) :
                     b2 \in DOMAIN envs[1] /\ TryAdd(<<>>, <<>>, <<N1("CastLike", <<a, b2>>, vN)>>)
Perms(r) == IF r = 2 THEN {<<0, 1>>, <<1, 0>>}
            ELSE IF r = 3 THEN {<<0, 1, 2>>, <<0, 2, 1>>, <<1, 0, 2>>, <<1, 2, 0>>, <<2, 0, 1>>, <<2, 1, 0>>} ELSE {}
AddTranspose == /\ CanAdd
                /\ \E a \in PrimF : \E p \in PickN(8, Perms(Rank(V1(a)))) :
                      TryAdd(<<>>, <<>>, <<Nd("Transpose", <<a>>, <<vN>>, [NoAt EXCEPT !.perm = p], <<>>)>>)
\* op(a, constant): <<op, value, kind>>
BinCMenu0 ==
   IF Rich THEN {<<op, t, k>> : op \in PickN(9, {"Add", "Sub", "Mul", "Div", "Min", "Max"}), t \in PickN(10, {FS(0), FS(1), FS(-1), FS(2), FV(<<0>>), FV(<<1>>)}), k \in PickN(11, CKindsAll)}
   ELSE {<<"Add", FV(<<0>>), "init">>, <<"Mul", FV(<<1>>), "cnode">>, <<"Sub", FS(0), "init">>, <<"Sub", FV(<<0>>), "cnode">>,
         <<"Div", FS(1), "init">>, <<"Div", FV(<<1>>), "cnode">>,
         <<"Add", FS(0), "init">>, <<"Add", FS(0), "ovr">>, <<"Mul", FS(1), "cnode">>,
         <<"Min", FS(1), "init">>, <<"Max", FS(0), "init">>, <<"Max", FS(2), "cnode">>, <<"Mul", FS(2), "iexpr">>, <<"Sub", FS(1), "oexpr">>}
BinCMenu == PickN(12, BinCMenu0)
AddBinConst == /\ CanAdd
               /\ \E a \in PrimF, e \in BinCMenu, flip \in BOOLEAN :
                     \* both operand orders; slim menus: for the neutral elements (the no-op rules are commuted), always in world scal
                     /\ flip => (e[1] \in {"Add", "Mul"} /\ (Rich \/ wd = "scal" \/ e[2] \in {FV(<<0>>), FV(<<1>>)}))
                     /\ LET c == COp(e[3], cN, e[2]) IN AddWith(c, N1(e[1], IF flip THEN <<c.nm, a>> ELSE <<a, c.nm>>, vN))
AddBin == /\ CanAdd
          /\ \E a \in PrimF, b2 \in (IF Rich THEN AvailF ELSE {"x"}), op \in (IF Rich THEN {"Add", "Mul", "Sub", "Min"} ELSE {"Add"}) :
                TryAdd(<<>>, <<>>, <<N1(op, <<a, b2>>, vN)>>)
ClipMenu0 == IF Rich THEN {<<lo, hi, k>> : lo \in PickN(13, {NONEB, -2, -1, 0, 1, 2}), hi \in PickN(14, {NONEB, -2, -1, 0, 1, 2}), k \in PickN(15, CKindsPlain)}
            ELSE {<<-1, 1, "init">>, <<NONEB, -1, "cnode">>, <<1, NONEB, "init">>}
ClipMenu == PickN(16, ClipMenu0)
AddClip == /\ CanAdd
           /\ \E a \in PrimF, e \in ClipMenu :
                 /\ e[1] # NONEB \/ e[2] # NONEB
                 /\ LET cl == IF e[1] = NONEB THEN NoC ELSE COp(e[3], cN, FS(e[1]))
                        ch == IF e[2] = NONEB THEN NoC ELSE COp(e[3], dN, FS(e[2]))
                    IN TryAdd(cl.ins \o ch.ins, cl.inits \o ch.inits,
                              cl.nodes \o ch.nodes \o <<N1("Clip", IF e[2] = NONEB THEN <<a, cl.nm>> ELSE <<a, cl.nm, ch.nm>>, vN)>>)
\* Concat of data tensors along an axis (operands may be empty because of ANOTHER axis: world "zero")
AddConcatData == /\ CanAdd
                 /\ \E a \in PrimF, b2 \in PickN(31, IF Rich THEN AvailF \cup ({"y"} \cap InNames(m0)) ELSE {"x", "y"} \cap InNames(m0)),
                       ax \in PickN(32, IF Rich THEN {0, 1, -1} ELSE {0, 1}) :
                       TryAdd(<<>>, <<>>, <<Nd("Concat", <<a, b2>>, <<vN>>, [NoAt EXCEPT !.axis = ax], <<>>)>>)
\* shape computations: Shape, Size, Gather from a shape vector, Concat of shape vectors
IdxVals0 == IF Rich THEN {IVec(<<0>>), IVec(<<-1>>), IVec(<<1, 0>>), Scalar("i64", 0)} ELSE {IVec(<<0>>), IVec(<<-1>>)}
IdxVals == PickN(17, IdxVals0)
AddShapeOp == /\ CanAdd
              /\ \/ \E a \in PickN(18, Prim0 \cup (IF "y" \in InNames(m0) THEN {"y"} ELSE {})) : TryAdd(<<>>, <<>>, <<N1("Shape", <<a>>, vN)>>)
                 \/ Rich /\ \E a \in Prim : TryAdd(<<>>, <<>>, <<N1("Size", <<a>>, vN)>>)
                 \/ \E s \in PrimS, idx \in IdxVals, kind \in (IF Rich THEN {"cnode", "init"} ELSE {"init"}), ax \in (IF Rich THEN {0, NOAX} ELSE {0}) :
                       AddWith(COp(kind, cN, idx), Nd("Gather", <<s, cN>>, <<vN>>, [NoAt EXCEPT !.axis = ax], <<>>))
                 \/ \E s \in PrimS : \E s2 \in (IF Rich THEN AvailS ELSE {s}) : TryAdd(<<>>, <<>>, <<Nd("Concat", <<s, s2>>, <<vN>>, [NoAt EXCEPT !.axis = 0], <<>>)>>)
                 \/ \E s \in PrimS, kind \in (IF Rich THEN {"cnode", "init"} ELSE {"cnode"}), front \in (IF Rich THEN BOOLEAN ELSE {FALSE}) :
                       AddWith(COp(kind, cN, IVec(<<1>>)), Nd("Concat", IF front THEN <<cN, s>> ELSE <<s, cN>>, <<vN>>, [NoAt EXCEPT !.axis = 0], <<>>))
\* Reshape / Expand: target = a computed shape vector or a constant
\* <<target, kind>>
RMenu0 == IF Rich THEN {<<t, k>> : t \in PickN(19, {IVec(<<-1>>), IVec(<<3>>), IVec(<<1, -1>>), IVec(<<3, 1>>), IVec(<<2, 3>>), IVec(<<6>>), IVec(<<0, -1>>)}), k \in PickN(20, CKindsPlain)}
         ELSE {<<IVec(<<-1>>), "init">>, <<IVec(<<3>>), "init">>, <<IVec(<<3>>), "ovr">>, <<IVec(<<3, 1>>), "cnode">>, <<IVec(<<2, 3>>), "init">>, <<IVec(<<0, -1>>), "init">>}
RMenu == PickN(21, RMenu0)
EMenu0 == IF Rich THEN {<<t, k>> : t \in PickN(22, {IVec(<<3>>), IVec(<<1, 3>>), IVec(<<2, 3>>), IVec(<<1>>), IVec(<<2, 1, 3>>)}), k \in PickN(23, CKindsPlain)}
         ELSE {<<IVec(<<3>>), "init">>, <<IVec(<<3>>), "ovr">>, <<IVec(<<1, 3>>), "cnode">>, <<IVec(<<2, 3>>), "init">>, <<IVec(<<2, 1, 3>>), "init">>}
EMenu == PickN(24, EMenu0)
AddReshape == /\ CanAdd
              /\ \/ \E a \in (IF Rich THEN AvailF ELSE {"x"}), s \in PrimS : TryAdd(<<>>, <<>>, <<N1("Reshape", <<a, s>>, vN)>>)
                 \/ \E a \in PrimF, e \in RMenu : AddWith(COp(e[2], cN, e[1]), N1("Reshape", <<a, cN>>, vN))
AddExpand == /\ CanAdd
             /\ \/ \E a \in (IF Rich THEN AvailF ELSE {"x"}), s \in PrimS : TryAdd(<<>>, <<>>, <<N1("Expand", <<a, s>>, vN)>>)
                \/ \E a \in PrimF, e \in EMenu : AddWith(COp(e[2], cN, e[1]), N1("Expand", <<a, cN>>, vN))
AddUnsqueeze == /\ CanAdd
                /\ \E a \in PrimF, ax \in {<<0>>, <<1>>}, kind \in (IF Rich THEN {"cnode", "init"} ELSE {"init"}), op \in (IF Rich THEN {"Unsqueeze", "Squeeze"} ELSE {"Unsqueeze"}) :
                      AddWith(COp(kind, cN, IVec(ax)), N1(op, <<a, cN>>, vN))
\* If: condition = graph input b, Not(b), or a constant; branches capture the outer value a
Branch(tpl, a, tag, id) ==
   LET o == tag \o Str(id) w == "w" \o tag \o Str(id) IN
   CASE tpl = "addw" -> SubG(<<IniR(w, FS(IF tag = "t" THEN 1 ELSE 2))>>, <<N1("Add", <<a, w>>, o)>>, <<o>>)
     [] tpl = "ident" -> SubG(<<>>, <<N1("Identity", <<a>>, o)>>, <<o>>)
     [] tpl = "mulc" -> SubG(<<>>, <<ConstNode(w, FS(2)), N1("Mul", <<a, w>>, o)>>, <<o>>)
     [] tpl = "relu2" -> SubG(<<>>, <<N1("Relu", <<a>>, o \o "a"), N1("Relu", <<o \o "a">>, o)>>, <<o>>)
     [] tpl = "addfold" -> SubG(<<IniR(w, FS(3))>>, <<N1("Neg", <<w>>, o \o "a"), N1("Add", <<a, o \o "a">>, o)>>, <<o>>)
BranchPairs0 == IF Rich THEN {<<t, e>> : t \in PickN(25, {"addw", "ident", "mulc", "relu2", "addfold"}), e \in PickN(26, {"addw", "ident", "mulc", "relu2", "addfold"})}
               ELSE {<<"addw", "ident">>}
BranchPairs == PickN(27, BranchPairs0)
\* condition: <<kind, value>>
CondMenu0 == IF Rich THEN {<<"b", TRUE>>, <<"nb", TRUE>>} \cup {<<k, v>> : k \in CKindsPlain, v \in BOOLEAN}
            ELSE {<<"b", TRUE>>, <<"init", FALSE>>, <<"ovr", TRUE>>}
CondMenu == PickN(28, CondMenu0)
SubOK(sg, k) == LET e2 == EvalSeq(sg.nodes, 1, InitEnv(sg.inits) @@ envs[k]) IN \A i \in 1..Len(sg.outs) : ~IsErr(Get(e2, sg.outs[i]))
AddIf == /\ CanAdd /\ "b" \in InNames(m0)
         /\ \E a \in PrimF, bp \in BranchPairs, cd \in CondMenu :
               LET id == NextId(m0)
                   cond == cd[1]
                   c == IF cond \in CKindsPlain THEN COp(cond, cN, BS(cd[2]))
                        ELSE IF cond = "nb" THEN [ins |-> <<>>, inits |-> <<>>, nodes |-> <<N1("Not", <<"b">>, "nb" \o Str(id))>>, nm |-> "nb" \o Str(id)]
                        ELSE [ins |-> <<>>, inits |-> <<>>, nodes |-> <<>>, nm |-> "b"]
                   sgT == Branch(bp[1], a, "t", id)
                   sgE == Branch(bp[2], a, "e", id)
               IN /\ \A k \in 1..NP : SubOK(sgT, k) /\ SubOK(sgE, k)
                  /\ AddWith(c, Nd("If", <<c.nm>>, <<vN>>, [NoAt EXCEPT !.axis = Rank(V1(a))], <<sgT, sgE>>))
-----------------------------------------------------------------------------
(* ============================ the optimizer ============================== *)
(* static knowledge the IR keeps per value: element type and (symbolic) shape *)
EmptyF == [x \in {} |-> ERR]
NoTy == [dt |-> "", sh |-> NOSHP]
TyGet(ty, nm) == IF nm \in DOMAIN ty THEN ty[nm] ELSE NoTy
FAILSH == <<-2000>>
Cnt(sq, x) == Cardinality({i \in 1..Len(sq) : sq[i] = x})
RS(sq, o, nw) == [i \in 1..Len(sq) |-> IF sq[i] = o THEN nw ELSE sq[i]]
RECURSIVE Uses(_, _)
Uses(nodes, nm) == IF nodes = <<>> THEN 0
                   ELSE LET n == Head(nodes)
                        IN Cnt(n.ins, nm) + (IF n.sub = <<>> THEN 0 ELSE Uses(n.sub[1].nodes, nm) + Uses(n.sub[2].nodes, nm)) + Uses(Tail(nodes), nm)
\* rename value o to nw in node inputs (and in definitions when `defs`), recursively in nested graphs
RECURSIVE RenNodes(_, _, _, _)
RenNodes(nodes, o, nw, defs) ==
   [k \in 1..Len(nodes) |->
      LET n == nodes[k] IN
      [n EXCEPT !.ins = RS(n.ins, o, nw),
                !.outs = IF defs THEN RS(n.outs, o, nw) ELSE n.outs,
                !.sub = [j \in 1..Len(n.sub) |-> [n.sub[j] EXCEPT !.nodes = RenNodes(n.sub[j].nodes, o, nw, defs),
                                                                   !.outs = IF defs THEN RS(n.sub[j].outs, o, nw) ELSE n.sub[j].outs]]]]
ProdIdx(nodes, nm) == IF \E k \in 1..Len(nodes) : nm \in SeqToSet(nodes[k].outs)
                      THEN CHOOSE k \in 1..Len(nodes) : nm \in SeqToSet(nodes[k].outs) ELSE 0
\* const_value: initializers and outputs of Constant nodes of this graph
ConstMap(G) == LET K == {k \in 1..Len(G.nodes) : G.nodes[k].op = "Constant"}
               IN [nm \in {G.nodes[k].outs[1] : k \in K} |-> G.nodes[CHOOSE k \in K : G.nodes[k].outs[1] = nm].at.val] @@ InitEnv(G.inits)
\* initializers that are also graph inputs carry a const_value too (the default)
OvrMap(G) == LET I == {i \in 1..Len(G.ins) : G.ins[i].kind \in {"ovr", "ovrx"}}
             IN [nm \in {G.ins[i].name : i \in I} |-> G.ins[CHOOSE i \in I : G.ins[i].name = nm].val]
AllInts(s) == \A i \in 1..Len(s) : s[i] >= 0

(* onnx.shape_inference.infer_node_outputs on the menu ops, with symbolic dims *)
BcastDim(a, b) ==
   IF a >= 0 /\ b >= 0 THEN (IF a = b THEN a ELSE IF a = 1 THEN b ELSE IF b = 1 THEN a ELSE -2000)
   ELSE IF a >= 0 THEN (IF a # 1 THEN a ELSE b)
   ELSE IF b >= 0 THEN (IF b # 1 THEN b ELSE a)
   ELSE IF a = b THEN a ELSE UNK
BcastSym(s1, s2) ==
   IF s1 = NOSHP \/ s2 = NOSHP THEN NOSHP
   ELSE LET r == Max2(Len(s1), Len(s2))
            P(s, i) == LET off == r - Len(s) IN IF i <= off THEN 1 ELSE s[i - off]
            d == [i \in 1..r |-> BcastDim(P(s1, i), P(s2, i))]
        IN IF \E i \in 1..r : d[i] = -2000 THEN FAILSH ELSE d
MergeSh(old, new) ==         \* _merge_shapes(preferred = old, other = new)
   IF old = NOSHP THEN new ELSE IF new = NOSHP THEN old
   ELSE IF Len(old) # Len(new) THEN FAILSH
   ELSE [i \in 1..Len(old) |-> LET a == old[i] b == new[i]
                               IN IF a = b THEN a ELSE IF a >= 0 THEN a ELSE IF b >= 0 THEN b ELSE IF a = UNK THEN b ELSE a]
InferReshape(s1, tv) ==
   LET n == Len(tv)
       rem == IF s1 = NOSHP THEN <<>> ELSE SelectSeq([i \in 1..Len(s1) |-> IF i <= n /\ tv[i] = 0 THEN 1 ELSE s1[i]], LAMBDA d : TRUE)
       remKnown == s1 # NOSHP /\ AllInts(rem)
       outProd == SeqProd([i \in 1..n |-> IF tv[i] > 0 THEN tv[i] ELSE 1])
   IN [i \in 1..n |-> IF tv[i] = 0 THEN (IF s1 # NOSHP /\ i <= Len(s1) THEN s1[i] ELSE UNK)
                      ELSE IF tv[i] = -1 THEN (IF remKnown /\ outProd > 0 THEN SeqProd(rem) \div outProd ELSE UNK)
                      ELSE tv[i]]
Unknowns(k) == [i \in 1..k |-> UNK]
InferOut(n, TY(_), CVf(_)) ==
   LET I(i) == TY(n.ins[i])
       known == \A i \in 1..Len(n.ins) : n.ins[i] = "" \/ I(i).dt # ""
       s1 == I(1).sh
       R(dt, sh) == <<[dt |-> dt, sh |-> sh]>>
       CI(i) == IF LET c == CVf(n.ins[i]) IN ~IsErr(c) /\ Len(c.data) <= 20 THEN CVf(n.ins[i]) ELSE ERR    \* get_constant_value(size_limit=20)
   IN IF ~known THEN <<>> ELSE
      CASE n.op \in {"Neg", "Abs", "Relu", "Identity", "Not", "Clip"} -> R(I(1).dt, s1)
        [] n.op = "Dropout" -> IF Len(n.outs) = 1 THEN R(I(1).dt, s1) ELSE <<[dt |-> I(1).dt, sh |-> s1], [dt |-> "bool", sh |-> s1]>>
        [] n.op = "Cast" -> R(n.at.to, s1)
        [] n.op = "CastLike" -> R(I(2).dt, s1)
        [] n.op \in {"Add", "Sub", "Mul", "Div", "Min", "Max"} -> LET b == BcastSym(s1, I(2).sh) IN IF b = FAILSH THEN <<>> ELSE R(I(1).dt, b)
        [] n.op = "Transpose" -> IF s1 = NOSHP THEN R(I(1).dt, NOSHP) ELSE IF Len(n.at.perm) # Len(s1) THEN <<>>
                                 ELSE R(I(1).dt, [i \in 1..Len(s1) |-> s1[n.at.perm[i] + 1]])
        [] n.op = "Shape" -> R("i64", IF s1 = NOSHP THEN <<UNK>> ELSE <<Len(s1)>>)
        [] n.op = "Size" -> R("i64", <<>>)
        [] n.op = "Gather" -> IF s1 = NOSHP \/ I(2).sh = NOSHP THEN R(I(1).dt, NOSHP) ELSE IF Len(s1) = 0 THEN <<>> ELSE R(I(1).dt, I(2).sh \o Tail(s1))
        [] n.op = "Concat" -> IF \E i \in 1..Len(n.ins) : I(i).sh = NOSHP THEN R(I(1).dt, NOSHP)
                              ELSE LET r == Len(s1)
                                       ax == IF n.at.axis < 0 THEN n.at.axis + r ELSE n.at.axis
                                       Dim(d) == IF d = ax + 1
                                                 THEN (IF \A i \in 1..Len(n.ins) : I(i).sh[d] >= 0 THEN SeqSum([i \in 1..Len(n.ins) |-> I(i).sh[d]]) ELSE UNK)
                                                 ELSE (IF \E i \in 1..Len(n.ins) : I(i).sh[d] >= 0
                                                       THEN I(CHOOSE i \in 1..Len(n.ins) : I(i).sh[d] >= 0 /\ \A i2 \in 1..(i - 1) : I(i2).sh[d] < 0).sh[d] ELSE s1[d])
                                   IN IF r = 0 \/ ax < 0 \/ ax >= r \/ \E i \in 1..Len(n.ins) : Len(I(i).sh) # r THEN <<>>
                                      ELSE R(I(1).dt, [d \in 1..r |-> Dim(d)])
        [] n.op = "Reshape" -> LET c == CI(2) IN
                               IF ~IsErr(c) THEN R(I(1).dt, InferReshape(s1, c.data))
                               ELSE IF I(2).sh # NOSHP /\ Len(I(2).sh) = 1 /\ I(2).sh[1] >= 0 THEN R(I(1).dt, Unknowns(I(2).sh[1])) ELSE R(I(1).dt, NOSHP)
        [] n.op = "Expand" -> LET c == CI(2) IN
                              IF s1 = NOSHP THEN R(I(1).dt, NOSHP)
                              ELSE IF ~IsErr(c) THEN (LET b == BcastSym(s1, c.data) IN IF b = FAILSH THEN <<>> ELSE R(I(1).dt, b))
                              ELSE IF I(2).sh # NOSHP /\ Len(I(2).sh) = 1 /\ I(2).sh[1] >= 0
                                   THEN (LET b == BcastSym(s1, Unknowns(I(2).sh[1])) IN IF b = FAILSH THEN <<>> ELSE R(I(1).dt, b))
                              ELSE R(I(1).dt, NOSHP)
        [] n.op = "ConstantOfShape" -> LET c == CI(1) IN
                              IF ~IsErr(c) THEN R(n.at.val.dt, c.data)
                              ELSE IF s1 # NOSHP /\ Len(s1) = 1 /\ s1[1] >= 0 THEN R(n.at.val.dt, Unknowns(s1[1])) ELSE R(n.at.val.dt, NOSHP)
        [] n.op = "Unsqueeze" -> LET c == CI(2) IN
                              IF IsErr(c) \/ s1 = NOSHP THEN R(I(1).dt, NOSHP)
                              ELSE LET ro == Len(s1) + Len(c.data)
                                       ax == {NormAxis(c.data[j], ro) : j \in 1..Len(c.data)}
                                       Pos(i) == Cardinality({a \in 0..(i - 1) : a \notin ax})
                                   IN R(I(1).dt, [i \in 1..ro |-> IF (i - 1) \in ax THEN 1 ELSE s1[Pos(i - 1) + 1]])
        [] n.op = "Squeeze" -> LET c == CI(2) IN
                              IF IsErr(c) \/ s1 = NOSHP THEN R(I(1).dt, NOSHP)
                              ELSE LET ax == {NormAxis(c.data[j], Len(s1)) : j \in 1..Len(c.data)}
                                   IN R(I(1).dt, SelectSeq([i \in 1..Len(s1) |-> IF (i - 1) \in ax THEN -7 ELSE s1[i]], LAMBDA d : d # -7))
        [] OTHER -> <<>>

\* get_shape_value: a small constant INT64 vector, else the symbolic shape value
ShapeVal(nm, CVf(_), sym) ==
   LET c == CVf(nm) IN
   IF ~IsErr(c) /\ c.dt = "i64" /\ Len(c.data) <= 10 THEN (IF Rank(c) = 1 THEN c.data ELSE NOSHP)
   ELSE IF nm \in DOMAIN sym /\ sym[nm].k = "shape" THEN sym[nm].dims ELSE NOSHP
\* _same_shape: unknown dims are never equal
SameShape(s1, s2) == (Mutant = "same_shape_unk" \/ \A i \in 1..Len(s1) : s1[i] # UNK) /\ s1 = s2
SymShape(dims) == [k |-> "shape", v |-> "", dims |-> dims]
SymVal(nm) == [k |-> "val", v |-> nm, dims |-> <<>>]

(* the partial evaluators of _constant_folding.py (registry) on node n; TY/CVf as seen by the folder *)
PE(n, S, TY(_), CVf(_), C) ==
   LET sym == S.sym
       o == n.outs[1]
       Ident(src) == <<N1("Identity", <<src>>, o)>>
       Hit(nodes, tag, sy, us) == [hit |-> TRUE, nodes |-> nodes, sym |-> sy, tag |-> tag, inl |-> 0, used |-> us]
       Miss(sy) == [hit |-> FALSE, nodes |-> <<>>, sym |-> sy, tag |-> "", inl |-> 0, used |-> {}]
       Set(v) == (o :> v) @@ sym
       OvrU(names) == IF \E i \in 1..Len(names) : names[i] \in C.ovr THEN {"overridable_read_as_const"} ELSE {}
       Prop == LET sv == ShapeVal(n.ins[1], CVf, sym) IN IF sv = NOSHP THEN sym ELSE Set(SymShape(sv))
   IN CASE n.op = "Identity" -> Miss(Set(SymVal(n.ins[1])))
        [] n.op = "Cast" -> IF TY(n.ins[1]).dt = n.at.to THEN Hit(Ident(n.ins[1]), "PE_Cast", sym, {}) ELSE Miss(sym)
        [] n.op = "CastLike" ->
             LET td == TY(n.ins[2]).dt sd == TY(n.ins[1]).dt IN
             IF td = "" THEN Miss(sym)
             ELSE IF sd = td THEN Hit(Ident(n.ins[1]), "PE_CastLike_Identity", sym, {})
             ELSE Hit(<<Nd("Cast", <<n.ins[1]>>, <<o>>, [NoAt EXCEPT !.to = td], <<>>)>>, "PE_CastLike_Cast", sym, {})
        [] n.op = "Shape" ->
             LET s == TY(n.ins[1]).sh IN
             IF s = NOSHP THEN Miss(sym)
             ELSE IF AllInts(s) THEN Hit(<<ConstNode(o, IVec(s))>>, "PE_Shape", Set(SymShape(s)), {})
             ELSE Miss(Set(SymShape(s)))
        [] n.op = "Size" ->
             LET s == TY(n.ins[1]).sh IN
             IF s # NOSHP /\ AllInts(s) THEN Hit(<<ConstNode(o, Scalar("i64", SeqProd(s)))>>, "PE_Size", sym, {}) ELSE Miss(sym)
        [] n.op = "Gather" ->
             LET sv == ShapeVal(n.ins[1], CVf, sym) idx == CVf(n.ins[2]) IN
             IF sv = NOSHP \/ n.at.axis # 0 \/ IsErr(idx) \/ Rank(idx) # 1 THEN Miss(sym)
             ELSE IF \E j \in 1..Len(idx.data) : idx.data[j] >= Len(sv) \/ idx.data[j] < -Len(sv) THEN Miss(sym)
             ELSE LET gd == [j \in 1..Len(idx.data) |-> sv[(IF idx.data[j] < 0 THEN idx.data[j] + Len(sv) ELSE idx.data[j]) + 1]]
                  IN IF AllInts(gd) THEN Hit(<<ConstNode(o, IVec(gd))>>, "PE_Gather", Set(SymShape(gd)), OvrU(n.ins))
                     ELSE Miss(Set(SymShape(gd)))
        [] n.op = "Reshape" ->
             LET is == TY(n.ins[1]).sh sv == ShapeVal(n.ins[2], CVf, sym) IN
             IF is = NOSHP \/ sv = NOSHP THEN Miss(Prop)
             ELSE IF SameShape(is, sv) THEN Hit(Ident(n.ins[1]), "PE_Reshape", sym, OvrU(<<n.ins[2]>>))
             ELSE Miss(Prop)
        [] n.op = "Squeeze" -> Miss(Prop)
        [] n.op = "Expand" ->
             LET is == TY(n.ins[1]).sh tc == CVf(n.ins[2]) IN
             IF is = NOSHP THEN Miss(sym)
             ELSE IF IsErr(tc) THEN (LET sv == ShapeVal(n.ins[2], CVf, sym)
                                     IN IF sv # NOSHP /\ SameShape(is, sv) THEN Hit(Ident(n.ins[1]), "PE_Expand_sym", sym, {}) ELSE Miss(sym))
             ELSE IF Rank(tc) # 1 THEN Miss(sym)
             ELSE IF is = tc.data THEN Hit(Ident(n.ins[1]), "PE_Expand", sym, OvrU(<<n.ins[2]>>))
             ELSE Miss(sym)
        [] n.op = "Concat" ->
             IF Len(n.ins) = 1 THEN Hit(Ident(n.ins[1]), "PE_Concat_single", sym, {})
             ELSE LET ax == n.at.axis
                      \* has_zero_size: shape[axis] == 0 with Python indexing (negative axis counts from the end; IndexError -> False)
                      zero == {i \in 1..Len(n.ins) : LET s == TY(n.ins[i]).sh
                                                          ix == IF ax < 0 THEN ax + Len(s) ELSE ax
                                                      IN s # NOSHP /\ ix >= 0 /\ ix < Len(s) /\ s[ix + 1] = 0}
                      keep == SelectSeq([i \in 1..Len(n.ins) |-> IF i \in zero THEN "" ELSE n.ins[i]], LAMBDA x : x # "")
                      svs == [i \in 1..Len(n.ins) |-> ShapeVal(n.ins[i], CVf, sym)]
                  IN IF ax = NOAX THEN Miss(sym)
                     ELSE IF zero # {} /\ keep # <<>> THEN Hit(<<Nd("Concat", keep, <<o>>, n.at, <<>>)>>, "PE_Concat_dropzero", sym, {})
                     ELSE IF zero # {} THEN Hit(Ident(n.ins[1]), "PE_Concat_allzero", sym, {})
                     ELSE IF ax = 0 /\ \A i \in 1..Len(n.ins) : svs[i] # NOSHP
                          THEN Miss(Set(SymShape(LET RECURSIVE Cat(_) Cat(i) == IF i > Len(svs) THEN <<>> ELSE svs[i] \o Cat(i + 1) IN Cat(1))))
                     ELSE Miss(sym)
        [] n.op = "Dropout" ->
             IF Len(n.ins) > 1 THEN Miss(sym)
             ELSE IF Len(n.outs) = 1 THEN Hit(Ident(n.ins[1]), "PE_Dropout", sym, {})
             ELSE LET f == "z" \o Str(S.fresh) IN
                  Hit(<<N1("Identity", <<n.ins[1]>>, o), N1("Shape", <<n.ins[1]>>, f),
                        Nd("ConstantOfShape", <<f>>, <<n.outs[2]>>, [NoAt EXCEPT !.val = Vec("bool", <<1>>)], <<>>)>>, "PE_Dropout_mask", sym, {})
        [] n.op = "If" ->
             LET c == CVf(n.ins[1]) IN
             IF ~IsErr(c) /\ c.dt = "bool" /\ Len(c.data) = 1
             THEN [hit |-> TRUE, nodes |-> <<>>, sym |-> sym, tag |-> "PE_If_inline", inl |-> IF c.data[1] # 0 THEN 1 ELSE 2, used |-> OvrU(<<n.ins[1]>>)]
             ELSE Miss(sym)
        [] OTHER -> Miss(sym)

\* _clear_unused_initializers(node inputs) after a replacement.  An initializer that is also a graph input must keep its
\* default (design); the code pops it like any other initializer (deviation overridable_default_dropped)
ClearUnused(G, names, C, gh) ==
   LET dead(nm) == nm # "" /\ Uses(G.nodes \o gh, nm) = 0 /\ nm \notin SeqToSet(G.outs)
       keepInit2(i) == LET nm == G.inits[i].name IN
                       ~(nm \in SeqToSet(names) /\ Uses(G.nodes \o gh, nm) = 0 /\ (Mutant = "clear_output_init" \/ nm \notin SeqToSet(G.outs)))
       dropOvr == {i \in 1..Len(G.ins) : G.ins[i].kind = "ovr" /\ G.ins[i].name \in SeqToSet(names) /\ dead(G.ins[i].name)
                                         /\ "overridable_default_dropped" \in C.devs}
   IN [G |-> [G EXCEPT !.inits = SelectSeq([i \in 1..Len(G.inits) |-> IF keepInit2(i) THEN G.inits[i] ELSE IniR("", ERR)], LAMBDA r : r.name # ""),
                       !.ins = [i \in 1..Len(G.ins) |-> IF i \in dropOvr THEN [G.ins[i] EXCEPT !.kind = "ovrx"] ELSE G.ins[i]]],
       used |-> IF dropOvr # {} THEN {"overridable_default_dropped"} ELSE {}]

DropKeys(f, names) == [kk \in (DOMAIN f) \ names |-> f[kk]]
Splice(nodes, k, new) == SubSeq(nodes, 1, k - 1) \o new \o SubSeq(nodes, k + 1, Len(nodes))
Log(S, tag) == [S EXCEPT !.log = Append(@, tag), !.mod = TRUE]        \* every logged decision modifies the model

\* visit_graph's tail: a graph output that is known to equal another value of this graph is replaced by it
RECURSIVE OutRep(_, _, _)
OutRep(G, S, i) ==
   IF i > Len(G.outs) THEN [G |-> G, S |-> S]
   ELSE LET o == G.outs[i]
            c == IF o \in DOMAIN S.sym /\ S.sym[o].k = "val" THEN S.sym[o].v ELSE ""
            ok == c # "" /\ ProdIdx(G.nodes, c) # 0 /\ c \notin SeqToSet(G.outs)
        IN IF ~ok THEN OutRep(G, S, i + 1)
           ELSE LET f == "z" \o Str(S.fresh)
                    nodes2 == RenNodes(RenNodes(G.nodes, o, f, TRUE), c, o, TRUE)
                    ty2 == (o :> TyGet(S.ty, c)) @@ (f :> TyGet(S.ty, o)) @@ S.ty
                IN OutRep([G EXCEPT !.nodes = nodes2], Log([S EXCEPT !.fresh = @ + 1, !.ty = ty2, !.ghost = RenNodes(RenNodes(@, o, f, TRUE), c, o, TRUE)], "OutputReplaced:" \o o), i + 1)

\* FoldConstantsPass.visit_node on node k of graph G.  Returns the new graph, state and the position to continue at.
RECURSIVE FoldFrom(_, _, _, _), VisitNode(_, _, _, _)
FoldFrom(G, k, S, C) == IF k > Len(G.nodes) THEN [G |-> G, S |-> S, next |-> k]
                        ELSE LET r == VisitNode(G, k, S, C) IN FoldFrom(r.G, r.next, r.S, C)
FoldGraph(G, S, C) == LET r == FoldFrom(G, 1, S, C) IN OutRep(r.G, r.S, 1)
VisitNode(G, k, S, C) ==
   LET n0 == G.nodes[k]
       SymV(nm) == IF nm \in DOMAIN S.sym /\ S.sym[nm].k = "val" THEN S.sym[nm].v ELSE nm
       n == [n0 EXCEPT !.ins = [i \in 1..Len(n0.ins) |-> SymV(n0.ins[i])]]             \* SymReplaceInput
       G1 == [G EXCEPT !.nodes[k] = n]
       cm == ConstMap(G1) @@ C.cenv
       CVf(nm) == Get(cm, nm)
       TY0(nm) == TyGet(S.ty, nm)
       inf == IF n.op = "Constant" THEN <<[dt |-> n.at.val.dt, sh |-> n.at.val.shape]>>
              ELSE IF n.op = "If" THEN <<>> ELSE InferOut(n, TY0, CVf)
       newTy(i) == IF n.op = "Constant" THEN inf[i]
                   ELSE LET msh == MergeSh(TY0(n.outs[i]).sh, inf[i].sh) IN IF msh = FAILSH THEN TY0(n.outs[i]) ELSE [dt |-> inf[i].dt, sh |-> msh]
       ty1 == IF inf = <<>> THEN S.ty ELSE [nm \in SeqToSet(n.outs) |-> newTy(CHOOSE i \in 1..Len(n.outs) : n.outs[i] = nm)] @@ S.ty
       \* the Cast evaluator sets the output type even when inference could not run
       ty1c == IF n.op = "Cast" /\ TyGet(ty1, n.outs[1]).dt # n.at.to THEN (n.outs[1] :> [dt |-> n.at.to, sh |-> TyGet(ty1, n.outs[1]).sh]) @@ ty1 ELSE ty1
       \* node-level inference is given const_value of small constant inputs as data - also of overridable defaults
       infUsed == IF inf # <<>> /\ n.op \in {"Reshape", "Expand", "Unsqueeze", "Squeeze"} /\ n.ins[2] \in C.ovr /\ ~IsErr(CVf(n.ins[2]))
                  THEN {"overridable_read_as_const"} ELSE {}
       \* the Identity evaluator infers backwards: input.shape = _merge_shapes(input.shape, output.shape); input.type = output.type if unknown
       ty1d == IF n.op = "Identity"
               THEN LET ti == TyGet(ty1c, n.ins[1]) tout == TyGet(ty1c, n.outs[1])
                        msh == MergeSh(ti.sh, tout.sh)
                    IN (n.ins[1] :> [dt |-> IF ti.dt = "" THEN tout.dt ELSE ti.dt, sh |-> IF msh = FAILSH THEN ti.sh ELSE msh]) @@ ty1c
               ELSE ty1c
       S1 == [S EXCEPT !.ty = ty1d, !.used = @ \cup infUsed, !.mod = @ \/ n # n0]
       TY1(nm) == TyGet(ty1d, nm)
       pe == PE(n, S1, TY1, CVf, C)
       foldable == /\ n.op \notin {"Constant", "If", "ConstantOfShape"} /\ Len(n.outs) = 1 /\ Len(n.ins) > 0
                   /\ \A i \in 1..Len(n.ins) : n.ins[i] = "" \/ ((Mutant = "fold_graph_input" \/ n.ins[i] \notin C.gins) /\ ~IsErr(Get(cm @@ C.ovrc, n.ins[i])))
       fval == OpEval(n, cm @@ C.ovrc)[1]
   IN IF pe.hit /\ pe.inl = 0 THEN
         LET cl == ClearUnused([G1 EXCEPT !.nodes = Splice(G1.nodes, k, pe.nodes)], n.ins, C, S.ghost)
         IN [G |-> cl.G, next |-> k,
             S |-> Log([S1 EXCEPT !.sym = DropKeys(pe.sym, SeqToSet(n.outs)), !.used = @ \cup pe.used \cup cl.used,
                                  !.fresh = @ + (IF pe.tag = "PE_Dropout_mask" THEN 1 ELSE 0)], pe.tag \o ":" \o n.outs[1])]
      ELSE IF pe.hit THEN        \* If with a constant condition: the chosen branch is spliced in, its initializers move up
         LET br == n.sub[pe.inl]
             RECURSIVE RenAll(_, _)
             RenAll(nodes, i) == IF i > Len(br.outs) THEN nodes ELSE RenAll(RenNodes(nodes, br.outs[i], n.outs[i], TRUE), i + 1)
             moved == RenAll(br.nodes, 1)
             gh2 == S.ghost \o n.sub[3 - pe.inl].nodes
             cl == ClearUnused([G1 EXCEPT !.nodes = Splice(G1.nodes, k, moved), !.inits = @ \o br.inits], n.ins, C, gh2)
             \* replace_nodes_and_values: the branch output takes the If output's type / shape where those are known, else keeps its own
             tyI == [nm \in SeqToSet(n.outs) |->
                       LET i == CHOOSE i \in 1..Len(n.outs) : n.outs[i] = nm
                           old == TyGet(S1.ty, nm) new == TyGet(S1.ty, br.outs[i])
                       IN [dt |-> IF old.dt # "" THEN old.dt ELSE new.dt, sh |-> IF old.sh # NOSHP THEN old.sh ELSE new.sh]] @@ S1.ty
         IN [G |-> cl.G, next |-> k,
             S |-> Log([S1 EXCEPT !.sym = DropKeys(pe.sym, SeqToSet(n.outs)), !.used = @ \cup pe.used \cup cl.used, !.ghost = gh2, !.ty = tyI], pe.tag \o ":" \o n.outs[1])]
      ELSE IF foldable /\ ~IsErr(fval) THEN       \* FoldByReference
         LET cl == ClearUnused([G1 EXCEPT !.nodes = Splice(G1.nodes, k, <<>>), !.inits = Append(@, IniR(n.outs[1], fval))], n.ins, C, S.ghost)
         IN [G |-> cl.G, next |-> k,
             S |-> Log([S1 EXCEPT !.sym = DropKeys(pe.sym, SeqToSet(n.outs)), !.used = @ \cup cl.used,
                                  !.ty = (n.outs[1] :> [dt |-> fval.dt, sh |-> fval.shape]) @@ ty1d], "FoldByReference:" \o n.outs[1])]
      ELSE IF n.op = "If" THEN
         LET C2 == [C EXCEPT !.cenv = cm]
             r1 == FoldGraph(n.sub[1], S1, C2)
             r2 == FoldGraph(n.sub[2], r1.S, C2)
         IN [G |-> [G1 EXCEPT !.nodes[k] = [n EXCEPT !.sub = <<r1.G, r2.G>>]], next |-> k + 1, S |-> r2.S]
      ELSE [G |-> G1, next |-> k + 1, S |-> [S1 EXCEPT !.sym = pe.sym]]

-----------------------------------------------------------------------------
(* the default rewrite rules that can fire on the menu ops, in the order of _DEFAULT_REWRITE_RULES *)
NoRule == [hit |-> FALSE, name |-> "", nodes |-> <<>>, inits |-> <<>>, inner |-> 0, raise |-> FALSE, used |-> {}, fresh |-> 0]
RHit(name, nodes, inits, inner, used, fresh) == [hit |-> TRUE, name |-> name, nodes |-> nodes, inits |-> inits, inner |-> inner, raise |-> FALSE, used |-> used, fresh |-> fresh]
RRaise(name, used) == [NoRule EXCEPT !.hit = TRUE, !.name = name, !.raise = TRUE, !.used = used]
FirstHit(rs) == IF \E i \in 1..Len(rs) : rs[i].hit THEN rs[CHOOSE i \in 1..Len(rs) : rs[i].hit /\ \A j \in 1..(i - 1) : ~rs[j].hit] ELSE NoRule
ScalarIs(cm, nm, v) == nm # "" /\ LET c == Get(cm, nm) IN ~IsErr(c) /\ c.shape = <<>> /\ c.data[1] = v
InnerIdx(G, k, ops) == LET j == ProdIdx(G.nodes, G.nodes[k].ins[1]) IN IF j # 0 /\ G.nodes[j].op \in ops THEN j ELSE 0
Removable(G, j, k, gh) == LET v == G.nodes[j].outs[1] IN v \notin SeqToSet(G.outs) /\ Uses(G.nodes \o gh, v) = Cnt(G.nodes[k].ins, v)
BoundV(cm, nm) == IF nm = "" THEN NONEB ELSE Get(cm, nm).data[1]
Combine(a, b, F(_, _)) == IF a # NONEB /\ b # NONEB THEN F(a, b) ELSE IF a # NONEB THEN a ELSE b
ClipNode(x, o, base, dt, lo, hi) ==      \* Clip(x, <base>_min, <base>_max) with new initializers
   [nodes |-> <<N1("Clip", IF hi = NONEB THEN <<x, base \o "_min">> ELSE IF lo = NONEB THEN <<x, "", base \o "_max">> ELSE <<x, base \o "_min", base \o "_max">>, o)>>,
    inits |-> (IF lo = NONEB THEN <<>> ELSE <<IniR(base \o "_min", Scalar(dt, lo))>>) \o (IF hi = NONEB THEN <<>> ELSE <<IniR(base \o "_max", Scalar(dt, hi))>>)]
Rules(G, k, S, cm, C) ==
   LET n == G.nodes[k]
       o == n.outs[1]
       TY(nm) == TyGet(S.ty, nm)
       Ident(src) == <<N1("Identity", <<src>>, o)>>
       f == "z" \o Str(S.fresh)
       OvrU(names) == IF \E i \in 1..Len(names) : names[i] \in C.ovr THEN {"overridable_read_as_const"} ELSE {}
       \* --- _no_op: x*1, 1*x, x+0, 0+x, x-0
       noop == IF n.op = "Mul" /\ Len(n.ins) = 2 /\ ScalarIs(cm, n.ins[2], 1) THEN RHit("mul_by_1", Ident(n.ins[1]), <<>>, 0, OvrU(<<n.ins[2]>>), 0)
               ELSE IF n.op = "Mul" /\ Len(n.ins) = 2 /\ ScalarIs(cm, n.ins[1], 1) THEN RHit("mul_by_1_c", Ident(n.ins[2]), <<>>, 0, OvrU(<<n.ins[1]>>), 0)
               ELSE IF n.op = "Add" /\ Len(n.ins) = 2 /\ ScalarIs(cm, n.ins[2], 0) THEN RHit("add_0", Ident(n.ins[1]), <<>>, 0, OvrU(<<n.ins[2]>>), 0)
               ELSE IF n.op = "Add" /\ Len(n.ins) = 2 /\ ScalarIs(cm, n.ins[1], 0) THEN RHit("add_0_c", Ident(n.ins[2]), <<>>, 0, OvrU(<<n.ins[1]>>), 0)
               ELSE IF n.op = "Sub" /\ Len(n.ins) = 2 /\ ScalarIs(cm, n.ins[2], 0) THEN RHit("sub_0", Ident(n.ins[1]), <<>>, 0, OvrU(<<n.ins[2]>>), 0)
               ELSE IF n.op = "Div" /\ Len(n.ins) = 2 /\ ScalarIs(cm, n.ins[2], 1) THEN RHit("div_by_1", Ident(n.ins[1]), <<>>, 0, OvrU(<<n.ins[2]>>), 0)
               ELSE NoRule
       \* --- MaterializeReshapeShape
       mat == IF n.op = "Reshape" /\ IsErr(Get(cm, n.ins[2])) /\ TY(o).sh # NOSHP /\ Cardinality({i \in 1..Len(TY(o).sh) : TY(o).sh[i] < 0}) <= 1
              THEN RHit("MaterializeReshapeShape",
                        <<ConstNode(f, IVec([i \in 1..Len(TY(o).sh) |-> IF TY(o).sh[i] < 0 THEN -1 ELSE TY(o).sh[i]])),
                          Nd("Reshape", <<n.ins[1], f>>, <<o>>, [NoAt EXCEPT !.az = 1], <<>>)>>, <<>>, 0, {}, 1)
              ELSE NoRule
       \* --- _min_max_to_clip
       mm == LET j == IF n.op \in {"Min", "Max"} THEN InnerIdx(G, k, {"Min", "Max"}) ELSE 0 IN
             IF j = 0 THEN NoRule
             ELSE LET inn == G.nodes[j]
                      cs1 == Tail(inn.ins) cs2 == Tail(n.ins)
                      all == cs1 \o cs2
                      x == inn.ins[1]
                      consts == \A i \in 1..Len(all) : ~IsErr(Get(cm, all[i]))
                      scal == \A i \in 1..Len(all) : Len(Get(cm, all[i]).data) = 1
                      dt == Get(cm, all[1]).dt
                      RECURSIVE Red(_, _, _)
                      Red(F(_, _), cs, i) == IF i = Len(cs) THEN Get(cm, cs[i]) ELSE Map2(Get(cm, cs[i]), Red(F, cs, i + 1), dt, F)
                      RedS(F(_, _), cs) == Red(F, cs, 1).data[1]
                  IN IF ~Removable(G, j, k, S.ghost) \/ ~consts \/ Len(all) < 2 THEN NoRule
                     ELSE IF inn.op = "Min" /\ n.op = "Min"
                          THEN RHit("FuseSuccessiveMin", <<N1("Min", <<x, x \o "_min">>, o)>>, <<IniR(x \o "_min", Red(Min2, all, 1))>>, j, OvrU(all), 0)
                     ELSE IF inn.op = "Max" /\ n.op = "Max"
                          THEN RHit("FuseSuccessiveMax", <<N1("Max", <<x, x \o "_max">>, o)>>, <<IniR(x \o "_max", Red(Max2, all, 1))>>, j, OvrU(all), 0)
                     ELSE IF ~scal THEN NoRule
                     ELSE IF inn.op = "Min" /\ n.op = "Max"          \* Max(Min(x, ub), lb): needs lb <= ub
                          THEN (LET ub == RedS(Min2, cs1) lb == RedS(Max2, cs2) cn == ClipNode(x, o, x, dt, lb, ub)
                                IN IF lb > ub THEN NoRule ELSE RHit("FuseMinMaxToClip", cn.nodes, cn.inits, j, OvrU(all), 0))
                     ELSE (LET lb == RedS(Max2, cs1) ub == RedS(Min2, cs2) cn == ClipNode(x, o, x, dt, lb, ub)
                           IN RHit("FuseMaxMinToClip", cn.nodes, cn.inits, j, OvrU(all), 0))
       \* --- _fuse_relus_clips
       rc == LET j == IF n.op \in {"Relu", "Clip"} THEN InnerIdx(G, k, {"Relu", "Clip"}) ELSE 0 IN
             IF j = 0 \/ ~Removable(G, j, k, S.ghost) THEN NoRule
             ELSE LET inn == G.nodes[j]
                      x == inn.ins[1]
                      BoundsOf(nd) == SelectSeq(Tail(nd.ins), LAMBDA b : b # "")
                      bnds == (IF inn.op = "Clip" THEN BoundsOf(inn) ELSE <<>>) \o (IF n.op = "Clip" THEN BoundsOf(n) ELSE <<>>)
                      okB == \A i \in 1..Len(bnds) : bnds[i] \notin C.gins /\ ~IsErr(Get(cm, bnds[i]))
                      Lo(nd) == IF Len(nd.ins) >= 2 THEN BoundV(cm, nd.ins[2]) ELSE NONEB
                      Hi(nd) == IF Len(nd.ins) >= 3 THEN BoundV(cm, nd.ins[3]) ELSE NONEB
                  IN IF inn.op = "Relu" /\ n.op = "Relu" THEN RHit("FuseSuccessiveRelu", <<N1("Relu", <<x>>, o)>>, <<>>, j, {}, 0)
                     ELSE IF ~okB THEN NoRule
                     ELSE LET \* element type for the new bounds: of the clipped value, else of the first present bound; when both are
                              \* unknown the rule declines.  (Before the fix: AttributeError, deviation relu_clip_no_dtype_raise)
                              DtOf(v) == IF TY(v).dt # "" THEN TY(v).dt ELSE IF bnds # <<>> THEN Get(cm, bnds[1]).dt ELSE ""
                              noDt(v) == TY(v).dt = "" /\ "relu_clip_no_dtype_raise" \in C.devs
                          IN
                     IF inn.op = "Relu" /\ n.op = "Clip" THEN        \* Clip(Relu(x), lo, hi) = Clip(x, max(0, lo), hi)
                        (IF noDt(n.ins[1]) THEN RRaise("FuseSuccessiveClipRelu", {"relu_clip_no_dtype_raise"})
                         ELSE IF DtOf(n.ins[1]) = "" THEN NoRule
                         ELSE LET lo == Max2(0, IF Lo(n) = NONEB THEN 0 ELSE Lo(n)) cn == ClipNode(x, o, n.ins[1], DtOf(n.ins[1]), lo, Hi(n))
                              IN RHit("FuseSuccessiveClipRelu", cn.nodes, cn.inits, j, {}, 0))
                     ELSE IF inn.op = "Clip" /\ n.op = "Relu" THEN        \* Relu(Clip(x, lo, hi)) = Clip(x, max(0, lo), max(0, hi))
                        (IF noDt(x) THEN RRaise("FuseSuccessiveReluClip", {"relu_clip_no_dtype_raise"})
                         ELSE IF DtOf(x) = "" THEN NoRule
                         ELSE LET lo == Max2(0, IF Lo(inn) = NONEB THEN 0 ELSE Lo(inn))
                                  neg == Hi(inn) # NONEB /\ Hi(inn) < 0
                                  old == neg /\ "relu_clip_negmax" \in C.devs          \* before the fix: the negative upper bound was kept
                                  hi == IF Hi(inn) = NONEB THEN NONEB ELSE IF old THEN Hi(inn) ELSE Max2(0, Hi(inn))
                                  cn == ClipNode(x, o, x, DtOf(x), lo, hi)
                              IN RHit("FuseSuccessiveReluClip", cn.nodes, cn.inits, j, IF old THEN {"relu_clip_negmax"} ELSE {}, 0))
                     ELSE        \* Clip(Clip(x, lo1, hi1), lo2, hi2) = Clip(x, max(lo1, lo2), min(max(hi1, lo2), hi2))
                        (IF noDt(x) \/ noDt(n.ins[1]) THEN RRaise("FuseSuccessiveClip", {"relu_clip_no_dtype_raise"})
                         ELSE IF DtOf(x) = "" THEN NoRule
                         ELSE LET disj == Lo(n) # NONEB /\ Hi(inn) # NONEB /\ Lo(n) > Hi(inn)
                                  old == disj /\ "clip_clip_disjoint" \in C.devs           \* before the fix: hi1 was not lifted to lo2
                                  hi1 == IF disj /\ ~old THEN Lo(n) ELSE Hi(inn)
                                  lo == Combine(Lo(inn), Lo(n), Max2) hi == Combine(hi1, Hi(n), Min2)
                                  cn == ClipNode(x, o, x, DtOf(x), lo, hi)
                              IN RHit("FuseSuccessiveClip", cn.nodes, cn.inits, j, IF old /\ (Hi(n) = NONEB \/ Hi(n) > Hi(inn)) THEN {"clip_clip_disjoint"} ELSE {}, 0))
       \* --- _basic_rules
       castid == IF n.op = "Cast" /\ TY(n.ins[1]).dt = n.at.to THEN RHit("CastIdentity", Ident(n.ins[1]), <<>>, 0, {}, 0) ELSE NoRule
       expid == IF n.op = "Expand" /\ ~IsErr(Get(cm, n.ins[2])) /\ TY(n.ins[1]).sh # NOSHP /\ TY(n.ins[1]).sh = Get(cm, n.ins[2]).data
                THEN RHit("ExpandIdentity", Ident(n.ins[1]), <<>>, 0, OvrU(<<n.ins[2]>>), 0) ELSE NoRule
       rr == LET j == IF n.op = "Reshape" THEN InnerIdx(G, k, {"Reshape"}) ELSE 0 IN
             IF j = 0 \/ ~Removable(G, j, k, S.ghost) \/ IsErr(Get(cm, n.ins[2])) THEN NoRule
             ELSE LET tv == Get(cm, n.ins[2]).data
                      osh == TY(o).sh
                      ns == [i \in 1..Len(tv) |-> IF osh # NOSHP /\ i <= Len(osh) /\ osh[i] > 0 THEN osh[i] ELSE tv[i]]
                      zeros == Cardinality({i \in 1..Len(ns) : ns[i] = 0})
                      negs == \E i \in 1..Len(ns) : ns[i] < 0
                      nm == o \o "/shape"
                      x == G.nodes[j].ins[1]
                  IN IF n.at.az = 1 /\ zeros > 0
                     THEN RHit("ReshapeReshape", <<Nd("Reshape", <<x, nm>>, <<o>>, n.at, <<>>)>>, <<IniR(nm, IVec(ns))>>, j, OvrU(<<n.ins[2]>>), 0)
                     ELSE IF (zeros > 0 /\ negs) \/ zeros > 1 THEN NoRule
                     ELSE RHit("ReshapeReshape", <<N1("Reshape", <<x, nm>>, o)>>, <<IniR(nm, IVec([i \in 1..Len(ns) |-> IF ns[i] = 0 THEN -1 ELSE ns[i]]))>>, j, OvrU(<<n.ins[2]>>), 0)
       trid == IF n.op = "Transpose" /\ n.at.perm = [i \in 1..Len(n.at.perm) |-> i - 1] THEN RHit("TransposeIdentity", Ident(n.ins[1]), <<>>, 0, {}, 0) ELSE NoRule
       trtr == LET j == IF n.op = "Transpose" THEN InnerIdx(G, k, {"Transpose"}) ELSE 0 IN
               IF j = 0 \/ ~Removable(G, j, k, S.ghost) THEN NoRule
               ELSE LET p1 == G.nodes[j].at.perm p2 == n.at.perm
                        last == IF Mutant = "transpose_order" THEN [i \in 1..Len(p1) |-> p2[p1[i] + 1]] ELSE [i \in 1..Len(p2) |-> p1[p2[i] + 1]]
                        x == G.nodes[j].ins[1]
                    IN IF last = [i \in 1..Len(last) |-> i - 1] THEN RHit("TransposeTranspose", Ident(x), <<>>, j, {}, 0)
                       ELSE RHit("TransposeTranspose", <<Nd("Transpose", <<x>>, <<o>>, [NoAt EXCEPT !.perm = last], <<>>)>>, <<>>, j, {}, 0)
       unun == LET j == IF n.op = "Unsqueeze" THEN InnerIdx(G, k, {"Unsqueeze"}) ELSE 0 IN
               IF j = 0 \/ ~Removable(G, j, k, S.ghost) THEN NoRule
               ELSE LET a1 == Get(cm, G.nodes[j].ins[2]) a2 == Get(cm, n.ins[2]) IN
                    IF IsErr(a1) \/ IsErr(a2) \/ Len(a1.data) # 1 \/ Len(a2.data) # 1 \/ a1.data[1] < 0 \/ a2.data[1] < 0 THEN NoRule
                    ELSE LET v1 == a1.data[1] v2 == a2.data[1]
                             axes == IF v1 < v2 THEN <<v1, v2>> ELSE <<v2, v1 + 1>>
                         IN RHit("UnsqueezeUnsqueeze", <<ConstNode(f, IVec(axes)), N1("Unsqueeze", <<G.nodes[j].ins[1], f>>, o)>>, <<>>, j, {}, 1)
   IN FirstHit(<<noop, mat, mm, rc, castid, expid, rr, trid, trtr, unun>>)

\* RewriteRuleSet._apply_to_graph_or_function on node k of G
RECURSIVE RewriteFrom(_, _, _, _), RewriteNode(_, _, _, _)
RewriteFrom(G, k, S, C) == IF k > Len(G.nodes) \/ S.raised # "" THEN [G |-> G, S |-> S, next |-> k]
                           ELSE LET r == RewriteNode(G, k, S, C) IN RewriteFrom(r.G, r.next, r.S, C)
RewriteNode(G, k, S, C) ==
   LET n == G.nodes[k]
       cm == ConstMap(G) @@ C.cenv
       r == Rules(G, k, S, cm, C)
   IN IF r.hit /\ r.raise THEN [G |-> G, next |-> k + 1, S |-> Log([S EXCEPT !.raised = r.name, !.used = @ \cup r.used], "Raise:" \o r.name)]
      ELSE IF r.hit THEN
         LET ns1 == Splice(G.nodes, k, r.nodes)
             ns2 == IF r.inner = 0 THEN ns1 ELSE Splice(ns1, r.inner, <<>>)
             newNames == {r.inits[i].name : i \in 1..Len(r.inits)}
             inits2 == SelectSeq(G.inits, LAMBDA x : x.name \notin newNames) \o r.inits
             tyN == [nm \in newNames |-> LET v == r.inits[CHOOSE i \in 1..Len(r.inits) : r.inits[i].name = nm].val IN [dt |-> v.dt, sh |-> v.shape]]
         IN [G |-> [G EXCEPT !.nodes = ns2, !.inits = inits2], next |-> IF r.inner = 0 THEN k ELSE k - 1,
             S |-> Log([S EXCEPT !.used = @ \cup r.used, !.fresh = @ + r.fresh, !.ty = tyN @@ @], "Rule:" \o r.name \o ":" \o n.outs[1])]
      ELSE IF n.op = "If" THEN
         LET C2 == [C EXCEPT !.cenv = cm]
             r1 == RewriteFrom(n.sub[1], 1, S, C2)
             r2 == RewriteFrom(n.sub[2], 1, r1.S, C2)
         IN [G |-> [G EXCEPT !.nodes[k] = [n EXCEPT !.sub = <<r1.G, r2.G>>]], next |-> k + 1, S |-> r2.S]
      ELSE [G |-> G, next |-> k + 1, S |-> S]

-----------------------------------------------------------------------------
(* the remaining passes, each on the whole model *)
RemoveAtSeq(sq, i) == SubSeq(sq, 1, i - 1) \o SubSeq(sq, i + 1, Len(sq))
RECURSIVE DceFrom(_, _, _, _), DceSubs(_, _, _)
\* returns [nodes, gh]: a removed node's nested graphs keep referring to the values they captured (value.uses() stays non-empty)
DceSubs(subs, j, gh) == IF j > Len(subs) THEN [subs |-> subs, gh |-> gh]
                        ELSE LET r == DceFrom(subs[j].nodes, Len(subs[j].nodes), subs[j].outs, gh)
                             IN DceSubs([subs EXCEPT ![j] = [subs[j] EXCEPT !.nodes = r.nodes]], j + 1, r.gh)
DceFrom(nodes, k, outs, gh) ==
   IF k = 0 THEN [nodes |-> nodes, gh |-> gh]
   ELSE LET n == nodes[k]
            dead == \A i \in 1..Len(n.outs) : n.outs[i] \notin SeqToSet(outs) /\ Uses(nodes \o gh, n.outs[i]) = 0
        IN IF dead THEN DceFrom(RemoveAtSeq(nodes, k), k - 1, outs, IF n.sub = <<>> THEN gh ELSE gh \o n.sub[1].nodes \o n.sub[2].nodes)
           ELSE LET trimmed == IF n.op = "Dropout" /\ Len(n.outs) = 2 /\ n.outs[2] \notin SeqToSet(outs) /\ Uses(nodes \o gh, n.outs[2]) = 0 THEN <<n.outs[1]>> ELSE n.outs
                    rs == DceSubs(n.sub, 1, gh)
                    n2 == [n EXCEPT !.outs = trimmed, !.sub = rs.subs]
                IN DceFrom([nodes EXCEPT ![k] = n2], k - 1, outs, rs.gh)
DcePass(G, gh) == LET r == DceFrom(G.nodes, Len(G.nodes), G.outs, gh)
                  IN [G |-> [G EXCEPT !.nodes = r.nodes, !.inits = SelectSeq(G.inits, LAMBDA x : Uses(r.nodes \o r.gh, x.name) > 0 \/ x.name \in SeqToSet(G.outs))],
                      gh |-> r.gh]
\* LiftConstantsToInitializersPass(lift_all_constants, size_limit 0): in every graph; not when the Constant is a graph output
RECURSIVE LiftC(_)
LiftC(G) ==
   LET lift(k) == G.nodes[k].op = "Constant" /\ G.nodes[k].outs[1] \notin SeqToSet(G.outs)
       kept == SelectSeq([k \in 1..Len(G.nodes) |-> IF lift(k) THEN Nd("", <<>>, <<>>, NoAt, <<>>) ELSE
                             [G.nodes[k] EXCEPT !.sub = [j \in 1..Len(G.nodes[k].sub) |-> LiftC(G.nodes[k].sub[j])]]], LAMBDA x : x.op # "")
       lifted == SelectSeq([k \in 1..Len(G.nodes) |-> IF lift(k) THEN IniR(G.nodes[k].outs[1], G.nodes[k].at.val) ELSE IniR("", ERR)], LAMBDA x : x.name # "")
   IN [G EXCEPT !.nodes = kept, !.inits = @ \o lifted]
\* LiftSubgraphInitializersToMainGraphPass
RECURSIVE SubInits(_), StripInits(_)
SubInits(nodes) == IF nodes = <<>> THEN <<>>
                   ELSE LET n == Head(nodes) IN
                        (IF n.sub = <<>> THEN <<>> ELSE n.sub[1].inits \o SubInits(n.sub[1].nodes) \o n.sub[2].inits \o SubInits(n.sub[2].nodes)) \o SubInits(Tail(nodes))
StripInits(nodes) == [k \in 1..Len(nodes) |-> [nodes[k] EXCEPT !.sub = [j \in 1..Len(nodes[k].sub) |->
                         [nodes[k].sub[j] EXCEPT !.inits = <<>>, !.nodes = StripInits(nodes[k].sub[j].nodes)]]]]
LiftSub(G) == [G EXCEPT !.inits = @ \o SubInits(G.nodes), !.nodes = StripInits(G.nodes)]
\* DeduplicateInitializersPass (main graph; initializers that are graph outputs are skipped)
RECURSIVE Dedup(_, _)
Dedup(G, i) ==
   IF i > Len(G.inits) THEN G
   ELSE LET x == G.inits[i]
            J == {j \in 1..(i - 1) : G.inits[j].val = x.val /\ G.inits[j].name \notin SeqToSet(G.outs)}
        IN IF x.name \in SeqToSet(G.outs) \/ J = {} THEN Dedup(G, i + 1)
           ELSE LET keep == G.inits[CHOOSE j \in J : \A j2 \in J : j <= j2].name
                IN Dedup([G EXCEPT !.inits = RemoveAtSeq(G.inits, i), !.nodes = RenNodes(G.nodes, x.name, keep, FALSE)], i)
\* CommonSubexpressionEliminationPass (main graph only; control flow skipped).  When the removed node's output is a graph output
\* the surviving value is renamed to it; the code does not carry the output's declared type over (deviation cse_output_type_lost:
\* the surviving value may be untyped), the design does
RECURSIVE Cse(_, _, _, _)
Cse(G, k, S, C) ==
   IF k > Len(G.nodes) THEN [G |-> G, S |-> S]
   ELSE LET n == G.nodes[k]
            J == {j \in 1..(k - 1) : G.nodes[j].op = n.op /\ G.nodes[j].ins = n.ins /\ G.nodes[j].at = n.at /\ Len(G.nodes[j].outs) = Len(n.outs)}
        IN IF n.op = "If" \/ J = {} THEN Cse(G, k + 1, S, C)
           ELSE LET e == G.nodes[CHOOSE j \in J : \A j2 \in J : j <= j2]
                    gins == {G.ins[i].name : i \in 1..Len(G.ins)}
                    RECURSIVE Step(_, _, _, _, _)
                    Step(nodes, i, ident, ty, used) ==
                       IF i > Len(n.outs) THEN [nodes |-> nodes, ident |-> ident, ty |-> ty, used |-> used]
                       ELSE LET ov == n.outs[i] nv == e.outs[i] IN
                            IF ov \in SeqToSet(G.outs)
                            THEN (IF nv \in SeqToSet(G.outs) \/ nv \in gins
                                  THEN Step(RenNodes(nodes, ov, "#dead" \o Str(i), TRUE), i + 1, Append(ident, N1("Identity", <<nv>>, ov)), ty, used)
                                  ELSE LET lost == TyGet(ty, nv).dt = "" /\ TyGet(ty, ov).dt # ""
                                           keepTy == lost /\ "cse_output_type_lost" \notin C.devs
                                       IN Step(RenNodes(RenNodes(nodes, ov, "#dead" \o Str(i), TRUE), nv, ov, TRUE), i + 1, ident,
                                               IF keepTy THEN ty ELSE (ov :> TyGet(ty, nv)) @@ ty,
                                               IF lost /\ ~keepTy THEN used \cup {"cse_output_type_lost"} ELSE used))
                            ELSE Step(RenNodes(nodes, ov, nv, FALSE), i + 1, ident, ty, used)
                    st2 == Step(G.nodes, 1, <<>>, S.ty, S.used)
                    ns == SubSeq(st2.nodes, 1, k - 1) \o st2.ident \o SubSeq(st2.nodes, k + 1, Len(st2.nodes))
                IN Cse([G EXCEPT !.nodes = ns], k + Len(st2.ident), Log([S EXCEPT !.ty = st2.ty, !.used = st2.used], "CSE:" \o n.outs[1]), C)
\* OutputFixPass: a graph input that is directly a graph output gets an Identity; the code renames the INPUT (deviation)
OutFix(G, S, C) ==
   LET gins == {G.ins[i].name : i \in 1..Len(G.ins)}
       bad == {i \in 1..Len(G.outs) : G.outs[i] \in gins}
   IN IF bad = {} \/ "graph_input_output_renamed" \notin C.devs THEN [G |-> G, S |-> S]
      ELSE LET RECURSIVE Fix(_, _)
               Fix(H, i) == IF i > Len(H.outs) THEN H
                            ELSE IF i \notin bad THEN Fix(H, i + 1)
                            ELSE LET nm == H.outs[i] nw == nm \o "_orig"
                                 IN Fix([H EXCEPT !.nodes = Append(RenNodes(@, nm, nw, FALSE), N1("Identity", <<nw>>, nm)),
                                                  !.ins = [j \in 1..Len(@) |-> IF @[j].name = nm THEN [@[j] EXCEPT !.name = nw] ELSE @[j]]], i + 1)
           IN [G |-> Fix(G, 1), S |-> Log([S EXCEPT !.used = @ \cup {"graph_input_output_renamed"}], "OutputFix:renamed_input")]
-----------------------------------------------------------------------------
(* behaviours *)
Init == /\ stage = "build"
        /\ wd \in Worlds
        /\ m0 = [ins |-> WIns(wd), inits |-> <<>>, nodes |-> <<>>, outs |-> <<>>, main |-> <<>>]
        /\ envs = [k \in 1..NP |-> WFeeds(wd)[k]]
        /\ gr = <<>> /\ st = <<>>
        /\ rnd \in (IF Sim THEN 1..997 ELSE {0})
\* graph outputs: the last value; optionally a second output: an earlier value, an initializer, the graph input x
ExtraOuts == LET s == m0.main
                 earlier == {s[j] : j \in 1..(Len(s) - 1)}
                 ini == {m0.inits[i].name : i \in 1..Len(m0.inits)}
                 k == (rnd + Len(m0.nodes)) % 10
                 \* slim menus: an initializer whose only consumer is a foldable node may also be returned directly
                 folded == {nm \in ini : \E j \in 1..Len(m0.nodes) : m0.nodes[j].op = "Neg" /\ m0.nodes[j].ins = <<nm>>}
                 masks == {m0.nodes[j].outs[2] : j \in {j \in 1..Len(m0.nodes) : m0.nodes[j].op = "Dropout" /\ Len(m0.nodes[j].outs) = 2}}
             IN IF ~Rich THEN folded \cup masks
                ELSE IF ~Sim THEN earlier \cup masks \cup ini \cup {"x"}
                ELSE IF k < 5 THEN {} ELSE IF k < 8 THEN earlier \cup masks ELSE IF k = 8 THEN ini ELSE {"x"}
RECURSIVE SubTy(_)
SubTy(nodes) == IF nodes = <<>> THEN EmptyF
                ELSE LET n == Head(nodes)
                         own(sg) == [nm \in {sg.inits[i].name : i \in 1..Len(sg.inits)} |->
                                        LET v == sg.inits[CHOOSE i \in 1..Len(sg.inits) : sg.inits[i].name = nm].val IN [dt |-> v.dt, sh |-> v.shape]]
                         \* branch outputs are declared FLOAT with n.at.axis unknown dims
                         decl(sg) == [nm \in {sg.outs[i] : i \in 1..Len(sg.outs)} |-> [dt |-> "f32", sh |-> Unknowns(n.at.axis)]]
                     IN (IF n.sub = <<>> THEN EmptyF ELSE own(n.sub[1]) @@ decl(n.sub[1]) @@ SubTy(n.sub[1].nodes) @@ own(n.sub[2]) @@ decl(n.sub[2]) @@ SubTy(n.sub[2].nodes)) @@ SubTy(Tail(nodes))
InitTy(m) == [nm \in {m.ins[i].name : i \in 1..Len(m.ins)} |-> LET r == m.ins[CHOOSE i \in 1..Len(m.ins) : m.ins[i].name = nm] IN [dt |-> r.dt, sh |-> r.ds]]
             @@ [nm \in {m.inits[i].name : i \in 1..Len(m.inits)} |-> LET v == m.inits[CHOOSE i \in 1..Len(m.inits) : m.inits[i].name = nm].val IN [dt |-> v.dt, sh |-> v.shape]]
             @@ SubTy(m.nodes)
\* declared graph outputs: element type and rank (the harness declares every dim unknown); an output that is a graph input
\* keeps the input's declaration
OutTy(m, ex) == LET I == {i \in 1..Len(m.outs) : m.outs[i] \notin {m.ins[j].name : j \in 1..Len(m.ins)}}
                IN [nm \in {m.outs[i] : i \in I} |-> LET v == ex[CHOOSE i \in I : m.outs[i] = nm] IN [dt |-> v.dt, sh |-> Unknowns(Len(v.shape))]]
St0(m, mode, ex) == [mode |-> mode, pc |-> 1, iter |-> 1, sym |-> EmptyF, ty |-> OutTy(m, ex) @@ InitTy(m), fresh |-> 1, used |-> {}, raised |-> "", log |-> <<>>, ghost |-> <<>>, mod |-> FALSE]
FeedsOf(m) == [k \in 1..(IF OvrNames(m) = {} THEN NP ELSE NP + 1) |-> IF k <= NP THEN WFeeds(wd)[k] ELSE OvrFeed(m, wd)]
Finish == /\ stage = "build" /\ Len(m0.main) >= 1
          /\ \E extra \in (IF Sim /\ ExtraOuts # {} THEN PickN(29, ExtraOuts) ELSE {""} \cup ExtraOuts) :
                LET outs == IF extra = "" THEN <<m0.main[Len(m0.main)]>> ELSE <<m0.main[Len(m0.main)], extra>>
                    m == [m0 EXCEPT !.outs = outs]
                    fs == FeedsOf(m)
                    ex == [k \in 1..Len(fs) |-> EvalModel(m, fs[k])]
                    \* the runtime executes every node: all values must be defined on every probe (also under the overrides)
                    allOK(k) == LET e == EvalSeq(m.nodes, 1, InitEnv(m.inits) @@ FeedEnv(m, fs[k]))
                                IN \A j \in 1..Len(m.nodes) : \A i \in 1..Len(m.nodes[j].outs) : ~IsErr(Get(e, m.nodes[j].outs[i]))
                IN /\ \A k \in 1..Len(fs) : allOK(k) /\ \A i \in 1..Len(outs) : ~IsErr(ex[k][i])
                   /\ m0' = m /\ gr' = m
                   /\ envs' = [feeds |-> fs, expect |-> ex]
                   /\ st' = St0(m, "impl", ex[1])
                   /\ stage' = "fold"
                   /\ UNCHANGED <<wd, rnd>>
Build == AddConcatData \/ AddUnary \/ AddDropoutMask \/ AddCast \/ AddCastLike \/ AddTranspose \/ AddBinConst \/ AddBin \/ AddClip
         \/ AddShapeOp \/ AddReshape \/ AddExpand \/ AddUnsqueeze \/ AddIf

Devs == IF st.mode = "impl" THEN Deviations ELSE {}
Ctx == [cenv |-> IF "overridable_read_as_const" \in Devs THEN OvrMap(gr) ELSE EmptyF,
        ovrc |-> OvrMap(gr),
        gins |-> {gr.ins[i].name : i \in 1..Len(gr.ins)},
        ovr |-> {gr.ins[i].name : i \in {i \in 1..Len(gr.ins) : gr.ins[i].kind \in {"ovr", "ovrx"}}},
        devs |-> Devs]
Keep == UNCHANGED <<wd, m0, envs, rnd>>
\* FoldConstantsPass: one node of the main graph per step
FoldVisit == /\ stage = "fold" /\ st.pc <= Len(gr.nodes)
             /\ LET r == IF Fine THEN VisitNode(gr, st.pc, st, Ctx) ELSE [FoldFrom(gr, st.pc, st, Ctx) EXCEPT !.next = 1000]
                IN gr' = r.G /\ st' = [r.S EXCEPT !.pc = r.next]
             /\ UNCHANGED stage /\ Keep
FoldOutputs == /\ stage = "fold" /\ st.pc > Len(gr.nodes)
               /\ LET r == OutRep(gr, st, 1)
                  IN gr' = r.G /\ st' = [r.S EXCEPT !.pc = 1, !.sym = EmptyF]
               /\ stage' = "rewrite" /\ Keep
\* RewritePass: one node of the main graph per step
RewriteVisit == /\ stage = "rewrite" /\ st.pc <= Len(gr.nodes) /\ st.raised = ""
                /\ LET r == IF Fine THEN RewriteNode(gr, st.pc, st, Ctx) ELSE [RewriteFrom(gr, st.pc, st, Ctx) EXCEPT !.next = 1000]
                   IN gr' = r.G /\ st' = [r.S EXCEPT !.pc = r.next]
                /\ UNCHANGED stage /\ Keep
Raised == /\ stage \in {"fold", "rewrite"} /\ st.raised # ""
          /\ stage' = "done" /\ UNCHANGED <<gr, st>> /\ Keep
\* remove_unused_nodes (inside RewritePass and as RemoveUnusedNodesPass), then the next iteration of the PassManager
DCE == /\ stage = "rewrite" /\ st.pc > Len(gr.nodes) /\ st.raised = ""
       /\ LET r == DcePass(gr, st.ghost) IN
          /\ gr' = r.G
          \* PassManager(steps = num_iterations, early_stop): the DCE inside RewritePass is not reported as a modification
          /\ IF st.iter < NumIter /\ (st.mod \/ ~EarlyStop) THEN stage' = "fold" /\ st' = [st EXCEPT !.pc = 1, !.iter = @ + 1, !.mod = FALSE, !.ghost = r.gh]
                                                             ELSE stage' = "lift" /\ st' = [st EXCEPT !.pc = 1, !.ghost = r.gh]
       /\ Keep
LiftConstants == /\ stage = "lift"
                 /\ gr' = LiftC(DcePass(gr, st.ghost).G) /\ stage' = "liftsub" /\ UNCHANGED st /\ Keep
LiftSubgraphInits == /\ stage = "liftsub"
                     /\ gr' = LiftSub(gr) /\ stage' = "dedup" /\ UNCHANGED st /\ Keep
DedupInits == /\ stage = "dedup"
              /\ gr' = Dedup(gr, 1) /\ stage' = "cse" /\ UNCHANGED st /\ Keep
CSE == /\ stage = "cse"
       /\ LET r == Cse(gr, 1, st, Ctx) IN gr' = r.G /\ st' = r.S
       /\ stage' = "outfix" /\ Keep
OutputFix == /\ stage = "outfix"
             /\ LET r == OutFix(gr, st, Ctx) IN gr' = r.G /\ st' = r.S
             /\ stage' = "done" /\ Keep
\* a run of the implementation model that needed a deviation is repeated as a run of the design
DesignRerun == /\ stage = "done" /\ st.mode = "impl" /\ st.used # {}
               /\ gr' = m0 /\ st' = St0(m0, "design", envs.expect[1]) /\ stage' = "fold" /\ Keep
Optimize == FoldVisit \/ FoldOutputs \/ RewriteVisit \/ Raised \/ DCE \/ LiftConstants \/ LiftSubgraphInits \/ DedupInits \/ CSE \/ OutputFix
Next == Build \/ Finish \/ Optimize \/ DesignRerun
Spec == Init /\ [][Next]_vars

-----------------------------------------------------------------------------
(* properties *)
OptStages == {"fold", "rewrite", "lift", "liftsub", "dedup", "cse", "outfix", "done"}
RECURSIVE AsG(_)
AsG(G) == [inputs |-> [i \in 1..Len(G.ins) |-> G.ins[i].name], inits |-> [i \in 1..Len(G.inits) |-> G.inits[i].name],
           nodes |-> [k \in 1..Len(G.nodes) |-> [ins |-> G.nodes[k].ins, outs |-> G.nodes[k].outs, dom |-> "ai.onnx",
                                                  subs |-> [j \in 1..Len(G.nodes[k].sub) |-> AsG(G.nodes[k].sub[j])]]],
           outputs |-> G.outs]
\* C03: the current graph computes what the original computes, on every probe (probe 4: overrides of the overridable defaults)
Preserves == \A k \in 1..Len(envs.feeds) : EvalModel(gr, envs.feeds[k]) = envs.expect[k]
\* C04
\* ... and every graph output still has its declared element type
SigKept == /\ gr.outs = m0.outs
           /\ \A i \in 1..Len(gr.outs) : TyGet(st.ty, gr.outs[i]).dt # ""
           /\ Len(gr.ins) = Len(m0.ins)
           /\ \A i \in 1..Len(gr.ins) : gr.ins[i] = m0.ins[i]
WellFormed == LET a == AsG(gr) IN SSA(a) /\ Scoped(a, {}) /\ NoDup(a.outputs)
NeverRaises == st.raised = ""
Good == NeverRaises /\ Preserves /\ SigKept /\ WellFormed
\* every state of a design run, and of an implementation-model run up to its first deviation, satisfies the properties
PropertyHolds == (stage \in OptStages /\ (st.mode = "design" \/ st.used = {})) => Good
RECURSIVE FlatOps(_)
FlatOps(nodes) == IF nodes = <<>> THEN <<>>
                  ELSE LET n == Head(nodes) IN <<n.op>> \o (IF n.sub = <<>> THEN <<>> ELSE FlatOps(n.sub[1].nodes) \o FlatOps(n.sub[2].nodes)) \o FlatOps(Tail(nodes))
\* one JSON line per model: what the implementation model predicts
Emit == (stage = "done" /\ st.mode = "impl") =>
           PrintT(<<"CASE", ToJson([world |-> wd, model |-> m0, feeds |-> envs.feeds, expect |-> envs.expect,
                                    raised |-> st.raised, used |-> st.used, log |-> st.log,
                                    ops |-> FlatOps(gr.nodes), ninit |-> Len(gr.inits),
                                    sig |-> SigKept, wf |-> WellFormed,
                                    outs |-> [k \in 1..Len(envs.feeds) |-> EvalModel(gr, envs.feeds[k])]])>>)
\* witnesses (each is expected to be VIOLATED: the situations it denies are reachable)
NeverDeviates == stage \in OptStages => st.used = {}
NeverInlinesIf == stage \in OptStages => \A i \in 1..Len(st.log) : st.log[i] # "PE_If_inline:v5"
NeverFolds == stage \in OptStages => \A i \in 1..Len(st.log) : st.log[i] # "FoldByReference:c4"
NeverFuses == stage \in OptStages => \A i \in 1..Len(st.log) : st.log[i] # "Rule:TransposeTranspose:v3"
QuickWorlds == {"vec", "sym", "mat", "anon", "r3", "zero", "scal"}
ScalWorld == {"scal"}
ZeroWorld == {"zero"}
AnonWorld == {"anon"}
R3World == {"r3"}
VecWorld == {"vec"}
NoDevs == {}
\* defects that were real on the pinned tree and are fixed in /repo ("fix: Relu(Clip) and Clip(Clip) fusion ...", "fix: Relu/Clip fusion
\* raised AttributeError ..."): the implementation model runs without them; a regression shows up as a violation
FixedDevs == {"relu_clip_negmax", "clip_clip_disjoint", "relu_clip_no_dtype_raise"}
RealDevs == AllDevs \ FixedDevs
=============================================================================
