SPECIFICATION Spec
CONSTANTS
  Deviations <- AllDevs
  MaxCalls = 2
  MaxDepth = 1
  Ops = {"Add", "Sub", "Max", "Min", "Sum", "Where", "Clip", "Less"}
  LitMenu = {"i2", "f2", "im1", "bT", "l12"}
  InMenu = {1, 3, 4}
  Trips = {2}
  Kinds = {}
  FnMenu = {}
  CarryMenu = {}
  LitOnly = TRUE
  Sim = FALSE
INVARIANT DesignOK
INVARIANT DeviationsExplain
INVARIANT ScopeBalanced
INVARIANT Report
CHECK_DEADLOCK FALSE
