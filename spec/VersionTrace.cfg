SPECIFICATION TSpec
CONSTANT NoVersion = 0
INVARIANT Verdict
CHECK_DEADLOCK FALSE
