SPECIFICATION Spec
CONSTANTS
  MaxCalls = 2
  Names <- NamesQuick
  Deviations = {}
INVARIANT NamesWellFormed
INVARIANT OneFunctionPerPair
INVARIANT ValidatorSound
INVARIANT FirstWins
CHECK_DEADLOCK FALSE
