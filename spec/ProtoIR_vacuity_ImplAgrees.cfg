SPECIFICATION Spec
CONSTANTS
  Deviations <- AllDevs
  Apis <- AllApis
  MaxSparse = 1
  MaxDense = 0
INVARIANT ImplAgrees
CHECK_DEADLOCK FALSE
