SPECIFICATION Spec
CONSTANTS
  Deviations <- RealDevs
  RuleSets <- S_negneg
  MaxDepth = 1
  Wide = FALSE
INVARIANT DeviationsExplain
INVARIANT Emit
CHECK_DEADLOCK FALSE
