--------------------------- MODULE OpsetSignatures ---------------------------
(* C17: prints the parameter lists OpsetDispatch.tla derives from the schema registry. *)
EXTENDS OpsetDispatch
ASSUME PrintT(<<"SIGTABLE", ToJson(SigTable)>>)
TInit == /\ dom = "x" /\ name = "x" /\ ver = 0 /\ pc = "x" /\ cls = 0 /\ owner = 0 /\ dyn = 0
         /\ pos = <<>> /\ given = {} /\ inputs = <<>> /\ kw = <<>> /\ used = 0 /\ prep = <<>> /\ pops = 0
         /\ event = NoEvent /\ want = NoWant /\ callee = 0 /\ gstd = 0 /\ req = 0 /\ mstd = 0
TSpec == TInit /\ [][UNCHANGED vars]_vars
=============================================================================
