SPECIFICATION Spec
CONSTANTS
  Deviations <- RealDevs
  MaxNodes = 2
  Worlds <- AnonWorld
  Rich = FALSE
  NumIter = 2
  EarlyStop = TRUE
  Sim = FALSE
  Fine = FALSE
  Mutant = "same_shape_unk"
INVARIANT PropertyHolds
CHECK_DEADLOCK FALSE
