----------------------------- MODULE ExportOps -----------------------------
(* C13 - two rendering decisions of the ONNX -> Python exporter that are pure table look-ups in    *)
(* onnx_export.py and therefore invisible to Export.tla's graph derivations:                      *)
(*   (1) use_operators: a node is written as a Python infix expression  `r = a <sym> b`;           *)
(*   (2) inline_const:  a Constant node is dropped and its value written as a Python literal at    *)
(*       every use.                                                                               *)
(* Both lose information: the infix form carries NO attribute of the node, and a Python literal     *)
(* carries no element type (the script converter gives it the natural type of the Python value,    *)
(* FLOAT for float, INT64 for int, BOOL for bool, or casts it like a sibling operand).  The design   *)
(* rules below say when the rendering is faithful.  The harness OBSERVES the real exporter on one   *)
(* node per (operator of the real schema registry with two tensor inputs, attribute setting, element *)
(* type, constant operand, options) and sends the observations here (direction B on artefacts);     *)
(* TLC classifies each; the round trip of every observation is executed on onnxruntime.             *)
EXTENDS Integers, Sequences, FiniteSets, TLC, Json, IOUtils

Obs == JsonDeserialize(IOEnv.OBS_FILE)      \* [id, op, sym, infix, attrs_set, const_dt, const_rank, inlined, back]
\* `back`: the ONNX operator the script converter's primop_map gives to the Python operator `sym` ("" when not an operator) -
\* dumped from the real converter, so that the rule is about the pair exporter/converter, not about a transcription

\* (1) an infix rendering is faithful iff Python's operator denotes the same ONNX operator and no attribute is lost
InfixFaithful(o) == o.infix => (o.back = o.op /\ o.attrs_set = <<>>)
\* (2) an inlined constant is faithful iff its element type is the natural type of the literal that replaces it
Natural == {"FLOAT", "INT64", "BOOL"}
InlineFaithful(o) == o.inlined => (o.const_dt \in Natural /\ o.const_rank <= 1)

Rule(o) == IF ~InfixFaithful(o) THEN (IF o.back # o.op THEN "infix_operator_denotes_another_op" ELSE "infix_drops_attributes")
           ELSE IF ~InlineFaithful(o) THEN "inlined_literal_loses_element_type"
           ELSE "faithful"

VARIABLES k, verdict
Init == k \in 1..Len(Obs) /\ verdict = Rule(Obs[k])
Next == UNCHANGED <<k, verdict>>
Spec == Init /\ [][Next]_<<k, verdict>>
Report == PrintT(<<"RULE", Obs[k].id, verdict>>)
=============================================================================
