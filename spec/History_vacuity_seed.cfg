\* SetOrderIrrelevant can fail: if set iteration order reached the output (the fixed defect) a single translation differs between two processes
SPECIFICATION Spec
CONSTANTS
  Deviations <- SeedDevs
  MaxLen = 1
  Alphabet <- AllOps
  UseRecorded = FALSE
  EmitLen = 0
INVARIANT HistoryIndependent
CHECK_DEADLOCK FALSE
