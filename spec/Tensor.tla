------------------------------- MODULE Tensor -------------------------------
(* Shared kernel: exact semantics of small integer-valued tensors, written the way the ONNX    *)
(* operator documentation states it.  A tensor is [dt, shape, data] with row-major data.       *)
(* Operators are total: a domain violation yields ERR, and ERR propagates.                     *)
(* Used by Indexing (C11), Script/Converter (C01, C02), Rules (C05), Optimizer (C03, C04),     *)
(* SymShape (C09), AtenOps (C08), Builder (C18).                                               *)
EXTENDS Integers, Sequences, FiniteSets

\* The error value is itself a tensor-shaped record so that TLC can compare it with any tensor.
ERR == [dt |-> "ERR", shape |-> <<>>, data |-> <<>>]
IsErr(t) == t.dt = "ERR"
NOSHAPE == <<-1000>>          \* "no such shape" (broadcast failure)

Min2(a, b) == IF a < b THEN a ELSE b
Max2(a, b) == IF a > b THEN a ELSE b
Clamp(x, lo, hi) == Min2(Max2(x, lo), hi)
AbsI(a) == IF a < 0 THEN -a ELSE a
\* floor division and python-style modulo on integers (TLA+ \div and % are floor-based for b > 0)
FloorDiv(a, b) == IF b > 0 THEN a \div b ELSE (-a) \div (-b)
PyMod(a, b) == a - b * FloorDiv(a, b)
TruncDiv(a, b) == LET q == AbsI(a) \div AbsI(b) IN IF (a < 0) = (b < 0) THEN q ELSE -q
CMod(a, b) == a - b * TruncDiv(a, b)      \* C fmod on integers: sign of dividend
CeilDiv(a, b) == -FloorDiv(-a, b)

RECURSIVE SeqProd(_)
SeqProd(s) == IF s = <<>> THEN 1 ELSE Head(s) * SeqProd(Tail(s))
RECURSIVE SeqSum(_)
SeqSum(s) == IF s = <<>> THEN 0 ELSE Head(s) + SeqSum(Tail(s))
Numel(shape) == SeqProd(shape)
Rank(t) == Len(t.shape)

T(dt, shape, data) == [dt |-> dt, shape |-> shape, data |-> data]
Scalar(dt, v) == T(dt, <<>>, <<v>>)
Vec(dt, s) == T(dt, <<Len(s)>>, s)
Iota(dt, shape) == T(dt, shape, [k \in 1..Numel(shape) |-> k - 1])

\* row-major strides: stride[i] = product of dims after i
Stride(shape, i) == SeqProd(SubSeq(shape, i + 1, Len(shape)))
\* 0-based linear index -> multi-index (sequence of 0-based coordinates)
Unravel(lin, shape) == [i \in 1..Len(shape) |-> (lin \div Stride(shape, i)) % shape[i]]
RECURSIVE RavelFrom(_, _, _)
RavelFrom(idx, shape, i) == IF i > Len(shape) THEN 0 ELSE idx[i] * Stride(shape, i) + RavelFrom(idx, shape, i + 1)
Ravel(idx, shape) == RavelFrom(idx, shape, 1)
At(t, idx) == t.data[Ravel(idx, t.shape) + 1]
\* tensor from an index function: Op(idx) gives the element at multi-index idx
FromFn(dt, shape, Op(_)) == T(dt, shape, [k \in 1..Numel(shape) |-> Op(Unravel(k - 1, shape))])

ValidShape(shape) == \A i \in 1..Len(shape) : shape[i] >= 0

\* normalise an axis in [-r, r-1]; -1000 when out of range
NormAxis(a, r) == IF a >= 0 /\ a < r THEN a ELSE IF a < 0 /\ a >= -r THEN a + r ELSE -1000
RemoveAt(s, i) == SubSeq(s, 1, i - 1) \o SubSeq(s, i + 1, Len(s))     \* 1-based position
InsertAt(s, i, v) == SubSeq(s, 1, i - 1) \o <<v>> \o SubSeq(s, i, Len(s))
SeqToSet(s) == {s[i] : i \in 1..Len(s)}
Distinct(s) == Cardinality(SeqToSet(s)) = Len(s)

-----------------------------------------------------------------------------
(* Slice: ONNX operator text (opset 13).  One axis at a time; starts/ends/steps per listed axis *)
OxStart(s, k, d) == LET s2 == IF s < 0 THEN s + d ELSE s IN
                    IF k > 0 THEN Clamp(s2, 0, d) ELSE Clamp(s2, 0, d - 1)
OxEnd(e, k, d) == LET e2 == IF e < 0 THEN e + d ELSE e IN
                  IF k > 0 THEN Clamp(e2, 0, d) ELSE Clamp(e2, -1, d - 1)
SliceCount(s, e, k) == IF k > 0 THEN Max2(0, CeilDiv(e - s, k)) ELSE Max2(0, CeilDiv(s - e, -k))

\* plan: per input axis (1-based position i) a triple <<start, step, count>> after clamping
SlicePlanAxis(d, s, e, k) == IF d = 0 THEN <<0, k, 0>>
                             ELSE LET s1 == OxStart(s, k, d) e1 == OxEnd(e, k, d) IN <<s1, k, SliceCount(s1, e1, k)>>
ApplyPlan(t, plan) ==      \* plan: sequence over axes of <<start, step, count>>
   LET oshape == [i \in 1..Rank(t) |-> plan[i][3]]
       Src(idx) == [i \in 1..Rank(t) |-> plan[i][1] + idx[i] * plan[i][2]]
       Op(idx) == At(t, Src(idx))
   IN FromFn(t.dt, oshape, Op)
IdPlan(t) == [i \in 1..Rank(t) |-> <<0, 1, t.shape[i]>>]

\* Slice(t, starts, ends, axes, steps): all sequences of equal length; axes may be negative
Slice(t, starts, ends, axes, steps) ==
   IF IsErr(t) THEN ERR
   ELSE LET r == Rank(t)
            n == Len(axes)
            nax == [j \in 1..n |-> NormAxis(axes[j], r)]
        IN IF Len(starts) # n \/ Len(ends) # n \/ Len(steps) # n THEN ERR
           ELSE IF \E j \in 1..n : nax[j] = -1000 \/ steps[j] = 0 THEN ERR
           ELSE IF ~Distinct(nax) THEN ERR
           ELSE LET plan == [i \in 1..r |->
                              IF \E j \in 1..n : nax[j] = i - 1
                              THEN LET j == CHOOSE j \in 1..n : nax[j] = i - 1
                                   IN SlicePlanAxis(t.shape[i], starts[j], ends[j], steps[j])
                              ELSE <<0, 1, t.shape[i]>>]
                IN ApplyPlan(t, plan)

\* NumPy basic slicing of one axis: slice.indices(d); NONE marks an omitted bound
NONE == 99
NpStep(st) == IF st = NONE THEN 1 ELSE st
NpStart(s, st, d) == LET k == NpStep(st) IN
   IF s = NONE THEN (IF k > 0 THEN 0 ELSE d - 1)
   ELSE LET s2 == IF s < 0 THEN s + d ELSE s IN
        IF k > 0 THEN Clamp(s2, 0, d) ELSE Clamp(s2, -1, d - 1)
NpStop(e, st, d) == LET k == NpStep(st) IN
   IF e = NONE THEN (IF k > 0 THEN d ELSE -1)
   ELSE LET e2 == IF e < 0 THEN e + d ELSE e IN
        IF k > 0 THEN Clamp(e2, 0, d) ELSE Clamp(e2, -1, d - 1)
NpPlanAxis(d, s, e, st) == LET k == NpStep(st) s1 == NpStart(s, st, d) e1 == NpStop(e, st, d)
                           IN <<s1, k, SliceCount(s1, e1, k)>>

-----------------------------------------------------------------------------
(* Squeeze / Unsqueeze / Gather / Reshape / Transpose / Concat / Expand *)
Squeeze(t, axes) ==
   IF IsErr(t) THEN ERR
   ELSE LET r == Rank(t)
            nax == {NormAxis(axes[j], r) : j \in 1..Len(axes)}
        IN IF -1000 \in nax THEN ERR
           ELSE IF \E a \in nax : t.shape[a + 1] # 1 THEN ERR
           ELSE LET keep == SelectSeq([i \in 1..r |-> i], LAMBDA i : (i - 1) \notin nax)
                IN T(t.dt, [j \in 1..Len(keep) |-> t.shape[keep[j]]], t.data)
SqueezeAll(t) == IF IsErr(t) THEN ERR
                 ELSE T(t.dt, SelectSeq(t.shape, LAMBDA d : d # 1), t.data)

Unsqueeze(t, axes) ==      \* axes: sequence, refer to output rank
   IF IsErr(t) THEN ERR
   ELSE LET ro == Rank(t) + Len(axes)
            nax == {NormAxis(axes[j], ro) : j \in 1..Len(axes)}
        IN IF -1000 \in nax \/ Cardinality(nax) # Len(axes) THEN ERR
           ELSE LET Pos(i) == Cardinality({a \in 0..(i - 1) : a \notin nax})   \* #kept dims before output axis i
                IN T(t.dt, [i \in 1..ro |-> IF (i - 1) \in nax THEN 1 ELSE t.shape[Pos(i - 1) + 1]], t.data)

\* Gather(data, indices, axis): out.shape = data.shape[:axis] ++ indices.shape ++ data.shape[axis+1:]
Gather(t, ind, axis) ==
   IF IsErr(t) \/ IsErr(ind) THEN ERR
   ELSE LET r == Rank(t) a == NormAxis(axis, r) IN
        IF r = 0 \/ a = -1000 THEN ERR
        ELSE LET d == t.shape[a + 1]
                 q == Rank(ind)
             IN IF \E k \in 1..Len(ind.data) : ind.data[k] < -d \/ ind.data[k] >= d THEN ERR
                ELSE LET oshape == SubSeq(t.shape, 1, a) \o ind.shape \o SubSeq(t.shape, a + 2, r)
                         Op(idx) == LET iv == At(ind, SubSeq(idx, a + 1, a + q))
                                        iv2 == IF iv < 0 THEN iv + d ELSE iv
                                    IN At(t, SubSeq(idx, 1, a) \o <<iv2>> \o SubSeq(idx, a + q + 1, Len(idx)))
                     IN FromFn(t.dt, oshape, Op)

\* Reshape with 0 (copy) and -1 (infer); allowzero = FALSE/TRUE
Reshape(t, target, allowzero) ==
   IF IsErr(t) THEN ERR
   ELSE LET n == Len(target)
            res0 == [i \in 1..n |-> IF target[i] = 0 /\ ~allowzero
                                      THEN (IF i <= Rank(t) THEN t.shape[i] ELSE -1000) ELSE target[i]]
            negs == {i \in 1..n : res0[i] = -1}
        IN IF \E i \in 1..n : res0[i] = -1000 \/ res0[i] < -1 THEN ERR
           ELSE IF Cardinality(negs) > 1 THEN ERR
           ELSE IF allowzero /\ negs # {} /\ \E i \in 1..n : target[i] = 0 THEN ERR
           ELSE LET known == SeqProd([i \in 1..n |-> IF i \in negs THEN 1 ELSE res0[i]])
                    total == Numel(t.shape)
                IN IF negs = {} THEN (IF known = total THEN T(t.dt, res0, t.data) ELSE ERR)
                   ELSE IF known = 0 THEN ERR
                   ELSE IF total % known # 0 THEN ERR
                   ELSE T(t.dt, [i \in 1..n |-> IF i \in negs THEN total \div known ELSE res0[i]], t.data)

IsPerm(p, r) == Len(p) = r /\ SeqToSet(p) = 0..(r - 1)
Transpose(t, perm) ==      \* perm 0-based
   IF IsErr(t) THEN ERR
   ELSE IF ~IsPerm(perm, Rank(t)) THEN ERR
   ELSE LET r == Rank(t)
            oshape == [i \in 1..r |-> t.shape[perm[i] + 1]]
            Inv(j) == CHOOSE i \in 1..r : perm[i] = j - 1
            Op(idx) == At(t, [j \in 1..r |-> idx[Inv(j)]])
        IN FromFn(t.dt, oshape, Op)
RevPerm(r) == [i \in 1..r |-> r - i]

\* numpy/ONNX multidirectional broadcasting
BroadcastShape(s1, s2) ==
   LET r == Max2(Len(s1), Len(s2))
       P(s, i) == LET off == r - Len(s) IN IF i <= off THEN 1 ELSE s[i - off]
   IN IF \E i \in 1..r : P(s1, i) # P(s2, i) /\ P(s1, i) # 1 /\ P(s2, i) # 1 THEN NOSHAPE
      ELSE [i \in 1..r |-> IF P(s1, i) = 1 THEN P(s2, i) ELSE P(s1, i)]
BroadcastTo(t, shape) ==   \* assumes t.shape broadcastable to shape
   LET r == Len(shape) off == r - Rank(t)
       Op(idx) == At(t, [j \in 1..Rank(t) |-> IF t.shape[j] = 1 THEN 0 ELSE idx[j + off]])
   IN FromFn(t.dt, shape, Op)
Expand(t, shape) == IF IsErr(t) THEN ERR
                    ELSE LET bs == BroadcastShape(t.shape, shape) IN IF bs = NOSHAPE THEN ERR ELSE BroadcastTo(t, bs)

Map1(t, dt, F(_)) == IF IsErr(t) THEN ERR ELSE T(dt, t.shape, [k \in 1..Len(t.data) |-> F(t.data[k])])
Map2(a, b, dt, F(_, _)) ==
   IF IsErr(a) \/ IsErr(b) THEN ERR
   ELSE LET bs == BroadcastShape(a.shape, b.shape) IN
        IF bs = NOSHAPE THEN ERR
        ELSE LET a2 == BroadcastTo(a, bs) b2 == BroadcastTo(b, bs)
             IN T(dt, bs, [k \in 1..Len(a2.data) |-> F(a2.data[k], b2.data[k])])

Concat(ts, axis) ==        \* ts: non-empty sequence of tensors of equal rank
   IF \E i \in 1..Len(ts) : IsErr(ts[i]) THEN ERR
   ELSE LET r == Rank(ts[1]) a == NormAxis(axis, r) IN
        IF r = 0 \/ a = -1000 THEN ERR
        ELSE IF \E i \in 1..Len(ts) : Rank(ts[i]) # r
                  \/ \E j \in 1..r : j # a + 1 /\ ts[i].shape[j] # ts[1].shape[j] THEN ERR
        ELSE LET tot == SeqSum([i \in 1..Len(ts) |-> ts[i].shape[a + 1]])
                 oshape == [j \in 1..r |-> IF j = a + 1 THEN tot ELSE ts[1].shape[j]]
                 Off(i) == SeqSum([k \in 1..(i - 1) |-> ts[k].shape[a + 1]])
                 Which(c) == CHOOSE i \in 1..Len(ts) : Off(i) <= c /\ c < Off(i) + ts[i].shape[a + 1]
                 Op(idx) == LET i == Which(idx[a + 1]) IN At(ts[i], [idx EXCEPT ![a + 1] = @ - Off(i)])
             IN FromFn(ts[1].dt, oshape, Op)

\* Reduce over a set of 0-based axes with fold F and unit u (keepdims TRUE/FALSE)
RECURSIVE FoldSeq(_, _, _)
FoldSeq(F(_, _), u, s) == IF s = <<>> THEN u ELSE FoldSeq(F, F(u, Head(s)), Tail(s))
Reduce(t, axes, keepdims, F(_, _), u) ==
   IF IsErr(t) THEN ERR
   ELSE LET r == Rank(t)
            kshape == [i \in 1..r |-> IF (i - 1) \in axes THEN 1 ELSE t.shape[i]]
            Match(lin, idx) == LET src == Unravel(lin, t.shape) IN \A i \in 1..r : (i - 1) \in axes \/ src[i] = idx[i]
            Op(idx) == FoldSeq(F, u, [k \in 1..Cardinality({l \in 0..(Numel(t.shape) - 1) : Match(l, idx)}) |->
                          LET S == {l \in 0..(Numel(t.shape) - 1) : Match(l, idx)}
                              nth == CHOOSE l \in S : Cardinality({m \in S : m < l}) = k - 1
                          IN t.data[nth + 1]])
            kept == FromFn(t.dt, kshape, Op)
        IN IF keepdims THEN kept
           ELSE T(t.dt, SelectSeq([i \in 1..r |-> IF (i - 1) \in axes THEN -7 ELSE t.shape[i]], LAMBDA d : d # -7), kept.data)

ShapeOf(t) == IF IsErr(t) THEN ERR ELSE Vec("i64", t.shape)
=============================================================================
