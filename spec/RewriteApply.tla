---------------------------- MODULE RewriteApply ----------------------------
(* C07 (and the frame clauses of C04) - what ONE application of a rewrite rule may do to a model, *)
(* as an operational model of RewriteRuleSet.apply_to_model /                                    *)
(* _apply_to_graph_or_function / ir.convenience.replace_nodes_and_values (direction B).          *)
(*                                                                                              *)
(* Rewrite.tla derives host graphs for a fixed family of generated rules.  This module is rule-  *)
(* agnostic: the state is the whole model in token form (every graph - main, functions, nested   *)
(* If/Loop bodies - with its ordered nodes, inputs, outputs, initializers; every node with its    *)
(* operator, inputs, outputs and subgraphs).  The hooks in _rewrite_rule.py (ONNXSCRIPT_VERIF=1)  *)
(* record a snapshot at the start, one Apply event per rule application (container, root,        *)
(* matched nodes, replacement nodes, old and new outputs), a snapshot after the last             *)
(* application, one after remove_unused_nodes and one at the end.  Each Apply is executed on the  *)
(* abstract state; the snapshots must EQUAL the state the specification computed.  Hence:        *)
(*   - exactly the matched nodes are removed (none when the rule keeps nodes),                   *)
(*   - the new outputs take over every use of the old ones, in every graph incl. nested          *)
(*     subgraphs and graph outputs,                                                             *)
(*   - replacement nodes are inserted after the root and read only values visible there,         *)
(*   - no value of a removed node is still used,                                                 *)
(*   - every other node, value, graph input/output is untouched (state equality),                *)
(*   - the clean-up only removes dead nodes, NameFix changes no structure,                       *)
(*   - the reported count is the number of applications,                                         *)
(*   - the final model is topologically ordered in every graph and imports every domain it uses. *)
EXTENDS Integers, Sequences, FiniteSets, TLC

SeqSet(s) == {s[i] : i \in 1..Len(s)}
NoDup(s) == Cardinality(SeqSet(s)) = Len(s)
RECURSIVE FirstBad(_)
FirstBad(cl) == IF cl = <<>> THEN "" ELSE IF ~Head(cl)[2] THEN Head(cl)[1] ELSE FirstBad(Tail(cl))

VARIABLES gs,      \* graph token -> [kind, inputs, outputs, inits (set), order (sequence of node tokens)]
          ns,      \* node token -> [op, domain, ins, outs, subs]
          napply,  \* number of Apply events so far
          nfn,     \* number of applications that extract a function (as_function)
          doms,    \* domains of the replacement nodes inserted so far
          rerr     \* <<>> or <<event index, clause>>
rvars == <<gs, ns, napply, nfn, doms, rerr>>

\* ---- snapshots (as logged by _verif.snapshot_model) -> state -------------------------------------
\* initializers are registered by NAME (graph.initializers is a dict): inits is the set of <<name, token>> pairs
GraphOf(gr) == [kind |-> gr.kind, inputs |-> gr.inputs, outputs |-> gr.outputs,
                inits |-> {<<gr.init_names[i], gr.inits[i]>> : i \in 1..Len(gr.inits)},
                order |-> [j \in 1..Len(gr.nodes) |-> gr.nodes[j].id]]
GMap(m) == [g \in {m.graphs[i].id : i \in 1..Len(m.graphs)} |->
              GraphOf(m.graphs[CHOOSE i \in 1..Len(m.graphs) : m.graphs[i].id = g])]
NodeOf(nd) == [op |-> nd.op, domain |-> nd.domain, ins |-> nd.ins, outs |-> nd.outs, subs |-> nd.subs]
NodeIds(m) == UNION {{m.graphs[i].nodes[j].id : j \in 1..Len(m.graphs[i].nodes)} : i \in 1..Len(m.graphs)}
NMap(m) == [n \in NodeIds(m) |->
              LET i == CHOOSE i \in 1..Len(m.graphs) : \E j \in 1..Len(m.graphs[i].nodes) : m.graphs[i].nodes[j].id = n
                  j == CHOOSE j \in 1..Len(m.graphs[i].nodes) : m.graphs[i].nodes[j].id = n
              IN NodeOf(m.graphs[i].nodes[j])]

RInit(m) == /\ gs = GMap(m) /\ ns = NMap(m) /\ napply = 0 /\ nfn = 0 /\ doms = {} /\ rerr = <<>>

\* ---- scoping -----------------------------------------------------------------------------------
IndexOf(s, x) == IF \E i \in 1..Len(s) : s[i] = x THEN CHOOSE i \in 1..Len(s) : s[i] = x ELSE 0
\* the node that owns graph c as a subgraph, as <<graph, position>> (<<"", 0>> for main graph / functions)
ParentOf(G, N, c) ==
  LET P == {<<g, k>> \in UNION {{<<g, k>> : k \in 1..Len(G[g].order)} : g \in DOMAIN G} :
              G[g].order[k] \in DOMAIN N /\ c \in SeqSet(N[G[g].order[k]].subs)}
  IN IF P = {} THEN <<"", 0>> ELSE CHOOSE p \in P : TRUE
\* values visible to a node at position k of graph c (defined before it here, or visible to the owner of c)
RECURSIVE VisAt(_, _, _, _)
VisAt(G, N, c, k) ==
  LET own == SeqSet(G[c].inputs) \cup {p[2] : p \in G[c].inits}
             \cup UNION {SeqSet(N[G[c].order[j]].outs) : j \in 1..(k - 1)}
      p == ParentOf(G, N, c)
  IN IF p[1] = "" THEN own ELSE own \cup VisAt(G, N, p[1], p[2])
Topological(G, N) ==
  \A c \in DOMAIN G : \A k \in 1..Len(G[c].order) :
     \A i \in 1..Len(N[G[c].order[k]].ins) : N[G[c].order[k]].ins[i] = "" \/ N[G[c].order[k]].ins[i] \in VisAt(G, N, c, k)
OutputsDefined(G, N) ==
  \A c \in DOMAIN G : \A i \in 1..Len(G[c].outputs) :
     G[c].outputs[i] = "" \/ G[c].outputs[i] \in VisAt(G, N, c, Len(G[c].order) + 1)
UsedValues(G, N) == UNION {SeqSet(N[n].ins) : n \in DOMAIN N} \cup UNION {SeqSet(G[c].outputs) : c \in DOMAIN G}

\* ---- one application -----------------------------------------------------------------------------
Subst(s, olds, news) == [i \in 1..Len(s) |-> IF \E j \in 1..Len(olds) : olds[j] = s[i]
                                             THEN news[CHOOSE j \in 1..Len(olds) : olds[j] = s[i]] ELSE s[i]]
InsertAfter(s, k, t) == SubSeq(s, 1, k) \o t \o SubSeq(s, k + 1, Len(s))
Without(s, S) == SelectSeq(s, LAMBDA x : x \notin S)
InsIds(inserted) == [i \in 1..Len(inserted) |-> inserted[i].id]
\* the state after the application (defined for well-formed events; guarded by the clauses below)
\* registering an initializer under a name that exists replaces the entry (`initializers[name] = value`)
Register(inits, newInits) == {p \in inits : \A q \in newInits : q[1] # p[1]} \cup newInits
Overwritten(inits, newInits) == {p[2] : p \in {p \in inits : \E q \in newInits : q[1] = p[1] /\ q[2] # p[2]}}
AfterApply(c, root, removed, inserted, olds, news, newInits) ==
  LET k == IndexOf(gs[c].order, root)
      N1 == [n \in (DOMAIN ns \ removed) \cup SeqSet(InsIds(inserted)) |->
               IF n \in DOMAIN ns
               THEN [ns[n] EXCEPT !.ins = Subst(@, olds, news)]
               ELSE LET r == inserted[CHOOSE i \in 1..Len(inserted) : inserted[i].id = n]
                    IN [op |-> r.op, domain |-> r.domain, ins |-> r.ins, outs |-> r.outs, subs |-> <<>>]]
      G1 == [g \in DOMAIN gs |->
               [gs[g] EXCEPT !.outputs = Subst(@, olds, news),
                             !.order = IF g = c THEN Without(InsertAfter(@, k, InsIds(inserted)), removed) ELSE Without(@, removed),
                             !.inits = IF g = c THEN Register(@, newInits) ELSE @]]
  IN [G |-> G1, N |-> N1]

ApplyClauses(c, root, matched, removes, inserted, olds, news, newInits) ==
  LET removed == IF removes THEN SeqSet(matched) ELSE {}
      wf == c \in DOMAIN gs /\ root \in SeqSet(gs[c].order) /\ Len(olds) = Len(news)
            /\ SeqSet(InsIds(inserted)) \cap DOMAIN ns = {} /\ SeqSet(matched) \subseteq DOMAIN ns
      A == AfterApply(c, root, removed, inserted, olds, news, newInits)
      kRoot == IndexOf(gs[c].order, root)
      \* position of the first inserted node in the new order
      vis(i) == VisAt(A.G, A.N, c, IndexOf(A.G[c].order, inserted[i].id))
  IN <<<<"apply_container_known", c \in DOMAIN gs>>,
       <<"apply_root_in_container", c \in DOMAIN gs /\ root \in SeqSet(gs[c].order)>>,
       <<"apply_root_is_matched", root \in SeqSet(matched)>>,
       <<"apply_matched_nodes_exist", SeqSet(matched) \subseteq DOMAIN ns>>,
       <<"apply_arity", Len(olds) = Len(news)>>,
       <<"apply_old_outputs_come_from_the_match",
         \A j \in 1..Len(olds) : \E n \in SeqSet(matched) : n \in DOMAIN ns /\ olds[j] \in SeqSet(ns[n].outs)>>,
       <<"apply_inserted_nodes_fresh", SeqSet(InsIds(inserted)) \cap DOMAIN ns = {} /\ NoDup(InsIds(inserted))>>,
       \* an existing initializer replaced by a new one of the same name must not be needed any more
       <<"apply_overwritten_initializer_unused",
         wf => Overwritten(gs[c].inits, newInits) \cap UsedValues(A.G, A.N) = {}>>,
       <<"apply_removed_values_unused",
         wf => \A n \in removed : \A o \in SeqSet(ns[n].outs) : o = "" \/ o \notin UsedValues(A.G, A.N)>>,
       <<"apply_replacement_reads_visible_values",
         wf => \A i \in 1..Len(inserted) : \A j \in 1..Len(inserted[i].ins) :
                  inserted[i].ins[j] = "" \/ inserted[i].ins[j] \in vis(i)>>,
       <<"apply_new_outputs_defined",
         wf => \A j \in 1..Len(news) : news[j] \in VisAt(A.G, A.N, c, Len(A.G[c].order) + 1)>>>>
DoApply(c, root, matched, removes, asFunction, inserted, olds, news, newInits) ==
  LET A == AfterApply(c, root, IF removes THEN SeqSet(matched) ELSE {}, inserted, olds, news, newInits)
  IN /\ gs' = A.G /\ ns' = A.N /\ napply' = napply + 1 /\ nfn' = nfn + (IF asFunction THEN 1 ELSE 0)
     /\ doms' = doms \cup {inserted[i].domain : i \in 1..Len(inserted)}

\* ---- snapshots compared with the state -------------------------------------------------------------
\* graphs the specification does not know: only functions extracted by as_function applications may appear
NewGraphs(m) == {g \in DOMAIN GMap(m) : g \notin DOMAIN gs}
SameGraph(a, b) == a.inputs = b.inputs /\ a.outputs = b.outputs /\ a.order = b.order /\ a.inits = b.inits /\ a.kind = b.kind
SameNode(a, b) == a.op = b.op /\ a.domain = b.domain /\ a.ins = b.ins /\ a.outs = b.outs
StateEquals(m) ==
  LET G == GMap(m) N == NMap(m)
  IN /\ \A g \in DOMAIN gs : g \in DOMAIN G /\ SameGraph(gs[g], G[g])
     /\ \A n \in DOMAIN ns : n \in DOMAIN N /\ SameNode(ns[n], N[n])
     /\ \A n \in DOMAIN N : n \in DOMAIN ns \/ \E g \in NewGraphs(m) : n \in SeqSet(G[g].order)
AppliedClauses(count, m) ==
  <<<<"applied_count_is_number_of_applications", count = napply>>,
    <<"applied_only_extracted_functions_are_new", \A g \in NewGraphs(m) : GMap(m)[g].kind = "function">>,
    <<"applied_new_functions_match_as_function_applications", Cardinality(NewGraphs(m)) <= nfn>>,
    <<"applied_graph_interfaces_untouched",
      \A g \in DOMAIN gs : g \in DOMAIN GMap(m) /\ gs[g].inputs = GMap(m)[g].inputs /\ gs[g].outputs = GMap(m)[g].outputs>>,
    <<"applied_node_lists_are_what_the_applications_produce", \A g \in DOMAIN gs : gs[g].order = GMap(m)[g].order>>,
    <<"applied_initializers_are_what_the_applications_produce", \A g \in DOMAIN gs : gs[g].inits = GMap(m)[g].inits>>,
    <<"applied_nodes_wired_as_the_applications_produce", \A n \in DOMAIN ns : n \in DOMAIN NMap(m) /\ SameNode(ns[n], NMap(m)[n])>>,
    <<"applied_model_is_what_the_applications_produce", StateEquals(m)>>>>
\* remove_unused_nodes: only dead nodes go, nothing else changes
CleanedClauses(ran, m) ==
  LET G == GMap(m) N == NMap(m)
      gone == DOMAIN ns \ DOMAIN N
  IN <<<<"clean_skipped_changes_nothing", ran \/ gone = {}>>,
       <<"clean_adds_nothing", \A n \in DOMAIN N : n \in DOMAIN ns \/ \E g \in NewGraphs(m) : n \in SeqSet(G[g].order)>>,
       <<"clean_removes_only_dead_nodes",
         \A n \in gone : \A o \in SeqSet(ns[n].outs) : o = "" \/ o \notin UsedValues(G, N)>>,
       <<"clean_keeps_everything_else",
         /\ \A n \in DOMAIN N : n \in DOMAIN ns => SameNode(ns[n], N[n])
         /\ \A g \in DOMAIN G : g \in DOMAIN gs =>
               /\ G[g].inputs = gs[g].inputs /\ G[g].outputs = gs[g].outputs
               /\ G[g].order = Without(gs[g].order, gone) /\ G[g].inits \subseteq gs[g].inits
               /\ \A p \in gs[g].inits \ G[g].inits : p[2] \notin UsedValues(G, N)>>>>
DoCleaned(m) == /\ gs' = [g \in DOMAIN gs \cap DOMAIN GMap(m) |-> GMap(m)[g]]
                /\ ns' = [n \in DOMAIN ns \cap DOMAIN NMap(m) |-> NMap(m)[n]]
                /\ UNCHANGED <<napply, nfn, doms>>
Imported(m) == {m.opsets[i][1] : i \in 1..Len(m.opsets)}
EndClauses(count, m) ==
  LET G == GMap(m) N == NMap(m)
  IN <<<<"end_count_is_number_of_applications", count = napply>>,
       \* (NameFixPass may rename values, initializers included: they are compared by token here)
       <<"end_namefix_changes_no_structure",
         /\ \A g \in DOMAIN gs : g \in DOMAIN G /\ gs[g].inputs = G[g].inputs /\ gs[g].outputs = G[g].outputs /\ gs[g].order = G[g].order
                                  /\ {p[2] : p \in gs[g].inits} = {p[2] : p \in G[g].inits}
         /\ \A n \in DOMAIN ns : n \in DOMAIN N /\ SameNode(ns[n], N[n])
         /\ \A n \in DOMAIN N : n \in DOMAIN ns \/ \E g \in NewGraphs(m) : n \in SeqSet(G[g].order)>>,
       <<"end_every_graph_topologically_ordered", Topological(G, N)>>,
       <<"end_graph_outputs_defined", OutputsDefined(G, N)>>,
       <<"end_replacement_domains_imported", doms \subseteq Imported(m)>>>>
=============================================================================
