------------------------------- MODULE Builder -------------------------------
(* C18 (trace part): GraphBuilder / OpBuilder as a state machine.                                *)
(*                                                                                              *)
(* A behaviour DERIVES a traced program call by call (CallOp, OpenIf/CloseBranch, OpenLoop/      *)
(* CloseLoop, OpenScan/CloseScan, Push/Pop, CallFn, InlineFn, Finish) and, in the same step,     *)
(* performs what the code does for that call - one named operator per step of                    *)
(* BuilderBase.call_op / GraphBuilder:                                                           *)
(*   Formal/Binding/PromDt   schema partition + type-variable binding of _cast_inputs            *)
(*                           (signatures are READ from the real onnx schemas: IOEnv.C18_SIGS)    *)
(*   Promote                 _get_or_create_constant: root cache keyed (type, repr, dtype), names *)
(*   AdaptArgs               _input_to_ir_value incl. the dynamic CastLike helper node           *)
(*   OutNames / NodeName     _adapt_outputs / _generate_node_name / _qualify_* (scope stack)     *)
(*   Tk                      does _inference leave a type on the outputs                         *)
(*   subgraph frames         build_graph: sub-builder with its own node counter, copied scope,   *)
(*                           constants delegated to the root                                     *)
(*   CallFn / InlineFn       GraphBuilder.call / call_inline + _inliner.instantiate (bodies of   *)
(*                           the real function objects are READ from IOEnv.C18_FUNCS)            *)
(* The meaning of the trace is Replay (BuilderSem.tla on Tensor.tla); the graph the builder      *)
(* produced is kept by NAME (G, for the implementation model; DG for the design).                *)
(* Properties (design level, Deviations = {}):  WF(graph) (Graph.tla), node names unique, every  *)
(* use resolves BY NAME to the value the trace passed (ResolveOK), inline = call.                *)
(* Deviations (DESIGN 2.5):                                                                      *)
(*   subgraph_name_reuse          value/node names use the per-graph node counter, so a subgraph *)
(*                                repeats names of the enclosing / sibling graphs (design: one   *)
(*                                counter shared through the root builder)                       *)
(*   inline_default_attr_dropped  call_inline of a function whose attribute parameter is left at *)
(*                                its default: the reference attribute is dropped, not resolved  *)
(*   inline_raw_python_args       call_inline hands Python literals / plain attribute values to  *)
(*                                the cloner unconverted: it raises (call() converts them)       *)
EXTENDS BuilderSem, Graph, Json, IOUtils

CONSTANTS Deviations,      \* subset of AllDevs: what the implementation model does
          MaxCalls,        \* user-level calls per trace
          MaxDepth,        \* subgraph nesting
          Ops,             \* operator menu for CallOp
          InMenu,          \* graph inputs a derivation may use (subset of 1..4: x, m, f, c)
          Trips,           \* trip counts a Loop may be given (subset of 0..3)
          FnMenu,          \* functions a derivation may call / inline (indices into Funcs)
          CarryMenu,       \* literals usable as a second loop-carried / scan-state operand
          LitOnly,         \* TRUE: only op calls with a literal operand (focused configs)
          LitMenu,         \* literals a derivation may use (subset of DOMAIN L)
          Kinds,           \* subset of {"if","loop","scan","push","call","inline","ospec","pos"}
          Sim              \* TRUE: random pre-selection (only sound with -simulate)
VARIABLES vals, frames, scope, cache, nc, gn, fidc, stage, flags, out
vars == <<vals, frames, scope, cache, nc, gn, fidc, stage, flags, out>>

AllDevs == {"subgraph_name_reuse", "inline_default_attr_dropped", "inline_raw_python_args"}
NoDevs == {}
AllOps == {"Add", "Sub", "Mul", "Div", "Mod", "Min", "Max", "Sum", "Equal", "Less", "Greater", "LessOrEqual", "GreaterOrEqual",
           "And", "Or", "Xor", "Not", "Neg", "Abs", "Sign", "Relu", "Identity", "Where", "Clip", "Cast", "Reshape", "Transpose",
           "Squeeze", "Unsqueeze", "Concat", "Gather", "Slice", "Shape", "Size", "Expand", "Flatten", "ReduceSum", "ReduceMax",
           "ReduceMin", "Split", "CumSum"}
AllKinds == {"if", "loop", "scan", "push", "call", "inline", "ospec", "pos"}
Sigs == JsonDeserialize(IOEnv.C18_SIGS)       \* op -> sequence of [tv, concrete, variadic, homo]
Funcs == JsonDeserialize(IOEnv.C18_FUNCS)     \* sequence of function descriptions (see harness/c18.py)
K == 2                                         \* number of input assignments
Dev(d) == d \in Deviations

Coin(n) == ~Sim \/ RandomElement(1..n) = 1          \* weights of the random derivation (simulation only)
Pick(S) == IF Sim THEN (IF S = {} THEN {} ELSE {RandomElement(S)}) ELSE S

-----------------------------------------------------------------------------
(* literals *)
LT(py, shape, data, repr) == [py |-> py, shape |-> shape, data |-> data, repr |-> repr]
L == [i0 |-> LT("int", <<>>, <<0>>, "0"), i1 |-> LT("int", <<>>, <<1>>, "1"), i2 |-> LT("int", <<>>, <<2>>, "2"),
      i3 |-> LT("int", <<>>, <<3>>, "3"), im1 |-> LT("int", <<>>, <<-1>>, "-1"),
      f2 |-> LT("float", <<>>, <<2>>, "2.0"), fm1 |-> LT("float", <<>>, <<-1>>, "-1.0"),
      bT |-> LT("bool", <<>>, <<1>>, "True"), bF |-> LT("bool", <<>>, <<0>>, "False"),
      l0 |-> LT("int", <<1>>, <<0>>, ""), l1 |-> LT("int", <<1>>, <<1>>, ""), lm1 |-> LT("int", <<1>>, <<-1>>, ""),
      l2 |-> LT("int", <<1>>, <<2>>, ""), l4 |-> LT("int", <<1>>, <<4>>, ""),
      l01 |-> LT("int", <<2>>, <<0, 1>>, ""), l10 |-> LT("int", <<2>>, <<1, 0>>, ""), l12 |-> LT("int", <<2>>, <<1, 2>>, ""),
      l21 |-> LT("int", <<2>>, <<2, 1>>, ""), l22 |-> LT("int", <<2>>, <<2, 2>>, ""), l2m1 |-> LT("int", <<2>>, <<2, -1>>, "")]
AllLits == DOMAIN L
DefaultDt(l) == CASE L[l].py = "int" -> "i64" [] L[l].py = "float" -> "f32" [] OTHER -> "bool"
Sfx(dt) == CASE dt = "i64" -> "i64" [] dt = "f32" -> "f32" [] dt = "bool" -> "b8"
LitT(l, dt) == T(dt, L[l].shape, L[l].data)

AV(v) == [a |-> "v", v |-> v, l |-> ""]
AL(l) == [a |-> "l", v |-> 0, l |-> l]
AN == [a |-> "n", v |-> 0, l |-> ""]

-----------------------------------------------------------------------------
(* names *)
RECURSIVE Join(_, _)
Join(s, sep) == IF s = <<>> THEN "" ELSE IF Len(s) = 1 THEN s[1] ELSE s[1] \o sep \o Join(Tail(s), sep)
ValPrefix(sc) == IF sc = <<>> THEN "v_" ELSE "v_" \o Join(sc, ".") \o "."
NodePrefix(sc) == IF sc = <<>> THEN "" ELSE Join(sc, "/") \o "/"
\* _adapt_outputs: ospec.m = "def"/"cnt" (n outputs named from the counter) or "names"/"vals" (given names)
OutNames(sc, op, cnt, n, ospec) ==
  IF ospec.m \in {"names", "vals"} THEN [i \in 1..n |-> ValPrefix(sc) \o ospec.names[i]]
  ELSE IF n = 1 THEN <<ValPrefix(sc) \o op \o "_" \o ToString(cnt)>>
  ELSE [i \in 1..n |-> ValPrefix(sc) \o op \o "_" \o ToString(cnt) \o "_" \o ToString(i - 1)]
NodeName(sc, op, cnt) == NodePrefix(sc) \o op \o "_node_" \o ToString(cnt)

-----------------------------------------------------------------------------
(* state helpers *)
Cur == frames[Len(frames)]
Depth == Len(frames)
OpenFids == {frames[i].fid : i \in 1..Len(frames)} \cup {0}
Vis == {v \in 1..Len(vals) : ~vals[v].hid /\ vals[v].fr \in OpenFids /\ (v <= 4 => v \in InMenu)}
Local == {v \in Vis : vals[v].fr = Cur.fid}
D(v) == vals[v].dt
Rk(v) == Len(vals[v].ev[1].shape)
NumV == {v \in Vis : D(v) \in {"i64", "f32"}}
BoolV == {v \in Vis : D(v) = "bool"}
\* the counter used in generated names: the graph's own node count nn (code) / one counter gn shared through the root (design)
NoBlk == [ins |-> <<>>, body |-> <<>>, res |-> <<>>, g |-> <<>>]
NoPend == [k |-> 0, a |-> 0, b |-> 0, trip |-> 0, l2 |-> "", ins |-> <<>>, blk |-> NoBlk]
Val(dt, tk, nm, dn, ev, fr, hid) == [dt |-> dt, tk |-> tk, nm |-> nm, dn |-> dn, ev |-> ev, fr |-> fr, hid |-> hid]

-----------------------------------------------------------------------------
(* _cast_inputs: formal parameter of position i, type-variable binding, promoted dtype *)
Formal(sig, i) == IF i <= Len(sig) THEN sig[i] ELSE sig[Len(sig)]
HasFormal(sig, i) == i <= Len(sig) \/ (Len(sig) > 0 /\ sig[Len(sig)].variadic)
Typevar(sig, i) == IF i > Len(sig) /\ ~sig[Len(sig)].homo THEN "" ELSE Formal(sig, i).tv
\* first ir.Value argument whose formal has type variable tv (0: none)
Binding(sig, args, tv) ==
  LET S == {i \in 1..Len(args) : args[i].a = "v" /\ Typevar(sig, i) = tv /\ ~Formal(sig, i).concrete} IN
  IF tv = "" \/ S = {} THEN 0 ELSE args[CHOOSE i \in S : \A j \in S : i <= j].v
\* dtype the literal at position i is promoted with, and whether a CastLike follows
PromDt(sig, args, i) ==
  LET b == IF Formal(sig, i).concrete THEN 0 ELSE Binding(sig, args, Typevar(sig, i)) IN
  IF b = 0 THEN [dt |-> DefaultDt(args[i].l), sfx |-> IF L[args[i].l].py = "bool" THEN "" ELSE Sfx(DefaultDt(args[i].l)), like |-> 0, fin |-> DefaultDt(args[i].l)]
  ELSE IF vals[b].tk THEN [dt |-> vals[b].dt, sfx |-> Sfx(vals[b].dt), like |-> 0, fin |-> vals[b].dt]
  ELSE [dt |-> DefaultDt(args[i].l), sfx |-> IF L[args[i].l].py = "bool" THEN "" ELSE Sfx(DefaultDt(args[i].l)), like |-> b, fin |-> vals[b].dt]
\* tensor fed for argument i under input assignment k
ArgT(sig, args, i, k) ==
  CASE args[i].a = "v" -> vals[args[i].v].ev[k]
    [] args[i].a = "l" -> LitT(args[i].l, PromDt(sig, args, i).fin)
    [] OTHER -> NoT
ArgTs(sig, args, k) == [i \in 1..Len(args) |-> ArgT(sig, args, i, k)]

\* _get_or_create_constant: cache keyed by (Python type name and repr of the literal - element-wise for sequences -, dtype):
\* 2 and 2.0 (or 1 and True) promoted to one dtype are two entries / two initializers; returns <<cache', name>>
CKey(l, p) == <<L[l].shape, L[l].py, L[l].data, IF p.sfx = "" THEN "none" ELSE p.dt>>
Promote(cch, l, p) ==
  LET key == CKey(l, p)
      hit == {j \in 1..Len(cch) : cch[j].key = key}
  IN IF hit # {} THEN <<cch, cch[CHOOSE j \in hit : TRUE].nm>>
     ELSE LET nm == IF L[l].shape = <<>> THEN "const_" \o L[l].repr \o (IF p.sfx = "" THEN "" ELSE "_" \o p.sfx)
                    ELSE "const_1d_" \o ToString(Len(cch))
          IN <<Append(cch, [key |-> key, nm |-> nm, dt |-> p.dt, shape |-> L[l].shape, data |-> L[l].data]), nm>>

\* _input_to_ir_value over all arguments, left to right.  st threads what a promotion can change.
\* A node keeps its operands as value ids (iv, 0 = not a value) and constant names (cn); the NAME of a
\* value is looked up in vals when the graph is projected (names are live references in the code too).
Node(nm, dn, op, dom, iv, cn, ov, subs) == [nm |-> nm, dn |-> dn, op |-> op, dom |-> dom, iv |-> iv, cn |-> cn, ov |-> ov, subs |-> subs]
RECURSIVE AdaptArgs(_, _, _, _)
AdaptArgs(sig, args, i, st) ==
  IF i > Len(args) THEN st
  ELSE LET a == args[i] IN
    IF a.a = "v" THEN AdaptArgs(sig, args, i + 1, [st EXCEPT !.cn = Append(@, ""), !.iv = Append(@, a.v)])
    ELSE IF a.a = "n" THEN AdaptArgs(sig, args, i + 1, [st EXCEPT !.cn = Append(@, ""), !.iv = Append(@, 0)])
    ELSE LET p == PromDt(sig, args, i)
             pr == Promote(st.cache, a.l, p)
         IN IF p.like = 0
            THEN AdaptArgs(sig, args, i + 1, [st EXCEPT !.cache = pr[1], !.cn = Append(@, pr[2]), !.iv = Append(@, 0)])
            ELSE \* dynamic CastLike(constant, like): a helper node in the current graph, before the requested node
                 LET nm == ValPrefix(scope) \o "CastLike_" \o ToString(st.nn)
                     dn == ValPrefix(scope) \o "CastLike_" \o ToString(st.gn)
                     hv == Val(vals[p.like].dt, FALSE, nm, dn, [k \in 1..K |-> LitT(a.l, p.fin)], st.fid, TRUE)
                     vid == Len(st.vals) + 1
                     nd == Node(NodeName(scope, "CastLike", st.nn), NodeName(scope, "CastLike", st.gn), "CastLike", "",
                                <<0, p.like>>, <<pr[2], "">>, <<vid>>, <<>>)
                 IN AdaptArgs(sig, args, i + 1, [st EXCEPT !.cache = pr[1], !.nodes = Append(@, nd), !.nn = @ + 1, !.gn = @ + 1,
                                                          !.vals = Append(@, hv), !.cn = Append(@, ""), !.iv = Append(@, vid)])
St0(fr, vs, cch, g) == [cache |-> cch, nodes |-> fr.nodes, nn |-> fr.nn, gn |-> g, vals |-> vs, cn |-> <<>>, iv |-> <<>>, fid |-> fr.fid]
\* does shape/type inference leave a type on the outputs: every present input must have one
Tk(args) == \A i \in 1..Len(args) : args[i].a = "v" => vals[args[i].v].tk

\* append the requested node after its helpers; returns the new state pieces
\* outsT: sequence (per output) of K-sequences of tensors; subs: graph records of graph-valued attributes
EmitNode(op, nodeop, dom, st, n, ospec, tk, outsT, subs) ==
  LET onm == OutNames(scope, nodeop, st.nn, n, ospec)
      odn == OutNames(scope, nodeop, st.gn, n, ospec)
      base == Len(st.vals)
      nd == Node(NodeName(scope, nodeop, st.nn), NodeName(scope, nodeop, st.gn), op, dom, st.iv, st.cn, [i \in 1..n |-> base + i], subs)
      nv == [i \in 1..n |-> Val(outsT[i][1].dt, tk, onm[i], odn[i], outsT[i], st.fid, FALSE)]
  IN [cache |-> st.cache, nodes |-> Append(st.nodes, nd), nn |-> st.nn + 1, gn |-> st.gn + 1, vals |-> st.vals \o nv, ov |-> nd.ov]

SameTS(a, b) == a.dt = b.dt /\ a.shape = b.shape
OkT(t) == /\ ~IsErr(t) /\ Len(t.shape) <= 3 /\ Numel(t.shape) >= 1 /\ Numel(t.shape) <= 8
          /\ \A j \in 1..Len(t.data) : t.data[j] <= 10000 /\ t.data[j] >= -10000

-----------------------------------------------------------------------------
(* statements of the traced program (what the harness replays, what Replay evaluates) *)
Stmt(k, kind, op, args, pdt, at, outs, ospec, pos, subs, fn, amode, pfx) ==
  [k |-> k, kind |-> kind, op |-> op, args |-> args, pdt |-> pdt, at |-> at, outs |-> outs, ospec |-> ospec, pos |-> pos,
   subs |-> subs, fn |-> fn, amode |-> amode, pfx |-> pfx]
DefSpec == [m |-> "def", names |-> <<>>]
OSpecs(n) ==
  IF "ospec" \notin Kinds THEN {IF n = 1 THEN DefSpec ELSE [m |-> "cnt", names |-> <<>>]}
  ELSE LET nms == [i \in 1..n |-> "o" \o ToString(nc) \o (IF i = 1 THEN "a" ELSE "b")] IN
       (IF n = 1 THEN {DefSpec} ELSE {}) \cup {[m |-> "cnt", names |-> <<>>], [m |-> "names", names |-> nms], [m |-> "vals", names |-> nms]}
Pdt(sig, args) == [i \in 1..Len(args) |-> IF args[i].a = "l" THEN PromDt(sig, args, i).fin ELSE ""]

-----------------------------------------------------------------------------
(* Replay: the meaning of a traced program, by VALUE IDENTITY (env: vid -> tensor) *)
StackT(ts) ==    \* stack equal-shaped tensors along a new leading axis
  T(ts[1].dt, <<Len(ts)>> \o ts[1].shape, [j \in 1..(Len(ts) * Numel(ts[1].shape)) |->
       ts[((j - 1) \div Numel(ts[1].shape)) + 1].data[((j - 1) % Numel(ts[1].shape)) + 1]])
RowT(t, i) == Gather(t, Scalar("i64", i), 0)           \* t[i] (0-based)
\* env has one slot more than there are values: the last one turns ERR as soon as ANY call of the replay (also one whose
\* result is never used, also in a later iteration) is undefined or leaves the exactly-representable range
RECURSIVE EvalStmts(_, _), EvalStmt(_, _), LoopIter(_, _, _, _, _, _), ScanIter(_, _, _, _, _, _)
OKMARK == Scalar("i64", 0)
Poisoned(env) == IsErr(env[Len(env)])
Poison(env) == [env EXCEPT ![Len(env)] = ERR]
SetAll0(env, vs, ts) == [v \in DOMAIN env |-> IF \E i \in 1..Len(vs) : vs[i] = v THEN ts[CHOOSE i \in 1..Len(vs) : vs[i] = v] ELSE env[v]]
SetAll(env, vs, ts) == IF \E i \in 1..Len(ts) : ~OkT(ts[i]) THEN Poison(SetAll0(env, vs, ts)) ELSE SetAll0(env, vs, ts)
ArgE(s, i, env) == CASE s.args[i].a = "v" -> env[s.args[i].v] [] s.args[i].a = "l" -> LitT(s.args[i].l, s.pdt[i]) [] OTHER -> NoT
EvalStmts(ss, env) == IF ss = <<>> \/ Poisoned(env) THEN env ELSE EvalStmts(Tail(ss), EvalStmt(Head(ss), env))
\* Loop: blk.ins = <<i, cnd>> \o carried,  blk.res = <<cnd_out>> \o carried outs [\o <<scan>>];  result <<finals, scans, bad>>
LoopIter(blk, env, it, trip, curs, acc) ==
  IF it >= trip THEN <<curs, acc, FALSE>>
  ELSE LET nc2 == Len(blk.ins) - 2
           e1 == EvalStmts(blk.body, SetAll0(env, blk.ins, <<Scalar("i64", it), Scalar("bool", 1)>> \o curs))
       IN IF Poisoned(e1) THEN <<curs, <<>>, TRUE>>
          ELSE LoopIter(blk, env, it + 1, trip, [j \in 1..nc2 |-> e1[blk.res[1 + j]]],
                        IF Len(blk.res) > 1 + nc2 THEN Append(acc, e1[blk.res[Len(blk.res)]]) ELSE acc)
\* Scan: blk.ins = states \o <<xi>>,  blk.res = state outs \o <<scan>>
ScanIter(blk, env, it, xs, curs, acc) ==
  IF it >= xs.shape[1] THEN <<curs, acc, FALSE>>
  ELSE LET ns == Len(blk.ins) - 1
           e1 == EvalStmts(blk.body, SetAll0(env, blk.ins, Append(curs, RowT(xs, it))))
       IN IF Poisoned(e1) THEN <<curs, <<>>, TRUE>>
          ELSE ScanIter(blk, env, it + 1, xs, [j \in 1..ns |-> e1[blk.res[j]]], Append(acc, e1[blk.res[ns + 1]]))
EvalStmt(s, env) ==
  CASE s.kind = "op" -> SetAll(env, s.outs, Sem(s.op, [i \in 1..Len(s.args) |-> ArgE(s, i, env)], s.at))
    [] s.kind \in {"call", "inline"} -> SetAll(env, s.outs, FSem(Funcs[s.fn].tag, [i \in 1..Len(s.args) |-> ArgE(s, i, env)],
                                                                  IF s.amode = "omit" THEN Funcs[s.fn].default ELSE Att(s.at, "alpha", 0)))
    [] s.kind = "if" -> LET c == env[s.args[1].v]
                            b == IF c.data[1] # 0 THEN s.subs[1] ELSE s.subs[2]
                            e1 == EvalStmts(b.body, env)
                        IN IF Poisoned(e1) THEN Poison(env) ELSE SetAll(env, s.outs, <<e1[b.res[1]]>>)
    [] s.kind = "loop" -> LET nc2 == Len(s.args) - 2
                              r == LoopIter(s.subs[1], env, 0, L[s.args[1].l].data[1], [j \in 1..nc2 |-> ArgE(s, j + 2, env)], <<>>) IN
         IF r[3] THEN Poison(env)
         ELSE SetAll(env, s.outs, IF Len(s.outs) > nc2 THEN Append(r[1], StackT(r[2])) ELSE r[1])
    [] s.kind = "scan" -> LET ns == Len(s.args) - 1
                              r == ScanIter(s.subs[1], env, 0, env[s.args[Len(s.args)].v], [j \in 1..ns |-> ArgE(s, j, env)], <<>>) IN
         IF r[3] THEN Poison(env) ELSE SetAll(env, s.outs, Append(r[1], StackT(r[2])))
    [] OTHER -> env                      \* push / pop: no meaning
EnvNow(vs, k) == [v \in 1..(Len(vs) + 1) |-> IF v <= Len(vs) THEN vs[v].ev[k] ELSE OKMARK]

-----------------------------------------------------------------------------
(* candidates of one op.X(...) call *)
C(op, args, at, pos) == [op |-> op, args |-> args, at |-> at, pos |-> pos]
NoAt == <<>>
SLits(dt) == LitMenu \cap (CASE dt = "i64" -> {"i0", "i1", "i2", "i3", "im1"} [] dt = "f32" -> {"i2", "im1", "f2", "fm1"} [] OTHER -> {"bT", "bF"})
LLits(dt) == LitMenu \cap (IF dt = "i64" THEN {"l12", "l01"} ELSE IF dt = "f32" THEN {"l12"} ELSE {})
Pos01 == IF "pos" \in Kinds THEN {0, 1} ELSE {0}
\* every generator set goes through Pick: the full product when model checking, one random draw per component in simulation
BinC(op, V) == {C(op, <<AV(p[1]), AV(p[2])>>, NoAt, 0) : p \in Pick({p \in V \X V : D(p[1]) = D(p[2])})}
               \cup UNION {{C(op, <<AV(q[1]), AL(q[2])>>, NoAt, 0), C(op, <<AL(q[2]), AV(q[1])>>, NoAt, 0)} :
                            q \in Pick({q \in V \X DOMAIN L : q[2] \in SLits(D(q[1])) \cup LLits(D(q[1]))})}
Cands(op) ==
  CASE op \in {"Add", "Sub", "Mul", "Div", "Min", "Max", "Equal", "Less", "Greater", "LessOrEqual", "GreaterOrEqual"} -> BinC(op, NumV)
    [] op = "Mod" -> BinC(op, {v \in NumV : D(v) = "i64"})
    [] op \in {"And", "Or", "Xor"} -> BinC(op, BoolV)
    [] op = "Sum" -> LET FV == {v \in NumV : D(v) = "f32"} IN        \* ONNX Sum: float tensors only
                     {C(op, <<AV(p[1]), AV(p[2]), AV(p[3])>>, NoAt, 0) : p \in Pick(FV \X FV \X FV)}
                     \cup {C(op, <<AV(p[1]), AL(p[2]), AV(p[3])>>, NoAt, 0) : p \in Pick(FV \X (LitMenu \cap {"i2", "f2", "l12"}) \X FV)}
    [] op \in {"Neg", "Abs", "Sign"} -> {C(op, <<AV(a)>>, NoAt, 0) : a \in Pick(NumV)}
    [] op = "Relu" -> {C(op, <<AV(a)>>, NoAt, 0) : a \in Pick({v \in NumV : D(v) = "f32"})}
    [] op = "Not" -> {C(op, <<AV(a)>>, NoAt, 0) : a \in Pick(BoolV)}
    [] op \in {"Identity", "Shape", "Size"} -> {C(op, <<AV(a)>>, NoAt, 0) : a \in Pick(Vis)}
    [] op = "Where" -> {C(op, <<AV(p[1]), AV(p[2]), AV(p[3])>>, NoAt, 0) : p \in Pick({p \in BoolV \X NumV \X NumV : D(p[2]) = D(p[3])})}
                       \cup UNION {{C(op, <<AV(p[1]), AV(p[2]), AL(p[3])>>, NoAt, 0), C(op, <<AV(p[1]), AL(p[3]), AV(p[2])>>, NoAt, 0)} :
                                    p \in Pick({p \in BoolV \X NumV \X DOMAIN L : p[3] \in SLits(D(p[2]))})}
    [] op = "Clip" -> {C(op, <<AV(p[1]), p[2], p[3]>>, NoAt, 0) : p \in Pick(
                         {p \in NumV \X ({AN} \cup {AL(l) : l \in {"i0", "im1", "fm1"}}) \X ({AN} \cup {AL(l) : l \in {"i1", "i2", "f2"}}) :
                            /\ (p[2].a = "l" \/ p[3].a = "l")
                            /\ (p[2].a = "l" => p[2].l \in SLits(D(p[1]))) /\ (p[3].a = "l" => p[3].l \in SLits(D(p[1])))})}
    [] op = "Cast" -> {C(op, <<AV(a)>>, [to |-> t], 0) : a \in Pick(Vis), t \in Pick({1, 7, 9})}
    [] op = "Reshape" -> {C(op, <<AV(a), AL(l)>>, NoAt, 0) : a \in Pick(Vis), l \in Pick({"lm1", "l4", "l12", "l21", "l22", "l2m1"})}
    [] op = "Transpose" -> {C(op, <<AV(p[1])>>, p[2], p[3]) : p \in Pick({p \in {v \in Vis : Rk(v) = 2} \X {NoAt, [perm |-> <<1, 0>>], [perm |-> <<0, 1>>]} \X Pos01 : p[3] = 1 => p[2] # NoAt})}
    [] op \in {"Squeeze", "Unsqueeze"} -> {C(op, <<AV(a), AL(l)>>, NoAt, 0) : a \in Pick(Vis), l \in Pick({"l0", "l1", "lm1"})}
    [] op = "Concat" -> {C(op, <<AV(p[1]), AV(p[2])>>, [axis |-> p[3]], 0) : p \in Pick({p \in Vis \X Vis \X {0, 1, -1} : D(p[1]) = D(p[2])})}
    [] op = "Gather" -> {C(op, <<AV(a), i>>, at, 0) : a \in Pick({v \in Vis : Rk(v) >= 1}),
                           i \in Pick({AL(l) : l \in {"i0", "i1", "im1", "l01", "l10", "l1"}} \cup {AV(v) : v \in {v \in Vis : D(v) = "i64"}}),
                           at \in Pick({NoAt, [axis |-> 0], [axis |-> 1]})}
    [] op = "Slice" -> {C(op, <<AV(a), AL(s), AL(e), AL(x), AL(t)>>, NoAt, 0) : a \in Pick({v \in Vis : Rk(v) >= 1}),
                          s \in Pick({"l0", "l1", "lm1"}), e \in Pick({"l1", "l2", "lm1"}), x \in Pick({"l0", "l1", "lm1"}), t \in Pick({"l1", "lm1", "l2"})}
    [] op = "Expand" -> {C(op, <<AV(a), AL(l)>>, NoAt, 0) : a \in Pick(Vis), l \in Pick({"l2", "l12", "l21", "l22"})}
    [] op = "Flatten" -> {C(op, <<AV(p[1])>>, p[2], p[3]) : p \in Pick({p \in Vis \X {NoAt, [axis |-> 0], [axis |-> 1]} \X Pos01 : p[3] = 1 => p[2] # NoAt})}
    [] op \in {"ReduceSum", "ReduceMax", "ReduceMin"} -> {C(op, <<AV(a), AL(l)>>, at, 0) : a \in Pick({v \in NumV : Rk(v) >= 1}),
                          l \in Pick({"l0", "l1", "lm1", "l01"}), at \in Pick({NoAt, [keepdims |-> 0]})}
    [] op = "Split" -> {C(op, <<AV(a)>>, at, 0) : a \in Pick({v \in Vis : Rk(v) >= 1}), at \in Pick({[num_outputs |-> 2], [num_outputs |-> 2, axis |-> 1], [num_outputs |-> 2, axis |-> -1]})}
    [] op = "CumSum" -> {C(op, <<AV(a), AL(l)>>, NoAt, 0) : a \in Pick({v \in NumV : Rk(v) >= 1}), l \in Pick({"i0", "i1", "im1"})}
    [] OTHER -> {}
Results(c) == [k \in 1..K |-> Sem(c.op, ArgTs(Sigs[c.op], c.args, k), c.at)]
Valid(c) == LET r == Results(c) IN \A k \in 1..K : \A i \in 1..Len(r[k]) : OkT(r[k][i])
Transp(r) == [i \in 1..Len(r[1]) |-> [k \in 1..K |-> r[k][i]]]       \* per output, per input assignment

SetCur(fr) == [frames EXCEPT ![Depth] = fr]
Produced == {v \in Local : \A j \in 1..Len(Cur.pend.ins) : Cur.pend.ins[j] # v}     \* values a node of this graph produced
MayCall == stage = "build" /\ (nc < MaxCalls \/ (Depth > 1 /\ nc < MaxCalls + (IF Sim THEN 6 ELSE 0)))

\* simulation only: inside a branch / body, bias towards calls whose result can be returned (same type and shape as the
\* other branch's result / the carried value), so that random derivations close their subgraphs
Compat(r, v) == \A k \in 1..K : SameTS(vals[r].ev[k], vals[v].ev[k])
Target == IF Cur.kind = "else" THEN Cur.pend.blk.res[1] ELSE IF Cur.kind \in {"loop", "scan"} THEN Cur.pend.a ELSE 0
EasyC(tv) == LET W == {v \in Vis : Compat(v, tv)} IN
  IF D(tv) = "bool" THEN {C(o, <<AV(a)>>, NoAt, 0) : o \in Ops \cap {"Not", "Identity"}, a \in Pick(W)}
  ELSE {C(o, <<AV(a)>>, NoAt, 0) : o \in Pick(Ops \cap ({"Neg", "Abs", "Sign", "Identity"} \cup IF D(tv) = "f32" THEN {"Relu"} ELSE {})), a \in Pick(W)}
       \cup {C(q[1], <<AV(q[2]), AL(q[3])>>, NoAt, 0) : q \in Pick({q \in (Ops \cap {"Add", "Sub", "Mul", "Max", "Min"}) \X W \X DOMAIN L : q[3] \in SLits(D(q[2]))})}
\* ONNX shape inference of an If / Loop / Scan node runs over its body: it gives up (no types on the node's outputs) when the
\* body - at any depth - holds a function-call node (an operator without schema)
RECURSIVE Opaque(_)
Opaque(ss) == \E i \in 1..Len(ss) : ss[i].kind = "call" \/ \E j \in 1..Len(ss[i].subs) : Opaque(ss[i].subs[j].body)
\* NOTE (TLC): a LET directly inside an action formula is re-evaluated at every use; the new state is therefore computed
\* by state-level operators (XxxNew, LETs cached) and bound once with  \E n \in {XxxNew(..)}.
CallOpNew(c, os) ==
  LET sig == Sigs[c.op]
      st == AdaptArgs(sig, c.args, 1, St0(Cur, vals, cache, gn))
      ot == Transp(Results(c))
      e == EmitNode(c.op, c.op, "", st, Len(ot), os, Tk(c.args), ot, <<>>)
      stmt == Stmt(nc, "op", c.op, c.args, Pdt(sig, c.args), c.at, e.ov, os, c.pos, <<>>, 0, "", "")
  IN [vals |-> e.vals, cache |-> e.cache, gn |-> e.gn,
      frames |-> SetCur([Cur EXCEPT !.nodes = e.nodes, !.nn = e.nn, !.stmts = Append(@, stmt)])]
CallOp(c, os) ==
  \E n \in {CallOpNew(c, os)} :
     /\ vals' = n.vals /\ cache' = n.cache /\ gn' = n.gn /\ nc' = nc + 1 /\ frames' = n.frames
     /\ UNCHANGED <<scope, fidc, stage, flags, out>>
DoCallOp == /\ MayCall
            /\ \E o \in Pick(Ops) : \E c \in Pick(IF Sim /\ Target # 0 /\ RandomElement(1..2) = 1 THEN EasyC(Target) ELSE Cands(o)) :
                 (LitOnly => \E i \in 1..Len(c.args) : c.args[i].a = "l") /\ Valid(c) /\
                 \E os \in Pick(OSpecs(IF c.op = "Split" THEN 2 ELSE 1)) : CallOp(c, os)

(* push_module / pop_module *)
Push(n) == /\ stage = "build" /\ "push" \in Kinds /\ Len(scope) < 2 /\ nc < MaxCalls
           /\ scope' = Append(scope, n)
           /\ frames' = SetCur([Cur EXCEPT !.stmts = Append(@, Stmt(nc, "push", n, <<>>, <<>>, NoAt, <<>>, DefSpec, 0, <<>>, 0, "", ""))])
           /\ UNCHANGED <<vals, cache, nc, gn, fidc, stage, flags, out>>
Pop == /\ stage = "build" /\ Len(scope) > Cur.sd
       /\ scope' = SubSeq(scope, 1, Len(scope) - 1)
       /\ frames' = SetCur([Cur EXCEPT !.stmts = Append(@, Stmt(nc, "pop", "", <<>>, <<>>, NoAt, <<>>, DefSpec, 0, <<>>, 0, "", ""))])
       /\ UNCHANGED <<vals, cache, nc, gn, fidc, stage, flags, out>>

-----------------------------------------------------------------------------
(* build_graph: a sub-builder = a new frame with its own node counter; the scope stack is copied *)
NewFrame(kind, pend) == [fid |-> fidc + 1, kind |-> kind, stmts |-> <<>>, nodes |-> <<>>, nn |-> 0, sd |-> Len(scope), pend |-> pend]
MayOpen(kd) == stage = "build" /\ kd \in Kinds /\ Depth <= MaxDepth /\ nc + 1 < MaxCalls
\* build_graph: returned_val.name = declared_val.name, and the declared type / shape are put on the returned value
RenameV(vs, v, nm) == [vs EXCEPT ![v].nm = nm, ![v].dn = nm, ![v].tk = TRUE]
Blk(ins, body, res, nodes) == [ins |-> ins, body |-> body, res |-> res, g |-> [iv |-> ins, nodes |-> nodes, ov |-> res]]
StmtBlk(b) == [ins |-> b.ins, body |-> b.body, res |-> b.res]
PopTo(parent) == SubSeq(frames, 1, Depth - 2) \o <<parent>>
Parent == frames[Depth - 1]

OpenIf(c) == /\ MayOpen("if") /\ c \in BoolV /\ Rk(c) = 0
             /\ frames' = Append(frames, NewFrame("then", [NoPend EXCEPT !.k = nc, !.a = c]))
             /\ fidc' = fidc + 1 /\ nc' = nc + 1
             /\ UNCHANGED <<vals, scope, cache, gn, stage, flags, out>>
CloseThen(r) ==
  /\ stage = "build" /\ Cur.kind = "then" /\ Len(scope) = Cur.sd /\ r \in Produced
  /\ (Sim => \E v \in Vis : vals[v].fr # Cur.fid /\ Compat(r, v))        \* the else branch will be able to answer
  /\ vals' = RenameV(vals, r, "t" \o ToString(Cur.pend.k))
  /\ frames' = SetCur(NewFrame("else", [Cur.pend EXCEPT !.blk = Blk(<<>>, Cur.stmts, <<r>>, Cur.nodes)]))
  /\ fidc' = fidc + 1
  /\ UNCHANGED <<scope, cache, nc, gn, stage, flags, out>>
CloseElseNew(r) ==
  LET tb == Cur.pend.blk
      tr == tb.res[1]
      c == Cur.pend.a
      vals2 == RenameV(vals, r, "e" \o ToString(Cur.pend.k))
      eb == Blk(<<>>, Cur.stmts, <<r>>, Cur.nodes)
      args == <<AV(c)>>
      st == AdaptArgs(Sigs["If"], args, 1, St0(Parent, vals2, cache, gn))
      ot == <<[k \in 1..K |-> IF vals[c].ev[k].data[1] # 0 THEN vals[tr].ev[k] ELSE vals[r].ev[k]]>>
      e == EmitNode("If", "If", "", st, 1, DefSpec, Tk(args) /\ ~Opaque(tb.body) /\ ~Opaque(eb.body), ot, <<tb.g, eb.g>>)
      stmt == Stmt(Cur.pend.k, "if", "If", args, <<"">>, NoAt, e.ov, DefSpec, 0, <<StmtBlk(tb), StmtBlk(eb)>>, 0, "", "")
  IN [ok |-> \A k \in 1..K : SameTS(vals[tr].ev[k], vals[r].ev[k]),
      vals |-> e.vals, cache |-> e.cache, gn |-> e.gn,
      frames |-> PopTo([Parent EXCEPT !.nodes = e.nodes, !.nn = e.nn, !.stmts = Append(@, stmt)])]
CloseElse(r) ==
  /\ stage = "build" /\ Cur.kind = "else" /\ Len(scope) = Cur.sd /\ r \in Produced
  /\ \E n \in {CloseElseNew(r)} : n.ok /\ vals' = n.vals /\ cache' = n.cache /\ gn' = n.gn /\ frames' = n.frames
  /\ UNCHANGED <<scope, nc, fidc, stage, flags, out>>

\* Loop(trip, True, init [, literal]): body (it, cn, st [, s2]) -> (Identity(cn), new st [, Identity(s2)] [, scan output]).
\* A second loop-carried operand is a Python LITERAL (a counter next to an accumulator): v_initial is a heterogeneous
\* variadic formal, so the literal is promoted with its own natural dtype, never like the first carried operand.
CarryLits == CarryMenu \cap {"i0", "i1", "f2", "bT"}
Carry2(l2, kk, f, nm) == IF l2 = "" THEN <<>>
                         ELSE <<Val(DefaultDt(l2), TRUE, nm \o kk, nm \o kk, [k \in 1..K |-> LitT(l2, DefaultDt(l2))], f, FALSE)>>
OpenLoop(trip, init, l2) ==
  /\ MayOpen("loop") /\ init \in Vis
  /\ LET f == fidc + 1 kk == ToString(nc)
         nv == <<Val("i64", TRUE, "it" \o kk, "it" \o kk, [k \in 1..K |-> Scalar("i64", 0)], f, FALSE),
                 Val("bool", TRUE, "cn" \o kk, "cn" \o kk, [k \in 1..K |-> Scalar("bool", 1)], f, FALSE),
                 Val(D(init), TRUE, "st" \o kk, "st" \o kk, vals[init].ev, f, FALSE)>> \o Carry2(l2, kk, f, "s2")
         b == Len(vals)
     IN /\ vals' = vals \o nv
        /\ frames' = Append(frames, NewFrame("loop", [NoPend EXCEPT !.k = nc, !.a = init, !.trip = trip, !.l2 = l2, !.ins = [j \in 1..Len(nv) |-> b + j]]))
  /\ fidc' = fidc + 1 /\ nc' = nc + 1
  /\ UNCHANGED <<scope, cache, gn, stage, flags, out>>
\* emit Identity(v) in the current body graph (the returned tuple evaluates it): returns [st: threaded pieces, v: new value id, stmt]
IdNode(fr, vs, cch, g, v, k) ==
  LET ia == <<AV(v)>>
      st1 == AdaptArgs(Sigs["Identity"], ia, 1, St0(fr, vs, cch, g))
      e1 == EmitNode("Identity", "Identity", "", st1, 1, DefSpec, TRUE, <<vs[v].ev>>, <<>>)
  IN [e |-> e1, v |-> e1.ov[1], stmt |-> Stmt(k, "op", "Identity", ia, <<"">>, NoAt, e1.ov, DefSpec, 0, <<>>, 0, "", "")]
CloseLoopNew(r, sc) ==
  LET p == Cur.pend
      kk == ToString(p.k)
      two == p.l2 # ""
      i1 == IdNode(Cur, vals, cache, gn, p.ins[2], p.k)                                      \* op.Identity(cn)
      fr2 == [Cur EXCEPT !.nodes = i1.e.nodes, !.nn = i1.e.nn]
      i2 == IF two THEN IdNode(fr2, i1.e.vals, i1.e.cache, i1.e.gn, p.ins[4], p.k) ELSE i1    \* op.Identity(s2)
      co == i1.v
      res == <<co, r>> \o (IF two THEN <<i2.v>> ELSE <<>>) \o (IF sc = 0 THEN <<>> ELSE <<sc>>)
      v1 == RenameV(RenameV(i2.e.vals, co, "co" \o kk), r, "so" \o kk)
      v1b == IF two THEN RenameV(v1, i2.v, "to" \o kk) ELSE v1
      v2 == IF sc = 0 THEN v1b ELSE RenameV(v1b, sc, "sc" \o kk)
      blk == Blk(p.ins, Cur.stmts \o <<i1.stmt>> \o (IF two THEN <<i2.stmt>> ELSE <<>>), res, i2.e.nodes)
      inits == [k \in 1..K |-> <<vals[p.a].ev[k]>> \o (IF two THEN <<LitT(p.l2, DefaultDt(p.l2))>> ELSE <<>>)]
      ev == [k \in 1..K |-> LoopIter(blk, EnvNow(v2, k), 0, p.trip, inits[k], <<>>)]
      ncar == IF two THEN 2 ELSE 1
      ot == [j \in 1..ncar |-> [k \in 1..K |-> IF ev[k][3] THEN ERR ELSE ev[k][1][j]]]
            \o (IF sc = 0 THEN <<>> ELSE <<[k \in 1..K |-> IF ev[k][3] THEN ERR ELSE StackT(ev[k][2])]>>)
      args == <<AL("i" \o ToString(p.trip)), AL("bT"), AV(p.a)>> \o (IF two THEN <<AL(p.l2)>> ELSE <<>>)
      os == IF Len(ot) = 1 THEN DefSpec ELSE [m |-> "cnt", names |-> <<>>]
      ok == /\ \A k \in 1..K : SameTS(vals[r].ev[k], vals[p.a].ev[k])
            /\ \A i \in 1..Len(ot) : \A k \in 1..K : OkT(ot[i][k])
      st == AdaptArgs(Sigs["Loop"], args, 1, St0(Parent, v2, i2.e.cache, i2.e.gn))
      e == EmitNode("Loop", "Loop", "", st, Len(ot), os, Tk(args) /\ ~Opaque(blk.body), ot, <<blk.g>>)
      stmt == Stmt(p.k, "loop", "Loop", args, Pdt(Sigs["Loop"], args), NoAt, e.ov, os, 0, <<StmtBlk(blk)>>, 0, "", "")
  IN IF ~ok THEN [ok |-> FALSE]
     ELSE [ok |-> TRUE, vals |-> e.vals, cache |-> e.cache, gn |-> e.gn,
           frames |-> PopTo([Parent EXCEPT !.nodes = e.nodes, !.nn = e.nn, !.stmts = Append(@, stmt)])]
CloseLoop(r, sc) ==
  /\ stage = "build" /\ Cur.kind = "loop" /\ Len(scope) = Cur.sd /\ r \in Produced
  /\ (sc = 0 \/ (sc \in Produced /\ sc # r /\ Cur.pend.trip >= 1))
  /\ \E n \in {CloseLoopNew(r, sc)} : n.ok /\ vals' = n.vals /\ cache' = n.cache /\ gn' = n.gn /\ frames' = n.frames
  /\ UNCHANGED <<scope, nc, fidc, stage, flags, out>>

\* Scan(init [, literal], xs, num_scan_inputs=1): body (st [, s2], xi) -> (new st [, Identity(s2)], scan output)
OpenScan(init, xs, l2) ==
  /\ MayOpen("scan") /\ init \in NumV /\ xs \in NumV /\ Rk(xs) >= 1 /\ Rk(init) <= 1
  /\ LET f == fidc + 1 kk == ToString(nc)
         nv == <<Val(D(init), TRUE, "ss" \o kk, "ss" \o kk, vals[init].ev, f, FALSE)>> \o Carry2(l2, kk, f, "s2")
                \o <<Val(D(xs), TRUE, "xi" \o kk, "xi" \o kk, [k \in 1..K |-> RowT(vals[xs].ev[k], 0)], f, FALSE)>>
         b == Len(vals)
     IN /\ vals' = vals \o nv
        /\ frames' = Append(frames, NewFrame("scan", [NoPend EXCEPT !.k = nc, !.a = init, !.b = xs, !.l2 = l2, !.ins = [j \in 1..Len(nv) |-> b + j]]))
  /\ fidc' = fidc + 1 /\ nc' = nc + 1
  /\ UNCHANGED <<scope, cache, gn, stage, flags, out>>
CloseScanNew(r, sc) ==
  LET p == Cur.pend
      kk == ToString(p.k)
      two == p.l2 # ""
      i2 == IF two THEN IdNode(Cur, vals, cache, gn, p.ins[2], p.k)
            ELSE [e |-> [vals |-> vals, cache |-> cache, gn |-> gn, nodes |-> Cur.nodes], v |-> 0, stmt |-> 0]
      res == <<r>> \o (IF two THEN <<i2.v>> ELSE <<>>) \o <<sc>>
      v1 == RenameV(RenameV(i2.e.vals, r, "so" \o kk), sc, "sc" \o kk)
      v2 == IF two THEN RenameV(v1, i2.v, "to" \o kk) ELSE v1
      blk == Blk(p.ins, Cur.stmts \o (IF two THEN <<i2.stmt>> ELSE <<>>), res, i2.e.nodes)
      inits == [k \in 1..K |-> <<vals[p.a].ev[k]>> \o (IF two THEN <<LitT(p.l2, DefaultDt(p.l2))>> ELSE <<>>)]
      ev == [k \in 1..K |-> ScanIter(blk, EnvNow(v2, k), 0, vals[p.b].ev[k], inits[k], <<>>)]
      ns == IF two THEN 2 ELSE 1
      ot == [j \in 1..ns |-> [k \in 1..K |-> IF ev[k][3] THEN ERR ELSE ev[k][1][j]]] \o <<[k \in 1..K |-> IF ev[k][3] THEN ERR ELSE StackT(ev[k][2])]>>
      args == <<AV(p.a)>> \o (IF two THEN <<AL(p.l2)>> ELSE <<>>) \o <<AV(p.b)>>
      at == [num_scan_inputs |-> 1]
      os == [m |-> "cnt", names |-> <<>>]
      ok == /\ \A k \in 1..K : SameTS(vals[r].ev[k], vals[p.a].ev[k])
            /\ \A i \in 1..Len(ot) : \A k \in 1..K : OkT(ot[i][k])
      st == AdaptArgs(Sigs["Scan"], args, 1, St0(Parent, v2, i2.e.cache, i2.e.gn))
      e == EmitNode("Scan", "Scan", "", st, Len(ot), os, Tk(args) /\ ~Opaque(blk.body), ot, <<blk.g>>)
      stmt == Stmt(p.k, "scan", "Scan", args, Pdt(Sigs["Scan"], args), at, e.ov, os, 0, <<StmtBlk(blk)>>, 0, "", "")
  IN IF ~ok THEN [ok |-> FALSE]
     ELSE [ok |-> TRUE, vals |-> e.vals, cache |-> e.cache, gn |-> e.gn,
           frames |-> PopTo([Parent EXCEPT !.nodes = e.nodes, !.nn = e.nn, !.stmts = Append(@, stmt)])]
CloseScan(r, sc) ==
  /\ stage = "build" /\ Cur.kind = "scan" /\ Len(scope) = Cur.sd /\ r \in Produced /\ sc \in Produced /\ sc # r
  /\ \E n \in {CloseScanNew(r, sc)} : n.ok /\ vals' = n.vals /\ cache' = n.cache /\ gn' = n.gn /\ frames' = n.frames
  /\ UNCHANGED <<scope, nc, fidc, stage, flags, out>>

-----------------------------------------------------------------------------
(* GraphBuilder.call: ONE function node; arguments adapted like op inputs without a like-type *)
SigF(n) == [i \in 1..n |-> [tv |-> "", concrete |-> TRUE, variadic |-> FALSE, homo |-> TRUE]]
FnArgs(fd) ==      \* values of one admissible dtype; the last argument may be an int literal beside INT64 values
  LET VS == {v \in NumV : D(v) \in {fd.dts[i] : i \in 1..Len(fd.dts)}} IN
  IF fd.nin = 1 THEN {<<AV(a)>> : a \in VS}
  ELSE {<<AV(p[1]), AV(p[2])>> : p \in {p \in VS \X VS : D(p[1]) = D(p[2])}}
       \cup {<<AV(a), AL("i2")>> : a \in {v \in VS : D(v) = "i64"}}
AModes(fd) == IF ~fd.hasattr THEN {"none"} ELSE (IF fd.hasdefault THEN {"omit"} ELSE {}) \cup {"py", "attr"}
FnAt(amode) == IF amode \in {"py", "attr"} THEN [alpha |-> 2] ELSE NoAt
FnResults(f, args, amode) ==
  [k \in 1..K |-> FSem(Funcs[f].tag, ArgTs(SigF(Len(args)), args, k), IF amode = "omit" THEN Funcs[f].default ELSE 2)]
FnValid(f, args, amode) == LET r == FnResults(f, args, amode) IN \A k \in 1..K : \A i \in 1..Len(r[k]) : OkT(r[k][i])

CallFnNew(f, args, amode, os) ==
  LET fd == Funcs[f]
      st == AdaptArgs(SigF(Len(args)), args, 1, St0(Cur, vals, cache, gn))
      ot == Transp(FnResults(f, args, amode))
      e == EmitNode(fd.name, fd.name, fd.domain, st, fd.nout, os, FALSE, ot, <<>>)      \* no inference through a function node
      stmt == Stmt(nc, "call", fd.name, args, Pdt(SigF(Len(args)), args), FnAt(amode), e.ov, os, 0, <<>>, f, amode, "")
  IN [vals |-> e.vals, cache |-> e.cache, gn |-> e.gn,
      frames |-> SetCur([Cur EXCEPT !.nodes = e.nodes, !.nn = e.nn, !.stmts = Append(@, stmt)])]
CallFn(f, args, amode, os) ==
  \E n \in {CallFnNew(f, args, amode, os)} :
     /\ vals' = n.vals /\ cache' = n.cache /\ gn' = n.gn /\ nc' = nc + 1 /\ frames' = n.frames
     /\ UNCHANGED <<scope, fidc, stage, flags, out>>
DoCallFn == /\ MayCall /\ "call" \in Kinds
            /\ \E f \in Pick(FnMenu \cap 1..Len(Funcs)) : \E am \in Pick(AModes(Funcs[f])) :
                 \E args \in Pick(FnArgs(Funcs[f])) : FnValid(f, args, am) /\ \E os \in Pick(OSpecs(Funcs[f].nout)) : CallFn(f, args, am, os)

(* GraphBuilder.call_inline + _inliner.instantiate: the body nodes are cloned into the current graph *)
\* mp: local value index of the function body -> [v: value id or 0, c: constant name]
RECURSIVE InlineNodes(_, _, _, _, _, _)
InlineNodes(fd, j, st, mp, nm, ot) ==      \* nm: [sc2, pi, pd, os]; ot: tensors of the function outputs
  IF j > Len(fd.nodes) THEN [st |-> st, mp |-> mp]
  ELSE LET nd == fd.nodes[j]
           base == Len(st.vals)
           IsOut(x) == \E o \in 1..Len(fd.outputs) : fd.outputs[o] = x
           OutPos(x) == CHOOSE o \in 1..Len(fd.outputs) : fd.outputs[o] = x
           NmOf(o, pfx) == IF IsOut(nd.outs[o][2]) /\ nm.os.m = "names" THEN ValPrefix(scope) \o nm.os.names[OutPos(nd.outs[o][2])]
                           ELSE ValPrefix(nm.sc2) \o pfx \o nd.outs[o][1]
           nv == [o \in 1..Len(nd.outs) |->
                    IF IsOut(nd.outs[o][2])
                    THEN Val(ot[OutPos(nd.outs[o][2])][1].dt, st.tk, NmOf(o, nm.pi), NmOf(o, nm.pd), ot[OutPos(nd.outs[o][2])], st.fid, FALSE)
                    ELSE Val("i64", st.tk, NmOf(o, nm.pi), NmOf(o, nm.pd), [k \in 1..K |-> Scalar("i64", 0)], st.fid, TRUE)]
           node == Node(nm.pi \o nd.name, nm.pd \o nd.name, nd.op, "", [i \in 1..Len(nd.iv) |-> IF nd.iv[i] = 0 THEN 0 ELSE mp[nd.iv[i]].v],
                        [i \in 1..Len(nd.iv) |-> IF nd.iv[i] = 0 THEN "" ELSE mp[nd.iv[i]].c], [o \in 1..Len(nd.outs) |-> base + o], <<>>)
           mp2 == [x \in 1..Len(mp) |-> IF \E o \in 1..Len(nd.outs) : nd.outs[o][2] = x
                                          THEN [v |-> base + (CHOOSE o \in 1..Len(nd.outs) : nd.outs[o][2] = x), c |-> ""] ELSE mp[x]]
       IN InlineNodes(fd, j + 1, [st EXCEPT !.nodes = Append(@, node), !.nn = @ + 1, !.gn = @ + 1, !.vals = @ \o nv], mp2, nm, ot)

InlineFnNew(f, args, amode, pfx, os) ==
  LET fd == Funcs[f]
      raw == amode = "py" \/ \E i \in 1..Len(args) : args[i].a = "l"
      st0 == AdaptArgs(SigF(Len(args)), args, 1, St0(Cur, vals, cache, gn))    \* design: arguments adapted as in call()
      sc2 == IF pfx = "" THEN scope ELSE Append(scope, pfx)
      pi == NodePrefix(sc2) \o fd.name \o "_node_" \o ToString(st0.nn) \o "/"
      pd == NodePrefix(sc2) \o fd.name \o "_node_" \o ToString(st0.gn) \o "/"
      mp0 == [x \in 1..fd.nvals |-> IF x <= Len(args) THEN [v |-> st0.iv[x], c |-> st0.cn[x]] ELSE [v |-> 0, c |-> ""]]
      ot == Transp(FnResults(f, args, amode))
      tk == Tk(args) /\ ~(amode = "omit" /\ fd.hasattr /\ Dev("inline_default_attr_dropped"))
      r == InlineNodes(fd, 1, [st0 EXCEPT !.cn = <<>>, !.iv = <<>>] @@ [tk |-> tk], mp0, [sc2 |-> sc2, pi |-> pi, pd |-> pd, os |-> os], ot)
      ovs == [o \in 1..fd.nout |-> r.mp[fd.outputs[o]].v]
      stmt == Stmt(nc, "inline", fd.name, args, Pdt(SigF(Len(args)), args), FnAt(amode), ovs, os, 0, <<>>, f, amode, pfx)
  IN [raw |-> raw, vals |-> r.st.vals, cache |-> r.st.cache, gn |-> r.st.gn,
      frames |-> SetCur([Cur EXCEPT !.nodes = r.st.nodes, !.nn = r.st.nn, !.stmts = Append(@, stmt)]),
      flags |-> flags \cup (IF raw THEN {"inline_raw_python_args"} ELSE {})
                      \cup (IF amode = "omit" /\ fd.hasattr THEN {"inline_default_attr_dropped"} ELSE {})]
InlineFn(f, args, amode, pfx, os) ==
  \E n \in {InlineFnNew(f, args, amode, pfx, os)} :
     /\ (n.raw => Depth = 1 /\ scope = <<>> /\ Coin(4))
     /\ vals' = n.vals /\ cache' = n.cache /\ gn' = n.gn /\ nc' = nc + 1 /\ frames' = n.frames /\ flags' = n.flags
     /\ stage' = IF n.raw THEN "final" ELSE stage         \* the code raises here: nothing can follow
     /\ UNCHANGED <<scope, fidc, out>>
DoInlineFn == /\ MayCall /\ "inline" \in Kinds
              /\ \E f \in Pick(FnMenu \cap 1..Len(Funcs)) : \E am \in Pick(AModes(Funcs[f])) :
                   \E args \in Pick(FnArgs(Funcs[f])) : FnValid(f, args, am) /\
                     \E pfx \in Pick({"", "inl"}) : \E os \in Pick({DefSpec, [m |-> "names", names |-> [i \in 1..Funcs[f].nout |-> "o" \o ToString(nc) \o (IF i = 1 THEN "a" ELSE "b")]]}) :
                       InlineFn(f, args, am, pfx, os)

-----------------------------------------------------------------------------
(* the graph by NAME: projection to Graph.tla, name resolution, node names *)
NameOf(v, design) == IF design THEN vals[v].dn ELSE vals[v].nm
RECURSIVE ProjNodes(_, _), ProjSubs(_, _)
ProjSubs(subs, design) == [j \in 1..Len(subs) |->
   [inputs |-> [i \in 1..Len(subs[j].iv) |-> NameOf(subs[j].iv[i], design)], inits |-> <<>>,
    nodes |-> ProjNodes(subs[j].nodes, design), outputs |-> [i \in 1..Len(subs[j].ov) |-> NameOf(subs[j].ov[i], design)]]]
ProjNodes(nodes, design) == [n \in 1..Len(nodes) |->
   [ins |-> [i \in 1..Len(nodes[n].iv) |-> IF nodes[n].iv[i] # 0 THEN NameOf(nodes[n].iv[i], design) ELSE nodes[n].cn[i]],
    outs |-> [i \in 1..Len(nodes[n].ov) |-> NameOf(nodes[n].ov[i], design)],
    subs |-> ProjSubs(nodes[n].subs, design), dom |-> nodes[n].dom]]
NInputs == 4
ProjMain(nodes, outs, design) ==
   [inputs |-> [i \in 1..NInputs |-> vals[i].nm], inits |-> [i \in 1..Len(cache) |-> cache[i].nm],
    nodes |-> ProjNodes(nodes, design), outputs |-> [i \in 1..Len(outs) |-> NameOf(outs[i], design)]]
RECURSIVE NodeNames(_, _)
NodeNames(nodes, design) == IF nodes = <<>> THEN <<>>
   ELSE LET h == Head(nodes)
            RECURSIVE SubNames(_)
            SubNames(ss) == IF ss = <<>> THEN <<>> ELSE NodeNames(Head(ss).nodes, design) \o SubNames(Tail(ss))
        IN <<IF design THEN h.dn ELSE h.nm>> \o SubNames(h.subs) \o NodeNames(Tail(nodes), design)
\* every use resolves, by ONNX scoping (innermost, most recent definition of the name), to the value the trace passed
Lookup(env, nm) == LET S == {i \in 1..Len(env) : env[i][1] = nm} IN IF S = {} THEN 0 ELSE env[CHOOSE i \in S : \A j \in S : j <= i][2]
RECURSIVE ResNodes(_, _, _)
ResNodes(nodes, env, design) ==
  IF nodes = <<>> THEN TRUE
  ELSE LET h == Head(nodes)
           RECURSIVE ResSubs(_)
           ResSubs(ss) == ss = <<>> \/ (ResNodes(Head(ss).nodes, env \o [i \in 1..Len(Head(ss).iv) |-> <<NameOf(Head(ss).iv[i], design), Head(ss).iv[i]>>], design)
                                        /\ ResSubs(Tail(ss)))
       IN /\ \A i \in 1..Len(h.iv) : h.iv[i] # 0 => Lookup(env, NameOf(h.iv[i], design)) = h.iv[i]
          /\ ResSubs(h.subs)
          /\ ResNodes(Tail(nodes), env \o [i \in 1..Len(h.ov) |-> <<NameOf(h.ov[i], design), h.ov[i]>>], design)
\* no definition (node output, subgraph input) repeats a name visible at that point (ONNX: the model is invalid)
\* A subgraph may not define a name that is visible around it: the enclosing graphs' inputs / initializers and the outputs of
\* EVERY other node of the graph that holds it (onnxruntime also counts the nodes that come later), only the outputs of the
\* node carrying the subgraph itself are tolerated.
OutsOf(nd, design) == {NameOf(nd.ov[i], design) : i \in 1..Len(nd.ov)}
RECURSIVE NoShadowFrom(_, _, _, _, _)
NoShadow(nodes, outer, design) == NoShadowFrom(nodes, 1, outer, UNION {OutsOf(nodes[j], design) : j \in 1..Len(nodes)}, design)
NoShadowFrom(nodes, j, seen, allouts, design) ==
  IF j > Len(nodes) THEN TRUE
  ELSE LET h == nodes[j]
           outs == OutsOf(h, design)
           others == UNION {OutsOf(nodes[m], design) : m \in (1..Len(nodes)) \ {j}}
           RECURSIVE ShSubs(_)
           ShSubs(ss) == ss = <<>> \/ ((LET ins == {NameOf(Head(ss).iv[i], design) : i \in 1..Len(Head(ss).iv)}
                                            around == seen \cup others
                                        IN ins \cap around = {} /\ NoShadow(Head(ss).nodes, around \cup ins, design)) /\ ShSubs(Tail(ss)))
       IN outs \cap seen = {} /\ Cardinality(outs) = Len(h.ov) /\ ShSubs(h.subs) /\ NoShadowFrom(nodes, j + 1, seen \cup outs, allouts, design)
\* the weaker reading: only names defined BEFORE the subgraph's node count as visible
RECURSIVE NoShadowBefore(_, _, _)
NoShadowBefore(nodes, seen, design) ==
  IF nodes = <<>> THEN TRUE
  ELSE LET h == Head(nodes)
           outs == OutsOf(h, design)
           RECURSIVE ShSubs(_)
           ShSubs(ss) == ss = <<>> \/ ((LET ins == {NameOf(Head(ss).iv[i], design) : i \in 1..Len(Head(ss).iv)} IN
                                           ins \cap seen = {} /\ NoShadowBefore(Head(ss).nodes, seen \cup ins, design)) /\ ShSubs(Tail(ss)))
       IN outs \cap seen = {} /\ Cardinality(outs) = Len(h.ov) /\ ShSubs(h.subs) /\ NoShadowBefore(Tail(nodes), seen \cup outs, design)
Imports == <<<<"", 21>>>> \o [i \in 1..Len(Funcs) |-> <<Funcs[i].domain, 1>>]
GraphOK(nodes, outs, design) ==
  [wf |-> WFWhy(ProjMain(nodes, outs, design), Imports),
   res |-> ResNodes(nodes, [i \in 1..NInputs |-> <<vals[i].nm, i>>], design),
   nn |-> NoDup(NodeNames(nodes, design)),
   nosh |-> NoShadow(nodes, {vals[i].nm : i \in 1..NInputs} \cup {cache[i].nm : i \in 1..Len(cache)}, design),
   noshb |-> NoShadowBefore(nodes, {vals[i].nm : i \in 1..NInputs} \cup {cache[i].nm : i \in 1..Len(cache)}, design)]
AllOK(g) == g.wf[1] /\ g.wf[2] /\ g.wf[3] /\ g.wf[4] /\ g.res /\ g.nn /\ g.nosh
Loadable(g) == g.wf[2] /\ g.wf[3] /\ g.wf[4] /\ g.res /\ g.nosh       \* what a runtime needs; names may still repeat between sibling subgraphs
Rejected(g) == ~(g.wf[2] /\ g.wf[3] /\ g.wf[4] /\ g.res /\ g.noshb)        \* a subgraph redefines a name already defined around it

-----------------------------------------------------------------------------
(* Finish: the unused top-level values become the graph outputs *)
RECURSIVE SortedSeq(_)
SortedSeq(S) == IF S = {} THEN <<>> ELSE LET m == CHOOSE x \in S : \A y \in S : x <= y IN <<m>> \o SortedSeq(S \ {m})
RECURSIVE UsedIn(_)
UsedIn(ss) == IF ss = <<>> THEN {}
  ELSE LET s == Head(ss) IN {s.args[i].v : i \in 1..Len(s.args)} \cup UNION {UsedIn(s.subs[j].body) : j \in 1..Len(s.subs)} \cup UsedIn(Tail(ss))
FinishOut ==
  LET main == frames[1]
      used == UsedIn(main.stmts)
      leaves == SortedSeq({v \in 1..Len(vals) : vals[v].fr = 1 /\ ~vals[v].hid /\ v \notin used})
      exp == [k \in 1..K |-> LET env == EvalStmts(main.stmts, [v \in 1..(Len(vals) + 1) |-> IF v <= NInputs THEN vals[v].ev[k] ELSE IF v <= Len(vals) THEN ERR ELSE OKMARK])
                             IN [i \in 1..Len(leaves) |-> IF Poisoned(env) THEN ERR ELSE env[leaves[i]]]]
      ok == leaves # <<>> /\ \A k \in 1..K : \A i \in 1..Len(leaves) : OkT(exp[k][i])
      gi == GraphOK(main.nodes, leaves, FALSE)
      gd == GraphOK(main.nodes, leaves, TRUE)
      dropped == "inline_default_attr_dropped" \in flags /\ Dev("inline_default_attr_dropped")
      raised == "inline_raw_python_args" \in flags /\ Dev("inline_raw_python_args")
      gimpl == IF Dev("subgraph_name_reuse") THEN gi ELSE gd
  IN IF ~ok THEN [ok |-> FALSE]
     ELSE [ok |-> TRUE, out |->
            [prog |-> main.stmts, outs |-> leaves, exp |-> exp,
             consistent |-> \A k \in 1..K : \A i \in 1..Len(leaves) : exp[k][i] = vals[leaves[i]].ev[k],
             names |-> [v \in 1..Len(vals) |-> [nm |-> vals[v].nm, dn |-> vals[v].dn, hid |-> vals[v].hid, dt |-> vals[v].dt, tk |-> vals[v].tk,
                                                   shape |-> vals[v].ev[1].shape]],
             nodes |-> main.nodes, inits |-> cache,
             impl |-> gimpl, design |-> gd,
             \* "either": a subgraph repeats a name that its enclosing graph defines only LATER - runtimes differ on that
             outcome |-> IF raised THEN "raise" ELSE IF dropped \/ Rejected(gimpl) THEN "invalid" ELSE IF Loadable(gimpl) THEN "ok" ELSE "either",
             uniq |-> AllOK(gimpl),
             why |-> (flags \cap Deviations) \cup (IF Dev("subgraph_name_reuse") /\ ~AllOK(gi) /\ AllOK(gd) THEN {"subgraph_name_reuse"} ELSE {})]]
Finish ==
  /\ stage \in {"build", "final"} /\ Depth = 1 /\ scope = <<>> /\ nc >= 1
  /\ (Sim => (nc >= MaxCalls \/ stage = "final" \/ (nc >= 2 /\ RandomElement(1..4) = 1)))
  /\ \E n \in {FinishOut} : n.ok /\ out' = n.out
  /\ stage' = "done"
  /\ UNCHANGED <<vals, frames, scope, cache, nc, gn, fidc, flags>>

-----------------------------------------------------------------------------
InputVals == <<Val("i64", TRUE, "x", "x", <<T("i64", <<2>>, <<1, -2>>), T("i64", <<2>>, <<3, 0>>)>>, 0, FALSE),
               Val("i64", TRUE, "m", "m", <<T("i64", <<2, 2>>, <<1, 2, 3, 4>>), T("i64", <<2, 2>>, <<0, -1, 2, 5>>)>>, 0, FALSE),
               Val("f32", TRUE, "f", "f", <<T("f32", <<2>>, <<2, -1>>), T("f32", <<2>>, <<0, 3>>)>>, 0, FALSE),
               Val("bool", TRUE, "c", "c", <<T("bool", <<>>, <<1>>), T("bool", <<>>, <<0>>)>>, 0, FALSE)>>
Init == /\ vals = InputVals
        /\ frames = <<[fid |-> 1, kind |-> "main", stmts |-> <<>>, nodes |-> <<>>, nn |-> 0, sd |-> 0, pend |-> NoPend]>>
        /\ scope = <<>> /\ cache = <<>> /\ nc = 0 /\ gn = 0 /\ fidc = 1 /\ stage = "build" /\ flags = {} /\ out = [outcome |-> "none"]
Next == \/ \E i \in (IF Sim THEN 1..3 ELSE {1}) : DoCallOp
        \/ Coin(4) /\ \E n \in Pick({"blk", "layer"}) : Push(n)
        \/ Pop
        \/ \E c \in Pick({v \in BoolV : Rk(v) = 0}) : OpenIf(c)
        \/ \E r \in Pick(IF stage = "build" /\ Cur.kind = "then" THEN Produced ELSE {}) : CloseThen(r)
        \/ \E r \in Pick(IF stage = "build" /\ Cur.kind = "else" THEN {r \in Produced : Compat(r, Cur.pend.blk.res[1])} ELSE {}) : CloseElse(r)
        \/ Coin(2) /\ \E t \in Pick(Trips) : \E v \in Pick(Vis) : \E l2 \in Pick({""} \cup CarryLits) : OpenLoop(t, v, l2)
        \/ \E r \in Pick(IF stage = "build" /\ Cur.kind = "loop" THEN {r \in Produced : Compat(r, Cur.pend.a)} ELSE {}) : \E sc \in Pick({0} \cup Produced) : CloseLoop(r, sc)
        \/ Coin(2) /\ \E a \in Pick(NumV) : \E b \in Pick(NumV) : \E l2 \in Pick({""} \cup CarryLits) : OpenScan(a, b, l2)
        \/ \E r \in Pick(IF stage = "build" /\ Cur.kind = "scan" THEN {r \in Produced : Compat(r, Cur.pend.a)} ELSE {}) : \E sc \in Pick(Produced) : CloseScan(r, sc)
        \/ Coin(3) /\ DoCallFn
        \/ Coin(2) /\ DoInlineFn
        \/ Finish
Spec == Init /\ [][Next]_vars

-----------------------------------------------------------------------------
(* properties *)
Done == stage = "done"
\* design level: with the shared counter and call-like argument handling the graph is well-formed, names are unique,
\* every use resolves to the traced value, and the replay is the meaning computed step by step
DesignOK == Done => AllOK(out.design) /\ out.consistent
\* the implementation model departs from the property only where a named deviation says so
DeviationsExplain == Done => ((out.outcome # "ok" \/ ~out.uniq) => out.why # {})
ScopeBalanced == Done => scope = <<>>
\* with no deviation the implementation model IS the design: every case is valid and unique
ImplIsDesign == Done => out.outcome = "ok" /\ out.uniq /\ out.why = {}
Report == Done => PrintT(<<"CASE", ToJson(out)>>)
\* vacuity witnesses (expected to be VIOLATED)
NeverClash == ~(Done /\ "subgraph_name_reuse" \in out.why)
NeverNested == ~(Done /\ \E i \in 1..Len(out.prog) : out.prog[i].kind \in {"if", "loop", "scan"})
NeverInline == ~(Done /\ \E i \in 1..Len(out.prog) : out.prog[i].kind = "inline" /\ out.outcome = "ok")
NeverCastLike == ~(Done /\ \E v \in 1..Len(out.names) : out.names[v].hid /\ ~out.names[v].tk)
=============================================================================
