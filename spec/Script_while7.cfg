SPECIFICATION Spec
CONSTANTS
  Deviations <- RealDevs
  MaxNodes = 7
  MinNodes = 4
  MaxDepth = 1
  MaxBlock = 4
  Kinds <- WhileBrkKinds
  Tiny = TRUE
  Ops = FALSE
  Rich = FALSE
INVARIANT DesignFaithful
INVARIANT DeviationsExplain
INVARIANT Emit
CHECK_DEADLOCK FALSE
