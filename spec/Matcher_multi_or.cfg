SPECIFICATION Spec
CONSTANTS
  Deviations <- RealDevs
  MaxPNodes = 2
  Features <- MultiOr
  OpSet <- AllOps
  VarVals <- Vals2
INVARIANT DesignOK
INVARIANT DeviationsExplain
INVARIANT Emit
CHECK_DEADLOCK FALSE
