SPECIFICATION Spec
CONSTANTS
  Deviations <- RealDevs
INVARIANT SomeSubByteTyped
CHECK_DEADLOCK FALSE
