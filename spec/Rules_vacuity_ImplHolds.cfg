SPECIFICATION Spec
CONSTANTS
  Deviations <- AllDevs
  Families = {"relus_clips", "transposes"}
  Menu = "quick"
INVARIANT ImplHolds
CHECK_DEADLOCK FALSE
