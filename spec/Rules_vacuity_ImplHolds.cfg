SPECIFICATION Spec
CONSTANTS
  Deviations <- AllDevs
  Families = {"relus_clips", "transposes", "slice_split"}
  Menu = "quick"
INVARIANT ImplHolds
CHECK_DEADLOCK FALSE
