SPECIFICATION Spec
CONSTANTS
  Deviations <- AllDevs
  Families <- AllFamilies
  Menu = "quick"
INVARIANT ImplHolds
CHECK_DEADLOCK FALSE
