SPECIFICATION Spec
CONSTANTS
  KwShapes = "ends"
  Deviations <- NoDevs
INVARIANT BindsCorrectly
INVARIANT MachineSane
CHECK_DEADLOCK FALSE
