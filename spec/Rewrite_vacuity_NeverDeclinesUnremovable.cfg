SPECIFICATION Spec
CONSTANTS
  Deviations <- RealDevs
  RuleSets <- VacuitySets
  MaxDepth = 2
  Wide = FALSE
INVARIANT NeverDeclinesUnremovable
CHECK_DEADLOCK FALSE
