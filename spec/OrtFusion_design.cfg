SPECIFICATION Spec
CONSTANTS
  Deviations <- NoDevs
  Fams <- FamsAll
  Modes <- ModesAll
  Big = FALSE
INVARIANT DesignOK
INVARIANT ProtocolOK
CHECK_DEADLOCK FALSE
