------------------------------ MODULE ProtoIR ------------------------------
(* C15: a ModelProto and an ir.Model are treated alike; nothing untouched is lost.               *)
(*                                                                                                *)
(* A model is a function from *carriers* to tokens ("none" absent, "v" the value the caller put   *)
(* there, "x" a value produced by the transformation, "vv"/"vvv" a repeated field holding its     *)
(* entries two / three times).  A case = (api, populated carriers, structural features of the     *)
(* host graph).  The behaviour first builds the case switch by switch (Extend), then executes     *)
(* the *proto wrapper of the api exactly as written* - one action per statement:                  *)
(*    optimize            deserialize_model; optimize_ir (pass by pass); serialize_model; return   *)
(*    rewrite             empty rule list => return the argument; else deserialize; PassManager;   *)
(*                        serialize; return                                                        *)
(*    fold_constants,                                                                             *)
(*    remove_unused_*     deserialize; pass; serialize; model_proto.Clear(); CopyFrom(new)          *)
(*    convert_version     ir.from_proto; ConvertVersionPass (inline/convert/cleanup);              *)
(*                        model_proto.graph.Clear(); del functions[:]; graph.CopyFrom(to_proto(g)) *)
(*    replace_functions   ir.from_proto; add functions; InlinePass; RemoveUnusedOpsets; to_proto    *)
(* The IR entry point of the same api is the same pass pipeline applied to Deser(M).              *)
(* (fold_constants is explored twice: default arguments and onnx_shape_inference=True, so that     *)
(* argument forwarding of the wrapper is observable.)  The tensor-payload half of the property      *)
(* (element types x storage forms) is TensorPayload.tla.                                           *)
(* Deserialisation is modelled with aliasing: the IR wraps the caller's TensorProtos, so a pass    *)
(* that renames an initializer writes into the caller's proto (`shared`).                          *)
(*                                                                                                *)
(* Every wrapper is executed in lock-step under several deviation sets (variants): "impl"         *)
(* (= Deviations, what the code really does), "ideal" (= {}, the design) and, for each d in        *)
(* Deviations, Deviations \ {d} (to attribute a departure to a named deviation).                   *)
EXTENDS Integers, Sequences, FiniteSets, TLC, Json

CONSTANTS Deviations,     \* subset of AllDevs
          Apis,           \* apis explored
          MaxSparse,      \* cases with at most this many switches on ...
          MaxDense        \* ... and cases with at most this many switches off

AllDevs == {"proto_opset_stale",    \* convert_version(ModelProto) copies back the graph only
            "proto_arg_mutated",    \* deserialisation shares TensorProtos: renaming writes through
            "tensor_meta_dup",      \* serialising a proto-backed tensor appends its metadata_props again
            "capi_fallback_drops_metadata"}  \* convert_version(fallback=True) through the ONNX C API: the graph comes back
                                             \* without metadata_props, attribute docs and docs of inputs / value_info

-----------------------------------------------------------------------------
(* carriers *)
PopCarriers == {"ir_version", "producer", "modelid", "model_doc", "model_meta", "opset_unused",
                "graph_doc", "graph_meta", "io_meta", "node_doc", "node_meta", "attr_doc",
                "value_info", "vi_meta", "init_doc", "init_meta", "func_meta"}
Features == {"foldable", "deadnode", "call", "deadfunc", "rewritable", "subgraph", "init_io",
             "symdims",    \* connected values declare one extent under different dim_param names (joined by an Identity)
             "norev",      \* a Mish node (new in opset 18: "No Previous Version"): the ONNX C API REFUSES 18 -> 17, the pass logs
                           \* "the model was not modified" and the wrapper must hand back an unchanged model (session 6)
             "constif"}    \* two Ifs with constant condition; each taken branch owns an initializer "w" shadowing
                           \* the main-graph "w", whose first fresh name "w_1" is taken too
Switches == PopCarriers \cup Features
\* structure that is always there: the witness payload, the rest of the node list / initializer
\* list, the interface, the opset imports in use, the two possible model-local functions
StructCarriers == {"opset_main", "opset_custom", "opset_local", "fnF", "fnG", "graph_name", "io_sig",
                   "init_payload", "nodes", "inits", "vi_implied",
                   "sym_dims"}    \* declared symbolic dimension names of graph inputs / outputs / value_info
Hidden == {"callsite", "shadow"}   \* "shadow": the shadowing branch initializers of "constif" still exist                      \* not observed on its own (part of "nodes")
Carriers == PopCarriers \cup StructCarriers \cup Hidden
Observed == Carriers \ Hidden
ModelLevel == {"ir_version", "producer", "modelid", "model_doc", "model_meta", "opset_unused",
               "opset_main", "opset_custom", "opset_local", "fnF", "fnG", "func_meta"}
GraphLevel == Carriers \ ModelLevel
OpsetCarriers == {"opset_unused", "opset_main", "opset_custom", "opset_local"}
TensorBacked == {"inits", "init_payload", "init_doc", "init_meta"}   \* live inside TensorProtos

ConvertApis == {"convert_same", "convert_up",
                "convert_down_fb",   \* convert_version(18 -> 17, fallback=True): target below source -> ONNX C API
                "convert_old_fb"}    \* convert_version(17 -> 18, fallback=True): source below the native range -> ONNX C API
InPlaceApis == {"fold_constants", "fold_constants_infer", "remove_unused_nodes", "remove_unused_functions"} \cup ConvertApis
AllApis == {"optimize", "optimize_noinline", "rewrite", "rewrite_empty", "fold_constants", "fold_constants_infer", "remove_unused_nodes",
            "remove_unused_functions", "replace_functions"} \cup ConvertApis

Dup(t) == IF t = "v" THEN "vv" ELSE IF t = "vv" THEN "vvv" ELSE t

-----------------------------------------------------------------------------
(* the caller's model *)
HasFns(api, feat) == api # "replace_functions" /\ (("call" \in feat) \/ ("deadfunc" \in feat))
Model(api, pop, feat) ==
  [c \in Carriers |->
     CASE c = "ir_version" -> "v"                                   \* the switch only selects which value
       [] c = "func_meta" -> IF c \in pop /\ HasFns(api, feat) THEN "v" ELSE "none"
       [] c = "value_info" -> IF "value_info" \in pop \/ "vi_meta" \in pop \/ "symdims" \in feat THEN "v" ELSE "none"
       [] c = "sym_dims" -> IF "symdims" \in feat THEN "v" ELSE "none"
       [] c \in PopCarriers -> IF c \in pop THEN "v" ELSE "none"
       [] c = "opset_local" -> IF "call" \in feat \/ HasFns(api, feat) THEN "v" ELSE "none"
       [] c = "fnF" -> IF api # "replace_functions" /\ "call" \in feat THEN "v" ELSE "none"
       [] c = "fnG" -> IF api # "replace_functions" /\ "deadfunc" \in feat THEN "v" ELSE "none"
       [] c = "callsite" -> IF "call" \in feat THEN "v" ELSE "none"
       [] c = "shadow" -> IF "constif" \in feat THEN "v" ELSE "none"
       [] c = "vi_implied" -> "none"
       [] OTHER -> "v"]

(* onnxscript.ir serde.  Deserialisation reads every carrier.  Serialisation writes every carrier, *)
(* adds the type annotation implied by initializer data and (deviation) writes the metadata of a   *)
(* proto-backed tensor after having copied the proto that already holds it.                        *)
Deser(p) == p
Ser(m, devs) == [m EXCEPT !["vi_implied"] = "v",
                          !["init_meta"] = IF "tensor_meta_dup" \in devs THEN Dup(@) ELSE @]

-----------------------------------------------------------------------------
(* passes: what each one needs to change on the host model, given its features *)
Pipeline(api) ==
  CASE api = "optimize" -> <<"Inline", "FoldInfer", "Rewrite", "RmNodes", "RmFuncs", "RmOpsets", "LiftConst",
                            "LiftSubInits", "Dedup", "CSE", "OutputFix", "NameFix">>
    [] api = "optimize_noinline" -> <<"FoldInfer", "Rewrite", "RmNodes", "RmFuncs", "RmOpsets", "LiftConst",
                                     "LiftSubInits", "Dedup", "CSE", "OutputFix", "NameFix">>
    [] api = "rewrite" -> <<"Rewrite", "RmNodes", "RmFuncs", "RmOpsets">>
    [] api = "rewrite_empty" -> <<>>
    [] api = "fold_constants" -> <<"Fold">>
    [] api = "fold_constants_infer" -> <<"FoldInfer">>          \* fold_constants(model, onnx_shape_inference=True)
    [] api = "remove_unused_nodes" -> <<"RmNodes">>
    [] api = "remove_unused_functions" -> <<"RmFuncs">>
    [] api = "convert_same" -> <<"Inline", "RmFuncs", "RmOpsets", "ConvertSame", "RmNodes", "RmFuncs", "RmOpsets">>
    [] api = "convert_up" -> <<"Inline", "RmFuncs", "RmOpsets", "ConvertUp", "RmNodes", "RmFuncs", "RmOpsets">>
    [] api \in {"convert_down_fb", "convert_old_fb"} ->
                             <<"Inline", "RmFuncs", "RmOpsets", "ConvertCApi", "RmNodes", "RmFuncs", "RmOpsets">>
    [] api = "replace_functions" -> <<"AddFuncs", "Inline", "RmOpsets">>

FoldAll(m) == [m EXCEPT !["nodes"] = "x", !["inits"] = "x",
                          !["fnF"] = IF @ = "none" THEN @ ELSE "x", !["fnG"] = IF @ = "none" THEN @ ELSE "x"]
\* the Identity of "symdims" is eliminated (declared dim names of both sides stay as declared); the taken
\* branches of "constif" are inlined and their initializers moved to the main graph under fresh names
FoldStruct(m, feat) == [m EXCEPT !["nodes"] = IF {"symdims", "constif"} \cap feat # {} THEN "x" ELSE @,
                                 !["inits"] = IF "constif" \in feat THEN "x" ELSE @,
                                 !["shadow"] = "none"]
\* a rewrite rule fires while the constant Ifs (and their shadowing initializers) are still there
CApiDropped == {"node_meta", "attr_doc", "io_meta", "vi_meta", "graph_meta"}
RuleFiresOnShadow(m, feat) == {"rewritable", "constif"} \subseteq feat /\ m["shadow"] = "v"
Apply(pass, m, feat, devs) ==
  CASE pass = "Inline" -> IF m["callsite"] = "v" /\ m["fnF"] # "none"
                          THEN [m EXCEPT !["callsite"] = "none", !["fnF"] = "none", !["nodes"] = "x"] ELSE m
    [] pass = "AddFuncs" -> [m EXCEPT !["fnF"] = IF "call" \in feat THEN "v" ELSE @,
                                      !["fnG"] = IF "deadfunc" \in feat THEN "x" ELSE @]
    \* constant folding also folds the constant sub-expression inside the bodies of model-local functions
    [] pass = "Fold" -> FoldStruct(IF "foldable" \in feat THEN FoldAll(m) ELSE m, feat)
    \* FoldConstantsPass(shape_inference=True): node-level shape inference annotates values that
    \* have no value_info yet (existing annotations are kept)
    [] pass = "FoldInfer" -> LET f == FoldStruct(IF "foldable" \in feat THEN FoldAll(m) ELSE m, feat)
                             IN [f EXCEPT !["value_info"] = IF @ = "none" THEN "x" ELSE @,
                                          !["nodes"] = IF {"deadnode", "rewritable", "norev"} \cap feat # {} THEN "x" ELSE @]  \* their values get annotated too
    \* the default rules collapse the Transpose pair; matching reads constants, which annotates
    \* the output of a Constant node (main graph and function bodies) with the type of its tensor
    \* When a rule fired, apply_to_model ends with NameFixPass, which makes value names globally unique:
    \* the branch-owned initializers of "constif" that shadow the outer "w" are renamed.
    [] pass = "Rewrite" -> LET r == IF "foldable" \in feat THEN [FoldAll(m) EXCEPT !["inits"] = m["inits"]]   \* (annotations only)
                                    ELSE IF "rewritable" \in feat THEN [m EXCEPT !["nodes"] = "x"] ELSE m
                           IN IF RuleFiresOnShadow(m, feat) THEN [r EXCEPT !["inits"] = "x", !["nodes"] = "x"] ELSE r
    [] pass = "RmNodes" -> IF "deadnode" \in feat THEN [m EXCEPT !["nodes"] = "x"] ELSE m
    [] pass = "RmFuncs" -> [m EXCEPT !["fnG"] = "none", !["fnF"] = IF m["callsite"] = "v" THEN @ ELSE "none"]
    [] pass = "RmOpsets" -> [m EXCEPT !["opset_unused"] = "none",
                                      !["opset_local"] = IF m["callsite"] = "v" \/ m["fnF"] # "none" \/ m["fnG"] # "none"
                                                         THEN @ ELSE "none"]
    [] pass = "LiftConst" -> IF "foldable" \in feat THEN [m EXCEPT !["nodes"] = "x", !["inits"] = "x"] ELSE m
    [] pass = "LiftSubInits" -> IF "subgraph" \in feat THEN [m EXCEPT !["inits"] = "x"] ELSE m
    [] pass = "OutputFix" -> IF "init_io" \in feat
                             THEN [m EXCEPT !["nodes"] = "x", !["inits"] = "x", !["io_sig"] = "x"] ELSE m
    [] pass = "ConvertUp" -> [m EXCEPT !["opset_main"] = "x"]
    \* _ConvertVersionPassRequiresInline, C-API branch: initializers become inputs, the proto goes through
    \* onnx.version_converter (which also infers shapes), the graph is read back, initializers are
    \* re-attached and the user inputs restored BY POSITION (io_sig and the initializers are not needed to change).
    \* Deviation: the graph that comes back has lost metadata_props and some doc strings.
    [] pass = "ConvertCApi" ->
         IF "norev" \in feat THEN m       \* call_onnx_api raises; its finally block restores inputs and initializers
         ELSE
         LET c == [m EXCEPT !["opset_main"] = "x",
                            !["value_info"] = IF @ = "none" THEN "x" ELSE @,
                            !["nodes"] = IF {"foldable", "rewritable", "subgraph", "constif"} \cap feat # {} THEN "x" ELSE @]
         IN IF "capi_fallback_drops_metadata" \in devs
            THEN [x \in Carriers |-> IF x \in CApiDropped THEN "none"
                                      \* (main-graph initializers are re-attached from the original; a branch-owned one comes
                                      \*  back from the C API without its doc_string)
                                      ELSE IF x = "inits" /\ "subgraph" \in feat /\ m["init_doc"] = "v" THEN "x" ELSE c[x]]
            ELSE c
    [] OTHER -> m           \* Dedup, CSE, NameFix, ConvertSame: nothing to do on the host model
\* carriers of the caller's TensorProtos a pass writes *in place* (Value.name setter -> TensorProto.name)
\* (OutputFixPass renaming the input+output initializer; If-inlining / NameFixPass renaming a shadowing branch initializer)
WritesInPlace(pass, m, feat) == IF \/ (pass = "OutputFix" /\ "init_io" \in feat)
                                   \/ (pass \in {"Fold", "FoldInfer"} /\ "constif" \in feat)
                                   \/ (pass = "Rewrite" /\ RuleFiresOnShadow(m, feat))
                                THEN {"inits"} ELSE {}

RECURSIVE RunAll(_, _, _, _)
RunAll(ps, m, feat, devs) == IF ps = <<>> THEN m ELSE RunAll(Tail(ps), Apply(Head(ps), m, feat, devs), feat, devs)

-----------------------------------------------------------------------------
(* the state machine *)
VARIABLES api, on, dense, pc, w, out
vars == <<api, on, dense, pc, w, out>>

Variants == {"impl", "ideal"} \cup Deviations
DevsOf(k) == IF k = "impl" THEN Deviations ELSE IF k = "ideal" THEN {} ELSE Deviations \ {k}

SwitchesOn == IF dense THEN Switches \ on ELSE on
Pop == SwitchesOn \cap PopCarriers
Feat == SwitchesOn \cap Features
M == Model(api, Pop, Feat)
None == [c \in Carriers |-> "none"]

\* per-variant wrapper state: the caller's proto, the IR model, the set of carriers whose IR value
\* aliases the caller's storage, the freshly serialised proto, the passes still to run, and what
\* the caller gets back ("new" proto / the argument itself)
W0 == [arg |-> None, irm |-> None, shared |-> {}, newp |-> None, todo |-> <<>>, ret |-> "unset"]

NoOut == [set |-> FALSE]
Init == /\ api \in Apis /\ on = {} /\ dense \in BOOLEAN /\ pc = "build"
        /\ w = [k \in Variants |-> W0]
        /\ out = NoOut
Extend == /\ pc = "build"
          /\ Cardinality(on) < (IF dense THEN MaxDense ELSE MaxSparse)
          /\ \E s \in Switches : /\ s \notin on /\ on' = on \cup {s}
                                  /\ (s = "norev" => api # "convert_old_fb")     \* Mish does not exist at the old source opset
          /\ UNCHANGED <<api, dense, pc, w, out>>
\* the call: the argument object exists
Call == /\ pc = "build"
        /\ w' = [k \in Variants |-> [W0 EXCEPT !.arg = M, !.todo = Pipeline(api)]]
        /\ pc' = IF api = "rewrite_empty" THEN "return_arg" ELSE "deserialize"
        /\ UNCHANGED <<api, on, dense, out>>
\* `elif not pattern_rewrite_rules: return model`
ReturnArg == /\ pc = "return_arg"
             /\ w' = [k \in Variants |-> [w[k] EXCEPT !.ret = "arg"]]
             /\ pc' = "judge"
             /\ UNCHANGED <<api, on, dense, out>>
\* ir.serde.deserialize_model / ir.from_proto: TensorProtos are wrapped, not copied
Deserialize == /\ pc = "deserialize"
               /\ w' = [k \in Variants |->
                          [w[k] EXCEPT !.irm = Deser(w[k].arg),
                                       !.shared = IF "proto_arg_mutated" \in DevsOf(k) THEN TensorBacked ELSE {}]]
               /\ pc' = "passes"
               /\ UNCHANGED <<api, on, dense, out>>
\* one pass of the pipeline, on the wrapper's IR model; in-place writes reach the argument through aliases
RunPass == /\ pc = "passes"
           /\ w["impl"].todo # <<>>
           /\ LET p == Head(w["impl"].todo) IN
              w' = [k \in Variants |->
                      [w[k] EXCEPT !.irm = Apply(p, @, Feat, DevsOf(k)),
                                   !.todo = Tail(@),
                                   !.arg = [c \in Carriers |-> IF c \in WritesInPlace(p, w[k].irm, Feat) \cap w[k].shared
                                                               THEN "x" ELSE w[k].arg[c]]]]
           /\ UNCHANGED <<api, on, dense, pc, out>>
\* ir.serde.serialize_model(model_ir)   /   ir.to_proto(model.graph) for convert_version
Serialize == /\ pc = "passes"
             /\ w["impl"].todo = <<>>
             /\ w' = [k \in Variants |-> [w[k] EXCEPT !.newp = Ser(w[k].irm, DevsOf(k))]]
             /\ pc' = IF api \in ConvertApis THEN "graph_clear"
                      ELSE IF api \in InPlaceApis THEN "clear" ELSE "return_new"
             /\ UNCHANGED <<api, on, dense, out>>
ReturnNew == /\ pc = "return_new"
             /\ w' = [k \in Variants |-> [w[k] EXCEPT !.ret = "new"]]
             /\ pc' = "judge"
             /\ UNCHANGED <<api, on, dense, out>>
\* model_proto.Clear()
ClearArg == /\ pc = "clear"
            /\ w' = [k \in Variants |-> [w[k] EXCEPT !.arg = None]]
            /\ pc' = "copy_from"
            /\ UNCHANGED <<api, on, dense, out>>
\* model_proto.CopyFrom(new_proto)
CopyFromNew == /\ pc = "copy_from"
               /\ w' = [k \in Variants |-> [w[k] EXCEPT !.arg = w[k].newp, !.ret = "arg"]]
               /\ pc' = "judge"
               /\ UNCHANGED <<api, on, dense, out>>
\* model_proto.graph.Clear()
GraphClear == /\ pc = "graph_clear"
              /\ w' = [k \in Variants |-> [w[k] EXCEPT !.arg = [c \in Carriers |-> IF c \in GraphLevel THEN "none" ELSE @[c]]]]
              /\ pc' = "del_functions"
              /\ UNCHANGED <<api, on, dense, out>>
\* del model_proto.functions[:]
DelFunctions == /\ pc = "del_functions"
                /\ w' = [k \in Variants |-> [w[k] EXCEPT !.arg = [@ EXCEPT !["fnF"] = "none", !["fnG"] = "none"]]]
                /\ pc' = "graph_copy"
                /\ UNCHANGED <<api, on, dense, out>>
\* model_proto.graph.CopyFrom(ir.to_proto(model.graph)); the design also brings opset_import back
GraphCopy == /\ pc = "graph_copy"
             /\ w' = [k \in Variants |->
                        [w[k] EXCEPT !.arg = [c \in Carriers |->
                               IF c \in GraphLevel THEN w[k].newp[c]
                               ELSE IF c \in OpsetCarriers /\ "proto_opset_stale" \notin DevsOf(k) THEN w[k].newp[c]
                               ELSE w[k].arg[c]],
                                     !.ret = "arg"]]
             /\ pc' = "judge"
             /\ UNCHANGED <<api, on, dense, out>>

-----------------------------------------------------------------------------
(* outcome of a finished call, per variant *)
N(p, devs) == Ser(Deser(p), devs)
\* what the caller of the proto entry point holds as the result
Result(k) == IF w[k].ret = "new" THEN w[k].newp ELSE w[k].arg
\* identity api: compared modulo the serde normal form
ResultCmp(k) == IF api = "rewrite_empty" THEN N(Result(k), DevsOf(k)) ELSE Result(k)
\* the IR entry point, serialised
IrResult(k) == Ser(RunAll(Pipeline(api), Deser(M), Feat, DevsOf(k)), DevsOf(k))
\* carriers some pass of the pipeline needs to change
Need == {c \in Observed : RunAll(Pipeline(api), M, Feat, {})[c] # M[c]}       \* (design-level passes)

ArgMut(k) == IF api \in InPlaceApis THEN {} ELSE {c \in Observed : w[k].arg[c] # M[c]}
Touched(k) == {c \in Observed : IrResult(k)[c] # N(M, DevsOf(k))[c]}
RetKind(k) == IF api \in InPlaceApis THEN "inplace" ELSE w[k].ret

Fields == {"diffPI", "lost", "argmut", "nadded", "nonidem"}
Outcome(k) == LET devs == DevsOf(k)
                  nm == N(M, devs)
                  res == ResultCmp(k)
                  ir == IrResult(k)
              IN [diffPI |-> {c \in Observed : res[c] # ir[c]},
                  lost |-> {c \in Observed \ Need : res[c] # nm[c]},
                  argmut |-> ArgMut(k),
                  nadded |-> {c \in Observed \ {"vi_implied"} : nm[c] # M[c]},
                  nonidem |-> {c \in Observed : N(nm, devs)[c] # nm[c]}]
Clean(o) == \A f \in Fields : o[f] = {}

SetSeq(S) == LET RECURSIVE F(_) F(T) == IF T = {} THEN <<>> ELSE LET x == CHOOSE x \in T : TRUE IN <<x>> \o F(T \ {x}) IN F(S)
\* the last step: the observer compares the two entry forms (everything the invariants and the
\* conformance harness need is computed once, here)
Judge == /\ pc = "judge"
         /\ pc' = "explain"
         /\ out' = [set |-> FALSE, o |-> [k \in Variants |-> Outcome(k)], need |-> Need,
                    touched |-> Touched("impl"), touchedIdeal |-> Touched("ideal")]
         /\ UNCHANGED <<api, on, dense, w>>
\* deviations that explain carrier c in field f of the implementation model's outcome
Why(f, c) == {d \in Deviations : c \notin out.o[d][f]}
Explain == /\ pc = "explain"
           /\ pc' = "done"
           /\ out' = [set |-> TRUE, impl |-> out.o["impl"], ideal |-> out.o["ideal"],
                       unexplained |-> {<<f, c>> \in Fields \X Observed : c \in out.o["impl"][f] /\ Why(f, c) = {}},
                       rec |-> [api |-> api, pop |-> SetSeq(Pop), feat |-> SetSeq(Feat),
                                impl |-> [f \in Fields |-> SetSeq(out.o["impl"][f])],
                                why |-> [f \in Fields |-> [c \in out.o["impl"][f] |-> SetSeq(Why(f, c))]],
                                touched |-> SetSeq(out.touched), need |-> SetSeq(out.need), ret |-> RetKind("impl")],
                       retIdeal |-> w["ideal"].ret, need |-> out.need, touchedIdeal |-> out.touchedIdeal, pop |-> Pop]
           /\ UNCHANGED <<api, on, dense, w>>

Next == Extend \/ Call \/ ReturnArg \/ Deserialize \/ RunPass \/ Serialize \/ ReturnNew
        \/ ClearArg \/ CopyFromNew \/ GraphClear \/ DelFunctions \/ GraphCopy \/ Judge \/ Explain
Spec == Init /\ [][Next]_vars

Done == pc = "done"
\* THE PROPERTY at design level: same result on both entry forms, untouched carriers survive,
\* argument untouched unless the api is in-place, serde adds nothing and is idempotent
DesignOK == Done => Clean(out.ideal)
\* in-place apis hand the result back in the argument object; the others return a fresh proto
\* (or, for the identity api, the argument)
ReturnContract == Done => /\ (api \in InPlaceApis => out.retIdeal = "arg")
                          /\ (api \notin InPlaceApis \cup {"rewrite_empty"} => out.retIdeal = "new")
\* every departure of the implementation model is attributed to a named deviation
DeviationsExplain == Done => out.unexplained = {}

\* vacuity witnesses (each must be *violated* by TLC)
ImplAgrees == Done => out.impl.diffPI = {}          \* fails: what DesignOK demands can fail
ImplArgKept == Done => out.impl.argmut = {}
ImplIdem == Done => out.impl.nonidem = {}
NeverTouches == Done => out.need \cap PopCarriers = {}     \* fails: some populated carrier is legitimately changed
NeverSurvives == Done => ~(out.pop \ out.need # {} /\ out.touchedIdeal # {})  \* fails: populated carriers survive a real change

\* the case record the conformance harness replays (printed once per finished case)
EmitCases == Done => PrintT(<<"CASE", ToJson(out.rec)>>)

-----------------------------------------------------------------------------
NoDevs == {}
\* "proto_opset_stale" was real on the pinned tree and is fixed in /repo (fix: convert_version(ModelProto) left opset_import ...)
RealDevs == AllDevs \ {"proto_opset_stale"}
=============================================================================
