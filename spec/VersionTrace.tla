----------------------------- MODULE VersionTrace -----------------------------
(* Trace validation (direction B) of _VersionConverter.visit_model against VersionApply.tla.     *)
(* TRACE_FILE: JSON array of [id, model, versions, dflt, target, adapters, events, finished,     *)
(*                            endModel, endVersions, endFunctionOpsets].                        *)
EXTENDS VersionApply, Json, IOUtils

Traces == JsonDeserialize(IOEnv.TRACE_FILE)
VARIABLES tid, l
tvars == <<vvars, tid, l>>
T == Traces[tid]
Tr == T.events
E == Tr[l]
Adapters == {<<T.adapters[i][1], T.adapters[i][2]>> : i \in 1..Len(T.adapters)}

TInit == /\ tid \in 1..Len(Traces) /\ l = 1 /\ VInit(Traces[tid].model, Traces[tid].versions)

Clauses ==
  CASE E.ev = "Step" -> StepClauses(E.node, E.root, E.from_version, E.to_version, E.replaced, E.inserted, E.old_outs, E.new_outs,
                                    E.new_versions, Adapters, T.dflt, T.target)
    [] E.ev = "StepError" -> ErrorClauses(E.node, E.root, E.from_version, T.dflt)
    [] E.ev = "SetOpset" -> SetOpsetClauses(E.scope, E.version, T.target)
    [] OTHER -> <<<<"unknown_event", FALSE>>>>
Update ==
  CASE E.ev = "Step" -> DoStep(E.node, E.root, E.to_version, E.replaced, E.inserted, E.old_outs, E.new_outs, E.new_versions)
    [] E.ev = "StepError" -> DoError(E.node)
    [] E.ev = "SetOpset" -> DoSetOpset(E.scope, E.version)

\* clauses a listed known finding explains (adapter_error_swallowed): reported as NOTE, validation goes on
Soft == {"adapter_error_is_not_swallowed", "step_skips_a_version_after_swallowed_error", "end_node_with_swallowed_error_below_declared_version"}
RECURSIVE FirstHard(_)
FirstHard(cl) == IF cl = <<>> THEN "" ELSE IF ~Head(cl)[2] /\ Head(cl)[1] \notin Soft THEN Head(cl)[1] ELSE FirstHard(Tail(cl))
SoftFailed(cl) == {cl[i][1] : i \in {i \in 1..Len(cl) : ~cl[i][2] /\ cl[i][1] \in Soft}}
Note(cl) == \A s \in SoftFailed(cl) : PrintT(<<"NOTE", T.id, l, s>>)
Keep == UNCHANGED <<gs, ns, napply, nfn, doms, ver, declared, gone, erred, nsteps>>

NotJudged == /\ rerr = <<>> /\ l = 1 /\ ~StartOKV(T.model)
             /\ rerr' = <<0, "initial_model_not_well_formed_not_judged">> /\ l' = Len(Tr) + 2 /\ Keep /\ UNCHANGED tid
Step == /\ rerr = <<>> /\ l <= Len(Tr) /\ (l = 1 => StartOKV(T.model))
        /\ LET cl == Clauses bad == FirstHard(cl) IN
             IF bad = "" THEN Note(cl) /\ Update /\ rerr' = <<>> /\ l' = l + 1
             ELSE rerr' = <<l, bad>> /\ l' = l /\ Keep
        /\ UNCHANGED tid
Finish == /\ rerr = <<>> /\ l = Len(Tr) + 1 /\ T.finished /\ (l = 1 => StartOKV(T.model))
          /\ LET cl == VEndClauses(T.model, T.endModel, T.endVersions, T.endFunctionOpsets, T.dflt, T.target) bad == FirstHard(cl) IN
               Note(cl) /\ rerr' = IF bad = "" THEN <<0, "accepted">> ELSE <<l, bad>>
          /\ l' = l + 1 /\ Keep /\ UNCHANGED tid
\* a run that raised (ref attributes, down-conversion): the recorded prefix was consistent
Aborted == /\ rerr = <<>> /\ l = Len(Tr) + 1 /\ ~T.finished /\ (l = 1 => StartOKV(T.model))
           /\ rerr' = <<0, "raised_prefix_consistent">> /\ l' = l + 1 /\ Keep /\ UNCHANGED tid
TNext == NotJudged \/ Step \/ Finish \/ Aborted
TSpec == TInit /\ [][TNext]_tvars
Verdict == rerr # <<>> => PrintT(<<"VERDICT", T.id, rerr[1], rerr[2], nsteps, napply>>)
=============================================================================
