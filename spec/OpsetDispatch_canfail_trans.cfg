SPECIFICATION Spec
CONSTANTS
  Deviations <- OverrideDev
  MaxExtra = 0
  AttrModes <- ModesQuick
  VarNone = FALSE
  ReqVersions <- ReqQuick
INVARIANT TransMirror
CHECK_DEADLOCK FALSE
