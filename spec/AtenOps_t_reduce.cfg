SPECIFICATION Spec
CONSTANTS
  Deviations <- AllDevs
  Families <- F_reduce
  Wide = TRUE
INVARIANT AtenWellFormed
INVARIANT DesignOK
INVARIANT DeviationsExplain
INVARIANT EmitCases
CHECK_DEADLOCK FALSE
