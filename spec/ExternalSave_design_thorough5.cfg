SPECIFICATION Spec
CONSTANTS
  Deviations <- NoDevs
  MaxInits = 5
  Menu <- AllKinds
  Menu3 <- ThirdMenu
  Faults = TRUE
  Emit = FALSE
INVARIANT TypeOK
INVARIANT MemUnchanged
INVARIANT RoundTrip
INVARIANT Refusal
INVARIANT Layout
INVARIANT FailIffFault
CHECK_DEADLOCK FALSE
