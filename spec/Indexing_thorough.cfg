SPECIFICATION Spec
CONSTANTS
  Deviations <- AllDevs
  Shapes <- ShapesThorough
  FullRanks <- FullThorough
INVARIANT DesignOK
INVARIANT DeviationsExplain
INVARIANT Emit
CHECK_DEADLOCK FALSE
