SPECIFICATION Spec
CONSTANTS
  Deviations <- AllDevs
  Shapes <- ShapesThorough
  FullRanks <- FullThorough
INVARIANT DesignOK
INVARIANT DeviationsExplain
CHECK_DEADLOCK FALSE
