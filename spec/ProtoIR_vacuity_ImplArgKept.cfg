SPECIFICATION Spec
CONSTANTS
  Deviations <- AllDevs
  Apis <- AllApis
  MaxSparse = 1
  MaxDense = 0
INVARIANT ImplArgKept
CHECK_DEADLOCK FALSE
