SPECIFICATION Spec
CONSTANTS
  Deviations <- NoDevs
  MaxObjs = 3
  MinObjs = 1
  MaxKids = 2
  ExplicitNames = {"a"}
  NamedInContainers = TRUE
  Sharing = TRUE
  ListPolicies = {"iter", "rev"}
  SeqPolicies = {"call", "direct"}
  SubPolicy = TRUE
INVARIANT DesignOK
INVARIANT DesignPairs
INVARIANT ImplIsDesign
CHECK_DEADLOCK FALSE
