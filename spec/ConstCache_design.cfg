SPECIFICATION Spec
CONSTANTS
  Deviations <- NoDevs
  MaxLen = 3
  Values <- AllValues
INVARIANT CacheSound
CHECK_DEADLOCK FALSE
