SPECIFICATION Spec
CONSTANTS
  Deviations <- AllDevs
  MaxNodes = 1
  Worlds <- QuickWorlds
  Rich = FALSE
  NumIter = 2
  Sim = FALSE
  Fine = TRUE
  Mutant = "none"
INVARIANT PropertyHolds
INVARIANT Emit
CHECK_DEADLOCK FALSE
