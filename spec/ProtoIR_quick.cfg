SPECIFICATION Spec
CONSTANTS
  Deviations <- RealDevs
  Apis <- AllApis
  MaxSparse = 2
  MaxDense = 1
INVARIANT DesignOK
INVARIANT ReturnContract
INVARIANT DeviationsExplain
INVARIANT EmitCases
CHECK_DEADLOCK FALSE
