----------------------------- MODULE RewriteTrace -----------------------------
(* Trace validation (direction B) of RewriteRuleSet.apply_to_model against RewriteApply.tla.     *)
(* TRACE_FILE: JSON array of [id, model, events, finished, endCount, endModel].                  *)
EXTENDS RewriteApply, Json, IOUtils

Traces == JsonDeserialize(IOEnv.TRACE_FILE)
VARIABLES tid, l
tvars == <<rvars, tid, l>>
Tr == Traces[tid].events
E == Tr[l]

TInit == /\ tid \in 1..Len(Traces) /\ l = 1 /\ RInit(Traces[tid].model)

Clauses ==
  CASE E.ev = "Apply" -> ApplyClauses(E.container, E.root, E.matched, E.removes, E.inserted, E.old_outs, E.new_outs, {<<E.new_init_names[i], E.new_inits[i]>> : i \in 1..Len(E.new_inits)})
    [] E.ev = "Applied" -> AppliedClauses(E.count, E.model)
    [] E.ev = "Cleaned" -> CleanedClauses(E.ran, E.model)
    [] OTHER -> <<<<"unknown_event", FALSE>>>>
Update ==
  CASE E.ev = "Apply" -> DoApply(E.container, E.root, E.matched, E.removes, E.as_function, E.inserted, E.old_outs, E.new_outs, {<<E.new_init_names[i], E.new_inits[i]>> : i \in 1..Len(E.new_inits)})
    [] E.ev = "Applied" -> UNCHANGED <<gs, ns, napply, nfn, doms>>
    [] E.ev = "Cleaned" -> DoCleaned(E.model)

Step == /\ rerr = <<>> /\ l <= Len(Tr)
        /\ LET bad == FirstBad(Clauses) IN
             IF bad = "" THEN Update /\ rerr' = <<>> /\ l' = l + 1
             ELSE rerr' = <<l, bad>> /\ l' = l /\ UNCHANGED <<gs, ns, napply, nfn, doms>>
        /\ UNCHANGED tid
Finish == /\ rerr = <<>> /\ l = Len(Tr) + 1 /\ Traces[tid].finished
          /\ LET bad == FirstBad(EndClauses(Traces[tid].endCount, Traces[tid].endModel)) IN
               rerr' = IF bad = "" THEN <<0, "accepted">> ELSE <<l, bad>>
          /\ l' = l + 1 /\ UNCHANGED <<gs, ns, napply, nfn, doms, tid>>
Aborted == /\ rerr = <<>> /\ l = Len(Tr) + 1 /\ ~Traces[tid].finished
           /\ rerr' = <<0, "raised_prefix_consistent">> /\ l' = l + 1
           /\ UNCHANGED <<gs, ns, napply, nfn, doms, tid>>
TNext == Step \/ Finish \/ Aborted
TSpec == TInit /\ [][TNext]_tvars
Verdict == rerr # <<>> => PrintT(<<"VERDICT", Traces[tid].id, rerr[1], rerr[2], napply, Cardinality(DOMAIN ns)>>)
=============================================================================
