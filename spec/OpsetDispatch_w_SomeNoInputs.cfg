SPECIFICATION Spec
CONSTANTS
  Deviations <- RealDevs
  MaxExtra = 2
  AttrModes <- ModesQuick
  VarNone = FALSE
INVARIANT SomeNoInputs
CHECK_DEADLOCK FALSE
