SPECIFICATION Spec
CONSTANTS
  Deviations <- AllDevs
  Apis <- AllApis
  MaxSparse = 1
  MaxDense = 0
INVARIANT NeverTouches
CHECK_DEADLOCK FALSE
