SPECIFICATION Spec
CONSTANTS
  Deviations <- AllDevs
  MaxCalls = 4
  MaxDepth = 1
  Ops = {"Add"}
  LitMenu = {"i1"}
  InMenu = {1, 4}
  Trips = {2}
  Kinds = {"if", "call"}
  FnMenu = {4}
  LitOnly = TRUE
  Sim = FALSE
INVARIANT DesignOK
INVARIANT DeviationsExplain
INVARIANT ScopeBalanced
INVARIANT Report
CHECK_DEADLOCK FALSE
