------------------------------- MODULE Script -------------------------------
(* C01 / C02 / C14(set order): the script converter on control flow.                            *)
(*                                                                                              *)
(* A behaviour DERIVES a program of the ONNX Script subset statement by statement (AddAsg,       *)
(* OpenIf, Else, OpenFor, OpenWhile, Close, ...) and then translates it (Finish).                *)
(*   Exec      - the program read as ordinary Python over integer tensors (reference semantics)  *)
(*   analysis  - assigned_vars, liveness (with its loop fix-points), exposed_uses: transcribed   *)
(*               clause by clause from onnxscript/_internal/analysis.py                          *)
(*   Trans     - the converter's static binding discipline (scope stack, If outputs =            *)
(*               assigned /\ live_out, Loop state = assigned /\ (exposed \/ live_out), refusals) *)
(*               from converter.py:_translate_if_stmt/_translate_loop_stmt/_translate_block       *)
(*   GExec     - what the emitted graph computes: a construct exports only its selected outputs, *)
(*               subgraphs read outer values by capture, Loop carries only its state variables   *)
(* Property (Faithful): a program is refused, or for every input on which Python is defined the  *)
(* graph returns Python's values.                                                                *)
(* Deviations (DESIGN 2.5): "loop_livein_drops_liveout" (fix-point forgets the zero-trip path),  *)
(* "for_bound_not_live" (range(n) operand not counted as a use by liveness).                     *)
EXTENDS Integers, Sequences, FiniteSets, TLC, Json

CONSTANTS Deviations, MaxNodes, MinNodes, MaxDepth, MaxBlock, Rich, Tiny, Ops,
          Kinds          \* which control-flow statements a derivation may open: subset of {"if", "for", "while", "brk"}
VARIABLES stack, nodes, stage, prog, ret, refused, res, info
vars == <<stack, nodes, stage, prog, ret, refused, res, info>>

AVars == {"x", "y"}                 \* assignable program variables
Params == {"a", "n"}                \* tensor parameters (INT64 scalars)
LoopVars == {"i", "j", "k"}          \* loop variable of the 1st / 2nd / 3rd enclosing for loop
AllV == AVars \cup Params \cup LoopVars \cup {"w", "b"}      \* w: reserved loop/break condition variable; b: break condition inside a while loop
UNDEF == -99
LIMIT == 20000                       \* values beyond this make the input "out of range" (not judged)
MAXTRIP == 4                         \* for loops with a larger trip count: input out of range (not judged)
FUEL == 4                            \* while loops running longer are "divergent" for that input

-----------------------------------------------------------------------------
(* expressions <<op, name1, name2, int>> *)
EV(a) == <<"v", a, "", 0>>
EAddC(a, c) == <<"addc", a, "", c>>
EAdd(a, b) == <<"add", a, b, 0>>
EMul(a, b) == <<"mul", a, b, 0>>
ESub(a, b) == <<"sub", a, b, 0>>     \* a - b
EModC(a, c) == <<"modc", a, "", c>>  \* a % c  (Python: sign of the divisor)
ENeg(a) == <<"neg", a, "", 0>>       \* -a
ECall2(a, b, c) == <<"call2", a, b, c>>   \* g(a, c, b) with  def g(x, k: int, y): return x * k + y   (attribute between tensors)
ECall2L(a) == <<"call2l", a, "", 0>>  \* g(a, 3, 5): literals in the attribute AND in a tensor position (= a*3 + 5)
EIdx(c) == <<"idx", "", "", c>>      \* op.Squeeze(v[c:c+1]) on the vector parameter v = [5, 7, 11] (Slice path of subscripting)
VParam == <<5, 7, 11>>
ELt(a, c) == <<"lt", a, "", c>>      \* a < c   (bool as 0/1)
EGt(a, c) == <<"gt", a, "", c>>      \* a > c
ECall(a) == <<"call", a, "", 0>>     \* h(a) = a*2 + 1, a script sub-function
EAttr(a) == <<"attr", a, "", 0>>     \* a * alpha, alpha an attribute parameter (value 2)
EC(c) == <<"c", "", "", c>>
EKw(a, b) == <<"kw", a, b, 0>>       \* op.Add(a, B=b * 1): the second operand is an EXPRESSION passed by keyword (= a + b)

UsedE(e) == CASE e[1] \in {"c", "idx"} -> {} [] e[1] \in {"add", "mul", "sub", "call2", "kw"} -> {e[2], e[3]} [] OTHER -> {e[2]}
\* what analysis.py counts as used: "kw_expr_uses_ignored" - _used_vars looked at keyword arguments only when they were bare names
UsedL(e, devs) == IF e[1] = "kw" /\ "kw_expr_uses_ignored" \in devs THEN {e[2]} ELSE UsedE(e)
EvalE(e, env) ==
  IF \E u \in UsedE(e) : env[u] = UNDEF THEN UNDEF
  ELSE CASE e[1] = "v" -> env[e[2]]
         [] e[1] = "c" -> e[4]
         [] e[1] = "addc" -> env[e[2]] + e[4]
         [] e[1] = "add" -> env[e[2]] + env[e[3]]
         [] e[1] = "mul" -> env[e[2]] * env[e[3]]
         [] e[1] = "sub" -> env[e[2]] - env[e[3]]
         [] e[1] = "kw" -> env[e[2]] + env[e[3]]
         [] e[1] = "modc" -> env[e[2]] % e[4]
         [] e[1] = "neg" -> 0 - env[e[2]]
         [] e[1] = "call2" -> env[e[2]] * e[4] + env[e[3]]
         [] e[1] = "call2l" -> env[e[2]] * 3 + 5
         [] e[1] = "idx" -> VParam[e[4] + 1]
         [] e[1] = "lt" -> IF env[e[2]] < e[4] THEN 1 ELSE 0
         [] e[1] = "gt" -> IF env[e[2]] > e[4] THEN 1 ELSE 0
         [] e[1] = "call" -> env[e[2]] * 2 + 1
         [] e[1] = "attr" -> env[e[2]] * 2

(* statements: one record shape for all kinds *)
SAsg(v, e) == [k |-> "asg", v |-> v, e |-> e, t |-> <<>>, f |-> <<>>]
SPAsg(v1, e1, v2, e2) == [k |-> "pasg", v |-> v1, e |-> e1, t |-> <<SAsg(v2, e2)>>, f |-> <<>>]   \* v1, v2 = e1, e2  (parallel)
SIf(c, t, f) == [k |-> "if", v |-> c, e |-> EC(0), t |-> t, f |-> f]        \* if c > 0:
SFor(lv, b, t) == [k |-> "for", v |-> lv, e |-> b, t |-> t, f |-> <<>>]    \* for lv in range(b):
SWhile(t) == [k |-> "while", v |-> "w", e |-> EC(0), t |-> t, f |-> <<>>]   \* while w:
SBrk == [k |-> "brk", v |-> "w", e |-> EC(0), t |-> <<>>, f |-> <<>>]        \* if w: break   (last statement of a for body)
SBrkB == [k |-> "brk", v |-> "b", e |-> EC(0), t |-> <<>>, f |-> <<>>]       \* if b: break   (last statement of a while body)
EndsBrk(b) == b # <<>> /\ b[Len(b)].k = "brk"
BrkVar(b) == b[Len(b)].v

-----------------------------------------------------------------------------
(* Python reference semantics.  env["#"]: 0 ok, 1 read of an undefined name, 2 out of fuel *)
EnvV == AllV \cup {"#"}
Bad(env) == env["#"] # 0
RECURSIVE Exec(_, _), ExecB(_, _), IterFor(_, _, _, _), IterWhile(_, _, _)
ExecB(b, env) == IF b = <<>> \/ Bad(env) THEN env ELSE ExecB(Tail(b), Exec(Head(b), env))
IterFor(s, env, i, n) ==        \* body ends with SBrk => stop after the iteration in which w > 0
  IF i >= n \/ Bad(env) THEN env
  ELSE LET e1 == ExecB(s.t, [env EXCEPT ![s.v] = i])
       IN IF ~Bad(e1) /\ EndsBrk(s.t) /\ e1[BrkVar(s.t)] > 0 THEN e1
          ELSE IterFor(s, e1, i + 1, n)
IterWhile(s, env, fuel) ==
  IF Bad(env) THEN env
  ELSE IF env["w"] = UNDEF THEN [env EXCEPT !["#"] = 1]
  ELSE IF env["w"] <= 0 THEN env
  ELSE IF fuel = 0 THEN [env EXCEPT !["#"] = 2]
  ELSE LET e1 == ExecB(s.t, env)
       IN IF ~Bad(e1) /\ EndsBrk(s.t) /\ e1[BrkVar(s.t)] > 0 THEN e1      \* break leaves the loop whatever the loop condition says
          ELSE IterWhile(s, e1, fuel - 1)
Exec(s, env) ==
  CASE s.k = "asg" -> LET x == EvalE(s.e, env) IN IF x = UNDEF THEN [env EXCEPT !["#"] = 1]
                                                  ELSE IF x > LIMIT \/ x < -LIMIT THEN [env EXCEPT !["#"] = 3]   \* keep TLC's 32-bit integers safe
                                                  ELSE [env EXCEPT ![s.v] = x]
    [] s.k = "pasg" -> \* Python evaluates the whole right-hand side before it binds any target
                       LET x1 == EvalE(s.e, env) x2 == EvalE(s.t[1].e, env) IN
                       IF x1 = UNDEF \/ x2 = UNDEF THEN [env EXCEPT !["#"] = 1]
                       ELSE IF x1 > LIMIT \/ x1 < -LIMIT \/ x2 > LIMIT \/ x2 < -LIMIT THEN [env EXCEPT !["#"] = 3]
                       ELSE [env EXCEPT ![s.v] = x1, ![s.t[1].v] = x2]
    [] s.k = "if" -> IF env[s.v] = UNDEF THEN [env EXCEPT !["#"] = 1]
                     ELSE IF env[s.v] > 0 THEN ExecB(s.t, env) ELSE ExecB(s.f, env)
    [] s.k = "for" -> LET n == EvalE(s.e, env) IN IF n = UNDEF THEN [env EXCEPT !["#"] = 1]
                                                  ELSE IF n > MAXTRIP THEN [env EXCEPT !["#"] = 3] ELSE IterFor(s, env, 0, n)
    [] s.k = "while" -> IterWhile(s, env, FUEL)
    [] s.k = "brk" -> IF env[s.v] = UNDEF THEN [env EXCEPT !["#"] = 1] ELSE env

-----------------------------------------------------------------------------
(* analysis.py *)
RECURSIVE Assigned(_), AssignedB(_)
AssignedB(b) == IF b = <<>> THEN {} ELSE Assigned(Head(b)) \cup AssignedB(Tail(b))
PDefs(s) == {s.v, s.t[1].v}
PUses(s) == UsedE(s.e) \cup UsedE(s.t[1].e)
Assigned(s) == CASE s.k = "asg" -> {s.v}
                 [] s.k = "pasg" -> PDefs(s)
                 [] s.k = "if" -> AssignedB(s.t) \cup AssignedB(s.f)
                 [] s.k = "for" -> AssignedB(s.t) \cup {s.v}
                 [] s.k = "while" -> AssignedB(s.t)
                 [] s.k = "brk" -> {}

\* do_liveness_analysis: live-in of a statement given its live-out
RECURSIVE LiveS(_, _, _), LiveB(_, _, _), FixFor(_, _, _, _, _), FixWhile(_, _, _, _, _)
LiveB(b, out, devs) == IF b = <<>> THEN out ELSE LiveS(Head(b), LiveB(Tail(b), out, devs), devs)
\* code: prev = None; curr = live_out; while curr != prev: prev = curr; curr = visit_block(body, prev) - {i}
\* design: the loop may run zero times and reads its bound: join live_out and the bound's variables
FixFor(s, out, prev, cur, devs) ==
  IF cur = prev THEN cur
  ELSE LET nxt == (LiveB(s.t, cur, devs) \ {s.v})
                  \cup (IF "loop_livein_drops_liveout" \in devs THEN {} ELSE out)
       IN FixFor(s, out, cur, nxt, devs)
FixWhile(s, out, prev, cur, devs) ==
  IF cur = prev THEN cur
  ELSE LET nxt == LiveB(s.t, cur, devs) \cup {s.v}
                  \cup (IF "loop_livein_drops_liveout" \in devs THEN {} ELSE out)
       IN FixWhile(s, out, cur, nxt, devs)
LiveS(s, out, devs) ==
  CASE s.k = "asg" -> (out \ {s.v}) \cup UsedL(s.e, devs)
    [] s.k = "pasg" -> (out \ PDefs(s)) \cup PUses(s)
    [] s.k = "if" -> LiveB(s.t, out, devs) \cup LiveB(s.f, out, devs) \cup {s.v}
    [] s.k = "for" -> FixFor(s, out, {"__none__"}, out, devs)       \* range(bound) is evaluated once, before the loop
                      \cup (IF "for_bound_not_live" \in devs THEN {} ELSE UsedE(s.e))
    [] s.k = "while" -> FixWhile(s, out, {"__none__"}, out \cup {s.v}, devs)
    [] s.k = "brk" -> out \cup {s.v}
\* the live-out the analysis records for the body of a loop = the fix-point value (last visit)
BodyOut(s, out, devs) == IF s.k = "for" THEN FixFor(s, out, {"__none__"}, out, devs) ELSE LiveS(s, out, devs)

\* exposed_uses(block)
RECURSIVE ExpS(_, _, _), ExpB(_, _, _)
ExpB(b, out, devs) == IF b = <<>> THEN out ELSE ExpS(Head(b), ExpB(Tail(b), out, devs), devs)
ExpS(s, out, devs) ==
  CASE s.k = "asg" -> (out \ {s.v}) \cup UsedL(s.e, devs)
    [] s.k = "pasg" -> (out \ PDefs(s)) \cup PUses(s)
    [] s.k = "if" -> ExpB(s.t, out, devs) \cup ExpB(s.f, out, devs) \cup {s.v}
    \* the loop may run zero times: it does not kill its variable ("exposed_for_kills_var": the code removed it from live_out)
    [] s.k = "for" -> (ExpB(s.t, {}, devs) \ {s.v}) \cup UsedE(s.e) \cup (IF "exposed_for_kills_var" \in devs THEN out \ {s.v} ELSE out)
    [] s.k = "while" -> ExpB(s.t, {}, devs) \cup {s.v} \cup out
    [] s.k = "brk" -> out \cup {s.v}
Exposed(b, devs) == ExpB(b, {}, devs)

IfOutputs(s, out) == Assigned(s) \cap out
\* Python leaves the last index in a for variable: when it is live after the loop it is carried as well (its value at the
\* end of the body is exported).  "loop_var_after": the code did not, the name kept its value from before the loop.
LoopState(s, out, devs) == (AssignedB(s.t) \cap (Exposed(s.t, devs) \cup out))
                           \cup (IF s.k = "for" /\ s.v \in out /\ "loop_var_after" \notin devs THEN {s.v} ELSE {})

-----------------------------------------------------------------------------
(* converter.py: static binding discipline.  B = set of names bound (visible) at this point.    *)
(* Result <<B', ok>>.  `top` = names bound in the CURRENT scope (needed by while/break lookups). *)
RECURSIVE TransS(_, _, _, _, _), TransB(_, _, _, _, _)
TransB(b, B, top, out, devs) ==      \* returns <<B', top', ok>>
  IF b = <<>> THEN <<B, top, TRUE>>
  ELSE LET r == TransS(Head(b), B, top, LiveB(Tail(b), out, devs), devs)
       IN IF ~r[3] THEN r ELSE TransB(Tail(b), r[1], r[2], out, devs)
TransS(s, B, top, out, devs) ==
  CASE s.k = "asg" -> <<B \cup {s.v}, top \cup {s.v}, UsedE(s.e) \subseteq B>>
    [] s.k = "pasg" -> \* "tuple_assign_sequential": each `target = expression` pair is translated and bound in turn
                       <<B \cup PDefs(s), top \cup PDefs(s),
                         /\ UsedE(s.e) \subseteq B
                         /\ UsedE(s.t[1].e) \subseteq (IF "tuple_assign_sequential" \in devs THEN B \cup {s.v} ELSE B)>>
    [] s.k = "if" ->
         LET O == IfOutputs(s, out)
             rt == TransB(s.t, B, {}, out, devs)
             rf == TransB(s.f, B, {}, out, devs)
         IN <<B \cup O, top \cup O,
              /\ s.v \in B /\ rt[3] /\ rf[3]
              /\ O # {}                                   \* "A subgraph for a test do not have any output variable"
              /\ O \subseteq rt[1] /\ O \subseteq rf[1]>> \* else: "not assigned a value along a conditional branch"
    [] s.k \in {"for", "while"} ->
         LET S == LoopState(s, out, devs)
             lv == IF s.k = "for" THEN {s.v} ELSE {}
             rb == TransB(s.t, B \cup lv \cup S, lv \cup S, BodyOut(s, out, devs), devs)
             lastBrk == s.t # <<>> /\ s.t[Len(s.t)].k = "brk"
         IN <<B \cup S, top \cup S,
              /\ UsedE(s.e) \subseteq B                   \* loop bound
              /\ (s.k = "while" => s.v \in B)             \* o_loop_condition = current value of w
              /\ rb[3]
              /\ S # {}                                   \* a Loop without carried state: _emit returns outputs[0] of an empty list (IndexError)
              /\ S \subseteq B                            \* initial values of the carried variables
              /\ (s.k = "while" => s.v \in rb[2])         \* condition must be (re)bound in the body scope
              /\ \A j \in 1..Len(s.t) : s.t[j].k = "brk" => j = Len(s.t)>>
    [] s.k = "brk" -> <<B, top, s.v \in top>>             \* condition variable must be in the current scope

\* the selections the converter makes, in pre-order: one entry per If (its outputs) and per Loop (its
\* carried state) - compared with the structure of the graph the real converter emits
RECURSIVE SelS(_, _, _), SelB(_, _, _)
SelB(b, out, devs) == IF b = <<>> THEN <<>> ELSE SelS(Head(b), LiveB(Tail(b), out, devs), devs) \o SelB(Tail(b), out, devs)
SelS(s, out, devs) ==
  CASE s.k = "if" -> <<[k |-> "If", vs |-> IfOutputs(s, out)]>> \o SelB(s.t, out, devs) \o SelB(s.f, out, devs)
    [] s.k \in {"for", "while"} -> <<[k |-> "Loop", vs |-> LoopState(s, out, devs)]>> \o SelB(s.t, BodyOut(s, out, devs), devs)
    [] OTHER -> <<>>

(* what the emitted graph computes.  benv: binding environment (value of each visible name)      *)
Restrict(envIn, envOut, sel) == [v \in EnvV |-> IF v \in sel \/ v = "#" THEN envOut[v] ELSE envIn[v]]
RECURSIVE GExec(_, _, _, _), GExecB(_, _, _, _), GIterFor(_, _, _, _, _, _, _), GIterWhile(_, _, _, _, _, _)
GExecB(b, env, out, devs) ==
  IF b = <<>> \/ Bad(env) THEN env
  ELSE GExecB(Tail(b), GExec(Head(b), env, LiveB(Tail(b), out, devs), devs), out, devs)
\* one Loop iteration: the body sees outer bindings, the loop variable and the carried state
GIterFor(s, outer, carried, i, n, bout, devs) ==
  IF i >= n \/ Bad(carried) THEN carried
  ELSE LET S == DOMAIN bout.S
           start == [v \in EnvV |-> IF v = s.v /\ ~("carried_shadows_loop_var" \in devs /\ s.v \in bout.Sv) THEN i   \* (code: the carried parameter was bound over the index)
                                   ELSE IF v \in bout.Sv \/ v = "#" THEN carried[v] ELSE outer[v]]
           e1 == GExecB(s.t, start, bout.o, devs)
           nxt == Restrict(carried, e1, bout.Sv)
       IN IF ~Bad(e1) /\ EndsBrk(s.t) /\ e1[BrkVar(s.t)] > 0 THEN nxt
          ELSE GIterFor(s, outer, nxt, i + 1, n, bout, devs)
GIterWhile(s, outer, carried, cond, fuel, bout) ==
  IF Bad(carried) THEN carried
  ELSE IF cond <= 0 THEN carried
  ELSE IF fuel = 0 THEN [carried EXCEPT !["#"] = 2]
  ELSE LET start == [v \in EnvV |-> IF v \in bout.Sv \/ v = "#" THEN carried[v] ELSE outer[v]]
           e1 == GExecB(s.t, start, bout.o, bout.devs)
           \* the body's condition output: keep going while the loop condition holds and the break condition does not
           \* ("while_break_ignores_cond": the code emitted Not(break condition) only)
           go == IF Bad(e1) THEN 0
                 ELSE IF EndsBrk(s.t)
                      THEN (IF e1[BrkVar(s.t)] > 0 THEN 0 ELSE IF "while_break_ignores_cond" \in bout.devs THEN 1 ELSE e1["w"])
                      ELSE e1["w"]
       IN GIterWhile(s, outer, Restrict(carried, e1, bout.Sv), go, fuel - 1, bout)
GExec(s, env, out, devs) ==
  CASE s.k = "asg" -> Exec(s, env)
    [] s.k = "pasg" -> IF "tuple_assign_sequential" \in devs THEN ExecB(<<SAsg(s.v, s.e), s.t[1]>>, env) ELSE Exec(s, env)
    [] s.k = "if" -> IF env[s.v] = UNDEF THEN [env EXCEPT !["#"] = 1]
                     ELSE LET br == IF env[s.v] > 0 THEN s.t ELSE s.f
                          IN Restrict(env, GExecB(br, env, out, devs), IfOutputs(s, out))
    [] s.k = "for" -> LET n == EvalE(s.e, env)
                          bo == [S |-> [v \in {} |-> 0], Sv |-> LoopState(s, out, devs), o |-> BodyOut(s, out, devs), devs |-> devs]
                      IN IF n = UNDEF THEN [env EXCEPT !["#"] = 1]
                         ELSE IF n > MAXTRIP THEN [env EXCEPT !["#"] = 3]
                         ELSE Restrict(env, GIterFor(s, env, env, 0, n, bo, devs), bo.Sv)
    [] s.k = "while" -> LET bo == [S |-> [v \in {} |-> 0], Sv |-> LoopState(s, out, devs), o |-> BodyOut(s, out, devs), devs |-> devs]
                        IN IF env["w"] = UNDEF THEN [env EXCEPT !["#"] = 1]
                           ELSE Restrict(env, GIterWhile(s, env, env, env["w"], FUEL, bo), bo.Sv)
    [] s.k = "brk" -> env

-----------------------------------------------------------------------------
(* program derivation *)
AsgMenu == LET base == {EV("a"), EV("x"), EV("y"), EAddC("x", 1), EAddC("y", 1), EMul("x", "y"), EAdd("x", "a")}
               rich == {ECall("x"), EAttr("y"), EAddC("a", -1), EAddC("x", -1)} \cup {EAdd("y", stack[d].v) : d \in {d \in 1..Len(stack) : stack[d].k = "for"}}
               tiny == {EV("a"), EAddC("x", 1), EMul("x", "y"), EV("y")}     \* small alphabet for deeper exhaustive structure
               ops == {EV("a"), EAddC("x", 1), EIdx(1), EIdx(2), ECall2("x", "y", 3), ECall2L("x"), EModC("x", 3), ENeg("y"), EKw("a", "x")}   \* other operators / call forms
               \* "lvar": a loop variable that also exists outside its loop (defined before, read after: Python leaves the last index in it)
               lvar == IF "lvar" \in Kinds THEN {[v |-> "x", e |-> EAdd("x", "i")], [v |-> "x", e |-> EAdd("x", "j")], [v |-> "i", e |-> EAddC("i", 1)]} ELSE {}
           IN [v : AVars, e : IF Ops THEN ops ELSE IF Tiny THEN tiny ELSE IF Rich THEN base \cup rich \cup ops ELSE base] \cup lvar
Bounds == {EV("n"), EV("x"), EC(2)}
CondVars == {"a", "x", "y"}
WhileConds == {ELt("x", 2), EGt("y", 0)}
BrkConds == {EGt("x", 1), EGt("y", 1)}

NextLoopVar == LET d == Cardinality({m \in 1..Len(stack) : stack[m].k = "for"}) IN IF d = 0 THEN "i" ELSE IF d = 1 THEN "j" ELSE "k"
Frame(k, v, e) == [k |-> k, v |-> v, e |-> e, blk |-> <<>>, saved |-> <<>>, ph |-> "then"]
Top == stack[Len(stack)]
Push(fr) == stack' = Append(stack, fr)
AppendTop(st, s) == [st EXCEPT ![Len(st)].blk = Append(@, s)]
CanAdd == stage = "build" /\ nodes < MaxNodes /\ Len(Top.blk) < MaxBlock + (IF Len(stack) = 1 THEN 2 ELSE 0)
HasBrk(b) == b # <<>> /\ b[Len(b)].k = "brk"

\* every program starts with a prelude that defines x (and, in one variant, y): a variable first
\* assigned inside a branch or loop stays possible, programs that only read undefined names are pruned
Preludes == {<<SAsg("x", EAddC("a", 1))>>, <<SAsg("x", EAddC("a", 1)), SAsg("y", EV("a"))>>}
LVarPrelude == <<SAsg("x", EAddC("a", 1)), SAsg("i", EV("a")), SAsg("j", EV("n"))>>
Init == /\ \E p \in (IF "lvar" \in Kinds THEN {LVarPrelude} ELSE Preludes) : stack = <<[Frame("fn", "", EC(0)) EXCEPT !.blk = p]>>
        /\ nodes = 0 /\ stage = "build"
        /\ prog = <<>> /\ ret = <<>> /\ refused = FALSE /\ res = <<>> /\ info = <<>>
\* configurations that study loop bodies only (Kinds = WhileBrkKinds) add no statements at the top level: prelude, loop, return
BodiesOnly == Kinds = {"while", "brk"}
AddAsg == /\ CanAdd /\ ~HasBrk(Top.blk) /\ ~(BodiesOnly /\ Len(stack) = 1)
          /\ \E a \in AsgMenu : stack' = AppendTop(stack, SAsg(a.v, a.e))
          /\ nodes' = nodes + 1
          /\ UNCHANGED <<stage, prog, ret, refused, res, info>>
\* parallel assignment to both variables (both target orders)
PMenu == {EV("x"), EV("y"), EAddC("x", 1), EMul("x", "y")}
AddPAsg == /\ "pasg" \in Kinds /\ CanAdd /\ ~HasBrk(Top.blk)
           /\ \E e1 \in PMenu, e2 \in PMenu, o \in {1, 2} :
                stack' = AppendTop(stack, IF o = 1 THEN SPAsg("x", e1, "y", e2) ELSE SPAsg("y", e1, "x", e2))
           /\ nodes' = nodes + 1
           /\ UNCHANGED <<stage, prog, ret, refused, res, info>>
OpenIf == /\ "if" \in Kinds /\ CanAdd /\ Len(stack) <= MaxDepth /\ ~HasBrk(Top.blk)
          /\ \E c \in CondVars : Push(Frame("if", c, EC(0)))
          /\ nodes' = nodes + 1
          /\ UNCHANGED <<stage, prog, ret, refused, res, info>>
Else == /\ stage = "build" /\ Top.k = "if" /\ Top.ph = "then" /\ Top.blk # <<>>
        /\ stack' = [stack EXCEPT ![Len(stack)] = [Top EXCEPT !.saved = Top.blk, !.blk = <<>>, !.ph = "else"]]
        /\ UNCHANGED <<nodes, stage, prog, ret, refused, res, info>>
OpenFor == /\ "for" \in Kinds /\ CanAdd /\ Len(stack) <= MaxDepth /\ ~HasBrk(Top.blk)
           /\ \E b \in Bounds \cup {ESub("n", stack[d].v) : d \in {d \in 1..Len(stack) : stack[d].k = "for"}}
                          \cup (IF Rich THEN {EC(0), EC(1)} ELSE {}) : Push(Frame("for", NextLoopVar, b))
           /\ nodes' = nodes + 1
           /\ UNCHANGED <<stage, prog, ret, refused, res, info>>
\* `w = cond` in front, `while w:` opened; Close appends `w = cond` to the body
OpenWhile == /\ "while" \in Kinds /\ CanAdd /\ Len(stack) <= MaxDepth /\ nodes + 3 <= MaxNodes /\ Len(Top.blk) + 2 <= MaxBlock /\ ~HasBrk(Top.blk)
             /\ \E c \in WhileConds : stack' = Append(AppendTop(stack, SAsg("w", c)), Frame("while", "w", c))
             /\ nodes' = nodes + 3
             /\ UNCHANGED <<stage, prog, ret, refused, res, info>>
\* `w = cond; if w: break` as the last statements of a for body
AddBreak == /\ "brk" \in Kinds /\ stage = "build" /\ Top.k \in {"for", "while"} /\ Top.blk # <<>> /\ ~HasBrk(Top.blk) /\ nodes + 2 <= MaxNodes
            /\ \E c \in BrkConds : stack' = IF Top.k = "for" THEN AppendTop(AppendTop(stack, SAsg("w", c)), SBrk)
                                              ELSE AppendTop(AppendTop(stack, SAsg("b", c)), SBrkB)
            /\ nodes' = nodes + 2
            /\ UNCHANGED <<stage, prog, ret, refused, res, info>>
Close == /\ stage = "build" /\ Len(stack) > 1
         /\ (Top.k = "if" /\ Top.ph = "then" => Top.blk # <<>>)
         /\ (Top.k \in {"for", "while"} => Top.blk # <<>>)
         /\ LET fr == Top
                st == CASE fr.k = "if" -> IF fr.ph = "then" THEN SIf(fr.v, fr.blk, <<>>) ELSE SIf(fr.v, fr.saved, fr.blk)
                        [] fr.k = "for" -> SFor(fr.v, fr.e, fr.blk)
                        \* the loop condition is recomputed at the end of the body, before a trailing break
                        [] fr.k = "while" -> IF HasBrk(fr.blk)
                                             THEN SWhile(SubSeq(fr.blk, 1, Len(fr.blk) - 2) \o <<SAsg("w", fr.e)>> \o SubSeq(fr.blk, Len(fr.blk) - 1, Len(fr.blk)))
                                             ELSE SWhile(Append(fr.blk, SAsg("w", fr.e)))
            IN stack' = AppendTop(SubSeq(stack, 1, Len(stack) - 1), st)
         /\ UNCHANGED <<nodes, stage, prog, ret, refused, res, info>>

Inputs == {<<a, n>> : a \in {-1, 2}, n \in {0, 1, 2}}
Env0(a, n) == [v \in EnvV |-> IF v = "a" THEN a ELSE IF v = "n" THEN n ELSE IF v = "#" THEN 0 ELSE UNDEF]
RetOf(env, r) == IF Bad(env) THEN <<"bad", env["#"]>>
                 ELSE IF \E j \in 1..Len(r) : env[r[j]] = UNDEF THEN <<"bad", 1>>
                 ELSE <<"ok", [j \in 1..Len(r) |-> env[r[j]]]>>
InSeq == <<<<-1, 0>>, <<-1, 1>>, <<-1, 2>>, <<2, 0>>, <<2, 1>>, <<2, 2>>>>
Translate(p, r, devs) ==
  LET out == {r[j] : j \in 1..Len(r)}
      tr == TransB(p, Params, Params, out, devs)
      ok == tr[3] /\ out \subseteq tr[1]
  IN [refused |-> ~ok,
      sel |-> IF ok THEN SelB(p, out, devs) ELSE <<>>,
      res |-> [k \in 1..Len(InSeq) |->
                 LET e0 == Env0(InSeq[k][1], InSeq[k][2])
                 IN [a |-> InSeq[k][1], n |-> InSeq[k][2],
                     py |-> RetOf(ExecB(p, e0), r),
                     gr |-> IF ok THEN RetOf(GExecB(p, e0, out, devs), r) ELSE <<"bad", 0>>]]]
Finish == /\ stage = "build" /\ Len(stack) = 1 /\ Top.blk # <<>> /\ nodes >= MinNodes
          /\ \E r \in {<<"x">>, <<"y">>, <<"x", "y">>} :
               /\ ret' = r /\ prog' = Top.blk
               /\ LET impl == Translate(Top.blk, r, Deviations)
                      ideal == Translate(Top.blk, r, {})
                  IN /\ refused' = impl.refused /\ res' = impl.res
                     /\ info' = [idealRefused |-> ideal.refused, idealRes |-> ideal.res, sel |-> impl.sel,
                                 why |-> {d \in Deviations : Translate(Top.blk, r, Deviations \ {d}) # impl}]
          /\ stage' = "done"
          /\ UNCHANGED <<stack, nodes>>
Next == AddAsg \/ AddPAsg \/ OpenIf \/ Else \/ OpenFor \/ OpenWhile \/ AddBreak \/ Close \/ Finish
Spec == Init /\ [][Next]_vars

\* one JSON line per derived program (read by the conformance harness)
Emit == stage = "done" => PrintT(<<"CASE", ToJson([prog |-> prog, ret |-> ret, refused |-> refused, res |-> res,
                                                    why |-> info.why, sel |-> info.sel])>>)
\* C01 at design level: refused, or faithful wherever Python is defined
FaithfulOf(rf, rs) == rf \/ \A k \in 1..Len(rs) : rs[k].py[1] = "ok" => rs[k].gr = rs[k].py
DesignFaithful == stage = "done" => FaithfulOf(info.idealRefused, info.idealRes)
DeviationsExplain == stage = "done" => (FaithfulOf(refused, res) \/ info.why # {})
\* the implementation model itself is faithful (violated under the deviations of OldDevs: the bounded model reaches them)
ImplFaithful == stage = "done" => FaithfulOf(refused, res)
\* vacuity witnesses
SomeAcceptedLoopIf == ~(stage = "done" /\ ~refused /\ \E j \in 1..Len(prog) : prog[j].k = "for" /\ \E m \in 1..Len(prog[j].t) : prog[j].t[m].k = "if")
AllKinds == {"if", "for", "while", "brk"}
PAsgKinds == {"pasg", "if", "for"}
LVarKinds == {"lvar", "if", "for"}
LVarDevs == {"loop_var_after", "exposed_for_kills_var", "carried_shadows_loop_var"}
TupleDevs == {"tuple_assign_sequential"}
LoopKinds == {"for"}
IfForKinds == {"if", "for"}
NoDevs == {}
\* both deviations were real on the pinned tree and are fixed in /repo (commit "fix: loop liveness ..."):
\* the implementation model now runs without them; a regression re-introducing either shows up as a violation
RealDevs == {}
\* "tuple_assign_sequential" (x, y = y, x translated as x = y; y = x) was found by this spec and is fixed as well
\* "loop_var_after", "carried_shadows_loop_var", "exposed_for_kills_var" (for variables that live outside their loop): found by this spec, fixed
\* "kw_expr_uses_ignored": found while transcribing analysis.py for Converter.tla, reproduced on the real converter, fixed
WhileBrkDevs == {"while_break_ignores_cond"}
WhileBrkKinds == {"while", "brk"}
OldDevs == {"while_break_ignores_cond", "loop_livein_drops_liveout", "for_bound_not_live", "tuple_assign_sequential", "loop_var_after", "carried_shadows_loop_var", "exposed_for_kills_var", "kw_expr_uses_ignored"}
KwDevs == {"kw_expr_uses_ignored"}
=============================================================================
