SPECIFICATION Spec
CONSTANTS
  Deviations <- RealDevs
  RuleSets <- Q_keep
  MaxDepth = 2
  Wide = FALSE
INVARIANT PropertyHolds
INVARIANT DeviationsExplain
INVARIANT Emit
CHECK_DEADLOCK FALSE
