SPECIFICATION Spec
CONSTANTS
  Deviations <- AllDevs
  InputMenu <- MenuQuick
  MaxNodes = 3
  Vals <- ValsStd
  Rich = 1
INVARIANT DevExplains
INVARIANT ShapesSound
INVARIANT Emit
CHECK_DEADLOCK FALSE
