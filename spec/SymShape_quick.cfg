SPECIFICATION Spec
CONSTANTS
  Deviations <- AllDevs
  InputMenu <- MenuQuick
  MaxNodes = 2
  Vals <- ValsStd
  Rich = 1
  Chain = FALSE
INVARIANT DesignSound
INVARIANT ShapesSound
INVARIANT Emit
CHECK_DEADLOCK FALSE
