SPECIFICATION Spec
CONSTANTS
  Deviations <- NoDevs
  RuleSets <- TinySets
  MaxDepth = 1
  Wide = FALSE
INVARIANT PropertyHolds
INVARIANT Emit
CHECK_DEADLOCK FALSE
