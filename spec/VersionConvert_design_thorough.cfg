SPECIFICATION Spec
CONSTANTS
  Deviations <- NoDevs
  Menu <- MenuAll
  VarMenu <- VarThorough
  VarVersions <- AllVersions
  HistMenu <- HistAll
  HistVersions <- HistVersionsThorough
  MultiMenu <- MultiThorough
  TripleMenu <- TripleThorough
  MaxItems = 3
  Sources <- AllVersions
  Targets <- AllVersions
  Emitting = FALSE
INVARIANT Prop
CHECK_DEADLOCK FALSE
