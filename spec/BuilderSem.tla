----------------------------- MODULE BuilderSem -----------------------------
(* C18, part of Builder.tla: what one traced operator call MEANS (the "numpy replay" side of    *)
(* the property), on the exact integer tensor kernel of Tensor.tla.  Tensors of dtype "f32" hold *)
(* integer values only (the op menu keeps them integral), "bool" holds 0/1.                      *)
(* Sem(op, ts, at) -> sequence of output tensors, or <<ERR>> when the call is not defined.       *)
EXTENDS Tensor, TLC

BIGV == 100000
Att(at, k, d) == IF k \in DOMAIN at THEN at[k] ELSE d
B2I(b) == IF b THEN 1 ELSE 0
Sgn(v) == IF v > 0 THEN 1 ELSE IF v < 0 THEN -1 ELSE 0
AnyErr(ts) == \E i \in 1..Len(ts) : IsErr(ts[i])
HasZero(t) == \E k \in 1..Len(t.data) : t.data[k] = 0
\* exact division only (keeps f32 tensors integral); i64: C++ truncation
DivOK(a, b) == LET bs == BroadcastShape(a.shape, b.shape) IN
   bs # NOSHAPE /\ ~HasZero(b)
   /\ (a.dt = "i64" \/ LET a2 == BroadcastTo(a, bs) b2 == BroadcastTo(b, bs) IN \A k \in 1..Len(a2.data) : CMod(a2.data[k], b2.data[k]) = 0)

Where3(c, a, b) ==
   LET s1 == BroadcastShape(c.shape, a.shape) IN
   IF s1 = NOSHAPE THEN ERR ELSE
   LET bs == BroadcastShape(s1, b.shape) IN
   IF bs = NOSHAPE THEN ERR ELSE
   LET c2 == BroadcastTo(c, bs) a2 == BroadcastTo(a, bs) b2 == BroadcastTo(b, bs)
   IN T(a.dt, bs, [k \in 1..Len(c2.data) |-> IF c2.data[k] # 0 THEN a2.data[k] ELSE b2.data[k]])

CastTo(t, to) == CASE to = 7 -> Map1(t, "i64", LAMBDA v : v)
                   [] to = 1 -> Map1(t, "f32", LAMBDA v : v)
                   [] to = 9 -> Map1(t, "bool", LAMBDA v : B2I(v # 0))
                   [] OTHER -> ERR

FlattenT(t, axis) == LET a == IF axis < 0 THEN axis + Rank(t) ELSE axis IN
   IF a < 0 \/ a > Rank(t) THEN ERR
   ELSE T(t.dt, <<SeqProd(SubSeq(t.shape, 1, a)), SeqProd(SubSeq(t.shape, a + 1, Rank(t)))>>, t.data)

AxesSet(axes, r) == {NormAxis(axes[j], r) : j \in 1..Len(axes)}
ReduceT(t, axes, keep, kind) ==
   LET S == AxesSet(axes, Rank(t)) IN
   IF -1000 \in S \/ Rank(t) = 0 \/ Cardinality(S) # Len(axes) \/ Numel(t.shape) = 0 THEN ERR
   ELSE CASE kind = "sum" -> Reduce(t, S, keep, LAMBDA u, v : u + v, 0)
          [] kind = "max" -> Reduce(t, S, keep, LAMBDA u, v : Max2(u, v), -BIGV)
          [] kind = "min" -> Reduce(t, S, keep, LAMBDA u, v : Min2(u, v), BIGV)

CumSumT(t, axis) == LET a == NormAxis(axis, Rank(t)) IN
   IF a = -1000 THEN ERR
   ELSE LET Op(idx) == SeqSum([j \in 1..(idx[a + 1] + 1) |-> At(t, [idx EXCEPT ![a + 1] = j - 1])])
        IN FromFn(t.dt, t.shape, Op)

SplitT(t, axis) == LET a == NormAxis(axis, Rank(t)) IN     \* num_outputs = 2, even dimension only
   IF a = -1000 THEN <<ERR, ERR>>
   ELSE LET d == t.shape[a + 1] IN
        IF d % 2 # 0 \/ d = 0 THEN <<ERR, ERR>>
        ELSE <<Slice(t, <<0>>, <<d \div 2>>, <<a>>, <<1>>), Slice(t, <<d \div 2>>, <<d>>, <<a>>, <<1>>)>>

ArithOK(ts) == \A i \in 1..Len(ts) : ts[i].dt \in {"i64", "f32"}
BoolOK(ts) == \A i \in 1..Len(ts) : ts[i].dt = "bool"
SameDt(ts) == \A i \in 1..Len(ts) : ts[i].dt = ts[1].dt

Sem1(op, ts, at) ==
  CASE op = "Add" -> IF ArithOK(ts) /\ SameDt(ts) THEN Map2(ts[1], ts[2], ts[1].dt, LAMBDA p, q : p + q) ELSE ERR
    [] op = "Sub" -> IF ArithOK(ts) /\ SameDt(ts) THEN Map2(ts[1], ts[2], ts[1].dt, LAMBDA p, q : p - q) ELSE ERR
    [] op = "Mul" -> IF ArithOK(ts) /\ SameDt(ts) THEN Map2(ts[1], ts[2], ts[1].dt, LAMBDA p, q : p * q) ELSE ERR
    [] op = "Div" -> IF ArithOK(ts) /\ SameDt(ts) /\ DivOK(ts[1], ts[2]) THEN Map2(ts[1], ts[2], ts[1].dt, LAMBDA p, q : TruncDiv(p, q)) ELSE ERR
    [] op = "Mod" -> IF ts[1].dt = "i64" /\ SameDt(ts) /\ ~HasZero(ts[2]) THEN Map2(ts[1], ts[2], "i64", LAMBDA p, q : PyMod(p, q)) ELSE ERR
    [] op = "Min" -> IF ArithOK(ts) /\ SameDt(ts) THEN Map2(ts[1], ts[2], ts[1].dt, LAMBDA p, q : Min2(p, q)) ELSE ERR
    [] op = "Max" -> IF ArithOK(ts) /\ SameDt(ts) THEN Map2(ts[1], ts[2], ts[1].dt, LAMBDA p, q : Max2(p, q)) ELSE ERR
    [] op = "Sum" -> IF ts[1].dt = "f32" /\ SameDt(ts) THEN Map2(Map2(ts[1], ts[2], ts[1].dt, LAMBDA p, q : p + q), ts[3], ts[1].dt, LAMBDA p, q : p + q) ELSE ERR
    [] op = "Equal" -> IF ArithOK(ts) /\ SameDt(ts) THEN Map2(ts[1], ts[2], "bool", LAMBDA p, q : B2I(p = q)) ELSE ERR
    [] op = "Less" -> IF ArithOK(ts) /\ SameDt(ts) THEN Map2(ts[1], ts[2], "bool", LAMBDA p, q : B2I(p < q)) ELSE ERR
    [] op = "Greater" -> IF ArithOK(ts) /\ SameDt(ts) THEN Map2(ts[1], ts[2], "bool", LAMBDA p, q : B2I(p > q)) ELSE ERR
    [] op = "LessOrEqual" -> IF ArithOK(ts) /\ SameDt(ts) THEN Map2(ts[1], ts[2], "bool", LAMBDA p, q : B2I(p <= q)) ELSE ERR
    [] op = "GreaterOrEqual" -> IF ArithOK(ts) /\ SameDt(ts) THEN Map2(ts[1], ts[2], "bool", LAMBDA p, q : B2I(p >= q)) ELSE ERR
    [] op = "And" -> IF BoolOK(ts) THEN Map2(ts[1], ts[2], "bool", LAMBDA p, q : p * q) ELSE ERR
    [] op = "Or" -> IF BoolOK(ts) THEN Map2(ts[1], ts[2], "bool", LAMBDA p, q : Max2(p, q)) ELSE ERR
    [] op = "Xor" -> IF BoolOK(ts) THEN Map2(ts[1], ts[2], "bool", LAMBDA p, q : B2I(p # q)) ELSE ERR
    [] op = "Not" -> IF BoolOK(ts) THEN Map1(ts[1], "bool", LAMBDA v : 1 - v) ELSE ERR
    [] op = "Neg" -> IF ArithOK(ts) THEN Map1(ts[1], ts[1].dt, LAMBDA v : -v) ELSE ERR
    [] op = "Abs" -> IF ArithOK(ts) THEN Map1(ts[1], ts[1].dt, LAMBDA v : AbsI(v)) ELSE ERR
    [] op = "Sign" -> IF ArithOK(ts) THEN Map1(ts[1], ts[1].dt, LAMBDA v : Sgn(v)) ELSE ERR
    [] op = "Relu" -> IF ts[1].dt = "f32" THEN Map1(ts[1], "f32", LAMBDA v : Max2(v, 0)) ELSE ERR
    [] op = "Identity" -> ts[1]
    [] op = "Where" -> IF ts[1].dt = "bool" /\ ts[2].dt = ts[3].dt THEN Where3(ts[1], ts[2], ts[3]) ELSE ERR
    [] op = "Clip" ->     \* an omitted bound is passed as the tensor NoT
         IF ~ArithOK(<<ts[1]>>) THEN ERR
         ELSE LET lo == IF ts[2].dt = "none" THEN -BIGV ELSE ts[2].data[1]
                  hi == IF ts[3].dt = "none" THEN BIGV ELSE ts[3].data[1]
              IN Map1(ts[1], ts[1].dt, LAMBDA v : Min2(Max2(v, lo), hi))
    [] op = "Cast" -> CastTo(ts[1], at.to)
    [] op = "Reshape" -> Reshape(ts[1], ts[2].data, FALSE)
    [] op = "Transpose" -> Transpose(ts[1], Att(at, "perm", RevPerm(Rank(ts[1]))))
    [] op = "Squeeze" -> Squeeze(ts[1], ts[2].data)
    [] op = "Unsqueeze" -> Unsqueeze(ts[1], ts[2].data)
    [] op = "Concat" -> IF SameDt(ts) THEN Concat(ts, at.axis) ELSE ERR
    [] op = "Gather" -> IF ts[2].dt = "i64" THEN Gather(ts[1], ts[2], Att(at, "axis", 0)) ELSE ERR
    [] op = "Slice" -> Slice(ts[1], ts[2].data, ts[3].data, ts[4].data, ts[5].data)
    [] op = "Shape" -> ShapeOf(ts[1])
    [] op = "Size" -> Scalar("i64", Numel(ts[1].shape))
    [] op = "Expand" -> IF \A i \in 1..Len(ts[2].data) : ts[2].data[i] >= 1 THEN Expand(ts[1], ts[2].data) ELSE ERR
    [] op = "Flatten" -> FlattenT(ts[1], Att(at, "axis", 1))
    [] op = "ReduceSum" -> IF ArithOK(<<ts[1]>>) THEN ReduceT(ts[1], ts[2].data, Att(at, "keepdims", 1) = 1, "sum") ELSE ERR
    [] op = "ReduceMax" -> IF ArithOK(<<ts[1]>>) THEN ReduceT(ts[1], ts[2].data, Att(at, "keepdims", 1) = 1, "max") ELSE ERR
    [] op = "ReduceMin" -> IF ArithOK(<<ts[1]>>) THEN ReduceT(ts[1], ts[2].data, Att(at, "keepdims", 1) = 1, "min") ELSE ERR
    [] op = "CumSum" -> IF ArithOK(<<ts[1]>>) /\ Rank(ts[2]) = 0 THEN CumSumT(ts[1], ts[2].data[1]) ELSE ERR
    [] OTHER -> ERR

NoT == [dt |-> "none", shape |-> <<>>, data |-> <<>>]       \* an omitted optional input (None)
Sem(op, ts, at) ==
  IF \E i \in 1..Len(ts) : IsErr(ts[i]) THEN (IF op = "Split" THEN <<ERR, ERR>> ELSE <<ERR>>)
  ELSE IF op = "Split" THEN SplitT(ts[1], Att(at, "axis", 0))
  ELSE <<Sem1(op, ts, at)>>

\* the functions that can be called / inlined (meaning by tag; their bodies are read from the real objects)
FSem(tag, ts, alpha) ==
  IF AnyErr(ts) THEN (IF tag = "addmul" THEN <<ERR, ERR>> ELSE <<ERR>>)
  ELSE CASE tag = "scale" -> <<Sem1("Add", <<Sem1("Mul", <<ts[1], Scalar(ts[1].dt, alpha)>>, <<>>), ts[2]>>, <<>>)>>
         [] tag = "addmul" -> <<Sem1("Add", ts, <<>>), Sem1("Mul", ts, <<>>)>>
         [] tag = "affine" -> <<Sem1("Add", <<Sem1("Mul", <<ts[1], Scalar(ts[1].dt, 2)>>, <<>>), Scalar(ts[1].dt, 1)>>, <<>>)>>
         [] OTHER -> <<ERR>>
=============================================================================
