SPECIFICATION Spec
CONSTANTS
  Deviations <- RealDevs
  MaxExtra = 2
  AttrModes <- ModesQuick
  VarNone = FALSE
INVARIANT SomeDefaulted
CHECK_DEADLOCK FALSE
