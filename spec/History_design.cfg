\* design level: no deviations, static catalogue, every operation, histories of length <= 2
SPECIFICATION Spec
CONSTANTS
  Deviations <- NoDevs
  MaxLen = 2
  Alphabet <- AllOps
  UseRecorded = FALSE
  EmitLen = 0
INVARIANT HistoryIndependent
INVARIANT GlobalsRestored
CHECK_DEADLOCK FALSE
