SPECIFICATION Spec
INVARIANT SomeSibling
CHECK_DEADLOCK FALSE
