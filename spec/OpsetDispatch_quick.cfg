SPECIFICATION Spec
CONSTANTS
  Deviations <- RealDevs
  MaxExtra = 2
  AttrModes <- ModesQuick
  VarNone = FALSE
INVARIANT Explained
INVARIANT TrimInv
CHECK_DEADLOCK FALSE
