SPECIFICATION Spec
CONSTANTS
  Deviations <- RealDevs
  MaxExtra = 2
  AttrModes <- ModesQuick
  VarNone = FALSE
  ReqVersions <- ReqQuick
INVARIANT Explained
INVARIANT TrimInv
CHECK_DEADLOCK FALSE
