SPECIFICATION MSpec
CONSTANTS
  Deviations <- AllDevs
  Families <- AllFamilies
  Wide = FALSE
  MaxSteps = 6
  InDts <- InDtsQ
  InShapes <- InShapesQ
INVARIANT PipelineOK
INVARIANT EnvWellFormed
INVARIANT EmitModules
CHECK_DEADLOCK FALSE
