SPECIFICATION Spec
CONSTANTS
  Deviations <- AllDevs
  Fams <- FamsNorm
  Modes <- ModesChain
  Big = FALSE
INVARIANT NeverSkipFusions
CHECK_DEADLOCK FALSE
