SPECIFICATION Spec
CONSTANTS
  Deviations <- AllDevs
  Fams <- FamsAll
  Modes <- ModesAll
  Big = FALSE
INVARIANT NeverSkipFusions
CHECK_DEADLOCK FALSE
