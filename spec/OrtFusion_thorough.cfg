SPECIFICATION Spec
CONSTANTS
  Deviations <- AllDevs
  Fams <- FamsAll
  Modes <- ModesAll
  Big = TRUE
INVARIANT DeviationsExplain
INVARIANT NoSpuriousBlame
INVARIANT ProtocolOK
INVARIANT EmitCases
CHECK_DEADLOCK FALSE
