SPECIFICATION Spec
CONSTANTS
  Deviations <- AllDevs
  Ranks <- R2
  Big = FALSE
INVARIANT NeverWrong
CHECK_DEADLOCK FALSE
