SPECIFICATION Spec
CONSTANTS
  Deviations <- AllDevs
  Big = FALSE
INVARIANT NeverWrong
CHECK_DEADLOCK FALSE
