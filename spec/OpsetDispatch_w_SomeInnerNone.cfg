SPECIFICATION Spec
CONSTANTS
  Deviations <- RealDevs
  MaxExtra = 2
  AttrModes <- ModesQuick
  VarNone = FALSE
INVARIANT SomeInnerNone
CHECK_DEADLOCK FALSE
