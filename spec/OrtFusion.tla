------------------------------ MODULE OrtFusion ------------------------------
(* C19: ONNX Runtime fusions preserve numerical results.                                          *)
(*                                                                                                *)
(* What this module states (and TLC checks):                                                      *)
(*  (i)   the PIPELINE PROTOCOL of onnxscript/rewriter/ort_fusions/_core.py: optimize_for_ort =   *)
(*        gemm rule; fuse_xformers (= _pre_optimize; the 18 fuse_* steps in their order, CSE in   *)
(*        the middle, mha_bias/attention called only when mha1+mha2 > 0; final optimize); the ORT *)
(*        pattern rules; the ORT passes - one named action per step, over an abstract model that  *)
(*        records WHICH PATTERN INSTANCES / FUSED OPERATORS ARE PRESENT (a bag of tags `ops`);    *)
(*  (ii)  the DIMENSION-BINDING UNIFIER _fusion_utils.check_shape(_bool): first use binds, later  *)
(*        uses must agree (CheckShape / CheckAll below, used by every guard that the code writes  *)
(*        with it);                                                                               *)
(*  (iii) per fusion F the GUARD Code_F(cfg, ops) transcribed from pattern()+check() of the rule   *)
(*        class, and Safe_F(cfg): what the fused contrib operator demands (ORT operator spec:     *)
(*        layouts, divisibility, broadcasting) and what the rewrite forwards (scale, interleaved, *)
(*        mask meaning).  Design property  Sound: every fusion that fired is Safe.                *)
(*  (iv)  the NAMED DEVIATIONS: configurations in which the code's guard holds but Safe does not  *)
(*        (DevsOf_F).  A fusion fires iff Code_F /\ DevsOf_F \subseteq Deviations; hence with     *)
(*        Deviations = {} (the design) Sound must hold - a configuration that the code fuses      *)
(*        unsafely and that NO named deviation covers makes TLC report Sound violated - and with  *)
(*        Deviations = AllDevs (the implementation model) the module predicts, per configuration  *)
(*        and pipeline, the fusion counts, the fused operators left in the model and whether ORT  *)
(*        can run it / returns the same values.                                                   *)
(*                                                                                                *)
(* The numerical half of the property (the fused kernels return the same numbers) has no TLA+     *)
(* semantics; it is an observable equality on onnxruntime evaluated by harness/c19.py on the      *)
(* model that harness builds for each configuration printed here (one C19CASE line per terminal   *)
(* state).  spec/FusedMatMul.tla treats the one family that has exact semantics (fused MatMul).   *)
EXTENDS Integers, Sequences, FiniteSets, TLC, Json

CONSTANTS Deviations,    \* subset of AllDevs
          Fams,          \* families of pattern instances to enumerate
          Modes,         \* subset of {"chain", "ort"}: the single fuse_* chain / optimize_for_ort
          Big            \* BOOLEAN: thorough bounds

VARIABLES cfg, mode, pc, ops, fired, why
vars == <<cfg, mode, pc, ops, fired, why>>
NoDevs == {}
FamsAll == {"rms", "skipln", "gelu", "softmax", "groupnorm", "rotary", "sdpa", "mha", "gqa"}
ModesAll == {"chain", "ort"}
ModesChain == {"chain"}
FamsGelu == {"gelu"}
FamsMha == {"mha"}
FamsGqa == {"gqa"}
FamsNorm == {"rms", "skipln"}

AllDevs == {"bias_gelu_bias_not_last_dim", "group_norm_gamma_not_per_channel",
            "cos_sin_cache_1d_position_ids_batch", "attn_bias_key_axis_broadcast",
            "mha_rotary_interleaved_dropped", "mha_bias_shape_unchecked",
            "gqa_mask_check_vacuous", "gqa_scale_dropped", "gqa_head_size_not_multiple_of_16",
            "gqa_batch_gt1_with_past"}
\* what a deviation does to the observable: "reject" - ORT refuses to load or run the fused model;
\* "maydiff" - ORT runs it and the outputs may differ; "nokernel" - not observable on the CPU EP
Effect(d) == CASE d \in {"gqa_mask_check_vacuous", "gqa_scale_dropped", "mha_rotary_interleaved_dropped"} -> "maydiff"
               [] d = "group_norm_gamma_not_per_channel" -> "nokernel"
               [] OTHER -> "reject"

-----------------------------------------------------------------------------
(* (ii) the unifier: bindings map symbolic names to dims; 0 = unbound.  Real dims are >= 1,        *)
(* symbolic (dim_param) dims are negative numbers: the code compares them with == / != as well.   *)
Names == {"B", "S", "D", "H", "Dh", "Dv", "Skv", "Spast", "Dk", "Dkv", "Hkv", "P", "Dq",
          "Dh_q", "Dh_k", "Dh_v", "B_or_1", "H_or_1", "S_or_1", "St"}
U0 == [ok |-> TRUE, b |-> [n \in Names |-> 0]]
NOSHAPE == <<0>>                 \* val.shape is None
RECURSIVE BindDims(_, _, _, _)
BindDims(u, shape, names, i) ==
    IF i > Len(names) THEN u
    ELSE LET n == names[i]
             d == shape[i]
         IN IF u.b[n] = 0 THEN BindDims([ok |-> TRUE, b |-> [u.b EXCEPT ![n] = d]], shape, names, i + 1)
            ELSE IF u.b[n] = d THEN BindDims(u, shape, names, i + 1)
            ELSE [ok |-> FALSE, b |-> u.b]
\* check_shape_bool(bindings, val, names); a failed unification stays failed
CheckShape(u, shape, names) ==
    IF ~u.ok THEN u
    ELSE IF shape = NOSHAPE \/ Len(shape) # Len(names) THEN [ok |-> FALSE, b |-> u.b]
    ELSE BindDims(u, shape, names, 1)
RECURSIVE CheckAll(_, _)
CheckAll(u, pairs) == IF pairs = <<>> THEN u ELSE CheckAll(CheckShape(u, pairs[1][1], pairs[1][2]), Tail(pairs))
Unifies(pairs) == CheckAll(U0, pairs).ok
IsInt(d) == d > 0                \* isinstance(dim, int)

\* the unifier's own contract, checked by TLC at start-up on a small domain: a binding never changes,
\* and a second use with a different value fails
ASSUME \A a, b, c, d \in {-1, 1, 2, 3} :
          LET u1 == CheckShape(U0, <<a, b>>, <<"B", "S">>)
              u2 == CheckShape(u1, <<c, d>>, <<"S", "D">>)
          IN /\ u1.ok /\ u1.b["B"] = a /\ u1.b["S"] = b
             /\ (u2.ok <=> b = c)
             /\ u2.b["B"] = a /\ u2.b["S"] = b
             /\ (u2.ok => u2.b["D"] = d)
ASSUME ~CheckShape(U0, <<1, 2, 3>>, <<"B", "S">>).ok /\ ~CheckShape(U0, NOSHAPE, <<"B">>).ok

-----------------------------------------------------------------------------
(* (i) pipeline protocol *)
XF == <<"pre", "erf_gelu", "rms_normalization", "skip_layer_normalization", "skip_rms_normalization",
        "rotary_embedding", "cos_sin_cache", "cse", "partial_rotary_embedding", "sdpa", "gqa",
        "packed_qkv_for_gqa", "mha1", "mha2", "mha_scale", "mha_bias", "attention", "gelu",
        "bias_gelu", "sdpa_via_mha", "optimize">>
ORTPIPE == <<"gemm_rule">> \o XF \o <<"ort_rules", "passes">>
Chain(f) == CASE f = "rms" -> <<"rms_normalization", "skip_rms_normalization">>
              [] f = "skipln" -> <<"skip_layer_normalization">>
              [] f = "gelu" -> <<"erf_gelu", "gelu", "bias_gelu">>
              [] f = "softmax" -> <<"ort_rules">>
              [] f = "groupnorm" -> <<"ort_rules">>
              [] f = "rotary" -> <<"rotary_embedding", "cos_sin_cache", "partial_rotary_embedding">>
              [] f = "sdpa" -> <<"sdpa", "sdpa_via_mha">>
              [] f = "mha" -> <<"sdpa", "mha1", "mha2", "mha_scale", "mha_bias", "attention", "sdpa_via_mha">>
              [] f = "gqa" -> <<"pre", "sdpa", "gqa", "packed_qkv_for_gqa", "sdpa_via_mha">>
Pipe == IF mode = "ort" THEN ORTPIPE ELSE Chain(cfg.fam)
Counted == {"erf_gelu", "rms_normalization", "skip_layer_normalization", "skip_rms_normalization",
            "rotary_embedding", "cos_sin_cache", "partial_rotary_embedding", "sdpa", "gqa",
            "packed_qkv_for_gqa", "mha1", "mha2", "mha_scale", "mha_bias", "attention", "gelu",
            "bias_gelu", "sdpa_via_mha", "ort_rules"}
Cur == IF pc <= Len(Pipe) THEN Pipe[pc] ELSE "done"

\* tags = the operator names harness/c19.py counts in the real model (census), plus pattern tags "p:..."
Tags == {"p:rms", "p:skipadd", "p:ln", "p:erf", "p:tanh", "p:biasadd", "p:softmax_upcast", "p:instnorm", "p:rope",
         "p:partial", "p:sdpa", "p:qkv", "p:preq", "p:gqawrap", "p:packed", "p:folded",
         "Gelu", "SimplifiedLayerNormalization", "com.microsoft::SkipSimplifiedLayerNormalization",
         "com.microsoft::SkipLayerNormalization", "com.microsoft::Gelu", "com.microsoft::FastGelu",
         "com.microsoft::BiasGelu", "com.microsoft::GroupNorm", "ai.onnxruntime._fusion::RotaryEmbedding",
         "com.microsoft::RotaryEmbedding", "ai.onnxruntime._fusion::SDPA", "com.microsoft::MultiHeadAttention",
         "com.microsoft::Attention", "com.microsoft::GroupQueryAttention", "com.microsoft::FusedMatMul"}
PatTags == {"p:rms", "p:skipadd", "p:ln", "p:erf", "p:tanh", "p:biasadd", "p:softmax_upcast", "p:instnorm", "p:rope",
            "p:partial", "p:sdpa", "p:qkv", "p:preq", "p:gqawrap", "p:packed", "p:folded"}
Bag0 == [t \in Tags |-> 0]
Has(t) == ops[t] > 0
Move(bag, from, to, n) == [bag EXCEPT ![from] = @ - n, ![to] = @ + n]

-----------------------------------------------------------------------------
(* configuration spaces: one record per pattern instance; near-misses are explicit field values *)
BOOL == {FALSE, TRUE}
DT == {"f32", "f16"}
Sz3 == IF Big THEN {<<2, 3, 8>>, <<1, 1, 4>>, <<1, 3, 8>>} ELSE {<<2, 3, 8>>}
SkipCombos == IF Big THEN {<<"none", "none", "full">>} \cup
                          {<<sk, bi, ss>> : sk \in {"plain", "swap"}, bi \in {"none", "pre", "post"}, ss \in {"full", "b1", "sd"}}
              ELSE {<<"none", "none", "full">>, <<"plain", "none", "full">>, <<"swap", "pre", "full">>, <<"plain", "post", "full">>,
                    <<"plain", "none", "b1">>, <<"swap", "none", "sd">>}
\* miss: one near-miss at a time ("axis": the same axis spelled 2; "axis1": another legal axis; "attrs": attributes left to
\* their defaults; "expo": x**3).  sln: "pat" the primitive pattern | "op" / "op_noeps": SimplifiedLayerNormalization already in
\* the source, with epsilon spelled out / omitted (operator default 1e-5) - what skip_rms has to forward
RmsCfgs == {[fam |-> "rms", dt |-> dt, cast |-> ca, mulorder |-> mo, eps |-> e, miss |-> mi, sln |-> "pat",
             skip |-> sc[1], bias |-> sc[2], skipshape |-> sc[3], B |-> z[1], S |-> z[2], D |-> z[3]] :
            dt \in DT, ca \in BOOL, mo \in {0, 1}, e \in (IF Big THEN {0, 1, 2} ELSE {2}),
            mi \in {"none", "axis", "axis1", "attrs", "expo"}, sc \in SkipCombos, z \in Sz3}
           \cup
           {[fam |-> "rms", dt |-> "f32", cast |-> FALSE, mulorder |-> 0, eps |-> e, miss |-> "none", sln |-> sl,
             skip |-> sc[1], bias |-> sc[2], skipshape |-> "full", B |-> 2, S |-> 3, D |-> 8] :
            e \in {0, 2}, sl \in {"op", "op_noeps"},
            sc \in {<<"none", "none">>, <<"plain", "none">>, <<"swap", "pre">>, <<"plain", "post">>}}
SkipLnCfgs == {[fam |-> "skipln", dt |-> dt, skip |-> sk, skipshape |-> ss, bias |-> bo[1], biasorder |-> bo[2],
                eps |-> e, miss |-> mi, B |-> z[1], S |-> z[2], D |-> z[3]] :
               dt \in DT, sk \in {"plain", "swap"}, ss \in {"full", "b1", "sd"},
               bo \in {<<"none", 0>>, <<"pre", 0>>, <<"pre", 1>>, <<"post", 0>>, <<"post", 1>>},
               \* eps: index into the epsilon menu; 3 = attribute omitted (ONNX default 1e-5, the contrib operator's own default differs)
               e \in (IF Big THEN {0, 2, 3} ELSE {2, 3}), mi \in {"none", "axispos", "axisabsent", "nobeta"}, z \in Sz3}
GeluBias == {"none", "vec", "vecswap", "one", "row"}
GeluCfgs == {[fam |-> "gelu", dt |-> dt, form |-> f, swap |-> sw, kconst |-> k, bias |-> b, B |-> 2, S |-> 3, D |-> d] :
             dt \in DT, f \in {"tanh", "erf_a", "erf_b", "erf_c"}, sw \in BOOL, k \in {0, 1}, b \in GeluBias,
             d \in (IF Big THEN {8, 1} ELSE {8})}
            \cup {[fam |-> "gelu", dt |-> dt, form |-> f, swap |-> FALSE, kconst |-> 0, bias |-> b, B |-> 2, S |-> 3, D |-> d] :
             dt \in DT, f \in {"op", "op_none", "op_tanh", "msft"}, b \in GeluBias, d \in (IF Big THEN {8, 1} ELSE {8})}
SoftmaxCfgs == {[fam |-> "softmax", dt |-> dt, up |-> u, axis |-> ax, down |-> dn, B |-> 2, S |-> 3, D |-> 8] :
                dt \in DT, u \in BOOL, ax \in {"absent", "neg", "mid"}, dn \in DT}
GroupNormCfgs == {[fam |-> "groupnorm", dt |-> dt, N |-> 2, C |-> cg[1], G |-> cg[2], H |-> 2, W |-> 3, wshape |-> w,
                   ones |-> o, eps |-> e] :
                  dt \in DT, cg \in {<<4, 1>>, <<4, 2>>, <<6, 3>>, <<1, 1>>}, w \in {"c11", "111"}, o \in BOOL, e \in {0, 2}}
RotaryCfgs == {c \in {[fam |-> "rotary", dt |-> dc[1], cast |-> dc[2], Dh |-> dr[1], R |-> dr[2], posrank |-> pr, expand |-> ex,
                split |-> sp, off |-> of, two |-> tw, mulswap |-> ms, B |-> z[1], H |-> z[2], S |-> z[3]] :
               dc \in {<<"f32", FALSE>>, <<"f32", TRUE>>, <<"f16", TRUE>>},
               dr \in (IF Big THEN {<<4, 4>>, <<8, 8>>, <<8, 4>>, <<4, 2>>} ELSE {<<4, 4>>, <<8, 4>>, <<4, 2>>}),
               pr \in {1, 2}, ex \in BOOL, sp \in {"half", "uneven"},
               of \in (IF Big THEN {0, 5} ELSE {5}), tw \in {0, 1}, ms \in BOOL,
               z \in (IF Big THEN {<<2, 2, 3>>, <<1, 2, 3>>, <<2, 1, 1>>} ELSE {<<2, 2, 3>>, <<1, 2, 3>>})} :
              ~(c.split = "uneven" /\ c.R < 4)}
\* scale forms <<qs, ks, qks, sc>>: where the scaling is applied and whether the product is 1/sqrt(Dh)
ScaleFormsSmall == {<<"none", "none", "none", "one">>, <<"none", "none", "mul", "default">>, <<"div", "none", "none", "default">>,
                    <<"mul", "none", "div", "other">>}
ScaleForms == {<<"none", "none", "none", "one">>, <<"none", "none", "mul", "default">>, <<"none", "none", "div", "default">>,
               <<"mul", "mul", "none", "default">>, <<"div", "none", "none", "default">>, <<"none", "mul", "none", "other">>,
               <<"none", "none", "mul", "other">>, <<"mul", "none", "div", "other">>}
Masks == {"none", "bhst", "b1st", "11st", "b11t", "1hst", "st", "1t", "t", "hst", "b1s1"}
\* <<B, H, S, T, Dh, Dv>>
SdpaSz == IF Big THEN {<<2, 2, 3, 4, 4, 4>>, <<1, 1, 1, 1, 2, 2>>, <<2, 4, 3, 3, 8, 4>>, <<1, 2, 1, 5, 4, 8>>}
          ELSE {<<2, 2, 3, 4, 4, 8>>}
SdpaMasks == IF Big THEN Masks ELSE {"none", "bhst", "b11t", "st", "t", "hst", "b1s1"}
\* sax: the Softmax axis: "neg" = -1 | "pos" = 3 (the same axis, spelled differently) | "absent" (default -1) | "two" / "one":
\* another legal axis - not attention at all
SdpaCfgs == {[fam |-> "sdpa", dt |-> dt, kfmt |-> kf, qs |-> sf[1], ks |-> sf[2], qks |-> sf[3], sc |-> sf[4], mask |-> m,
              nanfix |-> nf, sax |-> "neg", symdh |-> FALSE, B |-> z[1], H |-> z[2], S |-> z[3], T |-> z[4], Dh |-> z[5], Dv |-> z[6]] :
             dt \in DT, kf \in {"t4", "r3", "bshd"}, sf \in (IF Big THEN ScaleForms ELSE ScaleFormsSmall), m \in SdpaMasks, nf \in BOOL, z \in SdpaSz}
            \cup
            {[fam |-> "sdpa", dt |-> dt, kfmt |-> kf, qs |-> sf[1], ks |-> sf[2], qks |-> sf[3], sc |-> sf[4], mask |-> m,
              nanfix |-> FALSE, sax |-> sx, symdh |-> FALSE, B |-> 2, H |-> 2, S |-> 3, T |-> 4, Dh |-> 4, Dv |-> 8] :
             dt \in (IF Big THEN DT ELSE {"f32"}), kf \in {"t4", "r3", "bshd"},
             sf \in {<<"none", "none", "mul", "default">>, <<"none", "none", "div", "default">>, <<"none", "mul", "none", "other">>},
             m \in {"none", "b1st"}, sx \in {"pos", "absent", "two", "one"}}
            \cup
            \* head size and query length symbolic (dim_param) in the declared shapes: the unifier binds symbols, the scale of THIS match
            \* must reach the fused operator although 1/sqrt(head size) cannot be computed (sdpa.py: `if not isinstance(head_size, int)`)
            {[fam |-> "sdpa", dt |-> dt, kfmt |-> kf, qs |-> sf[1], ks |-> sf[2], qks |-> sf[3], sc |-> sf[4], mask |-> m,
              nanfix |-> FALSE, sax |-> "neg", symdh |-> TRUE, B |-> 2, H |-> 2, S |-> 3, T |-> 4, Dh |-> 4, Dv |-> 8] :
             dt \in (IF Big THEN DT ELSE {"f32"}), kf \in {"t4", "bshd"},
             sf \in {<<"none", "none", "none", "one">>, <<"none", "none", "mul", "default">>, <<"none", "mul", "none", "other">>,
                     <<"none", "none", "mul", "other">>, <<"mul", "none", "div", "other">>},
             m \in {"none", "b1st"}}
MhaBias == IF Big THEN {<<"none", "none", "none">>, <<"vec", "vec", "vec">>, <<"vec", "none", "none">>, <<"none", "none", "vec">>,
                        <<"one", "none", "none">>, <<"full", "vec", "vec">>, <<"row", "none", "vec">>}
           ELSE {<<"none", "none", "none">>, <<"vec", "vec", "vec">>, <<"one", "none", "none">>, <<"full", "vec", "vec">>}
MhaMasks == IF Big THEN {"none", "bhst", "b1st", "11st", "b11t", "st", "1t", "hst", "b1s1"}
            ELSE {"none", "b1st", "b11t", "st", "hst", "b1s1"} \ {"b1st"}
\* <<B, S, T, H, Dh>>  (T is used only without projections: with them key/value come from the same input)
MhaSz == IF Big THEN {<<2, 3, 4, 2, 4>>, <<1, 1, 1, 1, 2>>} ELSE {<<2, 3, 4, 2, 4>>}
MhaCfgs == {[fam |-> "mha", dt |-> dt, proj |-> pj, bq |-> bb[1], bk |-> bb[2], bv |-> bb[3], kfmt |-> kp[1], past |-> kp[2],
             mask |-> m, qs |-> sf[1], ks |-> sf[2], qks |-> sf[3], sc |-> sf[4], nanfix |-> FALSE, preq |-> pq[1], preqpos |-> pq[2], rot |-> "none",
             B |-> z[1], S |-> z[2], T |-> (IF pj = "none" THEN z[3] ELSE z[2]), H |-> z[4], Dh |-> z[5]] :
            dt \in DT, pj \in {"none", "sep", "packed"}, bb \in MhaBias, kp \in {<<"t4", 0>>, <<"bshd", 0>>, <<"t4", 2>>},
            m \in MhaMasks,
            sf \in (IF Big THEN {<<"none", "none", "mul", "default">>, <<"div", "none", "none", "other">>} ELSE {<<"div", "none", "none", "other">>}),
            \* preq: the 3-D query is multiplied by a constant; preqpos: "after" its bias was added (the Mul feeds the head split) or
            \* "before" (the bias Add feeds the head split: the Mul may NOT be folded into MultiHeadAttention.scale once the bias is an input)
            pq \in {<<FALSE, "after">>, <<TRUE, "after">>, <<TRUE, "before">>}, z \in MhaSz}
           \cup
           {[fam |-> "mha", dt |-> dt, proj |-> "none", bq |-> "none", bk |-> "none", bv |-> "none", kfmt |-> "t4", past |-> pa,
             mask |-> m, qs |-> "none", ks |-> "none", qks |-> "mul", sc |-> sc, nanfix |-> FALSE, preq |-> FALSE, preqpos |-> "after", rot |-> ro,
             B |-> 2, S |-> 3, T |-> 3, H |-> 2, Dh |-> 4] :
            dt \in DT, pa \in {0, 2}, m \in {"none", "b1st", "st"}, sc \in {"default", "other"}, ro \in {"plain", "plain0", "inter"}}
GqaCfgs == {[fam |-> "gqa", dt |-> dt, B |-> b, S |-> s, P |-> p, H |-> hh[1], Hkv |-> hh[2], Dh |-> dh, mask |-> m, sc |-> sc,
             inter |-> it, packed |-> pk] :
            dt \in (IF Big THEN DT ELSE {"f32"}), b \in {1, 2}, s \in {1, 3}, p \in {0, 2},
            hh \in (IF Big THEN {<<2, 1>>, <<2, 2>>, <<4, 2>>} ELSE {<<2, 1>>, <<2, 2>>}),
            dh \in {8, 16}, m \in {"causal", "zeros", "input"}, sc \in {"default", "other"}, it \in (IF Big THEN {0, 1, 2} ELSE {1}), pk \in BOOL}   \* inter: 0 attribute omitted | 1 | 2 = explicit 0
CfgsOf(f) == CASE f = "rms" -> RmsCfgs [] f = "skipln" -> SkipLnCfgs [] f = "gelu" -> GeluCfgs
               [] f = "softmax" -> SoftmaxCfgs [] f = "groupnorm" -> GroupNormCfgs [] f = "rotary" -> RotaryCfgs
               [] f = "sdpa" -> SdpaCfgs [] f = "mha" -> MhaCfgs [] f = "gqa" -> GqaCfgs

\* the abstract model of the instance the builder makes for a configuration
Ops0(c) ==
    CASE c.fam = "rms" -> [Bag0 EXCEPT !["p:rms"] = IF c.sln = "pat" THEN 1 ELSE 0,
                                     !["SimplifiedLayerNormalization"] = IF c.sln = "pat" THEN 0 ELSE 1,
                                     !["p:skipadd"] = IF c.skip = "none" THEN 0 ELSE 1]
      [] c.fam = "skipln" -> [Bag0 EXCEPT !["p:ln"] = 1, !["p:skipadd"] = 1]
      [] c.fam = "gelu" -> [Bag0 EXCEPT !["p:erf"] = IF c.form \in {"erf_a", "erf_b", "erf_c"} THEN 1 ELSE 0,
                                        !["p:tanh"] = IF c.form = "tanh" THEN 1 ELSE 0,
                                        !["Gelu"] = IF c.form \in {"op", "op_none", "op_tanh"} THEN 1 ELSE 0,
                                        !["com.microsoft::Gelu"] = IF c.form = "msft" THEN 1 ELSE 0,
                                        !["p:biasadd"] = IF c.bias = "none" THEN 0 ELSE 1]
      [] c.fam = "softmax" -> [Bag0 EXCEPT !["p:softmax_upcast"] = IF c.up THEN 1 ELSE 0]
      [] c.fam = "groupnorm" -> [Bag0 EXCEPT !["p:instnorm"] = 1]
      [] c.fam = "rotary" -> [Bag0 EXCEPT !["p:rope"] = 1 + c.two, !["p:partial"] = IF c.R < c.Dh THEN 1 + c.two ELSE 0]
      [] c.fam = "sdpa" -> [Bag0 EXCEPT !["p:sdpa"] = 1]
      [] c.fam = "mha" -> [Bag0 EXCEPT !["p:sdpa"] = 1, !["p:qkv"] = 1, !["p:preq"] = IF c.preq THEN 1 ELSE 0,
                                       !["com.microsoft::RotaryEmbedding"] = IF c.rot = "none" THEN 0 ELSE 2]
      [] c.fam = "gqa" -> [Bag0 EXCEPT !["p:sdpa"] = 1, !["p:gqawrap"] = 1, !["p:packed"] = IF c.packed THEN 1 ELSE 0,
                                       !["com.microsoft::RotaryEmbedding"] = 2]

-----------------------------------------------------------------------------
(* shapes of the values the guards look at *)
SkipShape(c) == CASE c.skipshape = "full" -> <<c.B, c.S, c.D>> [] c.skipshape = "b1" -> <<1, c.S, c.D>> [] OTHER -> <<c.S, c.D>>
\* total key/value length seen by the attention operator
Tot(c) == IF c.fam = "mha" THEN c.T + c.past ELSE c.T
MaskShape(c) ==
    LET B == c.B H == c.H S == c.S T == Tot(c) IN
    CASE c.mask = "bhst" -> <<B, H, S, T>> [] c.mask = "b1st" -> <<B, 1, S, T>> [] c.mask = "11st" -> <<1, 1, S, T>>
      [] c.mask = "b11t" -> <<B, 1, 1, T>> [] c.mask = "1hst" -> <<1, H, S, T>> [] c.mask = "st" -> <<S, T>>
      [] c.mask = "1t" -> <<1, T>> [] c.mask = "t" -> <<T>> [] c.mask = "hst" -> <<H, S, T>> [] c.mask = "b1s1" -> <<B, 1, S, 1>>
      [] OTHER -> <<>>
Max2(a, b) == IF a > b THEN a ELSE b
\* Expand(mask, [1,1,S,1]) as the rewrites of mha.py / sdpa_via_mha.py emit it
Pad4(s) == [i \in 1..4 |-> IF i <= 4 - Len(s) THEN 1 ELSE s[i - (4 - Len(s))]]
Expanded(c) == LET m == Pad4(MaskShape(c)) IN <<m[1], m[2], Max2(m[3], c.S), m[4]>>
\* ORT MultiHeadAttention / Attention: attention_bias has shape (B or 1, H or 1, S, total_sequence_length)
ValidAttnBias(sh, c) == /\ Len(sh) = 4 /\ sh[1] \in {1, c.B} /\ sh[2] \in {1, c.H} /\ sh[3] = c.S /\ sh[4] = Tot(c)

-----------------------------------------------------------------------------
(* (iii) guards: Code_F transcribes pattern() + check(); DevsOf_F names where Code_F holds but the fused operator
   is not valid / not equivalent; Safe_F is stated from the operator's side *)

\* ---- rms_normalization.py: Pow(x,2), ReduceMean([-1], keepdims=1, noop_with_empty_axes=0) spelled out; stash type f32/f64
RmsCode(c) == c.fam = "rms" /\ Has("p:rms") /\ c.miss = "none" /\ (c.dt = "f32" \/ c.cast)
\* ---- skip_normalization.py (SkipRmsNormFusion): three rules (pre-bias, post-bias, no bias), check_shape on input/skip/gamma/bias
SkipRmsCode(c) == /\ c.fam = "rms" /\ Has("SimplifiedLayerNormalization") /\ Has("p:skipadd")
                  /\ Unifies(<< <<<<c.B, c.S, c.D>>, <<"B", "S", "D">>>>, <<SkipShape(c), <<"B", "S", "D">>>>,
                                <<<<c.D>>, <<"D">>>> >>)
\* ---- SkipLayerNormFusion: LayerNormalization(skip_sum, gamma, beta, axis=-1); Add(bias, .) is not matched by the bias rules
SkipLnCode(c) == /\ c.fam = "skipln" /\ Has("p:ln") /\ c.miss = "none"
                 /\ ~(c.bias = "post" /\ c.biasorder = 1)
                 /\ Unifies(<< <<<<c.B, c.S, c.D>>, <<"B", "S", "D">>>>, <<SkipShape(c), <<"B", "S", "D">>>>,
                               <<<<c.D>>, <<"D">>>>, <<<<c.D>>, <<"D">>>> >>)
\* ---- erfgelu.py: 0.5*(x*(erf(x/sqrt2)+1)) and x*(0.5*(erf(..)+1)), constants within rel 1e-5 (f16 constants are not)
ErfGeluCode(c) == /\ c.fam = "gelu" /\ Has("p:erf") /\ c.dt = "f32" /\ c.kconst = 0
                  /\ ((c.form = "erf_a" /\ c.swap) \/ (c.form = "erf_b" /\ ~c.swap) \/ (c.form = "erf_c" /\ ~c.swap))
\* ---- gelu.py: tanh form -> FastGelu; (x*(erf+1))*0.5 -> Gelu
GeluTanhCode(c) == c.fam = "gelu" /\ Has("p:tanh") /\ c.dt = "f32" /\ c.kconst = 0 /\ ~c.swap
GeluErfCode(c) == /\ c.fam = "gelu" /\ Has("p:erf") /\ c.dt = "f32" /\ c.kconst = 0
                  /\ ((c.form = "erf_a" /\ ~c.swap) \/ (c.form = "erf_b" /\ c.swap))
\* ---- bias_gelu.py: Gelu(Add(input, bias)) both operand orders; approximate != tanh; bias of rank 1
BiasGeluCode(c) == /\ c.fam = "gelu" /\ Has("p:biasadd") /\ c.bias \in {"vec", "vecswap", "one"}
                   /\ (Has("com.microsoft::Gelu") \/ (Has("Gelu") /\ c.form # "op_tanh"))
BiasLen(c) == IF c.bias = "one" THEN 1 ELSE c.D
BiasGeluSafe(c) == BiasLen(c) = c.D                 \* ORT BiasGelu: bias is 1-D of the size of the input's last dimension
BiasGeluDevs(c) == IF BiasLen(c) # c.D THEN {"bias_gelu_bias_not_last_dim"} ELSE {}
\* ---- softmax.py: Cast(f16->f32); Softmax; Cast(->f16)
SoftmaxCode(c) == c.fam = "softmax" /\ Has("p:softmax_upcast") /\ c.dt = "f16" /\ c.down = "f16"
\* ---- instance_to_group_normalization.py
GroupNormCode(c) == c.fam = "groupnorm" /\ Has("p:instnorm") /\ c.ones
GammaLen(c) == IF c.wshape = "c11" THEN c.C ELSE 1
GroupNormSafe(c) == GammaLen(c) = c.C               \* com.microsoft.GroupNorm: gamma, beta of shape (C)
GroupNormDevs(c) == IF GammaLen(c) # c.C THEN {"group_norm_gamma_not_per_channel"} ELSE {}
\* ---- rotary_embedding.py: x*cos + rotate_half(x)*sin, halves split at head_size/2 (Mul operands not commuted)
RopeCode(c) == c.fam = "rotary" /\ Has("p:rope") /\ c.split = "half" /\ ~c.mulswap
\* ---- cos_sin_cache.py: position_ids of rank 2 (Unsqueeze [1]) or rank 1 (Unsqueeze [0,1]); inv_freq [1,E,1] constant
\* an Expand of inv_freq to [B,E,1] is matched as such; once constant-folded the [B,E,1] constant fails "inv_freq is [1,.,1]"
NbFreq(c) == IF c.posrank = 2 THEN c.B ELSE 1
CosSinCode(c) == /\ c.fam = "rotary" /\ Has("ai.onnxruntime._fusion::RotaryEmbedding")
                 /\ ~(Has("p:folded") /\ c.expand /\ NbFreq(c) > 1)
\* ORT RotaryEmbedding: position_ids of shape (batch_size, sequence_length) or (1)
CosSinSafe(c) == c.posrank = 2 \/ c.B = 1
CosSinDevs(c) == IF c.posrank = 1 /\ c.B > 1 THEN {"cos_sin_cache_1d_position_ids_batch"} ELSE {}
PartialRopeCode(c) == c.fam = "rotary" /\ Has("com.microsoft::RotaryEmbedding") /\ Has("p:partial")
\* ---- sdpa.py: check_shape on query/key/value by key format; scalar scales
SdpaCode(c) ==
    /\ c.fam \in {"sdpa", "mha", "gqa"} /\ Has("p:sdpa")
    /\ IF c.fam = "sdpa"
       THEN c.sax = "neg" /\          \* pattern: op.Softmax(attn_score, axis=-1) - the attribute must be present and equal -1
            LET dS == IF c.symdh THEN -1 ELSE c.S      \* symbolic dims are negative numbers (one per name)
                dDh == IF c.symdh THEN -2 ELSE c.Dh
            IN
            Unifies(<< <<<<c.B, c.H, dS, dDh>>, <<"B", "H", "S", "Dh">>>>,
                       IF c.kfmt = "bshd" THEN <<<<c.B, c.T, c.H, dDh>>, <<"B", "Skv", "H", "Dh">>>>
                                           ELSE <<<<c.B, c.H, c.T, dDh>>, <<"B", "H", "Skv", "Dh">>>>,
                       <<<<c.B, c.H, c.T, c.Dv>>, <<"B", "H", "Skv", "Dv">>>> >>)
       ELSE TRUE
\* ---- sdpa_via_mha.py: any SDPA left; mask expanded to [.,.,S,.]
SdpaViaMhaCode(c) == Has("ai.onnxruntime._fusion::SDPA")
MaskSafe(c) == c.fam = "gqa" \/ c.mask = "none" \/ ValidAttnBias(Expanded(c), c)   \* the gqa instances use a [B,1,S,T] mask
MaskDevs(c) == IF MaskSafe(c) THEN {} ELSE {"attn_bias_key_axis_broadcast"}
\* ---- mha.py: rules with past (mha1) / without (mha2); mask of rank 2 or 4 whose dim -2 is S or 1
MaskRank(c) == Len(MaskShape(c))
MhaCode(c, withPast) ==
    /\ c.fam = "mha" /\ Has("ai.onnxruntime._fusion::SDPA") /\ Has("p:qkv")
    /\ (withPast <=> c.past > 0)
    /\ (c.mask = "none" \/ MaskRank(c) \in {2, 4})
    /\ LET D == c.H * c.Dh IN
       Unifies(<< <<<<c.B, c.S, D>>, <<"B", "S", "D">>>>, <<<<c.B, c.S, c.H, c.Dh>>, <<"B", "S", "H", "Dh">>>>,
                  <<<<c.B, c.T, D>>, <<"B", "Skv", "D">>>>, <<<<c.B, c.T, D>>, <<"B", "Skv", "D">>>> >>
               \o (IF withPast THEN << <<<<c.B, c.H, c.past, c.Dh>>, <<"B", "H", "Spast", "Dh">>>>,
                                      <<<<c.B, c.H, c.past, c.Dh>>, <<"B", "H", "Spast", "Dv">>>> >> ELSE <<>>)
               \o (IF MaskRank(c) = 4 THEN << <<MaskShape(c), <<"B_or_1", "H_or_1", "S_or_1", "St">>>> >>
                   ELSE IF MaskRank(c) = 2 THEN << <<MaskShape(c), <<"S_or_1", "St">>>> >> ELSE <<>>))
    /\ (MaskRank(c) = 4 => MaskShape(c)[3] \in {c.S, 1})
\* the rewrite forwards neither `interleaved` nor any other attribute of the matched RotaryEmbedding nodes
\* the rewrite broadcasts the mask with Expand(mask, [1,1,S,1]) where S = Shape(query_BSD)[1]: rank-2 masks always, rank-4 masks
\* whose dim 2 is 1 (and S is not); that Shape node is a second consumer of the query producer
Bcast(c) == c.mask # "none" /\ (MaskRank(c) = 2 \/ (MaskRank(c) = 4 /\ MaskShape(c)[3] # c.S))
MhaSafe(c) == MaskSafe(c) /\ c.rot # "inter"
MhaDevs(c) == MaskDevs(c) \cup (IF c.rot = "inter" THEN {"mha_rotary_interleaved_dropped"} ELSE {})
\* ---- mha_scale.py: Mul(query, c) in front of MultiHeadAttention (single-output use)
\* the Mul must be the direct producer of the query input (a bias Add behind it hides it)
MulFeedsMha(c) == c.preqpos = "after" \/ c.bq = "none"
MhaScaleCode(c) == c.fam = "mha" /\ Has("com.microsoft::MultiHeadAttention") /\ Has("p:preq") /\ c.past = 0 /\ ~Bcast(c) /\ MulFeedsMha(c)
\* ---- mha_bias.py: Add(., bias) feeding query/key/value of a one-output MultiHeadAttention without bias
\* the query's Add is seen only when it feeds MultiHeadAttention directly (a remaining Mul(query, c) hides it)
QBias(c) == IF Has("p:preq") /\ MulFeedsMha(c) THEN "none" ELSE c.bq
HasBiasAdd(c) == QBias(c) # "none" \/ c.bk # "none" \/ c.bv # "none"
MhaBiasCode(c) == /\ c.fam = "mha" /\ Has("com.microsoft::MultiHeadAttention") /\ c.past = 0 /\ c.rot = "none"
                  /\ HasBiasAdd(c)
                  /\ ~(QBias(c) # "none" /\ Bcast(c))          \* matched Add has another use (the Shape node)
                  /\ LET D == c.H * c.Dh IN
                     Unifies(<< <<<<c.B, c.S, D>>, <<"B", "S", "D">>>>, <<<<c.B, c.T, D>>, <<"B", "Skv", "Dk">>>>,
                                <<<<c.B, c.T, D>>, <<"B", "Skv", "Dv">>>> >>)
\* ORT MultiHeadAttention: bias is 1-D of size D + D + Dv: every addend must be the [D] vector
MhaBiasSafe(c) == \A b \in {QBias(c), c.bk, c.bv} : b \in {"none", "vec"}
MhaBiasDevs(c) == IF MhaBiasSafe(c) THEN {} ELSE {"mha_bias_shape_unchecked"}
\* ---- attention.py: MatMul (packed + Slice, or three) feeding a MultiHeadAttention that has a bias input
AttentionCode(c) == /\ c.fam = "mha" /\ Has("com.microsoft::MultiHeadAttention") /\ c.proj \in {"sep", "packed"}
                    /\ c.past = 0 /\ fired["mha_bias"] > 0 /\ ~Bcast(c)
                    /\ ~Has("p:preq")      \* a remaining Mul sits between the query projection and MultiHeadAttention
\* ---- gqa.py: rotary on query and key, optional past, Unsqueeze/Expand/Reshape of key and value, SDPA with a mask
\* input dims are symbolic: B = -1, S = -2, P = -3
GqaCode(c) ==
    /\ c.fam = "gqa" /\ Has("ai.onnxruntime._fusion::SDPA") /\ Has("p:gqawrap")
    /\ Unifies(<< <<<<-1, -2, c.H * c.Dh>>, <<"B", "S", "D">>>>, <<<<-1, -2, c.Hkv * c.Dh>>, <<"B", "S", "Dkv">>>>,
                  <<<<-1, -2, c.Hkv * c.Dh>>, <<"B", "S", "Dkv">>>> >>
               \o (IF c.P > 0 THEN << <<<<-1, c.Hkv, -3, c.Dh>>, <<"B", "Hkv", "P", "Dh">>>>,
                                      <<<<-1, c.Hkv, -3, c.Dh>>, <<"B", "Hkv", "P", "Dv">>>> >> ELSE <<>>))
    /\ IsInt(c.H) /\ IsInt(c.Hkv)
    \* `_causal_mask_pattern.match(...) is None` never holds for a structural mismatch (a failed MatchResult is
    \* returned): the only mask condition the code really imposes is that the mask is computed by a node
\* GroupQueryAttention (CPU): causal attention only, scale attribute not forwarded, head_size % 16 = 0 with rotary,
\* batch_size 1 when there is a past and more than one new token
GqaSafe(c) == c.mask = "causal" /\ c.sc = "default" /\ c.Dh % 16 = 0 /\ ~(c.B > 1 /\ c.P > 0 /\ c.S > 1)
GqaDevs(c) == (IF c.mask # "causal" THEN {"gqa_mask_check_vacuous"} ELSE {})
              \cup (IF c.sc # "default" THEN {"gqa_scale_dropped"} ELSE {})
              \cup (IF c.Dh % 16 # 0 THEN {"gqa_head_size_not_multiple_of_16"} ELSE {})
              \cup (IF c.B > 1 /\ c.P > 0 /\ c.S > 1 THEN {"gqa_batch_gt1_with_past"} ELSE {})
\* ---- gqa_packed_qkv.py: Slice x3 of one packed tensor feeding GroupQueryAttention that has a past
PackedCode(c) == /\ c.fam = "gqa" /\ Has("com.microsoft::GroupQueryAttention") /\ Has("p:packed") /\ c.P > 0
                 /\ LET D == c.H * c.Dh Dkv == c.Hkv * c.Dh IN
                    Unifies(<< <<<<-1, -2, D + 2 * Dkv>>, <<"B", "S", "D">>>>, <<<<-1, -2, D>>, <<"B", "S", "Dq">>>>,
                               <<<<-1, -2, Dkv>>, <<"B", "S", "Dkv">>>>, <<<<-1, -2, Dkv>>, <<"B", "S", "Dkv">>>> >>)

Go(code, devs) == code /\ devs \subseteq Deviations

-----------------------------------------------------------------------------
(* actions: one per pipeline step *)
Commit(step, n, newops, devs) ==
    /\ fired' = IF step \in Counted THEN [fired EXCEPT ![step] = n] ELSE fired
    /\ ops' = newops
    /\ why' = why \cup devs
    /\ pc' = pc + 1
    /\ UNCHANGED <<cfg, mode>>
Nothing(step) == Commit(step, 0, ops, {})

GemmRule == Cur = "gemm_rule" /\ Nothing("gemm_rule")          \* no Gemm in these instances
\* shape inference, optimize, shape rules, optimize: constants are folded (tag p:folded), e.g. Expand(inv_freq, const shape)
PreOptimize == Cur = "pre" /\ Commit("pre", 0, [ops EXCEPT !["p:folded"] = 1], {})
Cse == Cur = "cse" /\ Nothing("cse")
FinalOptimize ==                                                \* inlines fusion-domain functions that were not consumed
    /\ Cur = "optimize"
    /\ Commit("optimize", 0, [ops EXCEPT !["ai.onnxruntime._fusion::RotaryEmbedding"] = 0], {})
Passes == Cur = "passes" /\ Nothing("passes")

FuseErfGelu ==
    /\ Cur = "erf_gelu"
    /\ IF Go(ErfGeluCode(cfg), {}) THEN Commit("erf_gelu", 1, Move(ops, "p:erf", "com.microsoft::Gelu", 1), {})
       ELSE Nothing("erf_gelu")
FuseRmsNorm ==
    /\ Cur = "rms_normalization"
    /\ IF Go(RmsCode(cfg), {}) THEN Commit("rms_normalization", 1, Move(ops, "p:rms", "SimplifiedLayerNormalization", 1), {})
       ELSE Nothing("rms_normalization")
FuseSkipLayerNorm ==
    /\ Cur = "skip_layer_normalization"
    /\ IF Go(SkipLnCode(cfg), {})
       THEN Commit("skip_layer_normalization", 1,
                   [Move(ops, "p:ln", "com.microsoft::SkipLayerNormalization", 1) EXCEPT !["p:skipadd"] = 0], {})
       ELSE Nothing("skip_layer_normalization")
FuseSkipRmsNorm ==
    /\ Cur = "skip_rms_normalization"
    /\ IF Go(SkipRmsCode(cfg), {})
       THEN Commit("skip_rms_normalization", 1,
                   [Move(ops, "SimplifiedLayerNormalization", "com.microsoft::SkipSimplifiedLayerNormalization", 1)
                    EXCEPT !["p:skipadd"] = 0], {})
       ELSE Nothing("skip_rms_normalization")
FuseRotary ==
    /\ Cur = "rotary_embedding"
    /\ IF Go(RopeCode(cfg), {})
       THEN Commit("rotary_embedding", ops["p:rope"], Move(ops, "p:rope", "ai.onnxruntime._fusion::RotaryEmbedding", ops["p:rope"]), {})
       ELSE Nothing("rotary_embedding")
FuseCosSinCache ==
    /\ Cur = "cos_sin_cache"
    /\ IF Go(CosSinCode(cfg), CosSinDevs(cfg))
       THEN LET n == ops["ai.onnxruntime._fusion::RotaryEmbedding"] IN
            Commit("cos_sin_cache", n, Move(ops, "ai.onnxruntime._fusion::RotaryEmbedding", "com.microsoft::RotaryEmbedding", n),
                   CosSinDevs(cfg))
       ELSE Nothing("cos_sin_cache")
FusePartialRotary ==
    /\ Cur = "partial_rotary_embedding"
    /\ IF Go(PartialRopeCode(cfg), {}) THEN Commit("partial_rotary_embedding", ops["p:partial"], [ops EXCEPT !["p:partial"] = 0], {})
       ELSE Nothing("partial_rotary_embedding")
FuseSdpa ==
    /\ Cur = "sdpa"
    /\ IF Go(SdpaCode(cfg), MaskDevs(cfg)) THEN Commit("sdpa", 1, Move(ops, "p:sdpa", "ai.onnxruntime._fusion::SDPA", 1), MaskDevs(cfg))
       ELSE Nothing("sdpa")
FuseGqa ==
    /\ Cur = "gqa"
    /\ IF Go(GqaCode(cfg), GqaDevs(cfg))
       THEN Commit("gqa", 1, [Move(ops, "ai.onnxruntime._fusion::SDPA", "com.microsoft::GroupQueryAttention", 1)
                              EXCEPT !["p:gqawrap"] = 0, !["com.microsoft::RotaryEmbedding"] = 0], GqaDevs(cfg))
       ELSE Nothing("gqa")
FusePackedQkv ==
    /\ Cur = "packed_qkv_for_gqa"
    /\ IF Go(PackedCode(cfg), {}) THEN Commit("packed_qkv_for_gqa", 1, [ops EXCEPT !["p:packed"] = 0], {})
       ELSE Nothing("packed_qkv_for_gqa")
FuseMha(step, withPast) ==
    /\ Cur = step
    /\ IF Go(MhaCode(cfg, withPast), MhaDevs(cfg))
       THEN Commit(step, 1, [Move(ops, "ai.onnxruntime._fusion::SDPA", "com.microsoft::MultiHeadAttention", 1)
                             EXCEPT !["p:qkv"] = 0], MhaDevs(cfg))
       ELSE Nothing(step)
FuseMha1 == FuseMha("mha1", TRUE)
FuseMha2 == FuseMha("mha2", FALSE)
FuseMhaScale ==
    /\ Cur = "mha_scale"
    /\ IF Go(MhaScaleCode(cfg), {}) THEN Commit("mha_scale", 1, [ops EXCEPT !["p:preq"] = 0], {})
       ELSE Nothing("mha_scale")
\* _core.fuse_xformers: mha_bias and attention are attempted only when an MHA fusion happened
MhaHappened == mode = "chain" \/ fired["mha1"] + fired["mha2"] > 0
FuseMhaBias ==
    /\ Cur = "mha_bias"
    /\ IF MhaHappened /\ Go(MhaBiasCode(cfg), MhaBiasDevs(cfg)) THEN Commit("mha_bias", 1, ops, MhaBiasDevs(cfg))
       ELSE Nothing("mha_bias")
FuseAttention ==
    /\ Cur = "attention"
    /\ IF MhaHappened /\ Go(AttentionCode(cfg), {})
       THEN Commit("attention", 1, Move(ops, "com.microsoft::MultiHeadAttention", "com.microsoft::Attention", 1), {})
       ELSE Nothing("attention")
FuseGelu ==
    /\ Cur = "gelu"
    /\ IF Go(GeluTanhCode(cfg), {}) THEN Commit("gelu", 1, Move(ops, "p:tanh", "com.microsoft::FastGelu", 1), {})
       ELSE IF Go(GeluErfCode(cfg), {}) THEN Commit("gelu", 1, Move(ops, "p:erf", "com.microsoft::Gelu", 1), {})
       ELSE Nothing("gelu")
FuseBiasGelu ==
    /\ Cur = "bias_gelu"
    /\ IF Go(BiasGeluCode(cfg), BiasGeluDevs(cfg))
       THEN Commit("bias_gelu", 1, [ops EXCEPT !["Gelu"] = 0, !["com.microsoft::Gelu"] = 0, !["p:biasadd"] = 0,
                                               !["com.microsoft::BiasGelu"] = 1], BiasGeluDevs(cfg))
       ELSE Nothing("bias_gelu")
SdpaViaMha ==
    /\ Cur = "sdpa_via_mha"
    /\ IF Go(SdpaViaMhaCode(cfg), MaskDevs(cfg))
       THEN Commit("sdpa_via_mha", 1, Move(ops, "ai.onnxruntime._fusion::SDPA", "com.microsoft::MultiHeadAttention", 1), MaskDevs(cfg))
       ELSE Nothing("sdpa_via_mha")
OrtRules ==
    /\ Cur = "ort_rules"
    /\ IF Go(SoftmaxCode(cfg), {}) THEN Commit("ort_rules", 1, [ops EXCEPT !["p:softmax_upcast"] = 0], {})
       ELSE IF Go(GroupNormCode(cfg), GroupNormDevs(cfg))
       THEN Commit("ort_rules", 1, Move(ops, "p:instnorm", "com.microsoft::GroupNorm", 1), GroupNormDevs(cfg))
       \* an attention-shaped subgraph that was NOT fused still contains MatMul(q, Transpose(k)) [* or / constant]: the fused-MatMul
       \* rules (spec/FusedMatMul.tla) fold a last-two-dims Transpose that feeds the MatMul directly, and a Div by a scalar
       ELSE IF cfg.fam = "sdpa" /\ Has("p:sdpa") /\ ((cfg.kfmt = "t4" /\ cfg.ks = "none") \/ cfg.qks = "div")
       THEN Commit("ort_rules", 1, [ops EXCEPT !["com.microsoft::FusedMatMul"] = 1], {})
       ELSE Nothing("ort_rules")

Init == /\ cfg \in UNION {CfgsOf(f) : f \in Fams}
        /\ mode \in Modes
        /\ pc = 1
        /\ ops = Ops0(cfg)
        /\ fired = [s \in Counted |-> 0]
        /\ why = {}
Next == \/ GemmRule \/ PreOptimize \/ Cse \/ FinalOptimize \/ Passes
        \/ FuseErfGelu \/ FuseRmsNorm \/ FuseSkipLayerNorm \/ FuseSkipRmsNorm \/ FuseRotary \/ FuseCosSinCache
        \/ FusePartialRotary \/ FuseSdpa \/ FuseGqa \/ FusePackedQkv \/ FuseMha1 \/ FuseMha2 \/ FuseMhaScale
        \/ FuseMhaBias \/ FuseAttention \/ FuseGelu \/ FuseBiasGelu \/ SdpaViaMha \/ OrtRules
Spec == Init /\ [][Next]_vars

-----------------------------------------------------------------------------
(* properties *)
Done == Cur = "done"
Fired(s) == fired[s] > 0
\* Sound: stated from the operators' side, independently of the deviation sets
Sound ==
    /\ Fired("bias_gelu") => BiasGeluSafe(cfg)
    /\ (Fired("ort_rules") /\ cfg.fam = "groupnorm") => GroupNormSafe(cfg)
    /\ Fired("cos_sin_cache") => CosSinSafe(cfg)
    /\ (Fired("mha1") \/ Fired("mha2")) => MhaSafe(cfg)
    /\ Fired("sdpa_via_mha") => MaskSafe(cfg)
    \* SDPA is not executable: fusing it commits to a lowering (MHA / Attention / sdpa_via_mha) that takes the mask as attention_bias
    /\ Fired("sdpa") => MaskSafe(cfg)
    /\ Fired("mha_bias") => MhaBiasSafe(cfg)
    /\ Fired("gqa") => GqaSafe(cfg)
\* the property on the model in use: holds for the design (Deviations = {}), fails for the implementation model
DesignOK == Sound
\* every unsound fusion of the implementation model is explained by a named deviation
DeviationsExplain == ~Sound => why # {}
\* and a deviation is only ever blamed when the corresponding Safe_F really fails
NoSpuriousBlame == why # {} => ~Sound
\* pipeline protocol
ProtocolOK ==
    /\ \A s \in Counted : fired[s] >= 0
    /\ mode = "ort" => ((Fired("mha_bias") \/ Fired("attention")) => (Fired("mha1") \/ Fired("mha2")))
    /\ Fired("attention") => Fired("mha_bias")
    /\ Fired("cos_sin_cache") => Fired("rotary_embedding")
    /\ Fired("partial_rotary_embedding") => Fired("cos_sin_cache")
    /\ Fired("skip_rms_normalization") => (Fired("rms_normalization") \/ (cfg.fam = "rms" /\ cfg.sln # "pat"))
    /\ (Fired("gqa") \/ Fired("mha1") \/ Fired("mha2") \/ Fired("sdpa_via_mha")) => Fired("sdpa")
    /\ ~(Fired("mha1") /\ Fired("mha2"))
    /\ Fired("packed_qkv_for_gqa") => Fired("gqa")
    \* nothing of the intermediate fusion domain survives a complete pipeline
    /\ (Done /\ mode = "ort") => (ops["ai.onnxruntime._fusion::SDPA"] = 0 /\ ops["ai.onnxruntime._fusion::RotaryEmbedding"] = 0)
    /\ \A t \in Tags : ops[t] >= 0

Exec == IF \E d \in why : Effect(d) = "reject" THEN "reject"
        ELSE IF Has("com.microsoft::GroupNorm") THEN "nokernel"
        ELSE IF \E d \in why : Effect(d) = "maydiff" THEN "maydiff" ELSE "same"
RealOps == Tags \ PatTags
CaseRec == [cfg |-> cfg, mode |-> mode, steps |-> Pipe, fired |-> fired, why |-> why, exec |-> Exec,
            ops |-> [t \in {x \in RealOps : ops[x] > 0} |-> ops[t]]]
EmitCases == Done => PrintT("C19CASE " \o ToJson(CaseRec))

\* witnesses (expected to be VIOLATED): the invariants above are not vacuous
NeverUnsound == Sound                          \* with Deviations = AllDevs: some fusion fires unsafely
NeverFires == \A s \in Counted \ {"sdpa"} : fired[s] = 0
NeverAttention == ~Fired("attention")
NeverGqaSafe == ~(Fired("gqa") /\ GqaSafe(cfg) /\ Done)
NeverSkipFusions == ~(Fired("skip_rms_normalization") \/ Fired("skip_layer_normalization"))
=============================================================================
