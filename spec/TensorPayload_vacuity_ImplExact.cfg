SPECIFICATION Spec
CONSTANTS
  Deviations <- RealDevs
INVARIANT ImplExact
CHECK_DEADLOCK FALSE
