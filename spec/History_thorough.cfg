\* implementation model (named deviations) on the catalogue RECORDED from the real code (IOEnv.C14_CAT)
SPECIFICATION Spec
CONSTANTS
  Deviations <- RealDevs
  MaxLen = 3
  Alphabet <- AllOps
  UseRecorded = TRUE
  EmitLen = 3
INVARIANT Emit
CHECK_DEADLOCK FALSE
