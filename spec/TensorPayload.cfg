SPECIFICATION Spec
CONSTANTS
  Deviations <- RealDevs
INVARIANT DesignOK
INVARIANT DeviationsExplain
INVARIANT EmitCases
CHECK_DEADLOCK FALSE
