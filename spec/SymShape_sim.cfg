SPECIFICATION Spec
CONSTANTS
  Deviations <- AllDevs
  InputMenu <- MenuSim
  MaxNodes = 6
  Vals <- ValsStd
  Rich = 2
  Chain = FALSE
INVARIANT DesignSound
INVARIANT ShapesSound
INVARIANT Emit
CHECK_DEADLOCK FALSE
