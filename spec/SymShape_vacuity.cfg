SPECIFICATION Spec
CONSTANTS
  Deviations <- AllDevs
  InputMenu <- MenuVac
  MaxNodes = 3
  Vals <- ValsStd
  Rich = 1
  Chain = TRUE
INVARIANT Sound
CHECK_DEADLOCK FALSE
