SPECIFICATION Spec
CONSTANTS
  Deviations <- AllDevs
  InputMenu <- MenuChain
  MaxNodes = 3
  Vals <- ValsStd
  Rich = 0
  Chain = TRUE
INVARIANT Sound
CHECK_DEADLOCK FALSE
