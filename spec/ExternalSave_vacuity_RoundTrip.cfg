SPECIFICATION Spec
CONSTANTS
  Deviations <- RealDevs
  MaxInits = 2
  Menu <- SmallMenu
  Menu3 <- SmallMenu
  Faults = TRUE
  Emit = FALSE
INVARIANT RoundTrip
CHECK_DEADLOCK FALSE
