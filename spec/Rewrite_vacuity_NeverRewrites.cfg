SPECIFICATION Spec
CONSTANTS
  Deviations <- RealDevs
  RuleSets <- VacuitySets
  MaxDepth = 1
  Wide = FALSE
INVARIANT NeverRewrites
CHECK_DEADLOCK FALSE
