SPECIFICATION Spec
CONSTANTS
  Deviations <- RealDevs
  RuleSets <- VacuitySets
  MaxDepth = 2
  Wide = FALSE
INVARIANT NeverRewrites
CHECK_DEADLOCK FALSE
