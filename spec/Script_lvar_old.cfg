SPECIFICATION Spec
CONSTANTS
  Deviations <- LVarDevs
  MaxNodes = 3
  MinNodes = 1
  MaxDepth = 2
  MaxBlock = 3
  Kinds <- LVarKinds
  Tiny = TRUE
  Ops = FALSE
  Rich = FALSE
INVARIANT ImplFaithful
CHECK_DEADLOCK FALSE
