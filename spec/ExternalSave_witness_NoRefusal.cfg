SPECIFICATION Spec
CONSTANTS
  Deviations <- NoDevs
  MaxInits = 2
  Menu <- SmallMenu
  Menu3 <- SmallMenu
  Faults = TRUE
  Emit = FALSE
INVARIANT NoRefusal
CHECK_DEADLOCK FALSE
