SPECIFICATION Spec
CONSTANTS
  Deviations <- RealDevs
  RuleSets <- Q_relurelu
  MaxDepth = 2
  Wide = FALSE
INVARIANT PropertyHolds
INVARIANT DeviationsExplain
INVARIANT Emit
CHECK_DEADLOCK FALSE
