SPECIFICATION Spec
CONSTANTS
  Deviations <- TupleDevs
  MaxNodes = 2
  MinNodes = 1
  MaxDepth = 1
  MaxBlock = 2
  Kinds <- PAsgKinds
  Tiny = TRUE
  Ops = FALSE
  Rich = FALSE
INVARIANT ImplFaithful
CHECK_DEADLOCK FALSE
