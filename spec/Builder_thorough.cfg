SPECIFICATION Spec
CONSTANTS
  Deviations <- AllDevs
  MaxCalls = 3
  MaxDepth = 1
  Ops = {"Add", "Neg"}
  LitMenu = {"i1", "l12"}
  InMenu = {1, 4}
  Trips = {0, 2}
  Kinds = {"if", "loop", "scan"}
  FnMenu = {1, 2, 3, 4}
  CarryMenu = {}
  LitOnly = FALSE
  Sim = FALSE
INVARIANT DesignOK
INVARIANT DeviationsExplain
INVARIANT ScopeBalanced
INVARIANT Report
CHECK_DEADLOCK FALSE
