SPECIFICATION Spec
CONSTANTS
  Deviations <- AllDevs
  InputMenu <- MenuAttr
  MaxNodes = 2
  Vals <- ValsStd
  Rich = 3
  Chain = TRUE
INVARIANT DesignSound
INVARIANT ShapesSound
INVARIANT Emit
CHECK_DEADLOCK FALSE
