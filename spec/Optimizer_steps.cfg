SPECIFICATION Spec
CONSTANTS
  Deviations <- RealDevs
  MaxNodes = 1
  Worlds <- QuickWorlds
  Rich = FALSE
  NumIter = 2
  EarlyStop = TRUE
  Sim = FALSE
  Fine = TRUE
  Mutant = "none"
INVARIANT PropertyHolds
CHECK_DEADLOCK FALSE
