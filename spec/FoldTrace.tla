------------------------------ MODULE FoldTrace ------------------------------
(* Trace validation (direction B) of FoldConstantsPass.call against FoldApply.tla.               *)
(* TRACE_FILE: JSON array of [id, model, events, finished, endModified, endModel].               *)
EXTENDS FoldApply, Json, IOUtils

Traces == JsonDeserialize(IOEnv.TRACE_FILE)
VARIABLES tid, l
tvars == <<fvars, tid, l>>
Tr == Traces[tid].events
E == Tr[l]
Pairs(names, toks) == {<<names[i], toks[i]>> : i \in 1..Len(toks)}

TInit == /\ tid \in 1..Len(Traces) /\ l = 1 /\ FInit(Traces[tid].model)

Clauses ==
  CASE E.ev = "SubstInput" -> SubstClauses(E.node, E.index, E.old, E.new)
    [] E.ev = "Fold" -> FoldClauses(E.node, E.as_constant_node)
    [] E.ev = "InlineIf" -> InlineClauses(E.node, E.branch, E.condition, E.moved, E.outputs, Pairs(E.moved_init_names, E.moved_inits), E.to_graph)
    [] E.ev = "Replace" -> ReplaceClauses(E.container, E.node, E.inserted, E.old_outs, E.new_outs, Pairs(E.new_init_names, E.new_inits))
    [] E.ev = "Cleared" -> ClearedClauses(E.value, E.graph, E.is_graph_input)
    [] E.ev = "ReplaceOutput" -> OutputClauses(E.graph, E.index, E.old, E.new)
    [] OTHER -> <<<<"unknown_event", FALSE>>>>
Update ==
  CASE E.ev = "SubstInput" -> DoSubst(E.node, E.index, E.new)
    [] E.ev = "Fold" -> DoFold(E.node, E.as_constant_node)
    [] E.ev = "InlineIf" -> DoInline(E.node, E.branch, E.moved, E.outputs, Pairs(E.moved_init_names, E.moved_inits), E.to_graph)
    [] E.ev = "Replace" -> DoReplace(E.container, E.node, E.inserted, E.old_outs, E.new_outs, Pairs(E.new_init_names, E.new_inits))
    [] E.ev = "Cleared" -> DoCleared(E.value, E.graph)
    [] E.ev = "ReplaceOutput" -> DoOutput(E.graph, E.index, E.new)

\* clauses a listed known finding explains are reported (NOTE) but do not stop the validation of the rest
Soft == {"inline_condition_is_not_an_overridable_input", "cleared_initializer_is_not_an_overridable_input", "end_overridable_defaults_kept"}
RECURSIVE FirstHard(_)
FirstHard(cl) == IF cl = <<>> THEN "" ELSE IF ~Head(cl)[2] /\ Head(cl)[1] \notin Soft THEN Head(cl)[1] ELSE FirstHard(Tail(cl))
SoftFailed(cl) == {cl[i][1] : i \in {i \in 1..Len(cl) : ~cl[i][2] /\ cl[i][1] \in Soft}}
Note(cl) == \A s \in SoftFailed(cl) : PrintT(<<"NOTE", Traces[tid].id, l, s>>)

NotJudged == /\ rerr = <<>> /\ l = 1 /\ ~StartOK(Traces[tid].model)
             /\ rerr' = <<0, "initial_model_not_well_formed_not_judged">> /\ l' = Len(Tr) + 2
             /\ UNCHANGED <<gs, ns, napply, nfn, doms, pend, nsteps, tid>>
Step == /\ rerr = <<>> /\ l <= Len(Tr) /\ (l = 1 => StartOK(Traces[tid].model))
        /\ LET cl == Clauses bad == FirstHard(cl) IN
             IF bad = "" THEN Note(cl) /\ Update /\ rerr' = <<>> /\ l' = l + 1
             ELSE rerr' = <<l, bad>> /\ l' = l /\ UNCHANGED <<gs, ns, napply, nfn, doms, pend, nsteps>>
        /\ UNCHANGED tid
Finish == /\ rerr = <<>> /\ l = Len(Tr) + 1 /\ Traces[tid].finished /\ (l = 1 => StartOK(Traces[tid].model))
          /\ LET cl == FEndClauses(Traces[tid].endModified, Traces[tid].model, Traces[tid].endModel) bad == FirstHard(cl) IN
               Note(cl) /\ rerr' = IF bad = "" THEN <<0, "accepted">> ELSE <<l, bad>>
          /\ l' = l + 1 /\ UNCHANGED <<gs, ns, napply, nfn, doms, pend, nsteps, tid>>
\* a run that raised: the recorded prefix was consistent (C04 judges the exception itself elsewhere)
Aborted == /\ rerr = <<>> /\ l = Len(Tr) + 1 /\ ~Traces[tid].finished /\ (l = 1 => StartOK(Traces[tid].model))
           /\ rerr' = <<0, "raised_prefix_consistent">> /\ l' = l + 1
           /\ UNCHANGED <<gs, ns, napply, nfn, doms, pend, nsteps, tid>>
TNext == NotJudged \/ Step \/ Finish \/ Aborted
TSpec == TInit /\ [][TNext]_tvars
Verdict == rerr # <<>> => PrintT(<<"VERDICT", Traces[tid].id, rerr[1], rerr[2], nsteps, napply>>)
=============================================================================
