------------------------------- MODULE Rules -------------------------------
(* C05: each shipped rewrite rule preserves semantics wherever it fires.                         *)
(*                                                                                                *)
(* One behaviour = one application attempt of one rule R to one host model M(p) that embeds an    *)
(* instance or a near-miss of R's target pattern; p ranges over R's parameter space.  The steps   *)
(* are those of RewriteRule.try_rewrite / RewriteRuleSet._apply_to_graph_or_function:             *)
(*     Pick (Init)  - choose the rule family and the parameter tuple p                            *)
(*     Match        - structural pattern match incl. literal constants (Constant(value, rel_tol,   *)
(*                    abs_tol)), attribute patterns and the "matched inner nodes are removable"   *)
(*                    test                                                                        *)
(*     Check        - the rule's check() / condition function  -> "ok" | "fail" | "raise"         *)
(*     Rewrite      - the rule's rewrite(): the value the replacement computes, whether the        *)
(*                    replacement is valid for the declared opset, or RAISE                       *)
(*     Replace      - the graph is (not) modified; outcome and the original meaning Lhs recorded  *)
(* Every step is computed twice: for the DESIGN (devs = {}: the rule as it has to be for the      *)
(* property to hold) and for the IMPLEMENTATION MODEL (devs = Deviations: the code as written,    *)
(* known defects as named deviations, DESIGN.md 2.5).                                             *)
(* Properties: Sound (design: fired => same tensor /\ valid), NoFireOnUnknown (design), and       *)
(* DeviationsExplain (every departure of the implementation model from the property is explained  *)
(* by a named deviation).  Tensor values are exact integers (Tensor.tla); families that need      *)
(* fractions use fixed point (no_op: 1/1000, cast_constant_of_shape: 1/10).                       *)
(* Each family XX has XX_Params (the tuples), XX_Lhs (meaning of the host), XX_Match / XX_Check /  *)
(* XX_Rewrite (the three steps, parameterised by the deviation set) and XX_Unknown (a needed fact  *)
(* is not derivable from the model).  Host models the real runtime cannot execute are not          *)
(* generated (XX_Lhs = ERR).  Witness invariants NeverFires / ImplHolds / NeverDeclines are        *)
(* expected to be violated (Rules_vacuity_*.cfg).                                                  *)
EXTENDS Tensor, TLC, Json

CONSTANTS Deviations,      \* subset of AllDevs
          Families,        \* rule families explored by this run
          Menu             \* "quick" | "thorough": size of the parameter menus
VARIABLES fam, p, stage, mt, ck, rw, fin
vars == <<fam, p, stage, mt, ck, rw, fin>>

AllDevs == {"relu_clip_negmax", "clip_clip_disjoint", "relu_clip_no_dtype_raise",
            "scatter_symbolic_raise", "scatter_static_ignores_reduction", "cast_cos_overflow",
            "const_tolerance", "overridable_read_as_const", "minmax_clip_rank",
            "clip_inputs_pre_opset11", "expand_rank_extension", "expand_binop_drops_attrs",
            "materialize_allowzero", "slice_split_odd", "split_num_outputs_pre_opset18",
            "flatten_zero_dim", "reshape_matmul_ignores_inner_shapes", "matmul_add_gemm_bias_shape",
            "gemm_matmul_add_ignores_attrs", "gemm_matmul_add_bias_shape", "pad_convinteger_zero_point",
            "autopad_ignores_dilation", "conv_affine_scalar_rank", "bn_gemm_beta",
            "hardswish_int_dtype", "hardswish_pre_opset14", "hardswish_const_rank"}
AllFamilies == {"relus_clips", "min_max", "no_op", "dropout", "cast_cos", "scatter_static", "scatter_dynamic",
                "expand_binop", "materialize", "collapse_slices", "casts", "no_op_expand", "reshape_reshape", "flatten",
                "slice_split", "transposes", "unsqueeze2", "squeeze_reshape", "matmul_reshape", "matmul_add_gemm",
                "gemm_matmul_add", "optional_bias", "pad_conv", "conv_affine", "batchnorm", "hardswish"}
Big == Menu = "thorough"

RAISE == [dt |-> "RAISE", shape |-> <<>>, data |-> <<>>]
IsRaise(t) == t.dt = "RAISE"
NOSHP == <<-100>>                 \* declared shape unknown (value.shape is None)
UNK == -9                         \* a dim without value and without name
SymN == -1                        \* symbolic dims: -1 "N", -2 "M", -3 "K"
SymM == -2
IsSym(d) == d < 0

\* test input: every value of -3..3 occurs once the tensor has 7 elements
XT(dt, shape) == T(dt, shape, [k \in 1..Numel(shape) |-> ((k - 1) % 7) - 3])
ConstT(dt, shape, v) == T(dt, shape, [k \in 1..Numel(shape) |-> v])
ClipV(v, lo, hi) == LET a == IF lo = NONE THEN v ELSE Max2(v, lo) IN IF hi = NONE THEN a ELSE Min2(a, hi)
\* how a "constant" operand is given: initializer, Constant node, pure graph input, initializer
\* that is also a graph input (overridable default)
Kinds == {"init", "cnode", "ginput", "ginit"}
\* value.const_value / get_const_tensor: initializers (also overridable ones!) and Constant nodes
HasConstValue(kind, devs) == kind \in {"init", "cnode"} \/ (kind = "ginit" /\ "overridable_read_as_const" \in devs)
Res(t, v) == [res |-> t, valid |-> v]

RECURSIVE SetToSeq(_)
SetToSeq(S) == IF S = {} THEN <<>> ELSE LET x == CHOOSE x \in S : TRUE IN <<x>> \o SetToSeq(S \ {x})

-----------------------------------------------------------------------------
(* relus_clips: _fuse_relus_clips.py  (relu_relu, clip_relu = Clip(Relu(x)), relu_clip =          *)
(* Relu(Clip(x)), clip_clip)                                                                      *)
Bounds == {NONE} \cup (-2..2)
RedBounds == {NONE, -1, 1}
RC_P(r, lo1, hi1, lo2, hi2, k, vi, dt, ex) ==
   [rule |-> r, lo1 |-> lo1, hi1 |-> hi1, lo2 |-> lo2, hi2 |-> hi2, ckind |-> k, vi |-> vi, dt |-> dt, extra |-> ex]
RC_Params(z) ==
   {RC_P("relu_relu", NONE, NONE, NONE, NONE, "init", vi, dt, ex) : vi \in BOOLEAN, dt \in {"f32", "i64"}, ex \in BOOLEAN}
   \cup {RC_P(r, lo, hi, NONE, NONE, "init", TRUE, "f32", FALSE) : r \in {"clip_relu", "relu_clip"}, lo \in Bounds, hi \in Bounds}
   \cup {RC_P(r, lo, hi, NONE, NONE, k, vi, dt, ex) : r \in {"clip_relu", "relu_clip"}, lo \in RedBounds, hi \in RedBounds,
            k \in Kinds, vi \in BOOLEAN, dt \in {"f32", "i64"}, ex \in BOOLEAN}
   \cup {RC_P("clip_clip", lo1, hi1, lo2, hi2, "init", TRUE, "f32", FALSE) :
            lo1 \in (IF Big THEN Bounds ELSE {NONE, -2, 0, 1}), hi1 \in Bounds, lo2 \in Bounds, hi2 \in (IF Big THEN Bounds ELSE {NONE, -1, 0, 2})}
   \cup {RC_P("clip_clip", lo1, hi1, lo2, hi2, k, vi, dt, ex) : lo1 \in {NONE, 0}, hi1 \in {NONE, 1}, lo2 \in {NONE, -1}, hi2 \in {NONE, 2},
            k \in Kinds, vi \in BOOLEAN, dt \in {"f32", "i64"}, ex \in BOOLEAN}
RC_X(q) == XT(q.dt, <<7>>)
RC_AnyBound(q) == q.lo1 # NONE \/ q.hi1 # NONE \/ q.lo2 # NONE \/ q.hi2 # NONE
RC_Lhs(q) ==
   LET C1(v) == ClipV(v, q.lo1, q.hi1)
       C2(v) == ClipV(v, q.lo2, q.hi2)
       Relu(v) == Max2(v, 0)
   IN CASE q.rule = "relu_relu" -> Map1(RC_X(q), q.dt, LAMBDA v : Relu(Relu(v)))
        [] q.rule = "clip_relu" -> Map1(RC_X(q), q.dt, LAMBDA v : C1(Relu(v)))
        [] q.rule = "relu_clip" -> Map1(RC_X(q), q.dt, LAMBDA v : Relu(C1(v)))
        [] q.rule = "clip_clip" -> Map1(RC_X(q), q.dt, LAMBDA v : C2(C1(v)))
\* the inner node's output must have no other consumer (check_nodes_are_removable)
RC_Match(q, devs) == ~q.extra
\* The three deviations of this family are FIXED in the code (6ac09a3, cc6d6a1); they stay in the model so that a
\* regression re-introducing the old behaviour is an unexplained violation.  Design = the fixed code:
\*   Relu(Clip(x, lo, hi))            -> Clip(x, max(0, lo), max(0, hi))                    [relu_clip_negmax: hi unchanged]
\*   Clip(Clip(x, lo1, hi1), lo2, hi2) -> Clip(x, max(lo1, lo2), min(max(hi1, lo2), hi2))  [clip_clip_disjoint: min(hi1, hi2)]
\*   the element type comes from the clipped value or, without value_info, from a Clip bound; with neither the rule
\*   declines                                                                              [relu_clip_no_dtype_raise: raises]
RC_Check(q, devs) ==
   IF q.rule = "relu_relu" THEN "ok"
   ELSE IF RC_AnyBound(q) /\ q.ckind \in {"ginput", "ginit"} THEN "fail"       \* is_graph_input() / not constant
   \* first_clip_node.inputs[0].dtype is None and there is no bound: only Clip(Relu(x)) has an intermediate there
   ELSE IF q.rule = "clip_relu" /\ ~q.vi /\ ~RC_AnyBound(q) /\ "relu_clip_no_dtype_raise" \notin devs THEN "fail"
   ELSE "ok"
Comb(a, b, F(_, _)) == IF a # NONE /\ b # NONE THEN F(a, b) ELSE IF a # NONE THEN a ELSE b
RC_Rewrite(q, devs) ==
   \* old extract_min_max: node.inputs[0].dtype.numpy() of the Clip whose first input is the intermediate
   IF q.rule \in {"clip_relu", "clip_clip"} /\ ~q.vi /\ "relu_clip_no_dtype_raise" \in devs THEN Res(RAISE, TRUE)
   ELSE CASE q.rule = "relu_relu" -> Res(Map1(RC_X(q), q.dt, LAMBDA v : Max2(v, 0)), TRUE)
          [] q.rule \in {"clip_relu", "relu_clip"} ->
                LET lo == Max2(0, IF q.lo1 = NONE THEN 0 ELSE q.lo1)
                    hi == IF q.rule = "relu_clip" /\ q.hi1 # NONE /\ "relu_clip_negmax" \notin devs THEN Max2(0, q.hi1) ELSE q.hi1
                IN Res(Map1(RC_X(q), q.dt, LAMBDA v : ClipV(v, lo, hi)), TRUE)
          [] q.rule = "clip_clip" ->
                LET hi1 == IF q.hi1 # NONE /\ q.lo2 # NONE /\ "clip_clip_disjoint" \notin devs THEN Max2(q.hi1, q.lo2) ELSE q.hi1
                    lo == Comb(q.lo1, q.lo2, Max2) hi == Comb(hi1, q.hi2, Min2)
                IN Res(Map1(RC_X(q), q.dt, LAMBDA v : ClipV(v, lo, hi)), TRUE)
RC_Unknown(q) == q.rule # "relu_relu" /\ RC_AnyBound(q) /\ q.ckind \in {"ginput", "ginit"}

-----------------------------------------------------------------------------
(* min_max: _min_max_to_clip.py  (min_min, max_max, min_max = Max(Min(x, ub..), lb..) -> Clip,    *)
(* max_min = Min(Max(x, lb..), ub..) -> Clip)                                                     *)
MM_P(r, c1, c2, cs, xs, k, dt, opset, ex) ==
   [rule |-> r, c1 |-> c1, c2 |-> c2, cs |-> cs, xs |-> xs, ckind |-> k, dt |-> dt, opset |-> opset, extra |-> ex]
MM_Rules == {"min_min", "max_max", "min_max", "max_min"}
MM_Vals == IF Big THEN -2..2 ELSE {-1, 0, 2}
MM_Params(z) ==
   \* one constant per node, every ordering, every constant shape x every x shape
   {MM_P(r, <<a>>, <<b>>, cs, xs, "init", "f32", 18, FALSE) : r \in MM_Rules, a \in MM_Vals, b \in MM_Vals,
        cs \in {<<>>, <<1>>, <<1, 1>>, <<7>>}, xs \in {<<>>, <<7>>, <<1, 7>>}}
   \* two constants on one or both nodes
   \cup {MM_P(r, c1, c2, <<>>, <<7>>, "init", "f32", 18, FALSE) : r \in MM_Rules,
        c1 \in {<<-1, 1>>, <<2, -2>>, <<0>>}, c2 \in {<<1, -1>>, <<-2, 0>>, <<1>>}}
   \* operand kinds, dtype, opset, extra consumer
   \cup {MM_P(r, <<a>>, <<b>>, <<>>, <<7>>, k, dt, os, ex) : r \in MM_Rules, a \in {-1, 1}, b \in {-1, 1}, k \in Kinds,
        dt \in {"f32", "i64"}, os \in {18, 10}, ex \in BOOLEAN}
MM_Inner(q) == IF q.rule \in {"min_min", "min_max"} THEN "min" ELSE "max"
MM_Outer(q) == IF q.rule \in {"min_min", "max_min"} THEN "min" ELSE "max"
MM_IsClip(q) == q.rule \in {"min_max", "max_min"}
MM_Op(t, cs, dt, shape, which) ==        \* Min / Max node with inputs (t, cs[1], ..)
   LET F(a, b) == IF which = "min" THEN Min2(a, b) ELSE Max2(a, b)
       one == Map2(t, ConstT(dt, shape, cs[1]), dt, F)
   IN IF Len(cs) = 1 THEN one ELSE Map2(one, ConstT(dt, shape, cs[2]), dt, F)
RECURSIVE SeqMin(_), SeqMax(_)
SeqMin(s) == IF Len(s) = 1 THEN s[1] ELSE Min2(s[1], SeqMin(Tail(s)))
SeqMax(s) == IF Len(s) = 1 THEN s[1] ELSE Max2(s[1], SeqMax(Tail(s)))
MM_X(q) == XT(q.dt, q.xs)
\* Min/Max on integers exist from opset 12 on: integer hosts at opset 10 are not generated
MM_HostValid(q) == q.dt = "f32" \/ q.opset >= 12
MM_Lhs(q) == IF ~MM_HostValid(q) THEN ERR
             ELSE MM_Op(MM_Op(MM_X(q), q.c1, q.dt, q.cs, MM_Inner(q)), q.c2, q.dt, q.cs, MM_Outer(q))
MM_Match(q, devs) == ~q.extra
MM_Lb(q) == IF q.rule = "min_max" THEN SeqMax(q.c2) ELSE SeqMax(q.c1)
MM_Ub(q) == IF q.rule = "min_max" THEN SeqMin(q.c1) ELSE SeqMin(q.c2)
MM_Check(q, devs) ==
   IF ~HasConstValue(q.ckind, devs) THEN "fail"
   ELSE IF MM_IsClip(q) /\ Numel(q.cs) # 1 THEN "fail"                        \* need_scalars: size == 1
   ELSE IF q.rule = "min_max" /\ MM_Lb(q) > MM_Ub(q) THEN "fail"             \* check_bounds
   \* design: Clip does not broadcast x against its bounds, and takes them as inputs from opset 11 on
   ELSE IF MM_IsClip(q) /\ BroadcastShape(q.xs, q.cs) # q.xs /\ "minmax_clip_rank" \notin devs THEN "fail"
   ELSE IF MM_IsClip(q) /\ q.opset < 11 /\ "clip_inputs_pre_opset11" \notin devs THEN "fail"
   ELSE "ok"
MM_Rewrite(q, devs) ==
   IF MM_IsClip(q)
   THEN Res(Map1(MM_X(q), q.dt, LAMBDA v : ClipV(v, MM_Lb(q), MM_Ub(q))), q.opset >= 11)
   ELSE LET all == q.c1 \o q.c2
            c == IF q.rule = "min_min" THEN SeqMin(all) ELSE SeqMax(all)
        IN Res(MM_Op(MM_X(q), <<c>>, q.dt, q.cs, MM_Inner(q)), TRUE)
MM_Unknown(q) == q.ckind \in {"ginput", "ginit"}

-----------------------------------------------------------------------------
(* no_op: _no_op.py  (x*1, 1*x, x+0, 0+x, x-0, x/1, Dropout).  Fixed point: 1000 = 1.0, 1 = "eps" *)
(* = a quantity inside Constant's tolerance that is not the literal.                              *)
NO_P(op, side, cv, cs, k, dt, xs) == [op |-> op, side |-> side, cv |-> cv, cs |-> cs, ckind |-> k, dt |-> dt, xs |-> xs]
NO_Params(z) ==
   {NO_P(op, sd, cv, cs, k, "f32", xs) : op \in {"Mul", "Add", "Sub", "Div"}, sd \in {"R", "L"}, cv \in {0, 1, 1000, 1001, 2000},
        cs \in {<<>>, <<1>>}, k \in (IF Big THEN Kinds ELSE {"init"}), xs \in {<<>>, <<7>>, <<1, 7>>}}
   \cup {NO_P(op, sd, cv, <<>>, k, dt, <<7>>) : op \in {"Mul", "Add", "Sub", "Div"}, sd \in {"R", "L"}, cv \in {0, 1000, 2000},
        k \in Kinds, dt \in {"f32", "i64"}}
NO_Target(q) == IF q.op \in {"Mul", "Div"} THEN 1000 ELSE 0
NO_Exact(q) == q.cv \in {0, 1000, 2000}             \* eps-class constants: the harness does not compare values with the spec
\* values in 1/1000; x is integer valued
NO_Lhs(q) ==
   IF q.op = "Div" /\ (q.cv = 0 \/ (q.side = "L")) THEN ERR          \* c / x: division by zero in the test vector
   ELSE LET x == XT(q.dt, q.xs)
            c == ConstT(q.dt, q.cs, q.cv)
            F(a, b) == CASE q.op = "Add" -> 1000 * a + b
                         [] q.op = "Sub" -> IF q.side = "R" THEN 1000 * a - b ELSE b - 1000 * a
                         [] q.op = "Mul" -> a * b
                         [] q.op = "Div" -> IF q.dt = "i64" THEN 1000 * TruncDiv(a, b \div 1000) ELSE TruncDiv(1000000 * a, b)
        IN Map2(x, c, q.dt, F)
NO_Rhs(q) == LET x == XT(q.dt, q.xs) IN T(q.dt, q.xs, [k \in 1..Numel(q.xs) |-> 1000 * x.data[k]])
\* Constant(v).matches: const_value present, ndim = 0, math.isclose(value, v, rel 1e-5, abs 1e-8)
NO_Match(q, devs) ==
        /\ (q.side = "R" \/ q.op \in {"Mul", "Add"})                  \* only Mul and Add are commuted
        /\ HasConstValue(q.ckind, devs)
        /\ q.cs = <<>>
        /\ (q.cv = NO_Target(q) \/ (q.cv = NO_Target(q) + 1 /\ "const_tolerance" \in devs))
NO_Check(q, devs) == "ok"
NO_Rewrite(q, devs) == Res(NO_Rhs(q), TRUE)
NO_Unknown(q) == q.ckind \in {"ginput", "ginit"} \/ q.cv # NO_Target(q)

(* dropout: _no_op.py dropout_zero (attribute ratio = 0.0: opset < 12 only) / dropout_inference (attribute   *)
(* training_mode: exists in no opset).  ratio in 1/1000; at opset 18 the ratio is an input.                   *)
DO_Params(z) == {[opset |-> os, ratio |-> r, mask |-> m, xs |-> <<7>>, dt |-> "f32"] : os \in {10, 18}, r \in {NONE, 0, 500}, m \in BOOLEAN}
DO_Lhs(q) == XT(q.dt, q.xs)                       \* inference mode: Dropout is the identity whatever the ratio
DO_Match(q, devs) == q.opset = 10 /\ q.ratio = 0 /\ ~q.mask
DO_Rewrite(q, devs) == Res(XT(q.dt, q.xs), TRUE)

-----------------------------------------------------------------------------
(* cast_cos: _cast_constant_of_shape.py.  Fixed point: values in 1/10 (27 = 2.7).                 *)
CC_Params(z) ==
   {[hasval |-> TRUE, v |-> v, vdt |-> vdt, to |-> to, shp |-> shp] :
        v \in {0, 10, -30, 3000, 27, -27}, vdt \in {"f32", "i64", "i32"}, to \in {"f32", "f16", "i64", "i32", "u8", "bool"},
        shp \in (IF Big THEN {"c23", "c0", "cs", "dyn"} ELSE {"c23", "dyn"})}
   \cup {[hasval |-> FALSE, v |-> 0, vdt |-> "f32", to |-> to, shp |-> shp] :
        to \in {"f32", "f16", "i64", "i32", "u8", "bool"}, shp \in {"c23", "c0", "cs", "dyn"}}
IsIntDt(dt) == dt \in {"i64", "i32", "u8"}
\* hosts that are not generated: fractional value in an integer tensor; float -> uint8 out of range (undefined in C)
CC_HostValid(q) == /\ (IsIntDt(q.vdt) => q.v % 10 = 0)
                   /\ ~(q.vdt = "f32" /\ q.to = "u8" /\ (q.v < 0 \/ q.v > 2550))
CC_Shape(q) == CASE q.shp = "c23" -> <<2, 3>> [] q.shp = "c0" -> <<0>> [] q.shp = "cs" -> <<>> [] q.shp = "dyn" -> <<2>>
CastV10(v, to) == CASE to \in {"f32", "f16"} -> v
                    [] to \in {"i64", "i32"} -> 10 * TruncDiv(v, 10)
                    [] to = "u8" -> 10 * PyMod(TruncDiv(v, 10), 256)
                    [] to = "bool" -> IF v # 0 THEN 10 ELSE 0
CC_Lhs(q) == IF ~CC_HostValid(q) THEN ERR ELSE ConstT(q.to, CC_Shape(q), CastV10(q.v, q.to))
CC_Match(q, devs) == TRUE
CC_Overflow(q) == q.to = "u8" /\ IsIntDt(q.vdt) /\ (q.v < 0 \/ q.v > 2550)
\* design: a value the target type cannot hold is not folded
CC_Check(q, devs) == IF CC_Overflow(q) /\ "cast_cos_overflow" \notin devs THEN "fail" ELSE "ok"
\* ir.tensor([python scalar], dtype): numpy refuses out-of-range python ints
CC_Rewrite(q, devs) == IF CC_Overflow(q) /\ "cast_cos_overflow" \in devs THEN Res(RAISE, TRUE) ELSE Res(ConstT(q.to, CC_Shape(q), CastV10(q.v, q.to)), TRUE)
CC_Unknown(q) == FALSE

-----------------------------------------------------------------------------
(* scatter_static: _redundant_scatter_nd.py ScatterAllStatic                                      *)
SC_Params(z) ==
   {[ds |-> ds, dd |-> dd, ud |-> ud, idx |-> ix, red |-> rd] :
        ds \in {<<3>>, <<3, 2>>}, dd \in {"static", "sym", "unk", "none"}, ud \in {"static", "sym", "sym2", "unk", "none"},
        ix \in {"full", "perm", "short", "ginput", "ginit"}, rd \in {"absent", "none", "add", "mul"}}
SC_K(q) == IF q.idx = "short" THEN 2 ELSE 3
SC_Idx(q) == CASE q.idx = "perm" -> <<1, 0, 2>> [] q.idx = "short" -> <<0, 1>> [] OTHER -> <<0, 1, 2>>
SC_Us(q) == <<SC_K(q)>> \o Tail(q.ds)
SC_Data(q) == T("f32", q.ds, [k \in 1..Numel(q.ds) |-> k])
SC_Upd(q) == T("f32", SC_Us(q), [k \in 1..Numel(SC_Us(q)) |-> 2 - k])
SC_Lhs(q) ==       \* ScatterND with indices of shape [k, 1] (distinct rows)
   LET d == SC_Data(q) u == SC_Upd(q) ix == SC_Idx(q)
       row == Numel(Tail(q.ds))
       F(a, b) == CASE q.red \in {"absent", "none"} -> b [] q.red = "add" -> a + b [] q.red = "mul" -> a * b
       Src(r) == IF \E i \in 1..Len(ix) : ix[i] = r THEN CHOOSE i \in 1..Len(ix) : ix[i] = r ELSE 0
   IN T("f32", q.ds, [k \in 1..Numel(q.ds) |->
          LET r == (k - 1) \div row  c == (k - 1) % row  i == Src(r)
          IN IF i = 0 THEN d.data[k] ELSE F(d.data[k], u.data[(i - 1) * row + c + 1])])
\* the declared (static-analysis) shapes: first dim as int / named symbol / unnamed; "none": no shape at all
SC_Decl(kind, actual) == CASE kind = "static" -> actual [] kind = "sym" -> <<SymN>> \o Tail(actual)
                           [] kind = "sym2" -> <<SymM>> \o Tail(actual) [] kind = "unk" -> <<UNK>> \o Tail(actual)
                           [] kind = "none" -> NOSHP
\* pattern ScatterND(data, indices, updates) has no attribute constraint
SC_Match(q, devs) == q.red \in {"absent", "none"} \/ "scatter_static_ignores_reduction" \in devs
SC_Check(q, devs) ==
   LET dd == SC_Decl(q.dd, q.ds) ud == SC_Decl(q.ud, SC_Us(q)) IN
   IF dd = NOSHP \/ ud = NOSHP THEN "fail"
   ELSE IF UNK \in SeqToSet(dd) \/ UNK \in SeqToSet(ud) \/ dd # ud THEN "fail"     \* _ir_utils.same_shape
   ELSE IF q.idx = "ginput" \/ (q.idx = "ginit" /\ "overridable_read_as_const" \notin devs) THEN "fail"
   ELSE IF IsSym(dd[1]) THEN (IF "scatter_symbolic_raise" \in devs THEN "raise" ELSE "fail")   \* range(SymbolicDim)
   ELSE IF SC_Idx(q) = [i \in 1..dd[1] |-> i - 1] THEN "ok" ELSE "fail"
SC_Rewrite(q, devs) == Res(SC_Upd(q), TRUE)
SC_Unknown(q) == q.dd \in {"unk", "none", "sym"} \/ q.ud \in {"none", "sym", "sym2", "unk"} \/ q.idx \in {"ginput", "ginit"}

-----------------------------------------------------------------------------
(* shapes, symbolic declarations *)
ShapesUpTo(r, D) == UNION {[1..n -> D] : n \in 0..r}
\* declared form of an actual shape: static | every dim > 1 replaced by a symbol named after its size
\* (2 -> "N", 3 -> "M", ...: equal sizes share the symbol) | no shape at all
Sy(shape) == [i \in 1..Len(shape) |-> IF shape[i] <= 1 THEN shape[i] ELSE -(shape[i] - 1)]
Decl(kind, shape) == CASE kind = "static" -> shape [] kind = "sym" -> Sy(shape) [] kind = "none" -> NOSHP
                       [] kind = "unk" -> [i \in 1..Len(shape) |-> UNK]
                       [] kind = "unk1" -> [i \in 1..Len(shape) |-> IF i = 1 THEN UNK ELSE shape[i]]
IsInt(d) == d >= 0
Last(s) == s[Len(s)]
RevAt(s, j) == IF j < Len(s) THEN s[Len(s) - j] ELSE 1          \* right-aligned dim j (0 = last), 1 when missing
Bit1(k, x, y) == CASE k = "and" -> x * y [] k = "or" -> Max2(x, y) [] k = "xor" -> (x + y) % 2
RECURSIVE BitOp(_, _, _)
BitOp(a, b, k) == IF a = 0 /\ b = 0 THEN 0 ELSE Bit1(k, a % 2, b % 2) + 2 * BitOp(a \div 2, b \div 2, k)
RECURSIVE IPow(_, _)
IPow(a, n) == IF n = 0 THEN 1 ELSE a * IPow(a, n - 1)

-----------------------------------------------------------------------------
(* scatter_dynamic: _redundant_scatter_nd.py ScatterAllDynamic                                                 *)
(*   ScatterND(td, Unsqueeze(Range(0, Gather(Shape(data, start=0), axis, axis=0), 1), [-1]), upd, reduction="none") *)
SD_AllParams(z) ==
   {[ds |-> ds, axis |-> ax, decl |-> dc, tdk |-> tk, start |-> st, red |-> rd, akind |-> "init"] :
        ds \in {<<3>>, <<2, 3>>}, ax \in -2..1, dc \in {"static", "sym", "none"}, tk \in {"tr_vi", "tr_novi", "same", "diffsym", "bigger"},
        st \in {NONE, 0}, rd \in {"absent", "none", "add"}}
   \cup {[ds |-> <<2, 3>>, axis |-> ax, decl |-> dc, tdk |-> "tr_vi", start |-> 0, red |-> "none", akind |-> k] :
        ax \in {0, 1}, dc \in {"static", "sym"}, k \in {"cnode", "ginput", "ginit"}}
SD_Params(z) == {q \in SD_AllParams(0) : NormAxis(q.axis, Len(q.ds)) # -1000}
SD_A(q) == NormAxis(q.axis, Len(q.ds))
SD_N(q) == q.ds[SD_A(q) + 1]
SD_Perm(q) == <<SD_A(q)>> \o SelectSeq([i \in 1..Len(q.ds) |-> i - 1], LAMBDA j : j # SD_A(q))
SD_TdShape(q) == <<IF q.tdk = "bigger" THEN SD_N(q) + 1 ELSE SD_N(q)>> \o RemoveAt(q.ds, SD_A(q) + 1)
SD_Data(q) == T("f32", q.ds, [k \in 1..Numel(q.ds) |-> k])
SD_Td(q) == IF q.tdk \in {"tr_vi", "tr_novi"} THEN Transpose(SD_Data(q), SD_Perm(q))
            ELSE T("f32", SD_TdShape(q), [k \in 1..Numel(SD_TdShape(q)) |-> 10 + k])
SD_UpdShape(q) == <<SD_N(q)>> \o Tail(SD_TdShape(q))
SD_Upd(q) == T("f32", SD_UpdShape(q), [k \in 1..Numel(SD_UpdShape(q)) |-> -k])
SD_Lhs(q) == LET td == SD_Td(q) u == SD_Upd(q) nu == Numel(SD_UpdShape(q)) IN
             T("f32", td.shape, [k \in 1..Numel(td.shape) |-> IF k > nu THEN td.data[k] ELSE IF q.red = "add" THEN td.data[k] + u.data[k] ELSE u.data[k]])
SD_DataDecl(q) == Decl(q.decl, q.ds)
SD_TdDecl(q) == IF q.tdk = "tr_novi" THEN NOSHP
                ELSE IF q.decl = "none" THEN SD_TdShape(q)
                ELSE LET d == Decl(q.decl, SD_TdShape(q)) IN
                     IF q.tdk = "diffsym" /\ IsSym(d[1]) THEN <<-3>> \o Tail(d) ELSE d
\* the pattern spells out the attributes start = 0 and reduction = "none": nodes that rely on the defaults do not match
SD_Match(q, devs) == q.start = 0 /\ q.red = "none"
SD_Check(q, devs) ==
   LET dd == SD_DataDecl(q) td == SD_TdDecl(q) IN
   IF ~HasConstValue(q.akind, devs) THEN "fail"
   ELSE IF dd = NOSHP \/ td = NOSHP THEN "fail"
   ELSE IF dd[SD_A(q) + 1] = UNK \/ td[1] = UNK \/ dd[SD_A(q) + 1] # td[1] THEN "fail"      \* _ir_utils.same_dim
   ELSE "ok"
SD_Rewrite(q, devs) == Res(SD_Upd(q), TRUE)
SD_Unknown(q) == q.decl = "none" \/ q.tdk = "tr_novi" \/ q.akind \in {"ginput", "ginit"}

-----------------------------------------------------------------------------
(* expand_binop: _remove_expand_before_binary_op.py   Op(Expand(a, s), b) / Op(b, Expand(a, s))   *)
EX_Ops == {"Add", "Sub", "Mul", "Div", "Mod", "Mod_fmod", "Pow", "Equal", "Greater", "GreaterOrEqual", "Less", "LessOrEqual",
           "And", "Or", "Xor", "BitShift_L", "BitShift_R", "BitwiseAnd", "BitwiseOr", "BitwiseXor", "PRelu"}
EX_Class(op) == CASE op \in {"And", "Or", "Xor"} -> "bool"
                  [] op \in {"BitShift_L", "BitShift_R"} -> "u8"
                  [] op \in {"BitwiseAnd", "BitwiseOr", "BitwiseXor"} -> "i32"
                  [] op \in {"Div", "Mod", "Mod_fmod"} -> "i64"
                  [] OTHER -> "f32"
EX_OutDt(op) == IF op \in {"Equal", "Greater", "GreaterOrEqual", "Less", "LessOrEqual"} THEN "bool" ELSE EX_Class(op)
B2I(b) == IF b THEN 1 ELSE 0
EX_F(op, u, v) ==      \* u: first operand of the node, v: second
   CASE op = "Add" -> u + v [] op = "Sub" -> u - v [] op = "Mul" -> u * v
     [] op = "Div" -> TruncDiv(u, v) [] op = "Mod" -> PyMod(u, v) [] op = "Mod_fmod" -> CMod(u, v)
     [] op = "Pow" -> IPow(u, v) [] op = "PRelu" -> IF u < 0 THEN u * v ELSE u
     [] op = "Equal" -> B2I(u = v) [] op = "Greater" -> B2I(u > v) [] op = "GreaterOrEqual" -> B2I(u >= v)
     [] op = "Less" -> B2I(u < v) [] op = "LessOrEqual" -> B2I(u <= v)
     [] op = "And" -> u * v [] op = "Or" -> Max2(u, v) [] op = "Xor" -> (u + v) % 2
     [] op = "BitShift_L" -> (u * IPow(2, v)) % 256 [] op = "BitShift_R" -> u \div IPow(2, v)
     [] op = "BitwiseAnd" -> BitOp(u, v, "and")
     [] op = "BitwiseOr" -> BitOp(u, v, "or")
     [] op = "BitwiseXor" -> BitOp(u, v, "xor")
\* operand data by value class; the operand in second position is positive where it divides / is an exponent
EX_Val(op, first, k) ==
   CASE EX_Class(op) = "bool" -> IF first THEN k % 2 ELSE (k \div 2) % 2
     [] EX_Class(op) \in {"u8", "i32"} -> IF first THEN ((k - 1) % 5) + 1 ELSE (k - 1) % 3
     [] OTHER -> IF first THEN ((k - 1) % 5) - 2 ELSE ((k - 1) % 3) + 1
EX_InDt(op) == EX_Class(op)
EX_Operand(op, first, shape) == T(EX_InDt(op), shape, [k \in 1..Numel(shape) |-> EX_Val(op, first, k)])
EX_P(op, pos, as, es, bs, strat, decl) == [op |-> op, pos |-> pos, as |-> as, es |-> es, bs |-> bs, strat |-> strat, decl |-> decl]
EX_Shapes == IF Big THEN ShapesUpTo(3, {1, 2}) \cup ShapesUpTo(2, {1, 2, 3}) ELSE ShapesUpTo(2, {1, 2}) \cup {<<1, 1, 2>>}
EX_ValidShapes(as, es, bs) == BroadcastShape(as, es) # NOSHAPE /\ BroadcastShape(BroadcastShape(as, es), bs) # NOSHAPE
EX_Few == {<<<<2>>, <<2, 2>>, <<2, 2>>>>, <<<<1>>, <<2>>, <<2>>>>, <<<<2>>, <<1, 2>>, <<2>>>>, <<<<1, 2>>, <<2, 2>>, <<2, 1>>>>}
EX_Params(z) ==
   {q \in {EX_P("Sub", pos, as, es, bs, st, dc) : pos \in {1, 2}, as \in EX_Shapes \ (IF Big THEN {} ELSE {<<1, 1>>, <<1, 1, 2>>}), es \in EX_Shapes,
                bs \in EX_Shapes \ (IF Big THEN {} ELSE {<<1, 1>>, <<1, 1, 2>>}),
                st \in {"const", "annot", "out", "nothing"}, dc \in {"static", "sym"}} :
        /\ EX_ValidShapes(q.as, q.es, q.bs)
        /\ (Big \/ (q.decl = "sym" => q.strat \in {"annot", "out"} /\ q.pos = 1))
        /\ (Big \/ (q.pos = 2 => q.strat \in {"const", "out"}))}
   \cup {EX_P(op, pos, t[1], t[2], t[3], st, "static") : op \in EX_Ops, pos \in {1, 2}, t \in EX_Few, st \in {"const", "out"}}
   \cup {EX_P("Add", pos, t[1], t[2], t[3], st, "none") : pos \in {1, 2}, t \in EX_Few, st \in {"const", "annot", "out", "nothing"}}
EX_A(q) == EX_Operand(q.op, q.pos = 1, q.as)          \* the expanded operand
EX_B(q) == EX_Operand(q.op, q.pos = 2, q.bs)          \* the other one
EX_Bin(q, ea, b, op) == LET F(u, v) == EX_F(op, u, v) IN
                        IF q.pos = 1 THEN Map2(ea, b, EX_OutDt(op), F) ELSE Map2(b, ea, EX_OutDt(op), F)
EX_Lhs(q) == EX_Bin(q, Expand(EX_A(q), q.es), EX_B(q), q.op)
EX_Match(q, devs) == TRUE
\* one dimension of strategies 1/2 (e_d expand dim, x_d / y_d right-aligned dims of the two operands)
EX_DimOk(e, x, y, needInt) == \/ e = 1
                              \/ (x = e /\ (~needInt \/ IsInt(x)))
                              \/ (y = e /\ (~needInt \/ IsInt(y)))
EX_BDim(d1, d2) == IF d1 = 1 THEN d2 ELSE IF d2 = 1 THEN d1 ELSE IF d1 = d2 THEN d1 ELSE -1000
EX_BShape(s1, s2) == LET r == Max2(Len(s1), Len(s2)) IN [i \in 1..r |-> EX_BDim(RevAt(s1, r - i), RevAt(s2, r - i))]
EX_Check(q, devs) ==
   LET xd == Decl(q.decl, q.as)
       yd == IF q.decl = "none" THEN q.bs ELSE Decl(q.decl, q.bs)
       eact == BroadcastShape(q.as, q.es)                 \* shape of the Expand output
       ed == IF q.decl = "none" THEN eact ELSE Decl(q.decl, eact)
       osh == BroadcastShape(eact, q.bs)
       od == IF q.strat = "out" THEN (IF q.decl = "none" THEN osh ELSE Decl(q.decl, osh))
             ELSE [i \in 1..Len(osh) |-> UNK]        \* a graph output always has a rank
       rankOk(e) == Len(e) <= Max2(Len(q.as), Len(q.bs)) \/ "expand_rank_extension" \in devs
   IN IF xd = NOSHP THEN "fail"
      ELSE IF q.strat = "const"
         THEN (IF (\A j \in 0..(Len(q.es) - 1) : EX_DimOk(RevAt(q.es, j), RevAt(xd, j), RevAt(yd, j), TRUE)) /\ rankOk(q.es) THEN "ok" ELSE "fail")
      ELSE IF q.strat = "annot"
         THEN (IF (\A j \in 0..(Len(ed) - 1) : EX_DimOk(RevAt(ed, j), RevAt(xd, j), RevAt(yd, j), FALSE)) /\ rankOk(ed) THEN "ok" ELSE "fail")
      ELSE LET cb == EX_BShape(xd, yd) IN
           IF -1000 \notin SeqToSet(cb) /\ Len(cb) = Len(od) /\ (\A i \in 1..Len(cb) : cb[i] = od[i] /\ od[i] # UNK) THEN "ok" ELSE "fail"
\* rewrite builds Op(x, y) without the node's attributes
EX_Rewrite(q, devs) ==
   LET drop == "expand_binop_drops_attrs" \in devs
       op2 == IF drop /\ q.op = "Mod_fmod" THEN "Mod" ELSE q.op
   IN Res(EX_Bin(q, EX_A(q), EX_B(q), op2), ~(drop /\ q.op \in {"BitShift_L", "BitShift_R"}))
EX_Unknown(q) == q.decl = "none" \/ (q.strat = "nothing" /\ Len(BroadcastShape(BroadcastShape(q.as, q.es), q.bs)) > 0)

-----------------------------------------------------------------------------
(* materialize: _materialize_reshape_shape.py   Reshape(data, <dynamic shape>) with a known output shape *)
MR_Targets(ds) == IF Numel(ds) = 6 THEN {<<6>>, <<2, 3>>, <<3, 2>>, <<-1, 2>>, <<0, 3>>, <<1, 2, 3>>, <<1, 6>>}
                  \* (session 6: -1 targets on empty data - the inferred dim is 0 at a position where the INPUT's dim is not 0, so
                  \*  the materialised 0 means "zero" only under allowzero = 1; seeded C05-m13)
                  ELSE {<<0, 3>>, <<3, 0>>, <<0>>, <<2, 0>>, <<1, 0>>, <<3, -1>>, <<-1, 2>>, <<1, -1>>}
MR_Masks(n) == {m \in [1..n -> BOOLEAN] : Cardinality({i \in 1..n : m[i]}) <= 2}
MR_AllParams ==
   UNION {{[ds |-> ds, tg |-> tg, az |-> az, mask |-> m, ovi |-> TRUE, skind |-> "ginput", opset |-> os] :
              tg \in MR_Targets(ds), az \in {NONE, 1}, m \in UNION {MR_Masks(n) : n \in 1..3}, os \in {13, 14, 18}} :
          ds \in {<<6>>, <<2, 3>>, <<0, 3>>, <<2, 0>>}}
   \cup {[ds |-> <<2, 3>>, tg |-> tg, az |-> NONE, mask |-> m, ovi |-> ov, skind |-> k, opset |-> 18] :
        tg \in {<<3, 2>>, <<6>>}, m \in MR_Masks(2) \cup MR_Masks(1), ov \in BOOLEAN, k \in {"ginput", "init", "cnode", "ginit"}}
MR_Params(z) == {q \in MR_AllParams : Len(q.mask) = Len(q.tg)}
MR_Data(q) == T("f32", q.ds, [k \in 1..Numel(q.ds) |-> k])
MR_HostValid(q) == (q.az = NONE \/ q.opset >= 14) /\ Len(q.mask) = Len(q.tg)
MR_Lhs(q) == IF ~MR_HostValid(q) THEN ERR ELSE Reshape(MR_Data(q), q.tg, q.az = 1)
\* the declared output shape: the true dims, masked ones symbolic (distinct names)
MR_OutDecl(q) == LET o == MR_Lhs(q).shape IN [i \in 1..Len(o) |-> IF q.mask[i] THEN -i ELSE o[i]]
MR_Match(q, devs) == TRUE
MR_NewDims(q) == LET d == MR_OutDecl(q) IN [i \in 1..Len(d) |-> IF IsSym(d[i]) THEN -1 ELSE d[i]]
MR_Check(q, devs) ==
   IF q.skind \in {"init", "cnode", "ginit"} THEN "fail"           \* shape input is already a constant (declining is always allowed)
   ELSE IF ~q.ovi THEN "fail"
   ELSE IF Cardinality({i \in 1..Len(q.mask) : q.mask[i]}) > 1 THEN "fail"
   \* design: allowzero exists from opset 14 on and excludes -1 next to 0
   ELSE IF "materialize_allowzero" \notin devs /\ (q.opset < 14 \/ (-1 \in SeqToSet(MR_NewDims(q)) /\ 0 \in SeqToSet(MR_NewDims(q)))) THEN "fail"
   ELSE "ok"
MR_Rewrite(q, devs) == Res(Reshape(MR_Data(q), MR_NewDims(q), TRUE), q.opset >= 14)
MR_Unknown(q) == ~q.ovi \/ Cardinality({i \in 1..Len(q.mask) : q.mask[i]}) > 1

-----------------------------------------------------------------------------
(* collapse_slices: _collapse_slices.py  rule r1 = collapse_slice_rule, r2 = collapse_slice2_rule        *)
BIGEND == 1000000         \* stands for INT64_MAX
CS_Rec(r, ds, dc, st, en, ax, sp, k, ov) == [rule |-> r, ds |-> ds, decl |-> dc, st |-> st, en |-> en, ax |-> ax, sp |-> sp, ckind |-> k, ovi |-> ov]
CS_AllParams(z) ==
   \* starts 0, positive, and negative (-1, -dim+1, -dim, below -dim for dims 2 and 3) x ends below / at / above the dim and
   \* the INT64_MAX token x positive and negative axes x steps, on static and symbolic axis sizes
   {CS_Rec(r, ds, dc, st, en, ax, sp, "init", ov) :
        r \in {"r1", "r2"}, ds \in (IF Big THEN {<<3>>, <<2, 3>>, <<0, 2>>} ELSE {<<3>>, <<2, 3>>}), dc \in {"static", "sym"},
        st \in {0, 1, -1, -2, -3, -4}, en \in (IF Big THEN {-1, 1, 2, 3, 4, BIGEND} ELSE {2, 3, 4, BIGEND}),
        ax \in -2..1, sp \in {1, 2, -1}, ov \in BOOLEAN}
   \* what is known about the data shape
   \cup {CS_Rec(r, ds, dc, st, en, ax, 1, "init", ov) :
        r \in {"r1", "r2"}, ds \in {<<3>>, <<2, 3>>}, dc \in {"unk", "unk1", "none"}, st \in {0, 1, -3}, en \in {2, 3, BIGEND},
        ax \in -2..1, ov \in BOOLEAN}
   \cup {CS_Rec(r, <<2, 3>>, dc, 0, en, ax, 1, k, TRUE) :
        r \in {"r1", "r2"}, dc \in {"static", "sym"}, en \in {3, BIGEND}, ax \in {0, 1, -1}, k \in {"cnode", "ginput", "ginit"}}
CS_X(q) == T("f32", q.ds, [k \in 1..Numel(q.ds) |-> k])
\* (a negative step together with the INT64_MAX end is a corner where ORT departs from the operator text: not generated)
CS_HostValid(q) == NormAxis(q.ax, Len(q.ds)) # -1000 /\ ~(q.sp < 0 /\ q.en = BIGEND)
CS_Params(z) == {q \in CS_AllParams(0) : CS_HostValid(q) /\ (q.rule = "r2" \/ q.ovi)}
CS_Lhs(q) == IF ~CS_HostValid(q) THEN ERR ELSE Slice(CS_X(q), <<q.st>>, <<q.en>>, <<q.ax>>, <<q.sp>>)
CS_Axis(q) == NormAxis(q.ax, Len(q.ds)) + 1
CS_Full(q) == q.st = 0 /\ q.en = BIGEND /\ q.sp = 1
\* truthful annotation of the Slice output: static when the data shape is; for a symbolic data shape the sliced
\* axis is unknown unless the slice is the full one
CS_OutDecl(q) == LET dd == Decl(q.decl, q.ds) o == CS_Lhs(q).shape IN
                 IF ~q.ovi \/ q.decl = "none" THEN NOSHP
                 ELSE IF q.decl = "static" THEN o
                 ELSE [i \in 1..Len(o) |-> IF i = CS_Axis(q) /\ ~CS_Full(q) /\ IsSym(dd[i]) THEN UNK ELSE IF i = CS_Axis(q) /\ ~IsSym(dd[i]) THEN o[i] ELSE dd[i]]
CS_Match(q, devs) == TRUE
CS_Check(q, devs) ==
   LET dd == Decl(q.decl, q.ds) IN
   IF ~CS_HostValid(q) THEN "fail"
   ELSE IF q.rule = "r1"
   THEN IF ~HasConstValue(q.ckind, devs) THEN "fail"
        ELSE IF q.sp # 1 \/ q.st # 0 THEN "fail"
        ELSE IF q.en = BIGEND THEN "ok"
        ELSE IF dd = NOSHP \/ IsSym(dd[CS_Axis(q)]) THEN "fail"
        ELSE IF q.en < dd[CS_Axis(q)] THEN "fail" ELSE "ok"
   ELSE IF dd = NOSHP \/ CS_OutDecl(q) = NOSHP THEN "fail"
        ELSE IF ~HasConstValue(q.ckind, devs) \/ q.sp # 1 THEN "fail"
        ELSE IF UNK \in SeqToSet(CS_OutDecl(q)) \/ CS_OutDecl(q) # dd THEN "fail" ELSE "ok"
CS_Rewrite(q, devs) == Res(CS_X(q), TRUE)
CS_Unknown(q) == LET dd == Decl(q.decl, q.ds) IN
                 \/ q.ckind \in {"ginput", "ginit"}
                 \/ (q.rule = "r1" /\ q.en # BIGEND /\ (dd = NOSHP \/ IsSym(dd[CS_Axis(q)])))
                 \/ (q.rule = "r2" /\ (dd = NOSHP \/ CS_OutDecl(q) = NOSHP \/ UNK \in SeqToSet(CS_OutDecl(q))))

-----------------------------------------------------------------------------
(* casts: _basic_rules.py CastCast, CastIdentity *)
CA_Types == {"f32", "f16", "i64", "i32", "bool"}
CA_Params(z) == {[kind |-> "castcast", t1 |-> a, t2 |-> b, t3 |-> c, known |-> TRUE] : a \in CA_Types, b \in CA_Types, c \in CA_Types}
             \cup {[kind |-> "noopcast", t1 |-> a, t2 |-> a, t3 |-> c, known |-> kn] : a \in CA_Types, c \in CA_Types, kn \in BOOLEAN}
CastV(v, to) == IF to = "bool" THEN (IF v # 0 THEN 1 ELSE 0) ELSE v
CA_X(q) == IF q.t1 = "bool" THEN T("bool", <<7>>, [k \in 1..7 |-> k % 2]) ELSE XT(q.t1, <<7>>)
CastT(t, to) == Map1(t, to, LAMBDA v : CastV(v, to))
CA_Lhs(q) == IF q.kind = "castcast" THEN CastT(CastT(CA_X(q), q.t2), q.t3) ELSE CastT(CA_X(q), q.t3)
CA_Match(q, devs) == TRUE
CA_Check(q, devs) == IF q.kind = "castcast" THEN (IF q.t2 = "f32" /\ q.t3 = "f16" THEN "ok" ELSE "fail")
                     ELSE IF q.known /\ q.t1 = q.t3 THEN "ok" ELSE "fail"
CA_Rewrite(q, devs) == IF q.kind = "castcast" THEN Res(CastT(CA_X(q), q.t3), TRUE) ELSE Res(CA_X(q), TRUE)
CA_Unknown(q) == q.kind = "noopcast" /\ ~q.known

-----------------------------------------------------------------------------
(* no_op_expand: _basic_rules.py ExpandIdentity *)
NE_Shapes == IF Big THEN ShapesUpTo(2, {1, 2, 3}) ELSE ShapesUpTo(2, {1, 2})
NE_AllParams(z) == {[as |-> as, decl |-> dc, es |-> es, skind |-> k] : as \in NE_Shapes, dc \in {"static", "sym", "none"}, es \in NE_Shapes,
                  k \in {"init", "cnode", "ginput", "ginit"}}
NE_X(q) == T("f32", q.as, [k \in 1..Numel(q.as) |-> k])
NE_Lhs(q) == Expand(NE_X(q), q.es)
NE_Check(q, devs) == IF ~HasConstValue(q.skind, devs) THEN "fail"
                     ELSE IF Decl(q.decl, q.as) = NOSHP THEN "fail"
                     ELSE IF Decl(q.decl, q.as) # q.es THEN "fail" ELSE "ok"
NE_Rewrite(q, devs) == Res(NE_X(q), TRUE)
NE_Unknown(q) == q.decl = "none" \/ q.skind \in {"ginput", "ginit"}

-----------------------------------------------------------------------------
(* reshape_reshape: _basic_rules.py ReshapeReshape *)
RR_S1(xs) == IF Numel(xs) = 6 THEN {<<6>>, <<3, 2>>, <<0, -1>>} ELSE {<<0>>, <<2, 0>>}
RR_S2(xs) == IF Numel(xs) = 6 THEN {<<6>>, <<-1>>, <<2, 3>>, <<0, 2>>, <<0, -1>>, <<-1, 0>>, <<0, 0>>, <<2, -1>>, <<1, 0, -1>>, <<0, 1, 2>>, <<0, 1, 0>>}
                ELSE {<<0>>, <<0, 2>>, <<3, 0>>, <<-1, 2>>, <<0, 0>>}
RR_AllParams(z) == UNION {{[xs |-> xs, s1 |-> s1, s2 |-> s2, az |-> az, az1 |-> a1, ovi |-> ov, skind |-> k, extra |-> ex] :
                  s1 \in RR_S1(xs), s2 \in RR_S2(xs), az \in {NONE, 0, 1}, a1 \in BOOLEAN, ov \in BOOLEAN,
                  k \in {"init", "ginput"}, ex \in BOOLEAN} : xs \in {<<6>>, <<2, 3>>, <<0, 2>>}}
RR_X(q) == T("f32", q.xs, [k \in 1..Numel(q.xs) |-> k])
RR_Lhs(q) == Reshape(Reshape(RR_X(q), q.s1, q.az1), q.s2, q.az = 1)
RR_New(q) ==       \* check(): positive dims of a known output shape are copied into the new shape
   LET o == RR_Lhs(q).shape IN [i \in 1..Len(q.s2) |-> IF q.ovi /\ o[i] > 0 THEN o[i] ELSE q.s2[i]]
RR_KeepAz(q) == q.az = 1 /\ 0 \in SeqToSet(RR_New(q))
RR_Check(q, devs) ==
   LET n == RR_New(q) IN
   IF ~HasConstValue(q.skind, devs) THEN "fail"
   ELSE IF RR_KeepAz(q) THEN "ok"
   ELSE IF 0 \in SeqToSet(n) /\ (\E i \in 1..Len(n) : n[i] < 0) THEN "fail"
   ELSE IF Cardinality({i \in 1..Len(n) : n[i] = 0}) > 1 THEN "fail"
   ELSE "ok"
RR_Rewrite(q, devs) ==
   LET n == RR_New(q) IN
   IF RR_KeepAz(q) THEN Res(Reshape(RR_X(q), n, TRUE), TRUE)
   ELSE Res(Reshape(RR_X(q), [i \in 1..Len(n) |-> IF n[i] = 0 THEN -1 ELSE n[i]], FALSE), TRUE)
RR_Unknown(q) == q.skind = "ginput"
RR_Params(z) == {q \in RR_AllParams(0) : ~IsErr(RR_Lhs(q))}

-----------------------------------------------------------------------------
(* flatten: _basic_rules.py Flatten2Reshape *)
FL_Masks(n) == [1..n -> BOOLEAN]
FL_AllParams(z) == {[xs |-> xs, mask |-> m, axis |-> a, ovi |-> ov, known |-> kn] :
                  xs \in {<<3>>, <<2, 3>>, <<2, 1, 3>>, <<2, 0, 3>>, <<0, 3>>}, m \in UNION {FL_Masks(n) : n \in 1..3},
                  a \in {NONE} \cup (-3..3), ov \in BOOLEAN, kn \in BOOLEAN}
FL_Axis(q) == IF q.axis = NONE THEN 1 ELSE q.axis
FL_HostValid(q) == Len(q.mask) = Len(q.xs) /\ FL_Axis(q) >= -Len(q.xs) /\ FL_Axis(q) <= Len(q.xs)
FL_X(q) == T("f32", q.xs, [k \in 1..Numel(q.xs) |-> k])
FL_Lhs(q) == IF ~FL_HostValid(q) THEN ERR
             ELSE LET a == IF FL_Axis(q) < 0 THEN FL_Axis(q) + Len(q.xs) ELSE FL_Axis(q)
                  IN T("f32", <<SeqProd(SubSeq(q.xs, 1, a)), SeqProd(SubSeq(q.xs, a + 1, Len(q.xs)))>>, FL_X(q).data)
FL_Decl(q) == IF ~q.known THEN NOSHP ELSE [i \in 1..Len(q.xs) |-> IF q.mask[i] THEN -i ELSE q.xs[i]]
FL_New(q) ==        \* the check() of the code, step by step
   LET dd == FL_Decl(q)
       rank == IF dd = NOSHP THEN -1000 ELSE Len(dd)
       ax == IF dd # NOSHP /\ FL_Axis(q) < 0 THEN FL_Axis(q) + rank ELSE FL_Axis(q)
       n0 == IF ax = 0 THEN <<1, -1>> ELSE IF ax = 1 THEN <<0, -1>> ELSE IF ax = rank THEN <<-1, 1>> ELSE <<-1, -1>>
       o == FL_Lhs(q).shape
       n1 == IF q.ovi THEN o ELSE n0
       \* python slicing with the (possibly still negative) axis
       cut == IF ax >= 0 THEN Min2(ax, rank) ELSE Max2(rank + ax, 0)
       pre == IF dd = NOSHP THEN <<>> ELSE SubSeq(dd, 1, cut)
       suf == IF dd = NOSHP THEN <<>> ELSE SubSeq(dd, cut + 1, rank)
       allInt(s) == \A i \in 1..Len(s) : IsInt(s[i])
       n2 == IF dd = NOSHP THEN n1
             ELSE <<IF allInt(pre) THEN SeqProd(pre) ELSE n1[1], IF allInt(suf) THEN SeqProd(suf) ELSE n1[2]>>
   IN n2
FL_Check(q, devs) ==
   LET n == FL_New(q) IN
   IF n[1] = -1 /\ n[2] = -1 THEN "fail"
   \* design: in the new shape a 0 means "copy the input dim" (wrong when the product of the leading dims is 0 but
   \* the first dim is not) and a -1 cannot be inferred for a tensor that is empty at run time: without the deviation
   \* the rule fires only with a fully computed shape that has no such 0
   ELSE IF "flatten_zero_dim" \notin devs /\ (-1 \in SeqToSet(n) \/ \E i \in 1..2 : n[i] = 0 /\ (i > Len(q.xs) \/ q.xs[i] # 0)) THEN "fail"
   ELSE "ok"
FL_Rewrite(q, devs) == Res(Reshape(FL_X(q), FL_New(q), FALSE), TRUE)
FL_Unknown(q) == FALSE
FL_Params(z) == {q \in FL_AllParams(0) : FL_HostValid(q)}

-----------------------------------------------------------------------------
(* slice_split: _basic_rules.py SlicesSplit (two-output pattern) *)
PAIR(a, b) == IF IsErr(a) \/ IsErr(b) THEN ERR ELSE [dt |-> "PAIR", shape |-> <<>>, data |-> <<a, b>>]
SS_AllParams(z) ==
   \* around the rule's own conditions: e0, b1 near d/2, e1 near d
   UNION {{[xs |-> xs, ax |-> ax, b0 |-> b0, e0 |-> e0, b1 |-> b1, e1 |-> e1, opset |-> os, known |-> kn, order |-> od] :
              ax \in {-1, 0, 1}, b0 \in {0, 1}, e0 \in {Last(xs) \div 2, CeilDiv(Last(xs), 2)}, b1 \in {Last(xs) \div 2, CeilDiv(Last(xs), 2)},
              e1 \in {Last(xs), Last(xs) - 1}, os \in {13, 18}, kn \in BOOLEAN, od \in {"ab", "ba"}} :
          xs \in (IF Big THEN {<<2>>, <<3>>, <<4>>, <<5>>, <<2, 4>>, <<2, 3>>, <<4, 2>>, <<2, 5>>} ELSE {<<2>>, <<3>>, <<4>>, <<2, 4>>, <<2, 3>>})}
SS_X(q) == T("f32", q.xs, [k \in 1..Numel(q.xs) |-> k])
SS_HostValid(q) == NormAxis(q.ax, Len(q.xs)) # -1000
SS_Lhs(q) == IF ~SS_HostValid(q) THEN ERR
             ELSE PAIR(Slice(SS_X(q), <<q.b0>>, <<q.e0>>, <<q.ax>>, <<1>>), Slice(SS_X(q), <<q.b1>>, <<q.e1>>, <<q.ax>>, <<1>>))
\* two-output pattern: SimplePatternMatcher.match fixes the visited node as first output and returns the FIRST
\* structurally matching combination with a Slice of the graph as second output (it may be the same node); the
\* condition function is evaluated on that combination only.  The right combination is the first one exactly when
\* the second-half Slice precedes the first-half Slice in the graph ("ba").
SS_Match(q, devs) == q.order = "ba"
SS_Check(q, devs) ==
   LET r == Len(q.xs) d == q.xs[r] IN
   IF ~q.known THEN "fail"
   ELSE IF q.ax # -1 /\ q.ax # r - 1 THEN "fail"
   ELSE IF q.b0 # 0 \/ q.e0 # q.b1 \/ d # q.e1 \/ d \div 2 # q.b1 THEN "fail"
   \* design: Split(num_outputs = 2) gives the larger chunk first; num_outputs exists from opset 18 on
   ELSE IF "slice_split_odd" \notin devs /\ d % 2 = 1 THEN "fail"
   ELSE IF "split_num_outputs_pre_opset18" \notin devs /\ q.opset < 18 THEN "fail"
   ELSE "ok"
SS_Rewrite(q, devs) ==
   LET r == Len(q.xs) d == q.xs[r] h == CeilDiv(d, 2) IN
   Res(PAIR(Slice(SS_X(q), <<0>>, <<h>>, <<-1>>, <<1>>), Slice(SS_X(q), <<h>>, <<d>>, <<-1>>, <<1>>)), q.opset >= 18)
SS_Unknown(q) == ~q.known
SS_Params(z) == {q \in SS_AllParams(0) : SS_HostValid(q)}

-----------------------------------------------------------------------------
(* transposes: _basic_rules.py TransposeIdentity, TransposeTranspose.  perm NOPERM = attribute absent *)
NOPERM == <<-1>>
Perms(r) == {f \in [1..r -> 0..(r - 1)] : \A i, j \in 1..r : i # j => f[i] # f[j]}
TR_Shape(r) == SubSeq(<<2, 3, 1>>, 1, r)
TR_Params(z) == UNION {{[kind |-> "noop", r |-> r, p1 |-> pa, p2 |-> NOPERM] : pa \in Perms(r) \cup {NOPERM}} : r \in 1..3}
             \cup UNION {{[kind |-> "tt", r |-> r, p1 |-> pa, p2 |-> pb] : pa \in Perms(r) \cup {NOPERM}, pb \in Perms(r) \cup {NOPERM}} : r \in 1..3}
TR_X(q) == T("f32", TR_Shape(q.r), [k \in 1..Numel(TR_Shape(q.r)) |-> k])
TR_Perm(pm, r) == IF pm = NOPERM THEN RevPerm(r) ELSE pm
TR_Lhs(q) == IF q.kind = "noop" THEN Transpose(TR_X(q), TR_Perm(q.p1, q.r))
             ELSE Transpose(Transpose(TR_X(q), TR_Perm(q.p1, q.r)), TR_Perm(q.p2, q.r))
\* the pattern binds the attribute perm: a node without it does not match
TR_Match(q, devs) == q.p1 # NOPERM /\ (q.kind = "noop" \/ q.p2 # NOPERM)
TR_Check(q, devs) == IF q.kind = "noop" THEN (IF q.p1 = [i \in 1..q.r |-> i - 1] THEN "ok" ELSE "fail") ELSE "ok"
TR_Rewrite(q, devs) ==
   IF q.kind = "noop" THEN Res(TR_X(q), TRUE)
   ELSE LET last == [i \in 1..q.r |-> q.p1[q.p2[i] + 1]]         \* _apply_transposes([perm1, perm2])
        IN Res(Transpose(TR_X(q), last), TRUE)
TR_Unknown(q) == FALSE

-----------------------------------------------------------------------------
(* unsqueeze2: _basic_rules.py UnsqueezeUnsqueeze *)
UU_AllParams(z) == {[xs |-> xs, a1 |-> a1, a2 |-> a2, akind |-> k] : xs \in {<<>>, <<2>>, <<2, 3>>}, a1 \in -3..2, a2 \in -4..3,
                 k \in {"init", "cnode", "ginput", "ginit"}}
UU_X(q) == T("f32", q.xs, [k \in 1..Numel(q.xs) |-> k])
UU_Lhs(q) == Unsqueeze(Unsqueeze(UU_X(q), <<q.a1>>), <<q.a2>>)
UU_Check(q, devs) == IF ~HasConstValue(q.akind, devs) THEN "fail" ELSE IF q.a1 < 0 \/ q.a2 < 0 THEN "fail" ELSE "ok"
UU_Rewrite(q, devs) == Res(Unsqueeze(UU_X(q), IF q.a1 < q.a2 THEN <<q.a1, q.a2>> ELSE <<q.a2, q.a1 + 1>>), TRUE)
UU_Unknown(q) == q.akind \in {"ginput", "ginit"}

-----------------------------------------------------------------------------
(* squeeze_reshape: _basic_rules.py SqueezeReshape   Reshape(Squeeze(x), [-1]) *)
SQ_AllParams(z) == {[xs |-> xs, decl |-> dc, tgt |-> tg, axes |-> ax, tkind |-> k] : xs \in {<<1>>, <<3>>, <<1, 1>>, <<1, 3>>}, dc \in {"static", "sym", "none"},
                 tg \in {<<-1>>, <<3>>, <<1>>, <<-1, 1>>}, ax \in BOOLEAN, k \in {"init", "cnode", "ginput", "ginit"}}
SQ_X(q) == T("f32", q.xs, [k \in 1..Numel(q.xs) |-> k])
SQ_HostValid(q) == ~q.axes \/ q.xs[1] = 1           \* Squeeze(x, axes=[0])
SQ_Lhs(q) == IF ~SQ_HostValid(q) THEN ERR ELSE Reshape(IF q.axes THEN Squeeze(SQ_X(q), <<0>>) ELSE SqueezeAll(SQ_X(q)), q.tgt, FALSE)
\* pattern: Squeeze with exactly one input; second Reshape input a constant 1-D tensor equal to [-1]
SQ_Match(q, devs) == ~q.axes /\ HasConstValue(q.tkind, devs) /\ q.tgt = <<-1>>
SQ_Check(q, devs) == IF Decl(q.decl, q.xs) # NOSHP /\ Len(q.xs) = 1 THEN "ok" ELSE "fail"
SQ_Rewrite(q, devs) == Res(SQ_X(q), TRUE)
SQ_Unknown(q) == q.decl = "none" \/ q.tkind \in {"ginput", "ginit"}

-----------------------------------------------------------------------------
(* matmul_reshape: _broadcast_to_matmul.py  Reshape(MatMul(Reshape(a, sa), [Reshape](b, sb)), sc) -> MatMul(a, b) *)
MatMul(a, b) ==
   IF IsErr(a) \/ IsErr(b) THEN ERR
   ELSE IF Rank(a) = 0 \/ Rank(b) = 0 THEN ERR
   ELSE LET as2 == IF Rank(a) = 1 THEN <<1>> \o a.shape ELSE a.shape
            bs2 == IF Rank(b) = 1 THEN b.shape \o <<1>> ELSE b.shape
            ra == Len(as2) rb == Len(bs2)
            M == as2[ra - 1] K == as2[ra] N == bs2[rb]
            ba == SubSeq(as2, 1, ra - 2) bb == SubSeq(bs2, 1, rb - 2)
            bo == BroadcastShape(ba, bb)
        IN IF K # bs2[rb - 1] \/ bo = NOSHAPE THEN ERR
           ELSE LET nb == Len(bo)
                    a2 == T(a.dt, as2, a.data) b2 == T(b.dt, bs2, b.data)
                    BIdx(bsh, idx) == [j \in 1..Len(bsh) |-> IF bsh[j] = 1 THEN 0 ELSE idx[j + nb - Len(bsh)]]
                    Op(idx) == SeqSum([k \in 1..K |-> At(a2, BIdx(ba, idx) \o <<idx[nb + 1], k - 1>>) * At(b2, BIdx(bb, idx) \o <<k - 1, idx[nb + 2]>>)])
                    full == FromFn(a.dt, bo \o <<M, N>>, Op)
                    osh == bo \o (IF Rank(a) = 1 THEN <<>> ELSE <<M>>) \o (IF Rank(b) = 1 THEN <<>> ELSE <<N>>)
                IN T(a.dt, osh, full.data)
SameNumel(S, n) == {s \in S : Numel(s) = n}
BM_Shapes == IF Big THEN ShapesUpTo(3, {1, 2}) \ {<<>>} ELSE {<<2>>, <<1, 2>>, <<2, 1>>, <<2, 2>>, <<1, 2, 2>>, <<2, 1, 2>>, <<2, 2, 1>>}
NOSB == <<-1>>
\* shape of MatMul(s, t) or <<-1000>>
MMShape(s, t) ==
   IF Len(s) = 0 \/ Len(t) = 0 THEN <<-1000>>
   ELSE LET s2 == IF Len(s) = 1 THEN <<1>> \o s ELSE s
            t2 == IF Len(t) = 1 THEN t \o <<1>> ELSE t
            bo == BroadcastShape(SubSeq(s2, 1, Len(s2) - 2), SubSeq(t2, 1, Len(t2) - 2))
        IN IF Last(s2) # t2[Len(t2) - 1] \/ bo = NOSHAPE THEN <<-1000>>
           ELSE bo \o (IF Len(s) = 1 THEN <<>> ELSE <<s2[Len(s2) - 1]>>) \o (IF Len(t) = 1 THEN <<>> ELSE <<Last(t2)>>)
BM_Params(z) ==
   UNION {UNION {UNION {UNION {
      {[as |-> as, bs |-> bs, sa |-> sa, sb |-> sb, sc |-> sc, ckind |-> "init"] :
           sc \in (LET ms == MMShape(sa, IF sb = NOSB THEN bs ELSE sb) IN IF ms = <<-1000>> THEN {} ELSE SameNumel(BM_Shapes, Numel(ms)))}
      : sb \in SameNumel(BM_Shapes, Numel(bs)) \cup {NOSB}} : sa \in SameNumel(BM_Shapes, Numel(as))} : bs \in BM_Shapes} : as \in BM_Shapes}
BM_A(q) == T("f32", q.as, [k \in 1..Numel(q.as) |-> k])
BM_B(q) == T("f32", q.bs, [k \in 1..Numel(q.bs) |-> 2 * k - 3])
BM_Lhs(q) == IF Numel(q.sa) # Numel(q.as) \/ (q.sb # NOSB /\ Numel(q.sb) # Numel(q.bs)) THEN ERR
             ELSE LET mm == MatMul(Reshape(BM_A(q), q.sa, FALSE), IF q.sb = NOSB THEN BM_B(q) ELSE Reshape(BM_B(q), q.sb, FALSE))
                  IN IF IsErr(mm) THEN ERR ELSE Reshape(mm, q.sc, FALSE)
\* check_if_not_need_reshape, transcribed
BM_Computed(q) ==
   LET a0 == q.as b0 == q.bs
       ar0 == Len(a0) br0 == Len(b0)
   IN IF ar0 < 2 /\ br0 < 2 THEN <<-1000>>
      ELSE IF ar0 < 2 /\ Last(a0) # b0[br0 - 1] THEN <<-1000>>
      ELSE LET a1 == IF ar0 < 2 THEN <<1>> \o a0 ELSE a0
               mimA == ar0 < 2
           IN IF br0 < 2 /\ Last(b0) # Last(a1) THEN <<-1000>>
              ELSE LET b1 == IF br0 < 2 THEN b0 \o <<1>> ELSE b0
                       mimB == br0 < 2
                       ar == Len(a1) br == Len(b1)
                       aex == SubSeq(a1, 1, ar - 2) \o <<a1[ar]>>
                       bex == SubSeq(b1, 1, br - 1)
                       n == Min2(Len(aex), Len(bex))
                       da(i) == aex[Len(aex) - i]      \* i = 0 .. n-1 from the right
                       db(i) == bex[Len(bex) - i]
                   IN IF \E i \in 0..(n - 1) : da(i) # 1 /\ da(i) # db(i) THEN <<-1000>>
                      ELSE LET mid == [j \in 1..(n - 1) |-> Max2(da(n - j), db(n - j))] \o <<a1[ar - 1], b1[br]>>
                               longer == IF ar > br THEN a1 ELSE b1
                               shorter == IF ar > br THEN b1 ELSE a1
                               o1 == SubSeq(longer, 1, Len(longer) - Len(shorter)) \o mid
                               o2 == IF mimB /\ br = 2 /\ b1[br] = 1 THEN SubSeq(o1, 1, Len(o1) - 1) ELSE o1
                               o3 == IF mimA /\ ar = 2 /\ a1[1] = 1 THEN RemoveAt(o2, Len(o2) - 1) ELSE o2
                           IN o3
\* design: the inner reshapes must be transparent to MatMul (they may only add or drop leading 1s), and a . b
\* must itself be a valid MatMul
DropLead1(s) == IF Len(s) > 0 /\ s[1] = 1 /\ Len(s) > 1 THEN SubSeq(s, 2, Len(s)) ELSE s
RECURSIVE Strip1(_)
Strip1(s) == IF Len(s) > 1 /\ s[1] = 1 THEN Strip1(Tail(s)) ELSE s
BM_Transparent(q) == /\ Strip1(q.sa) = Strip1(q.as) /\ (Len(q.as) = 1 <=> Len(q.sa) = 1)
                     /\ (q.sb = NOSB \/ (Strip1(q.sb) = Strip1(q.bs) /\ (Len(q.bs) = 1 <=> Len(q.sb) = 1)))
BM_Match(q, devs) == TRUE
BM_Check(q, devs) ==
   IF BM_Computed(q) # q.sc THEN "fail"
   ELSE IF "reshape_matmul_ignores_inner_shapes" \notin devs /\ (~BM_Transparent(q) \/ IsErr(MatMul(BM_A(q), BM_B(q)))) THEN "fail"
   ELSE "ok"
BM_Rewrite(q, devs) == Res(MatMul(BM_A(q), BM_B(q)), TRUE)
BM_Unknown(q) == FALSE

NE_Params(z) == {q \in NE_AllParams(0) : BroadcastShape(q.as, q.es) # NOSHAPE}
UU_Params(z) == {q \in UU_AllParams(0) : q.a1 >= -(Len(q.xs) + 1) /\ q.a1 <= Len(q.xs) /\ q.a2 >= -(Len(q.xs) + 2) /\ q.a2 <= Len(q.xs) + 1}
SQ_Params(z) == {q \in SQ_AllParams(0) : ~q.axes \/ q.xs[1] = 1}

-----------------------------------------------------------------------------
(* pad_conv: _fuse_pad_into_conv.py   1-D integer convolution: x [N, C, L], w [M, C, k]                          *)
(*   fuse:      Conv(Pad(x, pads, [value], [axes]), w; pads, strides, dilations, auto_pad) -> Conv(x, w; pads')  *)
(*   normalize: Conv(x, w; auto_pad = VALID or SAME_UPPER or SAME_LOWER) ->  Conv(x, w; auto_pad = NOTSET, pads)                   *)
(* ConvInteger: contributions are (x - x_zero_point) * w, padded positions hold the zero point                  *)
PC_Pad(x, pb, pe, nb, val, mode) ==
   LET N == x.shape[1] C == x.shape[2] L == x.shape[3] IN
   IF L + pb + pe < 0 THEN ERR
   ELSE LET Op(idx) == LET n == idx[1] - nb  i == idx[3] - pb IN
                       IF mode = "edge" THEN At(x, <<Clamp(n, 0, N - 1), idx[2], Clamp(i, 0, L - 1)>>)
                       ELSE IF n < 0 \/ i < 0 \/ i >= L THEN val ELSE At(x, <<n, idx[2], i>>)
        IN FromFn(x.dt, <<N + nb, C, L + pb + pe>>, Op)
PC_Conv(x, w, pb, pe, s, d, zp, odt) ==
   IF IsErr(x) THEN ERR
   ELSE LET N == x.shape[1] C == x.shape[2] L == x.shape[3] M == w.shape[1] k == w.shape[3]
            keff == (k - 1) * d + 1
            Lp == L + pb + pe
        IN IF Lp < keff THEN ERR
           ELSE LET out == (Lp - keff) \div s + 1
                    Xv(n, c, i) == IF i < pb \/ i >= pb + L THEN zp ELSE At(x, <<n, c, i - pb>>)
                    Op(idx) == SeqSum([c \in 1..C |-> SeqSum([j \in 1..k |->
                                   (Xv(idx[1], c - 1, idx[3] * s + (j - 1) * d) - zp) * At(w, <<idx[2], c - 1, j - 1>>)])])
                IN FromFn(odt, <<N, M, out>>, Op)
\* auto_pad as the operator defines it (effective kernel includes the dilation)
PC_AutoPads(L, k, s, d, auto) ==
   IF auto \in {"SAME_UPPER", "SAME_LOWER"}
   THEN LET out == CeilDiv(L, s)
            tot == Max2(0, (out - 1) * s + (k - 1) * d + 1 - L)
            small == tot \div 2 big == tot - small
        IN IF auto = "SAME_UPPER" THEN <<small, big>> ELSE <<big, small>>
   ELSE <<0, 0>>
NOPADS == <<-1, -1>>
PC_F(op, L, k, pb, pe, nb, af, cv, mode, cp, s, d, auto, zp, pk, dc) ==
   [kind |-> "fuse", op |-> op, L |-> L, k |-> k, pb |-> pb, pe |-> pe, nb |-> nb, axesform |-> af, cval |-> cv, mode |-> mode,
    cpads |-> cp, s |-> s, d |-> d, auto |-> auto, zp |-> zp, pkind |-> pk, decl |-> dc, kattr |-> FALSE, odecl |-> "static"]
PC_N(op, L, k, s, d, auto, ka, dc, od, cp) ==
   [kind |-> "normalize", op |-> op, L |-> L, k |-> k, pb |-> 0, pe |-> 0, nb |-> 0, axesform |-> "full", cval |-> NONE, mode |-> "absent",
    cpads |-> cp, s |-> s, d |-> d, auto |-> auto, zp |-> NONE, pkind |-> "init", decl |-> dc, kattr |-> ka, odecl |-> od]
PC_AllParams(z) ==
   \* fuse: the pads arithmetic
   {PC_F(op, L, k, pb, pe, 0, "full", NONE, "absent", cp, s, d, "absent", NONE, "init", "static") :
        op \in {"Conv", "ConvInteger"}, L \in (IF Big THEN 3..5 ELSE {4}), k \in (IF Big THEN 1..3 ELSE {1, 2}), pb \in 0..2, pe \in 0..2,
        cp \in (IF Big THEN {NOPADS, <<1, 0>>, <<0, 2>>} ELSE {NOPADS, <<1, 0>>}), s \in {1, 2}, d \in {1, 2}}
   \* fuse: the side conditions, one at a time around a firing core
   \cup {PC_F(op, 4, 2, pb, 1, nb, af, cv, "absent", NOPADS, 1, 1, "absent", NONE, "init", "static") :
        op \in {"Conv", "ConvInteger"}, pb \in {1, -1}, nb \in {0, 1}, af \in {"full", "axes_pos", "axes_neg"}, cv \in {NONE, 0, 1}}
   \cup {PC_F(op, 4, 2, 1, pe, 0, "full", NONE, mode, NOPADS, 1, 1, auto, zp, "init", "static") :
        op \in {"Conv", "ConvInteger"}, pe \in {0, 1}, mode \in {"absent", "constant", "edge"}, auto \in {"absent", "NOTSET", "VALID", "SAME_UPPER"}, zp \in {NONE, 0, 3}}
   \cup {PC_F(op, 4, 2, 1, 1, 0, "full", cv, "absent", NOPADS, 1, 1, "absent", NONE, pk, dc) :
        op \in {"Conv", "ConvInteger"}, cv \in {NONE, 0}, pk \in Kinds, dc \in {"static", "sym", "none"}}
   \* normalize
   \cup {PC_N(op, L, k, s, d, auto, ka, "static", "static", NOPADS) :
        op \in {"Conv", "ConvInteger"}, L \in 3..5, k \in 1..3, s \in {1, 2}, d \in {1, 2},
        auto \in {"absent", "NOTSET", "VALID", "SAME_UPPER", "SAME_LOWER"}, ka \in BOOLEAN}
   \cup {PC_N("Conv", 4, 2, 1, 1, auto, FALSE, dc, od, cp) :
        auto \in {"NOTSET", "VALID", "SAME_UPPER"}, dc \in {"static", "sym", "none"}, od \in {"static", "sym", "unk"}, cp \in {NOPADS, <<1, 0>>}}
PC_IsInt(q) == q.op = "ConvInteger"
PC_Zp(q) == IF q.zp = NONE THEN 0 ELSE q.zp
PC_X(q) == T(IF PC_IsInt(q) THEN "u8" ELSE "f32", <<1, 2, q.L>>, [i \in 1..(2 * q.L) |-> IF PC_IsInt(q) THEN i ELSE i - 3])
PC_W(q) == T(IF PC_IsInt(q) THEN "u8" ELSE "f32", <<1, 2, q.k>>, [i \in 1..(2 * q.k) |-> IF PC_IsInt(q) THEN i ELSE 2 * i - 3])
PC_ODt(q) == IF PC_IsInt(q) THEN "i32" ELSE "f32"
PC_CPads(q) == IF q.cpads = NOPADS THEN <<0, 0>> ELSE q.cpads
\* the Conv node of the host applied to t (the Pad output, or x)
PC_HostConv(q, t) ==
   IF IsErr(t) THEN ERR
   ELSE LET ap == IF q.auto \in {"SAME_UPPER", "SAME_LOWER"} THEN PC_AutoPads(t.shape[3], q.k, q.s, q.d, q.auto)
                  ELSE IF q.auto = "VALID" THEN <<0, 0>> ELSE PC_CPads(q)
        IN PC_Conv(t, PC_W(q), ap[1], ap[2], q.s, q.d, PC_Zp(q), PC_ODt(q))
\* hosts not generated: zero point on a float Conv; pads attribute together with auto_pad; nothing else
PC_HostValid(q) == /\ (q.zp # NONE => PC_IsInt(q))
                   /\ (q.cpads # NOPADS => q.auto \in {"absent", "NOTSET"})
                   /\ (q.kind = "normalize" => q.zp = NONE)
PC_Lhs(q) == IF ~PC_HostValid(q) THEN ERR
             ELSE IF q.kind = "fuse"
             THEN PC_HostConv(q, PC_Pad(PC_X(q), q.pb, q.pe, q.nb, IF q.cval = NONE THEN 0 ELSE q.cval, q.mode))
             ELSE PC_HostConv(q, PC_X(q))
\* output length of the host's Conv (shape arithmetic only), -1 when the host is not runnable
PC_OutLen(q) == LET lin == q.L + q.pb + q.pe IN
                IF lin < 0 THEN -1
                ELSE IF q.auto \in {"SAME_UPPER", "SAME_LOWER"} THEN (IF lin = 0 THEN -1 ELSE CeilDiv(lin, q.s))
                ELSE LET lp == lin + (IF q.auto = "VALID" THEN 0 ELSE PC_CPads(q)[1] + PC_CPads(q)[2])
                         keff == (q.k - 1) * q.d + 1
                     IN IF lp < keff THEN -1 ELSE (lp - keff) \div q.s + 1
PC_Params(z) == {q \in PC_AllParams(0) : PC_HostValid(q) /\ PC_OutLen(q) >= 1}
PC_XDecl(q) == CASE q.decl = "static" -> <<1, 2, q.L>> [] q.decl = "sym" -> <<1, 2, SymN>> [] q.decl = "none" -> NOSHP
PC_ODecl(q) == LET o == <<1 + q.nb, 1, PC_OutLen(q)>> IN CASE q.odecl = "static" -> o [] q.odecl = "sym" -> <<o[1], o[2], SymM>> [] q.odecl = "unk" -> <<UNK, UNK, UNK>>
PC_Match(q, devs) == TRUE
PC_Check(q, devs) ==
   IF q.kind = "fuse"
   THEN IF PC_XDecl(q) = NOSHP THEN "fail"
        ELSE IF q.mode = "edge" THEN "fail"
        ELSE IF ~HasConstValue(q.pkind, devs) THEN "fail"                   \* pads (and value, axes) must be constants
        ELSE IF q.cval # NONE /\ q.cval # 0 THEN "fail"
        ELSE IF q.nb # 0 THEN "fail"                                         \* padding outside the spatial dims
        ELSE IF q.pb < 0 \/ q.pe < 0 THEN "fail"
        ELSE IF q.auto \notin {"absent", "NOTSET"} THEN "fail"
        \* design: explicit zeros are not what ConvInteger pads with when the zero point is not 0
        ELSE IF "pad_convinteger_zero_point" \notin devs /\ PC_IsInt(q) /\ PC_Zp(q) # 0 /\ (q.pb > 0 \/ q.pe > 0) THEN "fail"
        ELSE "ok"
   ELSE IF q.auto \in {"absent", "NOTSET"} THEN "fail"
        ELSE IF PC_XDecl(q) = NOSHP THEN "fail"
        ELSE IF q.auto = "VALID" THEN "ok"
        ELSE IF IsSym(PC_XDecl(q)[3]) \/ IsSym(PC_ODecl(q)[3]) THEN "fail"
        \* design: the pads of SAME_UPPER / SAME_LOWER depend on the dilation
        ELSE IF "autopad_ignores_dilation" \notin devs /\ q.d # 1 /\ q.k > 1 THEN "fail"
        ELSE "ok"
PC_Rewrite(q, devs) ==
   IF q.kind = "fuse"
   THEN Res(PC_Conv(PC_X(q), PC_W(q), q.pb + PC_CPads(q)[1], q.pe + PC_CPads(q)[2], q.s, q.d, PC_Zp(q), PC_ODt(q)), TRUE)
   ELSE LET L == q.L  y == PC_OutLen(q)
            tot == Max2(0, (y - 1) * q.s + (IF "autopad_ignores_dilation" \in devs THEN q.k ELSE (q.k - 1) * q.d + 1) - L)
            p1 == tot \div 2  p2 == tot - p1
            pads == IF q.auto = "VALID" THEN <<0, 0>> ELSE IF q.auto = "SAME_UPPER" THEN <<p1, p2>> ELSE <<p2, p1>>
        IN Res(PC_Conv(PC_X(q), PC_W(q), pads[1], pads[2], q.s, q.d, 0, PC_ODt(q)), TRUE)
PC_Unknown(q) == q.decl = "none" \/ q.pkind \in {"ginput", "ginit"} \/ (q.kind = "normalize" /\ q.auto \in {"SAME_UPPER", "SAME_LOWER"} /\ (q.decl # "static" \/ q.odecl # "static"))

-----------------------------------------------------------------------------
(* conv_affine: _fuse_conv_affine.py   x [1, 2, L, 1], w [M=2, 2, k, 1], b [2]; scalars scale / offset of shape cs    *)
(*   (x [1, 2, 4, 1]: the code sums w over axes (1, 2, 3), i.e. 2-D convolutions; the second spatial dim is 1)          *)
(*   affine_conv: Conv(x * scale + offset, w, b; pads = [0,0,0,0])  ->  Conv(x, w * scale, b + offset * sum(w))        *)
(*   conv_affine: Conv(x, w, b) * scale + offset                    ->  Conv(x, w * scale, b * scale + offset)         *)
CF_Rec(r, sc, of, cs, kc, kw, pd, k, au, cv) ==
   [rule |-> r, sc |-> sc, of |-> of, cs |-> cs, ckind |-> kc, wkind |-> kw, pads |-> pd, k |-> k, auto |-> au, cv |-> cv]
CF_AllParams(z) ==
   {CF_Rec(r, sc, of, cs, "init", "init", pd, k, "absent", "plain") :
        r \in {"affine_conv", "conv_affine"}, sc \in {-1, 2}, of \in {0, 1, -2}, cs \in {<<>>, <<1>>, <<1, 1>>, <<1, 1, 1, 1>>},
        pd \in {"zero", "absent", "nonzero"}, k \in {1, 2}}
   \* the Conv attributes the pattern does not pin: auto_pad x pads x kernel, strides, dilations (offset # 0: the border matters)
   \cup {CF_Rec(r, 2, of, <<>>, "init", "init", pd, k, au, "plain") :
        r \in {"affine_conv", "conv_affine"}, of \in {1, -2}, pd \in {"zero", "absent", "nonzero"}, k \in 1..3,
        au \in {"absent", "NOTSET", "VALID", "SAME_UPPER", "SAME_LOWER"}}
   \cup {CF_Rec(r, 2, 1, <<>>, "init", "init", pd, 2, au, cv) :
        r \in {"affine_conv", "conv_affine"}, pd \in {"zero", "absent"}, au \in {"absent", "SAME_UPPER"}, cv \in {"stride2", "dil2"}}
   \cup {CF_Rec(r, 2, 1, <<>>, kc, kw, "zero", 2, "absent", "plain") : r \in {"affine_conv", "conv_affine"}, kc \in Kinds, kw \in Kinds}
CF_S(q) == IF q.cv = "stride2" THEN 2 ELSE 1
CF_D(q) == IF q.cv = "dil2" THEN 2 ELSE 1
\* hosts not generated: pads together with auto_pad VALID / SAME_*; SAME_* with a dilation (ORT refuses it)
CF_HostValid(q) == /\ (q.pads # "absent" => q.auto \in {"absent", "NOTSET"})
                   /\ (q.auto \in {"SAME_UPPER", "SAME_LOWER"} => CF_D(q) = 1)
CF_Params(z) == {q \in CF_AllParams(0) : CF_HostValid(q)}
CF_L == 4
CF_X3 == T("f32", <<1, 2, CF_L>>, [i \in 1..(2 * CF_L) |-> i - 3])
CF_W3(q) == T("f32", <<2, 2, q.k>>, [i \in 1..(4 * q.k) |-> (2 * (i % 3)) - 1])
CF_B == <<5, -1>>
CF_Pads(q) == IF q.auto \in {"SAME_UPPER", "SAME_LOWER"} THEN PC_AutoPads(CF_L, q.k, CF_S(q), CF_D(q), q.auto)
              ELSE IF q.pads = "nonzero" THEN <<1, 0>> ELSE <<0, 0>>
\* Conv with bias (and the host's pads / strides / dilations) on the 3-D view, returned as [1, M, out, 1]
CF_Conv(q, x3, w3, bias) ==
   LET c == PC_Conv(x3, w3, CF_Pads(q)[1], CF_Pads(q)[2], CF_S(q), CF_D(q), 0, "f32") IN
   IF IsErr(c) THEN ERR
   ELSE T("f32", c.shape \o <<1>>, [i \in 1..Len(c.data) |-> c.data[i] + bias[(((i - 1) \div c.shape[3]) % 2) + 1]])
CF_Bcast(t, cs) == IF IsErr(t) THEN ERR ELSE T(t.dt, BroadcastShape(t.shape, cs), t.data)       \* multiplying by a one-element tensor of shape cs
CF_Lhs(q) ==
   IF q.rule = "affine_conv"
   THEN CF_Bcast(CF_Conv(q, Map1(CF_X3, "f32", LAMBDA v : v * q.sc + q.of), CF_W3(q), CF_B), q.cs)
   ELSE CF_Bcast(Map1(CF_Conv(q, CF_X3, CF_W3(q), CF_B), "f32", LAMBDA v : v * q.sc + q.of), q.cs)
\* affine_conv spells out pads = [0, 0, 0, 0] (so auto_pad, which excludes pads, can only be absent / NOTSET there);
\* strides / dilations / auto_pad are "other attributes" and are copied to the replacement
CF_Match(q, devs) == q.rule = "conv_affine" \/ q.pads = "zero"
CF_Check(q, devs) ==
   IF ~HasConstValue(q.wkind, devs) \/ ~HasConstValue(q.ckind, devs) THEN "fail"
   \* design: the fused bias b * scale + offset must stay 1-D, and x * scale must not change the rank of the Conv input
   ELSE IF "conv_affine_scalar_rank" \notin devs /\ Len(q.cs) > 1 THEN "fail"
   ELSE "ok"
CF_Rewrite(q, devs) ==
   LET w == CF_W3(q)
       sw == Map1(w, "f32", LAMBDA v : v * q.sc)
       SumW(m) == SeqSum([j \in 1..(2 * q.k) |-> w.data[(m - 1) * 2 * q.k + j]])
   IN IF q.rule = "affine_conv"
      THEN Res(CF_Conv(q, CF_X3, sw, [m \in 1..2 |-> CF_B[m] + q.of * SumW(m)]), TRUE)
      ELSE IF Len(q.cs) > 1 THEN Res(ERR, TRUE)                  \* bias of shape broadcast([2], cs): not 1-D, the model does not load
      ELSE Res(CF_Conv(q, CF_X3, sw, [m \in 1..2 |-> CF_B[m] * q.sc + q.of]), TRUE)
CF_Unknown(q) == q.wkind \in {"ginput", "ginit"} \/ q.ckind \in {"ginput", "ginit"}

-----------------------------------------------------------------------------
(* Gemm on integers (alpha, beta integers); NoT = optional input absent *)
NoT == [dt |-> "NONE", shape |-> <<>>, data |-> <<>>]
Tr2(t) == Transpose(t, <<1, 0>>)
Gemm(a, b, c, ta, tb, alpha, beta) ==
   LET a2 == IF ta THEN Tr2(a) ELSE a
       b2 == IF tb THEN Tr2(b) ELSE b
   IN IF IsErr(a2) \/ IsErr(b2) THEN ERR
      ELSE IF Rank(a2) # 2 \/ Rank(b2) # 2 THEN ERR
      ELSE LET mm == MatMul(a2, b2) IN
           IF IsErr(mm) THEN ERR
           ELSE IF c = NoT THEN Map1(mm, mm.dt, LAMBDA u : alpha * u)
           ELSE IF Rank(c) > 2 \/ BroadcastShape(c.shape, mm.shape) # mm.shape THEN ERR       \* C: unidirectional broadcast to (M, N)
           ELSE Map2(mm, c, mm.dt, LAMBDA u, v : alpha * u + beta * v)

(* matmul_add_gemm: _matmul_add_to_gemm.py   Add(MatMul([Transpose](a), [Transpose](b)), c) -> Gemm(a, b, c, transA, transB) *)
MG_CShapes == {<<>>, <<1>>, <<3>>, <<2, 1>>, <<2, 3>>, <<1, 3>>, <<1, 1>>, <<1, 2, 3>>, <<2, 2, 3>>, <<1, 1, 3>>}
MG_AllParams(z) ==
   {[rule |-> r, as |-> as, bs |-> bs, cs |-> cs, decl |-> dc, extra |-> ex, perm |-> pm, cleft |-> cl] :
        r \in {"plain", "ta", "tb", "tab"}, as \in {<<2, 2>>}, bs \in {<<2, 3>>}, cs \in MG_CShapes, dc \in {"static", "sym", "none"},
        ex \in BOOLEAN, pm \in {"10", "absent", "01"}, cl \in BOOLEAN}
   \cup {[rule |-> "plain", as |-> as, bs |-> bs, cs |-> cs, decl |-> "static", extra |-> FALSE, perm |-> "10", cleft |-> FALSE] :
        as \in {<<2>>, <<2, 2>>, <<1, 2, 2>>, <<2, 2, 2>>}, bs \in {<<2>>, <<2, 3>>, <<1, 2, 3>>, <<2, 2, 3>>}, cs \in {<<>>, <<3>>, <<2, 3>>}}
MG_TA(q) == q.rule \in {"ta", "tab"}
MG_TB(q) == q.rule \in {"tb", "tab"}
\* the operands as the pattern sees them: stored transposed when the rule has a Transpose in front
MG_AS(q) == IF MG_TA(q) THEN <<q.as[2], q.as[1]>> ELSE q.as
MG_BS(q) == IF MG_TB(q) THEN <<q.bs[2], q.bs[1]>> ELSE q.bs
MG_A(q) == T("f32", MG_AS(q), [k \in 1..Numel(q.as) |-> k])
MG_B(q) == T("f32", MG_BS(q), [k \in 1..Numel(q.bs) |-> 2 * k - 5])
MG_C(q) == T("f32", q.cs, [k \in 1..Numel(q.cs) |-> 10 * k])
MG_Perm(q) == CASE q.perm = "10" -> <<1, 0>> [] q.perm = "absent" -> <<1, 0>> [] q.perm = "01" -> <<0, 1>>
MG_Params(z) == {q \in MG_AllParams(0) : (q.perm # "10" => q.rule # "plain") /\ (q.perm = "01" => q.as[1] = q.as[2] /\ q.rule = "ta")}
MG_Lhs(q) == LET a == IF MG_TA(q) THEN Transpose(MG_A(q), MG_Perm(q)) ELSE MG_A(q)
                 b == IF MG_TB(q) THEN Transpose(MG_B(q), MG_Perm(q)) ELSE MG_B(q)
             IN Map2(MatMul(a, b), MG_C(q), "f32", LAMBDA u, v : u + v)
\* inner nodes removable; Transpose must carry perm = [1, 0]; Add is not commuted
MG_Match(q, devs) == ~q.extra /\ (q.rule = "plain" \/ q.perm = "10") /\ ~q.cleft
MG_Check(q, devs) ==
   IF q.decl = "none" \/ Len(q.as) # 2 \/ Len(q.bs) # 2 THEN "fail"
   \* design: Gemm broadcasts C one way only, to (M, N)
   ELSE IF "matmul_add_gemm_bias_shape" \notin devs /\ (Len(q.cs) > 2 \/ BroadcastShape(q.cs, <<q.as[1], q.bs[2]>>) # <<q.as[1], q.bs[2]>>) THEN "fail"
   ELSE "ok"
MG_Rewrite(q, devs) == Res(Gemm(MG_A(q), MG_B(q), MG_C(q), MG_TA(q), MG_TB(q), 1, 1), TRUE)
MG_Unknown(q) == q.decl = "none"

(* gemm_matmul_add: _gemm_to_matmul_add.py   Reshape(Gemm(Reshape(a, sa), b, c, alpha=1, beta=1), sc) -> Add(MatMul(a, b), c) *)
GM_Rec(as, sa, cs, sc, ta, tb, al, be) == [as |-> as, sa |-> sa, bs |-> <<2, 3>>, cs |-> cs, sc |-> sc, ta |-> ta, tb |-> tb, alpha |-> al, beta |-> be]
GM_AS == {<<2, 2>>, <<1, 2, 2>>, <<2, 2, 2>>, <<2, 1, 2>>}
GM_SA == {<<2, 2>>, <<4, 2>>, <<2, 4>>, <<1, 4>>}
GM_CS == {<<>>, <<3>>, <<1, 3>>, <<2, 3>>, <<4, 3>>, <<4, 1>>, <<2, 1>>}
GM_SC == {<<2, 3>>, <<1, 2, 3>>, <<2, 2, 3>>, <<2, 1, 3>>, <<4, 3>>, <<3, 2>>}
\* shape arithmetic of the host: Reshape(a, sa) is 2-D [M, 2] (after transA), c broadcasts one way to [M, 3], sc holds M * 3 elements
GM_ShapeOK(q) == LET ra == IF q.ta = 1 THEN <<q.sa[2], q.sa[1]>> ELSE q.sa IN
                 /\ Numel(q.sa) = Numel(q.as) /\ ra[2] = 2
                 /\ Len(q.cs) <= 2 /\ BroadcastShape(q.cs, <<ra[1], 3>>) = <<ra[1], 3>>
                 /\ Numel(q.sc) = ra[1] * 3
GM_AllParams(z) ==
   {GM_Rec(as, sa, cs, sc, ta, tb, 1, 1) : as \in GM_AS, sa \in GM_SA, cs \in GM_CS, sc \in GM_SC, ta \in {NONE, 0, 1}, tb \in {NONE, 0, 1}}
   \cup {GM_Rec(as, sa, cs, sc, NONE, NONE, al, be) : as \in GM_AS, sa \in GM_SA, cs \in {<<3>>, <<2, 3>>}, sc \in GM_SC, al \in {NONE, 1, 2}, be \in {NONE, 1, 2}}
GM_A(q) == T("f32", q.as, [k \in 1..Numel(q.as) |-> k])
\* with transB the stored b is [N, K]
GM_BS(q) == IF q.tb = 1 THEN <<q.bs[2], q.bs[1]>> ELSE q.bs
GM_B(q) == T("f32", GM_BS(q), [k \in 1..Numel(q.bs) |-> 2 * k - 5])
GM_C(q) == T("f32", q.cs, [k \in 1..Numel(q.cs) |-> 10 * k])
AttrI(v, dflt) == IF v = NONE THEN dflt ELSE v
GM_Lhs(q) == IF Numel(q.sa) # Numel(q.as) THEN ERR
             ELSE LET g == Gemm(Reshape(GM_A(q), q.sa, FALSE), GM_B(q), GM_C(q), q.ta = 1, q.tb = 1, AttrI(q.alpha, 1), AttrI(q.beta, 1))
                  IN IF IsErr(g) THEN ERR ELSE Reshape(g, q.sc, FALSE)
GM_Params(z) == {q \in GM_AllParams(0) : GM_ShapeOK(q)}
\* the pattern spells out alpha = 1.0 and beta = 1.0; transA / transB are "other attributes"
GM_Match(q, devs) == q.alpha = 1 /\ q.beta = 1
GM_AsBM(q) == [as |-> q.as, bs |-> GM_BS(q), sc |-> q.sc]
GM_Check(q, devs) ==
   IF BM_Computed(GM_AsBM(q)) # q.sc THEN "fail"
   \* design: the inner Reshape only flattens the leading dims of a, no transposition is requested, and c means the
   \* same against [.., M, N] as against [rows, N]
   ELSE IF "gemm_matmul_add_ignores_attrs" \notin devs /\ (q.ta = 1 \/ q.tb = 1) THEN "fail"
   ELSE IF "reshape_matmul_ignores_inner_shapes" \notin devs /\ q.sa # <<Numel(q.as) \div Last(q.as), Last(q.as)>> THEN "fail"
   ELSE IF "gemm_matmul_add_bias_shape" \notin devs /\ ~(Len(q.cs) <= 1 \/ q.cs[1] = 1 \/ Len(q.as) = 2) THEN "fail"
   ELSE "ok"
GM_Rewrite(q, devs) == Res(Map2(MatMul(GM_A(q), GM_B(q)), GM_C(q), "f32", LAMBDA u, v : u + v), TRUE)
GM_Unknown(q) == FALSE

(* optional_bias: _remove_optional_bias.py  Gemm / Conv / ConvTranspose / QLinearConv (kernel size 1, so the     *)
(* convolution is a per-position channel mix) with a constant all-zero bias.  QLinearConv (session 6): uint8 x   *)
(* and w, scales 1.0, int32 bias; tb = TRUE gives it the zero points x_zp = 1, y_zp = 2 (else 0).                *)
OB_Params(z) == {[op |-> op, bias |-> bi, bkind |-> k, tb |-> tb] : op \in {"Gemm", "Conv", "ConvTranspose", "QLinearConv"}, bi \in {"zero", "nonzero"},
                    k \in Kinds, tb \in BOOLEAN}
OB_X(q) == IF q.op = "Gemm" THEN T("f32", <<2, 2>>, <<1, 2, 3, 4>>) ELSE T("f32", <<1, 2, 3>>, <<1, 2, 3, 4, 5, 6>>)
OB_W(q) == IF q.op = "Gemm" THEN T("f32", <<2, 2>>, <<1, -1, 2, 3>>) ELSE T("f32", <<2, 2, 1>>, <<1, -1, 2, 3>>)
OB_Bias(q) == T("f32", <<2>>, IF q.bias = "zero" THEN <<0, 0>> ELSE <<0, 5>>)
\* kernel-1 convolution: y[0, m, l] = sum_c x[0, c, l] * w[m, c, 0]  (ConvTranspose: w[c, m, 0]) + b[m]
OB_Conv(q, b) == LET x == OB_X(q) w == OB_W(q)
                     Wt(m, c) == IF q.op = "Conv" THEN At(w, <<m, c, 0>>) ELSE At(w, <<c, m, 0>>)
                     Op(idx) == SeqSum([c \in 1..2 |-> At(x, <<0, c - 1, idx[3]>>) * Wt(idx[2], c - 1)]) + (IF b = NoT THEN 0 ELSE b.data[idx[2] + 1])
                 IN FromFn("f32", <<1, 2, 3>>, Op)
\* y = saturate(sum_c (x[0, c, l] - x_zp) * (w[m, c, 0] - 0) + b[m] + y_zp) at scales 1.0
OB_QConv(q, b) == LET xzp == IF q.tb THEN 1 ELSE 0
                      yzp == IF q.tb THEN 2 ELSE 0
                      x == T("u8", <<1, 2, 3>>, <<1, 2, 3, 4, 5, 6>>)
                      w == T("u8", <<2, 2, 1>>, <<1, 0, 2, 3>>)
                      Op(idx) == Clamp(SeqSum([c \in 1..2 |-> (At(x, <<0, c - 1, idx[3]>>) - xzp) * At(w, <<idx[2], c - 1, 0>>)])
                                       + (IF b = NoT THEN 0 ELSE b.data[idx[2] + 1]) + yzp, 0, 255)
                  IN FromFn("u8", <<1, 2, 3>>, Op)
OB_Eval(q, b) == IF q.op = "QLinearConv" THEN OB_QConv(q, b) ELSE IF q.op = "Gemm" THEN Gemm(OB_X(q), OB_W(q), b, FALSE, q.tb, 1, 1) ELSE OB_Conv(q, b)
OB_Lhs(q) == OB_Eval(q, OB_Bias(q))
OB_Check(q, devs) == IF ~HasConstValue(q.bkind, devs) THEN "fail" ELSE IF q.bias # "zero" THEN "fail" ELSE "ok"
OB_Rewrite(q, devs) == Res(OB_Eval(q, NoT), TRUE)
OB_Unknown(q) == q.bkind \in {"ginput", "ginit"}

-----------------------------------------------------------------------------
(* batchnorm: _fuse_batchnorm.py   BatchNormalization(Gemm | Conv | ConvTranspose (kernel 1)) -> the inbound op with  *)
(* scaled weights and bias.  Exact sub-family: var + epsilon is a perfect square (epsilon = 0 spelled out, var in     *)
(* {1, 4}) and gamma a multiple of std, so BN(y) = (y - mean) * s + beta with the integer s = gamma / std per channel.  *)
BN_Gamma == <<2, -4>>
BN_Beta == <<3, -1>>
BN_Mean == <<1, 2>>
BN_Params(z) ==
   {[op |-> "Gemm", bias |-> bi, alpha |-> al, beta |-> be, tb |-> tb, g |-> 1, pkind |-> "init", wkind |-> "init", shared |-> "none", var |-> v] :
        bi \in {"absent", "vec", "scalar", "row"}, al \in {NONE, 1, 2}, be \in {NONE, 1, 2}, tb \in BOOLEAN, v \in {1, 4}}
   \cup {[op |-> op, bias |-> bi, alpha |-> NONE, beta |-> NONE, tb |-> FALSE, g |-> g, pkind |-> "init", wkind |-> "init", shared |-> "none", var |-> v] :
        op \in {"Conv", "ConvTranspose"}, bi \in {"absent", "vec"}, g \in {1, 2}, v \in {1, 4}}
   \cup {[op |-> op, bias |-> "vec", alpha |-> NONE, beta |-> NONE, tb |-> FALSE, g |-> 1, pkind |-> pk, wkind |-> wk, shared |-> sh, var |-> 4] :
        op \in {"Gemm", "Conv", "ConvTranspose"}, pk \in Kinds, wk \in Kinds,
        \* another node reads the inbound WEIGHT, or the inbound BIAS (the fused tensors are registered under the old names)
        sh \in {"none", "w", "b"}}
BN_S(q) == [c \in 1..2 |-> BN_Gamma[c] \div (IF q.var = 4 THEN 2 ELSE 1)]
BN_X(q) == IF q.op = "Gemm" THEN T("f32", <<2, 2>>, <<1, 2, 3, 4>>) ELSE T("f32", <<1, 2, 3>>, <<1, 2, 3, 4, 5, 6>>)
\* weights: Gemm [K=2, N=2] (stored [N, K] with transB); Conv [M=2, C/g, 1]; ConvTranspose [C=2, M/g, 1]
BN_WData(q) == IF q.op = "Gemm" \/ q.g = 1 THEN <<1, -1, 2, 3>> ELSE <<2, -3>>
BN_WShape(q) == IF q.op = "Gemm" THEN <<2, 2>> ELSE <<2, 2 \div q.g, 1>>
BN_BiasT(q) == CASE q.bias = "absent" -> NoT [] q.bias = "vec" -> T("f32", <<2>>, <<5, -2>>)
                 [] q.bias = "scalar" -> T("f32", <<>>, <<5>>) [] q.bias = "row" -> T("f32", <<1, 2>>, <<5, -2>>)
\* the inbound operator on weights wd (row-major data of BN_WShape) and bias tensor b (or NoT)
BN_Inbound(q, wd, b) ==
   IF q.op = "Gemm"
   THEN Gemm(BN_X(q), T("f32", <<2, 2>>, wd), b, FALSE, q.tb, AttrI(q.alpha, 1), AttrI(q.beta, 1))
   ELSE LET x == BN_X(q)
            \* weight connecting input channel c to output channel m (0-based), 0 when they are in different groups
            Wt(c, m) == IF q.g = 1 THEN (IF q.op = "Conv" THEN wd[m * 2 + c + 1] ELSE wd[c * 2 + m + 1])
                        ELSE (IF c = m THEN wd[m + 1] ELSE 0)
            Op(idx) == SeqSum([c \in 1..2 |-> At(x, <<0, c - 1, idx[3]>>) * Wt(c - 1, idx[2])]) + (IF b = NoT THEN 0 ELSE b.data[idx[2] + 1])
        IN FromFn("f32", <<1, 2, 3>>, Op)
BN_Norm(t, q) == IF IsErr(t) THEN ERR
                 ELSE LET Ch(i) == IF q.op = "Gemm" THEN ((i - 1) % 2) + 1 ELSE (((i - 1) \div 3) % 2) + 1 IN
                      T("f32", t.shape, [i \in 1..Len(t.data) |-> (t.data[i] - BN_Mean[Ch(i)]) * BN_S(q)[Ch(i)] + BN_Beta[Ch(i)]])
BN_Lhs(q) == BN_Norm(BN_Inbound(q, BN_WData(q), BN_BiasT(q)), q)
BN_Match(q, devs) == TRUE
BN_Check(q, devs) ==
   \* every parameter must be an initializer that is not a graph input; inbound weights / bias not shared with other nodes
   IF q.pkind # "init" \/ q.wkind # "init" THEN "fail"
   ELSE IF q.shared # "none" THEN "fail"
   \* design: the fused bias goes through Gemm's beta
   ELSE IF "bn_gemm_beta" \notin devs /\ q.op = "Gemm" /\ AttrI(q.beta, 1) # 1 THEN "fail"
   ELSE "ok"
BN_Rewrite(q, devs) ==
   LET s == BN_S(q)
       wd == BN_WData(q)
       \* output channel of weight element i (1-based) as _scale_weights sees it
       OutCh(i) == IF q.op = "Gemm" THEN (IF q.tb THEN ((i - 1) \div 2) + 1 ELSE ((i - 1) % 2) + 1)
                   ELSE IF q.g = 2 THEN i
                   ELSE IF q.op = "Conv" THEN ((i - 1) \div 2) + 1 ELSE ((i - 1) % 2) + 1
       fw == [i \in 1..Len(wd) |-> wd[i] * s[OutCh(i)]]
       b == BN_BiasT(q)
       \* (original_bias - mean) * scale + beta with numpy broadcasting of the bias against the [2] vectors
       fshape == IF b = NoT THEN <<2>> ELSE BroadcastShape(b.shape, <<2>>)
       Bv(c) == IF b = NoT THEN 0 ELSE IF Len(b.data) = 1 THEN b.data[1] ELSE b.data[c]
       fb == T("f32", fshape, [c \in 1..2 |-> (Bv(c) - BN_Mean[c]) * s[c] + BN_Beta[c]])
   IN Res(BN_Inbound(q, fw, fb), TRUE)
BN_Unknown(q) == q.pkind \in {"ginput", "ginit"} \/ q.wkind \in {"ginput", "ginit"}

-----------------------------------------------------------------------------
(* hardswish: _fuse_hardswish.py  (session 6).  Three rules, commute = True:                      *)
(*   hswish : Div(Mul(Clip(Add(x, 3), 0, 6), x), 6)  -> HardSwish(x)                              *)
(*   hsig   : Div(Clip(Add(x, 3), 0, 6), 6)          -> HardSigmoid<alpha = 1/6, beta = 0.5>(x)   *)
(*   fromhs : Mul(HardSigmoid<alpha, beta>(x), x)    -> HardSwish(x)                              *)
(* Values in 1/6000.  A constant is <<nominal, class>>: "exact" (the literal), "eps" (inside      *)
(* is_singleton_value's rel_tol 1e-4 / np.isclose but not the literal), "near" (just outside).    *)
(* A host with a non-literal constant computes something else than the literal one: its meaning   *)
(* carries the marker +1 (as the eps of no_op), and the harness does not compare its values with  *)
(* the spec (HS_Exact).                                                                           *)
HS_P(r, lo, hi, b, d, bs, dvs, xs, k, dt, os, mo, ao, sx, ex, al, be) ==
   [rule |-> r, lo |-> lo, hi |-> hi, b |-> b, d |-> d, bs |-> bs, dvs |-> dvs, xs |-> xs, ckind |-> k, dt |-> dt,
    opset |-> os, mord |-> mo, aord |-> ao, samex |-> sx, extra |-> ex, alpha |-> al, beta |-> be]
HS_E(v) == <<v, "exact">>
HS_Base(r) == HS_P(r, HS_E(0), HS_E(6), HS_E(3), HS_E(6), <<>>, <<>>, <<7>>, "init", "f32", 18, "cx", "xb", TRUE, "none", "none", "none")
HS_With(q, f, v) == [q EXCEPT ![f] = v]
HS_AC == {"hswish", "hsig"}
HS_Params(z) ==
   \* (a) every constant: the literal, inside the tolerance, just outside it, another value
   {HS_With(HS_With(HS_Base(r), f, c), "dt", dt) : r \in HS_AC, dt \in {"f32"},
        f \in {"hi", "b", "d"}, c \in {HS_E(6), HS_E(3), <<6, "eps">>, <<3, "eps">>, <<6, "near">>, <<3, "near">>, HS_E(5), HS_E(2)}}
   \cup {HS_With(HS_Base(r), "lo", c) : r \in HS_AC, c \in {HS_E(0), HS_E(1), HS_E(-1)}}
   \* (b) shapes of the bias and the divisor against the shape of x
   \cup {HS_With(HS_With(HS_With(HS_Base(r), "bs", bs), "dvs", dvs), "xs", xs) : r \in HS_AC,
        bs \in {<<>>, <<1>>, <<1, 1>>}, dvs \in {<<>>, <<1>>, <<1, 1>>}, xs \in {<<>>, <<7>>, <<1, 7>>}}
   \* (c) operand kind of the bias, element type, declared opset
   \cup {HS_With(HS_With(HS_With(HS_Base(r), "ckind", k), "dt", dt), "opset", os) : r \in HS_AC, k \in Kinds,
        dt \in {"f32", "i32"}, os \in {13, 14, 18}}
   \* (d) operand orders, a Mul by another value, extra consumers of the intermediates
   \cup {HS_With(HS_With(HS_With(HS_With(HS_Base(r), "mord", mo), "aord", ao), "samex", sx), "extra", ex) : r \in HS_AC,
        mo \in {"cx", "xc"}, ao \in {"xb", "bx"}, sx \in BOOLEAN, ex \in {"none", "add", "clip"}}
   \* (e) HardSigmoid with its attributes given / left at their defaults (alpha 0.2, beta 0.5)
   \cup {HS_With(HS_With(HS_With(HS_With(HS_With(HS_With(HS_With(HS_Base("fromhs"), "alpha", al), "beta", be), "mord", mo), "samex", sx),
                 "dt", dt), "opset", os), "extra", ex) :
        al \in {"none", "sixth", "sixth_eps", "fifth"}, be \in {"none", "half", "p6"}, mo \in {"cx", "xc"}, sx \in BOOLEAN,
        dt \in {"f32"}, os \in {13, 14, 18}, ex \in {"none", "clip"}}
HS_Float(q) == q.dt = "f32"      \* onnxruntime has no double kernels for HardSigmoid / HardSwish: float hosts only
HS_Consts(q) == <<q.lo, q.hi, q.b, q.d>>
HS_Literal(q) == IF q.rule = "fromhs" THEN q.alpha # "sixth_eps" ELSE \A i \in 1..4 : HS_Consts(q)[i][2] = "exact"
HS_Exact(q) == HS_Literal(q)
HS_X(q) == XT(q.dt, q.xs)
HS_Y(q) == IF q.samex THEN HS_X(q) ELSE Map1(HS_X(q), q.dt, LAMBDA v : v + 1)      \* the other graph input y = x + 1
HS_Mark(t, q) == IF HS_Literal(q) THEN t ELSE Map1(t, q.dt, LAMBDA v : v + 1)
\* HardSigmoid<A/6000, B/6000>(x) in 1/6000
HS_Sig(x, A, B, dt) == Map1(x, dt, LAMBDA v : Clamp(A * v + B, 0, 6000))
HS_Alpha(q) == CASE q.alpha = "fifth" -> 1200 [] q.alpha = "none" -> 1200 [] OTHER -> 1000
HS_Beta(q) == IF q.beta = "p6" THEN 3600 ELSE 3000
\* integer hosts exist (Add / Clip / Mul / Div on int32, Clip from opset 12): integer division truncates
HS_HostValid(q) == /\ (q.rule = "fromhs" => HS_Float(q))
                   /\ (~HS_Float(q) => HS_Literal(q))
                   /\ (q.rule = "hsig" => q.samex /\ q.mord = "cx")            \* no Mul in that pattern
                   /\ (q.rule # "fromhs" => q.extra # "hsig")
                   /\ (q.rule = "fromhs" => q.aord = "xb" /\ q.extra # "add")
HS_Lhs(q) ==
   IF ~HS_HostValid(q) THEN ERR
   ELSE IF q.rule = "fromhs"
   THEN HS_Mark(Map2(HS_Sig(HS_X(q), HS_Alpha(q), HS_Beta(q), q.dt), HS_Y(q), q.dt, LAMBDA s, v : (s * v)), q)
   ELSE LET a == Map2(HS_X(q), ConstT(q.dt, q.bs, q.b[1]), q.dt, LAMBDA v, c : v + c)
            c == Map1(a, q.dt, LAMBDA v : Clamp(v, q.lo[1], q.hi[1]))
            m == IF q.rule = "hswish" THEN Map2(c, HS_Y(q), q.dt, LAMBDA u, v : u * v) ELSE c
            r == Map2(m, ConstT(q.dt, q.dvs, q.d[1]), q.dt,
                      LAMBDA u, dv : IF HS_Float(q) THEN TruncDiv(6000 * u, dv) ELSE 6000 * TruncDiv(u, dv))
        IN IF q.lo[1] > q.hi[1] THEN ERR ELSE HS_Mark(r, q)
HS_Match(q, devs) == q.samex /\ q.extra = "none"
\* is_singleton_value(v, expected, rtol = 1e-4): a one-element constant within the tolerance
HS_Is(c, v, devs) == c[1] = v /\ (c[2] = "exact" \/ (c[2] = "eps" /\ "const_tolerance" \in devs))
HS_Check(q, devs) ==
   IF q.rule = "fromhs"
   THEN IF ~(q.alpha = "sixth" \/ (q.alpha = "sixth_eps" /\ "const_tolerance" \in devs)) THEN "fail"
        ELSE IF q.beta # "half" THEN "fail"
        \* design: HardSwish exists from opset 14 on
        ELSE IF q.opset < 14 /\ "hardswish_pre_opset14" \notin devs THEN "fail"
        ELSE "ok"
   ELSE IF ~HasConstValue(q.ckind, devs) THEN "fail"
   ELSE IF ~(HS_Is(q.lo, 0, devs) /\ HS_Is(q.hi, 6, devs) /\ HS_Is(q.b, 3, devs) /\ HS_Is(q.d, 6, devs)) THEN "fail"
   \* design: HardSwish / HardSigmoid are defined on floating-point tensors only
   ELSE IF ~HS_Float(q) /\ "hardswish_int_dtype" \notin devs THEN "fail"
   ELSE IF q.rule = "hswish" /\ q.opset < 14 /\ "hardswish_pre_opset14" \notin devs THEN "fail"
   \* design: a one-element bias / divisor of higher rank than x extends the rank of the result
   ELSE IF BroadcastShape(BroadcastShape(q.xs, q.bs), q.dvs) # q.xs /\ "hardswish_const_rank" \notin devs THEN "fail"
   ELSE "ok"
HS_Rewrite(q, devs) ==
   LET x == HS_X(q)
       sw == Map1(x, q.dt, LAMBDA v : Clamp(1000 * v + 3000, 0, 6000) * v)
       sg == Map1(x, q.dt, LAMBDA v : Clamp(1000 * v + 3000, 0, 6000))
       \* the graph output keeps the rank the chain had: a replacement of lower rank contradicts the declared type
       keeps == q.rule = "fromhs" \/ BroadcastShape(BroadcastShape(q.xs, q.bs), q.dvs) = q.xs
   IN IF q.rule = "hsig" THEN Res(sg, HS_Float(q) /\ keeps) ELSE Res(sw, HS_Float(q) /\ q.opset >= 14 /\ keeps)
HS_Unknown(q) == q.rule # "fromhs" /\ q.ckind \in {"ginput", "ginit"}

-----------------------------------------------------------------------------
(* dispatch *)
ParamsOf(f) == CASE f = "relus_clips" -> RC_Params(0)
      [] f = "min_max" -> MM_Params(0)
      [] f = "no_op" -> NO_Params(0)
      [] f = "dropout" -> DO_Params(0)
      [] f = "cast_cos" -> CC_Params(0)
      [] f = "scatter_static" -> SC_Params(0)
      [] f = "scatter_dynamic" -> SD_Params(0)
      [] f = "matmul_add_gemm" -> MG_Params(0)
      [] f = "gemm_matmul_add" -> GM_Params(0)
      [] f = "optional_bias" -> OB_Params(0)
      [] f = "pad_conv" -> PC_Params(0)
      [] f = "conv_affine" -> CF_Params(0)
      [] f = "batchnorm" -> BN_Params(0)
      [] f = "expand_binop" -> EX_Params(0)
      [] f = "materialize" -> MR_Params(0)
      [] f = "collapse_slices" -> CS_Params(0)
      [] f = "casts" -> CA_Params(0)
      [] f = "no_op_expand" -> NE_Params(0)
      [] f = "reshape_reshape" -> RR_Params(0)
      [] f = "flatten" -> FL_Params(0)
      [] f = "slice_split" -> SS_Params(0)
      [] f = "transposes" -> TR_Params(0)
      [] f = "unsqueeze2" -> UU_Params(0)
      [] f = "squeeze_reshape" -> SQ_Params(0)
      [] f = "matmul_reshape" -> BM_Params(0)
      [] f = "hardswish" -> HS_Params(0)
LhsOf(f, q) == CASE f = "relus_clips" -> RC_Lhs(q)
      [] f = "min_max" -> MM_Lhs(q)
      [] f = "no_op" -> NO_Lhs(q)
      [] f = "dropout" -> DO_Lhs(q)
      [] f = "cast_cos" -> CC_Lhs(q)
      [] f = "scatter_static" -> SC_Lhs(q)
      [] f = "scatter_dynamic" -> SD_Lhs(q)
      [] f = "matmul_add_gemm" -> MG_Lhs(q)
      [] f = "gemm_matmul_add" -> GM_Lhs(q)
      [] f = "optional_bias" -> OB_Lhs(q)
      [] f = "pad_conv" -> PC_Lhs(q)
      [] f = "conv_affine" -> CF_Lhs(q)
      [] f = "batchnorm" -> BN_Lhs(q)
      [] f = "expand_binop" -> EX_Lhs(q)
      [] f = "materialize" -> MR_Lhs(q)
      [] f = "collapse_slices" -> CS_Lhs(q)
      [] f = "casts" -> CA_Lhs(q)
      [] f = "no_op_expand" -> NE_Lhs(q)
      [] f = "reshape_reshape" -> RR_Lhs(q)
      [] f = "flatten" -> FL_Lhs(q)
      [] f = "slice_split" -> SS_Lhs(q)
      [] f = "transposes" -> TR_Lhs(q)
      [] f = "unsqueeze2" -> UU_Lhs(q)
      [] f = "squeeze_reshape" -> SQ_Lhs(q)
      [] f = "matmul_reshape" -> BM_Lhs(q)
      [] f = "hardswish" -> HS_Lhs(q)
MatchOf(f, q, d) == CASE f = "relus_clips" -> RC_Match(q, d)
      [] f = "min_max" -> MM_Match(q, d)
      [] f = "no_op" -> NO_Match(q, d)
      [] f = "dropout" -> DO_Match(q, d)
      [] f = "cast_cos" -> CC_Match(q, d)
      [] f = "scatter_static" -> SC_Match(q, d)
      [] f = "scatter_dynamic" -> SD_Match(q, d)
      [] f = "matmul_add_gemm" -> MG_Match(q, d)
      [] f = "gemm_matmul_add" -> GM_Match(q, d)
      [] f = "optional_bias" -> TRUE
      [] f = "pad_conv" -> PC_Match(q, d)
      [] f = "conv_affine" -> CF_Match(q, d)
      [] f = "batchnorm" -> BN_Match(q, d)
      [] f = "expand_binop" -> EX_Match(q, d)
      [] f = "materialize" -> MR_Match(q, d)
      [] f = "collapse_slices" -> CS_Match(q, d)
      [] f = "casts" -> CA_Match(q, d)
      [] f = "no_op_expand" -> TRUE
      [] f = "reshape_reshape" -> ~q.extra
      [] f = "flatten" -> TRUE
      [] f = "slice_split" -> SS_Match(q, d)
      [] f = "transposes" -> TR_Match(q, d)
      [] f = "unsqueeze2" -> TRUE
      [] f = "squeeze_reshape" -> SQ_Match(q, d)
      [] f = "matmul_reshape" -> BM_Match(q, d)
      [] f = "hardswish" -> HS_Match(q, d)
CheckOf(f, q, d) == CASE f = "relus_clips" -> RC_Check(q, d)
      [] f = "min_max" -> MM_Check(q, d)
      [] f = "no_op" -> "ok"
      [] f = "dropout" -> "ok"
      [] f = "cast_cos" -> CC_Check(q, d)
      [] f = "scatter_static" -> SC_Check(q, d)
      [] f = "scatter_dynamic" -> SD_Check(q, d)
      [] f = "matmul_add_gemm" -> MG_Check(q, d)
      [] f = "gemm_matmul_add" -> GM_Check(q, d)
      [] f = "optional_bias" -> OB_Check(q, d)
      [] f = "pad_conv" -> PC_Check(q, d)
      [] f = "conv_affine" -> CF_Check(q, d)
      [] f = "batchnorm" -> BN_Check(q, d)
      [] f = "expand_binop" -> EX_Check(q, d)
      [] f = "materialize" -> MR_Check(q, d)
      [] f = "collapse_slices" -> CS_Check(q, d)
      [] f = "casts" -> CA_Check(q, d)
      [] f = "no_op_expand" -> NE_Check(q, d)
      [] f = "reshape_reshape" -> RR_Check(q, d)
      [] f = "flatten" -> FL_Check(q, d)
      [] f = "slice_split" -> SS_Check(q, d)
      [] f = "transposes" -> TR_Check(q, d)
      [] f = "unsqueeze2" -> UU_Check(q, d)
      [] f = "squeeze_reshape" -> SQ_Check(q, d)
      [] f = "matmul_reshape" -> BM_Check(q, d)
      [] f = "hardswish" -> HS_Check(q, d)
RewriteOf(f, q, d) == CASE f = "relus_clips" -> RC_Rewrite(q, d)
      [] f = "min_max" -> MM_Rewrite(q, d)
      [] f = "no_op" -> NO_Rewrite(q, d)
      [] f = "dropout" -> DO_Rewrite(q, d)
      [] f = "cast_cos" -> CC_Rewrite(q, d)
      [] f = "scatter_static" -> SC_Rewrite(q, d)
      [] f = "scatter_dynamic" -> SD_Rewrite(q, d)
      [] f = "matmul_add_gemm" -> MG_Rewrite(q, d)
      [] f = "gemm_matmul_add" -> GM_Rewrite(q, d)
      [] f = "optional_bias" -> OB_Rewrite(q, d)
      [] f = "pad_conv" -> PC_Rewrite(q, d)
      [] f = "conv_affine" -> CF_Rewrite(q, d)
      [] f = "batchnorm" -> BN_Rewrite(q, d)
      [] f = "expand_binop" -> EX_Rewrite(q, d)
      [] f = "materialize" -> MR_Rewrite(q, d)
      [] f = "collapse_slices" -> CS_Rewrite(q, d)
      [] f = "casts" -> CA_Rewrite(q, d)
      [] f = "no_op_expand" -> NE_Rewrite(q, d)
      [] f = "reshape_reshape" -> RR_Rewrite(q, d)
      [] f = "flatten" -> FL_Rewrite(q, d)
      [] f = "slice_split" -> SS_Rewrite(q, d)
      [] f = "transposes" -> TR_Rewrite(q, d)
      [] f = "unsqueeze2" -> UU_Rewrite(q, d)
      [] f = "squeeze_reshape" -> SQ_Rewrite(q, d)
      [] f = "matmul_reshape" -> BM_Rewrite(q, d)
      [] f = "hardswish" -> HS_Rewrite(q, d)
UnknownOf(f, q) == CASE f = "relus_clips" -> RC_Unknown(q)
      [] f = "min_max" -> MM_Unknown(q)
      [] f = "no_op" -> NO_Unknown(q)
      [] f = "dropout" -> FALSE
      [] f = "cast_cos" -> CC_Unknown(q)
      [] f = "scatter_static" -> SC_Unknown(q)
      [] f = "scatter_dynamic" -> SD_Unknown(q)
      [] f = "matmul_add_gemm" -> MG_Unknown(q)
      [] f = "gemm_matmul_add" -> GM_Unknown(q)
      [] f = "optional_bias" -> OB_Unknown(q)
      [] f = "pad_conv" -> PC_Unknown(q)
      [] f = "conv_affine" -> CF_Unknown(q)
      [] f = "batchnorm" -> BN_Unknown(q)
      [] f = "expand_binop" -> EX_Unknown(q)
      [] f = "materialize" -> MR_Unknown(q)
      [] f = "collapse_slices" -> CS_Unknown(q)
      [] f = "casts" -> CA_Unknown(q)
      [] f = "no_op_expand" -> NE_Unknown(q)
      [] f = "reshape_reshape" -> RR_Unknown(q)
      [] f = "flatten" -> FL_Unknown(q)
      [] f = "slice_split" -> SS_Unknown(q)
      [] f = "transposes" -> TR_Unknown(q)
      [] f = "unsqueeze2" -> UU_Unknown(q)
      [] f = "squeeze_reshape" -> SQ_Unknown(q)
      [] f = "matmul_reshape" -> BM_Unknown(q)
      [] f = "hardswish" -> HS_Unknown(q)
ExactOf(f, q) == IF f = "no_op" THEN NO_Exact(q) ELSE IF f = "hardswish" THEN HS_Exact(q) ELSE TRUE

\* derived facts of the host model that the harness needs to build it (declared shapes as the spec computes them)
AuxOf(f, q) ==
   CASE f = "expand_binop" -> LET eact == BroadcastShape(q.as, q.es) osh == BroadcastShape(eact, q.bs) IN
                              [xd |-> Decl(q.decl, q.as), yd |-> IF q.decl = "none" THEN q.bs ELSE Decl(q.decl, q.bs),
                               ed |-> IF q.strat # "annot" THEN NOSHP ELSE IF q.decl = "none" THEN eact ELSE Decl(q.decl, eact),
                               od |-> IF q.strat = "out" THEN (IF q.decl = "none" THEN osh ELSE Decl(q.decl, osh)) ELSE [i \in 1..Len(osh) |-> UNK]]
     [] f = "materialize" -> [od |-> IF q.ovi /\ ~IsErr(MR_Lhs(q)) THEN MR_OutDecl(q) ELSE NOSHP]
     [] f = "collapse_slices" -> [xd |-> Decl(q.decl, q.ds), od |-> CS_OutDecl(q)]
     [] f = "no_op_expand" -> [xd |-> Decl(q.decl, q.as)]
     [] f = "flatten" -> [xd |-> FL_Decl(q)]
     [] f = "squeeze_reshape" -> [xd |-> Decl(q.decl, q.xs)]
     [] f = "matmul_add_gemm" -> [ad |-> Decl(q.decl, MG_AS(q)), bd |-> IF q.decl = "none" THEN MG_BS(q) ELSE Decl(q.decl, MG_BS(q)),
                                  ashape |-> MG_AS(q), bshape |-> MG_BS(q)]
     [] f = "gemm_matmul_add" -> [bshape |-> GM_BS(q)]
     [] f = "pad_conv" -> [xd |-> PC_XDecl(q), od |-> PC_ODecl(q)]
     [] f = "scatter_dynamic" -> [dd |-> SD_DataDecl(q), tdd |-> SD_TdDecl(q), perm |-> SD_Perm(q), tds |-> SD_TdShape(q), us |-> SD_UpdShape(q)]
     [] f = "scatter_static" -> [dd |-> SC_Decl(q.dd, q.ds), ud |-> SC_Decl(q.ud, SC_Us(q))]
     [] OTHER -> [none |-> 0]

-----------------------------------------------------------------------------
(* the application attempt as a function (used for `why`) and as a behaviour (below) *)
NoRes == Res(ERR, TRUE)
Outcome(m, c, r) == [fired |-> m /\ c = "ok" /\ ~IsRaise(r.res),
                     raised |-> m /\ (c = "raise" \/ (c = "ok" /\ IsRaise(r.res))),
                     res |-> IF m /\ c = "ok" THEN r.res ELSE ERR,
                     valid |-> IF m /\ c = "ok" THEN r.valid ELSE TRUE]
Attempt(f, q, d) == LET m == MatchOf(f, q, d)
                        c == IF m THEN CheckOf(f, q, d) ELSE "skip"
                        r == IF c = "ok" THEN RewriteOf(f, q, d) ELSE NoRes
                    IN Outcome(m, c, r)
\* the deviations a family's operators mention (only these can change its outcome)
DevsOf(f) == CASE f = "relus_clips" -> {"relu_clip_negmax", "clip_clip_disjoint", "relu_clip_no_dtype_raise"}
               [] f = "min_max" -> {"overridable_read_as_const", "minmax_clip_rank", "clip_inputs_pre_opset11"}
               [] f = "no_op" -> {"const_tolerance", "overridable_read_as_const"}
               [] f = "cast_cos" -> {"cast_cos_overflow"}
               [] f = "scatter_static" -> {"scatter_symbolic_raise", "scatter_static_ignores_reduction", "overridable_read_as_const"}
               [] f = "expand_binop" -> {"expand_rank_extension", "expand_binop_drops_attrs"}
               [] f = "materialize" -> {"materialize_allowzero"}
               [] f = "flatten" -> {"flatten_zero_dim"}
               [] f = "slice_split" -> {"slice_split_odd", "split_num_outputs_pre_opset18"}
               [] f = "matmul_reshape" -> {"reshape_matmul_ignores_inner_shapes"}
               [] f = "matmul_add_gemm" -> {"matmul_add_gemm_bias_shape"}
               [] f = "gemm_matmul_add" -> {"gemm_matmul_add_ignores_attrs", "reshape_matmul_ignores_inner_shapes", "gemm_matmul_add_bias_shape"}
               [] f = "optional_bias" -> {"overridable_read_as_const"}
               [] f = "batchnorm" -> {"bn_gemm_beta"}
               [] f = "hardswish" -> {"const_tolerance", "overridable_read_as_const", "hardswish_int_dtype", "hardswish_pre_opset14", "hardswish_const_rank"}
               [] f = "conv_affine" -> {"overridable_read_as_const", "conv_affine_scalar_rank"}
               [] f = "pad_conv" -> {"overridable_read_as_const", "pad_convinteger_zero_point", "autopad_ignores_dilation", "conv_affine_scalar_rank", "bn_gemm_beta"}
               [] f \in {"collapse_slices", "no_op_expand", "reshape_reshape", "unsqueeze2", "squeeze_reshape", "scatter_dynamic"} -> {"overridable_read_as_const"}
               [] OTHER -> {}
Why(f, q) == {d \in Deviations \cap DevsOf(f) : Attempt(f, q, Deviations \ {d}) # Attempt(f, q, Deviations)}

Nil == [D |-> "-", I |-> "-"]
Init == /\ \E f \in Families : fam = f /\ p \in ParamsOf(f)
        /\ stage = "picked" /\ mt = Nil /\ ck = Nil /\ rw = Nil /\ fin = Nil
Match == /\ stage = "picked"
         /\ mt' = [D |-> MatchOf(fam, p, {}), I |-> MatchOf(fam, p, Deviations)]
         /\ stage' = "matched" /\ UNCHANGED <<fam, p, ck, rw, fin>>
Check == /\ stage = "matched"
         /\ ck' = [D |-> IF mt.D THEN CheckOf(fam, p, {}) ELSE "skip", I |-> IF mt.I THEN CheckOf(fam, p, Deviations) ELSE "skip"]
         /\ stage' = "checked" /\ UNCHANGED <<fam, p, mt, rw, fin>>
Rewrite == /\ stage = "checked"
           /\ rw' = [D |-> IF ck.D = "ok" THEN RewriteOf(fam, p, {}) ELSE NoRes, I |-> IF ck.I = "ok" THEN RewriteOf(fam, p, Deviations) ELSE NoRes]
           /\ stage' = "rewritten" /\ UNCHANGED <<fam, p, mt, ck, fin>>
Replace == /\ stage = "rewritten"
           /\ fin' = [lhs |-> LhsOf(fam, p), D |-> Outcome(mt.D, ck.D, rw.D), I |-> Outcome(mt.I, ck.I, rw.I),
                      why |-> IF Outcome(mt.I, ck.I, rw.I) = Outcome(mt.D, ck.D, rw.D) THEN {} ELSE Why(fam, p), unknown |-> UnknownOf(fam, p), exact |-> ExactOf(fam, p)]
           /\ stage' = "done" /\ UNCHANGED <<fam, p, mt, ck, rw>>
Next == Match \/ Check \/ Rewrite \/ Replace
Spec == Init /\ [][Next]_vars

Done == stage = "done"
Judged == Done /\ ~IsErr(fin.lhs)            \* hosts whose original meaning is undefined are not judged
Holds(o) == (o.fired => (o.res = fin.lhs /\ o.valid)) /\ ~o.raised
\* the property on the design
Sound == Judged => Holds(fin.D)
NoFireOnUnknown == (Judged /\ fin.unknown) => ~fin.D.fired
\* the implementation model departs from the property only where a named deviation says so
DeviationsExplain == (Judged /\ (~Holds(fin.I) \/ (fin.unknown /\ fin.I.fired))) => fin.why # {}
\* the design never fires where the code would not (the design only adds side-conditions)
DesignRefines == (Done /\ fin.D.fired) => (fin.I.fired \/ fin.I.raised)

(* witnesses, each expected to be VIOLATED *)
NeverFires == ~(Judged /\ fin.D.fired)
ImplHolds == Judged => Holds(fin.I)
NeverDeclines == ~(Judged /\ ~fin.D.fired /\ fin.I.fired)

CaseRec == [fam |-> fam, p |-> p, aux |-> AuxOf(fam, p), lhs |-> fin.lhs, D |-> fin.D, I |-> fin.I, why |-> SetToSeq(fin.why),
            unknown |-> fin.unknown, exact |-> fin.exact]
EmitCases == Done => PrintT(<<"CASE", ToJson(CaseRec)>>)

NoDevs == {}
=============================================================================
