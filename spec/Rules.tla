------------------------------- MODULE Rules -------------------------------
(* C05: each shipped rewrite rule preserves semantics wherever it fires.                         *)
(*                                                                                                *)
(* One behaviour = one application attempt of one rule R to one host model M(p) that embeds an    *)
(* instance or a near-miss of R's target pattern; p ranges over R's parameter space.  The steps   *)
(* are those of RewriteRule.try_rewrite / RewriteRuleSet._apply_to_graph_or_function:             *)
(*     Pick (Init)  - choose the rule family and the parameter tuple p                            *)
(*     Match        - structural pattern match incl. literal constants (Constant(value, rel_tol,   *)
(*                    abs_tol)), attribute patterns and the "matched inner nodes are removable"   *)
(*                    test                                                                        *)
(*     Check        - the rule's check() / condition function  -> "ok" | "fail" | "raise"         *)
(*     Rewrite      - the rule's rewrite(): the value the replacement computes, whether the        *)
(*                    replacement is valid for the declared opset, or RAISE                       *)
(*     Replace      - the graph is (not) modified; outcome and the original meaning Lhs recorded  *)
(* Every step is computed twice: for the DESIGN (devs = {}: the rule as it has to be for the      *)
(* property to hold) and for the IMPLEMENTATION MODEL (devs = Deviations: the code as written,    *)
(* known defects as named deviations, DESIGN.md 2.5).                                             *)
(* Properties: Sound (design: fired => same tensor /\ valid), NoFireOnUnknown (design), and       *)
(* DeviationsExplain (every departure of the implementation model from the property is explained  *)
(* by a named deviation).  Tensor values are exact integers (Tensor.tla); families that need      *)
(* fractions use fixed point (no_op: 1/1000, cast_constant_of_shape: 1/10).                       *)
EXTENDS Tensor, TLC, Json

CONSTANTS Deviations,      \* subset of AllDevs
          Families,        \* rule families explored by this run
          Menu             \* "quick" | "thorough": size of the parameter menus
VARIABLES fam, p, stage, mt, ck, rw, fin
vars == <<fam, p, stage, mt, ck, rw, fin>>

AllDevs == {"relu_clip_negmax", "clip_clip_disjoint", "relu_clip_no_dtype_raise",
            "scatter_symbolic_raise", "scatter_static_ignores_reduction", "cast_cos_overflow",
            "const_tolerance", "overridable_read_as_const", "minmax_clip_rank",
            "clip_inputs_pre_opset11", "expand_rank_extension", "expand_binop_drops_attrs",
            "materialize_allowzero", "slice_split_odd", "split_num_outputs_pre_opset18",
            "flatten_zero_dim", "reshape_matmul_ignores_inner_shapes"}
AllFamilies == {"relus_clips", "min_max", "no_op", "dropout", "cast_cos", "scatter_static"}
Big == Menu = "thorough"

RAISE == [dt |-> "RAISE", shape |-> <<>>, data |-> <<>>]
IsRaise(t) == t.dt = "RAISE"
NOSHP == <<-100>>                 \* declared shape unknown (value.shape is None)
UNK == -9                         \* a dim without value and without name
SymN == -1                        \* symbolic dims: -1 "N", -2 "M", -3 "K"
SymM == -2
IsSym(d) == d < 0

\* test input: every value of -3..3 occurs once the tensor has 7 elements
XT(dt, shape) == T(dt, shape, [k \in 1..Numel(shape) |-> ((k - 1) % 7) - 3])
ConstT(dt, shape, v) == T(dt, shape, [k \in 1..Numel(shape) |-> v])
ClipV(v, lo, hi) == LET a == IF lo = NONE THEN v ELSE Max2(v, lo) IN IF hi = NONE THEN a ELSE Min2(a, hi)
\* how a "constant" operand is given: initializer, Constant node, pure graph input, initializer
\* that is also a graph input (overridable default)
Kinds == {"init", "cnode", "ginput", "ginit"}
\* value.const_value / get_const_tensor: initializers (also overridable ones!) and Constant nodes
HasConstValue(kind, devs) == kind \in {"init", "cnode"} \/ (kind = "ginit" /\ "overridable_read_as_const" \in devs)
Res(t, v) == [res |-> t, valid |-> v]

RECURSIVE SetToSeq(_)
SetToSeq(S) == IF S = {} THEN <<>> ELSE LET x == CHOOSE x \in S : TRUE IN <<x>> \o SetToSeq(S \ {x})

-----------------------------------------------------------------------------
(* relus_clips: _fuse_relus_clips.py  (relu_relu, clip_relu = Clip(Relu(x)), relu_clip =          *)
(* Relu(Clip(x)), clip_clip)                                                                      *)
Bounds == {NONE} \cup (-2..2)
RedBounds == {NONE, -1, 1}
RC_P(r, lo1, hi1, lo2, hi2, k, vi, dt, ex) ==
   [rule |-> r, lo1 |-> lo1, hi1 |-> hi1, lo2 |-> lo2, hi2 |-> hi2, ckind |-> k, vi |-> vi, dt |-> dt, extra |-> ex]
RC_Params ==
   {RC_P("relu_relu", NONE, NONE, NONE, NONE, "init", vi, dt, ex) : vi \in BOOLEAN, dt \in {"f32", "i64"}, ex \in BOOLEAN}
   \cup {RC_P(r, lo, hi, NONE, NONE, "init", TRUE, "f32", FALSE) : r \in {"clip_relu", "relu_clip"}, lo \in Bounds, hi \in Bounds}
   \cup {RC_P(r, lo, hi, NONE, NONE, k, vi, dt, ex) : r \in {"clip_relu", "relu_clip"}, lo \in RedBounds, hi \in RedBounds,
            k \in Kinds, vi \in BOOLEAN, dt \in {"f32", "i64"}, ex \in BOOLEAN}
   \cup {RC_P("clip_clip", lo1, hi1, lo2, hi2, "init", TRUE, "f32", FALSE) :
            lo1 \in (IF Big THEN Bounds ELSE {NONE, -2, 0, 1}), hi1 \in Bounds, lo2 \in Bounds, hi2 \in (IF Big THEN Bounds ELSE {NONE, -1, 0, 2})}
   \cup {RC_P("clip_clip", lo1, hi1, lo2, hi2, k, vi, dt, ex) : lo1 \in {NONE, 0}, hi1 \in {NONE, 1}, lo2 \in {NONE, -1}, hi2 \in {NONE, 2},
            k \in Kinds, vi \in BOOLEAN, dt \in {"f32", "i64"}, ex \in BOOLEAN}
RC_X(q) == XT(q.dt, <<7>>)
RC_AnyBound(q) == q.lo1 # NONE \/ q.hi1 # NONE \/ q.lo2 # NONE \/ q.hi2 # NONE
RC_Lhs(q) ==
   LET C1(v) == ClipV(v, q.lo1, q.hi1)
       C2(v) == ClipV(v, q.lo2, q.hi2)
       Relu(v) == Max2(v, 0)
   IN CASE q.rule = "relu_relu" -> Map1(RC_X(q), q.dt, LAMBDA v : Relu(Relu(v)))
        [] q.rule = "clip_relu" -> Map1(RC_X(q), q.dt, LAMBDA v : C1(Relu(v)))
        [] q.rule = "relu_clip" -> Map1(RC_X(q), q.dt, LAMBDA v : Relu(C1(v)))
        [] q.rule = "clip_clip" -> Map1(RC_X(q), q.dt, LAMBDA v : C2(C1(v)))
\* the inner node's output must have no other consumer (check_nodes_are_removable)
RC_Match(q, devs) == ~q.extra
\* design side-conditions the code does not have
RC_NegMax(q) == q.rule = "relu_clip" /\ q.hi1 # NONE /\ q.hi1 < 0
RC_Disjoint(q) == /\ q.rule = "clip_clip" /\ q.lo2 # NONE /\ q.hi1 # NONE /\ q.lo2 > q.hi1
                  /\ (q.hi2 = NONE \/ q.hi2 > q.hi1)
RC_Check(q, devs) ==
   IF q.rule = "relu_relu" THEN "ok"
   ELSE IF RC_AnyBound(q) /\ q.ckind \in {"ginput", "ginit"} THEN "fail"       \* is_graph_input() / not constant
   ELSE IF RC_NegMax(q) /\ "relu_clip_negmax" \notin devs THEN "fail"
   ELSE IF RC_Disjoint(q) /\ "clip_clip_disjoint" \notin devs THEN "fail"
   ELSE "ok"
Comb(a, b, F(_, _)) == IF a # NONE /\ b # NONE THEN F(a, b) ELSE IF a # NONE THEN a ELSE b
RC_Rewrite(q, devs) ==
   \* extract_min_max reads node.inputs[0].dtype of the Clip whose first input is the intermediate
   IF q.rule \in {"clip_relu", "clip_clip"} /\ ~q.vi /\ "relu_clip_no_dtype_raise" \in devs THEN Res(RAISE, TRUE)
   ELSE CASE q.rule = "relu_relu" -> Res(Map1(RC_X(q), q.dt, LAMBDA v : Max2(v, 0)), TRUE)
          [] q.rule \in {"clip_relu", "relu_clip"} ->
                LET lo == Max2(0, IF q.lo1 = NONE THEN 0 ELSE q.lo1) IN
                Res(Map1(RC_X(q), q.dt, LAMBDA v : ClipV(v, lo, q.hi1)), TRUE)
          [] q.rule = "clip_clip" ->
                LET lo == Comb(q.lo1, q.lo2, Max2) hi == Comb(q.hi1, q.hi2, Min2) IN
                Res(Map1(RC_X(q), q.dt, LAMBDA v : ClipV(v, lo, hi)), TRUE)
RC_Unknown(q) == q.rule # "relu_relu" /\ RC_AnyBound(q) /\ q.ckind \in {"ginput", "ginit"}

-----------------------------------------------------------------------------
(* min_max: _min_max_to_clip.py  (min_min, max_max, min_max = Max(Min(x, ub..), lb..) -> Clip,    *)
(* max_min = Min(Max(x, lb..), ub..) -> Clip)                                                     *)
MM_P(r, c1, c2, cs, xs, k, dt, opset, ex) ==
   [rule |-> r, c1 |-> c1, c2 |-> c2, cs |-> cs, xs |-> xs, ckind |-> k, dt |-> dt, opset |-> opset, extra |-> ex]
MM_Rules == {"min_min", "max_max", "min_max", "max_min"}
MM_Vals == IF Big THEN -2..2 ELSE {-1, 0, 2}
MM_Params ==
   \* one constant per node, every ordering, every constant shape x every x shape
   {MM_P(r, <<a>>, <<b>>, cs, xs, "init", "f32", 18, FALSE) : r \in MM_Rules, a \in MM_Vals, b \in MM_Vals,
        cs \in {<<>>, <<1>>, <<1, 1>>, <<7>>}, xs \in {<<>>, <<7>>, <<1, 7>>}}
   \* two constants on one or both nodes
   \cup {MM_P(r, c1, c2, <<>>, <<7>>, "init", "f32", 18, FALSE) : r \in MM_Rules,
        c1 \in {<<-1, 1>>, <<2, -2>>, <<0>>}, c2 \in {<<1, -1>>, <<-2, 0>>, <<1>>}}
   \* operand kinds, dtype, opset, extra consumer
   \cup {MM_P(r, <<a>>, <<b>>, <<>>, <<7>>, k, dt, os, ex) : r \in MM_Rules, a \in {-1, 1}, b \in {-1, 1}, k \in Kinds,
        dt \in {"f32", "i64"}, os \in {18, 10}, ex \in BOOLEAN}
MM_Inner(q) == IF q.rule \in {"min_min", "min_max"} THEN "min" ELSE "max"
MM_Outer(q) == IF q.rule \in {"min_min", "max_min"} THEN "min" ELSE "max"
MM_IsClip(q) == q.rule \in {"min_max", "max_min"}
MM_Op(t, cs, dt, shape, which) ==        \* Min / Max node with inputs (t, cs[1], ..)
   LET F(a, b) == IF which = "min" THEN Min2(a, b) ELSE Max2(a, b)
       one == Map2(t, ConstT(dt, shape, cs[1]), dt, F)
   IN IF Len(cs) = 1 THEN one ELSE Map2(one, ConstT(dt, shape, cs[2]), dt, F)
RECURSIVE SeqMin(_), SeqMax(_)
SeqMin(s) == IF Len(s) = 1 THEN s[1] ELSE Min2(s[1], SeqMin(Tail(s)))
SeqMax(s) == IF Len(s) = 1 THEN s[1] ELSE Max2(s[1], SeqMax(Tail(s)))
MM_X(q) == XT(q.dt, q.xs)
\* Min/Max on integers exist from opset 12 on: integer hosts at opset 10 are not generated
MM_HostValid(q) == q.dt = "f32" \/ q.opset >= 12
MM_Lhs(q) == IF ~MM_HostValid(q) THEN ERR
             ELSE MM_Op(MM_Op(MM_X(q), q.c1, q.dt, q.cs, MM_Inner(q)), q.c2, q.dt, q.cs, MM_Outer(q))
MM_Match(q, devs) == ~q.extra
MM_Lb(q) == IF q.rule = "min_max" THEN SeqMax(q.c2) ELSE SeqMax(q.c1)
MM_Ub(q) == IF q.rule = "min_max" THEN SeqMin(q.c1) ELSE SeqMin(q.c2)
MM_Check(q, devs) ==
   IF ~HasConstValue(q.ckind, devs) THEN "fail"
   ELSE IF MM_IsClip(q) /\ Numel(q.cs) # 1 THEN "fail"                        \* need_scalars: size == 1
   ELSE IF q.rule = "min_max" /\ MM_Lb(q) > MM_Ub(q) THEN "fail"             \* check_bounds
   \* design: Clip does not broadcast x against its bounds, and takes them as inputs from opset 11 on
   ELSE IF MM_IsClip(q) /\ BroadcastShape(q.xs, q.cs) # q.xs /\ "minmax_clip_rank" \notin devs THEN "fail"
   ELSE IF MM_IsClip(q) /\ q.opset < 11 /\ "clip_inputs_pre_opset11" \notin devs THEN "fail"
   ELSE "ok"
MM_Rewrite(q, devs) ==
   IF MM_IsClip(q)
   THEN Res(Map1(MM_X(q), q.dt, LAMBDA v : ClipV(v, MM_Lb(q), MM_Ub(q))), q.opset >= 11)
   ELSE LET all == q.c1 \o q.c2
            c == IF q.rule = "min_min" THEN SeqMin(all) ELSE SeqMax(all)
        IN Res(MM_Op(MM_X(q), <<c>>, q.dt, q.cs, MM_Inner(q)), TRUE)
MM_Unknown(q) == q.ckind \in {"ginput", "ginit"}

-----------------------------------------------------------------------------
(* no_op: _no_op.py  (x*1, 1*x, x+0, 0+x, x-0, x/1, Dropout).  Fixed point: 1000 = 1.0, 1 = "eps" *)
(* = a quantity inside Constant's tolerance that is not the literal.                              *)
NO_P(op, side, cv, cs, k, dt, xs) == [op |-> op, side |-> side, cv |-> cv, cs |-> cs, ckind |-> k, dt |-> dt, xs |-> xs]
NO_Params ==
   {NO_P(op, sd, cv, cs, k, "f32", xs) : op \in {"Mul", "Add", "Sub", "Div"}, sd \in {"R", "L"}, cv \in {0, 1, 1000, 1001, 2000},
        cs \in {<<>>, <<1>>}, k \in (IF Big THEN Kinds ELSE {"init"}), xs \in {<<>>, <<7>>, <<1, 7>>}}
   \cup {NO_P(op, sd, cv, <<>>, k, dt, <<7>>) : op \in {"Mul", "Add", "Sub", "Div"}, sd \in {"R", "L"}, cv \in {0, 1000, 2000},
        k \in Kinds, dt \in {"f32", "i64"}}
NO_Target(q) == IF q.op \in {"Mul", "Div"} THEN 1000 ELSE 0
NO_Exact(q) == q.cv \in {0, 1000, 2000}             \* eps-class constants: the harness does not compare values with the spec
\* values in 1/1000; x is integer valued
NO_Lhs(q) ==
   IF q.op = "Div" /\ (q.cv = 0 \/ (q.side = "L")) THEN ERR          \* c / x: division by zero in the test vector
   ELSE LET x == XT(q.dt, q.xs)
            c == ConstT(q.dt, q.cs, q.cv)
            F(a, b) == CASE q.op = "Add" -> 1000 * a + b
                         [] q.op = "Sub" -> IF q.side = "R" THEN 1000 * a - b ELSE b - 1000 * a
                         [] q.op = "Mul" -> a * b
                         [] q.op = "Div" -> IF q.dt = "i64" THEN 1000 * TruncDiv(a, b \div 1000) ELSE TruncDiv(1000000 * a, b)
        IN Map2(x, c, q.dt, F)
NO_Rhs(q) == LET x == XT(q.dt, q.xs) IN T(q.dt, q.xs, [k \in 1..Numel(q.xs) |-> 1000 * x.data[k]])
\* Constant(v).matches: const_value present, ndim = 0, math.isclose(value, v, rel 1e-5, abs 1e-8)
NO_Match(q, devs) ==
        /\ (q.side = "R" \/ q.op \in {"Mul", "Add"})                  \* only Mul and Add are commuted
        /\ HasConstValue(q.ckind, devs)
        /\ q.cs = <<>>
        /\ (q.cv = NO_Target(q) \/ (q.cv = NO_Target(q) + 1 /\ "const_tolerance" \in devs))
NO_Check(q, devs) == "ok"
NO_Rewrite(q, devs) == Res(NO_Rhs(q), TRUE)
NO_Unknown(q) == q.ckind \in {"ginput", "ginit"} \/ q.cv # NO_Target(q)

(* dropout: _no_op.py dropout_zero (attribute ratio = 0.0: opset < 12 only) / dropout_inference (attribute   *)
(* training_mode: exists in no opset).  ratio in 1/1000; at opset 18 the ratio is an input.                   *)
DO_Params == {[opset |-> os, ratio |-> r, mask |-> m, xs |-> <<7>>, dt |-> "f32"] : os \in {10, 18}, r \in {NONE, 0, 500}, m \in BOOLEAN}
DO_Lhs(q) == XT(q.dt, q.xs)                       \* inference mode: Dropout is the identity whatever the ratio
DO_Match(q, devs) == q.opset = 10 /\ q.ratio = 0 /\ ~q.mask
DO_Rewrite(q, devs) == Res(XT(q.dt, q.xs), TRUE)

-----------------------------------------------------------------------------
(* cast_cos: _cast_constant_of_shape.py.  Fixed point: values in 1/10 (27 = 2.7).                 *)
CC_Params ==
   {[hasval |-> TRUE, v |-> v, vdt |-> vdt, to |-> to, shp |-> shp] :
        v \in {0, 10, -30, 3000, 27, -27}, vdt \in {"f32", "i64", "i32"}, to \in {"f32", "f16", "i64", "i32", "u8", "bool"},
        shp \in (IF Big THEN {"c23", "c0", "cs", "dyn"} ELSE {"c23", "dyn"})}
   \cup {[hasval |-> FALSE, v |-> 0, vdt |-> "f32", to |-> to, shp |-> shp] :
        to \in {"f32", "f16", "i64", "i32", "u8", "bool"}, shp \in {"c23", "c0", "cs", "dyn"}}
IsIntDt(dt) == dt \in {"i64", "i32", "u8"}
\* hosts that are not generated: fractional value in an integer tensor; float -> uint8 out of range (undefined in C)
CC_HostValid(q) == /\ (IsIntDt(q.vdt) => q.v % 10 = 0)
                   /\ ~(q.vdt = "f32" /\ q.to = "u8" /\ (q.v < 0 \/ q.v > 2550))
CC_Shape(q) == CASE q.shp = "c23" -> <<2, 3>> [] q.shp = "c0" -> <<0>> [] q.shp = "cs" -> <<>> [] q.shp = "dyn" -> <<2>>
CastV10(v, to) == CASE to \in {"f32", "f16"} -> v
                    [] to \in {"i64", "i32"} -> 10 * TruncDiv(v, 10)
                    [] to = "u8" -> 10 * PyMod(TruncDiv(v, 10), 256)
                    [] to = "bool" -> IF v # 0 THEN 10 ELSE 0
CC_Lhs(q) == IF ~CC_HostValid(q) THEN ERR ELSE ConstT(q.to, CC_Shape(q), CastV10(q.v, q.to))
CC_Match(q, devs) == TRUE
CC_Overflow(q) == q.to = "u8" /\ IsIntDt(q.vdt) /\ (q.v < 0 \/ q.v > 2550)
\* design: a value the target type cannot hold is not folded
CC_Check(q, devs) == IF CC_Overflow(q) /\ "cast_cos_overflow" \notin devs THEN "fail" ELSE "ok"
\* ir.tensor([python scalar], dtype): numpy refuses out-of-range python ints
CC_Rewrite(q, devs) == IF CC_Overflow(q) /\ "cast_cos_overflow" \in devs THEN Res(RAISE, TRUE) ELSE Res(ConstT(q.to, CC_Shape(q), CastV10(q.v, q.to)), TRUE)
CC_Unknown(q) == FALSE

-----------------------------------------------------------------------------
(* scatter_static: _redundant_scatter_nd.py ScatterAllStatic                                      *)
SC_Params ==
   {[ds |-> ds, dd |-> dd, ud |-> ud, idx |-> ix, red |-> rd] :
        ds \in {<<3>>, <<3, 2>>}, dd \in {"static", "sym", "unk", "none"}, ud \in {"static", "sym", "sym2", "none"},
        ix \in {"full", "perm", "short", "ginput", "ginit"}, rd \in {"absent", "none", "add", "mul"}}
SC_K(q) == IF q.idx = "short" THEN 2 ELSE 3
SC_Idx(q) == CASE q.idx = "perm" -> <<1, 0, 2>> [] q.idx = "short" -> <<0, 1>> [] OTHER -> <<0, 1, 2>>
SC_Us(q) == <<SC_K(q)>> \o Tail(q.ds)
SC_Data(q) == T("f32", q.ds, [k \in 1..Numel(q.ds) |-> k])
SC_Upd(q) == T("f32", SC_Us(q), [k \in 1..Numel(SC_Us(q)) |-> 2 - k])
SC_Lhs(q) ==       \* ScatterND with indices of shape [k, 1] (distinct rows)
   LET d == SC_Data(q) u == SC_Upd(q) ix == SC_Idx(q)
       row == Numel(Tail(q.ds))
       F(a, b) == CASE q.red \in {"absent", "none"} -> b [] q.red = "add" -> a + b [] q.red = "mul" -> a * b
       Src(r) == IF \E i \in 1..Len(ix) : ix[i] = r THEN CHOOSE i \in 1..Len(ix) : ix[i] = r ELSE 0
   IN T("f32", q.ds, [k \in 1..Numel(q.ds) |->
          LET r == (k - 1) \div row  c == (k - 1) % row  i == Src(r)
          IN IF i = 0 THEN d.data[k] ELSE F(d.data[k], u.data[(i - 1) * row + c + 1])])
\* the declared (static-analysis) shapes: first dim as int / named symbol / unnamed; "none": no shape at all
SC_Decl(kind, actual) == CASE kind = "static" -> actual [] kind = "sym" -> <<SymN>> \o Tail(actual)
                           [] kind = "sym2" -> <<SymM>> \o Tail(actual) [] kind = "unk" -> <<UNK>> \o Tail(actual)
                           [] kind = "none" -> NOSHP
\* pattern ScatterND(data, indices, updates) has no attribute constraint
SC_Match(q, devs) == q.red \in {"absent", "none"} \/ "scatter_static_ignores_reduction" \in devs
SC_Check(q, devs) ==
   LET dd == SC_Decl(q.dd, q.ds) ud == SC_Decl(q.ud, SC_Us(q)) IN
   IF dd = NOSHP \/ ud = NOSHP THEN "fail"
   ELSE IF UNK \in SeqToSet(dd) \/ UNK \in SeqToSet(ud) \/ dd # ud THEN "fail"     \* _ir_utils.same_shape
   ELSE IF q.idx = "ginput" \/ (q.idx = "ginit" /\ "overridable_read_as_const" \notin devs) THEN "fail"
   ELSE IF IsSym(dd[1]) THEN (IF "scatter_symbolic_raise" \in devs THEN "raise" ELSE "fail")   \* range(SymbolicDim)
   ELSE IF SC_Idx(q) = [i \in 1..dd[1] |-> i - 1] THEN "ok" ELSE "fail"
SC_Rewrite(q, devs) == Res(SC_Upd(q), TRUE)
SC_Unknown(q) == q.dd \in {"unk", "none", "sym"} \/ q.ud \in {"none", "sym", "sym2"} \/ q.idx \in {"ginput", "ginit"}

-----------------------------------------------------------------------------
(* dispatch *)
ParamsOf(f) == CASE f = "relus_clips" -> RC_Params [] f = "min_max" -> MM_Params [] f = "no_op" -> NO_Params
                 [] f = "cast_cos" -> CC_Params [] f = "scatter_static" -> SC_Params [] f = "dropout" -> DO_Params
LhsOf(f, q) == CASE f = "relus_clips" -> RC_Lhs(q) [] f = "min_max" -> MM_Lhs(q) [] f = "no_op" -> NO_Lhs(q)
                 [] f = "cast_cos" -> CC_Lhs(q) [] f = "scatter_static" -> SC_Lhs(q) [] f = "dropout" -> DO_Lhs(q)
MatchOf(f, q, d) == CASE f = "relus_clips" -> RC_Match(q, d) [] f = "min_max" -> MM_Match(q, d) [] f = "no_op" -> NO_Match(q, d)
                      [] f = "cast_cos" -> CC_Match(q, d) [] f = "scatter_static" -> SC_Match(q, d) [] f = "dropout" -> DO_Match(q, d)
CheckOf(f, q, d) == CASE f = "relus_clips" -> RC_Check(q, d) [] f = "min_max" -> MM_Check(q, d) [] f = "no_op" -> NO_Check(q, d)
                      [] f = "cast_cos" -> CC_Check(q, d) [] f = "scatter_static" -> SC_Check(q, d) [] f = "dropout" -> "ok"
RewriteOf(f, q, d) == CASE f = "relus_clips" -> RC_Rewrite(q, d) [] f = "min_max" -> MM_Rewrite(q, d) [] f = "no_op" -> NO_Rewrite(q, d)
                        [] f = "cast_cos" -> CC_Rewrite(q, d) [] f = "scatter_static" -> SC_Rewrite(q, d) [] f = "dropout" -> DO_Rewrite(q, d)
UnknownOf(f, q) == CASE f = "relus_clips" -> RC_Unknown(q) [] f = "min_max" -> MM_Unknown(q) [] f = "no_op" -> NO_Unknown(q)
                     [] f = "cast_cos" -> CC_Unknown(q) [] f = "scatter_static" -> SC_Unknown(q) [] f = "dropout" -> FALSE
ExactOf(f, q) == IF f = "no_op" THEN NO_Exact(q) ELSE TRUE

-----------------------------------------------------------------------------
(* the application attempt as a function (used for `why`) and as a behaviour (below) *)
NoRes == Res(ERR, TRUE)
Outcome(m, c, r) == [fired |-> m /\ c = "ok" /\ ~IsRaise(r.res),
                     raised |-> m /\ (c = "raise" \/ (c = "ok" /\ IsRaise(r.res))),
                     res |-> IF m /\ c = "ok" THEN r.res ELSE ERR,
                     valid |-> IF m /\ c = "ok" THEN r.valid ELSE TRUE]
Attempt(f, q, d) == LET m == MatchOf(f, q, d)
                        c == IF m THEN CheckOf(f, q, d) ELSE "skip"
                        r == IF c = "ok" THEN RewriteOf(f, q, d) ELSE NoRes
                    IN Outcome(m, c, r)
Why(f, q) == {d \in Deviations : Attempt(f, q, Deviations \ {d}) # Attempt(f, q, Deviations)}

Nil == [D |-> "-", I |-> "-"]
Init == /\ \E f \in Families : fam = f /\ p \in ParamsOf(f)
        /\ stage = "picked" /\ mt = Nil /\ ck = Nil /\ rw = Nil /\ fin = Nil
Match == /\ stage = "picked"
         /\ mt' = [D |-> MatchOf(fam, p, {}), I |-> MatchOf(fam, p, Deviations)]
         /\ stage' = "matched" /\ UNCHANGED <<fam, p, ck, rw, fin>>
Check == /\ stage = "matched"
         /\ ck' = [D |-> IF mt.D THEN CheckOf(fam, p, {}) ELSE "skip", I |-> IF mt.I THEN CheckOf(fam, p, Deviations) ELSE "skip"]
         /\ stage' = "checked" /\ UNCHANGED <<fam, p, mt, rw, fin>>
Rewrite == /\ stage = "checked"
           /\ rw' = [D |-> IF ck.D = "ok" THEN RewriteOf(fam, p, {}) ELSE NoRes, I |-> IF ck.I = "ok" THEN RewriteOf(fam, p, Deviations) ELSE NoRes]
           /\ stage' = "rewritten" /\ UNCHANGED <<fam, p, mt, ck, fin>>
Replace == /\ stage = "rewritten"
           /\ fin' = [lhs |-> LhsOf(fam, p), D |-> Outcome(mt.D, ck.D, rw.D), I |-> Outcome(mt.I, ck.I, rw.I),
                      why |-> Why(fam, p), unknown |-> UnknownOf(fam, p), exact |-> ExactOf(fam, p)]
           /\ stage' = "done" /\ UNCHANGED <<fam, p, mt, ck, rw>>
Next == Match \/ Check \/ Rewrite \/ Replace
Spec == Init /\ [][Next]_vars

Done == stage = "done"
Judged == Done /\ ~IsErr(fin.lhs)            \* hosts whose original meaning is undefined are not judged
Holds(o) == (o.fired => (o.res = fin.lhs /\ o.valid)) /\ ~o.raised
\* the property on the design
Sound == Judged => Holds(fin.D)
NoFireOnUnknown == (Judged /\ fin.unknown) => ~fin.D.fired
\* the implementation model departs from the property only where a named deviation says so
DeviationsExplain == (Judged /\ (~Holds(fin.I) \/ (fin.unknown /\ fin.I.fired))) => fin.why # {}
\* the design never fires where the code would not (the design only adds side-conditions)
DesignRefines == (Done /\ fin.D.fired) => (fin.I.fired \/ fin.I.raised)

(* witnesses, each expected to be VIOLATED *)
NeverFires == ~(Judged /\ fin.D.fired)
ImplHolds == Judged => Holds(fin.I)
NeverDeclines == ~(Judged /\ ~fin.D.fired /\ fin.I.fired)

CaseRec == [fam |-> fam, p |-> p, lhs |-> fin.lhs, D |-> fin.D, I |-> fin.I, why |-> SetToSeq(fin.why),
            unknown |-> fin.unknown, exact |-> fin.exact]
EmitCases == Done => PrintT(<<"CASE", ToJson(CaseRec)>>)

NoDevs == {}
=============================================================================
