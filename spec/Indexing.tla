------------------------------ MODULE Indexing ------------------------------
(* C11: tensor indexing/slicing.                                                                *)
(*   NpIndex      - NumPy's meaning of X[idx] (slice.indices + basic indexing rules)            *)
(*   ConvLower    - onnxscript/_internal/converter.py:_translate_subscript_expr, transcribed:   *)
(*                  partition into sliced / scalar / non-scalar, Slice(+Squeeze) then Gathers   *)
(*   EagerLower   - onnxscript/tensor.py:Tensor.__getitem__, transcribed (a different algorithm)*)
(* Both lowerings are evaluated on the ONNX operator semantics of Tensor.tla.                   *)
(* A behaviour builds one index expression component by component (Extend) and then lowers it   *)
(* (Finish); every reachable "done" state is one case of the property's quantifier.             *)
(* Deviations: named places where the code is known to depart from the design (DESIGN 2.5).     *)
(* The lowering operators take the deviation set as a parameter: the *design* (devs = {}) must  *)
(* satisfy DesignOK, the *implementation model* (devs = Deviations) is what the conformance     *)
(* harness compares the real converter / eager tensor with.                                     *)
EXTENDS Tensor, TLC, Json

CONSTANTS Deviations,       \* subset of {"slice_neg_clamp","conv_axis_shift","eager_axis_shift"}
          Shapes,           \* set of shapes (sequences of dims)
          FullRanks         \* ranks for which one component may come from the full set
VARIABLES shape, idx, stage, np, conv, eager, convIdeal, eagerIdeal, convWhy, eagerWhy
vars == <<shape, idx, stage, np, conv, eager, convIdeal, eagerIdeal, convWhy, eagerWhy>>

BIG == 1000000      \* stands for maxint = 2^63-1 (TLC integers are 32-bit); -BIG for minint
\* on the pinned tree also "eager_axis_shift", "conv_identity_crash" and the static part of "conv_axis_shift" were real;
\* they are fixed in /repo ("fix: renumber Gather axes ..."), so the implementation model runs without them
AllDevs == {"slice_neg_clamp", "conv_axis_shift"}

-----------------------------------------------------------------------------
(* index components *)
IntC(v) == [k |-> "int", v |-> v]
SlC(s, e, st) == [k |-> "sl", s |-> s, e |-> e, st |-> st]
TsC(v) == [k |-> "ts", v |-> v]          \* 0-d tensor holding v
TvC(v) == [k |-> "tv", vs |-> v]          \* 1-D tensor
DslC(v) == [k |-> "dsl", v |-> v]        \* slice I:I+1 whose bounds are computed from a 0-d tensor I holding v (documented form A[i:i+1])
IsFull(c) == c.k = "sl" /\ c.s = NONE /\ c.e = NONE /\ c.st = NONE
IsScalarish(c) == c.k \in {"int", "ts"}

Bounds(d) == {NONE} \cup ((-d - 1)..(d + 1))
StepsAll == {NONE, 1, 2, -1, -2}
CFull(d) == {IntC(v) : v \in (-d)..(d - 1)}
            \cup {SlC(s, e, st) : s \in Bounds(d), e \in Bounds(d), st \in StepsAll}
CRed(d) == {IntC(v) : v \in {-d, -1, 0, d - 1}}
           \cup {SlC(NONE, NONE, NONE), SlC(1, NONE, NONE), SlC(NONE, -1, NONE), SlC(NONE, NONE, 2),
                 SlC(NONE, NONE, -1), SlC(-1, NONE, -1), SlC(1, d + 1, NONE), SlC(-d - 1, 1, NONE),
                 SlC(NONE, 0, -1), SlC(d - 1, 0, -2), SlC(0, 0, NONE), SlC(-2, -2, -2),
                 SlC(NONE, NONE, -2), SlC(-1, -d - 1, -1), SlC(d, NONE, NONE), SlC(0, d, 1)}
CTensor(d) == {TsC(v) : v \in {-d, -1, 0, d - 1}}
              \cup {TvC(<<0>>), TvC(<<d - 1, 0>>), TvC(<<-1, 0, -d>>)}
              \cup {DslC(v) : v \in {-d, -1, 0, d - 1}}

\* an index tuple is admissible for generation when
\*  - at most one component is tensor-valued (several switch NumPy to zip semantics, which the
\*    converter documents as unsupported), and a 1-D tensor index is not separated from an
\*    integer-like index by a slice (NumPy then moves the advanced dims to the front);
\*  - for ranks outside FullRanks every component is from the reduced menu, otherwise at most one
\*    component is outside it.
NTensor(ix) == Cardinality({i \in 1..Len(ix) : ix[i].k \in {"ts", "tv", "dsl"}})
Separated(ix) == \E i, j \in 1..Len(ix) : /\ i < j
                    /\ ((ix[i].k = "tv" /\ IsScalarish(ix[j])) \/ (IsScalarish(ix[i]) /\ ix[j].k = "tv"))
                    /\ \E m \in (i + 1)..(j - 1) : ix[m].k = "sl"
NOutsideRed(ix, sh) == Cardinality({i \in 1..Len(ix) : ix[i] \notin CRed(sh[i]) \cup CTensor(sh[i])})
Admissible(ix, sh) == /\ NTensor(ix) <= 1
                      /\ ~Separated(ix)
                      /\ NOutsideRed(ix, sh) <= (IF Len(sh) \in FullRanks THEN 1 ELSE 0)

-----------------------------------------------------------------------------
(* NumPy *)
NOCOORD == <<-1000>>
NormIx(v, d) == IF v < 0 THEN v + d ELSE v
NpAxisCoords(c, d) ==
  CASE c.k \in {"int", "ts"} -> IF c.v < -d \/ c.v >= d THEN NOCOORD ELSE <<NormIx(c.v, d)>>
    [] c.k = "sl" -> LET p == NpPlanAxis(d, c.s, c.e, c.st) IN [j \in 1..p[3] |-> p[1] + (j - 1) * p[2]]
    [] c.k = "dsl" -> LET p == NpPlanAxis(d, c.v, c.v + 1, NONE) IN [j \in 1..p[3] |-> p[1] + (j - 1) * p[2]]
    [] c.k = "tv" -> IF \E j \in 1..Len(c.vs) : c.vs[j] < -d \/ c.vs[j] >= d THEN NOCOORD
                     ELSE [j \in 1..Len(c.vs) |-> NormIx(c.vs[j], d)]
NpIndex(t, ix) ==
  IF Len(ix) > Rank(t) THEN ERR
  ELSE LET r == Rank(t)
           coords == [i \in 1..r |-> IF i <= Len(ix) THEN NpAxisCoords(ix[i], t.shape[i])
                                      ELSE [j \in 1..t.shape[i] |-> j - 1]]
           dropped == {i \in 1..Len(ix) : IsScalarish(ix[i])}
       IN IF \E i \in 1..r : coords[i] = NOCOORD THEN ERR
          ELSE LET keep == SelectSeq([i \in 1..r |-> i], LAMBDA i : i \notin dropped)
                   oshape == [j \in 1..Len(keep) |-> Len(coords[keep[j]])]
                   Pos(i) == CHOOSE j \in 1..Len(keep) : keep[j] = i
                   Op(o) == At(t, [i \in 1..r |-> IF i \in dropped THEN coords[i][1] ELSE coords[i][o[Pos(i)] + 1]])
               IN FromFn(t.dt, oshape, Op)

-----------------------------------------------------------------------------
(* helpers shared by the two lowerings *)
RECURSIVE SortedSeq(_)
SortedSeq(S) == IF S = {} THEN <<>> ELSE LET m == CHOOSE x \in S : \A y \in S : x <= y IN <<m>> \o SortedSeq(S \ {m})

\* One ONNX Slice over several axes, given per listed axis <<axis(1-based), start, end, step>>.
\* With deviation "slice_neg_clamp" this is the ONNX operator; the design clamps like NumPy
\* (start of a negative-step slice may fall off the front: empty result).
SliceBy(t, specs, devs) ==
  IF IsErr(t) THEN ERR
  ELSE LET r == Rank(t)
           plan == [i \in 1..r |->
                      IF \E j \in 1..Len(specs) : specs[j][1] = i
                      THEN LET sp == specs[CHOOSE j \in 1..Len(specs) : specs[j][1] = i]
                               d == t.shape[i]
                           IN IF "slice_neg_clamp" \in devs THEN SlicePlanAxis(d, sp[2], sp[3], sp[4])
                              ELSE IF d = 0 THEN <<0, sp[4], 0>>
                              ELSE NpPlanAxis(d, IF AbsI(sp[2]) = BIG THEN NONE ELSE sp[2],
                                                 IF AbsI(sp[3]) = BIG THEN NONE ELSE sp[3], sp[4])
                      ELSE <<0, 1, t.shape[i]>>]
       IN ApplyPlan(t, plan)

\* Gathers applied one after another.  pending: sequence of <<axis(1-based original), index tensor>>.
\* static = original axes removed by constant scalar indices (Squeeze): the code renumbers for them.
\* dyn = axes eliminated by an earlier Gather with a 0-d index tensor, whose rank the converter does
\* not know: with deviation "conv_axis_shift" (shiftDyn) the axis is NOT renumbered for those.
RECURSIVE GatherSeq(_, _, _, _, _)
GatherSeq(t, pending, static, dyn, shiftDyn) ==
  IF pending = <<>> \/ IsErr(t) THEN t
  ELSE LET a == Head(pending)[1]
           ind == Head(pending)[2]
           adj == Cardinality({x \in static : x < a}) + (IF shiftDyn THEN 0 ELSE Cardinality({x \in dyn : x < a}))
           res == Gather(t, ind, (a - 1) - adj)
       IN GatherSeq(res, Tail(pending), static, IF Rank(ind) = 0 THEN dyn \cup {a} ELSE dyn, shiftDyn)

-----------------------------------------------------------------------------
(* converter.py:_translate_subscript_expr *)
ConvLower(t, ix, devs) ==
  LET n == Len(ix)
      slicedAx == {i \in 1..n : (ix[i].k = "sl" /\ ~IsFull(ix[i])) \/ ix[i].k = "dsl"}
      scalarAx == {i \in 1..n : ix[i].k = "int"}                 \* constant ints only
      nonscAx  == {i \in 1..n : ix[i].k \in {"ts", "tv"}}        \* any non-constant expression
      useSlice == slicedAx # {} \/ Cardinality(scalarAx) > 1
      SpecOf(i) == LET c == ix[i] IN
                   IF c.k = "int" THEN <<i, c.v, c.v + 1, 1>>    \* i:i+1:1, squeezed afterwards
                   ELSE IF c.k = "dsl" THEN <<i, c.v, c.v + 1, 1>>   \* bounds reshaped to [1] at run time, constant step
                   ELSE LET k == NpStep(c.st) IN
                        <<i, IF c.s # NONE THEN c.s ELSE IF k > 0 THEN 0 ELSE BIG,
                             IF c.e # NONE THEN c.e ELSE IF k > 0 THEN BIG ELSE -BIG, k>>
      IndOf(i) == IF ix[i].k = "tv" THEN Vec("i64", ix[i].vs) ELSE Scalar("i64", ix[i].v)
      shift == "conv_axis_shift" \in devs
  IN IF n > Rank(t) THEN ERR                                     \* Slice/Gather axis out of range
     ELSE IF slicedAx \cup scalarAx \cup nonscAx = {}            \* Identity (X[:, :]); the code passes
       THEN (IF "conv_identity_crash" \in devs THEN ERR ELSE t)   \* a name instead of a value: crash
     ELSE IF useSlice
       THEN LET axs == SortedSeq(slicedAx) \o SortedSeq(scalarAx)
                sliced == SliceBy(t, [j \in 1..Len(axs) |-> SpecOf(axs[j])], devs)
                squeezed == IF scalarAx = {} THEN sliced
                            ELSE Squeeze(sliced, [j \in 1..Cardinality(scalarAx) |-> SortedSeq(scalarAx)[j] - 1])
                pend == [j \in 1..Cardinality(nonscAx) |-> <<SortedSeq(nonscAx)[j], IndOf(SortedSeq(nonscAx)[j])>>]
            IN GatherSeq(squeezed, pend, scalarAx, {}, shift)
       ELSE LET order == SortedSeq(nonscAx) \o SortedSeq(scalarAx)  \* the single scalar goes last
                pend == [j \in 1..Len(order) |-> <<order[j], IndOf(order[j])>>]
            IN GatherSeq(t, pend, {}, {}, shift)

(* tensor.py:Tensor.__getitem__ *)
EagerLower(t, ix, devs) ==
  LET n == Len(ix)
      slicedAx == {i \in 1..n : (ix[i].k = "sl" /\ ~IsFull(ix[i])) \/ ix[i].k = "dsl"}
      scalarAx == {i \in 1..n : IsScalarish(ix[i])}              \* ints are promoted to 0-d tensors
      nonscAx  == {i \in 1..n : ix[i].k = "tv"}
      SpecOf(i) == LET c == ix[i] d == t.shape[i] IN
                   IF IsScalarish(c) \/ c.k = "dsl" THEN <<i, c.v, c.v + 1, 1>>   \* ("s.start or 0": a 0 tensor is falsy, same value)
                   ELSE IF c.st = NONE \/ c.st > 0
                        THEN <<i, IF c.s = NONE THEN 0 ELSE c.s, IF c.e # NONE THEN c.e ELSE d, NpStep(c.st)>>
                        ELSE <<i, IF c.s # NONE THEN c.s ELSE d - 1, IF c.e # NONE THEN c.e ELSE -(d + 1), c.st>>
      shift == "eager_axis_shift" \in devs
      pendTv == [j \in 1..Cardinality(nonscAx) |-> <<SortedSeq(nonscAx)[j], Vec("i64", ix[SortedSeq(nonscAx)[j]].vs)>>]
  IN IF n > Rank(t) THEN ERR
     ELSE IF slicedAx \cup scalarAx \cup nonscAx = {} THEN t
     ELSE IF slicedAx = {} /\ Cardinality(scalarAx) = 1
       THEN LET a == CHOOSE i \in scalarAx : TRUE
            IN GatherSeq(Gather(t, Scalar("i64", ix[a].v), a - 1), pendTv, IF shift THEN {} ELSE {a}, {}, FALSE)
     ELSE IF slicedAx \cup scalarAx # {}
       THEN LET axs == SortedSeq(slicedAx) \o SortedSeq(scalarAx)
                sliced == SliceBy(t, [j \in 1..Len(axs) |-> SpecOf(axs[j])], devs)
                squeezed == IF scalarAx = {} THEN sliced      \* np.squeeze: error unless the dim is 1
                            ELSE Squeeze(sliced, [j \in 1..Cardinality(scalarAx) |-> SortedSeq(scalarAx)[j] - 1])
            IN GatherSeq(squeezed, pendTv, IF shift THEN {} ELSE scalarAx, {}, FALSE)
     ELSE GatherSeq(t, pendTv, {}, {}, FALSE)

-----------------------------------------------------------------------------
X == Iota("i64", shape)
Why(L(_, _, _), t, ix) == {d \in Deviations : L(t, ix, Deviations \ {d}) # L(t, ix, Deviations)}

Init == /\ shape \in Shapes /\ idx = <<>> /\ stage = "build"
        /\ np = ERR /\ conv = ERR /\ eager = ERR /\ convIdeal = ERR /\ eagerIdeal = ERR
        /\ convWhy = {} /\ eagerWhy = {}
Extend == /\ stage = "build" /\ Len(idx) < Len(shape)
          /\ \E c \in CFull(shape[Len(idx) + 1]) \cup CRed(shape[Len(idx) + 1]) \cup CTensor(shape[Len(idx) + 1]) :
                /\ Admissible(Append(idx, c), shape)
                /\ idx' = Append(idx, c)
          /\ UNCHANGED <<shape, stage, np, conv, eager, convIdeal, eagerIdeal, convWhy, eagerWhy>>
Finish == /\ stage = "build" /\ Len(idx) >= 1
          /\ stage' = "done"
          /\ np' = NpIndex(X, idx)
          /\ conv' = ConvLower(X, idx, Deviations)
          /\ eager' = EagerLower(X, idx, Deviations)
          /\ convIdeal' = ConvLower(X, idx, {})
          /\ eagerIdeal' = EagerLower(X, idx, {})
          /\ convWhy' = Why(ConvLower, X, idx)
          /\ eagerWhy' = Why(EagerLower, X, idx)
          /\ UNCHANGED <<shape, idx>>
Next == Extend \/ Finish
Spec == Init /\ [][Next]_vars

\* The property, at design level: a lowering either yields NumPy's tensor or fails.
DesignOK == stage = "done" => /\ (convIdeal = np \/ IsErr(convIdeal))
                              /\ (eagerIdeal = np \/ IsErr(eagerIdeal))
\* Every departure of the implementation model from NumPy is explained by a named deviation.
DeviationsExplain == stage = "done" => /\ (conv = np \/ IsErr(conv) \/ convWhy # {})
                                       /\ (eager = np \/ IsErr(eager) \/ eagerWhy # {})
\* one JSON line per case for the conformance harness
Emit == stage = "done" => PrintT(<<"CASE", ToJson([shape |-> shape, idx |-> idx, np |-> np, conv |-> conv, eager |-> eager,
                                                    convWhy |-> convWhy, eagerWhy |-> eagerWhy])>>)
\* non-vacuity: the design is not "always error"
SomeSuccess == ~(stage = "done" /\ ~IsErr(np) /\ convIdeal = np /\ eagerIdeal = np /\ Len(idx) = Len(shape) /\ Len(shape) >= 2)

-----------------------------------------------------------------------------
(* configurations (cfg files substitute these for the constants) *)
R1(D) == {<<a>> : a \in D}
R2(D) == {<<a, b>> : a \in D, b \in D}
R3(D) == {<<a, b, c>> : a \in D, b \in D, c \in D}
ShapesQuick == R1(1..4) \cup R2({1, 2, 4}) \cup {<<3, 3>>} \cup {<<2, 1, 3>>, <<3, 2, 1>>, <<2, 2, 2>>}
ShapesThorough == R1(1..4) \cup R2(1..4) \cup R3({1, 3}) \cup {<<2, 2, 2>>, <<2, 1, 3>>, <<3, 2, 1>>, <<4, 1, 2>>, <<2, 3, 4>>}
ShapesFull2 == {<<2, 3>>, <<1, 4>>, <<4, 1>>, <<3, 3>>}      \* rank-2 shapes explored with one unrestricted component
FullQuick == {1}
FullThorough == {1}
Full2 == {2}
NoDevs == {}
=============================================================================
