SPECIFICATION Spec
CONSTANTS
  Deviations <- NoDevs
  Families <- AllFamilies
  Wide = FALSE
INVARIANT AtenWellFormed
INVARIANT DesignOK
INVARIANT ImplOK
CHECK_DEADLOCK FALSE
