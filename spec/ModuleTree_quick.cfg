SPECIFICATION Spec
CONSTANTS
  Deviations <- AllDevs
  MaxObjs = 3
  MinObjs = 1
  MaxKids = 2
  ExplicitNames = {"a"}
  NamedInContainers = TRUE
  Sharing = TRUE
  ListPolicies = {"iter", "rev"}
  SeqPolicies = {"call", "direct"}
  SubPolicy = TRUE
INVARIANT DesignOK
INVARIANT DesignPairs
INVARIANT DeviationsExplain
INVARIANT Report
CHECK_DEADLOCK FALSE
