SPECIFICATION Spec
CONSTANTS
  Deviations <- AllDevs
  MaxCalls = 3
  MaxDepth = 1
  Ops = {"Add"}
  LitMenu = {"i1"}
  InMenu = {1}
  Trips = {2}
  Kinds = {"loop", "scan", "call"}
  FnMenu = {4}
  CarryMenu = {"f2"}
  LitOnly = TRUE
  Sim = FALSE
INVARIANT DesignOK
INVARIANT DeviationsExplain
INVARIANT ScopeBalanced
INVARIANT Report
CHECK_DEADLOCK FALSE
