SPECIFICATION Spec
CONSTANTS
  Deviations <- RealDevs
  RuleSets <- QuickSets
  MaxDepth = 2
  Wide = FALSE
INVARIANT PropertyHolds
INVARIANT DeviationsExplain
INVARIANT DesignNames
INVARIANT Emit
CHECK_DEADLOCK FALSE
