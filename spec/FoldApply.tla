----------------------------- MODULE FoldApply -----------------------------
(* C03/C04/C09 direction B - what the steps of ONE run of FoldConstantsPass may do to a model,  *)
(* as an operational model of _constant_folding.py: FoldConstantsPass.call / visit_graph /       *)
(* process_node / replace_node / _clear_unused_initializers and the If evaluator (if_op).        *)
(*                                                                                              *)
(* The state is the whole model in token form, exactly as in RewriteApply.tla (every graph with *)
(* its ordered nodes, inputs, outputs, name-keyed initializers; every node with operator,       *)
(* inputs, outputs, subgraphs).  The hooks in _constant_folding.py (ONNXSCRIPT_VERIF=1) record   *)
(* a snapshot at the start, then one event per state change:                                    *)
(*   SubstInput     a node input is redirected to the value it is known to equal                *)
(*   Fold           the reference evaluator folded a node (a Replace follows)                   *)
(*   InlineIf       an If on a constant condition gives up its taken branch (a Replace follows)  *)
(*   Replace        replace_nodes_and_values: the node goes, replacement nodes come             *)
(*   Cleared        an initializer that lost its last use is dropped                            *)
(*   ReplaceOutput  a graph output is redirected to the value it equals                         *)
(* and a snapshot at the end.  Each event is EXECUTED on the abstract state under clauses that   *)
(* transcribe the side conditions the property needs (C04: no use of a value that is not        *)
(* visible, no fold over a graph input, an initializer that is also a graph input is never read  *)
(* as a constant nor dropped, interface kept; C03: only deterministic non-control-flow nodes     *)
(* with all-constant inputs are folded), and the final snapshot must EQUAL the computed state.   *)
EXTENDS RewriteApply

VARIABLES pend,    \* <<>> | <<"fold", node, asConstantNode>> | <<"if", node, moved nodes, outputs>>
          nsteps   \* number of state-changing events so far
fvars == <<gs, ns, napply, nfn, doms, rerr, pend, nsteps>>

FInit(m) == RInit(m) /\ pend = <<>> /\ nsteps = 0

\* ---- facts about the current abstract model ---------------------------------------------------
AllGraphInputs(G) == UNION {SeqSet(G[g].inputs) : g \in DOMAIN G}
AllGraphOutputs(G) == UNION {SeqSet(G[g].outputs) : g \in DOMAIN G}
AllInitTokens(G) == UNION {{p[2] : p \in G[g].inits} : g \in DOMAIN G}
ConstantOutputs(N) == UNION {SeqSet(N[n].outs) : n \in {n \in DOMAIN N : N[n].op = "Constant" /\ N[n].domain = ""}}
\* a value the folder may read as a constant: an initializer or the output of a Constant node ...
IsConst(G, N, v) == v \in AllInitTokens(G) \/ v \in ConstantOutputs(N)
\* ... that the caller cannot override
Overridable(G, v) == v \in AllInitTokens(G) /\ v \in AllGraphInputs(G)
GraphOfNode(G, n) == IF \E g \in DOMAIN G : n \in SeqSet(G[g].order)
                     THEN CHOOSE g \in DOMAIN G : n \in SeqSet(G[g].order) ELSE ""
ControlFlow == {"If", "Loop", "Scan", "SequenceMap"}
NonDeterministic == {"RandomUniform", "RandomNormal", "RandomUniformLike", "RandomNormalLike", "Multinomial"}

\* ---- SubstInput ------------------------------------------------------------------------------
SubstClauses(n, idx, old, new) ==
  LET c == GraphOfNode(gs, n)
      ok == n \in DOMAIN ns /\ c # "" /\ idx + 1 \in 1..Len(ns[n].ins)
  IN <<<<"subst_node_is_in_a_graph", n \in DOMAIN ns /\ c # "">>,
       <<"subst_index_in_range", ok>>,
       <<"subst_old_is_the_current_input", ok => ns[n].ins[idx + 1] = old>>,
       <<"subst_new_value_visible_at_the_node", ok => new \in VisAt(gs, ns, c, IndexOf(gs[c].order, n))>>,
       <<"subst_no_pending_replacement", pend = <<>> >>>>
DoSubst(n, idx, new) == /\ ns' = [ns EXCEPT ![n].ins[idx + 1] = new]
                        /\ nsteps' = nsteps + 1 /\ UNCHANGED <<gs, napply, nfn, doms, pend>>

\* ---- Fold (reference evaluation of a node; the Replace that follows removes it) ------------------
FoldClauses(n, asConst) ==
  LET c == GraphOfNode(gs, n)
      ok == n \in DOMAIN ns /\ c # ""
      ins == IF ok THEN {v \in SeqSet(ns[n].ins) : v # ""} ELSE {}
  IN <<<<"fold_node_is_in_a_graph", ok>>,
       <<"fold_no_pending_replacement", pend = <<>> >>,
       <<"fold_not_a_constant_node", ok => ~(ns[n].op = "Constant" /\ ns[n].domain = "")>>,
       <<"fold_not_control_flow", ok => ~(ns[n].domain = "" /\ ns[n].op \in ControlFlow)>>,
       <<"fold_not_non_deterministic", ok => ~(ns[n].domain = "" /\ ns[n].op \in NonDeterministic)>>,
       <<"fold_no_input_is_a_graph_input", ins \cap AllGraphInputs(gs) = {}>>,
       <<"fold_every_input_is_a_constant", \A v \in ins : IsConst(gs, ns, v)>>,
       <<"fold_every_input_visible", ok => \A v \in ins : v \in VisAt(gs, ns, c, IndexOf(gs[c].order, n))>>,
       <<"fold_single_output", ok => Len(ns[n].outs) = 1>>,
       <<"fold_in_function_makes_a_constant_node", ok => (asConst <=> gs[c].kind = "function")>>>>
DoFold(n, asConst) == /\ pend' = <<"fold", n, asConst>> /\ UNCHANGED <<gs, ns, napply, nfn, doms, nsteps>>

\* ---- InlineIf (if_op: the taken branch is emptied; its nodes are handed to the Replace that follows) --
InlineClauses(n, branch, cond, moved, outs, movedInits, toGraph) ==
  LET c == GraphOfNode(gs, n)
      ok == n \in DOMAIN ns /\ c # "" /\ branch \in DOMAIN gs
  IN <<<<"inline_node_is_in_a_graph", n \in DOMAIN ns /\ c # "">>,
       <<"inline_no_pending_replacement", pend = <<>> >>,
       <<"inline_node_is_an_if", ok => ns[n].op = "If" /\ ns[n].domain = "">>,
       <<"inline_condition_is_the_first_input", ok => Len(ns[n].ins) >= 1 /\ ns[n].ins[1] = cond>>,
       <<"inline_condition_is_a_constant", IsConst(gs, ns, cond)>>,
       <<"inline_condition_is_not_an_overridable_input", ~Overridable(gs, cond)>>,
       <<"inline_branch_is_a_subgraph_of_the_node", ok => branch \in SeqSet(ns[n].subs)>>,
       <<"inline_moves_every_branch_node_in_order", ok => moved = gs[branch].order>>,
       <<"inline_outputs_are_the_branch_outputs", ok => outs = gs[branch].outputs>>,
       <<"inline_arity", ok => Len(outs) = Len(ns[n].outs)>>,
       <<"inline_moves_every_branch_initializer", ok => {p[2] : p \in movedInits} = {p[2] : p \in gs[branch].inits}>>,
       <<"inline_initializers_go_to_the_graph_of_the_node", ok => toGraph = c>>,
       \* moving must not overwrite (lose) an initializer that exists under that name
       <<"inline_moved_initializer_names_are_free",
         ok /\ toGraph \in DOMAIN gs =>
            /\ \A p \in movedInits : \A q \in gs[toGraph].inits : q[1] # p[1]
            /\ \A p, q \in movedInits : p[1] = q[1] => p[2] = q[2]>>>>
DoInline(n, branch, moved, outs, movedInits, toGraph) ==
  /\ gs' = [g \in DOMAIN gs |->
              IF g = branch THEN [gs[g] EXCEPT !.order = <<>>, !.outputs = <<>>, !.inits = {}]
              ELSE IF g = toGraph THEN [gs[g] EXCEPT !.inits = @ \cup movedInits]
              ELSE gs[g]]
  /\ pend' = <<"if", n, moved, outs>>
  /\ UNCHANGED <<ns, napply, nfn, doms, nsteps>>

\* ---- Replace ---------------------------------------------------------------------------------
\* inserted nodes are fresh (built by an evaluator) unless they are the nodes of an inlined branch
ReplaceClauses(c, n, inserted, olds, news, newInits) ==
  LET ids == InsIds(inserted)
      moved == IF pend # <<>> /\ pend[1] = "if" THEN SeqSet(pend[3]) ELSE {}
      wf == c \in DOMAIN gs /\ n \in DOMAIN ns /\ n \in SeqSet(gs[c].order) /\ Len(olds) = Len(news)
            /\ (SeqSet(ids) \ moved) \cap DOMAIN ns = {}
      A == AfterApply(c, n, {n}, inserted, olds, news, {})
      vis(i) == VisAt(A.G, A.N, c, IndexOf(A.G[c].order, inserted[i].id))
  IN <<<<"replace_container_known", c \in DOMAIN gs>>,
       <<"replace_node_in_container", c \in DOMAIN gs /\ n \in DOMAIN ns /\ n \in SeqSet(gs[c].order)>>,
       <<"replace_arity", Len(olds) = Len(news)>>,
       <<"replace_old_outputs_are_the_outputs_of_the_node", n \in DOMAIN ns => olds = ns[n].outs>>,
       <<"replace_inserted_nodes_fresh_or_inlined", (SeqSet(ids) \ moved) \cap DOMAIN ns = {} /\ NoDup(ids)>>,
       <<"replace_after_fold_is_for_the_folded_node", (pend # <<>> /\ pend[1] = "fold") => pend[2] = n>>,
       <<"replace_after_fold_inserts_only_a_constant",
         (pend # <<>> /\ pend[1] = "fold") =>
            IF pend[3] THEN Len(inserted) = 1 /\ inserted[1].op = "Constant" /\ inserted[1].ins = <<>> /\ news = inserted[1].outs /\ newInits = {}
            ELSE inserted = <<>> /\ Len(news) = 1 /\ {p[2] : p \in newInits} = SeqSet(news)>>,
       <<"replace_after_inline_is_for_the_if_node", (pend # <<>> /\ pend[1] = "if") => pend[2] = n>>,
       <<"replace_after_inline_inserts_the_branch", (pend # <<>> /\ pend[1] = "if") => ids = pend[3] /\ news = pend[4]>>,
       \* (a branch may return one of its own initializers: it was moved to the container by the InlineIf step)
       <<"replace_after_inline_registers_no_new_initializer",
         (pend # <<>> /\ pend[1] = "if" /\ c \in DOMAIN gs) => {p[2] : p \in newInits} \subseteq {p[2] : p \in gs[c].inits}>>,
       \* the new initializer was registered in the graph of the node under a name that was free
       <<"replace_new_initializer_registered_in_container",
         c \in DOMAIN gs => \A p \in newInits : \A q \in gs[c].inits : q[1] = p[1] => q[2] = p[2]>>,
       <<"replace_removed_values_unused",
         wf => \A o \in SeqSet(ns[n].outs) : o = "" \/ o \notin UsedValues(A.G, A.N)>>,
       <<"replace_replacement_reads_visible_values",
         wf => \A i \in 1..Len(inserted) : \A j \in 1..Len(A.N[inserted[i].id].ins) :
                  A.N[inserted[i].id].ins[j] = "" \/ A.N[inserted[i].id].ins[j] \in vis(i) \cup {p[2] : p \in newInits}>>,
       <<"replace_new_outputs_defined",
         wf => \A j \in 1..Len(news) : news[j] \in VisAt(A.G, A.N, c, Len(A.G[c].order) + 1) \cup {p[2] : p \in newInits}>>>>
DoReplace(c, n, inserted, olds, news, newInits) ==
  LET A == AfterApply(c, n, {n}, inserted, olds, news, newInits)
      \* a new output takes the NAME of the output it replaces; an initializer is re-keyed under its new name
      G2 == [A.G EXCEPT ![c].inits = {p \in @ : \A q \in newInits : q[2] = p[2] => q[1] = p[1]}]
  IN /\ gs' = G2 /\ ns' = A.N /\ pend' = <<>> /\ nsteps' = nsteps + 1 /\ napply' = napply + 1
     /\ doms' = doms \cup {inserted[i].domain : i \in 1..Len(inserted)} /\ UNCHANGED nfn

\* ---- Cleared ---------------------------------------------------------------------------------
ClearedClauses(v, g, isInput) ==
  <<<<"cleared_graph_known", g \in DOMAIN gs>>,
    <<"cleared_no_pending_replacement", pend = <<>> >>,
    <<"cleared_value_is_an_initializer_of_the_graph", g \in DOMAIN gs => \E p \in gs[g].inits : p[2] = v>>,
    <<"cleared_value_is_unused", v \notin UsedValues(gs, ns)>>,
    <<"cleared_input_flag_is_truthful", isInput <=> v \in AllGraphInputs(gs)>>,
    \* C04: a default the caller may override must stay (dropping it makes the input mandatory)
    <<"cleared_initializer_is_not_an_overridable_input", v \notin AllGraphInputs(gs)>>>>
DoCleared(v, g) == /\ gs' = [gs EXCEPT ![g].inits = {p \in @ : p[2] # v}]
                   /\ nsteps' = nsteps + 1 /\ UNCHANGED <<ns, napply, nfn, doms, pend>>

\* ---- ReplaceOutput ---------------------------------------------------------------------------
ProducedIn(G, N, g) == UNION {SeqSet(N[G[g].order[k]].outs) : k \in 1..Len(G[g].order)}
OutputClauses(g, idx, old, new) ==
  LET ok == g \in DOMAIN gs /\ idx + 1 \in 1..Len(gs[g].outputs)
  IN <<<<"output_graph_known", g \in DOMAIN gs>>,
       <<"output_no_pending_replacement", pend = <<>> >>,
       <<"output_index_in_range", ok>>,
       <<"output_old_is_the_current_output", ok => gs[g].outputs[idx + 1] = old>>,
       <<"output_new_value_is_produced_by_a_node_of_this_graph", ok => new \in ProducedIn(gs, ns, g)>>,
       <<"output_new_value_is_not_a_graph_input", new \notin AllGraphInputs(gs)>>,
       \* the new value takes the output's name: it must not be an output already
       <<"output_new_value_is_not_already_an_output", new \notin AllGraphOutputs(gs)>>>>
DoOutput(g, idx, new) == /\ gs' = [gs EXCEPT ![g].outputs[idx + 1] = new]
                         /\ nsteps' = nsteps + 1 /\ UNCHANGED <<ns, napply, nfn, doms, pend>>

\* ---- the property speaks about valid models: a recorded run on a model that is not well-formed to begin with is not judged
StartOK(m) == Topological(GMap(m), NMap(m)) /\ OutputsDefined(GMap(m), NMap(m))

\* ---- End -------------------------------------------------------------------------------------
\* graphs the final snapshot no longer reaches: only bodies of nodes that were removed
Reachable(m) == DOMAIN GMap(m)
FEndClauses(modified, m0, m) ==
  LET G == GMap(m) N == NMap(m)
      main0 == GMap(m0)[m0.main]
      over0 == {p \in main0.inits : p[2] \in SeqSet(main0.inputs)}
  IN <<<<"end_no_pending_replacement", pend = <<>> >>,
       <<"end_modified_flag_is_truthful", modified <=> nsteps > 0>>,
       <<"end_no_unknown_graph", \A g \in DOMAIN G : g \in DOMAIN gs>>,
       <<"end_dropped_graphs_belong_to_removed_nodes",
         \A g \in DOMAIN gs \ DOMAIN G : ~\E n \in DOMAIN ns : g \in SeqSet(ns[n].subs) /\ GraphOfNode(gs, n) \in DOMAIN G>>,
       <<"end_graph_interfaces_are_what_the_steps_produce",
         \A g \in DOMAIN G : g \in DOMAIN gs => gs[g].inputs = G[g].inputs /\ gs[g].outputs = G[g].outputs>>,
       <<"end_node_lists_are_what_the_steps_produce", \A g \in DOMAIN G : g \in DOMAIN gs => gs[g].order = G[g].order>>,
       \* (NameFixPass may rename initializers: compared by token)
       <<"end_initializers_are_what_the_steps_produce",
         \A g \in DOMAIN G : g \in DOMAIN gs => {p[2] : p \in gs[g].inits} = {p[2] : p \in G[g].inits}>>,
       <<"end_nodes_wired_as_the_steps_produce",
         \A n \in DOMAIN N : n \in DOMAIN ns /\ SameNode(ns[n], N[n])>>,
       <<"end_every_graph_topologically_ordered", Topological(G, N)>>,
       <<"end_graph_outputs_defined", OutputsDefined(G, N)>>,
       <<"end_main_inputs_unchanged", m.main = m0.main /\ G[m.main].inputs = main0.inputs>>,
       <<"end_main_output_count_unchanged", Len(G[m.main].outputs) = Len(main0.outputs)>>,
       <<"end_overridable_defaults_kept", \A p \in over0 : \E q \in G[m.main].inits : q[2] = p[2]>>,
       <<"end_replacement_domains_imported", doms \subseteq Imported(m)>>>>
=============================================================================
