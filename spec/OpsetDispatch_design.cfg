SPECIFICATION Spec
CONSTANTS
  Deviations <- NoDevs
  MaxExtra = 2
  AttrModes <- ModesQuick
  VarNone = FALSE
INVARIANT Mirror
INVARIANT DynAgrees
INVARIANT TrimInv
CHECK_DEADLOCK FALSE
