SPECIFICATION Spec
CONSTANTS
  Deviations <- NoDevs
  MaxExtra = 2
  AttrModes <- ModesQuick
  VarNone = FALSE
  ReqVersions <- ReqQuick
INVARIANT Mirror
INVARIANT DynAgrees
INVARIANT TrimInv
INVARIANT TransMirror
CHECK_DEADLOCK FALSE
