\* implementation model on the recorded catalogue: the rule catalogue (every model of the stateful shipped rule objects) in all orders of three
SPECIFICATION Spec
CONSTANTS
  Deviations <- RealDevs
  MaxLen = 3
  Alphabet <- RuleOps
  UseRecorded = TRUE
  EmitLen = 3
INVARIANT Emit
CHECK_DEADLOCK FALSE
