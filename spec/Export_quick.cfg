SPECIFICATION Spec
CONSTANTS
  Deviations <- AllDevs
  MaxItems = 2
  MaxCF = 1
  Thorough = FALSE
INVARIANT DesignOK
INVARIANT DeviationsExplain
INVARIANT StepwiseAgrees
INVARIANT EmitCases
CHECK_DEADLOCK FALSE
