SPECIFICATION Spec
CONSTANTS
  KwShapes = "all"
  Deviations <- NoDevs
INVARIANT BindsCorrectly
INVARIANT MachineSane
CHECK_DEADLOCK FALSE
