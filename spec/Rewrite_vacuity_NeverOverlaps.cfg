SPECIFICATION Spec
CONSTANTS
  Deviations <- RealDevs
  RuleSets <- VacuitySets
  MaxDepth = 1
  Wide = FALSE
INVARIANT NeverOverlaps
CHECK_DEADLOCK FALSE
