SPECIFICATION Spec
CONSTANTS
  Deviations <- RealDevs
  RuleSets <- VacuitySets
  MaxDepth = 2
  Wide = FALSE
INVARIANT NeverOverlaps
CHECK_DEADLOCK FALSE
