SPECIFICATION Spec
CONSTANTS
  Deviations <- NoDevs
  Menu <- MenuWitness
  VarMenu <- NoItems
  VarVersions <- AllVersions
  HistMenu <- HistAll
  HistVersions <- WitnessVersions
  MultiMenu <- TripleQuick
  TripleMenu <- TripleQuick
  MaxItems = 1
  Sources <- WitnessVersions
  Targets <- WitnessVersions
  Emitting = FALSE
INVARIANT NoStampedConversion
CHECK_DEADLOCK FALSE
