SPECIFICATION Spec
CONSTANTS
  Deviations <- NoDevs
  Fams <- FamsAll
  Modes <- ModesAll
  Big = TRUE
INVARIANT DesignOK
INVARIANT ProtocolOK
CHECK_DEADLOCK FALSE
