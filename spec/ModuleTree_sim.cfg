SPECIFICATION Spec
CONSTANTS
  Deviations <- AllDevs
  MaxObjs = 6
  MinObjs = 5
  MaxKids = 2
  ExplicitNames = {"a"}
  NamedInContainers = TRUE
  Sharing = TRUE
  ListPolicies = {"iter", "rev", "slices", "index"}
  SeqPolicies = {"call", "direct"}
  SubPolicy = TRUE
INVARIANT DesignOK
INVARIANT DesignPairs
INVARIANT DeviationsExplain
INVARIANT Report
CHECK_DEADLOCK FALSE
