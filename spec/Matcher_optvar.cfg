SPECIFICATION Spec
CONSTANTS
  Deviations <- RealDevs
  MaxPNodes = 2
  Features <- OptVar
  OpSet <- UCOps
  VarVals <- Vals3
INVARIANT DesignOK
INVARIANT DeviationsExplain
INVARIANT Emit
CHECK_DEADLOCK FALSE
