------------------------------ MODULE AtenBinding ------------------------------
(* C16: every registered torch_lib overload binds correctly to its ATen schema.                  *)
(*                                                                                              *)
(* Reg is the REAL registry: one record per (qualified name, function) pair returned by          *)
(* get_torchlib_ops(), joined by the harness with the ATen schema of the installed PyTorch:      *)
(*   qname, fname, traced, complex, resolved ("op" | "py" | "skip" | "missing"),                 *)
(*   args   : schema arguments in order  [name, kind, opt, kwonly, hasdef]                       *)
(*   params : the function's parameters as its op_signature lists them                          *)
(*            (onnxscript/ir/_schemas.op_signature_from_function)                                *)
(*            [name, input, atype, required, hasdef, variadic]                                   *)
(*   pyparams : the function's parameters as inspect.signature lists them [name, pykind, pydef]  *)
(* The exporter binds scripted functions positionally against op_signature and calls trace-only  *)
(* functions as python functions; both lists must therefore be the same list (SignatureAgrees).  *)
(* A behaviour picks one entry, judges its static clauses (CheckStatic), picks one call shape    *)
(* (ChooseShape: how many of the optional trailing positional schema arguments the FX node       *)
(* carries, which keyword-only ones) and then runs the binding the exporter performs for that    *)
(* kind of function, one named action per branch of the code:                                    *)
(*   scripted (OnnxFunction.__call__ -> evaluator.eval_function -> exporter                      *)
(*             _building._construct_named_inputs_and_attrs): actions S_*                         *)
(*   trace-only (TracedOnnxFunction.__call__ = self.func(args..., kwargs...), i.e. the CPython      *)
(*             call convention in the order CPython applies it): actions P_*                     *)
(* The terminal action stores the verdict (set of failed clauses) in `fails`.                    *)
EXTENDS TorchNames, TLC, Json, IOUtils

CONSTANTS KwShapes,      \* "ends": keyword-only args none / all / each one alone / the droppable ones / the others;
                         \* "all": every subset
          Deviations     \* ids of named deviations the implementation is known to have

Reg == JsonDeserialize(IOEnv.REG_FILE)
\* outcomes OBSERVED on the real objects that the harness wants judged by the clauses below
\* (a JSON array, empty in ordinary runs): [eid, npos, kws, binds, extra, err]
Obs == JsonDeserialize(IOEnv.OBS_FILE)

VARIABLES eid,      \* index into Reg
          oid,      \* index into Obs when the behaviour judges an observed outcome, else 0
          pc,       \* "static" | "shape" | "s_loop" | "p_pos" | "p_kw" | "p_fill" | "done" | "raised" | "unjudged"
                    \* | "observed" | "judged"
          npos,     \* number of positional arguments of the call
          kwq,      \* keyword arguments of the call still to be looked at (names, call order)
          kws,      \* all keyword arguments of the call (names, call order)
          i,        \* index of the function parameter being processed
          stack,    \* positional arguments not consumed yet (indices into Args, next first)
          binds,    \* sequence of [param, src, via]: src = schema argument name | "<none>" | "<default>" | "<all>"
          extra,    \* arguments collected by var-positional / var-keyword parameter of a python function
          err,      \* [kind, name] when pc = "raised", else [kind |-> "", name |-> ""]
          fails     \* verdict: set of [tag, arg, param, dev]
vars == <<eid, oid, pc, npos, kwq, kws, i, stack, binds, extra, err, fails>>

E == Reg[eid]
Args == E.args
Params == E.params
NP == Len(Params)
PyParams == E.pyparams
NPy == Len(PyParams)
\* op_signature and python signature list the same parameters in the same order
SignatureAgrees == NP = NPy /\ \A k \in 1..NP : Params[k].name = PyParams[k].name
FirstDisagreement == LET m == IF NP < NPy THEN NP ELSE NPy
                         D == {k \in 1..m : Params[k].name # PyParams[k].name}
                     IN IF D # {} THEN Params[CHOOSE k \in D : \A j \in D : k <= j].name
                        ELSE IF NP > m THEN Params[m + 1].name ELSE IF NPy > m THEN PyParams[m + 1].name ELSE ""
PyIdx(n) == {k \in 1..NPy : PyParams[k].name = n}
PosIdx == {k \in 1..Len(Args) : ~Args[k].kwonly}
KwIdx == {k \in 1..Len(Args) : Args[k].kwonly}
NPosTotal == Cardinality(PosIdx)
\* positional schema arguments precede keyword-only ones in every ATen schema (checked: SchemaShapeOK)
MinPos == LET req == {k \in PosIdx : ~Args[k].hasdef} IN IF req = {} THEN 0 ELSE CHOOSE k \in req : \A j \in req : j <= k
KwNames == {Args[k].name : k \in KwIdx}
RequiredKw == {Args[k].name : k \in {j \in KwIdx : ~Args[j].hasdef}}
ArgByName(n) == Args[CHOOSE k \in 1..Len(Args) : Args[k].name = n]
ParamIdx(n) == {k \in 1..NP : Params[k].name = n}
NoErr == [kind |-> "", name |-> ""]

AllDevs == {"getitem_registered_as_aten", "qdq_per_channel_phantom_overloads", "qdq_tensor_qparams_as_attrs",
            "mean_dtype_ignored", "schema_arg_without_parameter", "schema_default_required_in_function",
            "traced_droppable_kw_rejected", "repeat_interleave_tensor_misregistered", "roi_pool_python_api_signature"}
NoDevs == {}
Droppable == {"generator", "layout", "device", "pin_memory", "memory_format", "requires_grad"}
\* not in the property's list, but documented by PyTorch as affecting only when the copy is scheduled, never
\* its value: a silent drop of it is not judged (no-false-alarm rule); a TypeError because of it still is
Harmless == {"non_blocking"}
TensorKinds == {"tensor", "tensors"}

-----------------------------------------------------------------------------
(* Static clauses *)
Multiplicity == Cardinality({j \in 1..Len(Reg) : Reg[j].qname = E.qname /\ Reg[j].complex = E.complex})

\* named deviations: the guard under which a failed clause is attributed to a known defect
DeviationOf(tag, arg) ==
  LET q == E.qname IN
  CASE tag = "overload_absent" /\ q = "aten::getitem" -> "getitem_registered_as_aten"
    [] tag = "overload_absent" /\ q \in {"quantized_decomposed::quantize_per_channel.tensor",
           "quantized_decomposed::quantize_per_channel.tensor2", "quantized_decomposed::dequantize_per_channel.tensor",
           "quantized_decomposed::dequantize_per_channel.tensor2"} -> "qdq_per_channel_phantom_overloads"
    [] tag = "tensor_to_attr" /\ q \in {"quantized_decomposed::quantize_per_tensor.tensor",
           "quantized_decomposed::quantize_per_tensor.tensor2", "quantized_decomposed::dequantize_per_tensor.tensor",
           "quantized_decomposed::dequantize_per_tensor.tensor2"} -> "qdq_tensor_qparams_as_attrs"
    [] tag \in {"dropped", "rejected"} /\ q = "aten::mean" /\ arg = "dtype" -> "mean_dtype_ignored"
    [] q = "aten::repeat_interleave.Tensor" /\ <<tag, arg>> \in {<<"rejected", "output_size">>, <<"crossed_names", "repeats">>}
         -> "repeat_interleave_tensor_misregistered"
    [] q = "torchvision::roi_pool" /\ <<tag, arg>> \in {<<"not_accepted", "spatial_scale">>, <<"rejected", "pooled_width">>}
         -> "roi_pool_python_api_signature"
    [] tag = "rejected" /\ q = "aten::stft" /\ arg = "align_to_window" -> "schema_arg_without_parameter"
    [] tag = "required_unbound" /\ <<q, arg>> \in {<<"aten::amax", "dim">>, <<"aten::amin", "dim">>,
           <<"aten::normal.Tensor_float", "std">>, <<"prims::var", "correction">>, <<"aten::tensor.bool", "dtype">>,
           <<"aten::tensor.float", "dtype">>, <<"aten::tensor.int", "dtype">>} -> "schema_default_required_in_function"
    [] tag = "rejected_droppable" /\ E.traced -> "traced_droppable_kw_rejected"
    [] OTHER -> ""
Fail(tag, arg, param) == LET d == DeviationOf(tag, IF arg = "" THEN param ELSE arg)
                         IN [tag |-> tag, arg |-> arg, param |-> param, dev |-> IF d \in Deviations THEN d ELSE ""]

StaticFails ==
  (IF WellFormed(E.qname) THEN {} ELSE {Fail("ill_formed_name", "", "")})
  \cup (IF WellFormed(E.qname) /\ ~NameOK(E.qname) THEN {Fail("default_suffix", "", "")} ELSE {})
  \cup (IF Multiplicity = 1 THEN {} ELSE {Fail("not_unique", "", "")})
  \cup (IF E.resolved = "missing" THEN {Fail("overload_absent", "", "")} ELSE {})
  \cup (IF SignatureAgrees THEN {} ELSE {Fail("signature_order", "", FirstDisagreement)})

-----------------------------------------------------------------------------
(* The clauses judged on the outcome of one binding *)
Accepts(p, kind) ==
  IF p.input THEN TRUE        \* python numbers / lists become Constant nodes, tensors are inputs
  ELSE IF kind \in TensorKinds THEN FALSE
  ELSE CASE p.atype = "INT" -> kind \in {"int", "bool", "dtype", "scalar", "opaque"} \/ (E.traced /\ kind = "float")
         [] p.atype = "FLOAT" -> kind \in {"float", "int", "scalar", "bool", "opaque"}
         [] p.atype = "STRING" -> kind \in {"str", "opaque"}
         [] p.atype = "INTS" -> kind \in {"ints", "bools", "opaque"}
         [] p.atype = "FLOATS" -> kind \in {"floats", "ints", "opaque"}
         [] p.atype = "STRINGS" -> kind \in {"strs", "opaque"}
         [] OTHER -> kind = "opaque"

GivenNames(n, ks) == {Args[k].name : k \in {j \in PosIdx : j <= n}} \cup {ks[k] : k \in 1..Len(ks)}
BoundNames(b, x) == {b[k].src : k \in 1..Len(b)} \cup {x[k] : k \in 1..Len(x)}
     \cup (IF \E k \in 1..Len(b) : b[k].src = "<all>" THEN {Args[k].name : k \in PosIdx} ELSE {})

BindFails(b) ==
  UNION {LET r == b[k] IN
         IF r.src \in {"<none>", "<default>", "<all>"} \/ ParamIdx(r.param) = {} THEN {}   \* (unknown to op_signature: signature_order)
         ELSE LET a == ArgByName(r.src)
                  p == Params[CHOOSE j \in 1..NP : Params[j].name = r.param]
              IN (IF a.kind \in TensorKinds /\ ~p.input THEN {Fail("tensor_to_attr", a.name, p.name)}
                  ELSE IF ~Accepts(p, a.kind) THEN {Fail("not_accepted", a.name, p.name)}
                  ELSE {})
                 \* parameters in another order than the schema: the argument goes by position to one
                 \* parameter although a DIFFERENT parameter carries its name
                 \cup (IF r.via = "pos" /\ p.name # a.name /\ ParamIdx(a.name) # {}
                       THEN {Fail("crossed_names", a.name, p.name)} ELSE {})
         : k \in 1..Len(b)}

\* an argument that reaches no parameter
Lost(tag, n) == IF n \in Droppable THEN (IF tag = "dropped" THEN {} ELSE {Fail("rejected_droppable", n, "")})
                ELSE IF n \in Harmless /\ tag = "dropped" THEN {}
                ELSE {Fail(tag, n, "")}

\* "required" is what the function's op_signature (onnxscript/ir/_schemas.op_signature_from_function)
\* says, for inputs and attributes alike: a parameter it declares required must receive an argument in
\* every call shape - being filled from the python default (trace-only call) or with None does not count
ParamByName(n) == Params[CHOOSE j \in 1..NP : Params[j].name = n]
SignatureFails(b) == {Fail("required_unbound", "", b[k].param) :
                        k \in {j \in 1..Len(b) : /\ b[j].src \in {"<default>", "<none>"} /\ ParamIdx(b[j].param) # {}
                                                /\ ParamByName(b[j].param).required}}
DoneFails(b, x, n, ks) == BindFails(b) \cup SignatureFails(b)
                          \cup UNION {Lost("dropped", a) : a \in GivenNames(n, ks) \ BoundNames(b, x)}
\* (what a raising call had bound before it raised is not observable on the real objects and is not judged)
RaiseFails(b, e) ==
  CASE e.kind = "missing" -> {Fail("required_unbound", "", e.name)}
    [] e.kind \in {"unexpected_kw", "too_many"} -> Lost("rejected", e.name)
    [] e.kind = "multiple" -> {Fail("multiple", e.name, e.name)}
    [] OTHER -> {Fail("raised_other", e.name, "")}

-----------------------------------------------------------------------------
Init == \/ /\ eid \in 1..Len(Reg) /\ oid = 0 /\ pc = "static" /\ npos = 0 /\ kwq = <<>> /\ kws = <<>> /\ i = 1
           /\ stack = <<>> /\ binds = <<>> /\ extra = <<>> /\ err = NoErr /\ fails = {}
        \/ /\ oid \in 1..Len(Obs) /\ eid = Obs[oid].eid /\ pc = "observed" /\ npos = Obs[oid].npos
           /\ kwq = <<>> /\ kws = Obs[oid].kws /\ i = 1 /\ stack = <<>> /\ binds = Obs[oid].binds
           /\ extra = Obs[oid].extra /\ err = Obs[oid].err /\ fails = {}

\* direction B: the clauses applied to what the real objects did
JudgeObserved == /\ pc = "observed"
                 /\ pc' = "judged"
                 /\ fails' = IF err = NoErr THEN DoneFails(binds, extra, npos, kws) ELSE RaiseFails(binds, err)
                 /\ UNCHANGED <<eid, oid, npos, kwq, kws, i, stack, binds, extra, err>>

CheckStatic == /\ pc = "static"
               /\ fails' = StaticFails
               /\ pc' = IF E.resolved \in {"op", "py"} THEN "shape" ELSE "unjudged"
               /\ UNCHANGED <<eid, oid, npos, kwq, kws, i, stack, binds, extra, err>>

KwChoices == IF KwShapes = "all" THEN SUBSET KwNames
             ELSE {{}, KwNames} \cup {{n} : n \in KwNames} \cup {Droppable \cap KwNames, KwNames \ Droppable}
KwSeq(S) == LET idx == SelectSeq([k \in 1..Len(Args) |-> k], LAMBDA k : Args[k].kwonly /\ Args[k].name \in S)
            IN [k \in 1..Len(idx) |-> Args[idx[k]].name]
ChooseShape == /\ pc = "shape"
               /\ \E n \in MinPos..NPosTotal, S \in KwChoices :
                    /\ RequiredKw \subseteq S
                    /\ npos' = n
                    /\ stack' = [k \in 1..n |-> k]
                    /\ kws' = KwSeq(S) /\ kwq' = KwSeq(S)
               /\ pc' = IF E.traced THEN "p_pos" ELSE "s_loop"
               /\ fails' = {}
               /\ UNCHANGED <<eid, oid, i, binds, extra, err>>

Bind(p, src, via) == binds' = Append(binds, [param |-> p.name, src |-> src, via |-> via])
InKw(n) == \E k \in 1..Len(kws) : kws[k] = n
Raise(kind, name) == /\ err' = [kind |-> kind, name |-> name] /\ pc' = "raised"
                     /\ fails' = RaiseFails(binds, [kind |-> kind, name |-> name])
                     /\ UNCHANGED <<eid, oid, npos, kwq, kws, i, stack, binds, extra>>

\* ---- scripted: _construct_named_inputs_and_attrs ------------------------------------------
SP == Params[i]
SLoop == pc = "s_loop" /\ i <= NP
SStep == /\ i' = i + 1 /\ UNCHANGED <<eid, oid, pc, npos, kwq, kws, extra, err, fails>>

S_BindInputPositional == /\ SLoop /\ SP.input /\ stack # <<>> /\ ~SP.variadic
                         /\ Bind(SP, Args[Head(stack)].name, "pos") /\ stack' = Tail(stack) /\ SStep
S_BindInputVariadic == /\ SLoop /\ SP.input /\ stack # <<>> /\ SP.variadic
                       /\ Bind(SP, "<all>", "pos") /\ stack' = <<>> /\ SStep     \* tuple(args): ALL args
S_BindInputKeyword == /\ SLoop /\ SP.input /\ stack = <<>> /\ InKw(SP.name)
                      /\ Bind(SP, SP.name, "kw") /\ UNCHANGED stack /\ SStep
S_RaiseMissingInput == /\ SLoop /\ SP.input /\ stack = <<>> /\ ~InKw(SP.name) /\ SP.required
                       /\ Raise("missing", SP.name)
S_FillNone == /\ SLoop /\ SP.input /\ stack = <<>> /\ ~InKw(SP.name) /\ ~SP.required
              /\ Bind(SP, "<none>", "fill") /\ UNCHANGED stack /\ SStep
S_BindAttrPositional == /\ SLoop /\ ~SP.input /\ stack # <<>>
                        /\ Bind(SP, Args[Head(stack)].name, "pos") /\ stack' = Tail(stack) /\ SStep
S_BindAttrKeyword == /\ SLoop /\ ~SP.input /\ stack = <<>> /\ InKw(SP.name)
                     /\ Bind(SP, SP.name, "kw") /\ UNCHANGED stack /\ SStep
S_UseDefault == /\ SLoop /\ ~SP.input /\ stack = <<>> /\ ~InKw(SP.name) /\ SP.hasdef
                /\ Bind(SP, "<default>", "fill") /\ UNCHANGED stack /\ SStep
S_DropNone == /\ SLoop /\ ~SP.input /\ stack = <<>> /\ ~InKw(SP.name) /\ ~SP.hasdef /\ ~SP.required
              /\ UNCHANGED <<stack, binds>> /\ SStep                                  \* `continue`
S_RaiseMissingAttr == /\ SLoop /\ ~SP.input /\ stack = <<>> /\ ~InKw(SP.name) /\ ~SP.hasdef /\ SP.required
                      /\ Raise("missing", SP.name)
\* leftover positional arguments and keyword arguments naming no parameter are silently ignored
S_Return == /\ pc = "s_loop" /\ i > NP
            /\ pc' = "done" /\ fails' = DoneFails(binds, extra, npos, kws)
            /\ UNCHANGED <<eid, oid, npos, kwq, kws, i, stack, binds, extra, err>>

\* ---- trace-only: CPython binds self.func(args..., kwargs...) ----------------------------------
PosKind(p) == p.pykind \in {"po", "pk"}
HasVarPos == \E k \in 1..NPy : PyParams[k].pykind = "vp"
HasVarKw == \E k \in 1..NPy : PyParams[k].pykind = "vk"
IsBound(n) == \E k \in 1..Len(binds) : binds[k].param = n
PStep == UNCHANGED <<eid, oid, npos, kws, err, fails>>
NoPosParamLeft == IF i > NPy THEN TRUE ELSE ~PosKind(PyParams[i])

P_BindPositional == /\ pc = "p_pos" /\ stack # <<>> /\ i <= NPy /\ PosKind(PyParams[i])
                    /\ Bind(PyParams[i], Args[Head(stack)].name, "pos") /\ stack' = Tail(stack) /\ i' = i + 1
                    /\ UNCHANGED <<pc, kwq, extra>> /\ PStep
P_CollectVarPositional == /\ pc = "p_pos" /\ stack # <<>> /\ NoPosParamLeft /\ HasVarPos
                          /\ extra' = extra \o [k \in 1..Len(stack) |-> Args[stack[k]].name] /\ stack' = <<>>
                          /\ UNCHANGED <<pc, kwq, i, binds>> /\ PStep
\* too many positional arguments are only diagnosed after the keywords (CPython: too_many_positional)
P_EndPositional == /\ pc = "p_pos" /\ (IF stack = <<>> THEN TRUE ELSE NoPosParamLeft /\ ~HasVarPos)
                   /\ pc' = "p_kw" /\ UNCHANGED <<kwq, i, stack, binds, extra>> /\ PStep
KwTarget(n) == {k \in PyIdx(n) : PyParams[k].pykind \in {"pk", "ko"}}
P_BindKeyword == /\ pc = "p_kw" /\ kwq # <<>> /\ KwTarget(Head(kwq)) # {} /\ ~IsBound(Head(kwq))
                 /\ Bind(PyParams[CHOOSE k \in KwTarget(Head(kwq)) : TRUE], Head(kwq), "kw") /\ kwq' = Tail(kwq)
                 /\ UNCHANGED <<pc, i, stack, extra>> /\ PStep
P_CollectVarKeyword == /\ pc = "p_kw" /\ kwq # <<>> /\ KwTarget(Head(kwq)) = {} /\ HasVarKw
                       /\ extra' = Append(extra, Head(kwq)) /\ kwq' = Tail(kwq)
                       /\ UNCHANGED <<pc, i, stack, binds>> /\ PStep
P_RaiseUnexpectedKeyword == /\ pc = "p_kw" /\ kwq # <<>> /\ KwTarget(Head(kwq)) = {} /\ ~HasVarKw
                            /\ Raise("unexpected_kw", Head(kwq))
P_RaiseMultipleValues == /\ pc = "p_kw" /\ kwq # <<>> /\ KwTarget(Head(kwq)) # {} /\ IsBound(Head(kwq))
                         /\ Raise("multiple", Head(kwq))
P_RaiseTooManyPositional == /\ pc = "p_kw" /\ kwq = <<>> /\ stack # <<>>
                            /\ Raise("too_many", Args[Head(stack)].name)
P_EndKeywords == /\ pc = "p_kw" /\ kwq = <<>> /\ stack = <<>>
                 /\ pc' = "p_fill" /\ i' = 1 /\ UNCHANGED <<kwq, stack, binds, extra>> /\ PStep
FillP == PyParams[i]
P_Skip == /\ pc = "p_fill" /\ i <= NPy /\ (IsBound(FillP.name) \/ FillP.pykind \in {"vp", "vk"})
          /\ i' = i + 1 /\ UNCHANGED <<pc, kwq, stack, binds, extra>> /\ PStep
P_UseDefault == /\ pc = "p_fill" /\ i <= NPy /\ ~IsBound(FillP.name) /\ FillP.pykind \notin {"vp", "vk"} /\ FillP.pydef
                /\ Bind(FillP, "<default>", "fill") /\ i' = i + 1 /\ UNCHANGED <<pc, kwq, stack, extra>> /\ PStep
P_RaiseMissing == /\ pc = "p_fill" /\ i <= NPy /\ ~IsBound(FillP.name) /\ FillP.pykind \notin {"vp", "vk"} /\ ~FillP.pydef
                  /\ Raise("missing", FillP.name)
P_Call == /\ pc = "p_fill" /\ i > NPy
          /\ pc' = "done" /\ fails' = DoneFails(binds, extra, npos, kws)
          /\ UNCHANGED <<eid, oid, npos, kwq, kws, i, stack, binds, extra, err>>

Next == \/ CheckStatic \/ ChooseShape \/ JudgeObserved
        \/ S_BindInputPositional \/ S_BindInputVariadic \/ S_BindInputKeyword \/ S_RaiseMissingInput \/ S_FillNone
        \/ S_BindAttrPositional \/ S_BindAttrKeyword \/ S_UseDefault \/ S_DropNone \/ S_RaiseMissingAttr \/ S_Return
        \/ P_BindPositional \/ P_CollectVarPositional \/ P_EndPositional \/ P_BindKeyword \/ P_CollectVarKeyword
        \/ P_RaiseUnexpectedKeyword \/ P_RaiseMultipleValues \/ P_RaiseTooManyPositional \/ P_EndKeywords
        \/ P_Skip \/ P_UseDefault \/ P_RaiseMissing \/ P_Call
Spec == Init /\ [][Next]_vars
\* only the observed outcomes (direction B), not the registry enumeration
SpecObserved == (Init /\ oid # 0) /\ [][JudgeObserved]_vars

-----------------------------------------------------------------------------
Terminal == pc \in {"done", "raised", "unjudged", "judged"}
\* THE PROPERTY: no clause fails, for any entry, in any call shape
BindsCorrectly == fails = {}
\* implementation model: whatever fails is one of the named deviations
Explained == \A f \in fails : f.dev # ""
\* machinery sanity (always checked): schemas list positionals first; a finished binding has
\* looked at every parameter; a parameter is bound at most once
SchemaShapeOK == \A a \in PosIdx, b \in KwIdx : a < b
MachineSane == /\ SchemaShapeOK
               /\ \A a, b \in 1..Len(binds) : a # b => binds[a].param # binds[b].param
               /\ (pc = "done" => Len(binds) <= (IF NP > NPy THEN NP ELSE NPy) /\ err = NoErr)
               /\ (pc = "raised" => err # NoErr)
\* the binding machines are deterministic: the harness asserts that every (entry, call shape) has
\* exactly one terminal state, and that every action below is taken on the real + seeded registries
\* (TLC -coverage).  Reachability witnesses (violated = reachable), usable from a cfg:
SomeKeywordBound == ~(pc = "done" /\ \E k \in 1..Len(binds) : binds[k].via = "kw")
SomeDropped == ~(pc = "done" /\ ~E.traced /\ GivenNames(npos, kws) \ BoundNames(binds, extra) # {})
SomeDefault == ~(pc = "done" /\ \E k \in 1..Len(binds) : binds[k].src = "<default>")
=============================================================================
