SPECIFICATION Spec
CONSTANTS
  Deviations <- AllDevs
  Fams <- FamsGqa
  Modes <- ModesChain
  Big = FALSE
INVARIANT NeverGqaSafe
CHECK_DEADLOCK FALSE
