SPECIFICATION Spec
CONSTANTS
  Deviations <- AllDevs
  Fams <- FamsAll
  Modes <- ModesAll
  Big = FALSE
INVARIANT NeverGqaSafe
CHECK_DEADLOCK FALSE
