SPECIFICATION Spec
CONSTANTS
  KwShapes = "ends"
  Deviations <- AllDevs
INVARIANT MachineSane
CHECK_DEADLOCK FALSE
