SPECIFICATION Spec
CONSTANTS
  Deviations <- AllDevs
  Families <- G_c
  Wide = FALSE
INVARIANT AtenWellFormed
INVARIANT DesignOK
INVARIANT DeviationsExplain
INVARIANT EmitCases
CHECK_DEADLOCK FALSE
