SPECIFICATION Spec
CONSTANTS
  KwShapes = "all"
  Deviations <- AllDevs
INVARIANT MachineSane
CHECK_DEADLOCK FALSE
