SPECIFICATION Spec
CONSTANTS
  Deviations <- AllDevs
  Families <- AllFamilies
  Wide = TRUE
INVARIANT AtenWellFormed
INVARIANT DesignOK
INVARIANT DeviationsExplain
INVARIANT EmitCases
CHECK_DEADLOCK FALSE
